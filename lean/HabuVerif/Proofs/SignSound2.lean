import HabuVerif.Proofs.SignSound
/-!
# C15 sign analysis — discharging the operator facts of `Proofs/SignSound.lean` (`OpFacts`)

See the summary at the end of the file (`nnLine_sound_partial2`).
-/
set_option autoImplicit false
set_option linter.unusedVariables false
namespace HabuVerif.Sign
open HabuVerif HabuVerif.Dsl

def NumNN : Val.Num → Prop
  | .i n => 0 ≤ n
  | .f x => F64.isNeg x = false

/-- `float(k)` of a not-negative int is not negative.  A closed fact about `Val.intToFloat` (= `F64.ofInt`, proved
for `F64.ofInt` as `F64.ofInt_notNeg`); every attempt to case-split `match F64.ofInt k with …` inside `Val.intToFloat`
made Lean evaluate `k.natAbs * 2^1074` symbolically (time-out), so the one-line lift is left as a named hypothesis. -/
def IntToFloatNN : Prop := ∀ (k : Int) (f : F64), 0 ≤ k → Val.intToFloat k = .ok f → F64.isNeg f = false

/-- the numeric branch of `+`, `-`, `*` -/
def numBin (k : Int → Int → Int) (g : F64 → F64 → F64) (x y : Val.Num) : R Val :=
  match x, y with
  | .i p, .i q => .ok (.int (k p q))
  | x, y => (do let fx ← x.toF; let fy ← y.toF; pure (.float (g fx fy)))

theorem NN_float (x : F64) : (Val.float x).NN = true ↔ F64.isNeg x = false := by
  simp [Val.NN, F64.lt_zero_eq]

theorem NN_int (n : Int) : (Val.int n).NN = true ↔ 0 ≤ n := by
  simp [Val.NN]

theorem num_NN {a : Val} {n : Val.Num} (h : a.num? = some n) (ha : a.NN = true) : NumNN n := by
  cases a <;> simp only [Val.num?, Option.some.injEq] at h <;> try (exact absurd h (by simp))
  · subst h; rename_i b; cases b <;> simp [NumNN]
  · subst h; simpa [NumNN, Val.NN] using ha
  · subst h; exact (NN_float _).1 ha

theorem isNum_num {a : Val} (h : a.isNum = true) : ∃ n, a.num? = some n := by
  cases a <;> first | exact ⟨_, rfl⟩ | cases h

theorem NN_of_num_none {r : Val} (h : r.num? = none) : r.NN = true := by
  cases r <;> first | rfl | cases h


theorem toF_NN (hI : IntToFloatNN) {n : Val.Num} {f : F64} (hn : NumNN n) (h : n.toF = .ok f) :
    F64.isNeg f = false := by
  cases n with
  | i k => exact hI k f hn h
  | f x =>
    have h' : (Except.ok x : R F64) = .ok f := h
    have : x = f := by injection h'
    subst this; exact hn

/-- the float branch of the numeric operators -/
theorem floatOp_NN (hI : IntToFloatNN) {x y : Val.Num} {g : F64 → F64 → F64} {r : Val}
    (hg : ∀ u v, F64.isNeg u = false → F64.isNeg v = false → F64.isNeg (g u v) = false)
    (hx : NumNN x) (hy : NumNN y)
    (h : (do let fx ← x.toF; let fy ← y.toF; pure (Val.float (g fx fy)) : R Val) = .ok r) :
    r.NN = true ∧ r.isNum = true := by
  cases h1 : x.toF with
  | error e => rw [h1] at h; exact absurd h (by intro h'; cases h')
  | ok fx =>
    cases h2 : y.toF with
    | error e => rw [h1, h2] at h; exact absurd h (by intro h'; cases h')
    | ok fy =>
      rw [h1, h2] at h
      have : Val.float (g fx fy) = r := by injection h
      subst this
      exact ⟨(NN_float _).2 (hg _ _ (toF_NN hI hx h1) (toF_NN hI hy h2)), rfl⟩


theorem add_num {a b : Val} {x y : Val.Num} (ha : a.num? = some x) (hb : b.num? = some y) :
    Val.add a b = numBin (fun p q => p + q) F64.add x y := by
  cases a <;> cases b <;> simp only [Val.num?, Option.some.injEq, reduceCtorEq] at ha hb <;>
    subst ha <;> subst hb <;> rfl

theorem mul_num {a b : Val} {x y : Val.Num} (ha : a.num? = some x) (hb : b.num? = some y) :
    Val.mul a b = numBin (fun p q => p * q) F64.mul x y := by
  cases a <;> cases b <;> simp only [Val.num?, Option.some.injEq, reduceCtorEq] at ha hb <;>
    subst ha <;> subst hb <;> rfl

theorem sub_num {a b : Val} {x y : Val.Num} (ha : a.num? = some x) (hb : b.num? = some y) :
    Val.sub a b = numBin (fun p q => p - q) F64.sub x y := by
  cases a <;> cases b <;> simp only [Val.num?, Option.some.injEq, reduceCtorEq] at ha hb <;>
    subst ha <;> subst hb <;> rfl

theorem add_nonnum {a b r : Val} (h : Val.add a b = .ok r) (hn : a.num? = none ∨ b.num? = none) :
    r.num? = none := by
  cases a <;> cases b <;> first
    | (exfalso; (rcases hn with hn | hn <;> cases hn); done)
    | (injection h with h; subst h; rfl)
    | (injection h)

theorem sub_nonnum {a b r : Val} (h : Val.sub a b = .ok r) (hn : a.num? = none ∨ b.num? = none) : False := by
  cases a <;> cases b <;> first
    | ((rcases hn with hn | hn <;> cases hn); done)
    | (injection h)

theorem add_NN (hI : IntToFloatNN) {a b r : Val} (h : Val.add a b = .ok r) (ha : a.NN = true) (hb : b.NN = true) : r.NN = true := by
  cases hx : a.num? with
  | none => exact NN_of_num_none (add_nonnum h (Or.inl hx))
  | some x =>
    cases hy : b.num? with
    | none => exact NN_of_num_none (add_nonnum h (Or.inr hy))
    | some y =>
      rw [add_num hx hy] at h
      unfold numBin at h
      have nx := num_NN hx ha
      have ny := num_NN hy hb
      cases x with
      | i p =>
        cases y with
        | i q =>
          have : Val.int (p + q) = r := by injection h
          subst this
          have h1 : 0 ≤ p := nx
          have h2 : 0 ≤ q := ny
          exact (NN_int _).2 (by omega)
        | f v => exact (floatOp_NN hI (fun _ _ => F64.add_notNeg) nx ny h).1
      | f u =>
        cases y with
        | i q => exact (floatOp_NN hI (fun _ _ => F64.add_notNeg) nx ny h).1
        | f v => exact (floatOp_NN hI (fun _ _ => F64.add_notNeg) nx ny h).1

theorem numOp_isNum {x y : Val.Num} {g : F64 → F64 → F64} {k : Int → Int → Int} {r : Val}
    (h : numBin k g x y = .ok r) : r.isNum = true := by
  unfold numBin at h
  have fl : ∀ x y : Val.Num, (do let fx ← x.toF; let fy ← y.toF; pure (Val.float (g fx fy)) : R Val) = .ok r →
      r.isNum = true := by
    intro x y h
    cases h1 : x.toF with
    | error e => rw [h1] at h; exact absurd h (by intro h'; cases h')
    | ok fx =>
      cases h2 : y.toF with
      | error e => rw [h1, h2] at h; exact absurd h (by intro h'; cases h')
      | ok fy =>
        rw [h1, h2] at h
        have : Val.float (g fx fy) = r := by injection h
        subst this; rfl
  cases x with
  | i p =>
    cases y with
    | i q => have : Val.int (k p q) = r := by injection h
             subst this; rfl
    | f v => exact fl _ _ h
  | f u =>
    cases y with
    | i q => exact fl _ _ h
    | f v => exact fl _ _ h

theorem add_isNum {a b r : Val} (h : Val.add a b = .ok r) (ha : a.isNum = true) (hb : b.isNum = true) :
    r.isNum = true := by
  obtain ⟨x, hx⟩ := isNum_num ha
  obtain ⟨y, hy⟩ := isNum_num hb
  rw [add_num hx hy] at h
  exact numOp_isNum h

theorem mul_isNum {a b r : Val} (h : Val.mul a b = .ok r) (ha : a.isNum = true) (hb : b.isNum = true) :
    r.isNum = true := by
  obtain ⟨x, hx⟩ := isNum_num ha
  obtain ⟨y, hy⟩ := isNum_num hb
  rw [mul_num hx hy] at h
  exact numOp_isNum h

theorem sub_isNum {a b r : Val} (h : Val.sub a b = .ok r) : r.isNum = true := by
  cases hx : a.num? with
  | none => exact (sub_nonnum h (Or.inl hx)).elim
  | some x =>
    cases hy : b.num? with
    | none => exact (sub_nonnum h (Or.inr hy)).elim
    | some y =>
      rw [sub_num hx hy] at h
      exact numOp_isNum h

theorem itemsNN_cases {v : Val} (h : v.itemsNN = true) :
    (∃ xs, v = .list xs ∧ xs.all Val.NN = true) ∨ (∃ xs, v = .tuple xs ∧ xs.all Val.NN = true) := by
  cases v <;> first | exact Or.inl ⟨_, rfl, h⟩ | exact Or.inr ⟨_, rfl, h⟩ | cases h

theorem add_items {a b r : Val} (h : Val.add a b = .ok r) (ha : a.itemsNN = true) (hb : b.itemsNN = true) :
    r.itemsNN = true := by
  rcases itemsNN_cases ha with ⟨xs, rfl, hxs⟩ | ⟨xs, rfl, hxs⟩ <;>
    rcases itemsNN_cases hb with ⟨ys, rfl, hys⟩ | ⟨ys, rfl, hys⟩
  · have : Val.list (xs ++ ys) = r := by injection h
    subst this; simp only [Val.itemsNN, List.all_append, hxs, hys, Bool.and_self]
  · exact absurd h (by intro h'; cases h')
  · exact absurd h (by intro h'; cases h')
  · have : Val.tuple (xs ++ ys) = r := by injection h
    subst this; simp only [Val.itemsNN, List.all_append, hxs, hys, Bool.and_self]

theorem neg_isNum {x r : Val} (h : Val.neg x = .ok r) : r.isNum = true := by
  cases x <;> first
    | (injection h with h; subst h; rfl)
    | (injection h)

theorem pos_isNum {x r : Val} (h : Val.pos x = .ok r) : r.isNum = true := by
  cases x <;> first
    | (injection h with h; subst h; rfl)
    | (injection h)

theorem iterItems_items {v : Val} {xs : List Val} (hv : v.itemsNN = true) (h : Val.iterItems v = .ok xs) :
    xs.all Val.NN = true := by
  rcases itemsNN_cases hv with ⟨ys, rfl, hys⟩ | ⟨ys, rfl, hys⟩
  · have : ys = xs := by injection h
    subst this; exact hys
  · have : ys = xs := by injection h
    subst this; exact hys

theorem bind_ok {α β : Type} {m : R α} {f : α → R β} {r : β} (h : (m >>= f) = .ok r) :
    ∃ a, m = .ok a ∧ f a = .ok r := by
  cases m with
  | error e => cases h
  | ok a => exact ⟨a, rfl, h⟩
theorem getD_NN {xs : List Val} (h : xs.all Val.NN = true) (k : Nat) : (xs.getD k Val.none).NN = true := by
  rw [List.getD_eq_getElem?_getD]
  cases hk : xs[k]? with
  | none => rfl
  | some x =>
    rw [List.all_eq_true] at h
    exact h x (List.mem_of_getElem? hk)
theorem seqItem_NN {xs : List Val} {i r : Val} (hxs : xs.all Val.NN = true)
    (h : (match Val.asIndexInt i with
      | some j => (do let k ← Val.normIndex j xs.length; pure (xs.getD k .none) : R Val)
      | Option.none => .error .typeError) = .ok r) : r.NN = true := by
  cases hi : Val.asIndexInt i with
  | none => rw [hi] at h; cases h
  | some j =>
    rw [hi] at h
    obtain ⟨k, _, hk⟩ := bind_ok h
    have : xs.getD k Val.none = r := by injection hk
    subst this; exact getD_NN hxs k
theorem getItem_items {x i r : Val} (hx : x.itemsNN = true) (h : Val.getItem x i = .ok r) : r.NN = true := by
  rcases itemsNN_cases hx with ⟨xs, rfl, hxs⟩ | ⟨xs, rfl, hxs⟩
  · exact seqItem_NN hxs h
  · exact seqItem_NN hxs h

/-! ## From the premises of the property and the remaining closed facts to `OpFacts` -/

/-- The closed facts about the Python operators that are NOT yet proved (no stores, no evaluator: statements about
total functions of `Dsl/Val.lean` / `Dsl/Eval.lean` and the analysis' own rule tables).  Proved here and no longer
hypotheses: `+` (not-negative, numeric, items), `-`, `*` (numeric), unary `-`/`+`, `x += iterable`, `append`, iteration
over a list of not-negative items, `x[i]` of such a list, the input premise, the shape of `readKey`. -/
structure RestFacts (K : SCtx) (ctx : Ctx) : Prop where
  intToFloat : IntToFloatNN
  mulNN : ∀ x y r, Val.mul x y = .ok r → x.NN = true → y.NN = true → r.NN = true
  div : ∀ x y r, Val.div x y = .ok r → r.isNum = true ∧ (x.NN = true → y.NN = true → r.NN = true)
  call : ∀ f vs as r, List.Forall₂ Approx vs as → applyBuiltin f vs = .ok r → Approx r (callFlags K f as)
  fstr : ∀ vs as s, List.Forall₂ Approx vs as → fmtAll vs = .ok s → ∀ cl, fstrKey as = some cl → IsKey (.str s) cl
  thresh : ∀ n k r a, Approx n a → lookupThreshold ctx.thresholds n k = .ok r → Approx r (threshVal K.ths a)
  /-- when `readKey` answers "not negative", the run-time key denotes a line of the set -/
  key : ∀ k a n, Approx k a → qualify ctx k = .ok n → (readKey K a).nn = true → keyIn K.S n = true
  wrap : WrapFact

theorem readKey_cases (K : SCtx) {a : SVal} (hb : a.bot = false) : readKey K a = .numNN ∨ readKey K a = .any := by
  unfold readKey
  rw [hb]
  simp only [Bool.false_eq_true, if_false]
  split
  · split <;> split <;> simp
  · simp
  · split
    · split <;> simp
    · simp

theorem all_append_single {xs : List Val} {v : Val} (h1 : xs.all Val.NN = true) (h2 : v.NN = true) :
    (xs ++ [v]).all Val.NN = true := by
  simp only [List.all_append, h1, List.all_cons, h2, List.all_nil, Bool.and_self]

theorem opFacts_of {K : SCtx} {ctx : Ctx} {σ : Gates.Stores} (hr : RestFacts K ctx) (ht : K.trustSum = false)
    (ha : ∀ k v, σ.is k = .ok v → v.NN = true)
    (hb : ∀ k v, σ.vs k = some v → keyIn K.S k = true → v.NN = true ∧ v.isNum = true) : OpFacts K ctx σ where
  bin := by
    intro op x y r a b hx hy h
    cases op with
    | add =>
      have h' : Val.add x y = .ok r := h
      simp only [binFlags, hx.nb, hy.nb, Bool.or_self, Bool.false_eq_true, if_false]
      refine approx_flags (fun hh => ?_) (fun hh => ?_) (fun hh => ?_)
      · simp only [Bool.and_eq_true] at hh
        exact add_NN hr.intToFloat h' (hx.nn hh.1) (hy.nn hh.2)
      · simp only [Bool.and_eq_true] at hh
        exact add_isNum h' (hx.num hh.1) (hy.num hh.2)
      · simp only [Bool.and_eq_true] at hh
        exact add_items h' (hx.items hh.1) (hy.items hh.2)
    | sub =>
      have h' : Val.sub x y = .ok r := h
      simp only [binFlags, hx.nb, hy.nb, Bool.or_self, Bool.false_eq_true, if_false]
      exact approx_flags (by simp) (fun _ => sub_isNum h') (by simp)
    | mul =>
      have h' : Val.mul x y = .ok r := h
      simp only [binFlags, hx.nb, hy.nb, Bool.or_self, Bool.false_eq_true, if_false]
      refine approx_flags (fun hh => ?_) (fun hh => ?_) (by simp)
      · simp only [Bool.and_eq_true] at hh
        exact hr.mulNN x y r h' (hx.nn hh.1) (hy.nn hh.2)
      · simp only [Bool.and_eq_true] at hh
        exact mul_isNum h' (hx.num hh.1) (hy.num hh.2)
    | div =>
      have h' : Val.div x y = .ok r := h
      simp only [binFlags, hx.nb, hy.nb, Bool.or_self, Bool.false_eq_true, if_false]
      refine approx_flags (fun hh => ?_) (fun _ => (hr.div x y r h').1) (by simp)
      simp only [Bool.and_eq_true] at hh
      exact (hr.div x y r h').2 (hx.nn hh.1) (hy.nn hh.2)
  augList := by
    intro xs v ys a b hx hv hys
    simp only [binFlags, hx.nb, hv.nb, Bool.or_self, Bool.false_eq_true, if_false]
    refine approx_flags (fun _ => rfl) (fun hh => ?_) (fun hh => ?_)
    · simp only [Bool.and_eq_true] at hh
      exact absurd (hx.num hh.1) (by simp [Val.isNum])
    · simp only [Bool.and_eq_true] at hh
      have h1 : xs.all Val.NN = true := hx.items hh.1
      have h2 := iterItems_items (hv.items hh.2) hys
      simp only [Val.itemsNN, List.all_append, h1, h2, Bool.and_self]
  call := hr.call
  sumGen := by
    intro step items r htrue
    rw [ht] at htrue; cases htrue
  readV := by
    intro k a n v hk hq hv
    rcases readKey_cases K hk.nb with h | h
    · have hnn : (readKey K a).nn = true := by rw [h]; rfl
      have hin := hr.key k a n hk hq hnn
      obtain ⟨h1, h2⟩ := hb n v hv hin
      rw [h]; exact approx_numNN h1 h2
    · rw [h]; exact approx_any v
  readI := ha
  fstr := hr.fstr
  thresh := hr.thresh
  index := by
    intro x i r a hx hit hget
    exact getItem_items (hx.items hit) hget
  items := by
    intro v a xs hv hit x hx
    unfold SVal.itemOf
    split
    · rename_i hi
      have hall := iterItems_items (hv.items hi) hit
      rw [List.all_eq_true] at hall
      exact approx_nnOnly (hall x hx)
    · exact approx_any x
  neg := fun x r h => neg_isNum h
  pos := fun x r h => pos_isNum h
  append := by
    intro xs v a b hx hv
    refine approx_flags (fun _ => rfl) (by simp) (fun hh => ?_)
    simp only [Bool.and_eq_true] at hh
    have h1 : xs.all Val.NN = true := hx.items hh.1
    exact all_append_single h1 (hv.nn hh.2)

/-- **Soundness of the sign analysis (`sum` unknown), from the premises of the property.**
If `nnLine y S c l = true` then for every instance and all stores such that (a) every input that evaluates is not
negative and (b) every stored value under a key `k` with `keyIn S k` is a not-negative number: whenever the line
evaluates to `v`, `v` is not negative (and a number).  PARTIAL: relative to the closed operator facts `RestFacts`
that are not yet proved (see its fields; each is a statement about total functions of the model, with no stores). -/
theorem nnLine_sound_partial2 {y : YearDecl} {S : SSet} {c : ClassDecl} {l : LineDecl}
    (h : nnLine y S c l = true) (inst : Option String)
    (vs : String → Option Val) (is : String → InpRes Val) (fs : String → Bool)
    (hrest : RestFacts (mkK false y S c) { year := y, form := c.name, inst := inst, thresholds := c.thresholds })
    (ha : ∀ k v, is k = .ok v → Val.NN v = true)
    (hb : ∀ k v, vs k = some v → keyIn S k = true → Val.NN v = true ∧ Val.isNum v = true)
    (v : Val) (hrun : run vs is fs (evalLine y c inst l) = .val v) :
    Val.NN v = true ∧ Val.isNum v = true :=
  nnLineWith_sound_partial h inst vs is fs
    (opFacts_of (σ := ⟨vs, is, fs⟩) hrest rfl ha hb) hrest.wrap v hrun

end HabuVerif.Sign

section AxiomCheck2
open HabuVerif.Sign
#print axioms add_NN
#print axioms add_isNum
#print axioms add_items
#print axioms sub_isNum
#print axioms mul_isNum
#print axioms neg_isNum
#print axioms iterItems_items
#print axioms getItem_items
#print axioms opFacts_of
#print axioms nnLine_sound_partial2
end AxiomCheck2
