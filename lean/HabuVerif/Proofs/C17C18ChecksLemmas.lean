import HabuVerif.Refl.C17C18Checks
import HabuVerif.Proofs.SortedTablesLemmas
/-!
# What the C17 / C18 reflection checks establish

Each generated obligation is `check data = true` closed by `decide +kernel`.  The lemmas below turn such an
equation into the statement about membership / uniqueness that the property text makes, so the Boolean
functions in `Refl/C17C18Checks.lean` are not part of the trusted base beyond their definitions being read.
Core only.
-/
set_option autoImplicit false

namespace HabuVerif.Refl

/-! ## C18 -/

/-- "no template field is driven by two mappings": targets are pairwise different -/
theorem noDoubleDrive_nodup {m : Mappings} (h : noDoubleDrive m = true) : (keys m).Nodup :=
  strictSorted_nodup (by rw [← keysSorted_eq]; exact h)

/-- … hence a target determines its mapping row -/
theorem noDoubleDrive_unique {m : Mappings} (h : noDoubleDrive m = true) (k : Nat) (a b : Mapping)
    (ha : (k, a) ∈ m) (hb : (k, b) ∈ m) : a = b :=
  lookupSorted_unique m k a b (by rw [← keysSorted_eq]; exact h) ha hb

/-- "every mapping targets a field that exists in the bundled template" -/
theorem targetsExist_sound {m : Mappings} {t : Template} (h : targetsExist m t = true) :
    ∀ k a, (k, a) ∈ m → ∃ f, (k, f) ∈ t := by
  intro k a hm
  have hk : k ∈ keys m := List.mem_map.mpr ⟨(k, a), hm, rfl⟩
  have := subsetSorted_sound _ _ (by rw [← keysSubset_eq]; exact h) k hk
  obtain ⟨⟨k', f⟩, hf, hk'⟩ := List.mem_map.mp this
  simp only at hk'
  subst hk'
  exact ⟨f, hf⟩

/-- on a sorted template a field name determines the row -/
theorem template_unique {t : Template} (hs : templateSorted t = true) {k : Nat} {f g : TField}
    (hf : (k, f) ∈ t) (hg : (k, g) ∈ t) : f = g :=
  lookupSorted_unique t k f g (by rw [← keysSorted_eq]; exact hs) hf hg

theorem kindsAgree_sound {m : Mappings} {t : Template} (h : kindsAgree m t = true) :
    ∀ k a, (k, a) ∈ m → ∃ f, (k, f) ∈ t ∧ a.kind = f.kind ∧ a.kind < 4 := by
  intro k a hm
  obtain ⟨f, hf, hp⟩ := joinAll_sound _ m t h k a hm
  simp only [Bool.and_eq_true, beq_iff_eq, decide_eq_true_eq] at hp
  exact ⟨f, hf, hp.1, hp.2⟩

/-- "length limits agree with the template": a limited text widget is driven by a mapping that declares a
limit which is not larger -/
theorem maxLenOk_sound {m : Mappings} {t : Template} (hs : templateSorted t = true)
    (h : maxLenOk m t = true) :
    ∀ k a f, (k, a) ∈ m → (k, f) ∈ t → a.kind = 0 → ∀ L, f.maxLen = some L →
      ∃ l, a.maxLength = some l ∧ l ≤ L := by
  intro k a f hm hf hk L hL
  obtain ⟨g, hg, hp⟩ := joinAll_sound _ m t h k a hm
  rw [template_unique hs hg hf] at hp
  simp only [hk, bne_self_eq_false, Bool.false_eq_true, ↓reduceIte, hL] at hp
  cases hl : a.maxLength with
  | none => rw [hl] at hp; cases hp
  | some l =>
    rw [hl] at hp
    exact ⟨l, rfl, by simpa using hp⟩

/-- "button export values agree with the template" -/
theorem trueValuesOk_sound {m : Mappings} {t : Template} (hs : templateSorted t = true)
    (h : trueValuesOk m t = true) :
    ∀ k a f, (k, a) ∈ m → (k, f) ∈ t → a.kind = 1 → ∃ v, a.trueValue = some v ∧ v ∈ f.states := by
  intro k a f hm hf hk
  obtain ⟨g, hg, hp⟩ := joinAll_sound _ m t h k a hm
  rw [template_unique hs hg hf] at hp
  simp only [hk, bne_self_eq_false, Bool.false_eq_true, ↓reduceIte] at hp
  cases hv : a.trueValue with
  | none => rw [hv] at hp; cases hp
  | some v =>
    rw [hv] at hp
    exact ⟨v, rfl, by simpa using hp⟩

theorem choicesOk_sound {m : Mappings} {t : Template} (hs : templateSorted t = true)
    (h : choicesOk m t = true) :
    ∀ k a f, (k, a) ∈ m → (k, f) ∈ t → a.kind = 2 → ∀ c ∈ a.choices, c ∈ f.states := by
  intro k a f hm hf hk c hc
  obtain ⟨g, hg, hp⟩ := joinAll_sound _ m t h k a hm
  rw [template_unique hs hg hf] at hp
  simp only [hk, bne_self_eq_false, Bool.false_eq_true, ↓reduceIte, List.all_eq_true] at hp
  simpa using hp c hc

/-- "where the template labels the field with a line number the mapped line is that line" -/
theorem labelsAgree_sound {m : Mappings} {t : Template} (hs : templateSorted t = true)
    (h : labelsAgree m t = true) :
    ∀ k a f, (k, a) ∈ m → (k, f) ∈ t → ∀ x y, a.lineLabel = some x → f.label = some y → x = y := by
  intro k a f hm hf x y hx hy
  obtain ⟨g, hg, hp⟩ := joinAll_sound _ m t h k a hm
  rw [template_unique hs hg hf] at hp
  simp only [hx, hy] at hp
  simpa using hp

/-- "every mapped line exists" -/
theorem linesExist_sound {m : Mappings} {lines fields : List Nat}
    (hc : linesCover m lines = true) (h : linesExist lines fields = true) :
    ∀ k a, (k, a) ∈ m → a.line ∈ fields := by
  intro k a hm
  unfold linesCover at hc
  rw [List.all_eq_true] at hc
  have h1 : a.line ∈ lines := by simpa using hc (k, a) hm
  exact subsetSorted_sound _ _ h _ h1

/-- "within a group of exclusive boxes at most one is on", for every value of the driving line -/
theorem groupsExclusive_sound {g : Groups} (h : groupsExclusive g = true) :
    ∀ id rows, (id, rows) ∈ g → ∀ row ∈ rows, ∀ (i j : Nat),
      row[i]? = some true → row[j]? = some true → i = j := by
  intro id rows hm row hr i j hi hj
  unfold groupsExclusive at h
  rw [List.all_eq_true] at h
  have := h (id, rows) hm
  rw [List.all_eq_true] at this
  exact atMostOne_sound row (this row hr) i j hi hj

theorem dropKeys_subset {α : Type} (ks : List Nat) (m : List (Nat × α)) :
    ∀ r ∈ dropKeys ks m, r ∈ m ∧ r.1 ∉ ks := by
  intro r hr
  unfold dropKeys at hr
  rw [List.mem_filter] at hr
  exact ⟨hr.1, by simpa using hr.2⟩

/-- `dropKeys` removes exactly the listed rows: every other row of the table is still checked -/
theorem mem_dropKeys {α : Type} (ks : List Nat) (m : List (Nat × α)) (r : Nat × α)
    (hr : r ∈ m) (hk : r.1 ∉ ks) : r ∈ dropKeys ks m := by
  unfold dropKeys
  rw [List.mem_filter]
  exact ⟨hr, by simpa using hk⟩

/-! ## C17 -/

theorem allInstantiate_sound {c : Catalogue} (h : allInstantiate c = true) :
    ∀ f ∈ c, f.instancesOk = true := by
  intro f hf
  unfold allInstantiate at h
  rw [List.all_eq_true] at h
  exact h f hf

/-- "declares that same tax year" -/
theorem yearsAgree_sound {year : Nat} {c : Catalogue} (h : yearsAgree year c = true) :
    ∀ f ∈ c, f.taxYear = some year := by
  intro f hf
  unfold yearsAgree at h
  rw [List.all_eq_true] at h
  simpa using h f hf

/-- "has a unique name" -/
theorem namesUnique_sound {c : Catalogue} (h : namesUnique c = true) : (c.map (·.name)).Nodup :=
  (nodupB_iff _).mp h

theorem namesNotReserved_sound {reserved : List Nat} {c : Catalogue}
    (h : namesNotReserved reserved c = true) : ∀ f ∈ c, f.name ∉ reserved := by
  intro f hf
  unfold namesNotReserved at h
  rw [List.all_eq_true] at h
  simpa using h f hf

theorem metadataPresent_sound {c : Catalogue} (h : metadataPresent c = true) :
    ∀ f ∈ c, f.hasDescription = true ∧ f.hasLongDescription = true ∧ f.hasJurisdiction = true := by
  intro f hf
  unfold metadataPresent at h
  rw [List.all_eq_true] at h
  have := h f hf
  simp only [Bool.and_eq_true] at this
  exact ⟨this.1.1, this.1.2, this.2⟩

/-- "every form that can require filing has a template and mappings" -/
theorem fileableComplete_sound {c : Catalogue} (h : fileableComplete c = true) :
    ∀ f ∈ c, f.fileable = true → f.hasTemplate = true ∧ 0 < f.nMappings := by
  intro f hf hfile
  unfold fileableComplete at h
  rw [List.all_eq_true] at h
  have := h f hf
  simp only [hfile, Bool.not_true, Bool.false_or, Bool.and_eq_true, decide_eq_true_eq] at this
  exact ⟨this.1, this.2⟩

theorem fileableHaveSeqNo_sound {c : Catalogue} (h : fileableHaveSeqNo c = true) :
    ∀ f ∈ c, f.fileable = true → f.hasSeqNo = true := by
  intro f hf hfile
  unfold fileableHaveSeqNo at h
  rw [List.all_eq_true] at h
  have := h f hf
  simpa [hfile] using this

theorem fiveStatuses_sound {statuses : List Nat} (h : fiveStatuses statuses = true) :
    statuses.length = 5 ∧ statuses.Nodup := by
  unfold fiveStatuses at h
  simp only [Bool.and_eq_true, beq_iff_eq] at h
  exact ⟨h.1, (nodupB_iff _).mp h.2⟩

theorem mem_dropNames (bad names : List Nat) (n : Nat) (hn : n ∈ names) (hb : n ∉ bad) :
    n ∈ dropNames bad names := by
  unfold dropNames
  rw [List.mem_filter]
  exact ⟨hn, by simpa using hb⟩

theorem mem_dropForms (ks : List Nat) (c : Catalogue) (f : FormFacts) (hf : f ∈ c) (hk : f.name ∉ ks) :
    f ∈ dropForms ks c := by
  unfold dropForms
  rw [List.mem_filter]
  exact ⟨hf, by simpa using hk⟩

/-- "duplicate-free, lower-case, dot-free input and line names" -/
theorem namesClean_sound {names : List Nat} (h : namesClean names = true) :
    names.Nodup ∧ ∀ n ∈ names, nameOk n = true := by
  unfold namesClean at h
  simp only [Bool.and_eq_true, List.all_eq_true] at h
  exact ⟨strictSorted_nodup h.1, h.2⟩

/-- the scan of `Form.threshold` finds the first matching key -/
theorem firstMatch_spec (s : Nat) : ∀ (t : Table) (i : Nat), firstMatch s t = some i →
    ∃ key, t[i]? = some key ∧ s ∈ key ∧ ∀ (j : Nat) (key' : List Nat), j < i → t[j]? = some key' → s ∉ key' := by
  intro t
  induction t with
  | nil => intro i h; simp [firstMatch] at h
  | cons k u ih =>
    intro i h
    unfold firstMatch at h
    split at h
    · rename_i hk
      cases h
      refine ⟨k, by simp, by simpa [keyMatches] using hk, ?_⟩
      intro j key' hj; omega
    · rename_i hk
      cases hf : firstMatch s u with
      | none => rw [hf] at h; cases h
      | some i' =>
        rw [hf] at h
        simp only [Option.map_some, Option.some.injEq] at h
        subst h
        obtain ⟨key, hkey, hs, hbefore⟩ := ih i' hf
        refine ⟨key, by simpa using hkey, hs, ?_⟩
        intro j key' hj hjk
        cases j with
        | zero =>
          simp only [List.getElem?_cons_zero, Option.some.injEq] at hjk
          subst hjk
          simpa [keyMatches] using hk
        | succ j =>
          simp only [List.getElem?_cons_succ] at hjk
          exact hbefore j key' (by omega) hjk

/-- "every amount looked up by filing status yields exactly one value": for each status exactly one key of the
table matches, and it is the one `Form.threshold` returns -/
theorem tableTotal_sound {statuses : List Nat} {t : Table} (h : tableTotal statuses t = true) :
    ∀ s ∈ statuses, ∃ (i : Nat) (key : List Nat), t[i]? = some key ∧ s ∈ key ∧
      (∀ (j : Nat) (key' : List Nat), t[j]? = some key' → s ∈ key' → j = i) ∧ firstMatch s t = some i := by
  intro s hs
  unfold tableTotal at h
  rw [List.all_eq_true] at h
  have h1 : countB (keyMatches s) t = 1 := by simpa using h s hs
  obtain ⟨i, key, hi, hp, huniq⟩ := countB_one (keyMatches s) t h1
  have hmem : s ∈ key := by simpa [keyMatches] using hp
  have huniq' : ∀ (j : Nat) (key' : List Nat), t[j]? = some key' → s ∈ key' → j = i := by
    intro j key' hj hk
    exact huniq j key' hj (by simpa [keyMatches] using hk)
  refine ⟨i, key, hi, hmem, huniq', ?_⟩
  -- the first match exists and, by uniqueness, is `i`
  cases hf : firstMatch s t with
  | none =>
    exfalso
    -- no key matches, contradiction with `key`
    have : ∀ (t : Table), firstMatch s t = none → ∀ k ∈ t, s ∉ k := by
      intro t
      induction t with
      | nil => intro _ k hk; cases hk
      | cons a u ih =>
        intro hn k hk
        unfold firstMatch at hn
        split at hn
        · cases hn
        · rename_i hka
          rcases List.mem_cons.mp hk with rfl | hk'
          · simpa [keyMatches] using hka
          · cases hfu : firstMatch s u with
            | none => exact ih hfu k hk'
            | some x => rw [hfu] at hn; cases hn
    exact this t hf key (List.mem_of_getElem? hi) hmem
  | some i' =>
    obtain ⟨key', hk', hs', _⟩ := firstMatch_spec s t i' hf
    rw [huniq' i' key' hk' hs']

theorem thresholdsTotal_sound {statuses : List Nat} {tables : List (Nat × Table)}
    (h : thresholdsTotal statuses tables = true) :
    ∀ nt ∈ tables, ∀ s ∈ statuses, ∃ (i : Nat) (key : List Nat), nt.2[i]? = some key ∧ s ∈ key ∧
      (∀ (j : Nat) (key' : List Nat), nt.2[j]? = some key' → s ∈ key' → j = i) ∧
      firstMatch s nt.2 = some i := by
  intro nt hnt
  unfold thresholdsTotal at h
  rw [List.all_eq_true] at h
  exact tableTotal_sound (h nt hnt)

end HabuVerif.Refl
