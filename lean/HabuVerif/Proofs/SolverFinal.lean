import HabuVerif.Proofs.SolverLoop
/-!
# What the invariant says at the exit of `solve`
-/
set_option autoImplicit false
set_option linter.unusedSectionVars false
set_option linter.unusedVariables false

namespace HabuVerif
open Tracker

variable {N I F V S : Type} [DecidableEq N] [DecidableEq I] [DecidableEq F]
variable {C : Cat N I F V S} {σ : Sched N I}

theorem hasUnmet_false_unmet_nil {D W : Type} [DecidableEq D] {t : Tracker D W} (hwf : WF t)
    (hmet : t.met = []) (h : t.hasUnmet = false) : t.unmet = [] := by
  cases hu : t.unmet with
  | nil => rfl
  | cons p l =>
    exfalso
    have hne : p.2 ≠ [] := hwf.nonempty p (by rw [hu]; simp)
    have : t.hasUnmet = true := by
      unfold hasUnmet
      rw [hu, hmet]
      simp only [List.any_cons, List.contains_nil, Bool.not_false, Bool.and_true, Bool.or_eq_true,
        Bool.not_eq_eq_eq_not, Bool.not_true, List.isEmpty_eq_false_iff]
      exact Or.inl hne
    rw [h] at this; cases this

theorem no_waits_of_unmet_nil {D W : Type} [DecidableEq D] {t : Tracker D W} (h : t.unmet = [])
    (d : D) (w : W) : ¬ Waits t d w := by
  unfold Waits; rw [h]; simp [pairs]

/-- at loop exit nothing is queued and no met name is pending -/
theorem loopCond_false {s : St N I F V S} (h : loopCond s = false) :
    s.queue = [] ∧ s.ideps.met = [] ∧ s.fdeps.met = [] ∧ (s.ideps.hasUnmet = true → s.refused = true) := by
  unfold loopCond at h
  simp only [Bool.or_eq_false_iff, Bool.not_eq_eq_eq_not, Bool.not_false, List.isEmpty_iff,
    Bool.and_eq_false_imp] at h
  obtain ⟨⟨⟨h1, h2⟩, h3⟩, h4⟩ := h
  refine ⟨h1, ?_, ?_, ?_⟩
  · simpa [hasMet] using h2
  · simpa [hasMet] using h4
  · intro hu; simpa using h3 hu

end HabuVerif
