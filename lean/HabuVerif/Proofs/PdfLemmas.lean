import HabuVerif.Core.Pdf
/-!
# FDF round trip and form selection

* `decode_escape` : `pdfDecodeString (escapePdf s ++ ')' :: rest) = some (s, rest)` for every `s` without
  a raw CARRIAGE RETURN.
* `fdf_roundtrip` : `decodeFdfFields (createFdf m) = some m` for every list of pairs whose names and values
  contain no `'\r'` (no other character is excluded; the names need not even be distinct).
  Why `'\r'` has to go: `_escape_pdf_string` leaves it alone, and ISO 32000-1 §7.3.4.2 says an end-of-line
  marker inside a literal string that is not preceded by a backslash is read as ONE `'\n'`, whether it was
  CR, LF or CR LF.  `cr_not_preserved` shows the loss.
* negative control `raw_does_not_roundtrip`: without the escaping the value `a) /V (b` does not survive.
* `fill_selection_*` : what `PDFFiller.fill` selects.
-/
set_option autoImplicit false

namespace HabuVerif.Pdf

/-! ## escaping -/

/-- the three `replace` calls amount to one pass -/
def escChar (c : Char) : Text := if c = '\\' ∨ c = '(' ∨ c = ')' then ['\\', c] else [c]

theorem escapePdf_nil : escapePdf [] = [] := rfl

theorem escapePdf_cons (c : Char) (s : Text) : escapePdf (c :: s) = escChar c ++ escapePdf s := by
  unfold escapePdf replaceChar escChar
  by_cases h1 : c = '\\'
  · subst h1; simp [List.flatMap_cons]
  · by_cases h2 : c = '('
    · subst h2; simp [List.flatMap_cons]
    · by_cases h3 : c = ')'
      · subst h3; simp [List.flatMap_cons]
      · simp [List.flatMap_cons, h1, h2, h3]

theorem decode_escape_aux (s rest : Text) (hs : '\r' ∉ s) (acc : Text) :
    pdfDecodeAux (escapePdf s ++ ')' :: rest) .norm 0 acc = some (acc.reverse ++ s, rest) := by
  induction s generalizing acc with
  | nil => simp [escapePdf_nil, pdfDecodeAux, feed, normStep]
  | cons c s ih =>
    have hc : c ≠ '\r' := fun h => hs (by simp [h])
    have hs' : '\r' ∉ s := fun h => hs (List.mem_cons_of_mem _ h)
    rw [escapePdf_cons]
    unfold escChar
    by_cases h1 : c = '\\'
    · subst h1
      simp [pdfDecodeAux, feed, normStep, escStep, ih hs']
    · by_cases h2 : c = '('
      · subst h2
        simp [pdfDecodeAux, feed, normStep, escStep, ih hs']
      · by_cases h3 : c = ')'
        · subst h3
          simp [pdfDecodeAux, feed, normStep, escStep, ih hs']
        · simp [pdfDecodeAux, feed, normStep, h1, h2, h3, hc, ih hs']

/-- Core lemma: a reader of PDF literal strings gets back exactly what `_escape_pdf_string` was given. -/
theorem decode_escape (s rest : Text) (hs : '\r' ∉ s) :
    pdfDecodeString (escapePdf s ++ ')' :: rest) = some (s, rest) := by
  simpa [pdfDecodeString] using decode_escape_aux s rest hs []

/-! ## the whole file -/

theorem dropPrefix_append (p s : Text) : dropPrefix p (p ++ s) = some s := by
  induction p with
  | nil => cases s <;> rfl
  | cons c p ih => simp [dropPrefix, ih]

theorem decodeEntry_entry (kv : Text × Text) (rest : Text) (hk : '\r' ∉ kv.1) (hv : '\r' ∉ kv.2) :
    decodeEntry (fdfEntry escapePdf kv ++ rest) = some (kv, rest) := by
  unfold decodeEntry fdfEntry
  simp only [List.append_assoc, List.cons_append, dropPrefix_append, Option.bind_eq_bind,
    Option.bind_some]
  rw [decode_escape _ _ hk]
  simp only [Option.bind_some, dropPrefix_append]
  rw [decode_escape _ _ hv]
  simp [dropPrefix_append]

theorem intercalate_cons_cons {α : Type} (sep x y : List α) (l : List (List α)) :
    List.intercalate sep (x :: y :: l) = x ++ sep ++ List.intercalate sep (y :: l) := by
  simp [List.intercalate, List.intersperse]

theorem intercalate_singleton {α : Type} (sep x : List α) : List.intercalate sep [x] = x := by
  simp [List.intercalate, List.intersperse]

theorem entry_ne_footer (kv : Text × Text) (rest : Text) :
    ('\n' :: (fdfEntry escapePdf kv ++ rest)) ≠ fdfFooter := by
  unfold fdfEntry tOpen fdfFooter
  intro h
  simp at h

theorem decodeEntries_body (m : List (Text × Text)) (hm : m ≠ [])
    (h : ∀ kv ∈ m, '\r' ∉ kv.1 ∧ '\r' ∉ kv.2) (fuel : Nat) (hf : m.length ≤ fuel) :
    decodeEntries fuel (List.intercalate ['\n'] (m.map (fdfEntry escapePdf)) ++ fdfFooter) = some m := by
  induction m generalizing fuel with
  | nil => exact absurd rfl hm
  | cons e es ih =>
    cases fuel with
    | zero => simp at hf
    | succ fuel =>
      have he := h e (by simp)
      cases es with
      | nil =>
        simp only [List.map_cons, List.map_nil, intercalate_singleton, decodeEntries]
        rw [decodeEntry_entry e _ he.1 he.2]
        simp
      | cons e2 es2 =>
        have ih' := ih (by simp) (fun kv hkv => h kv (List.mem_cons_of_mem _ hkv)) fuel
          (by simp at hf ⊢; omega)
        simp only [List.map_cons, intercalate_cons_cons, List.append_assoc, decodeEntries]
        rw [decodeEntry_entry e _ he.1 he.2]
        simp only [Option.bind_eq_bind, Option.bind_some]
        have hne : (['\n'] ++ (List.intercalate ['\n'] (fdfEntry escapePdf e2 :: List.map (fdfEntry escapePdf) es2)
            ++ fdfFooter)) ≠ fdfFooter := by
          cases es2 with
          | nil =>
            simp only [List.map_nil, intercalate_singleton]
            exact entry_ne_footer e2 fdfFooter
          | cons e3 es3 =>
            simp only [List.map_cons, intercalate_cons_cons, List.append_assoc]
            exact entry_ne_footer e2 _
        rw [if_neg hne]
        simp only [List.map_cons] at ih'
        simp [dropPrefix, ih']

theorem length_le_intercalate (m : List (Text × Text)) :
    m.length ≤ (List.intercalate ['\n'] (m.map (fdfEntry escapePdf))).length := by
  induction m with
  | nil => simp
  | cons e es ih =>
    cases es with
    | nil => simp [fdfEntry, tOpen]
    | cons e2 es2 =>
      have h1 : 1 ≤ (fdfEntry escapePdf e).length := by simp [fdfEntry, tOpen]
      simp only [List.map_cons, intercalate_cons_cons, List.length_append, List.length_cons,
        List.length_nil] at ih ⊢
      omega

theorem entry_append_ne_footer (kv : Text × Text) (rest : Text) :
    fdfEntry escapePdf kv ++ rest ≠ fdfFooter := by
  unfold fdfEntry tOpen fdfFooter
  intro h
  simp at h

/-- **FDF round trip.**  Whatever names and values `_create_fdf` is given (any characters except a raw
carriage return, in names and values alike; names need not be distinct), reading the `/T`/`/V` literal
strings back by the rules of ISO 32000-1 yields exactly the data. -/
theorem fdf_roundtrip (m : List (Text × Text)) (h : ∀ kv ∈ m, '\r' ∉ kv.1 ∧ '\r' ∉ kv.2) :
    decodeFdfFields (createFdf m) = some m := by
  unfold decodeFdfFields createFdf createFdfWith
  simp only [List.append_assoc, dropPrefix_append, Option.bind_eq_bind, Option.bind_some]
  cases m with
  | nil => simp [List.intercalate]
  | cons e es =>
    have hne : (List.intercalate ['\n'] (List.map (fdfEntry escapePdf) (e :: es)) ++ fdfFooter) ≠ fdfFooter := by
      cases es with
      | nil =>
        simp only [List.map_cons, List.map_nil, intercalate_singleton]
        exact entry_append_ne_footer e _
      | cons e2 es2 =>
        simp only [List.map_cons, intercalate_cons_cons, List.append_assoc]
        exact entry_append_ne_footer e _
    rw [if_neg hne]
    apply decodeEntries_body _ (by simp) h
    have := length_le_intercalate (e :: es)
    simp only [List.length_append]
    omega

/-- the same for a `dict` (distinct names), as the task states it -/
theorem fdf_roundtrip_dict (m : List (Text × Text)) (_hd : (m.map Prod.fst).Nodup)
    (h : ∀ kv ∈ m, '\r' ∉ kv.1 ∧ '\r' ∉ kv.2) : decodeFdfFields (createFdf m) = some m :=
  fdf_roundtrip m h

/-- NEGATIVE control: the FDF that `_create_fdf` wrote before `_escape_pdf_string` existed does not
round-trip the value `a) /V (b`. -/
theorem raw_does_not_roundtrip :
    decodeFdfFields (createFdfRaw [(['k'], "a) /V (b".toList)]) ≠ some [(['k'], "a) /V (b".toList)] := by
  decide

/-- … while the escaped one does (instance of `fdf_roundtrip`, here by evaluation). -/
example : decodeFdfFields (createFdf [(['k'], "a) /V (b".toList)]) = some [(['k'], "a) /V (b".toList)] := by
  decide

/-- why `'\r'` is excluded: a raw carriage return comes back as a line feed -/
theorem cr_not_preserved :
    decodeFdfFields (createFdf [(['k'], ['a', '\r', 'b'])]) = some [(['k'], ['a', '\n', 'b'])] := by
  decide

/-! ## which forms are filled -/

theorem keyLe_trans (a b c : FormInfo) : keyLe a b = true → keyLe b c = true → keyLe a c = true := by
  simp only [keyLe, Bool.or_eq_true, Bool.and_eq_true, decide_eq_true_eq, beq_iff_eq]
  omega

theorem keyLe_total (a b : FormInfo) : (keyLe a b || keyLe b a) = true := by
  simp only [keyLe, Bool.or_eq_true, Bool.and_eq_true, decide_eq_true_eq, beq_iff_eq]
  omega

/-- the forms that are candidates, in the order the solution file lists them -/
def candidates (sections : List FormInfo) : List FormInfo :=
  (sections.filter fun f => f.name ≠ DEFAULT).filter fun f => f.needsFiling

theorem fillSelection_perm (l : List FormInfo) : (fillSelection l).Perm (candidates l) :=
  List.mergeSort_perm _ _

/-- exactly the sections (other than `DEFAULT`) that need filing … -/
theorem fill_selection_mem (l : List FormInfo) (f : FormInfo) :
    f ∈ fillSelection l ↔ f ∈ l ∧ f.name ≠ DEFAULT ∧ f.needsFiling = true := by
  rw [(fillSelection_perm l).mem_iff]
  simp only [candidates, List.mem_filter, ne_eq, decide_not, Bool.not_eq_eq_eq_not,
    Bool.not_true, decide_eq_false_iff_not, and_assoc]

/-- … each as often as it is listed (so: once, when the section names are distinct) … -/
theorem count_filter_ite {α : Type} [DecidableEq α] (p : α → Bool) (a : α) (l : List α) :
    (l.filter p).count a = if p a = true then l.count a else 0 := by
  by_cases h : p a = true
  · rw [if_pos h, List.count_filter h]
  · rw [if_neg h]
    apply List.count_eq_zero.mpr
    intro hm
    exact h (List.mem_filter.mp hm).2

theorem fill_selection_count (l : List FormInfo) (f : FormInfo) :
    (fillSelection l).count f = if f.name ≠ DEFAULT ∧ f.needsFiling = true then l.count f else 0 := by
  rw [(fillSelection_perm l).count_eq]
  unfold candidates
  rw [count_filter_ite, count_filter_ite]
  by_cases h1 : f.name ≠ DEFAULT <;> by_cases h2 : f.needsFiling = true <;> simp_all

theorem fill_selection_nodup (l : List FormInfo) (h : (l.map (·.name)).Nodup) :
    ((fillSelection l).map (·.name)).Nodup := by
  have hp : ((fillSelection l).map (·.name)).Perm ((candidates l).map (·.name)) :=
    (fillSelection_perm l).map _
  rw [hp.nodup_iff]
  have hs : ((candidates l).map (·.name)).Sublist (l.map (·.name)) := by
    apply List.Sublist.map
    exact (List.filter_sublist).trans List.filter_sublist
  exact hs.nodup h

/-- … ordered by `(jurisdiction, sequence_no)` … -/
theorem fill_selection_sorted (l : List FormInfo) :
    (fillSelection l).Pairwise fun a b => keyLe a b = true :=
  List.pairwise_mergeSort keyLe_trans keyLe_total _

/-- … and stable: forms that are already in key order in the solution file keep their relative order
(in particular forms with equal keys, e.g. several instances of one form). -/
theorem fill_selection_stable (l : List FormInfo) (c : List FormInfo)
    (hc : c.Pairwise fun a b => keyLe a b = true) (hs : c.Sublist (candidates l)) :
    c.Sublist (fillSelection l) :=
  List.sublist_mergeSort keyLe_trans keyLe_total hc hs

theorem fill_selection_stable_pair (l : List FormInfo) (a b : FormInfo)
    (hab : keyLe a b = true) (hs : [a, b].Sublist (candidates l)) : [a, b].Sublist (fillSelection l) :=
  List.pair_sublist_mergeSort keyLe_trans keyLe_total hab hs

/-- the selection is determined by these properties: any sorted permutation of the candidates that is
stable in the above sense is the model's answer -/
theorem fill_selection_unique (l r : List FormInfo) (hp : r.Perm (candidates l))
    (hsorted : r.Pairwise fun a b => keyLe a b = true)
    (hstable : ∀ a b, keyLe a b = true → keyLe b a = true → [a, b].Sublist (candidates l) → a ≠ b →
      [a, b].Sublist r)
    (hnd : (candidates l).Nodup) : r = fillSelection l := by
  have hp2 : r.Perm (fillSelection l) := hp.trans (fillSelection_perm l).symm
  have hnr : r.Nodup := hp.nodup_iff.mpr hnd
  -- two nodup permutations of each other with the same relative order of every pair are equal
  have key : ∀ a b, [a, b].Sublist r → [a, b].Sublist (fillSelection l) := by
    intro a b hab
    have hne : a ≠ b := by
      intro h; subst h
      have := hab.nodup hnr
      simp at this
    have har : a ∈ r := hab.subset (by simp)
    have hbr : b ∈ r := hab.subset (by simp)
    have hle : keyLe a b = true := by
      have := hsorted.sublist hab
      simpa using this
    -- position in the candidates
    have hac : a ∈ candidates l := hp.mem_iff.mp har
    have hbc : b ∈ candidates l := hp.mem_iff.mp hbr
    by_cases hord : [a, b].Sublist (candidates l)
    · exact fill_selection_stable_pair l a b hle hord
    · -- then b comes before a among the candidates
      have hba : [b, a].Sublist (candidates l) := by
        rcases List.mem_iff_append.mp hac with ⟨s, t, hst⟩
        by_cases hbs : b ∈ s
        · rw [hst]
          have h1 : [b].Sublist s := List.singleton_sublist.mpr hbs
          have h2 : [a].Sublist (a :: t) := by simp
          simpa using h1.append h2
        · exfalso
          apply hord
          have hbt : b ∈ t := by
            rw [hst] at hbc
            simp only [List.mem_append, List.mem_cons] at hbc
            rcases hbc with h | h | h
            · exact absurd h hbs
            · exact absurd h.symm hne
            · exact h
          rw [hst]
          have h1 : [a, b].Sublist (a :: t) := by
            simpa using (List.singleton_sublist.mpr hbt).cons_cons a
          exact h1.trans (List.sublist_append_right _ _)
      by_cases hle2 : keyLe b a = true
      · -- equal keys: r must have them in candidate order, contradiction with nodup
        have h1 := hstable b a hle2 hle hba (Ne.symm hne)
        exfalso
        -- [a,b] and [b,a] both sublists of a nodup list
        have : ∀ (r : List FormInfo), r.Nodup → [a, b].Sublist r → [b, a].Sublist r → False := by
          intro r
          induction r with
          | nil => intro _ h; simp at h
          | cons x xs ihx =>
            intro hnd h1 h2
            have hndx := List.nodup_cons.mp hnd
            rcases List.sublist_cons_iff.mp h1 with h1' | ⟨r1, hr1, h1'⟩
            · rcases List.sublist_cons_iff.mp h2 with h2' | ⟨r2, hr2, h2'⟩
              · exact ihx hndx.2 h1' h2'
              · simp at hr2
                rcases hr2 with ⟨rfl, rfl⟩
                exact hndx.1 (h1'.subset (by simp))
            · simp at hr1
              rcases hr1 with ⟨rfl, rfl⟩
              rcases List.sublist_cons_iff.mp h2 with h2' | ⟨r2, hr2, h2'⟩
              · exact hndx.1 (h2'.subset (by simp))
              · simp at hr2
                exact hne hr2.1.symm
        exact this r hnr hab h1
      · -- strictly smaller key: the sorted model output has a before b
        have hpm := fill_selection_sorted l
        have ham : a ∈ fillSelection l := hp2.mem_iff.mp har
        have hbm : b ∈ fillSelection l := hp2.mem_iff.mp hbr
        rcases List.mem_iff_append.mp ham with ⟨s, t, hst⟩
        by_cases hbs : b ∈ s
        · exfalso
          rw [hst] at hpm
          have := (List.pairwise_append.mp hpm).2.2 b hbs a (by simp)
          exact hle2 this
        · have hbt : b ∈ t := by
            rw [hst] at hbm
            simp only [List.mem_append, List.mem_cons] at hbm
            rcases hbm with h | h | h
            · exact absurd h hbs
            · exact absurd h.symm hne
            · exact h
          rw [hst]
          have h1 : [a, b].Sublist (a :: t) := by
            simpa using (List.singleton_sublist.mpr hbt).cons_cons a
          exact h1.trans (List.sublist_append_right _ _)
  -- equality of nodup perms with the same pair order
  have gen : ∀ (r m : List FormInfo), r.Perm m → r.Nodup →
      (∀ a b, [a, b].Sublist r → [a, b].Sublist m) → r = m := by
    intro r
    induction r with
    | nil => intro m hp _ _; exact (List.nil_perm.mp hp).symm
    | cons x xs ihx =>
      intro m hp hnd hk
      have hndx := List.nodup_cons.mp hnd
      have hmnd : m.Nodup := hp.nodup_iff.mp hnd
      cases m with
      | nil => exact absurd hp.symm (by simp)
      | cons y ys =>
        have hxy : x = y := by
          refine Classical.byContradiction fun hxy => ?_
          have hy : y ∈ xs := by
            have : y ∈ x :: xs := hp.mem_iff.mpr (by simp)
            simp only [List.mem_cons] at this
            rcases this with h | h
            · exact absurd h.symm hxy
            · exact h
          have h1 : [x, y].Sublist (x :: xs) := by
            simpa using (List.singleton_sublist.mpr hy).cons_cons x
          have h2 := hk x y h1
          rcases List.sublist_cons_iff.mp h2 with h2' | ⟨r2, hr2, _⟩
          · have : y ∈ ys := h2'.subset (by simp)
            exact (List.nodup_cons.mp hmnd).1 this
          · simp at hr2
            exact hxy hr2.1
        subst hxy
        congr 1
        apply ihx ys (List.Perm.cons_inv hp) hndx.2
        intro a b hab
        have h2 := hk a b (hab.cons x)
        rcases List.sublist_cons_iff.mp h2 with h2' | ⟨r2, hr2, _⟩
        · exact h2'
        · simp at hr2
          exfalso
          have : a ∈ xs := hab.subset (by simp)
          rw [← hr2.1] at hndx
          exact hndx.1 this
  exact gen r _ hp2 hnr key

end HabuVerif.Pdf
