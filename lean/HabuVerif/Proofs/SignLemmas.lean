import HabuVerif.Spec.Sign
import HabuVerif.Proofs.F64Lemmas
/-!
# C15 sign analysis — facts about binary64 and the Python operators: "not negative" is preserved

`F64.isNeg x` is `x < 0.0` written on the representation (`lt_zero_eq`).  Sums, products, quotients, roundings,
conversions, ceilings of not-negative doubles / ints are not negative; `max` with a not-negative first operand or a
not-negative real constant anywhere is not negative; `min` returns one of its operands.
-/
set_option autoImplicit false
set_option linter.unusedVariables false

namespace HabuVerif.F64

/-- `x < 0.0`, on the representation -/
def isNeg : F64 → Bool
  | finite n m _ => n && decide (m ≠ 0)
  | inf n => n
  | nan => false

theorem lt_zero_eq (x : F64) : lt x zero = isNeg x := by
  cases x with
  | nan => rfl
  | inf n => rfl
  | finite n m e =>
    have h := lt_finite_iff n m e false 0 0
    rw [Bool.eq_iff_iff]
    show lt (finite n m e) (finite false 0 0) = true ↔ _
    rw [h]
    have h0 : signed false (0 * 2 ^ 0) = 0 := by simp [signed]
    rw [h0, signed_lt_zero]
    have hp : 0 < 2 ^ e := Nat.two_pow_pos e
    simp only [isNeg, Bool.and_eq_true, decide_eq_true_eq]
    constructor
    · rintro ⟨hn, hm⟩
      refine ⟨hn, ?_⟩
      intro h0; subst h0; simp at hm
    · rintro ⟨hn, hm⟩
      exact ⟨hn, Nat.mul_pos (Nat.pos_of_ne_zero hm) hp⟩

theorem isNeg_mk {s : Bool} {m e : Nat} (h : isNeg (mk s m e) = true) : s = true := by
  unfold mk at h
  split at h
  · exact h
  · simp only [isNeg, Bool.and_eq_true] at h; exact h.1

theorem isNeg_ofScaled {s : Bool} {N D : Nat} (h : isNeg (ofScaled s N D) = true) : s = true := by
  rw [ofScaled_def] at h
  split at h <;> exact isNeg_mk h

theorem isNeg_ofScaled_false (N D : Nat) : isNeg (ofScaled false N D) = false := by
  cases h : isNeg (ofScaled false N D) with
  | false => rfl
  | true => exact absurd (isNeg_ofScaled h) (by simp)

/-- a finite value that is not negative has sign flag false or magnitude 0 -/
theorem notNeg_finite {n : Bool} {m e : Nat} (h : isNeg (finite n m e) = false) : n = false ∨ m = 0 := by
  cases n with
  | false => exact Or.inl rfl
  | true =>
    right
    simp only [isNeg, Bool.true_and, decide_eq_false_iff_not, ne_eq, not_not] at h
    exact h

theorem signed_nonneg_of_notNeg {n : Bool} {m e : Nat} (h : isNeg (finite n m e) = false) (k : Nat) :
    0 ≤ signed n (m * k) := by
  rcases notNeg_finite h with hn | hm
  · subst hn; simp [signed]; exact Int.natCast_nonneg _
  · subst hm; simp [signed]

theorem add_notNeg {x y : F64} (hx : isNeg x = false) (hy : isNeg y = false) : isNeg (add x y) = false := by
  cases x with
  | nan => rfl
  | inf n1 =>
    simp only [isNeg] at hx
    subst hx
    cases y with
    | nan => rfl
    | inf n2 => simp only [isNeg] at hy; subst hy; rfl
    | finite n2 m2 e2 => rfl
  | finite n1 m1 e1 =>
    cases y with
    | nan => rfl
    | inf n2 => simp only [isNeg] at hy; subst hy; rfl
    | finite n2 m2 e2 =>
      rw [add_finite_def]
      split
      · simp [isNeg]
      · have h1 : 0 ≤ (aligned n1 m1 e1 n2 m2 e2).1 := by
          unfold aligned; simp only
          exact signed_nonneg_of_notNeg hx _
        have h2 : 0 ≤ (aligned n1 m1 e1 n2 m2 e2).2 := by
          unfold aligned; simp only
          exact signed_nonneg_of_notNeg hy _
        have hd : decide ((aligned n1 m1 e1 n2 m2 e2).1 + (aligned n1 m1 e1 n2 m2 e2).2 < 0) = false := by
          simp only [decide_eq_false_iff_not]; omega
        rw [hd]
        exact isNeg_ofScaled_false _ _

theorem mul_notNeg {x y : F64} (hx : isNeg x = false) (hy : isNeg y = false) : isNeg (mul x y) = false := by
  cases x with
  | nan => rfl
  | inf n1 =>
    simp only [isNeg] at hx
    subst hx
    cases y with
    | nan => rfl
    | inf n2 => simp only [isNeg] at hy; subst hy; rfl
    | finite n2 m2 e2 =>
      show isNeg (if m2 = 0 then nan else inf (false != n2)) = false
      split
      · rfl
      · rename_i hm
        rcases notNeg_finite hy with h | h
        · subst h; rfl
        · exact absurd h hm
  | finite n1 m1 e1 =>
    cases y with
    | nan => rfl
    | inf n2 =>
      simp only [isNeg] at hy; subst hy
      show isNeg (if m1 = 0 then nan else inf (n1 != false)) = false
      split
      · rfl
      · rename_i hm
        rcases notNeg_finite hx with h | h
        · subst h; rfl
        · exact absurd h hm
    | finite n2 m2 e2 =>
      rw [mul_finite_def]
      rcases notNeg_finite hx with h1 | h1
      · rcases notNeg_finite hy with h2 | h2
        · subst h1; subst h2; exact isNeg_ofScaled_false _ _
        · subst h2; simp [ofScaled_zero, isNeg]
      · subst h1; simp [ofScaled_zero, isNeg]

theorem div_any_nan (x : F64) : div x nan = some nan := by cases x <;> rfl
theorem div_nan_inf (n : Bool) : div nan (inf n) = some nan := rfl
theorem div_inf_inf (n1 n2 : Bool) : div (inf n1) (inf n2) = some nan := rfl
theorem div_fin_inf (n1 : Bool) (m1 e1 : Nat) (n2 : Bool) :
    div (finite n1 m1 e1) (inf n2) = some (finite (n1 != n2) 0 0) := rfl
theorem div_nan_fin (n2 : Bool) (m2 e2 : Nat) :
    div nan (finite n2 m2 e2) = if m2 = 0 then none else some nan := rfl
theorem div_inf_fin (n1 n2 : Bool) (m2 e2 : Nat) :
    div (inf n1) (finite n2 m2 e2) = if m2 = 0 then none else some (inf (n1 != n2)) := rfl

theorem div_notNeg {x y r : F64} (hx : isNeg x = false) (hy : isNeg y = false) (h : div x y = some r) :
    isNeg r = false := by
  cases y with
  | nan =>
    rw [div_any_nan, Option.some.injEq] at h; subst h; rfl
  | inf n2 =>
    simp only [isNeg] at hy; subst hy
    cases x with
    | nan => rw [div_nan_inf, Option.some.injEq] at h; subst h; rfl
    | inf n1 => rw [div_inf_inf, Option.some.injEq] at h; subst h; rfl
    | finite n1 m1 e1 => rw [div_fin_inf, Option.some.injEq] at h; subst h; simp [isNeg]
  | finite n2 m2 e2 =>
    by_cases hm : m2 = 0
    · subst hm; rw [div_zero] at h; simp at h
    · have hn2 : n2 = false := by
        rcases notNeg_finite hy with h' | h'
        · exact h'
        · exact absurd h' hm
      subst hn2
      cases x with
      | nan => rw [div_nan_fin, if_neg hm, Option.some.injEq] at h; subst h; rfl
      | inf n1 =>
        simp only [isNeg] at hx; subst hx
        rw [div_inf_fin, if_neg hm, Option.some.injEq] at h; subst h; rfl
      | finite n1 m1 e1 =>
        rw [div_finite_def _ _ _ _ _ _ hm] at h
        simp only [Option.some.injEq] at h
        subst h
        rcases notNeg_finite hx with h1 | h1
        · subst h1; exact isNeg_ofScaled_false _ _
        · subst h1
          have : 0 * 2 ^ e1 * one = 0 := by rw [Nat.zero_mul, Nat.zero_mul]
          rw [this, ofScaled_zero]; simp [isNeg]

theorem roundN_notNeg {x : F64} (hx : isNeg x = false) (n : Nat) : isNeg (roundN x n) = false := by
  cases x with
  | nan => rfl
  | inf s => exact hx
  | finite s m e =>
    by_cases hn : n > 323
    · unfold roundN; simp only [if_pos hn]; exact hx
    · rw [roundN_finite_def s m e n hn]
      rcases notNeg_finite hx with h | h
      · subst h; exact isNeg_ofScaled_false _ _
      · subst h
        have : rneDiv (0 * 2 ^ e * 10 ^ n) one * one = 0 := by
          rw [Nat.zero_mul, Nat.zero_mul, rneDiv_zero, Nat.zero_mul]
        rw [this, ofScaled_zero]; simp [isNeg]

theorem ofIntD_notNeg {i : Int} (h : 0 ≤ i) : isNeg (ofIntD i) = false := by
  unfold ofIntD
  have : decide (i < 0) = false := by simp only [decide_eq_false_iff_not]; omega
  rw [this]
  exact isNeg_ofScaled_false _ _

theorem ofInt_notNeg {i : Int} {x : F64} (h : 0 ≤ i) (hx : ofInt i = some x) : isNeg x = false := by
  unfold ofInt at hx
  split at hx
  · simp at hx
  · simp only [Option.some.injEq] at hx; subst hx; exact ofIntD_notNeg h

theorem ceil_notNeg {x : F64} {i : Int} (hx : isNeg x = false) (h : ceil x = some i) : 0 ≤ i := by
  cases x with
  | nan => simp [ceil] at h
  | inf s => simp [ceil] at h
  | finite s m e =>
    simp only [ceil, Option.some.injEq] at h
    subst h
    cases s with
    | false => simp only [Bool.false_eq_true, if_false]; exact Int.natCast_nonneg _
    | true =>
      rcases notNeg_finite hx with h1 | h1
      · exact absurd h1 (by simp)
      · subst h1; simp

theorem roundInt_notNeg {x : F64} {i : Int} (hx : isNeg x = false) (h : roundInt x = some i) : 0 ≤ i := by
  cases x with
  | nan => simp [roundInt] at h
  | inf s => simp [roundInt] at h
  | finite s m e =>
    simp only [roundInt, Option.some.injEq] at h
    subst h
    rcases notNeg_finite hx with h1 | h1
    · subst h1; simp only [signed, Bool.false_eq_true, if_false]; exact Int.natCast_nonneg _
    · subst h1; simp [rneDiv_zero, signed]

/-- `y < x` and `y` not negative: `x` is not negative -/
theorem notNeg_of_lt {x y : F64} (hy : isNeg y = false) (h : lt y x = true) : isNeg x = false := by
  cases x with
  | nan => rfl
  | inf s =>
    cases y with
    | nan => simp [lt] at h
    | inf s2 =>
      simp only [isNeg] at hy; subst hy
      cases s with
      | false => rfl
      | true => simp [lt] at h
    | finite n m e =>
      cases s with
      | false => rfl
      | true => simp [lt] at h
  | finite n1 m1 e1 =>
    cases y with
    | nan => simp [lt] at h
    | inf s2 => simp only [isNeg] at hy; subst hy; simp [lt] at h
    | finite n2 m2 e2 =>
      rw [lt_finite_iff] at h
      have h2 := signed_nonneg_of_notNeg hy (2 ^ e2)
      cases hneg : isNeg (finite n1 m1 e1) with
      | false => rfl
      | true =>
        exfalso
        simp only [isNeg, Bool.and_eq_true, decide_eq_true_eq] at hneg
        have : signed n1 (m1 * 2 ^ e1) < 0 := by
          rw [signed_lt_zero]
          exact ⟨hneg.1, Nat.mul_pos (Nat.pos_of_ne_zero hneg.2) (Nat.two_pow_pos _)⟩
        omega

/-- a negative value is below every not-negative real -/
theorem lt_of_isNeg_notNeg {y c : F64} (hy : isNeg y = true) (hc : isNeg c = false) (hcn : c.isNaN = false) :
    lt y c = true := by
  cases y with
  | nan => simp [isNeg] at hy
  | inf s =>
    simp only [isNeg] at hy; subst hy
    cases c with
    | nan => simp [isNaN] at hcn
    | inf s2 => simp only [isNeg] at hc; subst hc; rfl
    | finite n m e => rfl
  | finite n1 m1 e1 =>
    simp only [isNeg, Bool.and_eq_true, decide_eq_true_eq] at hy
    cases c with
    | nan => simp [isNaN] at hcn
    | inf s2 => simp only [isNeg] at hc; subst hc; rfl
    | finite n2 m2 e2 =>
      rw [lt_finite_iff]
      have hc2 := signed_nonneg_of_notNeg hc (2 ^ e2)
      have : signed n1 (m1 * 2 ^ e1) < 0 := by
        rw [signed_lt_zero]
        exact ⟨hy.1, Nat.mul_pos (Nat.pos_of_ne_zero hy.2) (Nat.two_pow_pos _)⟩
      omega

end HabuVerif.F64
