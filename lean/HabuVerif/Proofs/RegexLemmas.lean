import HabuVerif.Regex
/-!
# The derivative matcher is correct w.r.t. a declarative semantics of `re.match`

`Matches r pre w post`: the expression `r` matches the piece `w` of the text `pre ++ w ++ post`
(`pre` is what stands before the piece, `post` what follows).  The anchors look at the context:
`^` needs `pre = []`, `$` needs `post = []` or `post = ['\n']`.

`reMatch_iff : reMatch r s = true ↔ ∃ w post, s = w ++ post ∧ Matches r [] w post`, i.e. the
matcher answers whether SOME prefix of the text is matched — `bool(re.match(p, s))`.
-/
set_option autoImplicit false

namespace HabuVerif.Regex

inductive Matches : Re → List Char → List Char → List Char → Prop
  | eps (pre post) : Matches .eps pre [] post
  | chr (c pre post) : Matches (.chr c) pre [c] post
  | cls (neg rs c pre post) : (inRanges c rs != neg) = true → Matches (.cls neg rs) pre [c] post
  | any (c pre post) : c ≠ '\n' → Matches .any pre [c] post
  | bol (post) : Matches .bol [] [] post
  | eol (pre post) : endCtx post = true → Matches .eol pre [] post
  | cat (r s pre w w1 w2 post) : w = w1 ++ w2 → Matches r pre w1 (w2 ++ post) →
      Matches s (pre ++ w1) w2 post → Matches (.cat r s) pre w post
  | altL (r s pre w post) : Matches r pre w post → Matches (.alt r s) pre w post
  | altR (r s pre w post) : Matches s pre w post → Matches (.alt r s) pre w post
  | repNil (r mx pre post) : Matches (.rep r 0 mx) pre [] post
  | repCons (r m mx pre w w1 w2 post) : w = w1 ++ w2 → mx ≠ some 0 →
      Matches r pre w1 (w2 ++ post) →
      Matches (.rep r (m - 1) (predOpt mx)) (pre ++ w1) w2 post → Matches (.rep r m mx) pre w post

/-- the anchor context of the position between `pre` and `post` -/
def ctxOf (pre post : List Char) : Ctx := ⟨pre.isEmpty, endCtx post⟩

/-! ## nullability -/

theorem matches_nil_of_nullable_rep (r : Re) (pre post : List Char)
    (hr : Matches r pre [] post) (m : Nat) :
    ∀ mx, boundOk m mx = true → Matches (.rep r m mx) pre [] post := by
  induction m with
  | zero => intro mx _; exact .repNil r mx pre post
  | succ m ih =>
    intro mx hb
    have hmx : mx ≠ some 0 := by
      intro h; subst h; simp [boundOk] at hb
    have hb' : boundOk m (predOpt mx) = true := by
      cases mx with
      | none => rfl
      | some k => simp [boundOk, predOpt] at hb ⊢; omega
    refine .repCons r (m + 1) mx pre [] [] [] post rfl hmx (by simpa using hr) ?_
    simpa using ih (predOpt mx) hb'

theorem nullable_imp_matches (r : Re) : ∀ pre post,
    nullable (ctxOf pre post) r = true → Matches r pre [] post := by
  induction r with
  | empty => intro pre post h; simp [nullable] at h
  | eps => intro pre post _; exact .eps pre post
  | chr c => intro pre post h; simp [nullable] at h
  | cls n rs => intro pre post h; simp [nullable] at h
  | any => intro pre post h; simp [nullable] at h
  | bol =>
    intro pre post h
    simp [nullable, ctxOf] at h
    subst h
    exact .bol post
  | eol =>
    intro pre post h
    simp [nullable, ctxOf] at h
    exact .eol pre post h
  | cat r s ihr ihs =>
    intro pre post h
    simp [nullable] at h
    exact .cat r s pre [] [] [] post rfl (by simpa using ihr pre post h.1) (by simpa using ihs pre post h.2)
  | alt r s ihr ihs =>
    intro pre post h
    simp [nullable] at h
    rcases h with h | h
    · exact .altL r s pre [] post (ihr pre post h)
    · exact .altR r s pre [] post (ihs pre post h)
  | rep r m mx ih =>
    intro pre post h
    simp [nullable] at h
    rcases h with h | ⟨h1, h2⟩
    · subst h; exact .repNil r mx pre post
    · exact matches_nil_of_nullable_rep r pre post (ih pre post h1) m mx h2

theorem matches_nil_imp_nullable (r : Re) (pre w post : List Char) (h : Matches r pre w post) :
    w = [] → nullable (ctxOf pre post) r = true := by
  induction h with
  | eps => intro _; rfl
  | chr => intro h; cases h
  | cls => intro h; cases h
  | any => intro h; cases h
  | bol => intro _; rfl
  | eol pre post he => intro _; simpa [nullable, ctxOf] using he
  | cat r s pre w w1 w2 post hw _ _ ih1 ih2 =>
    intro h
    subst h
    have h1 : w1 = [] := (List.append_eq_nil_iff.mp hw.symm).1
    have h2 : w2 = [] := (List.append_eq_nil_iff.mp hw.symm).2
    subst h1 h2
    simp [nullable]
    exact ⟨by simpa using ih1 rfl, by simpa using ih2 rfl⟩
  | altL r s pre w post _ ih => intro h; simp [nullable, ih h]
  | altR r s pre w post _ ih => intro h; simp [nullable, ih h]
  | repNil => intro _; simp [nullable]
  | repCons r m mx pre w w1 w2 post hw hmx _ _ ih1 ih2 =>
    intro h
    subst h
    have h1 : w1 = [] := (List.append_eq_nil_iff.mp hw.symm).1
    have h2 : w2 = [] := (List.append_eq_nil_iff.mp hw.symm).2
    subst h1 h2
    have i1 := ih1 rfl
    have i2 := ih2 rfl
    simp [nullable] at i1 i2 ⊢
    by_cases hm : m = 0
    · exact Or.inl hm
    · refine Or.inr ⟨i1, ?_⟩
      cases mx with
      | none => rfl
      | some k =>
        have hk : k ≠ 0 := by intro h; subst h; exact hmx rfl
        rcases i2 with i2 | ⟨_, i2⟩
        · simp [boundOk]; omega
        · simp [boundOk, predOpt] at i2 ⊢; omega

theorem nullable_iff (r : Re) (pre post : List Char) :
    nullable (ctxOf pre post) r = true ↔ Matches r pre [] post :=
  ⟨nullable_imp_matches r pre post, fun h => matches_nil_imp_nullable r pre [] post h rfl⟩

/-! ## the simplifying constructors -/

theorem not_matches_empty (pre w post : List Char) : ¬ Matches .empty pre w post := by
  intro h; cases h

theorem matches_mkCat (r s : Re) (pre w post : List Char) :
    Matches (mkCat r s) pre w post ↔ Matches (.cat r s) pre w post := by
  unfold mkCat
  split
  · constructor
    · intro h; exact absurd h (not_matches_empty _ _ _)
    · intro h; cases h with
      | cat _ _ _ _ w1 w2 _ _ h1 _ => exact absurd h1 (not_matches_empty _ _ _)
  · constructor
    · intro h; exact absurd h (not_matches_empty _ _ _)
    · intro h; cases h with
      | cat _ _ _ _ w1 w2 _ _ _ h2 => exact absurd h2 (not_matches_empty _ _ _)
  · constructor
    · intro h
      exact .cat .eps _ pre w [] w post rfl (.eps _ _) (by simpa using h)
    · intro h; cases h with
      | cat _ _ _ _ w1 w2 _ hw h1 h2 =>
        cases h1
        simpa [hw] using h2
  · exact Iff.rfl

theorem matches_alt_iff (r s : Re) (pre w post : List Char) :
    Matches (.alt r s) pre w post ↔ Matches r pre w post ∨ Matches s pre w post := by
  constructor
  · intro h; cases h with
    | altL _ _ _ _ _ h => exact Or.inl h
    | altR _ _ _ _ _ h => exact Or.inr h
  · rintro (h | h)
    · exact .altL _ _ _ _ _ h
    · exact .altR _ _ _ _ _ h

theorem matches_mkAlt (r s : Re) (pre w post : List Char) :
    Matches (mkAlt r s) pre w post ↔ Matches r pre w post ∨ Matches s pre w post := by
  unfold mkAlt
  split
  · simp [not_matches_empty]
  · simp [not_matches_empty]
  · split
    · rename_i h; subst h; simp
    · exact matches_alt_iff _ _ _ _ _

theorem matches_cat_iff (r s : Re) (pre w post : List Char) :
    Matches (.cat r s) pre w post ↔
      ∃ w1 w2, w = w1 ++ w2 ∧ Matches r pre w1 (w2 ++ post) ∧ Matches s (pre ++ w1) w2 post := by
  constructor
  · intro h; cases h with
    | cat _ _ _ _ w1 w2 _ hw h1 h2 => exact ⟨w1, w2, hw, h1, h2⟩
  · rintro ⟨w1, w2, hw, h1, h2⟩
    exact .cat _ _ _ _ w1 w2 _ hw h1 h2

theorem matches_rep_iff (r : Re) (m : Nat) (mx : Option Nat) (pre w post : List Char) :
    Matches (.rep r m mx) pre w post ↔
      (m = 0 ∧ w = []) ∨
      (mx ≠ some 0 ∧ ∃ w1 w2, w = w1 ++ w2 ∧ Matches r pre w1 (w2 ++ post) ∧
        Matches (.rep r (m - 1) (predOpt mx)) (pre ++ w1) w2 post) := by
  constructor
  · intro h; cases h with
    | repNil => exact Or.inl ⟨rfl, rfl⟩
    | repCons _ _ _ _ _ w1 w2 _ hw hmx h1 h2 => exact Or.inr ⟨hmx, w1, w2, hw, h1, h2⟩
  · rintro (⟨rfl, rfl⟩ | ⟨hmx, w1, w2, hw, h1, h2⟩)
    · exact .repNil _ _ _ _
    · exact .repCons _ _ _ _ _ w1 w2 _ hw hmx h1 h2

/-! ## repetition: raising the upper bound, dropping empty iterations -/

theorem rep_zero_mono (r : Re) (e : Re) (pre w post : List Char) (h : Matches e pre w post) :
    ∀ mx, e = .rep r 0 (predOpt mx) → Matches (.rep r 0 mx) pre w post := by
  induction h with
  | repNil r' mx' pre post => intro mx he; cases he; exact .repNil _ _ _ _
  | repCons r' m mx' pre w w1 w2 post hw hmx h1 _ _ ih2 =>
    intro mx he
    cases he
    have hmx2 : mx ≠ some 0 := by
      intro h; subst h; exact hmx rfl
    exact .repCons r 0 mx pre w w1 w2 post hw hmx2 h1 (ih2 (predOpt mx) rfl)
  | _ => intro mx he; cases he

/-- in `r{0,k}` a match of a non-empty text can be taken to start with a non-empty iteration -/
theorem rep_zero_first_nonempty (r : Re) (e : Re) (pre u post : List Char)
    (h : Matches e pre u post) :
    ∀ mx c w, e = .rep r 0 mx → u = c :: w →
      mx ≠ some 0 ∧ ∃ w1 w2, w = w1 ++ w2 ∧ Matches r pre (c :: w1) (w2 ++ post) ∧
        Matches (.rep r 0 (predOpt mx)) (pre ++ c :: w1) w2 post := by
  induction h with
  | repNil => intro mx c w _ hu; cases hu
  | repCons r' m mx' pre u u1 u2 post hu hmx h1 h2 _ ih2 =>
    intro mx c w he huw
    cases he
    refine ⟨hmx, ?_⟩
    subst huw
    cases u1 with
    | nil =>
      simp at hu
      subst hu
      obtain ⟨_, w1, w2, hw, k1, k2⟩ := ih2 _ c w rfl rfl
      refine ⟨w1, w2, hw, by simpa using k1, ?_⟩
      exact rep_zero_mono _ _ _ _ _ (by simpa using k2) _ rfl
    | cons a u1 =>
      simp at hu
      obtain ⟨rfl, rfl⟩ := hu
      exact ⟨u1, u2, rfl, h1, h2⟩
  | _ => intro mx c w he; cases he

/-! ## derivatives -/

section deriv
variable (c : Char)

/-- the statement of derivative correctness for one expression -/
def DerivOK (r : Re) : Prop :=
  ∀ pre w post, Matches (deriv (ctxOf pre (c :: (w ++ post))) c r) (pre ++ [c]) w post ↔
    Matches r pre (c :: w) post

theorem derivRep_ok (r : Re) (ih : DerivOK c r) (m : Nat) :
    ∀ mx pre w post,
      Matches (derivRep (deriv (ctxOf pre (c :: (w ++ post))) c r)
        (nullable (ctxOf pre (c :: (w ++ post))) r) r m mx) (pre ++ [c]) w post ↔
      Matches (.rep r m mx) pre (c :: w) post := by
  induction m with
  | zero =>
    intro mx pre w post
    by_cases hmx : mx = some 0
    · subst hmx
      simp only [derivRep]
      constructor
      · intro h; exact absurd h (not_matches_empty _ _ _)
      · intro h
        rcases (matches_rep_iff _ _ _ _ _ _).mp h with ⟨_, h⟩ | ⟨h, _⟩
        · cases h
        · exact absurd rfl h
    · have hd : derivRep (deriv (ctxOf pre (c :: (w ++ post))) c r)
          (nullable (ctxOf pre (c :: (w ++ post))) r) r 0 mx =
          mkCat (deriv (ctxOf pre (c :: (w ++ post))) c r) (.rep r 0 (predOpt mx)) := by
        cases mx with
        | none => rfl
        | some k =>
          cases k with
          | zero => exact absurd rfl hmx
          | succ k => rfl
      rw [hd, matches_mkCat, matches_cat_iff]
      constructor
      · rintro ⟨w1, w2, hw, h1, h2⟩
        subst hw
        have h1' := (ih pre w1 (w2 ++ post)).mp (by simpa using h1)
        exact .repCons r 0 mx pre _ (c :: w1) w2 post rfl hmx h1' (by simpa using h2)
      · intro h
        obtain ⟨_, w1, w2, hw, k1, k2⟩ := rep_zero_first_nonempty r _ _ _ _ h mx c w rfl rfl
        subst hw
        refine ⟨w1, w2, rfl, ?_, by simpa using k2⟩
        have := (ih pre w1 (w2 ++ post)).mpr k1
        simpa using this
  | succ m ihm =>
    intro mx pre w post
    by_cases hmx : mx = some 0
    · subst hmx
      simp only [derivRep]
      constructor
      · intro h; exact absurd h (not_matches_empty _ _ _)
      · intro h
        rcases (matches_rep_iff _ _ _ _ _ _).mp h with ⟨h, _⟩ | ⟨h, _⟩
        · cases h
        · exact absurd rfl h
    · have hd : derivRep (deriv (ctxOf pre (c :: (w ++ post))) c r)
          (nullable (ctxOf pre (c :: (w ++ post))) r) r (m + 1) mx =
          mkAlt (mkCat (deriv (ctxOf pre (c :: (w ++ post))) c r) (.rep r m (predOpt mx)))
            (if nullable (ctxOf pre (c :: (w ++ post))) r then
              derivRep (deriv (ctxOf pre (c :: (w ++ post))) c r)
                (nullable (ctxOf pre (c :: (w ++ post))) r) r m (predOpt mx)
             else .empty) := by
        cases mx with
        | none => rfl
        | some k =>
          cases k with
          | zero => exact absurd rfl hmx
          | succ k => rfl
      rw [hd, matches_mkAlt, matches_mkCat, matches_cat_iff]
      constructor
      · rintro (⟨w1, w2, hw, h1, h2⟩ | h)
        · subst hw
          have h1' := (ih pre w1 (w2 ++ post)).mp (by simpa using h1)
          exact .repCons r (m + 1) mx pre _ (c :: w1) w2 post rfl hmx h1' (by simpa using h2)
        · split at h
          · rename_i hn
            have h0 := (nullable_iff r pre (c :: (w ++ post))).mp hn
            have h2 := (ihm (predOpt mx) pre w post).mp h
            exact .repCons r (m + 1) mx pre _ [] (c :: w) post rfl hmx (by simpa using h0)
              (by simpa using h2)
          · exact absurd h (not_matches_empty _ _ _)
      · intro h
        rcases (matches_rep_iff _ _ _ _ _ _).mp h with ⟨h, _⟩ | ⟨_, w1, w2, hw, h1, h2⟩
        · cases h
        · cases w1 with
          | nil =>
            simp at hw
            subst hw
            right
            have hn := (nullable_iff r pre (c :: (w ++ post))).mpr (by simpa using h1)
            rw [if_pos hn]
            exact (ihm (predOpt mx) pre w post).mpr (by simpa using h2)
          | cons a w1 =>
            simp at hw
            obtain ⟨rfl, rfl⟩ := hw
            left
            refine ⟨w1, w2, rfl, ?_, by simpa using h2⟩
            have := (ih pre w1 (w2 ++ post)).mpr h1
            simpa using this

theorem deriv_ok (r : Re) : DerivOK c r := by
  induction r with
  | empty =>
    intro pre w post
    simp only [deriv]
    constructor <;> (intro h; cases h)
  | eps =>
    intro pre w post
    simp only [deriv]
    constructor <;> (intro h; cases h)
  | chr d =>
    intro pre w post
    simp only [deriv]
    split
    · rename_i h; subst h
      constructor
      · intro h; cases h; exact .chr _ _ _
      · intro h; cases h; exact .eps _ _
    · rename_i hne
      constructor
      · intro h; cases h
      · intro h; cases h; exact absurd rfl hne
  | cls n rs =>
    intro pre w post
    simp only [deriv]
    split
    · rename_i hin
      constructor
      · intro h; cases h; exact .cls _ _ _ _ _ hin
      · intro h; cases h; exact .eps _ _
    · rename_i hin
      constructor
      · intro h; cases h
      · intro h; cases h with
        | cls _ _ _ _ _ h' => exact absurd h' hin
  | any =>
    intro pre w post
    simp only [deriv]
    split
    · rename_i hnl
      constructor
      · intro h; cases h
      · intro h; cases h with
        | any _ _ _ h' => exact absurd hnl h'
    · rename_i hnl
      constructor
      · intro h; cases h; exact .any _ _ _ hnl
      · intro h; cases h; exact .eps _ _
  | bol =>
    intro pre w post
    simp only [deriv]
    constructor <;> (intro h; cases h)
  | eol =>
    intro pre w post
    simp only [deriv]
    constructor <;> (intro h; cases h)
  | cat r s ihr ihs =>
    intro pre w post
    simp only [deriv]
    rw [matches_mkAlt, matches_mkCat, matches_cat_iff, matches_cat_iff]
    constructor
    · rintro (⟨w1, w2, hw, h1, h2⟩ | h)
      · subst hw
        have h1' := (ihr pre w1 (w2 ++ post)).mp (by simpa using h1)
        exact ⟨c :: w1, w2, rfl, h1', by simpa using h2⟩
      · split at h
        · rename_i hn
          have h0 := (nullable_iff r pre (c :: (w ++ post))).mp hn
          exact ⟨[], c :: w, rfl, by simpa using h0, by simpa using (ihs pre w post).mp h⟩
        · exact absurd h (not_matches_empty _ _ _)
    · rintro ⟨w1, w2, hw, h1, h2⟩
      cases w1 with
      | nil =>
        simp at hw
        subst hw
        right
        have hn := (nullable_iff r pre (c :: (w ++ post))).mpr (by simpa using h1)
        rw [if_pos hn]
        exact (ihs pre w post).mpr (by simpa using h2)
      | cons a w1 =>
        simp at hw
        obtain ⟨rfl, rfl⟩ := hw
        left
        refine ⟨w1, w2, rfl, ?_, by simpa using h2⟩
        have := (ihr pre w1 (w2 ++ post)).mpr h1
        simpa using this
  | alt r s ihr ihs =>
    intro pre w post
    simp only [deriv]
    rw [matches_mkAlt, matches_alt_iff, ihr pre w post, ihs pre w post]
  | rep r m mx ih =>
    intro pre w post
    simp only [deriv]
    exact derivRep_ok c r ih m mx pre w post

end deriv

/-! ## the matcher -/

theorem matchFrom_iff (s : List Char) : ∀ (r : Re) (pre : List Char),
    matchFrom r pre.isEmpty s = true ↔ ∃ w post, s = w ++ post ∧ Matches r pre w post := by
  induction s with
  | nil =>
    intro r pre
    simp only [matchFrom]
    have := nullable_iff r pre []
    simp only [ctxOf, endCtx] at this
    rw [this]
    constructor
    · intro h; exact ⟨[], [], rfl, h⟩
    · rintro ⟨w, post, hs, h⟩
      have h1 : w = [] := (List.append_eq_nil_iff.mp hs.symm).1
      have h2 : post = [] := (List.append_eq_nil_iff.mp hs.symm).2
      subst h1 h2
      exact h
  | cons c cs ih =>
    intro r pre
    simp only [matchFrom, Bool.or_eq_true]
    have hn := nullable_iff r pre (c :: cs)
    simp only [ctxOf] at hn
    have hpre : (pre ++ [c]).isEmpty = false := by simp
    have ih' := ih (deriv ⟨pre.isEmpty, endCtx (c :: cs)⟩ c r) (pre ++ [c])
    rw [hpre] at ih'
    rw [hn, ih']
    constructor
    · rintro (h | ⟨w, post, hs, h⟩)
      · exact ⟨[], c :: cs, rfl, h⟩
      · subst hs
        exact ⟨c :: w, post, rfl, (deriv_ok c r pre w post).mp h⟩
    · rintro ⟨w, post, hs, h⟩
      cases w with
      | nil =>
        simp at hs
        subst hs
        exact Or.inl h
      | cons a w =>
        simp at hs
        obtain ⟨rfl, rfl⟩ := hs
        exact Or.inr ⟨w, post, rfl, (deriv_ok _ r pre w post).mpr h⟩

/-- `bool(re.match(r, s))`: some prefix of `s` is matched by `r` (anchors seeing the whole text) -/
theorem reMatch_iff (r : Re) (s : List Char) :
    reMatch r s = true ↔ ∃ w post, s = w ++ post ∧ Matches r [] w post := by
  have := matchFrom_iff s r []
  simpa [reMatch] using this

/-! ## what the two shipped patterns accept -/

theorem matches_chr_iff (c : Char) (pre w post : List Char) :
    Matches (.chr c) pre w post ↔ w = [c] := by
  constructor
  · intro h; cases h; rfl
  · rintro rfl; exact .chr _ _ _

theorem matches_cls1_iff (lo hi : Char) (pre w post : List Char) :
    Matches (.cls false [(lo, hi)]) pre w post ↔
      ∃ c, w = [c] ∧ lo.toNat ≤ c.toNat ∧ c.toNat ≤ hi.toNat := by
  constructor
  · intro h
    cases h with
    | cls _ _ c _ _ h => exact ⟨c, rfl, by simpa [inRanges] using h⟩
  · rintro ⟨c, rfl, h⟩
    exact .cls _ _ _ _ _ (by simpa [inRanges] using h)

theorem matches_bol_iff (pre w post : List Char) : Matches .bol pre w post ↔ pre = [] ∧ w = [] := by
  constructor
  · intro h; cases h; exact ⟨rfl, rfl⟩
  · rintro ⟨rfl, rfl⟩; exact .bol _

theorem matches_eol_iff (pre w post : List Char) :
    Matches .eol pre w post ↔ w = [] ∧ (post = [] ∨ post = ['\n']) := by
  have hend : endCtx post = true ↔ (post = [] ∨ post = ['\n']) := by
    unfold endCtx
    split <;> simp_all
  constructor
  · intro h; cases h with
    | eol _ _ h => exact ⟨rfl, hend.mp h⟩
  · rintro ⟨rfl, h⟩; exact .eol _ _ (hend.mpr h)

/-- counted repetition of a one-character expression -/
theorem matches_rep_char (r : Re) (p : Char → Prop)
    (hr : ∀ pre w post, Matches r pre w post ↔ ∃ c, w = [c] ∧ p c) (k : Nat) :
    ∀ m pre w post, Matches (.rep r m (some k)) pre w post ↔
      m ≤ w.length ∧ w.length ≤ k ∧ ∀ c ∈ w, p c := by
  induction k with
  | zero =>
    intro m pre w post
    rw [matches_rep_iff]
    constructor
    · rintro (⟨rfl, rfl⟩ | ⟨h, _⟩)
      · simp
      · exact absurd rfl h
    · rintro ⟨h1, h2, _⟩
      have : w = [] := List.eq_nil_of_length_eq_zero (by omega)
      subst this
      exact Or.inl ⟨by simpa using h1, rfl⟩
  | succ k ih =>
    intro m pre w post
    rw [matches_rep_iff]
    constructor
    · rintro (⟨rfl, rfl⟩ | ⟨_, w1, w2, hw, h1, h2⟩)
      · simp
      · obtain ⟨c, rfl, hc⟩ := (hr _ _ _).mp h1
        have := (ih (m - 1) _ w2 post).mp (by simpa [predOpt] using h2)
        subst hw
        refine ⟨by simp; omega, by simp; omega, ?_⟩
        intro d hd
        simp at hd
        rcases hd with rfl | hd
        · exact hc
        · exact this.2.2 d hd
    · rintro ⟨h1, h2, h3⟩
      cases w with
      | nil => exact Or.inl ⟨by simpa using h1, rfl⟩
      | cons c w2 =>
        refine Or.inr ⟨by simp, [c], w2, rfl, (hr _ _ _).mpr ⟨c, rfl, h3 c (by simp)⟩, ?_⟩
        have : Matches (.rep r (m - 1) (some k)) (pre ++ [c]) w2 post :=
          (ih (m - 1) _ w2 post).mpr
            ⟨by simp at h1; omega, by simp at h2; omega, fun d hd => h3 d (by simp [hd])⟩
        simpa [predOpt] using this

/-- the first two digits of a routing number: 01–12 or 21–32 -/
def RoutingPrefix (a b : Char) : Prop :=
  (a = '0' ∧ 49 ≤ b.toNat ∧ b.toNat ≤ 57) ∨ (a = '1' ∧ 48 ≤ b.toNat ∧ b.toNat ≤ 50) ∨
  (a = '2' ∧ 49 ≤ b.toNat ∧ b.toNat ≤ 57) ∨ (a = '3' ∧ 48 ≤ b.toNat ∧ b.toNat ≤ 50)

def IsDigit (c : Char) : Prop := 48 ≤ c.toNat ∧ c.toNat ≤ 57

theorem matches_pair_iff (a lo hi : Char) (pre w post : List Char) :
    Matches (.cat (.chr a) (.cls false [(lo, hi)])) pre w post ↔
      ∃ b, w = [a, b] ∧ lo.toNat ≤ b.toNat ∧ b.toNat ≤ hi.toNat := by
  rw [matches_cat_iff]
  constructor
  · rintro ⟨w1, w2, hw, h1, h2⟩
    rw [matches_chr_iff] at h1
    rw [matches_cls1_iff] at h2
    obtain ⟨b, rfl, hb⟩ := h2
    subst h1
    exact ⟨b, hw, hb⟩
  · rintro ⟨b, rfl, hb⟩
    exact ⟨[a], [b], rfl, (matches_chr_iff _ _ _ _).mpr rfl, (matches_cls1_iff _ _ _ _ _).mpr ⟨b, rfl, hb⟩⟩

/-- `^(0[1-9]|1[0-2]|2[1-9]|3[0-2])[0-9]{7}$` matches exactly: nine ASCII digits whose first two are
01–12 or 21–32, optionally followed by ONE newline (Python's `$`). -/
theorem routing_matches_iff (s : List Char) :
    reMatch routingRe s = true ↔
      ∃ a b ds, (s = a :: b :: ds ∨ s = a :: b :: ds ++ ['\n']) ∧ RoutingPrefix a b ∧
        ds.length = 7 ∧ ∀ c ∈ ds, IsDigit c := by
  rw [reMatch_iff]
  have hdig := matches_rep_char digit IsDigit
    (fun pre w post => by simpa [digit, IsDigit] using matches_cls1_iff '0' '9' pre w post) 7 7
  constructor
  · rintro ⟨w, post, hs, h⟩
    unfold routingRe at h
    rw [matches_cat_iff] at h
    obtain ⟨w0, w', hw, h0, h⟩ := h
    rw [matches_bol_iff] at h0
    obtain ⟨-, rfl⟩ := h0
    rw [matches_cat_iff] at h
    obtain ⟨wp, w'', hw', hp, h⟩ := h
    rw [matches_cat_iff] at h
    obtain ⟨wd, we, hw'', hd, he⟩ := h
    rw [matches_eol_iff] at he
    obtain ⟨rfl, hpost⟩ := he
    rw [hdig] at hd
    simp only [matches_alt_iff, matches_pair_iff] at hp
    simp only [List.nil_append, List.append_nil] at hw hw' hw''
    have hp' : ∃ a b, wp = [a, b] ∧ RoutingPrefix a b := by
      rcases hp with ⟨b, rfl, h⟩ | ⟨b, rfl, h⟩ | ⟨b, rfl, h⟩ | ⟨b, rfl, h⟩
      · exact ⟨_, b, rfl, Or.inl ⟨rfl, h⟩⟩
      · exact ⟨_, b, rfl, Or.inr (Or.inl ⟨rfl, h⟩)⟩
      · exact ⟨_, b, rfl, Or.inr (Or.inr (Or.inl ⟨rfl, h⟩))⟩
      · exact ⟨_, b, rfl, Or.inr (Or.inr (Or.inr ⟨rfl, h⟩))⟩
    obtain ⟨a, b, rfl, hab⟩ := hp'
    subst hw'' hw' hw hs
    refine ⟨a, b, w'', ?_, hab, by omega, hd.2.2⟩
    rcases hpost with rfl | rfl <;> simp
  · rintro ⟨a, b, ds, hs, hab, hlen, hds⟩
    have hpre : ∀ pre post, Matches
        (.alt (.cat (.chr '0') (.cls false [('1', '9')]))
          (.alt (.cat (.chr '1') (.cls false [('0', '2')]))
            (.alt (.cat (.chr '2') (.cls false [('1', '9')]))
              (.cat (.chr '3') (.cls false [('0', '2')]))))) pre [a, b] post := by
      intro pre post
      simp only [matches_alt_iff, matches_pair_iff]
      rcases hab with ⟨rfl, h⟩ | ⟨rfl, h⟩ | ⟨rfl, h⟩ | ⟨rfl, h⟩
      · exact Or.inl ⟨b, rfl, h⟩
      · exact Or.inr (Or.inl ⟨b, rfl, h⟩)
      · exact Or.inr (Or.inr (Or.inl ⟨b, rfl, h⟩))
      · exact Or.inr (Or.inr (Or.inr ⟨b, rfl, h⟩))
    have key : ∀ post, (post = [] ∨ post = ['\n']) → Matches routingRe [] (a :: b :: ds) post := by
      intro post hpost
      refine .cat _ _ _ _ [] (a :: b :: ds) _ rfl (.bol _) ?_
      refine .cat _ _ _ _ [a, b] ds _ rfl (hpre _ _) ?_
      refine .cat _ _ _ _ ds [] _ (by simp) ((hdig _ _ _).mpr ⟨by omega, by omega, hds⟩) ?_
      exact (matches_eol_iff _ _ _).mpr ⟨rfl, hpost⟩
    rcases hs with rfl | rfl
    · exact ⟨_, [], by simp, key [] (Or.inl rfl)⟩
    · exact ⟨a :: b :: ds, ['\n'], by simp, key _ (Or.inr rfl)⟩

/-- a character of an account number: `[0-9A-Za-z\-]` -/
def AccountChar (c : Char) : Prop :=
  (48 ≤ c.toNat ∧ c.toNat ≤ 57) ∨ (65 ≤ c.toNat ∧ c.toNat ≤ 90) ∨ (97 ≤ c.toNat ∧ c.toNat ≤ 122) ∨
    c.toNat = 45

theorem matches_accountCls_iff (pre w post : List Char) :
    Matches (.cls false [('0', '9'), ('A', 'Z'), ('a', 'z'), ('-', '-')]) pre w post ↔
      ∃ c, w = [c] ∧ AccountChar c := by
  constructor
  · intro h
    cases h with
    | cls _ _ c _ _ h =>
      refine ⟨c, rfl, ?_⟩
      simp [inRanges] at h
      unfold AccountChar
      omega
  · rintro ⟨c, rfl, h⟩
    refine .cls _ _ _ _ _ ?_
    unfold AccountChar at h
    simp [inRanges]
    omega

/-- `^[0-9A-Za-z\-]{1,17}$` matches exactly: 1 to 17 characters from the class, optionally followed
by ONE newline. -/
theorem account_matches_iff (s : List Char) :
    reMatch accountRe s = true ↔
      ∃ w, (s = w ∨ s = w ++ ['\n']) ∧ 1 ≤ w.length ∧ w.length ≤ 17 ∧ ∀ c ∈ w, AccountChar c := by
  rw [reMatch_iff]
  have hrep := matches_rep_char _ AccountChar matches_accountCls_iff 17 1
  constructor
  · rintro ⟨w, post, hs, h⟩
    unfold accountRe at h
    rw [matches_cat_iff] at h
    obtain ⟨w0, w', hw, h0, h⟩ := h
    rw [matches_bol_iff] at h0
    obtain ⟨-, rfl⟩ := h0
    rw [matches_cat_iff] at h
    obtain ⟨wd, we, hw', hd, he⟩ := h
    rw [matches_eol_iff] at he
    obtain ⟨rfl, hpost⟩ := he
    rw [hrep] at hd
    simp only [List.nil_append, List.append_nil] at hw hw'
    subst hw' hw hs
    refine ⟨w, ?_, hd⟩
    rcases hpost with rfl | rfl <;> simp
  · rintro ⟨w, hs, h⟩
    have key : ∀ post, (post = [] ∨ post = ['\n']) → Matches accountRe [] w post := by
      intro post hpost
      refine .cat _ _ _ _ [] w _ rfl (.bol _) ?_
      refine .cat _ _ _ _ w [] _ (by simp) ((hrep _ _ _).mpr h) ?_
      exact (matches_eol_iff _ _ _).mpr ⟨rfl, hpost⟩
    rcases hs with rfl | rfl
    · exact ⟨_, [], by simp, key [] (Or.inl rfl)⟩
    · exact ⟨w, ['\n'], rfl, key _ (Or.inr rfl)⟩

end HabuVerif.Regex
