import HabuVerif.Proofs.C15Lines
/-!
# Shapes of the payment lines (C16)

`v[x] + v[y] + v[z]` (Form 1040 lines 25d and 33) and the sum over the copies of a per-payer form
`sum([v[f'{pre}{n}{post}'] for n in range(i[cnt])]) if i[cnt] > 0 else None` (line 25a).
-/
set_option autoImplicit false
set_option linter.unusedSimpArgs false
set_option linter.unusedVariables false

namespace HabuVerif.Dsl
open HabuVerif

variable (vs : String → Option Val) (is : String → InpRes Val) (fs : String → Bool)
variable (year : YearDecl) (c : ClassDecl) (inst : Option String) (d : LineDecl)

/-- `v[x] + v[y] + v[z]` -/
def shapeAdd3 (x y z : String) : List Stmt :=
  [.ret (.bin .add (.bin .add (rd x) (rd y)) (rd z))]

theorem eval_add3 (x y z : String) (p : Nat) (hb : d.body = shapeAdd3 x y z) (hk : d.kind = .float p)
    (a b e : F64)
    (hx : vs (qual' c.name inst x) = some (.float a)) (hy : vs (qual' c.name inst y) = some (.float b))
    (hz : vs (qual' c.name inst z) = some (.float e)) :
    run vs is fs (evalLine year c inst d) =
      .val (.float (F64.roundN (F64.add (F64.add a b) e) p)) := by
  rw [run_evalLine, runP_body_ret _ _ _ _ _ _ hb, hk]
  simp only [runP_bin, runP_readV_lit, qual_eq, hx, hy, hz, POut.bind_pure, applyBin_add_float, liftOut,
    POut.toOut, wrap_float]

/-! ## the sum over the copies of a form -/

/-- the key `f'{pre}{n}{post}'` -/
def copyKey (pre post : String) (n : Int) : String := pre ++ Val.intToStr n ++ post

theorem Env.get_set (env : Env) (x : String) (v : Val) : (Env.set env x v).get x = .ok v := by
  unfold Env.set Env.get
  by_cases h : (List.lookup x env).isSome = true
  · simp only [h, if_true]
    have : ∀ (l : List (String × Val)), (List.lookup x l).isSome = true →
        List.lookup x (l.map fun p => if p.1 == x then (x, v) else p) = some v := by
      intro l
      induction l with
      | nil => simp [List.lookup]
      | cons p l ih =>
        intro hl
        obtain ⟨k, w⟩ := p
        by_cases hk : k = x
        · subst hk; simp [List.lookup]
        · have hk' : (x == k) = false := by simpa using fun e => hk e.symm
          have hk'' : (k == x) = false := by simpa using hk
          simp only [List.lookup, hk'] at hl
          simp only [List.map, hk'', Bool.false_eq_true, if_false, List.lookup, hk']
          exact ih hl
    rw [this env h]
  · simp [h, List.lookup]

theorem copyKey_toList (pre post : String) (n : Int) :
    (copyKey pre post n).toList = pre.toList ++ (Val.intToStr n).toList ++ post.toList := by
  simp [copyKey]

theorem fmtAll_copy (pre post : String) (n : Int) :
    fmtAll [.str pre, .int n, .str post] = .ok (copyKey pre post n) := by
  simp [fmtAll, Val.pyStr, bind, Except.bind, pure, Except.pure, copyKey, String.append_assoc]

theorem copyKey_dot (pre post : String) (n : Int) (h : post.toList.contains '.' = true) :
    (copyKey pre post n).toList.contains '.' = true := by
  rw [copyKey_toList]
  simp at h ⊢
  exact Or.inr (Or.inr h)

theorem qual_copyKey (ctx : Ctx) (pre post : String) (n : Int) (h : post.toList.contains '.' = true) :
    qual ctx (copyKey pre post n) = copyKey pre post n := by
  have := copyKey_dot pre post n h
  simp only [qual, this, if_true]

/-- `v[f'{pre}{n}{post}']` with `n` bound to an int -/
theorem runP_readV_copy (ctx : Ctx) (env : Env) (pre post : String) (n : Int)
    (hn : Env.get env "n" = .ok (.int n)) (hp : post.toList.contains '.' = true) :
    runP vs is fs (evalExpr ctx env
        (.readV (.fstr [.const (.str pre), .var "n", .const (.str post)]))) =
      match vs (copyKey pre post n) with
      | some v => .pure v
      | none => .needV (copyKey pre post n) := by
  simp only [evalExpr, evalArgs, runP_bind, runP_pure, POut.bind_pure, runP_lift, hn, liftOut,
    fmtAll_copy, qualify_str]
  rw [qual_copyKey ctx pre post n hp]
  simp only [runP]
  cases vs (copyKey pre post n) <;> rfl

theorem runP_collectM_pure (step : Val → Prog (Option Val)) (g : Val → Val) (items : List Val)
    (h : ∀ x ∈ items, runP vs is fs (step x) = .pure (some (g x))) :
    runP vs is fs (collectM step items) = .pure (items.map g) := by
  induction items with
  | nil => rfl
  | cons x xs ih =>
    simp only [collectM, runP_bind, h x (List.mem_cons_self), POut.bind_pure,
      ih (fun y hy => h y (List.mem_cons_of_mem _ hy)), runP_pure, List.map]


theorem runP_call1 (ctx : Ctx) (env : Env) (f : Builtin) (a : Expr) :
    runP vs is fs (evalExpr ctx env (.call f [a])) =
      (runP vs is fs (evalExpr ctx env a)).bind fun x => liftOut (applyBuiltin f [x]) := by
  simp only [evalExpr, evalArgs, runP_bind, runP_lift, runP_pure, POut.bind_pure, POut.bind_assoc]

/-- `range(i[cnt])` -/
theorem runP_range (ctx : Ctx) (env : Env) (cnt : String) (k : Int)
    (hk : is (qual ctx cnt) = .ok (.int k)) (hk' : k ≤ 1000000) :
    runP vs is fs (evalExpr ctx env (.call .range [ri cnt])) = .pure (.list (Val.rangeList 0 k)) := by
  simp only [runP_call1, runP_readI_lit, hk, POut.bind_pure, applyBuiltin, Val.pyRange, Val.asIndexInt,
    hk', if_true, liftOut]

/-- the values of the copies `0 … k-1` -/
def copyVals (f : Int → F64) (k : Int) : List F64 := (List.range k.toNat).map fun (j : Nat) => f (j : Int)

/-- `[v[f'{pre}{n}{post}'] for n in range(i[cnt])]` when every copy's line holds a float -/
theorem runP_listCompCopies (ctx : Ctx) (env : Env) (cnt pre post : String) (k : Int) (f : Int → F64)
    (hk : is (qual ctx cnt) = .ok (.int k)) (hk' : k ≤ 1000000)
    (hp : post.toList.contains '.' = true)
    (hv : ∀ j : Nat, j < k.toNat → vs (copyKey pre post j) = some (.float (f j))) :
    runP vs is fs (evalExpr ctx env
      (.listComp (.readV (.fstr [.const (.str pre), .var "n", .const (.str post)])) ["n"]
        (.call .range [ri cnt]) [])) = .pure (.list ((copyVals f k).map .float)) := by
  rw [evalExpr]
  simp only [runP_bind, runP_range vs is fs ctx env cnt k hk hk', POut.bind_pure, runP_lift, Val.iterItems,
    liftOut]
  have hstep : ∀ x ∈ Val.rangeList 0 k,
      runP vs is fs ((Prog.lift (bindTargets ["n"] x env)).bind fun env' =>
        (evalConds ctx env' []).bind fun ok =>
          if ok then (evalExpr ctx env' (.readV (.fstr [.const (.str pre), .var "n", .const (.str post)]))).bind
            fun v => Prog.pure (some v) else Prog.pure none)
      = .pure (some ((fun v => match v with | .int j => Val.float (f j) | _ => Val.none) x)) := by
    intro x hx
    simp only [Val.rangeList, List.mem_map, List.mem_range] at hx
    obtain ⟨j, hj, rfl⟩ := hx
    simp only [bindTargets, runP_bind, runP_lift, liftOut, POut.bind_pure, evalConds, runP_pure, if_true]
    rw [runP_readV_copy vs is fs ctx _ pre post (0 + (j : Int)) (Env.get_set env "n" _) hp]
    have : (0 : Int) + (j : Int) = (j : Int) := by omega
    rw [this, hv j (by omega)]
    rfl
  rw [runP_collectM_pure vs is fs _ _ _ hstep]
  simp only [POut.bind_pure, runP_pure, copyVals, Val.rangeList, List.map_map]
  congr 2
  rw [show (k - 0 : Int) = k by omega]
  apply List.map_congr_left
  intro j _
  simp only [Function.comp]
  have : (0 : Int) + (j : Int) = (j : Int) := by omega
  rw [this]


/-! ### `sum` of a list of floats is the F64 model's `pySum`

(the equations are stated by `rfl`/`show`: unfolding `Val.sumStep`/`Val.add` with `simp` is too slow) -/

theorem sumStep_floatAcc (f c x : F64) :
    Val.sumStep (.floatAcc f c) (.float x) = .ok (.floatAcc (F64.sumStep f c x).1 (F64.sumStep f c x).2) := rfl
theorem sumFold_cons (st : Val.SumSt) (x : Val) (xs : List Val) :
    Val.sumFold st (x :: xs) = (Val.sumStep st x).bind fun st' => Val.sumFold st' xs := rfl
theorem sumFold_nil (st : Val.SumSt) : Val.sumFold st [] = .ok (Val.sumFinish st) := rfl
theorem sumLoop_cons (f c x : F64) (xs : List F64) :
    F64.sumLoop f c (x :: xs) = F64.sumLoop (F64.sumStep f c x).1 (F64.sumStep f c x).2 xs := rfl

theorem sumFold_floatAcc (f c : F64) (xs : List F64) :
    Val.sumFold (.floatAcc f c) (xs.map .float) = .ok (.float (F64.sumLoop f c xs)) := by
  induction xs generalizing f c with
  | nil => rfl
  | cons x xs ih =>
    rw [List.map_cons, sumFold_cons, sumStep_floatAcc, sumLoop_cons]
    exact ih _ _

theorem add_int0_float (x : F64) : Val.add (.int 0) (.float x) = .ok (.float (F64.add F64.zero x)) := by
  have h : Val.intToFloat 0 = .ok F64.zero := by decide +kernel
  show (do let fx ← Val.intToFloat 0; let fy ← (Except.ok x : R F64); pure (Val.float (F64.add fx fy))) = _
  rw [h]; rfl

theorem sumInit_int0 : Val.sumInit (.int 0) = .intAcc 0 := by
  have h0 : F64.fitsLong 0 = true := by decide +kernel
  show (if F64.fitsLong 0 then Val.SumSt.intAcc 0 else .generic (.int 0)) = _
  rw [h0]; rfl

theorem sumStep_int0_float (x : F64) :
    Val.sumStep (.intAcc 0) (.float x) = .ok (.floatAcc (F64.add F64.zero x) F64.zero) := by
  show (match Val.add (.int 0) (.float x) with
    | .ok (.float r) => (Except.ok (.floatAcc r F64.zero) : R Val.SumSt)
    | .ok v => Except.ok (.generic v)
    | .error e => Except.error e) = _
  rw [add_int0_float]

theorem pySum_list (L : List Val) : Val.pySum (.list L) (.int 0) = Val.sumFold (.intAcc 0) L := by
  show (do let xs ← Val.iterItems (.list L); Val.sumFold (Val.sumInit (.int 0)) xs) = _
  rw [sumInit_int0]; rfl

theorem pySum_floats (x : F64) (xs : List F64) :
    Val.pySum (.list ((x :: xs).map .float)) (.int 0) = .ok (.float (F64.pySum (x :: xs))) := by
  rw [pySum_list, List.map_cons, sumFold_cons, sumStep_int0_float]
  exact sumFold_floatAcc _ _ xs

theorem pySum_nil : Val.pySum (.list []) (.int 0) = .ok (.int 0) := by
  rw [pySum_list]; rfl


theorem applyCmp_gt_int (a b : Int) : applyCmp .gt (.int a) (.int b) = .ok (decide (b < a)) := by
  simp only [applyCmp, Val.ordCmp, Val.num?, Val.cmpNum, Val.OrdOp.holds]
  congr 1
  rcases Int.lt_trichotomy a b with h | h | h
  · have : compare a b = .lt := by simp [compare, compareOfLessAndEq, h]
    simp [this]; omega
  · subst h; simp [compare, compareOfLessAndEq]
  · have : compare a b = .gt := by
      simp only [compare, compareOfLessAndEq]
      rw [if_neg (by omega), if_neg (by omega)]
    simp [this, h]

/-- `sum([v[f'{pre}{n}{post}'] for n in range(i[cnt])]) if i[cnt] > 0 else None`
(Form 1040 line 25a: federal income tax withheld on Forms W-2) -/
def shapeSumCopiesIfAny (cnt pre post : String) : List Stmt :=
  [.ret (.ite (.cmp (ri cnt) [.gt] [.const (.int 0)])
    (.call .sum [.listComp (.readV (.fstr [.const (.str pre), .var "n", .const (.str post)])) ["n"]
      (.call .range [ri cnt]) []])
    (.const .none))]

theorem eval_sumCopiesIfAny (cnt pre post : String) (p : Nat)
    (hb : d.body = shapeSumCopiesIfAny cnt pre post) (hk : d.kind = .float p)
    (k : Int) (f : Int → F64)
    (hcnt : is (qual' c.name inst cnt) = .ok (.int k)) (hk' : k ≤ 1000000)
    (hp : post.toList.contains '.' = true)
    (hv : ∀ j : Nat, j < k.toNat → vs (copyKey pre post j) = some (.float (f j))) :
    run vs is fs (evalLine year c inst d) =
      .val (.float (F64.roundN (F64.pySum (copyVals f k)) p)) := by
  rw [run_evalLine, runP_body_ret _ _ _ _ _ _ hb, hk]
  simp only [runP_ite, runP_cmp1, runP_readI_lit, runP_const, qual_eq, hcnt, POut.bind_pure,
    applyCmp_gt_int, liftOut, Val.truthy]
  by_cases h : 0 < k
  · simp only [h, decide_true, if_true]
    rw [runP_call1, runP_listCompCopies vs is fs _ _ cnt pre post k f (by rw [qual_eq]; exact hcnt) hk' hp hv]
    simp only [POut.bind_pure, applyBuiltin]
    have hne : copyVals f k ≠ [] := by
      have : 0 < k.toNat := by omega
      simp only [copyVals, ne_eq, List.map_eq_nil_iff, List.range_eq_nil]
      omega
    cases hcv : copyVals f k with
    | nil => exact absurd hcv hne
    | cons x xs => rw [pySum_floats]; simp only [liftOut, POut.toOut, wrap_float]
  · have hk0 : k.toNat = 0 := by omega
    have : copyVals f k = [] := by simp [copyVals, hk0]
    simp only [h, decide_false, Bool.false_eq_true, if_false, runP_const, POut.toOut, wrap_float_none, this,
      F64.pySum]


/-- `float(sum([v[f'{pre}{n}{post}'] for n in range(i[cnt])]))`
(Form 1040 line 2a; Form 8959 lines 1 and 19; …) -/
def shapeFloatSumCopies (cnt pre post : String) : List Stmt :=
  [.ret (.call .float [.call .sum [.listComp (.readV (.fstr [.const (.str pre), .var "n", .const (.str post)])) ["n"]
      (.call .range [ri cnt]) []]])]

theorem pyFloat_int0 : Val.pyFloat (.int 0) = .ok (.float F64.zero) := by
  have h : Val.intToFloat 0 = .ok F64.zero := by decide +kernel
  show (do let x ← Val.intToFloat 0; pure (Val.float x)) = _
  rw [h]; rfl

theorem eval_floatSumCopies (cnt pre post : String) (p : Nat)
    (hb : d.body = shapeFloatSumCopies cnt pre post) (hk : d.kind = .float p)
    (k : Int) (f : Int → F64)
    (hcnt : is (qual' c.name inst cnt) = .ok (.int k)) (hk' : k ≤ 1000000)
    (hp : post.toList.contains '.' = true)
    (hv : ∀ j : Nat, j < k.toNat → vs (copyKey pre post j) = some (.float (f j))) :
    run vs is fs (evalLine year c inst d) =
      .val (.float (F64.roundN (F64.pySum (copyVals f k)) p)) := by
  rw [run_evalLine, runP_body_ret _ _ _ _ _ _ hb, hk]
  rw [runP_call1, runP_call1,
    runP_listCompCopies vs is fs _ _ cnt pre post k f (by rw [qual_eq]; exact hcnt) hk' hp hv]
  simp only [POut.bind_pure, applyBuiltin]
  cases hcv : copyVals f k with
  | nil =>
    simp only [List.map_nil, pySum_nil, liftOut, POut.bind_pure, pyFloat_int0, POut.toOut, wrap_float, F64.pySum]
  | cons x xs =>
    rw [pySum_floats]
    simp only [liftOut, POut.bind_pure, Val.pyFloat, POut.toOut, wrap_float]

end HabuVerif.Dsl
