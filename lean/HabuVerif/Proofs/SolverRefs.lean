import HabuVerif.Proofs.DslRefs
import HabuVerif.Core.Solver
/-!
# A catalogue whose references resolve never sends the solver into a dangling-name abort

`Resolves C absentOK`: every line or input name that ANY line program of the catalogue can read
(on any path: `Tree.OccursV` / `Tree.OccursI`) names a form the catalogue has — and then the form
has that line / declares that input — or a form listed as deliberately absent.

`solve_abort_good`: for such a catalogue, whatever the schedule, prompt, inputs and requested forms,
`solve` never aborts with `noSuchField` (solver.py's `assert ud.dependency in self._field_map`),
`recursion` (the unbounded `MissingInputSpecification` retry: RecursionError) or `badName`
(`form, key = name.split('.')`: ValueError); a constructor assertion can only come from a form the
USER requested, and "form not supported" only from a requested or a deliberately absent form.
-/
set_option autoImplicit false

namespace HabuVerif
variable {N I F V S : Type} [DecidableEq N] [DecidableEq I] [DecidableEq F]

structure Resolves (C : Cat N I F V S) (absentOK : F → Bool) : Prop where
  line : ∀ n m, (C.sem n).OccursV m → ∃ f, C.formOfN m = some f ∧
    ((C.status f = .ok ∧ m ∈ C.fields f) ∨ (C.status f = .unsupported ∧ absentOK f = true))
  input : ∀ n x, (C.sem n).OccursI x → ∃ f, C.formOfI x = some f ∧
    ((C.status f = .ok ∧ x ∈ C.inputs f) ∨ (C.status f = .unsupported ∧ absentOK f = true))

/-- the aborts a resolving catalogue can still produce, given the forms the user asked for -/
def Abort.Good (absentOK : F → Bool) (requested : List F) : Abort N I F → Prop
  | .noSuchField _ => False
  | .recursion _ => False
  | .badName => False
  | .ctorError f => f ∈ requested
  | .unsupportedForm f => f ∈ requested ∨ absentOK f = true
  | _ => True

variable {vs : N → Option V} {is : I → InpRes V} {fs : F → Bool}

theorem run_needV_occurs (t : Tree N I F V) (m : N) (h : run vs is fs t = .needV m) : t.OccursV m := by
  induction t with
  | ret w => simp [run] at h
  | notImpl => simp [run] at h
  | err c => simp [run] at h
  | readV n k ih =>
    simp only [run] at h
    cases hn : vs n with
    | none => simp only [hn] at h; injection h with h; subst h; exact .here
    | some w => simp only [hn] at h; exact .inReadV (ih w h)
  | readI x k ih =>
    simp only [run] at h
    cases hx : is x with
    | ok w => simp only [hx] at h; exact .inReadI (ih w h)
    | noSpec => simp [hx] at h
    | missing => simp [hx] at h
    | invalid => simp [hx] at h
  | needForm f k ih =>
    simp only [run] at h
    cases hf : fs f with
    | true => simp only [hf, if_true] at h; exact .inNeedForm (ih h)
    | false => simp [hf] at h

theorem run_needSpec_occurs (t : Tree N I F V) (x : I) (h : run vs is fs t = .needSpec x) :
    t.OccursI x := by
  induction t with
  | ret w => simp [run] at h
  | notImpl => simp [run] at h
  | err c => simp [run] at h
  | readV n k ih =>
    simp only [run] at h
    cases hn : vs n with
    | none => simp [hn] at h
    | some w => simp only [hn] at h; exact .inReadV (ih w h)
  | readI y k ih =>
    simp only [run] at h
    cases hy : is y with
    | ok w => simp only [hy] at h; exact .inReadI (ih w h)
    | noSpec => simp only [hy] at h; injection h with h; subst h; exact .here
    | missing => simp [hy] at h
    | invalid => simp [hy] at h
  | needForm f k ih =>
    simp only [run] at h
    cases hf : fs f with
    | true => simp only [hf, if_true] at h; exact .inNeedForm (ih h)
    | false => simp [hf] at h


variable {C : Cat N I F V S} {σ : Sched N I} {absentOK : F → Bool}

theorem Abort.Good.mono {e : Abort N I F} {r r' : List F} (h : e.Good absentOK r) (hr : ∀ f ∈ r, f ∈ r') :
    e.Good absentOK r' := by
  cases e <;> simp only [Abort.Good] at h ⊢ <;> try exact h
  · exact h.imp (hr _) id
  · exact hr _ h

/-- loading a form fails only with "not supported" / a constructor assertion for THAT form -/
theorem addForm_error {s : St N I F V S} {f : F} {b : Bool} {e : Abort N I F}
    (h : addForm C σ s f b = .error e) :
    (e = .unsupportedForm f ∧ C.status f = .unsupported) ∨ (e = .ctorError f ∧ C.status f = .ctorError) := by
  unfold addForm at h
  cases hs : C.status f with
  | unsupported => simp only [hs] at h; injection h with h; exact .inl ⟨h.symm, rfl⟩
  | ctorError => simp only [hs] at h; injection h with h; exact .inr ⟨h.symm, rfl⟩
  | ok => simp only [hs] at h; split at h <;> cases h

theorem addForm_fmap {s s1 : St N I F V S} {f : F} (h : addForm C σ s f false = .ok s1)
    {m : N} (hm : m ∈ C.fields f) : m ∈ s1.fmap := by
  unfold addForm at h
  cases hs : C.status f with
  | unsupported => simp [hs] at h
  | ctorError => simp [hs] at h
  | ok =>
    simp only [hs, Bool.false_eq_true, if_false] at h
    injection h with h; subst h
    simp only [List.mem_append, List.mem_filter]
    by_cases hc : m ∈ s.fmap
    · exact .inl hc
    · exact .inr ⟨hm, by simpa using hc⟩

theorem addForm_specs {s s1 : St N I F V S} {f : F} {b : Bool} (h : addForm C σ s f b = .ok s1)
    {x : I} (hx : x ∈ C.inputs f) : x ∈ s1.specs := by
  unfold addForm at h
  cases hs : C.status f with
  | unsupported => simp [hs] at h
  | ctorError => simp [hs] at h
  | ok =>
    simp only [hs] at h
    have key : x ∈ s.specs ++ (C.inputs f).filter (fun x => !(s.specs.contains x)) := by
      simp only [List.mem_append, List.mem_filter]
      by_cases hc : x ∈ s.specs
      · exact .inl hc
      · exact .inr ⟨hx, by simpa using hc⟩
    split at h <;> (injection h with h; subst h; exact key)

theorem demand_good (hR : Resolves C absentOK) {s : St N I F V S} {n m : N}
    (hocc : (C.sem n).OccursV m) {e : Abort N I F} (h : demand C σ s m = .error e) :
    e.Good absentOK [] := by
  unfold demand at h
  split at h
  · cases h
  · rename_i hms
    by_cases hm : m ∈ s.fmap
    · simp only [hm, if_true, hms, if_false] at h
      cases h
    · simp only [hm, if_false] at h
      obtain ⟨f, hf, hcase⟩ := hR.line n m hocc
      simp only [hf] at h
      cases ha : addForm C σ s f false with
      | error e' =>
        simp only [ha] at h
        injection h with h; subst h
        rcases addForm_error ha with ⟨rfl, hst⟩ | ⟨rfl, hst⟩
        · rcases hcase with ⟨hok, _⟩ | ⟨_, hab⟩
          · rw [hok] at hst; cases hst
          · exact .inr hab
        · rcases hcase with ⟨hok, _⟩ | ⟨hun, _⟩
          · rw [hok] at hst; cases hst
          · rw [hun] at hst; cases hst
      | ok s1 =>
        simp only [ha] at h
        rcases hcase with ⟨_, hmem⟩ | ⟨hun, _⟩
        · simp only [addForm_fmap ha hmem, if_true] at h
          split at h <;> cases h
        · -- an unsupported form cannot have been loaded
          unfold addForm at ha
          simp [hun] at ha

theorem attemptField_good (hR : Resolves C absentOK) :
    ∀ (fuel : Nat) (s : St N I F V S) (n : N) {e : Abort N I F},
      attemptField C σ fuel s n = .error e → e.Good absentOK [] := by
  intro fuel
  induction fuel with
  | zero => intro s n e h; simp only [attemptField] at h; injection h with h; subst h; trivial
  | succ fuel ih =>
    intro s n e h
    simp only [attemptField] at h
    cases ho : s.attempt C n with
    | val x => simp [ho] at h
    | needV m =>
      simp only [ho] at h
      cases hd : demand C σ s m with
      | error e' =>
        simp only [hd] at h; injection h with h; subst h
        exact demand_good hR (run_needV_occurs _ _ ho) hd
      | ok s1 => simp [hd] at h
    | needI x => simp [ho] at h
    | needSpec x =>
      simp only [ho] at h
      obtain ⟨f, hf, hcase⟩ := hR.input n x (run_needSpec_occurs _ _ ho)
      simp only [hf] at h
      cases ha : addForm C σ s f true with
      | error e' =>
        simp only [ha] at h
        injection h with h; subst h
        rcases addForm_error ha with ⟨rfl, hst⟩ | ⟨rfl, hst⟩
        · rcases hcase with ⟨hok, _⟩ | ⟨_, hab⟩
          · rw [hok] at hst; cases hst
          · exact .inr hab
        · rcases hcase with ⟨hok, _⟩ | ⟨hun, _⟩
          · rw [hok] at hst; cases hst
          · rw [hun] at hst; cases hst
      | ok s1 =>
        simp only [ha] at h
        rcases hcase with ⟨_, hmem⟩ | ⟨hun, _⟩
        · simp only [addForm_specs ha hmem, if_true] at h
          exact ih _ _ h
        · unfold addForm at ha
          simp [hun] at ha
    | notImpl => simp [ho] at h
    | invalid x => simp only [ho] at h; injection h with h; subst h; trivial
    | noForm f => simp only [ho] at h; injection h with h; subst h; trivial
    | err c => simp only [ho] at h; injection h with h; subst h; trivial


theorem drainQueue_good (hR : Resolves C absentOK) :
    ∀ (fuel : Nat) (s : St N I F V S) {e : Abort N I F},
      drainQueue C σ fuel s = .error e → e.Good absentOK [] := by
  intro fuel
  induction fuel with
  | zero => intro s e h; simp [drainQueue] at h
  | succ fuel ih =>
    intro s e h
    simp only [drainQueue] at h
    cases hq : s.queue.getLast? with
    | none => simp [hq] at h
    | some n =>
      simp only [hq] at h
      cases ha : attemptField C σ specFuel { s with queue := s.queue.dropLast } n with
      | error e' => simp only [ha] at h; injection h with h; subst h; exact attemptField_good hR _ _ _ ha
      | ok s1 => simp only [ha] at h; exact ih _ h

theorem attemptAll_good (hR : Resolves C absentOK) :
    ∀ (ns : List N) (s : St N I F V S) {e : Abort N I F},
      attemptAll C σ ns s = .error e → e.Good absentOK [] := by
  intro ns
  induction ns with
  | nil => intro s e h; simp [attemptAll] at h
  | cons n ns ih =>
    intro s e h
    simp only [attemptAll] at h
    cases ha : attemptField C σ specFuel s n with
    | error e' => simp only [ha] at h; injection h with h; subst h; exact attemptField_good hR _ _ _ ha
    | ok s1 => simp only [ha] at h; exact ih _ h

theorem attemptInput_good {P : Nat → I → List N → Option S} {s : St N I F V S} {x : I} {e : Abort N I F}
    (h : attemptInput C P s x = .error e) : e.Good absentOK [] := by
  unfold attemptInput at h
  split at h
  · injection h with h; subst h; trivial
  · split at h
    · split at h
      · injection h with h; subst h; trivial
      · cases h
    · cases h

theorem promptAll_good {P : Nat → I → List N → Option S} :
    ∀ (xs : List I) (s : St N I F V S) {e : Abort N I F},
      promptAll C P xs s = .error e → e.Good absentOK [] := by
  intro xs
  induction xs with
  | nil => intro s e h; simp [promptAll] at h
  | cons x xs ih =>
    intro s e h
    simp only [promptAll] at h
    cases ha : attemptInput C P s x with
    | error e' => simp only [ha] at h; injection h with h; subst h; exact attemptInput_good ha
    | ok s1 =>
      simp only [ha] at h
      split at h
      · cases h
      · exact ih _ h

theorem iteration_good (hR : Resolves C absentOK) {P : Nat → I → List N → Option S} {qfuel : Nat}
    {s : St N I F V S} {e : Abort N I F} (h : iteration C σ P qfuel s = .error e) :
    e.Good absentOK [] := by
  unfold iteration at h
  cases h1 : drainQueue C σ qfuel s with
  | error e' => simp only [h1] at h; injection h with h; subst h; exact drainQueue_good hR _ _ h1
  | ok o =>
    cases o with
    | none => simp [h1] at h
    | some s1 =>
      simp only [h1] at h
      cases h2 : s1.fdeps.drainAll with
      | none => simp only [h2] at h; injection h with h; subst h; trivial
      | some p =>
        obtain ⟨ws, fd⟩ := p
        simp only [h2] at h
        cases h3 : attemptAll C σ (σ.sortW ws) { s1 with fdeps := fd } with
        | error e' => simp only [h3] at h; injection h with h; subst h; exact attemptAll_good hR _ _ h3
        | ok s2 =>
          simp only [h3] at h
          cases h4 : (if s2.refused then (Except.ok s2 : Res N I F (St N I F V S))
               else promptAll C P (σ.sortI s2.ideps.unmetDependencies) s2) with
          | error e' =>
            simp only [h4] at h; injection h with h; subst h
            split at h4
            · cases h4
            · exact promptAll_good _ _ h4
          | ok s3 =>
            simp only [h4] at h
            cases h5 : s3.ideps.drainAll with
            | none => simp only [h5] at h; injection h with h; subst h; trivial
            | some p' =>
              obtain ⟨ws', idp⟩ := p'
              simp only [h5] at h
              cases h6 : attemptAll C σ (σ.sortR ws') { s3 with ideps := idp } with
              | error e' => simp only [h6] at h; injection h with h; subst h; exact attemptAll_good hR _ _ h6
              | ok s4 => simp [h6] at h

theorem solveLoop_good (hR : Resolves C absentOK) {P : Nat → I → List N → Option S} {qfuel : Nat} :
    ∀ (fuel : Nat) (s : St N I F V S) {e : Abort N I F},
      solveLoop C σ P qfuel fuel s = .error e → e.Good absentOK [] := by
  intro fuel
  induction fuel with
  | zero => intro s e h; simp [solveLoop] at h
  | succ fuel ih =>
    intro s e h
    simp only [solveLoop] at h
    split at h
    · cases h1 : iteration C σ P qfuel s with
      | error e' => simp only [h1] at h; injection h with h; subst h; exact iteration_good hR h1
      | ok o =>
        cases o with
        | none => simp [h1] at h
        | some s1 => simp only [h1] at h; exact ih _ h
    · cases h

theorem addForms_good : ∀ (fs : List F) (s : St N I F V S) {e : Abort N I F},
    addForms C σ fs s = .error e → e.Good absentOK fs := by
  intro fs
  induction fs with
  | nil => intro s e h; simp [addForms] at h
  | cons f fs ih =>
    intro s e h
    simp only [addForms] at h
    cases ha : addForm C σ s f false with
    | error e' =>
      simp only [ha] at h; injection h with h; subst h
      rcases addForm_error ha with ⟨rfl, _⟩ | ⟨rfl, _⟩
      · exact .inl List.mem_cons_self
      · exact List.mem_cons_self
    | ok s1 =>
      simp only [ha] at h
      exact (ih _ h).mono (fun g hg => List.mem_cons_of_mem _ hg)

theorem addExtra_good : ∀ (ns : List N) (s : St N I F V S) {e : Abort N I F},
    addExtra σ ns s = .error e → e.Good absentOK ([] : List F) := by
  intro ns
  induction ns with
  | nil => intro s e h; simp [addExtra] at h
  | cons n ns ih =>
    intro s e h
    simp only [addExtra] at h
    split at h
    · exact ih _ h
    · injection h with h; subst h; trivial

/-- **A catalogue whose references resolve never aborts on a dangling name**: whatever the
schedule, prompt, input file, requested forms and fields, an abort of `solve` is never
`noSuchField` (the solver's internal assertion), `recursion` (unbounded retry: RecursionError) or
`badName` (ValueError); a constructor assertion names a form the user requested, and "form not
supported" names a requested or a deliberately absent form. -/
theorem solve_abort_good (hR : Resolves C absentOK) (P : Option (Nat → I → List N → Option S))
    (inp : List (I × S)) (forms : List F) (extra : List N) (fuel qfuel : Nat) {e : Abort N I F}
    (h : solve C σ P inp forms extra fuel qfuel = .error e) : e.Good absentOK forms := by
  unfold solve at h
  cases h1 : addForms C σ forms (initSt inp P.isSome) with
  | error e' => simp only [h1] at h; injection h with h; subst h; exact addForms_good _ _ h1
  | ok s =>
    simp only [h1] at h
    cases h2 : addExtra σ extra s with
    | error e' =>
      simp only [h2] at h; injection h with h; subst h
      exact (addExtra_good (absentOK := absentOK) _ _ h2).mono (fun g hg => by cases hg)
    | ok s1 =>
      simp only [h2] at h
      exact (solveLoop_good hR _ _ h).mono (fun g hg => by cases hg)

end HabuVerif

#print axioms HabuVerif.solve_abort_good
