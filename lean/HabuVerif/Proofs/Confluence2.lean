import HabuVerif.Proofs.Confluence
/-!
# Order independence, part 2: the prompt, the start, and the final theorem
-/
set_option autoImplicit false
set_option linter.unusedSectionVars false
set_option linter.unusedVariables false

namespace HabuVerif
open Tracker

variable {N I F V S : Type} [DecidableEq N] [DecidableEq I] [DecidableEq F]
variable {C : Cat N I F V S} {σ : Sched N I}

theorem attemptInput_same {P : Nat → I → List N → Option S} {s s' : St N I F V S} {x : I}
    (h : attemptInput C P s x = .ok s') :
    s'.solving = s.solving ∧ s'.forms = s.forms ∧ s'.specs = s.specs ∧ s'.v = s.v := by
  unfold attemptInput at h
  cases hud : s.ideps.unmetDependents x with
  | none => simp [hud] at h
  | some nb =>
    simp only [hud] at h
    cases hP : P s.nprompts x nb with
    | none => simp only [hP] at h; cases h; exact ⟨rfl, rfl, rfl, rfl⟩
    | some str =>
      simp only [hP] at h
      cases hp : C.parse x str with
      | none => simp [hp] at h
      | some pv => simp only [hp] at h; cases h; exact ⟨rfl, rfl, rfl, rfl⟩

/-- `Grow s0 ·` is preserved by every step -/
theorem Grow.stepPres (P : Nat → I → List N → Option S) (s0 : St N I F V S) :
    StepPres C σ P (Grow s0) := by
  refine ⟨?_, ?_, ?_⟩
  · intro s s' q _ _ e3 e4 e5 _
    exact ⟨by rw [e5]; exact q.sol, by rw [e4]; exact q.forms, by rw [e3]; exact q.specs⟩
  · intro L s s' n _ q h
    exact q.trans (attemptField_grow specFuel h)
  · intro L s s' x _ _ _ q h
    obtain ⟨a, b, c, _⟩ := attemptInput_same h
    exact ⟨by rw [a]; exact q.sol, by rw [b]; exact q.forms, by rw [c]; exact q.specs⟩

/-- answering keeps the state below a closed final state of a run with the same total prompt -/
theorem attemptInput_below {P : Nat → I → List N → Option S} {ans : I → S}
    (hP : ∀ k x nb, P k x nb = some (ans x)) {file : List (I × S)}
    {L : List N} {s s' T : St N I F V S} {x : I} (hinv : Inv C L s) (hx1 : x ∉ s.ideps.met)
    (hx2 : x ∈ keys s.ideps.unmet) (hsrc : Src file P s) (hsrcT : Src file P T)
    (hT : Inv C [] T) (cT : Closed (C := C) true T) (hb : Below s T)
    (h : attemptInput C P s x = .ok s') : Below s' T := by
  obtain ⟨_, post⟩ := attemptInput_inv hinv hx1 hx2 h
  obtain ⟨e_sol, e_forms, e_specs, e_v⟩ := attemptInput_same h
  have hle : StoreLe C s T := hb.storeLe
  rcases post.cases with ⟨_, _, hinp, _⟩ | ⟨_, _, k, nb, str, hPk, hinp, hnone⟩
  · exact ⟨by rw [e_sol]; exact hb.sol, by rw [e_forms]; exact hb.forms,
      by rw [e_specs]; exact hb.specs, by rw [vf_congr e_v]; exact hb.v,
      by rw [inpf_congr hinp]; exact hb.inp⟩
  · have hstr : str = ans x := by
      have := hP k x nb; rw [hPk] at this; cases this; rfl
    -- some line of s is blocked on x
    obtain ⟨w, hw⟩ := waits_of_key hinv.iwf hx2
    obtain ⟨hwsol, hc⟩ := hinv.iWait x w hw
    have hmiss : s.inf C x = .missing ∧ s.attempt C w = .needI x := by
      rcases hc with c | c
      · exact absurd c hx1
      · exact c
    have hxs : x ∈ s.specs := (inpf_none_of_missing hmiss.1).2
    have hxT : x ∈ T.specs := hb.specs x hxs
    have hTnm : T.inf C x ≠ .missing := by
      rcases run_needI_later hle.v hle.i hle.f _ x hmiss.2 with h' | h'
      · exact h'
      · exact absurd h' (cT.cInp rfl w (hb.sol w hwsol) x)
    -- so T holds some text for x; it is not from the file, hence it is the prompt's answer
    have hTx : T.inpf x = some (ans x) := by
      cases hti : T.inpf x with
      | none =>
        exfalso; apply hTnm
        simp only [inf_def, hxT, if_true, hti]
      | some t =>
        rcases hsrcT.src x t hti with hf | ⟨_, k', nb', hk'⟩
        · have := hsrc.fileIn x t hf
          rw [hnone] at this; cases this
        · have := hP k' x nb'; rw [hk'] at this; cases this; rfl
    refine ⟨by rw [e_sol]; exact hb.sol, by rw [e_forms]; exact hb.forms,
      by rw [e_specs]; exact hb.specs, by rw [vf_congr e_v]; exact hb.v, ?_⟩
    intro y t hy
    have hy' : (assocSet s.inp x str).lookup y = some t := by
      have : s'.inpf y = some t := hy
      unfold St.inpf at this; rw [hinp] at this; exact this
    rw [assocSet_lookup] at hy'
    split at hy'
    · rename_i e; subst e; cases hy'; rw [hstr]; exact hTx
    · exact hb.inp y t hy'

/-! ## the start of a run -/

theorem addForms_mem : ∀ (fs : List F) {s s' : St N I F V S}, addForms C σ fs s = .ok s' →
    (∀ n, n ∈ s'.solving ↔ n ∈ s.solving ∨ ∃ f, f ∈ fs ∧ n ∈ C.required f) ∧
    (∀ g, g ∈ s'.forms ↔ g ∈ s.forms ∨ g ∈ fs) ∧
    (∀ x, x ∈ s'.specs ↔ x ∈ s.specs ∨ ∃ f, f ∈ fs ∧ x ∈ C.inputs f) ∧
    s'.v = s.v ∧ s'.inp = s.inp := by
  intro fs
  induction fs with
  | nil => intro s s' h; simp only [addForms] at h; cases h; simp
  | cons f fs ih =>
    intro s s' h
    simp only [addForms] at h
    cases ha : addForm C σ s f false with
    | error e => simp [ha] at h
    | ok s1 =>
      simp only [ha] at h
      obtain ⟨_, h0, h1, _, _, _, _, hsp, _, hF⟩ := addForm_ok ha
      obtain ⟨e1, _, _, e4⟩ := hF rfl
      obtain ⟨a, b, c, d, e⟩ := ih h
      refine ⟨?_, ?_, ?_, by rw [d, h0], by rw [e, h1]⟩
      · intro n
        rw [a n, e4 n]
        constructor
        · rintro ((h' | h') | ⟨g, hg, hn⟩)
          · exact Or.inl h'
          · exact Or.inr ⟨f, List.mem_cons_self, h'⟩
          · exact Or.inr ⟨g, List.mem_cons_of_mem _ hg, hn⟩
        · rintro (h' | ⟨g, hg, hn⟩)
          · exact Or.inl (Or.inl h')
          · rcases List.mem_cons.mp hg with rfl | hg
            · exact Or.inl (Or.inr hn)
            · exact Or.inr ⟨g, hg, hn⟩
      · intro g
        rw [b g, e1 g]
        constructor
        · rintro ((h' | rfl) | h')
          · exact Or.inl h'
          · exact Or.inr List.mem_cons_self
          · exact Or.inr (List.mem_cons_of_mem _ h')
        · rintro (h' | h')
          · exact Or.inl (Or.inl h')
          · rcases List.mem_cons.mp h' with rfl | h'
            · exact Or.inl (Or.inr rfl)
            · exact Or.inr h'
      · intro x
        rw [c x, hsp x]
        constructor
        · rintro ((h' | h') | ⟨g, hg, hn⟩)
          · exact Or.inl h'
          · exact Or.inr ⟨f, List.mem_cons_self, h'⟩
          · exact Or.inr ⟨g, List.mem_cons_of_mem _ hg, hn⟩
        · rintro (h' | ⟨g, hg, hn⟩)
          · exact Or.inl (Or.inl h')
          · rcases List.mem_cons.mp hg with rfl | hg
            · exact Or.inl (Or.inr hn)
            · exact Or.inr ⟨g, hg, hn⟩

theorem addExtra_mem : ∀ (ns : List N) {s s' : St N I F V S}, addExtra σ ns s = .ok s' →
    (∀ n, n ∈ s'.solving ↔ n ∈ s.solving ∨ n ∈ ns) ∧ s'.forms = s.forms ∧ s'.specs = s.specs ∧
    s'.v = s.v ∧ s'.inp = s.inp := by
  intro ns
  induction ns with
  | nil => intro s s' h; simp only [addExtra] at h; cases h; simp
  | cons n ns ih =>
    intro s s' h
    simp only [addExtra] at h
    split at h
    · obtain ⟨a, b, c, d, e⟩ := ih h
      refine ⟨?_, b, c, d, e⟩
      intro k
      rw [a k]
      have hsolmem : k ∈ (if n ∈ s.solving then s.solving else s.solving ++ [n]) ↔
          k ∈ s.solving ∨ k = n := by
        split
        · rename_i hmem
          constructor
          · exact Or.inl
          · rintro (h' | rfl)
            · exact h'
            · exact hmem
        · simp
      constructor
      · rintro (h' | h')
        · rcases hsolmem.mp h' with h'' | rfl
          · exact Or.inl h''
          · exact Or.inr List.mem_cons_self
        · exact Or.inr (List.mem_cons_of_mem _ h')
      · rintro (h' | h')
        · exact Or.inl (hsolmem.mpr (Or.inl h'))
        · rcases List.mem_cons.mp h' with rfl | h'
          · exact Or.inl (hsolmem.mpr (Or.inr rfl))
          · exact Or.inr h'
    · simp at h

/-- the prompt modes for which the result is a function of the inputs alone -/
inductive PromptMode (S I N : Type) where
  | none
  | total (ans : I → S)

def PromptMode.toP : PromptMode S I N → Option (Nat → I → List N → Option S)
  | .none => Option.none
  | .total ans => some fun _ x _ => some (ans x)

def PromptMode.isTotal : PromptMode S I N → Bool
  | .none => false
  | .total _ => true

/-- with a prompt that answers everything the solver never sets "refused" -/
theorem refused_false_stepPres (P : Nat → I → List N → Option S)
    (hP : ∀ k x nb, ∃ t, P k x nb = some t) (hC : CatWF C) (hσ : SchedOK σ) :
    StepPres C σ P (fun s => s.refused = false) := by
  refine ⟨?_, ?_, ?_⟩
  · intro s s' q _ _ _ _ _ e; rw [e]; exact q
  · intro L s s' n hinv q h
    obtain ⟨_, _, _, _, hr⟩ := attemptField_inv hC hσ specFuel hinv h
    rw [hr]; exact q
  · intro L s s' x hinv hx1 hx2 q h
    obtain ⟨_, post⟩ := attemptInput_inv hinv hx1 hx2 h
    rcases post.cases with ⟨_, _, _, k, nb, hk⟩ | ⟨hr, _⟩
    · obtain ⟨t, ht⟩ := hP k x nb
      rw [hk] at ht; cases ht
    · rw [hr]; exact q

/-- the combined predicate threaded through run 1: provenance of inputs and "below T" -/
theorem below_stepPres {P : Nat → I → List N → Option S} {ans : I → S}
    (hP : ∀ k x nb, P k x nb = some (ans x)) (file : List (I × S)) (hC : CatWF C) (hσ : SchedOK σ)
    {T : St N I F V S} (hT : Inv C [] T) (cT : Closed (C := C) true T) (hsrcT : Src file P T) :
    StepPres C σ P (fun s => Src file P s ∧ Below s T) := by
  have hsrc := Src.stepPres (C := C) (σ := σ) file P hC hσ
  refine ⟨?_, ?_, ?_⟩
  · intro s s' q e0 e1 e2 e3 e4 e5
    refine ⟨hsrc.congr q.1 e0 e1 e2 e3 e4 e5, ?_⟩
    exact ⟨by rw [e4]; exact q.2.sol, by rw [e3]; exact q.2.forms, by rw [e2]; exact q.2.specs,
      by rw [vf_congr e0]; exact q.2.v, by rw [inpf_congr e1]; exact q.2.inp⟩
  · intro L s s' n hinv q h
    exact ⟨hsrc.field hinv q.1 h, attemptField_below hC hσ specFuel hinv hT cT q.2 h⟩
  · intro L s s' x hinv hx1 hx2 q h
    exact ⟨hsrc.input hinv hx1 hx2 q.1 h,
      attemptInput_below hP hinv hx1 hx2 q.1 hsrcT hT cT q.2 h⟩

/-- without a prompt nothing is ever asked: only line attempts happen -/
theorem below_stepPres_noPrompt (file : List (I × S)) (hC : CatWF C) (hσ : SchedOK σ)
    {T : St N I F V S} (hT : Inv C [] T) (cT : Closed (C := C) false T) :
    StepPres C σ (fun _ _ _ => none) (fun s => s.refused = true ∧ Below s T) := by
  refine ⟨?_, ?_, ?_⟩
  · intro s s' q e0 e1 e2 e3 e4 e5
    refine ⟨by rw [e5]; exact q.1, ?_⟩
    exact ⟨by rw [e4]; exact q.2.sol, by rw [e3]; exact q.2.forms, by rw [e2]; exact q.2.specs,
      by rw [vf_congr e0]; exact q.2.v, by rw [inpf_congr e1]; exact q.2.inp⟩
  · intro L s s' n hinv q h
    obtain ⟨_, _, _, _, hr⟩ := attemptField_inv hC hσ specFuel hinv h
    exact ⟨by rw [hr]; exact q.1, attemptField_below hC hσ specFuel hinv hT cT q.2 h⟩
  · intro L s s' x hinv hx1 hx2 q h
    obtain ⟨_, post⟩ := attemptInput_inv (P := fun _ _ _ => none) hinv hx1 hx2 h
    obtain ⟨e_sol, e_forms, e_specs, e_v⟩ := attemptInput_same h
    rcases post.cases with ⟨hr, _, hinp, _⟩ | ⟨_, _, k, nb, str, hk, _⟩
    · exact ⟨hr, by rw [e_sol]; exact q.2.sol, by rw [e_forms]; exact q.2.forms,
        by rw [e_specs]; exact q.2.specs, by rw [vf_congr e_v]; exact q.2.v,
        by rw [inpf_congr hinp]; exact q.2.inp⟩
    · cases hk

end HabuVerif
