import HabuVerif.Proofs.SolverFinal
/-!
# Threading an arbitrary step-preserved predicate through the solver's loops

`StepPres Q`: `Q` depends only on the stores / demanded set / loaded forms and is preserved by one
line attempt and by one prompt.  Then `Q` holds at the end of `solve` if it holds after the
requested forms were added.  Used for: monotonicity, "below every closed state" (order
independence), provenance of inputs.
-/
set_option autoImplicit false
set_option linter.unusedSectionVars false
set_option linter.unusedVariables false

namespace HabuVerif
open Tracker

variable {N I F V S : Type} [DecidableEq N] [DecidableEq I] [DecidableEq F]
variable {C : Cat N I F V S} {σ : Sched N I}

structure StepPres (C : Cat N I F V S) (σ : Sched N I) (P : Nat → I → List N → Option S)
    (Q : St N I F V S → Prop) : Prop where
  congr : ∀ {s s' : St N I F V S}, Q s → s'.v = s.v → s'.inp = s.inp → s'.specs = s.specs →
    s'.forms = s.forms → s'.solving = s.solving → s'.refused = s.refused → Q s'
  field : ∀ {L : List N} {s s' : St N I F V S} {n : N}, Inv C (n :: L) s → Q s →
    attemptField C σ specFuel s n = .ok s' → Q s'
  input : ∀ {L : List N} {s s' : St N I F V S} {x : I}, Inv C L s → x ∉ s.ideps.met →
    x ∈ keys s.ideps.unmet → Q s → attemptInput C P s x = .ok s' → Q s'

variable {P : Nat → I → List N → Option S} {Q : St N I F V S → Prop}

theorem attemptAll_pres (hC : CatWF C) (hσ : SchedOK σ) (hQ : StepPres C σ P Q) :
    ∀ (ns : List N) {L : List N} {s s' : St N I F V S}, Inv C (ns ++ L) s → Q s →
      attemptAll C σ ns s = .ok s' → Q s' := by
  intro ns
  induction ns with
  | nil => intro L s s' _ q h; simp only [attemptAll] at h; cases h; exact q
  | cons n ns ih =>
    intro L s s' hinv q h
    simp only [attemptAll] at h
    cases ha : attemptField C σ specFuel s n with
    | error e => simp [ha] at h
    | ok s1 =>
      simp only [ha] at h
      obtain ⟨hinv1, _⟩ := attemptField_inv hC hσ specFuel (L := ns ++ L) hinv ha
      exact ih hinv1 (hQ.field hinv q ha) h

theorem drainQueue_pres (hC : CatWF C) (hσ : SchedOK σ) (hQ : StepPres C σ P Q) (fuel : Nat) :
    ∀ {L : List N} {s s' : St N I F V S}, Inv C L s → Q s →
      drainQueue C σ fuel s = .ok (some s') → Q s' := by
  induction fuel with
  | zero => intro L s s' _ _ h; simp [drainQueue] at h
  | succ fuel ih =>
    intro L s s' hinv q h
    simp only [drainQueue] at h
    cases hl : s.queue.getLast? with
    | none => simp only [hl] at h; cases h; exact q
    | some n =>
      simp only [hl] at h
      cases ha : attemptField C σ specFuel { s with queue := s.queue.dropLast } n with
      | error e => simp [ha] at h
      | ok s1 =>
        simp only [ha] at h
        obtain ⟨hinv1, _⟩ := attemptField_inv hC hσ specFuel (hinv.pop hl) ha
        exact ih hinv1 (hQ.field (hinv.pop hl) (hQ.congr q rfl rfl rfl rfl rfl rfl) ha) h

theorem promptAll_pres (hQ : StepPres C σ P Q) :
    ∀ (xs : List I) {L : List N} {s s' : St N I F V S}, Inv C L s → Q s → xs.Nodup →
      (∀ x, x ∈ xs → x ∉ s.ideps.met ∧ x ∈ keys s.ideps.unmet) →
      promptAll C P xs s = .ok s' → Q s' := by
  intro xs
  induction xs with
  | nil => intro L s s' _ q _ _ h; simp only [promptAll] at h; cases h; exact q
  | cons x xs ih =>
    intro L s s' hinv q hnd hxs h
    simp only [promptAll] at h
    cases ha : attemptInput C P s x with
    | error e => simp [ha] at h
    | ok s1 =>
      simp only [ha] at h
      obtain ⟨hx1, hx2⟩ := hxs x List.mem_cons_self
      obtain ⟨hinv1, post⟩ := attemptInput_inv hinv hx1 hx2 ha
      have q1 := hQ.input hinv hx1 hx2 q ha
      split at h
      · cases h; exact q1
      · rename_i href
        rcases post.cases with ⟨c, _⟩ | ⟨_, hmet, _⟩
        · exact absurd c href
        · have hnd' := List.nodup_cons.mp hnd
          exact ih hinv1 q1 hnd'.2 (by
            intro y hy
            obtain ⟨a, b⟩ := hxs y (List.mem_cons_of_mem _ hy)
            refine ⟨?_, by rw [post.unmet]; exact b⟩
            rw [hmet, List.mem_append, List.mem_singleton]
            rintro (h' | rfl)
            · exact a h'
            · exact hnd'.1 hy) h

theorem iteration_pres (hC : CatWF C) (hσ : SchedOK σ) (hQ : StepPres C σ P Q)
    {qfuel : Nat} {s s' : St N I F V S} (hinv : Inv C [] s) (him : s.ideps.met = []) (q : Q s)
    (h : iteration C σ P qfuel s = .ok (some s')) : Q s' := by
  unfold iteration at h
  cases hq : drainQueue C σ qfuel s with
  | error e => simp [hq] at h
  | ok o =>
    cases o with
    | none => simp [hq] at h
    | some s1 =>
      simp only [hq] at h
      obtain ⟨hinv1, hq1, post1⟩ := drainQueue_inv hC hσ qfuel hinv hq
      have q1 := drainQueue_pres hC hσ hQ qfuel hinv q hq
      obtain ⟨ws, fd, hd, hfdm, hinvd⟩ := hinv1.drainF
      simp only [hd] at h
      cases ha : attemptAll C σ (σ.sortW ws) { s1 with fdeps := fd } with
      | error e => simp [ha] at h
      | ok s2 =>
        simp only [ha] at h
        have hinvd' : Inv C (σ.sortW ws ++ []) { s1 with fdeps := fd } :=
          hinvd.relist (fun n => by simp [(hσ.w ws).mem_iff])
        obtain ⟨hinv2, post2⟩ := attemptAll_inv hC hσ _ hinvd' ha
        have q2 := attemptAll_pres hC hσ hQ _ hinvd' (hQ.congr q1 rfl rfl rfl rfl rfl rfl) ha
        have him2 : s2.ideps.met = [] := by
          rw [post2.imet]; show s1.ideps.met = []; rw [post1.imet]; exact him
        have hprompt : ∀ s3, (if s2.refused then Except.ok s2
            else promptAll C P (σ.sortI s2.ideps.unmetDependencies) s2) = Except.ok s3 →
            Inv C [] s3 ∧ Q s3 := by
          intro s3 h3
          split at h3
          · cases h3; exact ⟨hinv2, q2⟩
          · have hnd : (σ.sortI s2.ideps.unmetDependencies).Nodup :=
              (hσ.i _).nodup_iff.mpr hinv2.iwf.nodup
            have hside : ∀ x, x ∈ σ.sortI s2.ideps.unmetDependencies →
                x ∉ s2.ideps.met ∧ x ∈ keys s2.ideps.unmet := by
              intro x hx
              rw [(hσ.i _).mem_iff] at hx
              exact ⟨by rw [him2]; simp, hx⟩
            exact ⟨(promptAll_inv _ hinv2 hnd hside h3).1, promptAll_pres hQ _ hinv2 q2 hnd hside h3⟩
        cases hp : (if s2.refused then Except.ok s2
            else promptAll C P (σ.sortI s2.ideps.unmetDependencies) s2) with
        | error e => simp [hp] at h
        | ok s3 =>
          simp only [hp] at h
          obtain ⟨hinv3, q3⟩ := hprompt s3 hp
          obtain ⟨ws', idp, hd', hidm, hinvd3⟩ := hinv3.drainI
          simp only [hd'] at h
          cases ha' : attemptAll C σ (σ.sortR ws') { s3 with ideps := idp } with
          | error e => simp [ha'] at h
          | ok s4 =>
            simp only [ha'] at h
            cases h
            have hinvd3' : Inv C (σ.sortR ws' ++ []) { s3 with ideps := idp } :=
              hinvd3.relist (fun n => by simp [(hσ.r ws').mem_iff])
            exact attemptAll_pres hC hσ hQ _ hinvd3' (hQ.congr q3 rfl rfl rfl rfl rfl rfl) ha'

theorem solveLoop_pres (hC : CatWF C) (hσ : SchedOK σ) (hQ : StepPres C σ P Q)
    {qfuel : Nat} (fuel : Nat) :
    ∀ {s s' : St N I F V S}, Inv C [] s → s.ideps.met = [] → Q s →
      solveLoop C σ P qfuel fuel s = .ok (some s') → Q s' := by
  induction fuel with
  | zero => intro s s' _ _ _ h; simp [solveLoop] at h
  | succ fuel ih =>
    intro s s' hinv him q h
    simp only [solveLoop] at h
    split at h
    · cases hi : iteration C σ P qfuel s with
      | error e => simp [hi] at h
      | ok o =>
        cases o with
        | none => simp [hi] at h
        | some s1 =>
          simp only [hi] at h
          obtain ⟨a, b, _⟩ := iteration_inv hC hσ hinv him hi
          exact ih a b (iteration_pres hC hσ hQ hinv him q hi) h
    · cases h; exact q

/-- the state in which the main loop starts -/
theorem solve_split {Po : Option (Nat → I → List N → Option S)} {inp : List (I × S)}
    {forms : List F} {extra : List N} {fuel qfuel : Nat} {s : St N I F V S}
    (h : solve C σ Po inp forms extra fuel qfuel = .ok (some s)) :
    ∃ s1 s2, addForms C σ forms (initSt inp Po.isSome) = .ok s1 ∧ addExtra σ extra s1 = .ok s2 ∧
      solveLoop C σ (Po.getD fun _ _ _ => none) qfuel fuel s2 = .ok (some s) := by
  unfold solve at h
  cases h1 : addForms C σ forms (initSt inp Po.isSome) with
  | error e => simp [h1] at h
  | ok s1 =>
    simp only [h1] at h
    cases h2 : addExtra σ extra s1 with
    | error e => simp [h2] at h
    | ok s2 =>
      simp only [h2] at h
      exact ⟨s1, s2, rfl, h2, h⟩

/-- **Generic preservation through `solve`.** -/
theorem solve_pres (hC : CatWF C) (hσ : SchedOK σ) {Po : Option (Nat → I → List N → Option S)}
    (hQ : StepPres C σ (Po.getD fun _ _ _ => none) Q)
    {inp : List (I × S)} {forms : List F} {extra : List N} {fuel qfuel : Nat}
    {s1 s2 s : St N I F V S}
    (h1 : addForms C σ forms (initSt inp Po.isSome) = .ok s1) (h2 : addExtra σ extra s1 = .ok s2)
    (h3 : solveLoop C σ (Po.getD fun _ _ _ => none) qfuel fuel s2 = .ok (some s)) (q : Q s2) :
    Q s := by
  obtain ⟨a1, b1, _⟩ := addForms_inv hC hσ forms (initSt_inv inp _) (by simp [initSt]) h1
  obtain ⟨a2, b2⟩ := addExtra_inv hσ extra a1 b1 h2
  exact solveLoop_pres hC hσ hQ fuel a2 b2 q h3

end HabuVerif
