import HabuVerif.Spec.FigureTax
import Mathlib.Tactic.Ring
import Mathlib.Tactic.Linarith
import Mathlib.Algebra.Order.Field.Rat
import Mathlib.Data.Rat.Floor
/-!
# C07: general theorems about rate schedules, tax tables and the model of `figure_tax`

Everything here is about the **exact-rational reading** (`Spec/FigureTax.lean`) of the table / worksheet data;
nothing is claimed about binary64 rounding.  The theorems are proved once, for every table; the generated files
`Gen/C07_<year>.lean` discharge the decidable hypotheses by `decide +kernel` on the data of the working tree.

1. the schedule: `taxAbove` / `bracketTax` is monotone, non-negative, and its slope is at most the top rate;
2. `tableCell = tableCellN` (the whole-number evaluation used in the kernel is the rational definition);
3. the table: ordered rows ⇒ the look-up finds x's row or x lies in a listed hole (contiguous ⇒ always defined);
   non-decreasing cells ⇒ monotone look-up;
4. the worksheet: chained rows that fit the linear pieces ⇒ the look-up returns `bracketTax x`;
5. `figureTaxQ_eq_spec`, `figureTaxQ_mono`, `figureTaxQ_marginal`, `figureTaxQ_qss_eq_mfj`.
-/
set_option autoImplicit false

namespace HabuVerif.C07
open HabuVerif.Spec

/-! ## 1. The schedule -/

/-- Bracket ends ascend from `prev` and every rate lies in `[0, top]`. -/
def BracketsOk (prev : Rat) : Brackets → Rat → Prop
  | [], top => 0 ≤ top
  | (e, r) :: rest, top => prev ≤ e ∧ 0 ≤ r ∧ r ≤ top ∧ BracketsOk e rest top

theorem BracketsOk.top_nonneg {prev : Rat} {brs : Brackets} {top : Rat} (h : BracketsOk prev brs top) :
    0 ≤ top := by
  induction brs generalizing prev with
  | nil => exact h
  | cons b rest ih => obtain ⟨e, r⟩ := b; exact ih h.2.2.2

/-- Between two incomes the tax grows, and by at most the top rate per dollar. -/
theorem taxAbove_slope {prev : Rat} {brs : Brackets} {top : Rat} (h : BracketsOk prev brs top)
    {x y : Rat} (hx : prev ≤ x) (hxy : x ≤ y) :
    0 ≤ taxAbove prev brs top y - taxAbove prev brs top x ∧
      taxAbove prev brs top y - taxAbove prev brs top x ≤ top * (y - x) := by
  induction brs generalizing prev x y with
  | nil =>
    have ht : 0 ≤ top := h
    simp only [taxAbove]
    constructor
    · have := mul_nonneg ht (sub_nonneg.mpr hxy); linarith
    · linarith
  | cons b rest ih =>
    obtain ⟨e, r⟩ := b
    obtain ⟨hpe, hr0, hrt, hrest⟩ := h
    have ht : 0 ≤ top := hrest.top_nonneg
    simp only [taxAbove]
    by_cases hye : y ≤ e
    · have hxe : x ≤ e := le_trans hxy hye
      rw [if_pos hye, if_pos hxe]
      have h1 := mul_nonneg hr0 (sub_nonneg.mpr hxy)
      have h2 := mul_le_mul_of_nonneg_right hrt (sub_nonneg.mpr hxy)
      constructor <;> linarith
    · rw [if_neg hye]
      have hey : e ≤ y := le_of_lt (not_le.mp hye)
      by_cases hxe : x ≤ e
      · rw [if_pos hxe]
        -- x ≤ e < y : r (e - x) + (tax above e at y), and tax above e at e is 0
        have hee := ih hrest (le_refl e) hey
        have hself : taxAbove e rest top e = 0 := by
          cases rest with
          | nil => simp [taxAbove]
          | cons b' rest' =>
            obtain ⟨e', r'⟩ := b'
            have : e ≤ e' := hrest.1
            simp [taxAbove, this]
        rw [hself] at hee
        have h1 := mul_nonneg hr0 (sub_nonneg.mpr hxe)
        have h2 := mul_le_mul_of_nonneg_right hrt (sub_nonneg.mpr hxe)
        constructor <;> linarith [hee.1, hee.2]
      · rw [if_neg hxe]
        have hex : e ≤ x := le_of_lt (not_le.mp hxe)
        have := ih hrest hex hxy
        constructor <;> linarith [this.1, this.2]

theorem taxAbove_self {prev : Rat} {brs : Brackets} {top : Rat} (h : BracketsOk prev brs top) :
    taxAbove prev brs top prev = 0 := by
  cases brs with
  | nil => simp [taxAbove]
  | cons b rest =>
    obtain ⟨e, r⟩ := b
    have : prev ≤ e := h.1
    simp [taxAbove, this]

theorem taxAbove_nonneg {prev : Rat} {brs : Brackets} {top : Rat} (h : BracketsOk prev brs top)
    {x : Rat} (hx : prev ≤ x) : 0 ≤ taxAbove prev brs top x := by
  have := (taxAbove_slope h (le_refl prev) hx).1
  rw [taxAbove_self h] at this
  linarith

/-- At or above the end of the first bracket the first bracket is taxed in full. -/
theorem taxAbove_cons_of_ge {prev e r : Rat} {rest : Brackets} {top : Rat}
    (h : BracketsOk prev ((e, r) :: rest) top) {x : Rat} (hx : e ≤ x) :
    taxAbove prev ((e, r) :: rest) top x = r * (e - prev) + taxAbove e rest top x := by
  simp only [taxAbove]
  by_cases hxe : x ≤ e
  · have : x = e := le_antisymm hxe hx
    subst this
    rw [if_pos hxe, taxAbove_self h.2.2.2]; ring
  · rw [if_neg hxe]

/-! ### The concrete schedules satisfy `BracketsOk` -/

/-- Whole-number version of `BracketsOk` (ends in dollars, floor in half-dollars, rates in percent). -/
def bracketsNOk (prev2 : Nat) : List (Nat × Nat) → Nat → Bool
  | [], _ => true
  | (e, r) :: rest, top => decide (prev2 ≤ 2 * e) && decide (r ≤ top) && bracketsNOk (2 * e) rest top

theorem bracketsOk_of_N {prev2 : Nat} {l : List (Nat × Nat)} {top : Nat} (h : bracketsNOk prev2 l top = true) :
    BracketsOk ((prev2 : Rat) / 2) (l.map bracketQ) ((top : Rat) / 100) := by
  induction l generalizing prev2 with
  | nil =>
    show (0 : Rat) ≤ (top : Rat) / 100
    positivity
  | cons b rest ih =>
    obtain ⟨e, r⟩ := b
    simp only [bracketsNOk, Bool.and_eq_true, decide_eq_true_eq] at h
    obtain ⟨⟨h1, h2⟩, h3⟩ := h
    have ih' := ih h3
    refine ⟨?_, ?_, ?_, ?_⟩
    · show (prev2 : Rat) / 2 ≤ (e : Rat)
      have : (prev2 : Rat) ≤ 2 * (e : Rat) := by exact_mod_cast h1
      linarith
    · show (0 : Rat) ≤ (r : Rat) / 100
      positivity
    · show (r : Rat) / 100 ≤ (top : Rat) / 100
      have : (r : Rat) ≤ (top : Rat) := by exact_mod_cast h2
      linarith
    · have : ((2 * e : Nat) : Rat) / 2 = (e : Rat) := by push_cast; ring
      rw [this] at ih'
      exact ih'

theorem bracketsN_ok (y : Year) (c : Col) : bracketsNOk 0 (bracketsN y c) topPct = true := by
  cases y <;> cases c <;> decide

theorem brackets_ok (y : Year) (c : Col) : BracketsOk 0 (brackets y c) topRate := by
  have := bracketsOk_of_N (bracketsN_ok y c)
  simpa [brackets, topRate] using this

/-- The statutory tax is non-decreasing in the income and grows by at most 37 cents per dollar. -/
theorem bracketTax_slope (y : Year) (c : Col) {a b : Rat} (ha : 0 ≤ a) (hab : a ≤ b) :
    0 ≤ bracketTax y c b - bracketTax y c a ∧
      bracketTax y c b - bracketTax y c a ≤ 37 / 100 * (b - a) := by
  have := taxAbove_slope (brackets_ok y c) ha hab
  have ht : topRate = 37 / 100 := by simp [topRate, topPct]
  rw [ht] at this
  exact this

theorem bracketTax_mono (y : Year) (c : Col) {a b : Rat} (ha : 0 ≤ a) (hab : a ≤ b) :
    bracketTax y c a ≤ bracketTax y c b := by
  have := (bracketTax_slope y c ha hab).1; linarith

theorem bracketTax_nonneg (y : Year) (c : Col) {a : Rat} (ha : 0 ≤ a) : 0 ≤ bracketTax y c a :=
  taxAbove_nonneg (brackets_ok y c) ha

/-! Sanity (non-vacuity) checks of the oracle, evaluated by the kernel: a single filer's 2023 tax on 100000 is
1100 + 4047 + 11143 + 1110 = 17400 (= 100000 × 0.24 − 6600 of the Tax Computation Worksheet); the last line of the
2023 Tax Table (99,950 – 100,000) and the narrow row 5 – 15. -/
example : bracketTax .y2023 .single 100000 = 17400 := by decide +kernel
example : (Col.all.map fun c => tableCell .y2023 c 99950 100000) = [17394, 12610, 17394, 15788] := by
  decide +kernel
example : (Col.all.map fun c => tableCell .y2021 c 5 15) = [1, 1, 1, 1] := by decide +kernel

/-! ## 2. The whole-number evaluation of a table cell is the rational definition -/

theorem taxAboveN_cast {prev2 : Nat} {l : List (Nat × Nat)} {top : Nat} (h : bracketsNOk prev2 l top = true)
    {x2 : Nat} (hx : prev2 ≤ x2) :
    ((taxAboveN prev2 l top x2 : Nat) : Rat) =
      200 * taxAbove ((prev2 : Rat) / 2) (l.map bracketQ) ((top : Rat) / 100) ((x2 : Rat) / 2) := by
  induction l generalizing prev2 with
  | nil =>
    simp only [taxAboveN, List.map, taxAbove]
    rw [Nat.cast_mul, Nat.cast_sub hx]; ring
  | cons b rest ih =>
    obtain ⟨e, r⟩ := b
    simp only [bracketsNOk, Bool.and_eq_true, decide_eq_true_eq] at h
    obtain ⟨⟨h1, _⟩, h3⟩ := h
    simp only [taxAboveN, List.map, taxAbove, bracketQ]
    by_cases hxe : x2 ≤ 2 * e
    · have hq : (x2 : Rat) / 2 ≤ (e : Rat) := by
        have : (x2 : Rat) ≤ 2 * (e : Rat) := by exact_mod_cast hxe
        linarith
      rw [if_pos hxe, if_pos hq, Nat.cast_mul, Nat.cast_sub hx]; ring
    · have hq : ¬ (x2 : Rat) / 2 ≤ (e : Rat) := by
        intro hc
        have : (x2 : Rat) ≤ ((2 * e : Nat) : Rat) := by push_cast; linarith
        exact hxe (by exact_mod_cast this)
      rw [if_neg hxe, if_neg hq]
      have hex : 2 * e ≤ x2 := Nat.le_of_lt (Nat.lt_of_not_le hxe)
      have ih' := ih h3 hex
      have he : ((2 * e : Nat) : Rat) / 2 = (e : Rat) := by push_cast; ring
      rw [he] at ih'
      rw [Nat.cast_add, ih', Nat.cast_mul, Nat.cast_sub h1]; push_cast; ring

theorem roundHalfUp_div200 (n : Nat) : roundHalfUp ((n : Rat) / 200) = (n + 100) / 200 := by
  unfold roundHalfUp
  have h1 : (n : Rat) / 200 + 1 / 2 = (((n + 100 : Nat) : Rat)) / ((200 : Nat) : Rat) := by push_cast; ring
  have h2 : ((n : Rat) / 200 + 1 / 2).floor = (((n + 100) / 200 : Nat) : Int) := by
    rw [h1]
    exact (Rat.floor_def _).trans (Rat.floor_def'.symm.trans (Rat.floor_natCast_div_natCast (n + 100) 200))
  rw [h2]; exact Int.toNat_natCast _

/-- The kernel-friendly cell is the official one. -/
theorem tableCell_eq_tableCellN (y : Year) (c : Col) (lo hi : Nat) :
    tableCell y c lo hi = tableCellN y c lo hi := by
  unfold tableCell tableCellN bracketTax
  have h := taxAboveN_cast (bracketsN_ok y c) (Nat.zero_le (lo + hi))
  have hmid : ((lo : Rat) + (hi : Rat)) / 2 = (((lo + hi : Nat)) : Rat) / 2 := by push_cast; ring
  have h0 : ((0 : Nat) : Rat) / 2 = 0 := by simp
  rw [h0] at h
  have : taxAbove 0 (brackets y c) topRate (((lo : Rat) + (hi : Rat)) / 2) =
      ((taxAboveN 0 (bracketsN y c) topPct (lo + hi) : Nat) : Rat) / 200 := by
    rw [h, hmid]; simp only [brackets, topRate]; ring
  rw [this, roundHalfUp_div200]

/-- Rounding half-up is within half a dollar. -/
theorem roundHalfUp_bounds {q : Rat} (hq : 0 ≤ q) :
    q - 1 / 2 < (roundHalfUp q : Rat) ∧ (roundHalfUp q : Rat) ≤ q + 1 / 2 := by
  unfold roundHalfUp
  have hnn : 0 ≤ (q + 1 / 2).floor := by
    rw [Rat.le_floor_iff]; simp; linarith
  have hcast : (((q + 1 / 2).floor.toNat : Nat) : Rat) = (((q + 1 / 2).floor : Int) : Rat) := by
    have : (((q + 1 / 2).floor.toNat : Nat) : Int) = (q + 1 / 2).floor := Int.toNat_of_nonneg hnn
    exact_mod_cast congrArg (fun z : Int => (z : Rat)) this
  rw [hcast]
  have h1 := Rat.floor_le (q + 1 / 2)
  have h2 := Rat.lt_floor_add_one (q + 1 / 2)
  push_cast at h2
  constructor <;> linarith

/-! ## 3. The table -/

section Table
variable {cfg : Cfg} (hlo : cfg.tblLo = .ge) (hhi : cfg.tblHi = .lt)
include hlo hhi

theorem tableLookup_cons_hit {r : TRow} {rest : List TRow} {x : Rat} (c : Col)
    (h1 : (r.lo : Rat) ≤ x) (h2 : x < (r.hi : Rat)) :
    tableLookup cfg (some c) x (r :: rest) = .ok ((r.cell c : Nat) : Rat) := by
  simp [tableLookup, hlo, hhi, BoundCmp.holds, h1, h2]

theorem tableLookup_cons_miss {r : TRow} {rest : List TRow} {x : Rat} (col : Option Col)
    (h : x < (r.lo : Rat) ∨ (r.hi : Rat) ≤ x) :
    tableLookup cfg col x (r :: rest) = tableLookup cfg col x rest := by
  have : ¬ ((r.lo : Rat) ≤ x ∧ x < (r.hi : Rat)) := by
    rintro ⟨h1, h2⟩
    rcases h with h | h
    · exact absurd h1 (not_le.mpr h)
    · exact absurd h2 (not_lt.mpr h)
  simp only [tableLookup, hlo, hhi, BoundCmp.holds, Bool.and_eq_true, decide_eq_true_eq]
  rw [if_neg this]

/-- Below the first possible start nothing matches: `assert False`. -/
theorem tableLookup_below {cur top : Nat} {tbl : List TRow} (hord : rowsOrdered cur tbl top = true)
    {x : Rat} (hx : x < (cur : Rat)) (col : Option Col) :
    tableLookup cfg col x tbl = .error .assertion := by
  induction tbl generalizing cur with
  | nil => rfl
  | cons r rest ih =>
    simp only [rowsOrdered, Bool.and_eq_true, decide_eq_true_eq] at hord
    obtain ⟨⟨h1, h2⟩, h3⟩ := hord
    have hxl : x < (r.lo : Rat) := lt_of_lt_of_le hx (by exact_mod_cast h1)
    rw [tableLookup_cons_miss hlo hhi col (Or.inl hxl)]
    exact ih h3 (lt_trans hxl (by exact_mod_cast h2))

/-- **The look-up on an ordered table.**  For `cur ≤ x < top` either `x` lies in one of the listed holes and the
Python asserts, or the look-up returns the cell of the (unique) row `[lo, hi)` that contains `x`. -/
theorem tableLookup_spec {cur top : Nat} {tbl : List TRow} (hord : rowsOrdered cur tbl top = true)
    {x : Rat} (hx : (cur : Rat) ≤ x) (hxt : x < (top : Rat)) (c : Col) :
    (∃ g ∈ tableGaps cur tbl top, (g.1 : Rat) ≤ x ∧ x < (g.2 : Rat) ∧
        ∀ col, tableLookup cfg col x tbl = .error .assertion) ∨
    (∃ r ∈ tbl, (r.lo : Rat) ≤ x ∧ x < (r.hi : Rat) ∧
        tableLookup cfg (some c) x tbl = .ok ((r.cell c : Nat) : Rat)) := by
  induction tbl generalizing cur with
  | nil =>
    left
    have hne : cur ≠ top := by
      intro h; subst h; exact absurd (lt_of_le_of_lt hx hxt) (lt_irrefl _)
    refine ⟨(cur, top), by simp [tableGaps, hne], hx, hxt, fun _ => rfl⟩
  | cons r rest ih =>
    simp only [rowsOrdered, Bool.and_eq_true, decide_eq_true_eq] at hord
    obtain ⟨⟨h1, h2⟩, h3⟩ := hord
    by_cases hxl : x < (r.lo : Rat)
    · left
      have hne : cur ≠ r.lo := by
        intro h; rw [h] at hx; exact absurd (lt_of_le_of_lt hx hxl) (lt_irrefl _)
      refine ⟨(cur, r.lo), by simp [tableGaps, hne], hx, hxl, fun col => ?_⟩
      rw [tableLookup_cons_miss hlo hhi col (Or.inl hxl)]
      exact tableLookup_below hlo hhi h3 (lt_trans hxl (by exact_mod_cast h2)) col
    · have hlx : (r.lo : Rat) ≤ x := not_lt.mp hxl
      by_cases hxh : x < (r.hi : Rat)
      · right
        exact ⟨r, List.mem_cons_self, hlx, hxh, tableLookup_cons_hit hlo hhi c hlx hxh⟩
      · have hhx : (r.hi : Rat) ≤ x := not_lt.mp hxh
        rcases ih h3 hhx with ⟨g, hg, hg1, hg2, hg3⟩ | ⟨r', hr', h1', h2', h3'⟩
        · left
          refine ⟨g, ?_, hg1, hg2, fun col => ?_⟩
          · simp only [tableGaps, List.mem_append]; exact Or.inr hg
          · rw [tableLookup_cons_miss hlo hhi col (Or.inr hhx)]; exact hg3 col
        · right
          refine ⟨r', List.mem_cons_of_mem _ hr', h1', h2', ?_⟩
          rw [tableLookup_cons_miss hlo hhi _ (Or.inr hhx)]; exact h3'

omit hlo hhi in
theorem tableGaps_ge {cur top : Nat} {tbl : List TRow} (hord : rowsOrdered cur tbl top = true)
    {g : Nat × Nat} (hg : g ∈ tableGaps cur tbl top) : cur ≤ g.1 := by
  induction tbl generalizing cur with
  | nil =>
    simp only [tableGaps] at hg
    split at hg
    · simp at hg
    · simp only [List.mem_singleton] at hg; subst hg; exact le_refl _
  | cons r rest ih =>
    simp only [rowsOrdered, Bool.and_eq_true, decide_eq_true_eq] at hord
    obtain ⟨⟨h1, h2⟩, h3⟩ := hord
    simp only [tableGaps, List.mem_append] at hg
    rcases hg with hg | hg
    · split at hg
      · simp at hg
      · simp only [List.mem_singleton] at hg; subst hg; exact le_refl _
    · have := ih h3 hg
      omega

/-- An income inside a listed hole matches no row: `figure_tax_table` reaches `assert False`. -/
theorem tableLookup_in_gap {cur top : Nat} {tbl : List TRow} (hord : rowsOrdered cur tbl top = true)
    {g : Nat × Nat} (hg : g ∈ tableGaps cur tbl top) {x : Rat} (h1 : (g.1 : Rat) ≤ x) (h2 : x < (g.2 : Rat))
    (col : Option Col) : tableLookup cfg col x tbl = .error .assertion := by
  induction tbl generalizing cur with
  | nil => rfl
  | cons r rest ih =>
    have hord' := hord
    simp only [rowsOrdered, Bool.and_eq_true, decide_eq_true_eq] at hord
    obtain ⟨⟨o1, o2⟩, o3⟩ := hord
    simp only [tableGaps, List.mem_append] at hg
    rcases hg with hg | hg
    · split at hg
      · simp at hg
      · simp only [List.mem_singleton] at hg
        subst hg
        have hxl : x < (r.lo : Rat) := h2
        rw [tableLookup_cons_miss hlo hhi col (Or.inl hxl)]
        exact tableLookup_below hlo hhi o3 (lt_trans hxl (by exact_mod_cast o2)) col
    · have hge : r.hi ≤ g.1 := tableGaps_ge o3 hg
      have hhx : (r.hi : Rat) ≤ x := le_trans (by exact_mod_cast hge) h1
      rw [tableLookup_cons_miss hlo hhi col (Or.inr hhx)]
      exact ih o3 hg

/-- A contiguous table is total on `[cur, top)`: `figure_tax_table` never falls off the end. -/
theorem tableLookup_defined {cur top : Nat} {tbl : List TRow} (hc : tableContiguous cur tbl top = true)
    {x : Rat} (hx : (cur : Rat) ≤ x) (hxt : x < (top : Rat)) (c : Col) :
    ∃ r ∈ tbl, (r.lo : Rat) ≤ x ∧ x < (r.hi : Rat) ∧
      tableLookup cfg (some c) x tbl = .ok ((r.cell c : Nat) : Rat) := by
  simp only [tableContiguous, Bool.and_eq_true, List.isEmpty_iff] at hc
  rcases tableLookup_spec hlo hhi hc.1 hx hxt c with ⟨g, hg, _⟩ | h
  · rw [hc.2] at hg; exact absurd hg (List.not_mem_nil)
  · exact h

/-- Whatever the look-up returns is the cell of a row that contains `x`. -/
theorem tableLookup_ok_mem {tbl : List TRow} {x : Rat} {c : Col} {a : Rat}
    (h : tableLookup cfg (some c) x tbl = .ok a) :
    ∃ r ∈ tbl, (r.lo : Rat) ≤ x ∧ x < (r.hi : Rat) ∧ a = ((r.cell c : Nat) : Rat) := by
  induction tbl with
  | nil => simp [tableLookup] at h
  | cons r rest ih =>
    by_cases hm : (r.lo : Rat) ≤ x ∧ x < (r.hi : Rat)
    · rw [tableLookup_cons_hit hlo hhi c hm.1 hm.2] at h
      exact ⟨r, List.mem_cons_self, hm.1, hm.2, (Except.ok.inj h).symm⟩
    · have : x < (r.lo : Rat) ∨ (r.hi : Rat) ≤ x := by
        by_cases h1 : (r.lo : Rat) ≤ x
        · right; exact not_lt.mp (fun h2 => hm ⟨h1, h2⟩)
        · left; exact not_le.mp h1
      rw [tableLookup_cons_miss hlo hhi _ this] at h
      obtain ⟨r', hr', h'⟩ := ih h
      exact ⟨r', List.mem_cons_of_mem _ hr', h'⟩

omit hlo hhi in
theorem colMonotone_head_le {c : Col} {r : TRow} {rest : List TRow} (h : colMonotone c (r :: rest) = true)
    {r' : TRow} (hr' : r' ∈ rest) : r.cell c ≤ r'.cell c := by
  induction rest generalizing r with
  | nil => simp at hr'
  | cons r1 rest ih =>
    simp only [colMonotone, Bool.and_eq_true, decide_eq_true_eq] at h
    rcases List.mem_cons.mp hr' with rfl | hmem
    · exact h.1
    · exact le_trans h.1 (ih h.2 hmem)

omit hlo hhi in
theorem colMonotone_tail {c : Col} {r : TRow} {rest : List TRow} (h : colMonotone c (r :: rest) = true) :
    colMonotone c rest = true := by
  cases rest with
  | nil => rfl
  | cons r1 rest =>
    simp only [colMonotone, Bool.and_eq_true] at h
    exact h.2

omit hlo hhi in
theorem colMonotone_le_last {c : Col} {tbl : List TRow} (h : colMonotone c tbl = true)
    {r l : TRow} (hr : r ∈ tbl) (hl : tbl.getLast? = some l) : r.cell c ≤ l.cell c := by
  induction tbl with
  | nil => simp at hr
  | cons r0 rest ih =>
    cases rest with
    | nil =>
      simp at hr hl; subst hr; subst hl; exact le_refl _
    | cons r1 rest' =>
      have hl' : (r1 :: rest').getLast? = some l := by simpa [List.getLast?_cons_cons] using hl
      have hlmem : l ∈ r1 :: rest' := List.mem_of_getLast? hl'
      rcases List.mem_cons.mp hr with rfl | hmem
      · exact colMonotone_head_le h hlmem
      · exact ih (colMonotone_tail h) hmem hl'

/-- Non-decreasing cells ⇒ the look-up is monotone in the income (wherever it is defined). -/
theorem tableLookup_mono {cur top : Nat} {tbl : List TRow} (hord : rowsOrdered cur tbl top = true)
    {c : Col} (hmono : colMonotone c tbl = true) {x y : Rat} (hxy : x ≤ y) {a b : Rat}
    (ha : tableLookup cfg (some c) x tbl = .ok a) (hb : tableLookup cfg (some c) y tbl = .ok b) :
    a ≤ b := by
  induction tbl generalizing cur with
  | nil => simp [tableLookup] at ha
  | cons r rest ih =>
    simp only [rowsOrdered, Bool.and_eq_true, decide_eq_true_eq] at hord
    obtain ⟨⟨h1, h2⟩, h3⟩ := hord
    by_cases hxl : x < (r.lo : Rat)
    · -- then x matches nothing
      rw [tableLookup_cons_miss hlo hhi _ (Or.inl hxl),
        tableLookup_below hlo hhi h3 (lt_trans hxl (by exact_mod_cast h2))] at ha
      cases ha
    · have hlx : (r.lo : Rat) ≤ x := not_lt.mp hxl
      by_cases hxh : x < (r.hi : Rat)
      · rw [tableLookup_cons_hit hlo hhi c hlx hxh] at ha
        have ha' := Except.ok.inj ha
        by_cases hyh : y < (r.hi : Rat)
        · rw [tableLookup_cons_hit hlo hhi c (le_trans hlx hxy) hyh] at hb
          have hb' := Except.ok.inj hb
          rw [← ha', ← hb']
        · rw [tableLookup_cons_miss hlo hhi _ (Or.inr (not_lt.mp hyh))] at hb
          obtain ⟨r', hr', _, _, hb'⟩ := tableLookup_ok_mem hlo hhi hb
          rw [← ha', hb']
          exact_mod_cast colMonotone_head_le hmono hr'
      · have hhx : (r.hi : Rat) ≤ x := not_lt.mp hxh
        rw [tableLookup_cons_miss hlo hhi _ (Or.inr hhx)] at ha
        rw [tableLookup_cons_miss hlo hhi _ (Or.inr (le_trans hhx hxy))] at hb
        exact ih h3 (colMonotone_tail hmono) ha hb

end Table

/-! ## 4. The worksheet -/

/-- Every linear piece is the schedule on its interval. -/
theorem pieces_sound {prev acc : Rat} {brs : Brackets} {top : Rat} (h : BracketsOk prev brs top)
    {p : Piece} (hp : p ∈ pieces prev acc brs top) :
    prev ≤ p.lo ∧ ∀ x, p.lo ≤ x → (∀ e, p.hi = some e → x ≤ e) →
      acc + taxAbove prev brs top x = p.slope * x + p.icpt := by
  induction brs generalizing prev acc with
  | nil =>
    simp only [pieces, List.mem_singleton] at hp
    subst hp
    refine ⟨le_refl _, fun x _ _ => ?_⟩
    simp only [taxAbove]; ring
  | cons b rest ih =>
    obtain ⟨e, r⟩ := b
    simp only [pieces, List.mem_cons] at hp
    rcases hp with rfl | hp
    · refine ⟨le_refl _, fun x _ hx2 => ?_⟩
      have hxe : x ≤ e := hx2 e rfl
      simp only [taxAbove, if_pos hxe]; ring
    · obtain ⟨h1, h2⟩ := ih h.2.2.2 hp
      refine ⟨le_trans h.1 h1, fun x hx1 hx2 => ?_⟩
      rw [taxAbove_cons_of_ge h (le_trans h1 hx1)]
      have := h2 x hx1 hx2
      linarith

/-- A worksheet row that fits a piece computes the statutory tax for every income of its interval. -/
theorem wsRowOk_sound {y : Year} {c : Col} {w : WRow} (h : wsRowOk y c w = true)
    {x : Rat} (h1 : w.lo ≤ x) (h2 : x ≤ w.hi) : x * w.rate - w.sub = bracketTax y c x := by
  simp only [wsRowOk, List.any_eq_true] at h
  obtain ⟨p, hp, hfit⟩ := h
  simp only [WRow.fits, Bool.and_eq_true, decide_eq_true_eq] at hfit
  obtain ⟨⟨⟨f1, f2⟩, f3⟩, f4⟩ := hfit
  obtain ⟨_, hs⟩ := pieces_sound (brackets_ok y c) hp
  have := hs x (le_trans f1 h1) (by
    intro e he
    rw [he] at f2
    simp only [decide_eq_true_eq] at f2
    exact le_trans h2 f2)
  unfold bracketTax
  rw [f3]
  linarith

section Worksheet
variable {cfg : Cfg} (hFirst : cfg.wsFirstLo = .ge) (hRest : cfg.wsRestLo = .gt ∨ cfg.wsRestLo = .ge)
  (hHi : cfg.wsHi = .le)

omit hFirst hRest hHi in
theorem worksheetLookup_cons (x : Rat) (first : Bool) (w : WRow) (rest : List WRow) :
    worksheetLookup cfg x first (w :: rest) =
      if (if first then cfg.wsFirstLo.holds x w.lo else cfg.wsRestLo.holds x w.lo) && cfg.wsHi.holds x w.hi then
        .ok (x * w.rate - w.sub)
      else worksheetLookup cfg x false rest := rfl

theorem wsChain_cons {y : Year} {c : Col} {cur e : Rat} {w : WRow} {rest : List WRow}
    (h : wsChain y c cur (w :: rest) = some e) :
    w.lo = cur ∧ w.lo < w.hi ∧ wsRowOk y c w = true ∧ wsChain y c w.hi rest = some e := by
  simp only [wsChain] at h
  split at h
  · rename_i hc
    simp only [Bool.and_eq_true, decide_eq_true_eq] at hc
    exact ⟨hc.1.1, hc.1.2, hc.2, h⟩
  · cases h

theorem wsChain_le {y : Year} {c : Col} {cur e : Rat} {rows : List WRow}
    (h : wsChain y c cur rows = some e) : cur ≤ e := by
  induction rows generalizing cur with
  | nil => simp only [wsChain, Option.some.injEq] at h; exact le_of_eq h
  | cons w rest ih =>
    obtain ⟨h1, h2, _, h4⟩ := wsChain_cons h
    have := ih h4
    linarith

include hRest hHi in
/-- The later rows (`taxable_amount > row[0]`, in 2021 `>=`). -/
theorem worksheetLookup_rest {y : Year} {c : Col} {cur e : Rat} {rows : List WRow}
    (h : wsChain y c cur rows = some e) {x : Rat} (h1 : cur < x) (h2 : x ≤ e) :
    worksheetLookup cfg x false rows = .ok (bracketTax y c x) := by
  induction rows generalizing cur with
  | nil =>
    simp only [wsChain, Option.some.injEq] at h
    subst h; exact absurd (lt_of_lt_of_le h1 h2) (lt_irrefl _)
  | cons w rest ih =>
    obtain ⟨hlo, _, hok, hchain⟩ := wsChain_cons h
    have hlower : cfg.wsRestLo.holds x w.lo = true := by
      rw [hlo]
      rcases hRest with hr | hr <;> rw [hr] <;> simp [BoundCmp.holds, h1, le_of_lt h1]
    by_cases hxh : x ≤ w.hi
    · have hx1 : w.lo ≤ x := by rw [hlo]; exact le_of_lt h1
      have hhi : cfg.wsHi.holds x w.hi = true := by rw [hHi]; simp [BoundCmp.holds, hxh]
      rw [worksheetLookup_cons]
      simp only [↓reduceIte, hlower, hhi, Bool.and_self, Bool.false_eq_true]
      rw [wsRowOk_sound hok hx1 hxh]
    · have : worksheetLookup cfg x false (w :: rest) = worksheetLookup cfg x false rest := by
        simp [worksheetLookup, hHi, BoundCmp.holds, hxh]
      rw [this]
      exact ih hchain (not_le.mp hxh)

include hFirst hRest hHi in
/-- The whole worksheet section: on `[cur, e]` (non-degenerate) it computes the statutory tax. -/
theorem worksheetLookup_first {y : Year} {c : Col} {cur e : Rat} {rows : List WRow}
    (h : wsChain y c cur rows = some e) (hne : cur < e) {x : Rat} (h1 : cur ≤ x) (h2 : x ≤ e) :
    worksheetLookup cfg x true rows = .ok (bracketTax y c x) := by
  cases rows with
  | nil =>
    simp only [wsChain, Option.some.injEq] at h
    subst h; exact absurd hne (lt_irrefl _)
  | cons w rest =>
    obtain ⟨hlo, _, hok, hchain⟩ := wsChain_cons h
    have hlower : cfg.wsFirstLo.holds x w.lo = true := by
      rw [hlo, hFirst]; simp [BoundCmp.holds, h1]
    by_cases hxh : x ≤ w.hi
    · have hx1 : w.lo ≤ x := by rw [hlo]; exact h1
      have hhi : cfg.wsHi.holds x w.hi = true := by rw [hHi]; simp [BoundCmp.holds, hxh]
      rw [worksheetLookup_cons]
      simp only [↓reduceIte, hlower, hhi, Bool.and_self]
      rw [wsRowOk_sound hok hx1 hxh]
    · have : worksheetLookup cfg x true (w :: rest) = worksheetLookup cfg x false rest := by
        simp [worksheetLookup, hHi, BoundCmp.holds, hxh]
      rw [this]
      exact worksheetLookup_rest hRest hHi hchain (not_le.mp hxh) h2

end Worksheet

/-! ## 5. `figure_tax` -/

/-- The obligations that do not depend on the table being gap-free. -/
structure CheckedBase (y : Year) (d : FTData) : Prop where
  cfg : d.cfg.isStd = true
  ordered : rowsOrdered 0 d.table tableTop = true
  cells : cellsOkN y d.table = true
  worksheet : worksheetOk y d = true
  status : statusColsOk d = true

/-- All obligations of C07 for one year's data. -/
structure Checked (y : Year) (d : FTData) : Prop extends CheckedBase y d where
  contiguous : tableContiguous 0 d.table tableTop = true
  monotone : tableMonotone d.table = true

theorem Cfg.isStd_fields {c : Cfg} (h : c.isStd = true) :
    c.switchCmp = .lt ∧ c.switchAt = 100000 ∧ c.tblLo = .ge ∧ c.tblHi = .lt ∧ c.wsFirstLo = .ge ∧
      (c.wsRestLo = .gt ∨ c.wsRestLo = .ge) ∧ c.wsHi = .le := by
  simp only [Cfg.isStd, Bool.or_eq_true, beq_iff_eq] at h
  rcases h with rfl | rfl <;> simp [Cfg.std, Cfg.std2021]

theorem cellsOk_of_N {y : Year} {tbl : List TRow} (h : cellsOkN y tbl = true) : cellsOk y tbl := by
  induction tbl with
  | nil => intro r hr; simp at hr
  | cons r0 rest ih =>
    simp only [cellsOkN, rowCellsOkN, Bool.and_eq_true, beq_iff_eq] at h
    obtain ⟨⟨⟨⟨h1, h2⟩, h3⟩, h4⟩, h5⟩ := h
    intro r hr c
    rcases List.mem_cons.mp hr with rfl | hmem
    · rw [tableCell_eq_tableCellN]
      cases c <;> simp [TRow.cell, h1, h2, h3, h4]
    · exact ih h5 r hmem c

theorem statusCol_of_ok {d : FTData} (h : statusColsOk d = true) (s : Status) :
    d.statusCol s = some s.specCol := by
  simp only [statusColsOk, Status.all, List.all_cons, List.all_nil, Bool.and_true, Bool.and_eq_true,
    beq_iff_eq] at h
  obtain ⟨h1, h2, h3, h4, h5⟩ := h
  cases s <;> assumption

theorem worksheetOk_col {y : Year} {d : FTData} (h : worksheetOk y d = true) (c : Col) :
    wsSectionOk y c (d.ws c) = true ∧ junctionOk d.table c (d.ws c) = true := by
  simp only [worksheetOk, Col.all, List.all_cons, List.all_nil, Bool.and_true, Bool.and_eq_true] at h
  obtain ⟨h1, h2, h3, h4⟩ := h
  cases c <;> assumption

theorem wsSectionOk_chain {y : Year} {c : Col} {rows : List WRow} (h : wsSectionOk y c rows = true) :
    ∃ e, wsChain y c 100000 rows = some e ∧ (1000000000000 : Rat) ≤ e := by
  simp only [wsSectionOk] at h
  have hT : (((tableTop : Nat) : Rat)) = 100000 := by simp [tableTop]
  rw [hT] at h
  split at h
  · rename_i e he
    exact ⟨e, he, by simpa [wsTop] using of_decide_eq_true h⟩
  · cases h

section Main
variable {y : Year} {d : FTData} (hb : CheckedBase y d)
include hb

/-- Below 100000 `figure_tax` is the table look-up in the status's statutory column. -/
theorem figureTaxQ_lt (st : Status) {x : Rat} (hx : x < 100000) :
    figureTaxQ d x st = tableLookup d.cfg (some st.specCol) x d.table := by
  obtain ⟨f1, f2, _⟩ := Cfg.isStd_fields hb.cfg
  simp [figureTaxQ, f1, f2, BoundCmp.holds, hx, statusCol_of_ok hb.status st]

/-- From 100000 on it is the worksheet section of the status's statutory column. -/
theorem figureTaxQ_ge (st : Status) {x : Rat} (hx : 100000 ≤ x) :
    figureTaxQ d x st = worksheetLookup d.cfg x true (d.ws st.specCol) := by
  obtain ⟨f1, f2, _⟩ := Cfg.isStd_fields hb.cfg
  simp [figureTaxQ, f1, f2, BoundCmp.holds, not_lt.mpr hx, statusCol_of_ok hb.status st]

/-- **Table region, holes allowed.**  For `0 ≤ x < 100000` either `x` lies in a hole of the table and
`figure_tax` raises `AssertionError`, or it returns the IRS table entry of x's row. -/
theorem figureTaxQ_table (st : Status) {x : Rat} (h0 : 0 ≤ x) (h1 : x < 100000) :
    (∃ g ∈ tableGaps 0 d.table tableTop, (g.1 : Rat) ≤ x ∧ x < (g.2 : Rat) ∧
        figureTaxQ d x st = .error .assertion) ∨
    (∃ r ∈ d.table, (r.lo : Rat) ≤ x ∧ x < (r.hi : Rat) ∧
        figureTaxQ d x st = .ok ((tableCell y st.specCol r.lo r.hi : Nat) : Rat)) := by
  obtain ⟨_, _, f3, f4, _⟩ := Cfg.isStd_fields hb.cfg
  rw [figureTaxQ_lt hb st h1]
  have hT : x < ((tableTop : Nat) : Rat) := by simpa [tableTop] using h1
  have h0' : ((0 : Nat) : Rat) ≤ x := by simpa using h0
  rcases tableLookup_spec f3 f4 hb.ordered h0' hT st.specCol with ⟨g, hg, g1, g2, g3⟩ | ⟨r, hr, r1, r2, r3⟩
  · exact Or.inl ⟨g, hg, g1, g2, g3 _⟩
  · refine Or.inr ⟨r, hr, r1, r2, ?_⟩
    rw [r3, cellsOk_of_N hb.cells r hr]

/-- Inside a hole of the table `figure_tax` raises `AssertionError`, for every status. -/
theorem figureTaxQ_in_gap (st : Status) {g : Nat × Nat} (hg : g ∈ tableGaps 0 d.table tableTop) {x : Rat}
    (h1 : (g.1 : Rat) ≤ x) (h2 : x < (g.2 : Rat)) (h3 : x < 100000) :
    figureTaxQ d x st = .error .assertion := by
  obtain ⟨_, _, f3, f4, _⟩ := Cfg.isStd_fields hb.cfg
  rw [figureTaxQ_lt hb st h3]
  exact tableLookup_in_gap f3 f4 hb.ordered hg h1 h2 _

/-- **Worksheet region.**  For `100000 ≤ x ≤ 10^12` `figure_tax` returns the statutory bracket formula. -/
theorem figureTaxQ_worksheet (st : Status) {x : Rat} (h1 : 100000 ≤ x) (h2 : x ≤ 1000000000000) :
    figureTaxQ d x st = .ok (bracketTax y st.specCol x) := by
  obtain ⟨_, _, _, _, f5, f6, f7⟩ := Cfg.isStd_fields hb.cfg
  rw [figureTaxQ_ge hb st h1]
  obtain ⟨e, he, hee⟩ := wsSectionOk_chain (worksheetOk_col hb.worksheet st.specCol).1
  exact worksheetLookup_first f5 f6 f7 he (by linarith) h1 (le_trans h2 hee)

/-- The worksheet at the junction: its first row at 100000 is the schedule, and at least the last table cell. -/
theorem junction (c : Col) {l : TRow} (hl : d.table.getLast? = some l) :
    ((l.cell c : Nat) : Rat) ≤ bracketTax y c 100000 := by
  obtain ⟨hsec, hj⟩ := worksheetOk_col hb.worksheet c
  obtain ⟨e, he, hee⟩ := wsSectionOk_chain hsec
  simp only [junctionOk, hl] at hj
  cases hrows : d.ws c with
  | nil => rw [hrows] at hj; simp at hj
  | cons w rest =>
    rw [hrows] at hj he
    simp only [List.head?_cons, decide_eq_true_eq] at hj
    obtain ⟨hlo, hlt, hok, _⟩ := wsChain_cons he
    have hT : (((tableTop : Nat) : Rat)) = 100000 := by simp [tableTop]
    rw [hT] at hj
    have := wsRowOk_sound hok (le_of_eq hlo) (by rw [← hlo]; exact le_of_lt hlt)
    linarith

/-- **Monotone** wherever defined (holes allowed): more income, no less tax. -/
theorem figureTaxQ_mono_of_ok (hm : tableMonotone d.table = true) (st : Status) {x x' : Rat}
    (h0 : 0 ≤ x) (hxx : x ≤ x') (h2 : x' ≤ 1000000000000) {a b : Rat}
    (ha : figureTaxQ d x st = .ok a) (hb' : figureTaxQ d x' st = .ok b) : a ≤ b := by
  obtain ⟨_, _, f3, f4, _⟩ := Cfg.isStd_fields hb.cfg
  have hmc : colMonotone st.specCol d.table = true := by
    simp only [tableMonotone, Bool.and_eq_true] at hm
    obtain ⟨⟨⟨m1, m2⟩, m3⟩, m4⟩ := hm
    cases st <;> assumption
  by_cases hx' : x' < 100000
  · have hx : x < 100000 := lt_of_le_of_lt hxx hx'
    rw [figureTaxQ_lt hb st hx] at ha
    rw [figureTaxQ_lt hb st hx'] at hb'
    exact tableLookup_mono f3 f4 hb.ordered hmc hxx ha hb'
  · have hx' : 100000 ≤ x' := not_lt.mp hx'
    rw [figureTaxQ_worksheet hb st hx' h2] at hb'
    have hbv := Except.ok.inj hb'
    by_cases hx : x < 100000
    · rw [figureTaxQ_lt hb st hx] at ha
      obtain ⟨r, hr, _, _, hav⟩ := tableLookup_ok_mem f3 f4 ha
      have hne : d.table ≠ [] := List.ne_nil_of_mem hr
      obtain ⟨l, hl⟩ : ∃ l, d.table.getLast? = some l :=
        ⟨d.table.getLast hne, List.getLast?_eq_some_getLast hne⟩
      have h1 : r.cell st.specCol ≤ l.cell st.specCol := colMonotone_le_last hmc hr hl
      have h1' : ((r.cell st.specCol : Nat) : Rat) ≤ ((l.cell st.specCol : Nat) : Rat) := by exact_mod_cast h1
      have h2' := junction hb st.specCol hl
      have h3 := bracketTax_mono y st.specCol (by norm_num : (0 : Rat) ≤ 100000) hx'
      rw [hav, ← hbv]; linarith
    · have hx : 100000 ≤ x := not_lt.mp hx
      rw [figureTaxQ_worksheet hb st hx (le_trans hxx h2)] at ha
      rw [← Except.ok.inj ha, ← hbv]
      exact bracketTax_mono y st.specCol h0 hxx

omit hb in
theorem rowsWidthLe_mem {w : Nat} {tbl : List TRow} (h : rowsWidthLe w tbl = true) {r : TRow} (hr : r ∈ tbl) :
    r.hi ≤ r.lo + w := by
  induction tbl with
  | nil => simp at hr
  | cons r0 rest ih =>
    simp only [rowsWidthLe, Bool.and_eq_true, decide_eq_true_eq] at h
    rcases List.mem_cons.mp hr with rfl | hmem
    · exact h.1
    · exact ih h.2 hmem

/-- A value returned in the table region is within half a dollar of the schedule at a point within half a row
width of the income. -/
theorem table_value_near {w : Nat} (hw : rowsWidthLe w d.table = true) (st : Status) {x a : Rat}
    (h0 : 0 ≤ x) (hx : x < 100000) (ha : figureTaxQ d x st = .ok a) :
    ∃ m : Rat, 0 ≤ m ∧ x - (w : Rat) / 2 ≤ m ∧ m ≤ x + (w : Rat) / 2 ∧
      bracketTax y st.specCol m - 1 / 2 < a ∧ a ≤ bracketTax y st.specCol m + 1 / 2 := by
  obtain ⟨_, _, f3, f4, _⟩ := Cfg.isStd_fields hb.cfg
  rw [figureTaxQ_lt hb st hx] at ha
  obtain ⟨r, hr, r1, r2, hav⟩ := tableLookup_ok_mem f3 f4 ha
  rw [cellsOk_of_N hb.cells r hr] at hav
  have hwid : (r.hi : Rat) ≤ (r.lo : Rat) + (w : Rat) := by exact_mod_cast rowsWidthLe_mem hw hr
  have hlo0 : (0 : Rat) ≤ (r.lo : Rat) := by positivity
  have hhi0 : (0 : Rat) ≤ (r.hi : Rat) := by positivity
  refine ⟨((r.lo : Rat) + (r.hi : Rat)) / 2, by linarith, by linarith, by linarith, ?_⟩
  have hm0 : (0 : Rat) ≤ ((r.lo : Rat) + (r.hi : Rat)) / 2 := by linarith
  have := roundHalfUp_bounds (bracketTax_nonneg y st.specCol hm0)
  rw [hav]
  exact this

/-- **Marginal bound.**  Between two incomes the tax grows by at most the top rate (37 %) per extra dollar plus one
table step at the top rate (`0.37·w + 1` for rows at most `w` dollars wide: 19.50 for the $50 rows). -/
theorem figureTaxQ_marginal {w : Nat} (hw : rowsWidthLe w d.table = true) (st : Status) {x x' : Rat}
    (h0 : 0 ≤ x) (hxx : x ≤ x') (h2 : x' ≤ 1000000000000) {a b : Rat}
    (ha : figureTaxQ d x st = .ok a) (hb' : figureTaxQ d x' st = .ok b) :
    b - a ≤ 37 / 100 * (x' - x) + (37 / 100 * (w : Rat) + 1) := by
  have hw0 : (0 : Rat) ≤ (w : Rat) := by positivity
  by_cases hx : x < 100000
  · obtain ⟨m, m0, m1, m2, m3, m4⟩ := table_value_near hb hw st h0 hx ha
    by_cases hx' : x' < 100000
    · obtain ⟨m', m0', m1', m2', m3', m4'⟩ := table_value_near hb hw st (le_trans h0 hxx) hx' hb'
      rcases le_total m m' with hmm | hmm
      · have := (bracketTax_slope y st.specCol m0 hmm).2
        linarith
      · have := bracketTax_mono y st.specCol m0' hmm
        linarith
    · have hx' : 100000 ≤ x' := not_lt.mp hx'
      rw [figureTaxQ_worksheet hb st hx' h2] at hb'
      have hbv := Except.ok.inj hb'
      rcases le_total m x' with hmm | hmm
      · have := (bracketTax_slope y st.specCol m0 hmm).2
        linarith
      · have := bracketTax_mono y st.specCol (le_trans h0 hxx) hmm
        linarith
  · have hx : 100000 ≤ x := not_lt.mp hx
    rw [figureTaxQ_worksheet hb st hx (le_trans hxx h2)] at ha
    rw [figureTaxQ_worksheet hb st (le_trans hx hxx) h2] at hb'
    rw [← Except.ok.inj ha, ← Except.ok.inj hb']
    have := (bracketTax_slope y st.specCol h0 hxx).2
    linarith

end Main

/-- **C07, `figureTaxQ_eq_spec`.**  With all obligations decided: for every status and every rational income
`0 ≤ x ≤ 10^12`, below 100000 `figure_tax` is defined and equals the IRS table entry (schedule at the midpoint of
x's row, rounded half-up to dollars) and from 100000 on it equals the exact bracket formula. -/
theorem figureTaxQ_eq_spec {y : Year} {d : FTData} (h : Checked y d) (st : Status) {x : Rat}
    (h0 : 0 ≤ x) (h1 : x ≤ 1000000000000) :
    (x < 100000 → ∃ r ∈ d.table, (r.lo : Rat) ≤ x ∧ x < (r.hi : Rat) ∧
        figureTaxQ d x st = .ok ((tableCell y st.specCol r.lo r.hi : Nat) : Rat)) ∧
    (100000 ≤ x → figureTaxQ d x st = .ok (bracketTax y st.specCol x)) := by
  refine ⟨fun hx => ?_, fun hx => figureTaxQ_worksheet h.toCheckedBase st hx h1⟩
  rcases figureTaxQ_table h.toCheckedBase st h0 hx with ⟨g, hg, _⟩ | hr
  · have hc := h.contiguous
    simp only [tableContiguous, Bool.and_eq_true, List.isEmpty_iff] at hc
    rw [hc.2] at hg; exact absurd hg List.not_mem_nil
  · exact hr

/-- `figure_tax` is defined on the whole supported range. -/
theorem figureTaxQ_defined {y : Year} {d : FTData} (h : Checked y d) (st : Status) {x : Rat}
    (h0 : 0 ≤ x) (h1 : x ≤ 1000000000000) : ∃ a, figureTaxQ d x st = .ok a := by
  obtain ⟨e1, e2⟩ := figureTaxQ_eq_spec h st h0 h1
  by_cases hx : x < 100000
  · obtain ⟨r, _, _, _, hr⟩ := e1 hx; exact ⟨_, hr⟩
  · exact ⟨_, e2 (not_lt.mp hx)⟩

/-- **Monotone** on `[0, 10^12]`. -/
theorem figureTaxQ_mono {y : Year} {d : FTData} (h : Checked y d) (st : Status) {x x' : Rat}
    (h0 : 0 ≤ x) (hxx : x ≤ x') (h2 : x' ≤ 1000000000000) :
    ∃ a b, figureTaxQ d x st = .ok a ∧ figureTaxQ d x' st = .ok b ∧ a ≤ b := by
  obtain ⟨a, ha⟩ := figureTaxQ_defined h st h0 (le_trans hxx h2)
  obtain ⟨b, hb⟩ := figureTaxQ_defined h st (le_trans h0 hxx) h2
  exact ⟨a, b, ha, hb, figureTaxQ_mono_of_ok h.toCheckedBase h.monotone st h0 hxx h2 ha hb⟩

/-- **QSS = MFJ**: when the code maps both statuses to the same column they get the same tax (or the same
error) at every income. -/
theorem figureTaxQ_qss_eq_mfj {d : FTData} (h : qssEqMfj d = true) (x : Rat) :
    figureTaxQ d x .qss = figureTaxQ d x .mfj := by
  simp only [qssEqMfj, beq_iff_eq] at h
  simp [figureTaxQ, h]

end HabuVerif.C07
