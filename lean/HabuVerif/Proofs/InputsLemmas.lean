import HabuVerif.Core.Inputs
import HabuVerif.Proofs.StrLemmas
import HabuVerif.Proofs.RegexLemmas
/-!
# Properties of the input classes and of `InputStore.__getitem__` (C11)

All statements hold for every text, every character table `T` and every float semantics `ops`.

* `validE_eq`            — `valid` never raises (the base class only catches `ValueError`).
* `valid_iff_value_ok_*` — per class, `valid` says yes exactly when `value` returns; for
                            `RegexInput`/`SSNInput` `value` always returns and `valid` is stricter.
* `*_accepts_exactly`    — what each class accepts, in terms of the Python string operations.
* `value_typed`          — a returned value has the dynamic type of the class.
* `float_finite`         — a valid float input denotes a finite double (true since the repo's
                            "reject non-finite numbers" fix; the literals `nan`, `inf`, `1e999` are still
                            float literals for `float()`: `PyStr.parseFloatLit_nan` etc.).
* `getitem_cases`        — the store's gate: spec known → provided → valid → converted.
* `value_strip`, `valid_strip` — white space around the text never matters (so the trimming done
                            by the INI reader cannot change an answer).
-/
set_option autoImplicit false

namespace HabuVerif.Inputs

open PyStr

variable {F : Type} (T : CharTable) (ops : FloatOps F)

/-! ## closed forms of `valid` -/

theorem strValue_strip (s : Text) : strValue T (strip T s) = strValue T s := strip_idem T s

theorem validE_str (s : Text) : validE T ops .str s = .ok true := rfl

theorem validE_bool (s : Text) :
    validE T ops .bool s =
      .ok (decide (lower T (strip T s) ∈ trueWords) || decide (lower T (strip T s) ∈ falseWords)) := by
  simp only [validE, baseValidE, value, boolValue]
  by_cases h1 : lower T (strip T s) ∈ trueWords
  · simp [h1, catchValueError, Except.map]
  · by_cases h2 : lower T (strip T s) ∈ falseWords
    · simp [h1, h2, catchValueError, Except.map]
    · simp [h1, h2, catchValueError, Except.map]

theorem validE_int (s : Text) :
    validE T ops .int s = .ok (decide (strip T s = []) || (parseInt T (strip T s)).isSome) := by
  simp only [validE, baseValidE, value, intValue]
  by_cases h : strip T s = []
  · simp [h, catchValueError, Except.map]
  · have : ((strip T s).length == 0) = false := by simp [h]
    simp only [this]
    cases hp : parseInt T (strip T s) <;> simp [h, catchValueError, Except.map]

theorem validE_float (s : Text) :
    validE T ops .float s =
      .ok (decide (strip T s = []) ||
        (match parseFloatLit T (strip T s) with
         | some d => ops.isFinite (ops.ofLit d)
         | none => false)) := by
  simp only [validE, baseValidE, value, floatValue]
  by_cases h : strip T s = []
  · simp [h, catchValueError, Except.map]
  · have : ((strip T s).length == 0) = false := by simp [h]
    simp only [this]
    cases hp : parseFloatLit T (strip T s) with
    | none => simp [h, catchValueError, Except.map]
    | some d =>
      cases hf : ops.isFinite (ops.ofLit d) <;> simp [h, hf, catchValueError, Except.map]

theorem validE_enum (e : EnumTy) (ae : Bool) (s : Text) :
    validE T ops (.enum e ae) s =
      .ok ((decide (strip T s = []) && ae) || decide (strip T s ∈ e.members)) := by
  simp only [validE, strValue, strip_idem]
  by_cases h : strip T s = []
  · cases ae <;> simp [h]
  · by_cases hm : strip T s ∈ e.members <;> simp [h, hm]

theorem validE_regex (r : Regex.Re) (s : Text) :
    validE T ops (.regex r) s = .ok (Regex.reMatch r (strip T s)) := rfl

def isNineDigits (v : Text) : Bool := v.length == 9 && v.all (fun c => c ∈ ssnDigits)

theorem validE_ssn (s : Text) :
    validE T ops .ssn s = .ok (isNineDigits (removeDash (strip T s))) := rfl

/-- `valid` never raises: the propagating branch of `Input.valid` is dead for the shipped classes -/
theorem validE_eq (sp : InputSpec) (s : Text) : validE T ops sp s = .ok (valid T ops sp s) := by
  cases sp with
  | str => simp [valid, validE_str]
  | bool => simp [valid, validE_bool]
  | int => simp [valid, validE_int]
  | float => simp [valid, validE_float]
  | enum e ae => simp [valid, validE_enum]
  | regex r => simp [valid, validE_regex]
  | ssn => simp [valid, validE_ssn]

theorem valid_str (s : Text) : valid T ops .str s = true := rfl

theorem valid_bool (s : Text) :
    valid T ops .bool s =
      (decide (lower T (strip T s) ∈ trueWords) || decide (lower T (strip T s) ∈ falseWords)) := by
  simp [valid, validE_bool]

theorem valid_int (s : Text) :
    valid T ops .int s = (decide (strip T s = []) || (parseInt T (strip T s)).isSome) := by
  simp [valid, validE_int]

theorem valid_float (s : Text) :
    valid T ops .float s =
      (decide (strip T s = []) ||
        (match parseFloatLit T (strip T s) with
         | some d => ops.isFinite (ops.ofLit d)
         | none => false)) := by
  simp [valid, validE_float]

theorem valid_enum (e : EnumTy) (ae : Bool) (s : Text) :
    valid T ops (.enum e ae) s =
      ((decide (strip T s = []) && ae) || decide (strip T s ∈ e.members)) := by
  simp [valid, validE_enum]

theorem valid_regex (r : Regex.Re) (s : Text) :
    valid T ops (.regex r) s = Regex.reMatch r (strip T s) := rfl

theorem valid_ssn (s : Text) : valid T ops .ssn s = isNineDigits (removeDash (strip T s)) := rfl

/-! ## 1. `valid` and `value` agree -/

theorem valid_iff_value_ok_str (s : Text) :
    valid T ops .str s = true ↔ ∃ v, value T ops .str s = .ok v := by
  simp [valid_str, value]

theorem valid_iff_value_ok_bool (s : Text) :
    valid T ops .bool s = true ↔ ∃ v, value T ops .bool s = .ok v := by
  rw [valid_bool]
  simp only [value, boolValue]
  by_cases h1 : lower T (strip T s) ∈ trueWords
  · simp [h1, Except.map]
  · by_cases h2 : lower T (strip T s) ∈ falseWords <;> simp [h1, h2, Except.map]

theorem valid_iff_value_ok_int (s : Text) :
    valid T ops .int s = true ↔ ∃ v, value T ops .int s = .ok v := by
  rw [valid_int]
  simp only [value, intValue]
  by_cases h : strip T s = []
  · simp [h, Except.map]
  · have : ((strip T s).length == 0) = false := by simp [h]
    simp only [this]
    cases hp : parseInt T (strip T s) <;> simp [h, Except.map]

theorem valid_iff_value_ok_float (s : Text) :
    valid T ops .float s = true ↔ ∃ v, value T ops .float s = .ok v := by
  rw [valid_float]
  simp only [value, floatValue]
  by_cases h : strip T s = []
  · simp [h, Except.map]
  · have : ((strip T s).length == 0) = false := by simp [h]
    simp only [this]
    cases hp : parseFloatLit T (strip T s) with
    | none => simp [h, Except.map]
    | some d => cases hf : ops.isFinite (ops.ofLit d) <;> simp [h, hf, Except.map]

/-- `EnumInput.valid` catches the `KeyError` that `EnumInput.value` raises; they still agree -/
theorem valid_iff_value_ok_enum (e : EnumTy) (ae : Bool) (s : Text) :
    valid T ops (.enum e ae) s = true ↔ ∃ v, value T ops (.enum e ae) s = .ok v := by
  rw [valid_enum]
  simp only [value, enumValue, strValue, strip_idem]
  by_cases h : strip T s = []
  · cases ae
    · by_cases hm : ([] : Text) ∈ e.members <;> simp [h, hm]
    · simp [h]
  · by_cases hm : strip T s ∈ e.members <;> simp [h, hm]

/-- the error of an invalid enum text is a `KeyError`, not a `ValueError` -/
theorem value_enum_invalid (e : EnumTy) (ae : Bool) (s : Text)
    (h : valid T ops (.enum e ae) s = false) : value T ops (.enum e ae) s = .error .keyError := by
  rw [valid_enum] at h
  simp only [value, enumValue, strValue, strip_idem]
  by_cases h0 : strip T s = []
  · cases ae <;> simp_all
  · simp_all

/-- `RegexInput.value` never fails; `valid` additionally demands the match -/
theorem valid_regex_iff (r : Regex.Re) (s : Text) :
    (valid T ops (.regex r) s = true ↔
      value T ops (.regex r) s = .ok (.str (strip T s)) ∧ Regex.reMatch r (strip T s) = true) ∧
    value T ops (.regex r) s = .ok (.str (strip T s)) := by
  simp [valid_regex, value, strValue]

/-- `SSNInput.value` never fails; `valid` additionally demands nine digits -/
theorem valid_ssn_iff (s : Text) :
    (valid T ops .ssn s = true ↔
      value T ops .ssn s = .ok (.str (removeDash (strip T s))) ∧
        isNineDigits (removeDash (strip T s)) = true) ∧
    value T ops .ssn s = .ok (.str (removeDash (strip T s))) := by
  simp [valid_ssn, value, ssnValue, strValue]

/-- for every class: a text that `valid` accepts is converted without an exception -/
theorem valid_imp_value_ok (sp : InputSpec) (s : Text) (h : valid T ops sp s = true) :
    ∃ v, value T ops sp s = .ok v := by
  cases sp with
  | str => exact (valid_iff_value_ok_str T ops s).mp h
  | bool => exact (valid_iff_value_ok_bool T ops s).mp h
  | int => exact (valid_iff_value_ok_int T ops s).mp h
  | float => exact (valid_iff_value_ok_float T ops s).mp h
  | enum e ae => exact (valid_iff_value_ok_enum T ops e ae s).mp h
  | regex r => exact ⟨_, (valid_regex_iff T ops r s).2⟩
  | ssn => exact ⟨_, (valid_ssn_iff T ops s).2⟩

/-- conversely, except for the two classes whose `valid` is stricter than `value` -/
theorem value_ok_imp_valid (sp : InputSpec) (s : Text) (hr : ∀ r, sp ≠ .regex r) (hs : sp ≠ .ssn)
    (v : PyVal F) (h : value T ops sp s = .ok v) : valid T ops sp s = true := by
  cases sp with
  | str => rfl
  | bool => exact (valid_iff_value_ok_bool T ops s).mpr ⟨v, h⟩
  | int => exact (valid_iff_value_ok_int T ops s).mpr ⟨v, h⟩
  | float => exact (valid_iff_value_ok_float T ops s).mpr ⟨v, h⟩
  | enum e ae => exact (valid_iff_value_ok_enum T ops e ae s).mpr ⟨v, h⟩
  | regex r => exact absurd rfl (hr r)
  | ssn => exact absurd rfl hs

/-! ## 2. what is accepted -/

def tenWords : List Text := trueWords ++ falseWords

/-- `BooleanInput` accepts exactly the ten words, after `strip().lower()` -/
theorem bool_accepts_exactly (s : Text) :
    valid T ops .bool s = true ↔ lower T (strip T s) ∈ tenWords := by
  rw [valid_bool]; simp [tenWords]

theorem bool_value (s : Text) (b : Bool) :
    value T ops .bool s = .ok (.bool b) ↔
      (b = true ∧ lower T (strip T s) ∈ trueWords) ∨
      (b = false ∧ lower T (strip T s) ∉ trueWords ∧ lower T (strip T s) ∈ falseWords) := by
  simp only [value, boolValue]
  by_cases h1 : lower T (strip T s) ∈ trueWords
  · cases b <;> simp [h1, Except.map]
  · by_cases h2 : lower T (strip T s) ∈ falseWords <;> cases b <;> simp [h1, h2, Except.map]

theorem mem_ssnDigits (c : Char) : c ∈ ssnDigits ↔ isAsciiDigit c = true := by
  constructor
  · intro h
    simp only [ssnDigits, List.mem_cons, List.not_mem_nil, or_false] at h
    rcases h with rfl | rfl | rfl | rfl | rfl | rfl | rfl | rfl | rfl | rfl <;> rfl
  · intro h
    simp only [isAsciiDigit, Bool.and_eq_true, decide_eq_true_eq] at h
    have hc : c = Char.ofNat c.toNat := (Char.ofNat_toNat c).symm
    obtain ⟨h1, h2⟩ := h
    generalize c.toNat = n at hc h1 h2
    subst hc
    interval_cases n <;> decide

/-- `SSNInput` accepts exactly: nine ASCII digits after removing `-` from the stripped text -/
theorem ssn_accepts_exactly (s : Text) :
    valid T ops .ssn s = true ↔
      (removeDash (strip T s)).length = 9 ∧ ∀ c ∈ removeDash (strip T s), isAsciiDigit c = true := by
  rw [valid_ssn]
  simp [isNineDigits, mem_ssnDigits]

/-- `EnumInput` accepts exactly the member names (after `strip()`), and the blank text if allowed -/
theorem enum_accepts_exactly (e : EnumTy) (ae : Bool) (s : Text) :
    valid T ops (.enum e ae) s = true ↔ (strip T s = [] ∧ ae = true) ∨ strip T s ∈ e.members := by
  rw [valid_enum]; simp

/-- `IntegerInput` accepts exactly blank text and what `int()` accepts after `strip()` -/
theorem int_accepts_exactly (s : Text) :
    valid T ops .int s = true ↔ strip T s = [] ∨ ∃ i, parseInt T (strip T s) = some i := by
  rw [valid_int]; simp [Option.isSome_iff_exists]

/-- `FloatInput` accepts exactly blank text and the `float()` literals whose double is finite -/
theorem float_accepts_exactly (s : Text) :
    valid T ops .float s = true ↔
      strip T s = [] ∨ ∃ d, parseFloatLit T (strip T s) = some d ∧ ops.isFinite (ops.ofLit d) = true := by
  rw [valid_float]
  cases h : parseFloatLit T (strip T s) <;> simp

/-- `RegexInput` accepts exactly the texts whose stripped form has a match at position 0 -/
theorem regex_accepts_exactly (r : Regex.Re) (s : Text) :
    valid T ops (.regex r) s = true ↔ Regex.reMatch r (strip T s) = true := by
  rw [valid_regex]

/-- `routing_number` (f1040): exactly nine ASCII digits starting 01–12 or 21–32.  Python's `$` would
also accept one trailing newline, but `value` has stripped it (`\n` is white space). -/
theorem routing_accepts_exactly (hnl : T.isSpace '\n' = true) (s : Text) :
    valid T ops (.regex Regex.routingRe) s = true ↔
      ∃ a b ds, strip T s = a :: b :: ds ∧ Regex.RoutingPrefix a b ∧ ds.length = 7 ∧
        ∀ c ∈ ds, Regex.IsDigit c := by
  rw [valid_regex, Regex.routing_matches_iff]
  constructor
  · rintro ⟨a, b, ds, h | h, hab, hl, hd⟩
    · exact ⟨a, b, ds, h, hab, hl, hd⟩
    · have := strip_last_not_space T s '\n' (a :: b :: ds) h
      rw [hnl] at this
      cases this
  · rintro ⟨a, b, ds, h, hab, hl, hd⟩
    exact ⟨a, b, ds, Or.inl h, hab, hl, hd⟩

/-- `account_number` (f1040): 1 to 17 characters out of `[0-9A-Za-z-]` -/
theorem account_accepts_exactly (hnl : T.isSpace '\n' = true) (s : Text) :
    valid T ops (.regex Regex.accountRe) s = true ↔
      1 ≤ (strip T s).length ∧ (strip T s).length ≤ 17 ∧ ∀ c ∈ strip T s, Regex.AccountChar c := by
  rw [valid_regex, Regex.account_matches_iff]
  constructor
  · rintro ⟨w, h | h, hw⟩
    · rw [h]; exact hw
    · have := strip_last_not_space T s '\n' w h
      rw [hnl] at this
      cases this
  · intro h
    exact ⟨strip T s, Or.inl rfl, h⟩

/-- the `$` of Python's `re` accepts a trailing newline: on unstripped text the routing pattern
matches `"011234567\n"` -/
theorem routing_dollar_newline :
    Regex.reMatch Regex.routingRe ['0','1','1','2','3','4','5','6','7','\n'] = true := by decide

/-! ## 3. the value has the declared type -/

/-- the dynamic type an input class promises -/
def HasKind : InputSpec → PyVal F → Prop
  | .str, v => ∃ t, v = .str t
  | .regex _, v => ∃ t, v = .str t
  | .ssn, v => ∃ t, v = .str t
  | .bool, v => ∃ b, v = .bool b
  | .int, v => ∃ i, v = .int i
  | .float, v => ∃ x, v = .float x
  | .enum e ae, v => (v = .none ∧ ae = true) ∨ ∃ m, m ∈ e.members ∧ v = .enumMember e.ident m

theorem value_typed (sp : InputSpec) (s : Text) (v : PyVal F) (h : value T ops sp s = .ok v) :
    HasKind sp v := by
  cases sp with
  | str => simp only [value] at h; cases h; exact ⟨_, rfl⟩
  | regex r => simp only [value] at h; cases h; exact ⟨_, rfl⟩
  | ssn => simp only [value] at h; cases h; exact ⟨_, rfl⟩
  | bool =>
    simp only [value] at h
    cases hb : boolValue T s with
    | error e => simp [hb, Except.map] at h
    | ok b => simp [hb, Except.map] at h; exact ⟨b, h.symm⟩
  | int =>
    simp only [value] at h
    cases hb : intValue T s with
    | error e => simp [hb, Except.map] at h
    | ok b => simp [hb, Except.map] at h; exact ⟨b, h.symm⟩
  | float =>
    simp only [value] at h
    cases hb : floatValue T ops s with
    | error e => simp [hb, Except.map] at h
    | ok b => simp [hb, Except.map] at h; exact ⟨b, h.symm⟩
  | enum e ae =>
    simp only [value, enumValue] at h
    split at h
    · rename_i h0
      cases h
      simp only [Bool.and_eq_true] at h0
      exact Or.inl ⟨rfl, h0.2⟩
    · split at h
      · rename_i hm
        cases h
        exact Or.inr ⟨_, hm, rfl⟩
      · cases h

/-! ## 4. floats are finite -/

/-- C11: a float input that passed validation is a FINITE double (`0.0` must be finite). -/
theorem float_finite (hz : ops.isFinite ops.zero = true) (s : Text)
    (h : valid T ops .float s = true) :
    ∃ x, value T ops .float s = .ok (.float x) ∧ ops.isFinite x = true := by
  rw [valid_float] at h
  simp only [value, floatValue]
  by_cases h0 : strip T s = []
  · exact ⟨ops.zero, by simp [h0, Except.map], hz⟩
  · have : ((strip T s).length == 0) = false := by simp [h0]
    simp only [this]
    cases hp : parseFloatLit T (strip T s) with
    | none => simp [h0, hp] at h
    | some d =>
      simp [h0, hp] at h
      exact ⟨ops.ofLit d, by simp [h, Except.map], h⟩

/-- whatever `value` returns for a float input is finite, valid or not asked -/
theorem float_value_finite (hz : ops.isFinite ops.zero = true) (s : Text) (v : PyVal F)
    (h : value T ops .float s = .ok v) : ∃ x, v = .float x ∧ ops.isFinite x = true := by
  have hv := (valid_iff_value_ok_float T ops s).mpr ⟨v, h⟩
  obtain ⟨x, hx, hf⟩ := float_finite T ops hz s hv
  rw [hx] at h
  cases h
  exact ⟨x, rfl, hf⟩

/-- a literal that rounds to a non-finite double (`nan`, `inf`, `1e999`, …) is rejected -/
theorem float_rejects_nonfinite (s : Text) (d : DecLit) (hd : parseFloatLit T (strip T s) = some d)
    (hn : ops.isFinite (ops.ofLit d) = false) : valid T ops .float s = false := by
  rw [valid_float]
  have h0 : strip T s ≠ [] := by
    intro h
    have hnil : parseFloatLit T [] = none := rfl
    rw [h, hnil] at hd
    cases hd
  simp [h0, hd, hn]

/-- `nan` is a float literal for `float()` under every table, and it is rejected as input as soon as
`nan` is not finite -/
theorem float_rejects_nan (hs : strip T ['n','a','n'] = ['n','a','n'])
    (hn : ops.isFinite (ops.ofLit (.nan false)) = false) : valid T ops .float ['n','a','n'] = false :=
  float_rejects_nonfinite T ops _ _ (by rw [hs]; exact parseFloatLit_nan T) hn

/-! ## strip invariance -/

theorem value_strip (sp : InputSpec) (s : Text) : value T ops sp (strip T s) = value T ops sp s := by
  cases sp with
  | enum e ae =>
    show enumValue T e ae (strip T s) = enumValue T e ae s
    unfold enumValue strValue
    rw [strip_idem]
  | _ => simp [value, strValue, boolValue, intValue, floatValue, ssnValue, strip_idem]

theorem valid_strip (sp : InputSpec) (s : Text) : valid T ops sp (strip T s) = valid T ops sp s := by
  cases sp with
  | str => rfl
  | bool => simp [valid_bool, strip_idem]
  | int => simp [valid_int, strip_idem]
  | float => simp [valid_float, strip_idem]
  | enum e ae => simp [valid_enum, strip_idem]
  | regex r => simp [valid_regex, strip_idem]
  | ssn => simp [valid_ssn, strip_idem]

/-! ## 5. the store -/

/-- `InputStore.__getitem__`: exactly one of four answers, decided in this order. -/
theorem getitem_cases (spec : Option InputSpec) (stored : Option Text) :
    (getitem T ops spec stored = .noSpec ↔ spec = none) ∧
    (getitem T ops spec stored = .missing ↔ spec ≠ none ∧ stored = none) ∧
    (∀ text, getitem T ops spec stored = .invalid text ↔
      ∃ sp, spec = some sp ∧ stored = some text ∧ valid T ops sp text = false) ∧
    (∀ v, getitem T ops spec stored = .ok v ↔
      ∃ sp text, spec = some sp ∧ stored = some text ∧ valid T ops sp text = true ∧
        value T ops sp text = .ok v) := by
  cases spec with
  | none => simp [getitem]
  | some sp =>
    cases stored with
    | none => simp [getitem]
    | some text =>
      cases hv : valid T ops sp text with
      | false => simp [getitem, hv]
      | true =>
        obtain ⟨v, hval⟩ := valid_imp_value_ok T ops sp text hv
        simp [getitem, hv, hval]

/-- an input that was supplied is never reported missing; one that was not supplied is reported
missing (never defaulted) -/
theorem getitem_missing_iff (sp : InputSpec) (stored : Option Text) :
    getitem T ops (some sp) stored = .missing ↔ stored = none := by
  have := (getitem_cases T ops (some sp) stored).2.1
  simpa using this

/-- `valid` said yes, so `value` cannot raise: the store never lets a conversion error escape -/
theorem getitem_never_raised (spec : Option InputSpec) (stored : Option Text) (e : PyErr) :
    getitem T ops spec stored ≠ .raised e := by
  cases spec with
  | none => simp [getitem]
  | some sp =>
    cases stored with
    | none => simp [getitem]
    | some text =>
      cases hv : valid T ops sp text with
      | false => simp [getitem, hv]
      | true =>
        obtain ⟨v, hval⟩ := valid_imp_value_ok T ops sp text hv
        simp [getitem, hv, hval]

/-- C11 for the store: whatever a line reads from the store passed validation, has the declared
type, and is finite if it is a float -/
theorem getitem_ok_sound (hz : ops.isFinite ops.zero = true) (sp : InputSpec) (text : Text)
    (v : PyVal F) (h : getitem T ops (some sp) (some text) = .ok v) :
    valid T ops sp text = true ∧ value T ops sp text = .ok v ∧ HasKind sp v ∧
      (∀ x, v = .float x → ops.isFinite x = true) := by
  obtain ⟨sp', text', h1, h2, hv, hval⟩ := ((getitem_cases T ops (some sp) (some text)).2.2.2 v).mp h
  cases h1; cases h2
  refine ⟨hv, hval, value_typed T ops _ _ _ hval, ?_⟩
  intro x hx
  subst hx
  have hk := value_typed T ops _ _ _ hval
  cases sp with
  | float =>
    obtain ⟨y, hy, hf⟩ := float_value_finite T ops hz text _ hval
    cases hy; exact hf
  | str => obtain ⟨t, ht⟩ := hk; cases ht
  | regex r => obtain ⟨t, ht⟩ := hk; cases ht
  | ssn => obtain ⟨t, ht⟩ := hk; cases ht
  | bool => obtain ⟨t, ht⟩ := hk; cases ht
  | int => obtain ⟨t, ht⟩ := hk; cases ht
  | enum e ae =>
    rcases hk with ⟨h1, _⟩ | ⟨m, _, h1⟩ <;> cases h1

end HabuVerif.Inputs
