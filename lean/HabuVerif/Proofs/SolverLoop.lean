import HabuVerif.Proofs.SolverInv
/-!
# The invariant holds at the end of every `solve`

Lifts the per-step lemmas through the loops of `Solver.solve`: the queue loop, the re-attempt of
released lines, the prompt loop with its `break`, and the outer `while`.
-/
set_option autoImplicit false
set_option linter.unusedSectionVars false
set_option linter.unusedSimpArgs false
set_option linter.unusedVariables false

namespace HabuVerif
open Tracker

variable {N I F V S : Type} [DecidableEq N] [DecidableEq I] [DecidableEq F]
variable {C : Cat N I F V S} {σ : Sched N I}

/-! ## small facts -/

theorem inpf_none_of_missing {s : St N I F V S} {x : I} (h : s.inf C x = .missing) :
    s.inpf x = none ∧ x ∈ s.specs := by
  have hx : x ∈ s.specs := mem_specs_of_inf (by rw [h]; simp)
  refine ⟨?_, hx⟩
  simp only [inf_def, hx, if_true] at h
  cases hi : s.inpf x with
  | none => rfl
  | some t =>
    rw [hi] at h
    cases hp : C.parse x t <;> simp [hp] at h

theorem waits_of_key {D W : Type} [DecidableEq D] {t : Tracker D W} (hwf : WF t) {d : D}
    (h : d ∈ keys t.unmet) : ∃ w, Waits t d w := by
  obtain ⟨p, hp, rfl⟩ := List.mem_map.mp h
  have hne := hwf.nonempty p hp
  cases hws : p.2 with
  | nil => exact absurd hws hne
  | cons w ws =>
    exact ⟨w, mem_pairs.mpr ⟨p.2, by simpa using hp, by rw [hws]; simp⟩⟩

/-! ## the prompt -/

/-- what one `_attempt_input` does besides preserving the invariant -/
structure InputPost (P : Nat → I → List N → Option S) (s s' : St N I F V S) (x : I) : Prop where
  le : StoreLe C s s'
  v : s'.v = s.v
  unmet : s'.ideps.unmet = s.ideps.unmet
  queue : s'.queue = s.queue
  fdeps : s'.fdeps = s.fdeps
  cases : (s'.refused = true ∧ s'.ideps.met = s.ideps.met ∧ s'.inp = s.inp ∧
      ∃ k nb, P k x nb = none) ∨
    (s'.refused = s.refused ∧ s'.ideps.met = s.ideps.met ++ [x] ∧
      ∃ k nb str, P k x nb = some str ∧ s'.inp = assocSet s.inp x str ∧ s.inpf x = none)

/-- storing a valid answer for an input that was missing -/
theorem Inv.answer {L : List N} {s s' : St N I F V S} {x : I} {str : S} {pv : V}
    (hinv : Inv C L s) (hmiss : s.inf C x = .missing) (hp : C.parse x str = some pv)
    (e_v : s'.v = s.v) (e_inp : s'.inp = assocSet s.inp x str) (e_specs : s'.specs = s.specs)
    (e_forms : s'.forms = s.forms) (e_fmap : s'.fmap = s.fmap) (e_sol : s'.solving = s.solving)
    (e_q : s'.queue = s.queue) (e_un : s'.unimpl = s.unimpl) (e_fd : s'.fdeps = s.fdeps)
    (e_id : s'.ideps = s.ideps.meet x) : Inv C L s' ∧ StoreLe C s s' := by
  obtain ⟨hnone, hxs⟩ := inpf_none_of_missing hmiss
  have hinpf : ∀ y, s'.inpf y = if y = x then some str else s.inpf y := by
    intro y; unfold St.inpf; rw [e_inp, assocSet_lookup]
  have hext : Ext s.inpf s'.inpf := by
    intro y t hy
    rw [hinpf]
    split
    · rename_i e; subst e; rw [hnone] at hy; cases hy
    · exact hy
  have hvf : s'.vf = s.vf := vf_congr e_v
  have hle : StoreLe C s s' := by
    refine ⟨by rw [hvf]; exact Ext.refl _, ?_, by rw [ff_congr e_forms]; exact FormLe.refl _⟩
    exact inpLe_of C (by rw [e_specs]; exact fun _ h => h) hext
  have hinf_x : s'.inf C x = .ok pv := by
    simp only [inf_def, e_specs, hxs, if_true, hinpf, hp]
  have hinf_ne : ∀ y, y ≠ x → s'.inf C y = s.inf C y := by
    intro y hy
    simp only [inf_def, e_specs, hinpf, hy, if_false]
  refine ⟨?_, hle⟩
  refine { vSound := ?_, vDem := ?_, fwf := by rw [e_fd]; exact hinv.fwf,
           iwf := by rw [e_id]; exact meet_WF _ _ hinv.iwf,
           fWait := ?_, fMet := ?_, iWait := ?_, iMet := ?_, unimplSound := ?_, part := ?_,
           qDem := ?_, solFmap := ?_, fmapForm := ?_, formsLoaded := ?_, specsForm := ?_ }
  · intro k y hk; rw [hvf] at hk; exact attempt_val_stable hle (hinv.vSound k y hk)
  · intro k y hk; rw [hvf] at hk; rw [e_sol]; exact hinv.vDem k y hk
  · intro m k hw'
    rw [e_fd] at hw' ⊢
    obtain ⟨a, b, c⟩ := hinv.fWait m k hw'
    rw [e_sol]
    refine ⟨a, b, ?_⟩
    rcases c with c | ⟨c1, c2⟩
    · exact Or.inl c
    · exact Or.inr ⟨by rw [hvf]; exact c1, attempt_needV_stable hle c2 (by rw [hvf]; exact c1)⟩
  · intro m hm; rw [e_fd] at hm; rw [hvf]; exact hinv.fMet m hm
  · intro y k hw'
    rw [e_id, meet_waits] at hw'
    obtain ⟨a, c⟩ := hinv.iWait y k hw'
    rw [e_sol, e_id, meet_met]
    refine ⟨a, ?_⟩
    rcases c with c | ⟨c1, c2⟩
    · exact Or.inl (List.mem_append_left _ c)
    · by_cases hyx : y = x
      · exact Or.inl (by rw [hyx]; simp)
      · have : s'.inf C y = .missing := by rw [hinf_ne y hyx]; exact c1
        exact Or.inr ⟨this, attempt_needI_stable hle c2 this⟩
  · intro y hy
    rw [e_id, meet_met, List.mem_append, List.mem_singleton] at hy
    rcases hy with hy | rfl
    · obtain ⟨v, hv⟩ := hinv.iMet y hy
      exact ⟨v, (hle.i y).1 v hv⟩
    · exact ⟨pv, hinf_x⟩
  · intro k hk
    rw [e_un] at hk
    obtain ⟨a, b⟩ := hinv.unimplSound k hk
    rw [e_sol]
    exact ⟨a, attempt_notImpl_stable hle b⟩
  · intro k hk
    rw [e_sol] at hk
    rw [e_q, hvf, e_fd, e_un]
    rcases hinv.part k hk with p | p | p | p | p | p
    · exact Or.inl p
    · exact Or.inr (Or.inl p)
    · exact Or.inr (Or.inr (Or.inl p))
    · exact Or.inr (Or.inr (Or.inr (Or.inl p)))
    · obtain ⟨y, hy⟩ := p
      exact Or.inr (Or.inr (Or.inr (Or.inr (Or.inl ⟨y, by rw [e_id, meet_waits]; exact hy⟩))))
    · exact Or.inr (Or.inr (Or.inr (Or.inr (Or.inr p))))
  · intro k hk; rw [e_q] at hk; rw [e_sol]; exact hinv.qDem k hk
  · intro k hk; rw [e_sol] at hk; rw [e_fmap]; exact hinv.solFmap k hk
  · intro k hk; rw [e_fmap] at hk; rw [e_forms]; exact hinv.fmapForm k hk
  · intro f hf
    rw [e_forms] at hf
    rw [e_fmap, e_sol, e_specs]
    exact hinv.formsLoaded f hf
  · intro y hy; rw [e_specs] at hy ⊢; exact hinv.specsForm y hy

theorem attemptInput_inv {P : Nat → I → List N → Option S} {L : List N} {s s' : St N I F V S}
    {x : I} (hinv : Inv C L s) (hxm : x ∉ s.ideps.met) (hxk : x ∈ keys s.ideps.unmet)
    (h : attemptInput C P s x = .ok s') : Inv C L s' ∧ InputPost (C := C) P s s' x := by
  unfold attemptInput at h
  cases hud : s.ideps.unmetDependents x with
  | none => simp [hud] at h
  | some nb =>
    simp only [hud] at h
    cases hP : P s.nprompts x nb with
    | none =>
      simp only [hP] at h
      cases h
      refine ⟨?_, storeLe_of_grow rfl rfl (fun _ h => h) (fun _ h => h), rfl, rfl, rfl, rfl,
        Or.inl ⟨rfl, rfl, rfl, s.nprompts, nb, hP⟩⟩
      exact hinv.frame rfl rfl rfl rfl rfl (fun _ h => h) (fun _ h => h) (fun _ h => h)
        hinv.part hinv.qDem hinv.solFmap hinv.fmapForm hinv.formsLoaded hinv.specsForm
    | some str =>
      simp only [hP] at h
      cases hp : C.parse x str with
      | none => simp [hp] at h
      | some pv =>
        simp only [hp] at h
        cases h
        -- x is missing before the answer
        obtain ⟨w, hw⟩ := waits_of_key hinv.iwf hxk
        have hmiss : s.inf C x = .missing := by
          rcases (hinv.iWait x w hw).2 with c | c
          · exact absurd c hxm
          · exact c.1
        refine ⟨?_, ⟨?_, rfl, rfl, rfl, rfl,
          Or.inr ⟨rfl, rfl, s.nprompts, nb, str, hP, rfl, (inpf_none_of_missing hmiss).1⟩⟩⟩
        · refine (Inv.answer hinv hmiss hp ?_ ?_ ?_ ?_ ?_ ?_ ?_ ?_ ?_ ?_).1 <;> rfl
        · refine (Inv.answer hinv hmiss hp ?_ ?_ ?_ ?_ ?_ ?_ ?_ ?_ ?_ ?_).2 <;> rfl

/-! ## taking work out of the queue and out of the trackers -/

theorem Inv.pop {L : List N} {s : St N I F V S} {n : N} (h : Inv C L s)
    (hl : s.queue.getLast? = some n) : Inv C (n :: L) { s with queue := s.queue.dropLast } := by
  have hq : s.queue = s.queue.dropLast ++ [n] := split_last hl
  refine h.frame rfl rfl rfl rfl rfl (fun _ h => h) (fun _ h => h) (fun _ h => h) ?_ ?_
    h.solFmap h.fmapForm h.formsLoaded h.specsForm
  · intro k hk
    rcases h.part k hk with p | p | p
    · rw [hq, List.mem_append, List.mem_singleton] at p
      rcases p with p | rfl
      · exact Or.inl p
      · exact Or.inr (Or.inl List.mem_cons_self)
    · exact Or.inr (Or.inl (List.mem_cons_of_mem _ p))
    · exact Or.inr (Or.inr p)
  · intro k hk
    rcases hk with hk | hk
    · exact h.qDem k (Or.inl (by rw [hq]; exact List.mem_append_left _ hk))
    · rcases List.mem_cons.mp hk with rfl | hk
      · exact h.qDem k (Or.inl (by rw [hq]; simp))
      · exact h.qDem k (Or.inr hk)

/-- replacing the in-flight list by one with the same members -/
theorem Inv.relist {L L' : List N} {s : St N I F V S} (h : Inv C L s)
    (hL : ∀ n, n ∈ L ↔ n ∈ L') : Inv C L' s := by
  refine h.frame rfl rfl rfl rfl rfl (fun _ h => h) (fun _ h => h) (fun _ h => h) ?_ ?_
    h.solFmap h.fmapForm h.formsLoaded h.specsForm
  · intro k hk
    rcases h.part k hk with p | p | p
    · exact Or.inl p
    · exact Or.inr (Or.inl ((hL k).mp p))
    · exact Or.inr (Or.inr p)
  · intro k hk
    rcases hk with hk | hk
    · exact h.qDem k (Or.inl hk)
    · exact h.qDem k (Or.inr ((hL k).mpr hk))

/-- `list(self._field_dependencies.met_dependents())` -/
theorem Inv.drainF {L : List N} {s : St N I F V S} (h : Inv C L s) :
    ∃ ws fd, s.fdeps.drainAll = some (ws, fd) ∧ fd.met = [] ∧
      Inv C (ws ++ L) { s with fdeps := fd } := by
  obtain ⟨ws, fd, hd, hwf, hmet, hw1, hw2⟩ := drainAll_waits s.fdeps h.fwf
  refine ⟨ws, fd, hd, hmet, ?_⟩
  refine { vSound := h.vSound, vDem := h.vDem, fwf := hwf, iwf := h.iwf,
           fWait := ?_, fMet := ?_, iWait := h.iWait, iMet := h.iMet, unimplSound := h.unimplSound,
           part := ?_, qDem := ?_, solFmap := h.solFmap, fmapForm := h.fmapForm,
           formsLoaded := h.formsLoaded, specsForm := h.specsForm }
  · intro m k hw
    obtain ⟨hw', hnm⟩ := (hw1 m k).mp hw
    obtain ⟨a, b, c⟩ := h.fWait m k hw'
    refine ⟨a, b, ?_⟩
    rcases c with c | c
    · exact absurd c hnm
    · exact Or.inr c
  · intro m hm
    have : m ∈ fd.met := hm
    rw [hmet] at this; simp at this
  · intro k hk
    rcases h.part k hk with p | p | p | p | p
    · exact Or.inl p
    · exact Or.inr (Or.inl (List.mem_append_right _ p))
    · exact Or.inr (Or.inr (Or.inl p))
    · obtain ⟨m, hm⟩ := p
      by_cases hmm : m ∈ s.fdeps.met
      · exact Or.inr (Or.inl (List.mem_append_left _ ((hw2 k).mpr ⟨m, hmm, hm⟩)))
      · exact Or.inr (Or.inr (Or.inr (Or.inl ⟨m, (hw1 m k).mpr ⟨hm, hmm⟩⟩)))
    · exact Or.inr (Or.inr (Or.inr (Or.inr p)))
  · intro k hk
    rcases hk with hk | hk
    · exact h.qDem k (Or.inl hk)
    · rcases List.mem_append.mp hk with hk | hk
      · obtain ⟨m, _, hm⟩ := (hw2 k).mp hk
        exact (h.fWait m k hm).1
      · exact h.qDem k (Or.inr hk)

/-- `list(self._input_dependencies.met_dependents())` -/
theorem Inv.drainI {L : List N} {s : St N I F V S} (h : Inv C L s) :
    ∃ ws idp, s.ideps.drainAll = some (ws, idp) ∧ idp.met = [] ∧
      Inv C (ws ++ L) { s with ideps := idp } := by
  obtain ⟨ws, idp, hd, hwf, hmet, hw1, hw2⟩ := drainAll_waits s.ideps h.iwf
  refine ⟨ws, idp, hd, hmet, ?_⟩
  refine { vSound := h.vSound, vDem := h.vDem, fwf := h.fwf, iwf := hwf,
           fWait := h.fWait, fMet := h.fMet, iWait := ?_, iMet := ?_, unimplSound := h.unimplSound,
           part := ?_, qDem := ?_, solFmap := h.solFmap, fmapForm := h.fmapForm,
           formsLoaded := h.formsLoaded, specsForm := h.specsForm }
  · intro x k hw
    obtain ⟨hw', hnm⟩ := (hw1 x k).mp hw
    obtain ⟨a, c⟩ := h.iWait x k hw'
    refine ⟨a, ?_⟩
    rcases c with c | c
    · exact absurd c hnm
    · exact Or.inr c
  · intro x hx
    have : x ∈ idp.met := hx
    rw [hmet] at this; simp at this
  · intro k hk
    rcases h.part k hk with p | p | p | p | p | p
    · exact Or.inl p
    · exact Or.inr (Or.inl (List.mem_append_right _ p))
    · exact Or.inr (Or.inr (Or.inl p))
    · exact Or.inr (Or.inr (Or.inr (Or.inl p)))
    · obtain ⟨x, hx⟩ := p
      by_cases hmm : x ∈ s.ideps.met
      · exact Or.inr (Or.inl (List.mem_append_left _ ((hw2 k).mpr ⟨x, hmm, hx⟩)))
      · exact Or.inr (Or.inr (Or.inr (Or.inr (Or.inl ⟨x, (hw1 x k).mpr ⟨hx, hmm⟩⟩))))
    · exact Or.inr (Or.inr (Or.inr (Or.inr (Or.inr p))))
  · intro k hk
    rcases hk with hk | hk
    · exact h.qDem k (Or.inl hk)
    · rcases List.mem_append.mp hk with hk | hk
      · obtain ⟨x, _, hx⟩ := (hw2 k).mp hk
        exact (h.iWait x k hx).1
      · exact h.qDem k (Or.inr hk)

/-! ## the loops -/

/-- facts every sequence of line attempts preserves -/
structure AttemptsPost (s s' : St N I F V S) : Prop where
  le : StoreLe C s s'
  inp : s'.inp = s.inp
  imet : s'.ideps.met = s.ideps.met
  refused : s'.refused = s.refused

theorem AttemptsPost.refl (s : St N I F V S) : AttemptsPost (C := C) s s :=
  ⟨StoreLe.refl C s, rfl, rfl, rfl⟩

theorem AttemptsPost.trans {a b c : St N I F V S} (h1 : AttemptsPost (C := C) a b)
    (h2 : AttemptsPost (C := C) b c) : AttemptsPost (C := C) a c :=
  ⟨h1.le.trans C h2.le, by rw [h2.inp, h1.inp], by rw [h2.imet, h1.imet],
   by rw [h2.refused, h1.refused]⟩

theorem attemptAll_inv (hC : CatWF C) (hσ : SchedOK σ) :
    ∀ (ns : List N) {L : List N} {s s' : St N I F V S}, Inv C (ns ++ L) s →
      attemptAll C σ ns s = .ok s' → Inv C L s' ∧ AttemptsPost (C := C) s s' := by
  intro ns
  induction ns with
  | nil => intro L s s' hinv h; simp only [attemptAll] at h; cases h; exact ⟨hinv, AttemptsPost.refl s⟩
  | cons n ns ih =>
    intro L s s' hinv h
    simp only [attemptAll] at h
    cases ha : attemptField C σ specFuel s n with
    | error e => simp [ha] at h
    | ok s1 =>
      simp only [ha] at h
      obtain ⟨hinv1, a, b, c, d⟩ := attemptField_inv hC hσ specFuel (L := ns ++ L) hinv ha
      obtain ⟨hinv2, post⟩ := ih hinv1 h
      exact ⟨hinv2, AttemptsPost.trans ⟨a, b, c, d⟩ post⟩

theorem drainQueue_inv (hC : CatWF C) (hσ : SchedOK σ) (fuel : Nat) :
    ∀ {L : List N} {s s' : St N I F V S}, Inv C L s → drainQueue C σ fuel s = .ok (some s') →
      Inv C L s' ∧ s'.queue = [] ∧ AttemptsPost (C := C) s s' := by
  induction fuel with
  | zero => intro L s s' _ h; simp [drainQueue] at h
  | succ fuel ih =>
    intro L s s' hinv h
    simp only [drainQueue] at h
    cases hl : s.queue.getLast? with
    | none =>
      simp only [hl] at h
      cases h
      exact ⟨hinv, List.getLast?_eq_none_iff.mp hl, AttemptsPost.refl _⟩
    | some n =>
      simp only [hl] at h
      cases ha : attemptField C σ specFuel { s with queue := s.queue.dropLast } n with
      | error e => simp [ha] at h
      | ok s1 =>
        simp only [ha] at h
        obtain ⟨hinv1, a, b, c, d⟩ := attemptField_inv hC hσ specFuel (hinv.pop hl) ha
        obtain ⟨hinv2, hq, post⟩ := ih hinv1 h
        refine ⟨hinv2, hq, AttemptsPost.trans ?_ post⟩
        exact ⟨⟨a.v, a.i, a.f⟩, b, c, d⟩

/-- facts about the prompt loop -/
structure PromptsPost (s s' : St N I F V S) : Prop where
  le : StoreLe C s s'
  v : s'.v = s.v
  queue : s'.queue = s.queue
  fdeps : s'.fdeps = s.fdeps

theorem promptAll_inv {P : Nat → I → List N → Option S} :
    ∀ (xs : List I) {L : List N} {s s' : St N I F V S}, Inv C L s → xs.Nodup →
      (∀ x, x ∈ xs → x ∉ s.ideps.met ∧ x ∈ keys s.ideps.unmet) →
      promptAll C P xs s = .ok s' → Inv C L s' ∧ PromptsPost (C := C) s s' := by
  intro xs
  induction xs with
  | nil =>
    intro L s s' hinv _ _ h
    simp only [promptAll] at h; cases h
    exact ⟨hinv, StoreLe.refl C _, rfl, rfl, rfl⟩
  | cons x xs ih =>
    intro L s s' hinv hnd hxs h
    simp only [promptAll] at h
    cases ha : attemptInput C P s x with
    | error e => simp [ha] at h
    | ok s1 =>
      simp only [ha] at h
      obtain ⟨hx1, hx2⟩ := hxs x List.mem_cons_self
      obtain ⟨hinv1, post⟩ := attemptInput_inv hinv hx1 hx2 ha
      split at h
      · cases h
        exact ⟨hinv1, post.le, post.v, post.queue, post.fdeps⟩
      · rename_i href
        rcases post.cases with ⟨c, _⟩ | ⟨_, hmet, _⟩
        · exact absurd c href
        · have hnd' := List.nodup_cons.mp hnd
          obtain ⟨hinv2, post2⟩ := ih hinv1 hnd'.2 (by
            intro y hy
            obtain ⟨a, b⟩ := hxs y (List.mem_cons_of_mem _ hy)
            refine ⟨?_, by rw [post.unmet]; exact b⟩
            rw [hmet, List.mem_append, List.mem_singleton]
            rintro (h' | rfl)
            · exact a h'
            · exact hnd'.1 hy) h
          exact ⟨hinv2, post.le.trans C post2.le, by rw [post2.v, post.v],
            by rw [post2.queue, post.queue], by rw [post2.fdeps, post.fdeps]⟩

/-- One pass through the body of the outer `while` loop. -/
theorem iteration_inv (hC : CatWF C) (hσ : SchedOK σ) {P : Nat → I → List N → Option S}
    {qfuel : Nat} {s s' : St N I F V S} (hinv : Inv C [] s) (him : s.ideps.met = [])
    (h : iteration C σ P qfuel s = .ok (some s')) :
    Inv C [] s' ∧ s'.ideps.met = [] ∧ StoreLe C s s' := by
  unfold iteration at h
  cases hq : drainQueue C σ qfuel s with
  | error e => simp [hq] at h
  | ok o =>
    cases o with
    | none => simp [hq] at h
    | some s1 =>
      simp only [hq] at h
      obtain ⟨hinv1, hq1, post1⟩ := drainQueue_inv hC hσ qfuel hinv hq
      obtain ⟨ws, fd, hd, hfdm, hinvd⟩ := hinv1.drainF
      simp only [hd] at h
      cases ha : attemptAll C σ (σ.sortW ws) { s1 with fdeps := fd } with
      | error e => simp [ha] at h
      | ok s2 =>
        simp only [ha] at h
        have hinvd' : Inv C (σ.sortW ws ++ []) { s1 with fdeps := fd } :=
          hinvd.relist (fun n => by simp [(hσ.w ws).mem_iff])
        obtain ⟨hinv2, post2⟩ := attemptAll_inv hC hσ _ hinvd' ha
        have him2 : s2.ideps.met = [] := by rw [post2.imet]; show s1.ideps.met = []; rw [post1.imet]; exact him
        have hle12 : StoreLe C s s2 := post1.le.trans C ⟨post2.le.v, post2.le.i, post2.le.f⟩
        -- the prompt loop
        have hprompt : ∀ s3, (if s2.refused then Except.ok s2
            else promptAll C P (σ.sortI s2.ideps.unmetDependencies) s2) = Except.ok s3 →
            Inv C [] s3 ∧ StoreLe C s2 s3 := by
          intro s3 h3
          split at h3
          · cases h3; exact ⟨hinv2, StoreLe.refl C _⟩
          · have hnd : (σ.sortI s2.ideps.unmetDependencies).Nodup :=
              (hσ.i _).nodup_iff.mpr hinv2.iwf.nodup
            obtain ⟨a, b⟩ := promptAll_inv _ hinv2 hnd (by
              intro x hx
              rw [(hσ.i _).mem_iff] at hx
              exact ⟨by rw [him2]; simp, hx⟩) h3
            exact ⟨a, b.le⟩
        cases hp : (if s2.refused then Except.ok s2
            else promptAll C P (σ.sortI s2.ideps.unmetDependencies) s2) with
        | error e => simp [hp] at h
        | ok s3 =>
          simp only [hp] at h
          obtain ⟨hinv3, hle23⟩ := hprompt s3 hp
          obtain ⟨ws', idp, hd', hidm, hinvd3⟩ := hinv3.drainI
          simp only [hd'] at h
          cases ha' : attemptAll C σ (σ.sortR ws') { s3 with ideps := idp } with
          | error e => simp [ha'] at h
          | ok s4 =>
            simp only [ha'] at h
            cases h
            have hinvd3' : Inv C (σ.sortR ws' ++ []) { s3 with ideps := idp } :=
              hinvd3.relist (fun n => by simp [(hσ.r ws').mem_iff])
            obtain ⟨hinv4, post4⟩ := attemptAll_inv hC hσ _ hinvd3' ha'
            refine ⟨hinv4, by rw [post4.imet]; exact hidm, ?_⟩
            exact (hle12.trans C hle23).trans C ⟨post4.le.v, post4.le.i, post4.le.f⟩

theorem solveLoop_inv (hC : CatWF C) (hσ : SchedOK σ) {P : Nat → I → List N → Option S}
    {qfuel : Nat} (fuel : Nat) :
    ∀ {s s' : St N I F V S}, Inv C [] s → s.ideps.met = [] →
      solveLoop C σ P qfuel fuel s = .ok (some s') →
      Inv C [] s' ∧ loopCond s' = false ∧ StoreLe C s s' := by
  induction fuel with
  | zero => intro s s' _ _ h; simp [solveLoop] at h
  | succ fuel ih =>
    intro s s' hinv him h
    simp only [solveLoop] at h
    split at h
    · cases hi : iteration C σ P qfuel s with
      | error e => simp [hi] at h
      | ok o =>
        cases o with
        | none => simp [hi] at h
        | some s1 =>
          simp only [hi] at h
          obtain ⟨a, b, c⟩ := iteration_inv hC hσ hinv him hi
          obtain ⟨a', b', c'⟩ := ih a b h
          exact ⟨a', b', c.trans C c'⟩
    · rename_i hc
      cases h
      exact ⟨hinv, by simpa using hc, StoreLe.refl C _⟩

/-! ## the start -/

theorem initSt_inv (inp : List (I × S)) (b : Bool) : Inv C [] (initSt inp b : St N I F V S) := by
  refine { vSound := ?_, vDem := ?_, fwf := ⟨by simp [initSt, keys], by simp [initSt]⟩,
           iwf := ⟨by simp [initSt, keys], by simp [initSt]⟩,
           fWait := ?_, fMet := ?_, iWait := ?_, iMet := ?_, unimplSound := ?_, part := ?_,
           qDem := ?_, solFmap := ?_, fmapForm := ?_, formsLoaded := ?_, specsForm := ?_ }
  all_goals simp [initSt, St.vf, Waits, pairs, List.lookup]

theorem addForms_inv (hC : CatWF C) (hσ : SchedOK σ) :
    ∀ (fs : List F) {s s' : St N I F V S}, Inv C [] s → s.ideps.met = [] →
      addForms C σ fs s = .ok s' → Inv C [] s' ∧ s'.ideps.met = [] ∧ StoreLe C s s' := by
  intro fs
  induction fs with
  | nil => intro s s' hinv him h; simp only [addForms] at h; cases h; exact ⟨hinv, him, StoreLe.refl C _⟩
  | cons f fs ih =>
    intro s s' hinv him h
    simp only [addForms] at h
    cases ha : addForm C σ s f false with
    | error e => simp [ha] at h
    | ok s1 =>
      simp only [ha] at h
      obtain ⟨_, _, _, _, hid, _⟩ := addForm_ok ha
      obtain ⟨a, b, c⟩ := ih (addForm_inv hC hσ hinv ha) (by rw [hid]; exact him) h
      exact ⟨a, b, (addForm_storeLe ha).trans C c⟩

theorem addExtra_stores :
    ∀ (ns : List N) {s s' : St N I F V S}, addExtra σ ns s = .ok s' →
      s'.v = s.v ∧ s'.inp = s.inp ∧ s'.specs = s.specs ∧ s'.forms = s.forms := by
  intro ns
  induction ns with
  | nil => intro s s' h; simp only [addExtra] at h; cases h; exact ⟨rfl, rfl, rfl, rfl⟩
  | cons n ns ih =>
    intro s s' h
    simp only [addExtra] at h
    split at h
    · obtain ⟨a, b, c, d⟩ := ih h
      exact ⟨a, b, c, d⟩
    · simp at h

theorem addExtra_inv (hσ : SchedOK σ) :
    ∀ (ns : List N) {s s' : St N I F V S}, Inv C [] s → s.ideps.met = [] →
      addExtra σ ns s = .ok s' → Inv C [] s' ∧ s'.ideps.met = [] := by
  intro ns
  induction ns with
  | nil => intro s s' hinv him h; simp only [addExtra] at h; cases h; exact ⟨hinv, him⟩
  | cons n ns ih =>
    intro s s' hinv him h
    simp only [addExtra] at h
    split at h
    · rename_i hn
      have hsolmem : ∀ k, k ∈ (if n ∈ s.solving then s.solving else s.solving ++ [n]) ↔
          k ∈ s.solving ∨ k = n := by
        intro k
        split
        · rename_i hmem
          constructor
          · exact Or.inl
          · rintro (h | rfl)
            · exact h
            · exact hmem
        · simp
      refine ih ?_ ?_ h
      · refine hinv.frame rfl rfl rfl rfl rfl (fun _ h => h) (fun _ h => h)
          (fun k hk => (hsolmem k).mpr (Or.inl hk)) ?_ ?_ ?_ hinv.fmapForm ?_ hinv.specsForm
        · intro k hk
          rcases (hsolmem k).mp hk with hk | rfl
          · rcases hinv.part k hk with p | p
            · left
              show k ∈ σ.sortQ (s.queue ++ [n])
              rw [(hσ.q _).mem_iff]; exact List.mem_append_left _ p
            · exact Or.inr p
          · left
            show k ∈ σ.sortQ (s.queue ++ [k])
            rw [(hσ.q _).mem_iff]; simp
        · intro k hk
          apply (hsolmem k).mpr
          rcases hk with hk | hk
          · have hk' : k ∈ σ.sortQ (s.queue ++ [n]) := hk
            rw [(hσ.q _).mem_iff, List.mem_append, List.mem_singleton] at hk'
            rcases hk' with hk' | rfl
            · exact Or.inl (hinv.qDem k (Or.inl hk'))
            · exact Or.inr rfl
          · simp at hk
        · intro k hk
          rcases (hsolmem k).mp hk with hk | rfl
          · exact hinv.solFmap k hk
          · exact hn
        · intro f hf
          obtain ⟨a, b, c, d⟩ := hinv.formsLoaded f hf
          exact ⟨a, fun k hk => (hsolmem k).mpr (Or.inl (b k hk)), c, d⟩
      · exact him
    · simp at h

/-- **The invariant holds of whatever `solve` returns**, for every catalogue, schedule, prompt,
input store and request; and the loop has really run to its exit condition. -/
theorem solve_inv (hC : CatWF C) (hσ : SchedOK σ) {P : Option (Nat → I → List N → Option S)}
    {inp : List (I × S)} {forms : List F} {extra : List N} {fuel qfuel : Nat} {s : St N I F V S}
    (h : solve C σ P inp forms extra fuel qfuel = .ok (some s)) :
    Inv C [] s ∧ loopCond s = false ∧ StoreLe C (initSt inp P.isSome) s := by
  unfold solve at h
  cases h1 : addForms C σ forms (initSt inp P.isSome) with
  | error e => simp [h1] at h
  | ok s1 =>
    simp only [h1] at h
    cases h2 : addExtra σ extra s1 with
    | error e => simp [h2] at h
    | ok s2 =>
      simp only [h2] at h
      obtain ⟨a1, b1, c1⟩ := addForms_inv hC hσ forms (initSt_inv inp _) (by simp [initSt]) h1
      obtain ⟨a2, b2⟩ := addExtra_inv hσ extra a1 b1 h2
      obtain ⟨e1, e2, e3, e4⟩ := addExtra_stores extra h2
      have c2 : StoreLe C s1 s2 :=
        storeLe_of_grow e1 e2 (by rw [e3]; exact fun _ h => h) (by rw [e4]; exact fun _ h => h)
      obtain ⟨a3, b3, c3⟩ := solveLoop_inv hC hσ fuel a2 b2 h
      exact ⟨a3, b3, (c1.trans C c2).trans C c3⟩

end HabuVerif
