import HabuVerif.Py.F64
import Mathlib.Tactic.Linarith
import Mathlib.Tactic.Ring
/-!
# Order-theoretic facts about the binary64 model (`HabuVerif.F64`)

Everything is derived from two properties of `ofScaled` (IEEE round-to-nearest-even of a rational
`N / D` given in units of `2^-1074`): it is **monotone** in the rational it rounds (`R_mono`), and it is
**exact** on representable values (`ofScaled_exact`, `R_exact`).

Vocabulary
* `sval x : Int`  exact value of a finite `x` in units of `2^-1074`; `le/lt/eq` on finite values are
  the order of `sval` (`le_iff_sval` …), with no canonical-form hypothesis.
* `ev x : Int`    `sval` extended by `±2^1026` for `±inf`; `Out x` = "not nan and in range"; for `Out`
  values `le` is the order of `ev` (`le_iff_ev`).  Every operation returns `Out` values on finite
  arguments and `ev (op …) = R (exact result) D` (`add_spec`, `mul_spec`, `ev_roundN`, …), where
  `R S D` is the rounding of the signed rational `S / D`.
* `WF x`          canonical form (needed only for bit-for-bit statements such as `add_zero`).

Main results (the numbering follows the builder spec)
1. `roundN_mono`; 2. `roundN_neg`; 3. `roundN_zero`, `roundN_negZero`, `roundN_nonneg`, `roundN_nonpos`;
4. `roundN_idem_partial` (+ `roundN_idem_0/2/5`), `roundN_fixed`, `roundN_isFinite`;
5. `add_comm`, `mul_comm`, `add_zero`, `add_negZero`, `sub_zero`, `zero_add`, `zero_sub`, `add_zero_eq`,
   `zero_sub_eq`; 6. `add_mono(_right/2)`, `sub_mono_left`, `sub_anti_right`, `mul_mono_nonneg(_right)`,
   `add_nonneg`, `mul_nonneg`, `sub_nonneg`, `neg_anti`, `div_mono_pos`, `pyMax_mono`, `pyMin_mono`, …;
7. `sub_swap`.
Also: `le` is a total preorder on non-nan values (`le_refl/trans/total/antisymm`), bounds transfer from
exact integer arithmetic (`add_le_of_sval_le`, `mul_le_of_sval_le`, …, `isFinite_of_between`),
canonical forms are preserved (`wf_add`, `wf_mul`, `wf_roundN`, `wf_ofBits`), `ofBits`/`toBits` are
mutually inverse on canonical values, `ofInt_exact`, exact float↔int comparison (`ltInt_iff`, …).
-/

set_option linter.unusedTactic false
set_option linter.unreachableTactic false
set_option linter.unnecessarySeqFocus false
set_option linter.unusedSimpArgs false

namespace HabuVerif.F64

/-! ## A. `rneDiv` -/

theorem rneDiv_ge (num den : Nat) : num / den ≤ rneDiv num den := by
  unfold rneDiv; simp only; split <;> [skip; split <;> [skip; split]] <;> omega

theorem rneDiv_le (num den : Nat) : rneDiv num den ≤ num / den + 1 := by
  unfold rneDiv; simp only; split <;> [skip; split <;> [skip; split]] <;> omega

theorem rneDiv_mono (den : Nat) {a b : Nat} (h : a ≤ b) :
    rneDiv a den ≤ rneDiv b den := by
  have hq : a / den ≤ b / den := Nat.div_le_div_right h
  rcases Nat.lt_or_eq_of_le hq with hlt | heq
  · calc rneDiv a den ≤ a / den + 1 := rneDiv_le a den
      _ ≤ b / den := hlt
      _ ≤ rneDiv b den := rneDiv_ge b den
  · have ha := Nat.div_add_mod a den
    have hb := Nat.div_add_mod b den
    have hr : a % den ≤ b % den := by
      have : den * (a / den) + a % den ≤ den * (b / den) + b % den := by omega
      rw [heq] at this; omega
    unfold rneDiv; simp only [heq]
    repeat' split
    all_goals omega

theorem rneDiv_zero (den : Nat) : rneDiv 0 den = 0 := by
  unfold rneDiv; simp

theorem rneDiv_mul_right {c : Nat} (hc : 0 < c) (a b : Nat) :
    rneDiv (a * c) (b * c) = rneDiv a b := by
  unfold rneDiv
  simp only [Nat.mul_div_mul_right a b hc, Nat.mul_mod_mul_right]
  have h1 : 2 * (a % b * c) < b * c ↔ 2 * (a % b) < b := by
    rw [← Nat.mul_assoc]; exact Nat.mul_lt_mul_right hc
  have h2 : 2 * (a % b * c) > b * c ↔ 2 * (a % b) > b := by
    rw [← Nat.mul_assoc]; exact Nat.mul_lt_mul_right hc
  simp only [h1, h2]

/-- monotone in the rational `a / b` -/
theorem rneDiv_mono_cross {a b c d : Nat} (hb : 0 < b) (hd : 0 < d) (h : a * d ≤ c * b) :
    rneDiv a b ≤ rneDiv c d := by
  rw [← rneDiv_mul_right hd a b, ← rneDiv_mul_right hb c d, Nat.mul_comm d b]
  exact rneDiv_mono _ h

theorem rneDiv_exact {den : Nat} (hd : 0 < den) (k : Nat) : rneDiv (k * den) den = k := by
  unfold rneDiv
  simp [Nat.mul_div_cancel _ hd, hd]

theorem rneDiv_le_of_lt {a den u : Nat} (hd : 0 < den) (h : a < den * u) : rneDiv a den ≤ u := by
  have : a / den < u := by
    rw [Nat.div_lt_iff_lt_mul hd, Nat.mul_comm]; exact h
  have := rneDiv_le a den
  omega

theorem le_rneDiv_of_le {a den l : Nat} (hd : 0 < den) (h : den * l ≤ a) : l ≤ rneDiv a den := by
  have : l ≤ a / den := by
    rw [Nat.le_div_iff_mul_le hd, Nat.mul_comm]; exact h
  have := rneDiv_ge a den
  omega

/-- the rounding error is at most one half: `|rneDiv a d * d - a| ≤ d / 2`, stated without division -/
theorem rneDiv_err {a d : Nat} (hd : 0 < d) :
    2 * (rneDiv a d * d) ≤ 2 * a + d ∧ 2 * a ≤ 2 * (rneDiv a d * d) + d := by
  have h := Nat.div_add_mod a d
  have hm := Nat.mod_lt a hd
  have e1 : (a / d + 1) * d = d * (a / d) + d := by ring
  have e2 : (a / d) * d = d * (a / d) := by ring
  unfold rneDiv; simp only
  split
  · rw [e2]; omega
  · split
    · rw [e1]; omega
    · split
      · rw [e2]; omega
      · rw [e1]; omega

/-- anything strictly within one half of an integer rounds to it -/
theorem rneDiv_eq_of_near {a d k : Nat} (hd : 0 < d) (h1 : 2 * a < 2 * (k * d) + d)
    (h2 : 2 * (k * d) < 2 * a + d) : rneDiv a d = k := by
  have h := Nat.div_add_mod a d
  have hm := Nat.mod_lt a hd
  -- a = d*q + r
  generalize hq : a / d = q at h
  generalize hr : a % d = r at h hm
  have hkq : k = q ∨ k = q + 1 := by
    by_contra hne
    rcases Nat.lt_or_ge k q with hlt | hge
    · have : (k + 1) * d ≤ q * d := Nat.mul_le_mul_right d hlt
      have e : (k + 1) * d = k * d + d := by ring
      have e2 : q * d = d * q := by ring
      omega
    · have hk2 : q + 2 ≤ k := by omega
      have : (q + 2) * d ≤ k * d := Nat.mul_le_mul_right d hk2
      have e : (q + 2) * d = d * q + 2 * d := by ring
      omega
  unfold rneDiv; simp only [hq, hr]
  rcases hkq with rfl | rfl
  · have e2 : k * d = d * k := by ring
    have : 2 * r < d := by omega
    simp [this]
  · have e1 : (q + 1) * d = d * q + d := by ring
    have h3 : ¬ 2 * r < d := by omega
    have h4 : 2 * r > d := by omega
    simp [h3, h4]

/-! ## B. the binade selector `expo` -/

theorem log2_mono {a b : Nat} (h : a ≤ b) : a.log2 ≤ b.log2 := by
  by_cases ha : a = 0
  · subst ha; simp
  · have : a.log2 < b.log2 + 1 := by
      rw [Nat.log2_lt ha]
      exact Nat.lt_of_le_of_lt h Nat.lt_log2_self
    omega

theorem div_le_div_cross {a b c d : Nat} (hb : 0 < b) (hd : 0 < d) (h : a * d ≤ c * b) :
    a / b ≤ c / d := by
  rw [Nat.le_div_iff_mul_le hd]
  have h1 : a / b * b ≤ a := Nat.div_mul_le_self a b
  have h2 : a / b * d * b ≤ c * b := by
    calc a / b * d * b = a / b * b * d := by ring
      _ ≤ a * d := Nat.mul_le_mul_right d h1
      _ ≤ c * b := h
  exact Nat.le_of_mul_le_mul_right h2 hb

theorem expo_mono {a b c d : Nat} (hb : 0 < b) (hd : 0 < d) (h : a * d ≤ c * b) :
    expo a b ≤ expo c d := by
  unfold expo
  have := log2_mono (div_le_div_cross hb hd h)
  omega

theorem expo_upper {N D : Nat} (hD : 0 < D) : N < D * 2 ^ (53 + expo N D) := by
  unfold expo
  have h1 : N < D * (N / D + 1) := Nat.lt_mul_div_succ N hD
  have h2 : N / D < 2 ^ ((N / D).log2 + 1) := Nat.lt_log2_self
  have h3 : 2 ^ ((N / D).log2 + 1) ≤ 2 ^ (53 + ((N / D).log2 - 52)) :=
    Nat.pow_le_pow_right (by decide) (by omega)
  have h4 : N / D + 1 ≤ 2 ^ (53 + ((N / D).log2 - 52)) := by omega
  exact Nat.lt_of_lt_of_le h1 (Nat.mul_le_mul_left D h4)

theorem expo_lower {N D : Nat} (h : expo N D ≠ 0) : D * 2 ^ (52 + expo N D) ≤ N := by
  unfold expo at *
  have hq : N / D ≠ 0 := by
    intro h0; rw [h0] at h; simp at h
  have h1 : 2 ^ (N / D).log2 ≤ N / D := Nat.log2_self_le hq
  have h2 : 52 + ((N / D).log2 - 52) = (N / D).log2 := by omega
  rw [h2]
  calc D * 2 ^ (N / D).log2 ≤ D * (N / D) := Nat.mul_le_mul_left D h1
    _ ≤ N := Nat.mul_div_le N D

theorem log2_mul_pow {m : Nat} (hm : m ≠ 0) (e : Nat) : (m * 2 ^ e).log2 = m.log2 + e := by
  have hpos : 0 < 2 ^ e := Nat.two_pow_pos e
  have hne : m * 2 ^ e ≠ 0 := Nat.mul_ne_zero hm (by omega)
  rw [Nat.log2_eq_iff hne]
  constructor
  · rw [Nat.pow_add]; exact Nat.mul_le_mul_right _ (Nat.log2_self_le hm)
  · have : m < 2 ^ (m.log2 + 1) := Nat.lt_log2_self
    calc m * 2 ^ e < 2 ^ (m.log2 + 1) * 2 ^ e := Nat.mul_lt_mul_of_pos_right this hpos
      _ = 2 ^ (m.log2 + e + 1) := by rw [← Nat.pow_add]; congr 1; omega

/-- on a canonical pair the selector returns the stored exponent -/
theorem expo_exact {m e D : Nat} (hD : 0 < D) (hm : m < 2 ^ 53) (hn : 2 ^ 52 ≤ m ∨ e = 0) :
    expo (m * 2 ^ e * D) D = e := by
  unfold expo
  rw [Nat.mul_div_cancel _ hD]
  by_cases hm0 : m = 0
  · subst hm0
    rcases hn with h | h
    · omega
    · subst h; simp
  · rw [log2_mul_pow hm0]
    have hl : m.log2 < 53 := (Nat.log2_lt hm0).2 hm
    rcases hn with h | h
    · have : 52 ≤ m.log2 := by
        by_contra hc
        have : m.log2 < 52 := by omega
        have := (Nat.log2_lt hm0).1 this
        omega
      omega
    · subst h; omega

/-! ## C. the value of `ofScaled` -/

/-- magnitude (scaled units) that `ofScaled _ N D` rounds to, before overflow handling -/
def rs (N D : Nat) : Nat := rneDiv N (D * 2 ^ expo N D) * 2 ^ expo N D

/-- the first magnitude that is too large for a finite double: `2^1024` real units -/
def huge : Nat := 2 ^ (maxE + 53)
/-- the magnitude we assign to infinity in the extended value `ev` (`4 · huge`) -/
def infMag : Nat := 2 ^ (maxE + 55)
def clamp (v : Nat) : Nat := if v < huge then v else infMag

/-- extended exact value: finite values in scaled units, `±inf` as `±2^1026` real units -/
def ev : F64 → Int
  | finite neg m e => signed neg (m * 2 ^ e)
  | inf neg => signed neg infMag
  | nan => 0

/-- "looks like the output of an operation": not nan, and finite values are in range.
Every canonical non-nan value is `Out`, but so are non-canonical in-range triples.
(Irreducible so that the elaborator never tries to evaluate an operation to decide it.) -/
@[irreducible] def Out : F64 → Prop
  | finite _ m e => m * 2 ^ e < huge
  | inf _ => True
  | nan => False

theorem huge_eq1 : huge = 2 ^ 53 * 2 ^ maxE := by
  unfold huge; rw [Nat.pow_add, Nat.mul_comm]
theorem huge_eq2 : huge = 2 ^ 52 * 2 ^ (maxE + 1) := by
  unfold huge; rw [← Nat.pow_add]; congr 1
theorem huge_lt_infMag : huge < infMag := by
  unfold huge infMag; exact Nat.pow_lt_pow_right (by decide) (by omega)
theorem huge_pos : 0 < huge := by unfold huge; exact Nat.two_pow_pos _

theorem clamp_mono {a b : Nat} (h : a ≤ b) : clamp a ≤ clamp b := by
  unfold clamp
  have := huge_lt_infMag
  split <;> split <;> omega

theorem clamp_zero : clamp 0 = 0 := by
  have h : 0 < huge := huge_pos
  unfold clamp; rw [if_pos h]

theorem rneDiv_expo_le {N D : Nat} (hD : 0 < D) : rneDiv N (D * 2 ^ expo N D) ≤ 2 ^ 53 := by
  apply rneDiv_le_of_lt (Nat.mul_pos hD (Nat.two_pow_pos _))
  have := expo_upper (N := N) hD
  rw [Nat.pow_add, Nat.mul_comm (2 ^ 53), ← Nat.mul_assoc] at this
  exact this

theorem rneDiv_expo_ge {N D : Nat} (hD : 0 < D) (h : expo N D ≠ 0) :
    2 ^ 52 ≤ rneDiv N (D * 2 ^ expo N D) := by
  apply le_rneDiv_of_le (Nat.mul_pos hD (Nat.two_pow_pos _))
  have := expo_lower h
  rw [Nat.pow_add, Nat.mul_comm (2 ^ 52), ← Nat.mul_assoc] at this
  exact this

theorem rs_zero (D : Nat) : rs 0 D = 0 := by
  unfold rs; simp [rneDiv_zero]

theorem rs_mono {N1 D1 N2 D2 : Nat} (h1 : 0 < D1) (h2 : 0 < D2) (h : N1 * D2 ≤ N2 * D1) :
    rs N1 D1 ≤ rs N2 D2 := by
  have hj := expo_mono h1 h2 h
  unfold rs
  rcases Nat.lt_or_eq_of_le hj with hlt | heq
  · have hne : expo N2 D2 ≠ 0 := by omega
    have a1 := rneDiv_expo_le (N := N1) h1
    have a2 := rneDiv_expo_ge (N := N2) h2 hne
    calc rneDiv N1 (D1 * 2 ^ expo N1 D1) * 2 ^ expo N1 D1
        ≤ 2 ^ 53 * 2 ^ expo N1 D1 := Nat.mul_le_mul_right _ a1
      _ = 2 ^ (53 + expo N1 D1) := by rw [Nat.pow_add]
      _ ≤ 2 ^ (52 + expo N2 D2) := Nat.pow_le_pow_right (by decide) (by omega)
      _ = 2 ^ 52 * 2 ^ expo N2 D2 := by rw [Nat.pow_add]
      _ ≤ rneDiv N2 (D2 * 2 ^ expo N2 D2) * 2 ^ expo N2 D2 := Nat.mul_le_mul_right _ a2
  · rw [heq]
    apply Nat.mul_le_mul_right
    apply rneDiv_mono_cross (Nat.mul_pos h1 (Nat.two_pow_pos _)) (Nat.mul_pos h2 (Nat.two_pow_pos _))
    calc N1 * (D2 * 2 ^ expo N2 D2) = N1 * D2 * 2 ^ expo N2 D2 := by ring
      _ ≤ N2 * D1 * 2 ^ expo N2 D2 := Nat.mul_le_mul_right _ h
      _ = N2 * (D1 * 2 ^ expo N2 D2) := by ring

theorem signed_neg_flip (n : Bool) (a : Nat) : signed (!n) a = - signed n a := by
  cases n <;> simp [signed]

theorem ev_mk_small {neg : Bool} {m e : Nat} (h : e ≤ maxE) : mk neg m e = finite neg m e := by
  unfold mk; simp; omega

theorem ev_mk_big {neg : Bool} {m e : Nat} (h : maxE < e) : mk neg m e = inf neg := by
  unfold mk; simp [h]

theorem ofScaled_def (neg : Bool) (N D : Nat) :
    ofScaled neg N D =
      if rneDiv N (D * 2 ^ expo N D) = 2 ^ 53 then mk neg (2 ^ 52) (expo N D + 1)
      else mk neg (rneDiv N (D * 2 ^ expo N D)) (expo N D) := by
  unfold ofScaled; rfl

/-- value and range of the rounding primitive -/
theorem ofScaled_spec (neg : Bool) {N D : Nat} (hD : 0 < D) :
    ev (ofScaled neg N D) = signed neg (clamp (rs N D)) ∧ Out (ofScaled neg N D) := by
  have hle := rneDiv_expo_le (N := N) hD
  have hge := rneDiv_expo_ge (N := N) hD
  rw [ofScaled_def]
  unfold rs
  generalize expo N D = j at *
  generalize rneDiv N (D * 2 ^ j) = m at *
  by_cases hm : m = 2 ^ 53
  · subst hm
    rw [if_pos rfl]
    have e1 : 2 ^ 52 * 2 ^ (j + 1) = 2 ^ 53 * 2 ^ j := by
      rw [← Nat.pow_add, ← Nat.pow_add]; congr 1; omega
    by_cases hj : j + 1 ≤ maxE
    · rw [ev_mk_small hj]
      have hlt : 2 ^ 53 * 2 ^ j < huge := by
        unfold huge; rw [← Nat.pow_add]
        apply Nat.pow_lt_pow_right (by decide)
        omega
      simp only [ev, Out, e1, clamp, hlt, if_true, and_self]
    · rw [ev_mk_big (by omega)]
      have hge' : ¬ 2 ^ 53 * 2 ^ j < huge := by
        rw [huge_eq1]
        have : 2 ^ maxE ≤ 2 ^ j := Nat.pow_le_pow_right (by decide) (by omega)
        have := Nat.mul_le_mul_left (2 ^ 53) this
        omega
      simp only [ev, Out, clamp, hge', if_false, and_self]
  · rw [if_neg hm]
    have hm' : m < 2 ^ 53 := by omega
    by_cases hj : j ≤ maxE
    · rw [ev_mk_small hj]
      have hlt : m * 2 ^ j < huge := by
        rw [huge_eq1]
        have : 2 ^ j ≤ 2 ^ maxE := Nat.pow_le_pow_right (by decide) hj
        calc m * 2 ^ j ≤ m * 2 ^ maxE := Nat.mul_le_mul_left m this
          _ < 2 ^ 53 * 2 ^ maxE := Nat.mul_lt_mul_of_pos_right hm' (Nat.two_pow_pos _)
      simp only [ev, Out, clamp, hlt, if_true, and_self]
    · rw [ev_mk_big (by omega)]
      have hj0 : j ≠ 0 := by omega
      have hge' : ¬ m * 2 ^ j < huge := by
        rw [huge_eq2]
        have h1 : 2 ^ (maxE + 1) ≤ 2 ^ j := Nat.pow_le_pow_right (by decide) (by omega)
        have := Nat.mul_le_mul (hge hj0) h1
        omega
      simp only [ev, Out, clamp, hge', if_false, and_self]

theorem ev_ofScaled (neg : Bool) {N D : Nat} (hD : 0 < D) :
    ev (ofScaled neg N D) = signed neg (clamp (rs N D)) := (ofScaled_spec neg hD).1

theorem out_ofScaled (neg : Bool) {N D : Nat} (hD : 0 < D) : Out (ofScaled neg N D) :=
  (ofScaled_spec neg hD).2

/-- rounding is exact on canonical values -/
theorem ofScaled_exact {neg : Bool} {m e D : Nat} (hD : 0 < D) (h : WF (finite neg m e)) :
    ofScaled neg (m * 2 ^ e * D) D = finite neg m e := by
  obtain ⟨hm, he, hn⟩ := (wf_finite_iff ..).1 h
  rw [ofScaled_def, expo_exact hD hm hn]
  have : m * 2 ^ e * D = m * (D * 2 ^ e) := by ring
  rw [this, rneDiv_exact (Nat.mul_pos hD (Nat.two_pow_pos _))]
  have hne : m ≠ 2 ^ 53 := by omega
  rw [if_neg hne]
  exact ev_mk_small he

/-! ## D. signed exact values, and comparisons in terms of them -/

theorem signed_mul (n : Bool) (a c : Nat) : signed n (a * c) = signed n a * (c : Int) := by
  cases n <;> simp [signed]

theorem signed_false (a : Nat) : signed false a = (a : Int) := rfl
theorem signed_true (a : Nat) : signed true a = -(a : Int) := rfl

theorem signed_natAbs (n : Bool) (a : Nat) : (signed n a).natAbs = a := by
  cases n <;> simp [signed]

theorem signed_lt_zero (n : Bool) (a : Nat) : signed n a < 0 ↔ n = true ∧ 0 < a := by
  cases n <;> simp [signed]

/-- monotone maps that fix 0 act monotonically on signed magnitudes -/
theorem signed_map_mono (f : Nat → Nat) (hf : ∀ a b, a ≤ b → f a ≤ f b) (h0 : f 0 = 0)
    {n1 n2 : Bool} {a b : Nat} (h : signed n1 a ≤ signed n2 b) :
    signed n1 (f a) ≤ signed n2 (f b) := by
  cases n1 <;> cases n2 <;> simp only [signed, Bool.false_eq_true, if_false, if_true] at *
  · exact_mod_cast hf a b (by exact_mod_cast h)
  · have ha : a = 0 := by omega
    have hb : b = 0 := by omega
    subst ha; subst hb; simp [h0]
  · have := hf 0 a (Nat.zero_le _); omega
  · have := hf b a (by omega); omega

theorem pow_split (e1 e2 : Nat) : 2 ^ (e1 - min e1 e2) * 2 ^ (min e1 e2) = 2 ^ e1 := by
  rw [← Nat.pow_add]; congr 1; omega

theorem aligned_fst (n1 : Bool) (m1 e1 : Nat) (n2 : Bool) (m2 e2 : Nat) :
    (aligned n1 m1 e1 n2 m2 e2).1 * ((2 ^ min e1 e2 : Nat) : Int) = signed n1 (m1 * 2 ^ e1) := by
  unfold aligned; simp only
  rw [← signed_mul, Nat.mul_assoc, pow_split]

theorem aligned_snd (n1 : Bool) (m1 e1 : Nat) (n2 : Bool) (m2 e2 : Nat) :
    (aligned n1 m1 e1 n2 m2 e2).2 * ((2 ^ min e1 e2 : Nat) : Int) = signed n2 (m2 * 2 ^ e2) := by
  unfold aligned; simp only
  rw [← signed_mul, Nat.mul_assoc, Nat.min_comm, pow_split]

theorem two_pow_pos_int (k : Nat) : (0 : Int) < ((2 ^ k : Nat) : Int) := by
  exact_mod_cast Nat.two_pow_pos k

theorem le_finite_iff (n1 : Bool) (m1 e1 : Nat) (n2 : Bool) (m2 e2 : Nat) :
    le (finite n1 m1 e1) (finite n2 m2 e2) = true ↔
      signed n1 (m1 * 2 ^ e1) ≤ signed n2 (m2 * 2 ^ e2) := by
  rw [← aligned_fst n1 m1 e1 n2 m2 e2, ← aligned_snd n1 m1 e1 n2 m2 e2]
  have hc := two_pow_pos_int (min e1 e2)
  simp only [le, decide_eq_true_eq]
  constructor
  · intro h; exact Int.mul_le_mul_of_nonneg_right h (Int.le_of_lt hc)
  · intro h; exact Int.le_of_mul_le_mul_right h hc

theorem lt_finite_iff (n1 : Bool) (m1 e1 : Nat) (n2 : Bool) (m2 e2 : Nat) :
    lt (finite n1 m1 e1) (finite n2 m2 e2) = true ↔
      signed n1 (m1 * 2 ^ e1) < signed n2 (m2 * 2 ^ e2) := by
  rw [← aligned_fst n1 m1 e1 n2 m2 e2, ← aligned_snd n1 m1 e1 n2 m2 e2]
  have hc := two_pow_pos_int (min e1 e2)
  simp only [lt, decide_eq_true_eq]
  constructor
  · intro h; exact Int.mul_lt_mul_of_pos_right h hc
  · intro h; exact Int.lt_of_mul_lt_mul_right h (Int.le_of_lt hc)

theorem eq_finite_iff (n1 : Bool) (m1 e1 : Nat) (n2 : Bool) (m2 e2 : Nat) :
    eq (finite n1 m1 e1) (finite n2 m2 e2) = true ↔
      signed n1 (m1 * 2 ^ e1) = signed n2 (m2 * 2 ^ e2) := by
  rw [← aligned_fst n1 m1 e1 n2 m2 e2, ← aligned_snd n1 m1 e1 n2 m2 e2]
  have hc := two_pow_pos_int (min e1 e2)
  simp only [eq, decide_eq_true_eq]
  constructor
  · intro h; rw [h]
  · intro h; exact Int.eq_of_mul_eq_mul_right (by omega) h

theorem exists_finite {x : F64} (hx : x.isFinite = true) : ∃ n m e, x = finite n m e := by
  cases x with
  | finite n m e => exact ⟨n, m, e, rfl⟩
  | inf _ => simp [isFinite] at hx
  | nan => simp [isFinite] at hx

/-- on finite values the comparisons are those of the exact values -/
theorem le_iff_sval {x y : F64} (hx : x.isFinite = true) (hy : y.isFinite = true) :
    le x y = true ↔ sval x ≤ sval y := by
  cases x <;> cases y <;> simp [isFinite] at hx hy
  exact le_finite_iff ..

theorem lt_iff_sval {x y : F64} (hx : x.isFinite = true) (hy : y.isFinite = true) :
    lt x y = true ↔ sval x < sval y := by
  cases x <;> cases y <;> simp [isFinite] at hx hy
  exact lt_finite_iff ..

theorem eq_iff_sval {x y : F64} (hx : x.isFinite = true) (hy : y.isFinite = true) :
    eq x y = true ↔ sval x = sval y := by
  cases x <;> cases y <;> simp [isFinite] at hx hy
  exact eq_finite_iff ..

theorem ev_finite (n : Bool) (m e : Nat) : ev (finite n m e) = sval (finite n m e) := rfl

theorem ev_eq_sval {x : F64} (hx : x.isFinite = true) : ev x = sval x := by
  cases x <;> simp [isFinite] at hx
  rfl

theorem signed_bounds (n : Bool) (a : Nat) : -(a : Int) ≤ signed n a ∧ signed n a ≤ (a : Int) := by
  cases n <;> simp [signed] <;> omega

/-- for in-range values, `le` is the order of the extended values -/
theorem le_iff_ev {x y : F64} (hx : Out x) (hy : Out y) : le x y = true ↔ ev x ≤ ev y := by
  have hh := huge_lt_infMag
  cases x with
  | nan => exact absurd hx (by simp [Out])
  | inf n1 =>
    cases y with
    | nan => exact absurd hy (by simp [Out])
    | inf n2 => cases n1 <;> cases n2 <;> simp [le, ev, signed] <;> omega
    | finite n2 m2 e2 =>
      simp only [Out] at hy
      simp only [ev]
      have hb := signed_bounds n2 (m2 * 2 ^ e2)
      generalize signed n2 (m2 * 2 ^ e2) = s at *
      generalize m2 * 2 ^ e2 = M at *
      cases n1 <;> simp [le, signed] <;> omega
  | finite n1 m1 e1 =>
    cases y with
    | nan => exact absurd hy (by simp [Out])
    | inf n2 =>
      simp only [Out] at hx
      simp only [ev]
      have hb := signed_bounds n1 (m1 * 2 ^ e1)
      generalize signed n1 (m1 * 2 ^ e1) = s at *
      generalize m1 * 2 ^ e1 = M at *
      cases n2 <;> simp [le, signed] <;> omega
    | finite n2 m2 e2 => exact le_finite_iff ..

/-- for in-range values, `eq` is equality of the extended values -/
theorem eq_iff_ev {x y : F64} (hx : Out x) (hy : Out y) : eq x y = true ↔ ev x = ev y := by
  have hh := huge_lt_infMag
  have hpos : 0 < huge := huge_pos
  cases x with
  | nan => exact absurd hx (by simp [Out])
  | inf n1 =>
    cases y with
    | nan => exact absurd hy (by simp [Out])
    | inf n2 => cases n1 <;> cases n2 <;> simp [eq, ev, signed] <;> omega
    | finite n2 m2 e2 =>
      simp only [Out] at hy
      simp only [ev]
      have hb := signed_bounds n2 (m2 * 2 ^ e2)
      generalize signed n2 (m2 * 2 ^ e2) = s at *
      generalize m2 * 2 ^ e2 = M at *
      cases n1 <;> simp [eq, signed] <;> omega
  | finite n1 m1 e1 =>
    cases y with
    | nan => exact absurd hy (by simp [Out])
    | inf n2 =>
      simp only [Out] at hx
      simp only [ev]
      have hb := signed_bounds n1 (m1 * 2 ^ e1)
      generalize signed n1 (m1 * 2 ^ e1) = s at *
      generalize m1 * 2 ^ e1 = M at *
      cases n2 <;> simp [eq, signed] <;> omega
    | finite n2 m2 e2 => exact eq_finite_iff ..

/-! ### signed rounding in the extended-value domain -/

/-- the extended value of the rounding of the signed rational `S / D` -/
def R (S : Int) (D : Nat) : Int :=
  if S < 0 then -(clamp (rs S.natAbs D) : Int) else (clamp (rs S.natAbs D) : Int)

theorem ev_ofScaled_R (neg : Bool) {N D : Nat} (hD : 0 < D) :
    ev (ofScaled neg N D) = R (signed neg N) D := by
  rw [ev_ofScaled neg hD]
  unfold R
  rw [signed_natAbs]
  cases neg
  · simp [signed]
  · by_cases hN : N = 0
    · subst hN; simp [signed, rs_zero, clamp_zero]
    · have : signed true N < 0 := by simp [signed]; omega
      rw [if_pos this]; rfl

theorem R_zero (D : Nat) : R 0 D = 0 := by
  unfold R; simp [rs_zero, clamp_zero]

theorem R_nonneg {S : Int} (h : 0 ≤ S) (D : Nat) : 0 ≤ R S D := by
  unfold R; rw [if_neg (by omega)]; omega

theorem R_nonpos {S : Int} (h : S ≤ 0) (D : Nat) : R S D ≤ 0 := by
  unfold R
  by_cases h0 : S < 0
  · rw [if_pos h0]; omega
  · have : S = 0 := by omega
    subst this; simp [rs_zero, clamp_zero]

theorem R_neg (S : Int) (D : Nat) : R (-S) D = -R S D := by
  by_cases h0 : S = 0
  · subst h0; simp [R_zero]
  · unfold R
    rw [Int.natAbs_neg]
    by_cases hneg : S < 0
    · rw [if_pos hneg, if_neg (by omega)]; omega
    · rw [if_neg hneg, if_pos (by omega)]

/-- **Rounding is monotone**: `S1/D1 ≤ S2/D2` implies `round (S1/D1) ≤ round (S2/D2)`. -/
theorem R_mono {S1 S2 : Int} {D1 D2 : Nat} (h1 : 0 < D1) (h2 : 0 < D2)
    (h : S1 * D2 ≤ S2 * D1) : R S1 D1 ≤ R S2 D2 := by
  by_cases n1 : S1 < 0
  · by_cases n2 : S2 < 0
    · unfold R; rw [if_pos n1, if_pos n2]
      have : rs S2.natAbs D2 ≤ rs S1.natAbs D1 := by
        apply rs_mono h2 h1
        have e1 : (S1.natAbs : Int) = -S1 := by omega
        have e2 : (S2.natAbs : Int) = -S2 := by omega
        have : ((S2.natAbs * D1 : Nat) : Int) ≤ ((S1.natAbs * D2 : Nat) : Int) := by
          rw [Int.natCast_mul, Int.natCast_mul, e1, e2]; linarith
        exact_mod_cast this
      have := clamp_mono this
      omega
    · exact Int.le_trans (R_nonpos (by omega) D1) (R_nonneg (by omega) D2)
  · by_cases n2 : S2 < 0
    · exfalso
      have a : 0 ≤ S1 * D2 := Int.mul_nonneg (by omega) (by omega)
      have b : S2 * D1 < 0 := Int.mul_neg_of_neg_of_pos n2 (by omega)
      omega
    · unfold R; rw [if_neg n1, if_neg n2]
      have : rs S1.natAbs D1 ≤ rs S2.natAbs D2 := by
        apply rs_mono h1 h2
        have e1 : (S1.natAbs : Int) = S1 := by omega
        have e2 : (S2.natAbs : Int) = S2 := by omega
        have : ((S1.natAbs * D2 : Nat) : Int) ≤ ((S2.natAbs * D1 : Nat) : Int) := by
          rw [Int.natCast_mul, Int.natCast_mul, e1, e2]; exact h
        exact_mod_cast this
      have := clamp_mono this
      omega

/-! ## E. `round(x, n)` -/

theorem one_pos : 0 < one := by unfold one; exact Nat.two_pow_pos 1074

theorem neg_mk (s : Bool) (m e : Nat) : neg (mk s m e) = mk (!s) m e := by
  unfold mk; split <;> rfl

theorem neg_ofScaled (s : Bool) (N D : Nat) : neg (ofScaled s N D) = ofScaled (!s) N D := by
  rw [ofScaled_def, ofScaled_def]; split <;> exact neg_mk ..

theorem neg_neg (x : F64) : neg (neg x) = x := by
  cases x <;> simp [neg]

theorem sval_neg (x : F64) : sval (neg x) = -sval x := by
  cases x <;> simp [neg, sval, signed_neg_flip]

theorem isFinite_neg (x : F64) : (neg x).isFinite = x.isFinite := by
  cases x <;> rfl

theorem roundN_finite_def (s : Bool) (m e n : Nat) (hn : ¬ n > 323) :
    roundN (finite s m e) n = ofScaled s (rneDiv (m * 2 ^ e * 10 ^ n) one * one) (10 ^ n) := by
  unfold roundN; simp only [if_neg hn]

/-- 2. `round(-x, n) = -round(x, n)`, bit for bit, for every `x` (including ±0, ±inf, nan) -/
theorem roundN_neg (x : F64) (n : Nat) : roundN (neg x) n = neg (roundN x n) := by
  cases x with
  | nan => rfl
  | inf s => rfl
  | finite s m e =>
    by_cases hn : n > 323
    · unfold roundN neg; simp only [if_pos hn]
    · show roundN (finite (!s) m e) n = _
      rw [roundN_finite_def _ _ _ _ hn, roundN_finite_def _ _ _ _ hn, neg_ofScaled]

theorem ten_pow_pos (n : Nat) : 0 < 10 ^ n := Nat.pos_pow_of_pos' n
  where Nat.pos_pow_of_pos' (n : Nat) : 0 < 10 ^ n := Nat.pow_pos (by decide)

theorem ev_roundN (s : Bool) (m e n : Nat) (hn : ¬ n > 323) :
    ev (roundN (finite s m e) n) =
      R (signed s (rneDiv (m * 2 ^ e * 10 ^ n) one * one)) (10 ^ n) := by
  rw [roundN_finite_def s m e n hn, ev_ofScaled_R _ (ten_pow_pos n)]

theorem out_roundN {x : F64} (hx : Out x) (n : Nat) : Out (roundN x n) := by
  cases x with
  | nan => exact hx
  | inf s => exact hx
  | finite s m e =>
    by_cases hn : n > 323
    · unfold roundN; simp only [if_pos hn]; exact hx
    · rw [roundN_finite_def s m e n hn]; exact out_ofScaled _ (ten_pow_pos n)

theorem roundN_isNaN {x : F64} (hx : x.isFinite = true) (n : Nat) : (roundN x n).isNaN = false := by
  cases x with
  | nan => simp [isFinite] at hx
  | inf s => simp [isFinite] at hx
  | finite s m e =>
    by_cases hn : n > 323
    · unfold roundN; simp only [if_pos hn]; rfl
    · have := out_ofScaled s (N := rneDiv (m * 2 ^ e * 10 ^ n) one * one) (ten_pow_pos n)
      rw [roundN_finite_def s m e n hn]
      revert this
      cases ofScaled s (rneDiv (m * 2 ^ e * 10 ^ n) one * one) (10 ^ n) <;> simp [Out, isNaN]

/-- 1. **`round(·, n)` is monotone** on finite doubles (the results may be ±inf only in the sense
that `le` also orders infinities; for `n ≥ 0` they never are). -/
theorem roundN_mono {x y : F64} (hx : x.isFinite = true) (hy : y.isFinite = true) (n : Nat)
    (h : le x y = true) : le (roundN x n) (roundN y n) = true := by
  cases x with
  | nan => simp [isFinite] at hx
  | inf s => simp [isFinite] at hx
  | finite s1 m1 e1 =>
  cases y with
  | nan => simp [isFinite] at hy
  | inf s => simp [isFinite] at hy
  | finite s2 m2 e2 =>
    by_cases hn : n > 323
    · unfold roundN; simp only [if_pos hn]; exact h
    · rw [le_finite_iff] at h
      have ho1 : Out (roundN (finite s1 m1 e1) n) := by
        rw [roundN_finite_def _ _ _ _ hn]; exact out_ofScaled _ (ten_pow_pos n)
      have ho2 : Out (roundN (finite s2 m2 e2) n) := by
        rw [roundN_finite_def _ _ _ _ hn]; exact out_ofScaled _ (ten_pow_pos n)
      rw [le_iff_ev ho1 ho2, ev_roundN _ _ _ _ hn, ev_roundN _ _ _ _ hn]
      apply R_mono (ten_pow_pos n) (ten_pow_pos n)
      apply Int.mul_le_mul_of_nonneg_right _ (by exact_mod_cast Nat.zero_le _)
      apply signed_map_mono (fun a => rneDiv (a * 10 ^ n) one * one) _ _ h
      · intro a b hab
        exact Nat.mul_le_mul_right _ (rneDiv_mono _ (Nat.mul_le_mul_right _ hab))
      · simp [rneDiv_zero]

theorem expo_zero (D : Nat) : expo 0 D = 0 := by unfold expo; simp

theorem ofScaled_zero (s : Bool) (D : Nat) : ofScaled s 0 D = finite s 0 0 := by
  rw [ofScaled_def, expo_zero, rneDiv_zero]
  have : (0 : Nat) ≠ 2 ^ 53 := Nat.ne_of_lt (Nat.two_pow_pos 53)
  rw [if_neg this]
  exact ev_mk_small (Nat.zero_le _)

/-- 3a. `round(0.0, n) = 0.0` and `round(-0.0, n) = -0.0`, bit for bit -/
theorem roundN_zero (n : Nat) : roundN zero n = zero := by
  unfold roundN zero; simp only
  split
  · rfl
  · simp [rneDiv_zero, ofScaled_zero]

theorem roundN_negZero (n : Nat) : roundN negZero n = negZero := by
  unfold roundN negZero; simp only
  split
  · rfl
  · simp [rneDiv_zero, ofScaled_zero]

/-- 3b. `0 ≤ x → 0 ≤ round(x, n)` -/
theorem roundN_nonneg {x : F64} (hx : x.isFinite = true) (n : Nat) (h : le zero x = true) :
    le zero (roundN x n) = true := by
  have := roundN_mono (x := zero) (y := x) rfl hx n h
  rwa [roundN_zero] at this

/-- `x ≤ 0 → round(x, n) ≤ 0` -/
theorem roundN_nonpos {x : F64} (hx : x.isFinite = true) (n : Nat) (h : le x zero = true) :
    le (roundN x n) zero = true := by
  have := roundN_mono (x := x) (y := zero) hx rfl n h
  rwa [roundN_zero] at this

/-! ## F. addition, subtraction, multiplication -/

theorem signed_decide_natAbs (s : Int) : signed (decide (s < 0)) s.natAbs = s := by
  unfold signed
  by_cases h : s < 0
  · rw [decide_eq_true h, if_pos rfl]; omega
  · rw [decide_eq_false h, if_neg (by decide)]; omega

theorem add_finite_def (n1 : Bool) (m1 e1 : Nat) (n2 : Bool) (m2 e2 : Nat) :
    add (finite n1 m1 e1) (finite n2 m2 e2) =
      if (aligned n1 m1 e1 n2 m2 e2).1 + (aligned n1 m1 e1 n2 m2 e2).2 = 0 then finite (n1 && n2) 0 0
      else ofScaled (decide ((aligned n1 m1 e1 n2 m2 e2).1 + (aligned n1 m1 e1 n2 m2 e2).2 < 0))
        (((aligned n1 m1 e1 n2 m2 e2).1 + (aligned n1 m1 e1 n2 m2 e2).2).natAbs * 2 ^ min e1 e2) 1 := rfl

theorem aligned_sum (n1 : Bool) (m1 e1 : Nat) (n2 : Bool) (m2 e2 : Nat) :
    ((aligned n1 m1 e1 n2 m2 e2).1 + (aligned n1 m1 e1 n2 m2 e2).2) * ((2 ^ min e1 e2 : Nat) : Int)
      = signed n1 (m1 * 2 ^ e1) + signed n2 (m2 * 2 ^ e2) := by
  rw [Int.add_mul, aligned_fst, aligned_snd]

/-- the exact-value description of `+` on finite operands: round the exact sum -/
theorem add_spec (n1 : Bool) (m1 e1 : Nat) (n2 : Bool) (m2 e2 : Nat) :
    ev (add (finite n1 m1 e1) (finite n2 m2 e2))
        = R (signed n1 (m1 * 2 ^ e1) + signed n2 (m2 * 2 ^ e2)) 1
      ∧ Out (add (finite n1 m1 e1) (finite n2 m2 e2)) := by
  rw [add_finite_def, ← aligned_sum]
  generalize (aligned n1 m1 e1 n2 m2 e2).1 + (aligned n1 m1 e1 n2 m2 e2).2 = s
  by_cases hs : s = 0
  · subst hs
    have hpos : 0 < huge := huge_pos
    simp [ev, Out, signed, R_zero, hpos]
  · rw [if_neg hs]
    refine ⟨?_, out_ofScaled _ (by decide)⟩
    rw [ev_ofScaled_R _ (by decide), signed_mul, signed_decide_natAbs]

theorem ev_add {x y : F64} (hx : x.isFinite = true) (hy : y.isFinite = true) :
    ev (add x y) = R (sval x + sval y) 1 := by
  cases x <;> cases y <;> simp [isFinite] at hx hy
  exact (add_spec ..).1

theorem out_add {x y : F64} (hx : x.isFinite = true) (hy : y.isFinite = true) : Out (add x y) := by
  cases x <;> cases y <;> simp [isFinite] at hx hy
  exact (add_spec ..).2

theorem ev_sub {x y : F64} (hx : x.isFinite = true) (hy : y.isFinite = true) :
    ev (sub x y) = R (sval x - sval y) 1 := by
  unfold sub
  rw [ev_add hx (by rw [isFinite_neg]; exact hy), sval_neg, Int.sub_eq_add_neg]

theorem out_sub {x y : F64} (hx : x.isFinite = true) (hy : y.isFinite = true) : Out (sub x y) :=
  out_add hx (by rw [isFinite_neg]; exact hy)

/-- 5. `x + y = y + x`, bit for bit, for all `x y` (including nan/inf/±0) -/
theorem add_comm (x y : F64) : add x y = add y x := by
  cases x with
  | nan => cases y <;> rfl
  | inf a =>
    cases y with
    | nan => rfl
    | inf b => cases a <;> cases b <;> rfl
    | finite => rfl
  | finite n1 m1 e1 =>
    cases y with
    | nan => rfl
    | inf b => rfl
    | finite n2 m2 e2 =>
      unfold add
      simp only [Nat.min_comm e2 e1, Int.add_comm (signed n2 _), Bool.and_comm n2 n1]

theorem signed_mul_signed (n1 n2 : Bool) (a b : Nat) :
    signed (n1 != n2) (a * b) = signed n1 a * signed n2 b := by
  cases n1 <;> cases n2 <;> simp [signed]

theorem mul_finite_def (n1 : Bool) (m1 e1 : Nat) (n2 : Bool) (m2 e2 : Nat) :
    mul (finite n1 m1 e1) (finite n2 m2 e2) = ofScaled (n1 != n2) (m1 * m2 * 2 ^ (e1 + e2)) one := rfl

/-- the exact-value description of `*` on finite operands: round the exact product
(the product of two scaled values has to be divided by `one = 2^1074`) -/
theorem mul_spec (n1 : Bool) (m1 e1 : Nat) (n2 : Bool) (m2 e2 : Nat) :
    ev (mul (finite n1 m1 e1) (finite n2 m2 e2))
        = R (signed n1 (m1 * 2 ^ e1) * signed n2 (m2 * 2 ^ e2)) one
      ∧ Out (mul (finite n1 m1 e1) (finite n2 m2 e2)) := by
  rw [mul_finite_def]
  refine ⟨?_, out_ofScaled _ one_pos⟩
  have e : m1 * m2 * 2 ^ (e1 + e2) = m1 * 2 ^ e1 * (m2 * 2 ^ e2) := by
    rw [Nat.pow_add]; ring
  rw [ev_ofScaled_R _ one_pos, ← signed_mul_signed, e]

theorem ev_mul {x y : F64} (hx : x.isFinite = true) (hy : y.isFinite = true) :
    ev (mul x y) = R (sval x * sval y) one := by
  obtain ⟨n1, m1, e1, rfl⟩ := exists_finite hx
  obtain ⟨n2, m2, e2, rfl⟩ := exists_finite hy
  exact (mul_spec n1 m1 e1 n2 m2 e2).1

theorem out_mul {x y : F64} (hx : x.isFinite = true) (hy : y.isFinite = true) : Out (mul x y) := by
  obtain ⟨n1, m1, e1, rfl⟩ := exists_finite hx
  obtain ⟨n2, m2, e2, rfl⟩ := exists_finite hy
  exact (mul_spec n1 m1 e1 n2 m2 e2).2

/-- 5. `x * y = y * x`, bit for bit, for all `x y` -/
theorem mul_comm (x y : F64) : mul x y = mul y x := by
  cases x with
  | nan => cases y <;> rfl
  | inf a =>
    cases y with
    | nan => rfl
    | inf b => cases a <;> cases b <;> rfl
    | finite b m e => unfold mul; cases a <;> cases b <;> rfl
  | finite n1 m1 e1 =>
    cases y with
    | nan => rfl
    | inf b => unfold mul; cases n1 <;> cases b <;> rfl
    | finite n2 m2 e2 =>
      rw [mul_finite_def, mul_finite_def, Nat.mul_comm m2 m1, Nat.add_comm e2 e1]
      cases n1 <;> cases n2 <;> rfl

theorem sval_zero : sval zero = 0 := by simp [sval, zero, signed]

/-- 6. `x ≤ y → x + z ≤ y + z` (finite operands; the sums may overflow to ±inf, which `le` orders) -/
theorem add_mono {x y z : F64} (hx : x.isFinite = true) (hy : y.isFinite = true)
    (hz : z.isFinite = true) (h : le x y = true) : le (add x z) (add y z) = true := by
  rw [le_iff_sval hx hy] at h
  rw [le_iff_ev (out_add hx hz) (out_add hy hz), ev_add hx hz, ev_add hy hz]
  apply R_mono (by decide) (by decide)
  omega

theorem add_mono_right {x y z : F64} (hx : x.isFinite = true) (hy : y.isFinite = true)
    (hz : z.isFinite = true) (h : le x y = true) : le (add z x) (add z y) = true := by
  rw [add_comm z x, add_comm z y]; exact add_mono hx hy hz h

/-- both arguments at once -/
theorem add_mono2 {x y z w : F64} (hx : x.isFinite = true) (hy : y.isFinite = true)
    (hz : z.isFinite = true) (hw : w.isFinite = true) (h1 : le x y = true) (h2 : le z w = true) :
    le (add x z) (add y w) = true := by
  rw [le_iff_sval hx hy] at h1
  rw [le_iff_sval hz hw] at h2
  rw [le_iff_ev (out_add hx hz) (out_add hy hw), ev_add hx hz, ev_add hy hw]
  apply R_mono (by decide) (by decide)
  omega

theorem neg_anti {x y : F64} (hx : x.isFinite = true) (hy : y.isFinite = true)
    (h : le x y = true) : le (neg y) (neg x) = true := by
  rw [le_iff_sval hx hy] at h
  rw [le_iff_sval (by rw [isFinite_neg]; exact hy) (by rw [isFinite_neg]; exact hx), sval_neg, sval_neg]
  omega

/-- 6. `x ≤ y → x - z ≤ y - z` -/
theorem sub_mono_left {x y z : F64} (hx : x.isFinite = true) (hy : y.isFinite = true)
    (hz : z.isFinite = true) (h : le x y = true) : le (sub x z) (sub y z) = true :=
  add_mono hx hy (by rw [isFinite_neg]; exact hz) h

/-- 6. `y ≤ z → x - z ≤ x - y` -/
theorem sub_anti_right {x y z : F64} (hx : x.isFinite = true) (hy : y.isFinite = true)
    (hz : z.isFinite = true) (h : le y z = true) : le (sub x z) (sub x y) = true :=
  add_mono_right (by rw [isFinite_neg]; exact hz) (by rw [isFinite_neg]; exact hy) hx
    (neg_anti hy hz h)

/-- 6. `0 ≤ c → x ≤ y → c * x ≤ c * y` -/
theorem mul_mono_nonneg {c x y : F64} (hc : c.isFinite = true) (hx : x.isFinite = true)
    (hy : y.isFinite = true) (h0 : le zero c = true) (h : le x y = true) :
    le (mul c x) (mul c y) = true := by
  rw [le_iff_sval rfl hc, sval_zero] at h0
  rw [le_iff_sval hx hy] at h
  rw [le_iff_ev (out_mul hc hx) (out_mul hc hy), ev_mul hc hx, ev_mul hc hy]
  apply R_mono one_pos one_pos
  apply Int.mul_le_mul_of_nonneg_right _ (by exact_mod_cast Nat.zero_le _)
  exact Int.mul_le_mul_of_nonneg_left h h0

theorem mul_mono_nonneg_right {c x y : F64} (hc : c.isFinite = true) (hx : x.isFinite = true)
    (hy : y.isFinite = true) (h0 : le zero c = true) (h : le x y = true) :
    le (mul x c) (mul y c) = true := by
  rw [mul_comm x c, mul_comm y c]; exact mul_mono_nonneg hc hx hy h0 h

theorem ev_zero : ev zero = 0 := by simp [ev, zero, signed]
theorem out_zero : Out zero := by
  have hpos : 0 < huge := huge_pos
  simp [Out, zero, hpos]

/-- 6. `0 ≤ x → 0 ≤ y → 0 ≤ x + y` -/
theorem add_nonneg {x y : F64} (hx : x.isFinite = true) (hy : y.isFinite = true)
    (h1 : le zero x = true) (h2 : le zero y = true) : le zero (add x y) = true := by
  rw [le_iff_sval rfl hx, sval_zero] at h1
  rw [le_iff_sval rfl hy, sval_zero] at h2
  rw [le_iff_ev out_zero (out_add hx hy), ev_add hx hy, ev_zero]
  exact R_nonneg (by omega) 1

/-- 6. `0 ≤ x → 0 ≤ y → 0 ≤ x * y` -/
theorem mul_nonneg {x y : F64} (hx : x.isFinite = true) (hy : y.isFinite = true)
    (h1 : le zero x = true) (h2 : le zero y = true) : le zero (mul x y) = true := by
  rw [le_iff_sval rfl hx, sval_zero] at h1
  rw [le_iff_sval rfl hy, sval_zero] at h2
  rw [le_iff_ev out_zero (out_mul hx hy), ev_mul hx hy, ev_zero]
  exact R_nonneg (Int.mul_nonneg h1 h2) one

/-- `y ≤ x → 0 ≤ x - y` -/
theorem sub_nonneg {x y : F64} (hx : x.isFinite = true) (hy : y.isFinite = true)
    (h : le y x = true) : le zero (sub x y) = true := by
  rw [le_iff_sval hy hx] at h
  rw [le_iff_ev out_zero (out_sub hx hy), ev_sub hx hy, ev_zero]
  exact R_nonneg (by omega) 1

theorem ev_neg (x : F64) : ev (neg x) = -ev x := by
  cases x <;> simp [neg, ev, signed_neg_flip]

theorem out_neg {x : F64} (h : Out x) : Out (neg x) := by
  cases x <;> simp only [Out, neg] at h ⊢ <;> exact h

/-- 7. `x - y = -(y - x)` numerically (`==`); they differ only in the sign of a zero result -/
theorem sub_swap {x y : F64} (hx : x.isFinite = true) (hy : y.isFinite = true) :
    eq (sub x y) (neg (sub y x)) = true := by
  rw [eq_iff_ev (out_sub hx hy) (out_neg (out_sub hy hx)), ev_neg, ev_sub hx hy, ev_sub hy hx, ← R_neg]
  congr 1; omega

/-! ## G. zero laws (exactness of rounding) -/

theorem add_finite_signedZero (n : Bool) (m e : Nat) (n' : Bool) :
    add (finite n m e) (finite n' 0 0) =
      if m = 0 then finite (n && n') 0 0 else ofScaled n (m * 2 ^ e * 1) 1 := by
  rw [add_finite_def]
  have h1 : (aligned n m e n' 0 0).1 + (aligned n m e n' 0 0).2 = signed n (m * 2 ^ e) := by
    simp [aligned, signed]
  rw [h1]
  by_cases hm : m = 0
  · subst hm; simp [signed]
  · have hpos : 0 < m * 2 ^ e := Nat.mul_pos (by omega) (Nat.two_pow_pos e)
    have hne : signed n (m * 2 ^ e) ≠ 0 := by
      cases n <;> simp [signed] <;> omega
    rw [if_neg hne, if_neg hm, signed_natAbs]
    have hs : decide (signed n (m * 2 ^ e) < 0) = n := by
      cases n <;> simp [signed] <;> omega
    rw [hs]; simp

/-- `x + (-0.0) = x`, bit for bit, for every canonical `x` -/
theorem add_negZero {x : F64} (hx : WF x) : add x negZero = x := by
  cases x with
  | nan => rfl
  | inf s => rfl
  | finite n m e =>
    unfold negZero
    rw [add_finite_signedZero]
    by_cases hm : m = 0
    · subst hm
      obtain ⟨_, _, h⟩ := (wf_finite_iff ..).1 hx
      have : e = 0 := by
        rcases h with h | h
        · exact absurd h (by decide)
        · exact h
      subst this; simp
    · rw [if_neg hm]; exact ofScaled_exact (by decide) hx

/-- 5. `x - 0.0 = x`, bit for bit, for every canonical `x` -/
theorem sub_zero {x : F64} (hx : WF x) : sub x zero = x := add_negZero hx

/-- 5. `x + 0.0 = x`, bit for bit, for every canonical `x` except `-0.0` (where the sum is `+0.0`) -/
theorem add_zero {x : F64} (hx : WF x) (hnz : x ≠ negZero) : add x zero = x := by
  cases x with
  | nan => rfl
  | inf s => rfl
  | finite n m e =>
    unfold zero
    rw [add_finite_signedZero]
    by_cases hm : m = 0
    · subst hm
      obtain ⟨_, _, h⟩ := (wf_finite_iff ..).1 hx
      have : e = 0 := by
        rcases h with h | h
        · exact absurd h (by decide)
        · exact h
      subst this
      cases n
      · simp
      · exact absurd rfl hnz
    · rw [if_neg hm]; exact ofScaled_exact (by decide) hx

theorem add_zero_negZero : add negZero zero = zero := by decide

theorem zero_add {x : F64} (hx : WF x) (hnz : x ≠ negZero) : add zero x = x := by
  rw [add_comm]; exact add_zero hx hnz

theorem wf_neg {x : F64} (hx : WF x) : WF (neg x) := by
  cases x <;> exact hx

/-- 5. `0.0 - x = -x`, bit for bit, for every canonical `x` except `+0.0` (where `0.0 - 0.0 = +0.0`) -/
theorem zero_sub {x : F64} (hx : WF x) (hnz : x ≠ zero) : sub zero x = neg x := by
  unfold sub
  apply zero_add (wf_neg hx)
  intro h
  apply hnz
  have := congrArg neg h
  rw [neg_neg] at this
  rw [this]; rfl

theorem out_of_wf {x : F64} (hx : WF x) (hn : x.isNaN = false) : Out x := by
  cases x with
  | nan => simp [isNaN] at hn
  | inf s => simp [Out]
  | finite n m e =>
    obtain ⟨h1, h2, _⟩ := (wf_finite_iff ..).1 hx
    simp only [Out]
    rw [huge_eq1]
    have : 2 ^ e ≤ 2 ^ maxE := Nat.pow_le_pow_right (by decide) h2
    exact Nat.lt_of_le_of_lt (Nat.mul_le_mul_left m this)
      (Nat.mul_lt_mul_of_pos_right h1 (Nat.two_pow_pos _))

theorem ev_negZero : ev negZero = 0 := by simp [ev, negZero, signed]

/-- 5. numerically (`==`), `x + 0.0 == x` for every canonical finite `x` -/
theorem add_zero_eq {x : F64} (hx : WF x) (hf : x.isFinite = true) : eq (add x zero) x = true := by
  by_cases h : x = negZero
  · subst h; decide
  · rw [add_zero hx h]
    obtain ⟨n, m, e, rfl⟩ := exists_finite hf
    rw [eq_finite_iff]

/-- 5. numerically (`==`), `0.0 - x == -x` for every canonical finite `x` -/
theorem zero_sub_eq {x : F64} (hx : WF x) (hf : x.isFinite = true) :
    eq (sub zero x) (neg x) = true := by
  by_cases h : x = zero
  · subst h; decide
  · rw [zero_sub hx h]
    obtain ⟨n, m, e, rfl⟩ := exists_finite hf
    simp only [neg]
    rw [eq_finite_iff]

/-! ### canonical form is preserved -/

theorem wf_inf (s : Bool) : WF (inf s) := rfl
theorem wf_nan : WF nan := rfl

theorem wf_mk {s : Bool} {m e : Nat} (hm : m < 2 ^ 53) (hn : 2 ^ 52 ≤ m ∨ e = 0) : WF (mk s m e) := by
  by_cases h : maxE < e
  · rw [ev_mk_big h]; exact wf_inf s
  · rw [ev_mk_small (by omega)]
    exact (wf_finite_iff ..).2 ⟨hm, by omega, hn⟩

theorem wf_ofScaled (s : Bool) {N D : Nat} (hD : 0 < D) : WF (ofScaled s N D) := by
  have hle := rneDiv_expo_le (N := N) hD
  have hge := rneDiv_expo_ge (N := N) hD
  rw [ofScaled_def]
  by_cases hm : rneDiv N (D * 2 ^ expo N D) = 2 ^ 53
  · rw [if_pos hm]
    exact wf_mk (by decide) (Or.inl (Nat.le_refl _))
  · rw [if_neg hm]
    apply wf_mk (by omega)
    by_cases hj : expo N D = 0
    · exact Or.inr hj
    · exact Or.inl (hge hj)

theorem wf_ite {c : Prop} [Decidable c] {a b : F64} (ha : WF a) (hb : WF b) :
    WF (if c then a else b) := by
  split <;> assumption

theorem wf_add (x y : F64) : WF (add x y) := by
  cases x with
  | nan => cases y <;> exact wf_nan
  | inf a =>
    cases y with
    | nan => exact wf_nan
    | inf b =>
      show WF (if a = b then inf a else nan)
      exact wf_ite (wf_inf a) wf_nan
    | finite => exact wf_inf a
  | finite n1 m1 e1 =>
    cases y with
    | nan => exact wf_nan
    | inf b => exact wf_inf b
    | finite n2 m2 e2 =>
      rw [add_finite_def]
      exact wf_ite rfl (wf_ofScaled _ (by decide))

theorem wf_sub (x y : F64) : WF (sub x y) := wf_add x (neg y)

theorem wf_mul (x y : F64) : WF (mul x y) := by
  cases x with
  | nan => cases y <;> exact wf_nan
  | inf a =>
    cases y with
    | nan => exact wf_nan
    | inf b => exact wf_inf _
    | finite b m e =>
      show WF (if m = 0 then nan else inf (a != b))
      exact wf_ite wf_nan (wf_inf _)
  | finite n1 m1 e1 =>
    cases y with
    | nan => exact wf_nan
    | inf b =>
      show WF (if m1 = 0 then nan else inf (n1 != b))
      exact wf_ite wf_nan (wf_inf _)
    | finite n2 m2 e2 => rw [mul_finite_def]; exact wf_ofScaled _ one_pos

theorem wf_roundN {x : F64} (hx : WF x) (n : Nat) : WF (roundN x n) := by
  cases x with
  | nan => exact wf_nan
  | inf a => exact wf_inf a
  | finite s m e =>
    by_cases hn : n > 323
    · unfold roundN; simp only [if_pos hn]; exact hx
    · rw [roundN_finite_def _ _ _ _ hn]; exact wf_ofScaled _ (ten_pow_pos n)

theorem wf_abs {x : F64} (hx : WF x) : WF (abs x) := by
  cases x <;> exact hx

/-! ## H. `le` is a total preorder on non-nan values; `max`/`min` -/

theorem isNaN_of_isFinite {x : F64} (h : x.isFinite = true) : x.isNaN = false := by
  cases x <;> simp_all [isFinite, isNaN]

theorem le_refl {x : F64} (h : x.isNaN = false) : le x x = true := by
  cases x with
  | nan => simp [isNaN] at h
  | inf a => cases a <;> rfl
  | finite n m e => rw [le_finite_iff]

theorem le_trans {x y z : F64} (h1 : le x y = true) (h2 : le y z = true) : le x z = true := by
  rcases x with ⟨n1, m1, e1⟩ | ⟨_ | _⟩ | _ <;> rcases y with ⟨n2, m2, e2⟩ | ⟨_ | _⟩ | _ <;>
    rcases z with ⟨n3, m3, e3⟩ | ⟨_ | _⟩ | _ <;>
    first
      | (rw [le_finite_iff] at h1 h2 ⊢; omega)
      | (simp [le] at h1; done)
      | (simp [le] at h2; done)
      | (simp [le]; done)

theorem le_total {x y : F64} (hx : x.isNaN = false) (hy : y.isNaN = false) :
    le x y = true ∨ le y x = true := by
  rcases x with ⟨n1, m1, e1⟩ | ⟨_ | _⟩ | _ <;> rcases y with ⟨n2, m2, e2⟩ | ⟨_ | _⟩ | _ <;>
    first
      | (rw [le_finite_iff, le_finite_iff]; omega)
      | (simp [isNaN] at hx; done)
      | (simp [isNaN] at hy; done)
      | (simp [le]; done)

/-- for non-nan values `x < y` is `¬ (y ≤ x)` -/
theorem lt_eq_not_le {x y : F64} (hx : x.isNaN = false) (hy : y.isNaN = false) :
    lt x y = !le y x := by
  rcases x with ⟨n1, m1, e1⟩ | ⟨_ | _⟩ | _ <;> rcases y with ⟨n2, m2, e2⟩ | ⟨_ | _⟩ | _ <;>
    first
      | (simp [isNaN] at hx; done)
      | (simp [isNaN] at hy; done)
      | (simp [le, lt]; done)
      | skip
  have h1 := lt_finite_iff n1 m1 e1 n2 m2 e2
  have h2 := le_finite_iff n2 m2 e2 n1 m1 e1
  cases hl : lt (finite n1 m1 e1) (finite n2 m2 e2) <;>
    cases hr : le (finite n2 m2 e2) (finite n1 m1 e1) <;> simp_all <;> omega

theorem le_of_lt {x y : F64} (h : lt x y = true) : le x y = true := by
  rcases x with ⟨n1, m1, e1⟩ | ⟨_ | _⟩ | _ <;> rcases y with ⟨n2, m2, e2⟩ | ⟨_ | _⟩ | _ <;>
    first
      | (rw [lt_finite_iff] at h; rw [le_finite_iff]; omega)
      | (simp [lt] at h; done)
      | (simp [le]; done)

theorem le_antisymm {x y : F64} (h1 : le x y = true) (h2 : le y x = true) : eq x y = true := by
  rcases x with ⟨n1, m1, e1⟩ | ⟨_ | _⟩ | _ <;> rcases y with ⟨n2, m2, e2⟩ | ⟨_ | _⟩ | _ <;>
    first
      | (rw [le_finite_iff] at h1 h2; rw [eq_finite_iff]; omega)
      | (simp [le] at h1; done)
      | (simp [le] at h2; done)
      | (simp [eq]; done)

theorem le_of_eq {x y : F64} (h : eq x y = true) : le x y = true := by
  rcases x with ⟨n1, m1, e1⟩ | ⟨_ | _⟩ | _ <;> rcases y with ⟨n2, m2, e2⟩ | ⟨_ | _⟩ | _ <;>
    first
      | (rw [eq_finite_iff] at h; rw [le_finite_iff]; omega)
      | (simp [eq] at h; done)
      | (simp [le]; done)

theorem eq_refl {x : F64} (h : x.isNaN = false) : eq x x = true := le_antisymm (le_refl h) (le_refl h)

theorem eq_symm {x y : F64} (h : eq x y = true) : eq y x = true := by
  rcases x with ⟨n1, m1, e1⟩ | ⟨_ | _⟩ | _ <;> rcases y with ⟨n2, m2, e2⟩ | ⟨_ | _⟩ | _ <;>
    first
      | (rw [eq_finite_iff] at h ⊢; omega)
      | (simp [eq] at h; done)
      | (simp [eq]; done)

theorem pyMax_eq {x y : F64} (hx : x.isNaN = false) (hy : y.isNaN = false) :
    pyMax x y = if le y x = true then x else y := by
  unfold pyMax
  rw [lt_eq_not_le hx hy]
  cases le y x <;> simp

theorem pyMin_eq {x y : F64} (hx : x.isNaN = false) (hy : y.isNaN = false) :
    pyMin x y = if le x y = true then x else y := by
  unfold pyMin
  rw [lt_eq_not_le hy hx]
  cases le x y <;> simp

theorem pyMax_isNaN {x y : F64} (hx : x.isNaN = false) (hy : y.isNaN = false) :
    (pyMax x y).isNaN = false := by
  unfold pyMax; split <;> assumption

theorem pyMin_isNaN {x y : F64} (hx : x.isNaN = false) (hy : y.isNaN = false) :
    (pyMin x y).isNaN = false := by
  unfold pyMin; split <;> assumption

theorem pyMax_isFinite {x y : F64} (hx : x.isFinite = true) (hy : y.isFinite = true) :
    (pyMax x y).isFinite = true := by
  unfold pyMax; split <;> assumption

theorem pyMin_isFinite {x y : F64} (hx : x.isFinite = true) (hy : y.isFinite = true) :
    (pyMin x y).isFinite = true := by
  unfold pyMin; split <;> assumption

theorem le_pyMax_left {x y : F64} (hx : x.isNaN = false) (hy : y.isNaN = false) :
    le x (pyMax x y) = true := by
  rw [pyMax_eq hx hy]
  split
  · exact le_refl hx
  · next h => rcases le_total hx hy with h' | h'
              · exact h'
              · exact absurd h' h

theorem le_pyMax_right {x y : F64} (hx : x.isNaN = false) (hy : y.isNaN = false) :
    le y (pyMax x y) = true := by
  rw [pyMax_eq hx hy]
  split
  · next h => exact h
  · exact le_refl hy

theorem pyMax_le {x y z : F64} (h1 : le x z = true) (h2 : le y z = true) :
    le (pyMax x y) z = true := by
  unfold pyMax; split <;> assumption

theorem pyMin_le_left {x y : F64} (hx : x.isNaN = false) (hy : y.isNaN = false) :
    le (pyMin x y) x = true := by
  rw [pyMin_eq hx hy]
  split
  · exact le_refl hx
  · next h => rcases le_total hx hy with h' | h'
              · exact absurd h' h
              · exact h'

theorem pyMin_le_right {x y : F64} (hx : x.isNaN = false) (hy : y.isNaN = false) :
    le (pyMin x y) y = true := by
  rw [pyMin_eq hx hy]
  split
  · next h => exact h
  · exact le_refl hy

theorem le_pyMin {x y z : F64} (h1 : le z x = true) (h2 : le z y = true) :
    le z (pyMin x y) = true := by
  unfold pyMin; split <;> assumption

/-- `max` is monotone in both arguments -/
theorem pyMax_mono {x y x' y' : F64}
    (hx' : x'.isNaN = false) (hy' : y'.isNaN = false) (h1 : le x x' = true) (h2 : le y y' = true) :
    le (pyMax x y) (pyMax x' y') = true :=
  pyMax_le (le_trans h1 (le_pyMax_left hx' hy')) (le_trans h2 (le_pyMax_right hx' hy'))

/-- `min` is monotone in both arguments -/
theorem pyMin_mono {x y x' y' : F64} (hx : x.isNaN = false) (hy : y.isNaN = false)
    (h1 : le x x' = true) (h2 : le y y' = true) :
    le (pyMin x y) (pyMin x' y') = true :=
  le_pyMin (le_trans (pyMin_le_left hx hy) h1) (le_trans (pyMin_le_right hx hy) h2)

/-! ## I. `round(round(x, n), n) = round(x, n)` -/

set_option exponentiation.threshold 2000 in
theorem ten_pow_323_lt_one : 10 ^ 323 < one := by unfold one; decide

theorem ten_pow_lt_one {n : Nat} (hn : ¬ n > 323) : 10 ^ n < one :=
  Nat.lt_of_le_of_lt (Nat.pow_le_pow_right (by decide) (by omega)) ten_pow_323_lt_one

set_option exponentiation.threshold 2000 in
theorem lt_of_pow_lt_one {j : Nat} (h : 2 ^ j < one) : j < 1074 := by
  by_contra hc
  have h2 : (1074 : Nat) ≤ j := by omega
  have : one ≤ 2 ^ j := by unfold one; exact Nat.pow_le_pow_right (by decide) h2
  omega

theorem pow52_succ (j : Nat) : 2 ^ 52 * 2 ^ (j + 1) = 2 ^ 53 * 2 ^ j := by
  rw [← Nat.pow_add, ← Nat.pow_add]; congr 1; omega

/-- the rounded value of `k·10^-n` as an explicit canonical triple, when `k < 2^52` -/
theorem ofScaled_decimal_small (s : Bool) {k n : Nat} (hn : ¬ n > 323) (hk : k < 2 ^ 52) :
    ∃ m j, ofScaled s (k * one) (10 ^ n) = finite s m j ∧
      rneDiv (m * 2 ^ j * 10 ^ n) one = k := by
  have hD := ten_pow_pos n
  have hle := rneDiv_expo_le (N := k * one) hD
  -- the binade is fine enough: 10^n * 2^j < 2^1074
  have hj : 10 ^ n * 2 ^ expo (k * one) (10 ^ n) < one := by
    by_cases h0 : expo (k * one) (10 ^ n) = 0
    · rw [h0]; simpa using ten_pow_lt_one hn
    · have h1 := expo_lower h0
      have h2 : k * one < 2 ^ 52 * one := Nat.mul_lt_mul_of_pos_right hk one_pos
      have h3 : 10 ^ n * 2 ^ (52 + expo (k * one) (10 ^ n))
          = 2 ^ 52 * (10 ^ n * 2 ^ expo (k * one) (10 ^ n)) := by rw [Nat.pow_add]; ring
      rw [h3] at h1
      exact Nat.lt_of_mul_lt_mul_left (Nat.lt_of_le_of_lt h1 h2)
  have hjlt : expo (k * one) (10 ^ n) < 1074 := by
    have h1 : 2 ^ expo (k * one) (10 ^ n) ≤ 10 ^ n * 2 ^ expo (k * one) (10 ^ n) :=
      Nat.le_mul_of_pos_left _ hD
    have h2 : 2 ^ expo (k * one) (10 ^ n) < one := Nat.lt_of_le_of_lt h1 hj
    exact lt_of_pow_lt_one h2
  have herr := rneDiv_err (a := k * one) (Nat.mul_pos hD (Nat.two_pow_pos (expo (k * one) (10 ^ n))))
  -- rounding the rounded value back to n decimals gives k again
  have hback : rneDiv (rneDiv (k * one) (10 ^ n * 2 ^ expo (k * one) (10 ^ n))
      * 2 ^ expo (k * one) (10 ^ n) * 10 ^ n) one = k := by
    apply rneDiv_eq_of_near one_pos
    · have e : rneDiv (k * one) (10 ^ n * 2 ^ expo (k * one) (10 ^ n))
          * 2 ^ expo (k * one) (10 ^ n) * 10 ^ n
          = rneDiv (k * one) (10 ^ n * 2 ^ expo (k * one) (10 ^ n))
            * (10 ^ n * 2 ^ expo (k * one) (10 ^ n)) := by ring
      rw [e]; omega
    · have e : rneDiv (k * one) (10 ^ n * 2 ^ expo (k * one) (10 ^ n))
          * 2 ^ expo (k * one) (10 ^ n) * 10 ^ n
          = rneDiv (k * one) (10 ^ n * 2 ^ expo (k * one) (10 ^ n))
            * (10 ^ n * 2 ^ expo (k * one) (10 ^ n)) := by ring
      rw [e]; omega
  rw [ofScaled_def]
  by_cases hm : rneDiv (k * one) (10 ^ n * 2 ^ expo (k * one) (10 ^ n)) = 2 ^ 53
  · rw [if_pos hm, ev_mk_small (by unfold maxE; omega)]
    refine ⟨_, _, rfl, ?_⟩
    rw [hm] at hback
    rw [pow52_succ]; exact hback
  · rw [if_neg hm, ev_mk_small (by unfold maxE; omega)]
    refine ⟨_, _, rfl, ?_⟩
    exact hback

/-- 4. `round(·, n)` is idempotent whenever the scaled integer `round(|x|·10^n)` is below `2^52`
(for such values the decimal grid `10^-n` is coarser than the binary grid around the result). -/
theorem roundN_idem_of_small (s : Bool) (m e n : Nat)
    (hk : rneDiv (m * 2 ^ e * 10 ^ n) one < 2 ^ 52) :
    roundN (roundN (finite s m e) n) n = roundN (finite s m e) n := by
  by_cases hn : n > 323
  · unfold roundN; simp only [if_pos hn]
  · rw [roundN_finite_def _ _ _ _ hn]
    obtain ⟨m', j, h1, h2⟩ := ofScaled_decimal_small s hn hk
    rw [h1, roundN_finite_def _ _ _ _ hn, h2]
    exact h1

/-- 4. `round(round(x, n), n) = round(x, n)` for finite `x` with `|x| < 2^p` where
`10^n · 2^p ≤ 2^51`; e.g. `n ≤ 2, p = 44` or `n = 5, p = 34`.

Full statement (NOT proved here; believed true, see the report: no counterexample in 4·10^6 random and
boundary-targeted CPython trials for `n ∈ {0,…,323}`, and a pen-and-paper argument):
`theorem roundN_idem {x : F64} (hx : x.isFinite = true) (hw : WF x) (n : Nat) :
    roundN (roundN x n) n = roundN x n`
What is missing is the "coarse" regime `ulp(x)·10^n ≥ 1`, where `round(·, n)` moves a double by less
than half an ulp and one needs the uniqueness of the nearest double rather than `k' = k`. -/
theorem roundN_idem_partial {x : F64} (hx : x.isFinite = true) (n p : Nat) (hp : 10 ^ n * 2 ^ p ≤ 2 ^ 51)
    (hlt : (sval x).natAbs < 2 ^ p * one) : roundN (roundN x n) n = roundN x n := by
  obtain ⟨s, m, e, rfl⟩ := exists_finite hx
  apply roundN_idem_of_small
  simp only [sval, signed_natAbs] at hlt
  have h1 : m * 2 ^ e * 10 ^ n < one * 2 ^ 51 := by
    calc m * 2 ^ e * 10 ^ n < 2 ^ p * one * 10 ^ n :=
          Nat.mul_lt_mul_of_pos_right hlt (ten_pow_pos n)
      _ = one * (10 ^ n * 2 ^ p) := by ring
      _ ≤ one * 2 ^ 51 := Nat.mul_le_mul_left _ hp
  have := rneDiv_le_of_lt one_pos h1
  have h52 : (2 : Nat) ^ 51 < 2 ^ 52 := by decide
  omega

/-- 4. the instances asked for: `n ∈ {0, 2}` with `|x| < 2^40`, `n = 5` with `|x| < 2^34` -/
theorem roundN_idem_0 {x : F64} (hx : x.isFinite = true) (h : (sval x).natAbs < 2 ^ 40 * one) :
    roundN (roundN x 0) 0 = roundN x 0 := by
  refine roundN_idem_partial hx 0 40 (by decide) h

theorem roundN_idem_2 {x : F64} (hx : x.isFinite = true) (h : (sval x).natAbs < 2 ^ 40 * one) :
    roundN (roundN x 2) 2 = roundN x 2 := by
  refine roundN_idem_partial hx 2 40 (by decide) h

theorem roundN_idem_5 {x : F64} (hx : x.isFinite = true) (h : (sval x).natAbs < 2 ^ 34 * one) :
    roundN (roundN x 5) 5 = roundN x 5 := by
  refine roundN_idem_partial hx 5 34 (by decide) h

/-! ## J. bounds: rounding never crosses a representable value -/

/-- rounding is the identity on (the exact value of) a canonical double -/
theorem R_exact {c : F64} (hf : c.isFinite = true) (hc : WF c) {D : Nat} (hD : 0 < D) :
    R (sval c * (D : Int)) D = sval c := by
  obtain ⟨s, m, e, rfl⟩ := exists_finite hf
  have h := ev_ofScaled_R s (N := m * 2 ^ e * D) hD
  rw [ofScaled_exact hD hc, signed_mul] at h
  exact h.symm

/-- anything squeezed between two finite values is finite -/
theorem isFinite_of_between {a x b : F64} (ha : a.isFinite = true) (hb : b.isFinite = true)
    (h1 : le a x = true) (h2 : le x b = true) : x.isFinite = true := by
  obtain ⟨n1, m1, e1, rfl⟩ := exists_finite ha
  obtain ⟨n2, m2, e2, rfl⟩ := exists_finite hb
  rcases x with ⟨n, m, e⟩ | ⟨_ | _⟩ | _
  · rfl
  · simp [le] at h2
  · simp [le] at h1
  · simp [le] at h1

/-- if the exact sum is at most a canonical `c`, so is the rounded sum -/
theorem add_le_of_sval_le {x y c : F64} (hx : x.isFinite = true) (hy : y.isFinite = true)
    (hc : c.isFinite = true) (hw : WF c) (h : sval x + sval y ≤ sval c) : le (add x y) c = true := by
  rw [le_iff_ev (out_add hx hy) (out_of_wf hw (isNaN_of_isFinite hc)), ev_add hx hy, ev_eq_sval hc,
    ← R_exact hc hw (D := 1) (by decide)]
  apply R_mono (by decide) (by decide)
  simpa using h

theorem le_add_of_sval_le {x y c : F64} (hx : x.isFinite = true) (hy : y.isFinite = true)
    (hc : c.isFinite = true) (hw : WF c) (h : sval c ≤ sval x + sval y) : le c (add x y) = true := by
  rw [le_iff_ev (out_of_wf hw (isNaN_of_isFinite hc)) (out_add hx hy), ev_add hx hy, ev_eq_sval hc,
    ← R_exact hc hw (D := 1) (by decide)]
  apply R_mono (by decide) (by decide)
  simpa using h

theorem sub_le_of_sval_le {x y c : F64} (hx : x.isFinite = true) (hy : y.isFinite = true)
    (hc : c.isFinite = true) (hw : WF c) (h : sval x - sval y ≤ sval c) : le (sub x y) c = true := by
  apply add_le_of_sval_le hx (by rw [isFinite_neg]; exact hy) hc hw
  rw [sval_neg]; omega

theorem le_sub_of_sval_le {x y c : F64} (hx : x.isFinite = true) (hy : y.isFinite = true)
    (hc : c.isFinite = true) (hw : WF c) (h : sval c ≤ sval x - sval y) : le c (sub x y) = true := by
  apply le_add_of_sval_le hx (by rw [isFinite_neg]; exact hy) hc hw
  rw [sval_neg]; omega

/-- if the exact product is at most a canonical `c`, so is the rounded product
(exact values are in units of `2^-1074`, hence the factor `one`) -/
theorem mul_le_of_sval_le {x y c : F64} (hx : x.isFinite = true) (hy : y.isFinite = true)
    (hc : c.isFinite = true) (hw : WF c) (h : sval x * sval y ≤ sval c * (one : Int)) :
    le (mul x y) c = true := by
  rw [le_iff_ev (out_mul hx hy) (out_of_wf hw (isNaN_of_isFinite hc)), ev_mul hx hy, ev_eq_sval hc,
    ← R_exact hc hw (D := one) one_pos]
  apply R_mono one_pos one_pos
  exact Int.mul_le_mul_of_nonneg_right h (by exact_mod_cast Nat.zero_le _)

theorem le_mul_of_sval_le {x y c : F64} (hx : x.isFinite = true) (hy : y.isFinite = true)
    (hc : c.isFinite = true) (hw : WF c) (h : sval c * (one : Int) ≤ sval x * sval y) :
    le c (mul x y) = true := by
  rw [le_iff_ev (out_of_wf hw (isNaN_of_isFinite hc)) (out_mul hx hy), ev_mul hx hy, ev_eq_sval hc,
    ← R_exact hc hw (D := one) one_pos]
  apply R_mono one_pos one_pos
  exact Int.mul_le_mul_of_nonneg_right h (by exact_mod_cast Nat.zero_le _)

/-- `round(c, n) = c`, bit for bit, when the canonical `c` has at most `n` decimals
(`c · 10^n` is an integer); in particular for every integer-valued double -/
theorem roundN_fixed {c : F64} (hf : c.isFinite = true) (hw : WF c) (n : Nat)
    (hdiv : one ∣ (sval c).natAbs * 10 ^ n) : roundN c n = c := by
  obtain ⟨s, m, e, rfl⟩ := exists_finite hf
  by_cases hn : n > 323
  · unfold roundN; simp only [if_pos hn]
  · simp only [sval, signed_natAbs] at hdiv
    obtain ⟨q, hq⟩ := hdiv
    rw [roundN_finite_def _ _ _ _ hn, hq, Nat.mul_comm one q, rneDiv_exact one_pos,
      Nat.mul_comm q one, ← hq]
    exact ofScaled_exact (ten_pow_pos n) hw

/-- every natural number below `2^53` is (exactly) a canonical double -/
theorem exists_canonical_of_lt {a : Nat} (ha : a < 2 ^ 53) :
    ∃ m e, WF (finite false m e) ∧ m * 2 ^ e = a * one := by
  by_cases h0 : a = 0
  · subst h0; exact ⟨0, 0, by decide, by simp⟩
  · have hL : a.log2 < 53 := (Nat.log2_lt h0).2 ha
    have h1 : 2 ^ a.log2 ≤ a := Nat.log2_self_le h0
    have h2 : a < 2 ^ (a.log2 + 1) := Nat.lt_log2_self
    refine ⟨a * 2 ^ (52 - a.log2), 1022 + a.log2, ?_, ?_⟩
    · rw [wf_finite_iff]
      refine ⟨?_, by unfold maxE; omega, Or.inl ?_⟩
      · calc a * 2 ^ (52 - a.log2) < 2 ^ (a.log2 + 1) * 2 ^ (52 - a.log2) :=
              Nat.mul_lt_mul_of_pos_right h2 (Nat.two_pow_pos _)
          _ = 2 ^ 53 := by rw [← Nat.pow_add]; congr 1; omega
      · calc 2 ^ 52 = 2 ^ a.log2 * 2 ^ (52 - a.log2) := by rw [← Nat.pow_add]; congr 1; omega
          _ ≤ a * 2 ^ (52 - a.log2) := Nat.mul_le_mul_right _ h1
    · unfold one
      rw [Nat.mul_assoc, ← Nat.pow_add]; congr 2; omega

/-- `float(i)` is exact for `|i| < 2^53`: a canonical finite double whose exact value is `i` -/
theorem ofInt_exact {i : Int} (h : i.natAbs < 2 ^ 53) :
    ∃ c, ofInt i = some c ∧ c.isFinite = true ∧ WF c ∧ sval c = i * (one : Int) := by
  obtain ⟨m, e, hw, hme⟩ := exists_canonical_of_lt h
  have hw' : WF (finite (decide (i < 0)) m e) := by
    rw [wf_finite_iff] at hw ⊢; exact hw
  have h1 : ofScaled (decide (i < 0)) (i.natAbs * one) 1 = finite (decide (i < 0)) m e := by
    rw [← hme, ← Nat.mul_one (m * 2 ^ e)]
    exact ofScaled_exact (by decide) hw'
  refine ⟨finite (decide (i < 0)) m e, ?_, rfl, hw', ?_⟩
  · unfold ofInt ofIntD; rw [h1]; rfl
  · simp only [sval]
    rw [hme, signed_mul, signed_decide_natAbs]

/-! ### bit patterns -/

theorem wf_ofBitsNat (n : Nat) : WF (ofBitsNat n) := by
  unfold ofBitsNat
  simp only
  split
  · split
    · exact wf_inf _
    · exact wf_nan
  · split
    · rw [wf_finite_iff]
      refine ⟨?_, Nat.zero_le _, Or.inr rfl⟩
      have : n % 2 ^ 52 < 2 ^ 52 := Nat.mod_lt _ (by decide)
      omega
    · rw [wf_finite_iff]
      have : n % 2 ^ 52 < 2 ^ 52 := Nat.mod_lt _ (by decide)
      refine ⟨by omega, by unfold maxE; omega, Or.inl (by omega)⟩

/-- every bit pattern decodes to a canonical value -/
theorem wf_ofBits (b : UInt64) : WF (ofBits b) := wf_ofBitsNat _

theorem toBitsNat_lt {x : F64} (hw : WF x) : toBitsNat x < 2 ^ 64 := by
  cases x with
  | nan => decide
  | inf s => cases s <;> decide
  | finite s m e =>
    obtain ⟨h1, h2, h3⟩ := (wf_finite_iff ..).1 hw
    unfold maxE at h2
    unfold toBitsNat signNat
    cases s <;> simp only [Nat.reducePow, Bool.false_eq_true, reduceIte] at * <;> split <;> omega

/-- decoding the encoding of a canonical value gives it back (so `toBits` is injective on
canonical values, and comparing bit patterns is comparing model values) -/
theorem ofBitsNat_toBitsNat {x : F64} (hw : WF x) : ofBitsNat (toBitsNat x) = x := by
  cases x with
  | nan => decide
  | inf s => cases s <;> decide
  | finite s m e =>
    obtain ⟨h1, h2, h3⟩ := (wf_finite_iff ..).1 hw
    unfold maxE at h2
    unfold toBitsNat signNat ofBitsNat
    simp only [Nat.reducePow] at *
    by_cases hm : m < 4503599627370496
    · have he : e = 0 := by omega
      subst he
      cases s
      · simp only [hm, if_true, Bool.false_eq_true, if_false, Nat.zero_add]
        have a1 : m / 4503599627370496 % 2048 = 0 := by omega
        have a2 : m % 4503599627370496 = m := by omega
        have a3 : ¬ 9223372036854775808 ≤ m := by omega
        simp [a1, a2, a3]
      · simp only [hm, if_true]
        have a1 : (9223372036854775808 + m) / 4503599627370496 % 2048 = 0 := by omega
        have a2 : (9223372036854775808 + m) % 4503599627370496 = m := by omega
        have a3 : 9223372036854775808 ≤ 9223372036854775808 + m := by omega
        simp [a1, a2, a3]
    · cases s
      · simp only [hm, if_false, Bool.false_eq_true, Nat.zero_add]
        have a1 : ((e + 1) * 4503599627370496 + (m - 4503599627370496)) / 4503599627370496 % 2048
            = e + 1 := by omega
        have a2 : ((e + 1) * 4503599627370496 + (m - 4503599627370496)) % 4503599627370496
            = m - 4503599627370496 := by omega
        have a3 : ¬ 9223372036854775808 ≤ (e + 1) * 4503599627370496 + (m - 4503599627370496) := by
          omega
        have a4 : e + 1 ≠ 2047 := by omega
        have a5 : m - 4503599627370496 + 4503599627370496 = m := by omega
        simp [a1, a2, a3, a4, a5]
      · simp only [hm, if_false, if_true]
        have a1 : (9223372036854775808 + (e + 1) * 4503599627370496 + (m - 4503599627370496))
            / 4503599627370496 % 2048 = e + 1 := by omega
        have a2 : (9223372036854775808 + (e + 1) * 4503599627370496 + (m - 4503599627370496))
            % 4503599627370496 = m - 4503599627370496 := by omega
        have a3 : 9223372036854775808 ≤
            9223372036854775808 + (e + 1) * 4503599627370496 + (m - 4503599627370496) := by omega
        have a4 : e + 1 ≠ 2047 := by omega
        have a5 : m - 4503599627370496 + 4503599627370496 = m := by omega
        simp [a1, a2, a3, a4, a5]

theorem ofBits_toBits {x : F64} (hw : WF x) : ofBits (toBits x) = x := by
  unfold ofBits toBits
  rw [Nat.toUInt64_eq, UInt64.toNat_ofNat', Nat.mod_eq_of_lt (toBitsNat_lt hw)]
  exact ofBitsNat_toBitsNat hw

/-- `toBits` is injective on canonical values -/
theorem toBits_inj {x y : F64} (hx : WF x) (hy : WF y) (h : toBits x = toBits y) : x = y := by
  rw [← ofBits_toBits hx, ← ofBits_toBits hy, h]

/-- encoding the decoding of a bit pattern gives it back, except that all nan patterns are
canonicalised -/
theorem toBitsNat_ofBitsNat {n : Nat} (hn : n < 2 ^ 64) (h : (ofBitsNat n).isNaN = false) :
    toBitsNat (ofBitsNat n) = n := by
  unfold ofBitsNat at h ⊢
  simp only [Nat.reducePow] at *
  by_cases h1 : n / 4503599627370496 % 2048 = 2047
  · simp only [h1, if_true] at h ⊢
    by_cases h2 : n % 4503599627370496 = 0
    · simp only [h2, if_true]
      unfold toBitsNat signNat
      by_cases h3 : 9223372036854775808 ≤ n
      · simp [h3]; omega
      · simp [h3]; omega
    · simp [h2, isNaN] at h
  · simp only [h1, if_false]
    by_cases h2 : n / 4503599627370496 % 2048 = 0
    · simp only [h2, if_true]
      unfold toBitsNat signNat
      have : n % 4503599627370496 < 4503599627370496 := Nat.mod_lt _ (by decide)
      by_cases h3 : 9223372036854775808 ≤ n
      · simp [h3, this]; omega
      · simp [h3, this]; omega
    · simp only [h2, if_false]
      unfold toBitsNat signNat
      have : ¬ n % 4503599627370496 + 4503599627370496 < 4503599627370496 := by omega
      by_cases h3 : 9223372036854775808 ≤ n
      · simp [h3]; omega
      · simp [h3]; omega

theorem toBits_ofBits (b : UInt64) (h : (ofBits b).isNaN = false) : toBits (ofBits b) = b := by
  unfold ofBits toBits at *
  rw [toBitsNat_ofBitsNat (UInt64.toNat_lt b) h, Nat.toUInt64_eq, UInt64.ofNat_toNat]

/-! ## K. finite results -/

theorem maxFinite_isFinite : maxFinite.isFinite = true := rfl
theorem wf_maxFinite : WF maxFinite := by decide

theorem natAbs_sval_le_max {x : F64} (hf : x.isFinite = true) (hw : WF x) :
    (sval x).natAbs ≤ (2 ^ 53 - 1) * 2 ^ maxE := by
  obtain ⟨s, m, e, rfl⟩ := exists_finite hf
  obtain ⟨h1, h2, _⟩ := (wf_finite_iff ..).1 hw
  simp only [sval, signed_natAbs]
  exact Nat.mul_le_mul (by omega) (Nat.pow_le_pow_right (by decide) h2)

theorem sval_maxFinite : sval maxFinite = (((2 ^ 53 - 1) * 2 ^ maxE : Nat) : Int) := by
  unfold maxFinite; simp only [sval, signed_false]

/-- every canonical finite double lies in `[-max, max]` -/
theorem le_maxFinite {x : F64} (hf : x.isFinite = true) (hw : WF x) :
    le x maxFinite = true ∧ le (neg maxFinite) x = true := by
  have h := natAbs_sval_le_max hf hw
  rw [le_iff_sval hf maxFinite_isFinite, le_iff_sval (by rfl) hf, sval_neg, sval_maxFinite]
  generalize (2 ^ 53 - 1) * 2 ^ maxE = B at h
  omega

set_option exponentiation.threshold 3000 in
theorem one_dvd_sval_maxFinite (n : Nat) : one ∣ (sval maxFinite).natAbs * 10 ^ n := by
  apply Nat.dvd_trans _ (Nat.dvd_mul_right _ _)
  rw [sval_maxFinite, Int.natAbs_natCast]
  apply Nat.dvd_trans _ (Nat.dvd_mul_left _ _)
  unfold one maxE
  exact Nat.pow_dvd_pow 2 (by decide)

theorem roundN_maxFinite (n : Nat) : roundN maxFinite n = maxFinite :=
  roundN_fixed maxFinite_isFinite wf_maxFinite n (one_dvd_sval_maxFinite n)

/-- `round(x, n)` of a canonical finite double is finite (it never overflows for `n ≥ 0`) -/
theorem roundN_isFinite {x : F64} (hf : x.isFinite = true) (hw : WF x) (n : Nat) :
    (roundN x n).isFinite = true := by
  obtain ⟨h1, h2⟩ := le_maxFinite hf hw
  have a := roundN_mono hf maxFinite_isFinite n h1
  have b := roundN_mono (by rfl) hf n h2
  rw [roundN_maxFinite] at a
  rw [roundN_neg, roundN_maxFinite] at b
  exact isFinite_of_between (by rfl) maxFinite_isFinite b a

/-! ## L. division -/

theorem div_finite_def (n1 : Bool) (m1 e1 : Nat) (n2 : Bool) (m2 e2 : Nat) (h : m2 ≠ 0) :
    div (finite n1 m1 e1) (finite n2 m2 e2)
      = some (ofScaled (n1 != n2) (m1 * 2 ^ e1 * one) (m2 * 2 ^ e2)) := by
  unfold div; simp only [if_neg h]

theorem div_zero (x : F64) (s : Bool) (e : Nat) : div x (finite s 0 e) = none := by
  cases x <;> rfl

/-- `x ≤ y → x / c ≤ y / c` for finite operands and `c > 0` -/
theorem div_mono_pos {x y c a b : F64} (hx : x.isFinite = true) (hy : y.isFinite = true)
    (hc : c.isFinite = true) (hpos : lt zero c = true) (h : le x y = true)
    (ha : div x c = some a) (hb : div y c = some b) : le a b = true := by
  obtain ⟨n1, m1, e1, rfl⟩ := exists_finite hx
  obtain ⟨n2, m2, e2, rfl⟩ := exists_finite hy
  obtain ⟨n3, m3, e3, rfl⟩ := exists_finite hc
  rw [lt_iff_sval (by rfl) (by rfl), sval_zero] at hpos
  rw [le_finite_iff] at h
  simp only [sval] at hpos
  have hn3 : n3 = false := by
    cases n3
    · rfl
    · exfalso
      simp only [signed_true] at hpos
      have : (0 : Int) ≤ ((m3 * 2 ^ e3 : Nat) : Int) := Int.natCast_nonneg _
      omega
  subst hn3
  have hm3 : m3 ≠ 0 := by
    intro h0; subst h0; simp [signed] at hpos
  have hD : 0 < m3 * 2 ^ e3 := Nat.mul_pos (by omega) (Nat.two_pow_pos _)
  rw [div_finite_def _ _ _ _ _ _ hm3] at ha hb
  injection ha with ha
  injection hb with hb
  subst ha; subst hb
  rw [le_iff_ev (out_ofScaled _ hD) (out_ofScaled _ hD), ev_ofScaled_R _ hD, ev_ofScaled_R _ hD]
  apply R_mono hD hD
  apply Int.mul_le_mul_of_nonneg_right _ (by exact_mod_cast Nat.zero_le _)
  rw [Bool.bne_false, Bool.bne_false, signed_mul n1 (m1 * 2 ^ e1) one, signed_mul n2 (m2 * 2 ^ e2) one]
  exact Int.mul_le_mul_of_nonneg_right h (Int.natCast_nonneg _)

theorem abs_nonneg {x : F64} (h : x.isNaN = false) : le zero (abs x) = true := by
  rcases x with ⟨n, m, e⟩ | ⟨_ | _⟩ | _
  · show le (finite false 0 0) (finite false m e) = true
    rw [le_finite_iff]; simp [signed]
  · rfl
  · rfl
  · simp [isNaN] at h

theorem le_abs_self {x : F64} (h : x.isNaN = false) : le x (abs x) = true := by
  rcases x with ⟨n, m, e⟩ | ⟨_ | _⟩ | _
  · show le (finite n m e) (finite false m e) = true
    rw [le_finite_iff]
    have := signed_bounds n (m * 2 ^ e)
    simp only [signed_false]; omega
  · rfl
  · rfl
  · simp [isNaN] at h

/-! ## M. exact comparison with Python ints, trivial sums -/

theorem cmpInt_finite (n : Bool) (m e : Nat) (i : Int) :
    cmpInt (finite n m e) i = some (compare (sval (finite n m e)) (i * (one : Int))) := rfl

theorem ltInt_iff {x : F64} (hf : x.isFinite = true) (i : Int) :
    ltInt x i = true ↔ sval x < i * (one : Int) := by
  obtain ⟨n, m, e, rfl⟩ := exists_finite hf
  unfold ltInt; rw [cmpInt_finite]
  generalize sval (finite n m e) = a
  generalize i * (one : Int) = b
  rcases Int.lt_trichotomy a b with h | h | h
  · simp [compare, compareOfLessAndEq, h]
  · subst h; simp [compare, compareOfLessAndEq]
  · have h1 : ¬ a < b := by omega
    have h2 : ¬ a = b := by omega
    simp [compare, compareOfLessAndEq, h1, h2]

theorem eqInt_iff {x : F64} (hf : x.isFinite = true) (i : Int) :
    eqInt x i = true ↔ sval x = i * (one : Int) := by
  obtain ⟨n, m, e, rfl⟩ := exists_finite hf
  unfold eqInt; rw [cmpInt_finite]
  generalize sval (finite n m e) = a
  generalize i * (one : Int) = b
  rcases Int.lt_trichotomy a b with h | h | h
  · have : ¬ a = b := by omega
    simp [compare, compareOfLessAndEq, h, this]
  · subst h; simp [compare, compareOfLessAndEq]
  · have h1 : ¬ a < b := by omega
    have h2 : ¬ a = b := by omega
    simp [compare, compareOfLessAndEq, h1, h2]

theorem gtInt_iff {x : F64} (hf : x.isFinite = true) (i : Int) :
    gtInt x i = true ↔ i * (one : Int) < sval x := by
  obtain ⟨n, m, e, rfl⟩ := exists_finite hf
  unfold gtInt; rw [cmpInt_finite]
  generalize sval (finite n m e) = a
  generalize i * (one : Int) = b
  rcases Int.lt_trichotomy a b with h | h | h
  · have : ¬ b < a := by omega
    simp [compare, compareOfLessAndEq, h, this]
  · subst h; simp [compare, compareOfLessAndEq]
  · have h1 : ¬ a < b := by omega
    have h2 : ¬ a = b := by omega
    simp [compare, compareOfLessAndEq, h1, h2, h]

theorem leInt_iff {x : F64} (hf : x.isFinite = true) (i : Int) :
    leInt x i = true ↔ sval x ≤ i * (one : Int) := by
  have h1 := ltInt_iff hf i
  have h2 := eqInt_iff hf i
  unfold leInt ltInt eqInt at *
  rw [Bool.or_eq_true, h1, h2]; omega

theorem geInt_iff {x : F64} (hf : x.isFinite = true) (i : Int) :
    geInt x i = true ↔ i * (one : Int) ≤ sval x := by
  have h1 := gtInt_iff hf i
  have h2 := eqInt_iff hf i
  unfold geInt gtInt eqInt at *
  rw [Bool.or_eq_true, h1, h2]; omega

theorem pySumFrom_nil (s : F64) : pySumFrom s [] = s := rfl

theorem pySum_singleton (x : F64) : pySum [x] = add zero x := rfl

/-! ## axioms -/

#print axioms rneDiv_mono
#print axioms rneDiv_mono_cross
#print axioms rneDiv_err
#print axioms ofScaled_spec
#print axioms ofScaled_exact
#print axioms wf_ofScaled
#print axioms R_mono
#print axioms R_neg
#print axioms R_exact
#print axioms le_iff_sval
#print axioms lt_iff_sval
#print axioms eq_iff_sval
#print axioms le_iff_ev
#print axioms eq_iff_ev
#print axioms roundN_mono
#print axioms roundN_neg
#print axioms roundN_zero
#print axioms roundN_negZero
#print axioms roundN_nonneg
#print axioms roundN_nonpos
#print axioms roundN_idem_of_small
#print axioms roundN_idem_partial
#print axioms roundN_idem_0
#print axioms roundN_idem_2
#print axioms roundN_idem_5
#print axioms roundN_fixed
#print axioms roundN_isFinite
#print axioms roundN_maxFinite
#print axioms wf_roundN
#print axioms out_roundN
#print axioms add_comm
#print axioms mul_comm
#print axioms add_zero
#print axioms add_negZero
#print axioms zero_add
#print axioms sub_zero
#print axioms zero_sub
#print axioms add_zero_eq
#print axioms zero_sub_eq
#print axioms add_mono
#print axioms add_mono_right
#print axioms add_mono2
#print axioms sub_mono_left
#print axioms sub_anti_right
#print axioms mul_mono_nonneg
#print axioms mul_mono_nonneg_right
#print axioms add_nonneg
#print axioms mul_nonneg
#print axioms sub_nonneg
#print axioms neg_anti
#print axioms sub_swap
#print axioms div_mono_pos
#print axioms ev_add
#print axioms ev_sub
#print axioms ev_mul
#print axioms add_le_of_sval_le
#print axioms le_add_of_sval_le
#print axioms sub_le_of_sval_le
#print axioms le_sub_of_sval_le
#print axioms mul_le_of_sval_le
#print axioms le_mul_of_sval_le
#print axioms isFinite_of_between
#print axioms le_maxFinite
#print axioms le_refl
#print axioms le_trans
#print axioms le_total
#print axioms lt_eq_not_le
#print axioms le_of_lt
#print axioms le_antisymm
#print axioms le_of_eq
#print axioms eq_refl
#print axioms eq_symm
#print axioms pyMax_eq
#print axioms pyMin_eq
#print axioms le_pyMax_left
#print axioms le_pyMax_right
#print axioms pyMax_le
#print axioms pyMin_le_left
#print axioms pyMin_le_right
#print axioms le_pyMin
#print axioms pyMax_mono
#print axioms pyMin_mono
#print axioms abs_nonneg
#print axioms le_abs_self
#print axioms wf_add
#print axioms wf_sub
#print axioms wf_mul
#print axioms wf_neg
#print axioms wf_abs
#print axioms ltInt_iff
#print axioms leInt_iff
#print axioms eqInt_iff
#print axioms geInt_iff
#print axioms gtInt_iff
#print axioms wf_ofBits
#print axioms ofBits_toBits
#print axioms toBits_inj
#print axioms toBits_ofBits
#print axioms out_of_wf
#print axioms ofInt_exact
#print axioms exists_canonical_of_lt

end HabuVerif.F64
