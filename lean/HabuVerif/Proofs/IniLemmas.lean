import HabuVerif.Ini
/-!
# Properties of the configparser model (`HabuVerif/Ini.lean`)

Main results (all without Mathlib):

* `write_parse_roundtrip` : `IniClean c → parse (write c) = .ok c` — reading back what
  `ConfigParser.write` wrote reproduces sections, options and values in order.  `IniClean` (defined in
  `Ini.lean`, decidable) is what the proof needs; see the report for which excluded classes are genuine
  limitations of the real configparser (all of them on the tested examples, bar the slight conservatism of
  `HeaderSafe` for an option literally named `[]…`).
  `write_parseFile_roundtrip` : the same through a file opened with universal newlines, if the written text
  has no `'\r'`.
* `set_get`, `set_get_other`, `set_hasOption_self`, `set_hasOption_other`, `hasOption_set_mono`,
  `hasOption_addSection_mono`, `hasOption_addSection_eq` and the DEFAULT quirk (`example`).
* `parse_layout_irrelevant_partial` : order of sections / of options inside sections is invisible to
  `get` / `has_option` after `write` → `parse`.
-/
set_option autoImplicit false
set_option linter.unusedSimpArgs false
set_option linter.unusedSectionVars false

namespace HabuVerif.Ini

/-! ## association lists -/
section assoc
variable {α β : Type} [DecidableEq α] [BEq α] [LawfulBEq α]

@[simp] theorem akeys_nil : akeys ([] : List (α × β)) = [] := rfl
@[simp] theorem akeys_cons (p : α × β) (l : List (α × β)) : akeys (p :: l) = p.1 :: akeys l := rfl
@[simp] theorem akeys_append (l₁ l₂ : List (α × β)) : akeys (l₁ ++ l₂) = akeys l₁ ++ akeys l₂ := by
  simp [akeys]

theorem lookup_eq_none_of_not_mem (l : List (α × β)) (k : α) (h : k ∉ akeys l) : l.lookup k = none := by
  induction l with
  | nil => rfl
  | cons p l ih =>
    obtain ⟨k', v'⟩ := p
    simp only [akeys_cons, List.mem_cons, not_or] at h
    have h1 : (k == k') = false := by simpa using h.1
    simp [List.lookup, h1, ih h.2]

theorem lookup_isSome_iff (l : List (α × β)) (k : α) : (l.lookup k).isSome ↔ k ∈ akeys l := by
  induction l with
  | nil => simp
  | cons p l ih =>
    obtain ⟨k', v'⟩ := p
    by_cases h : k = k'
    · subst h; simp [List.lookup]
    · have h1 : (k == k') = false := by simpa using h
      simp [List.lookup, h1, ih, h]

theorem ahas_iff (l : List (α × β)) (k : α) : ahas l k = true ↔ k ∈ akeys l := by
  unfold ahas; exact lookup_isSome_iff l k

theorem ahas_false_of_not_mem (l : List (α × β)) (k : α) (h : k ∉ akeys l) : ahas l k = false := by
  cases hh : ahas l k with
  | false => rfl
  | true => exact absurd ((ahas_iff l k).mp hh) h

theorem lookup_append_last (l : List (α × β)) (k : α) (v : β) (h : k ∉ akeys l) :
    (l ++ [(k, v)]).lookup k = some v := by
  induction l with
  | nil => simp [List.lookup]
  | cons p l ih =>
    obtain ⟨k', v'⟩ := p
    simp only [akeys_cons, List.mem_cons, not_or] at h
    have h1 : (k == k') = false := by simpa using h.1
    simp [List.lookup, h1, ih h.2]

theorem lookup_append_ne (l : List (α × β)) (k k' : α) (v : β) (h : k' ≠ k) :
    (l ++ [(k, v)]).lookup k' = l.lookup k' := by
  induction l with
  | nil =>
    have h1 : (k' == k) = false := by simpa using h
    simp [List.lookup, h1]
  | cons p l ih =>
    obtain ⟨k'', v''⟩ := p
    by_cases hk : k' = k''
    · subst hk; simp [List.lookup]
    · have h1 : (k' == k'') = false := by simpa using hk
      simp [List.lookup, h1, ih]

theorem aset_of_not_mem (l : List (α × β)) (k : α) (v : β) (h : k ∉ akeys l) :
    aset l k v = l ++ [(k, v)] := by
  induction l with
  | nil => rfl
  | cons p l ih =>
    obtain ⟨k', v'⟩ := p
    simp only [akeys_cons, List.mem_cons, not_or] at h
    have h1 : k' ≠ k := fun e => h.1 e.symm
    simp [aset, h1, ih h.2]

theorem aset_append_last (l : List (α × β)) (k : α) (v w : β) (h : k ∉ akeys l) :
    aset (l ++ [(k, v)]) k w = l ++ [(k, w)] := by
  induction l with
  | nil => simp [aset]
  | cons p l ih =>
    obtain ⟨k', v'⟩ := p
    simp only [akeys_cons, List.mem_cons, not_or] at h
    have h1 : k' ≠ k := fun e => h.1 e.symm
    simp [aset, h1, ih h.2]

theorem amodify_append_last (l : List (α × β)) (k : α) (v : β) (f : β → β) (h : k ∉ akeys l) :
    amodify (l ++ [(k, v)]) k f = l ++ [(k, f v)] := by
  induction l with
  | nil => simp [amodify]
  | cons p l ih =>
    obtain ⟨k', v'⟩ := p
    simp only [akeys_cons, List.mem_cons, not_or] at h
    have h1 : k' ≠ k := fun e => h.1 e.symm
    simp [amodify, h1, ih h.2]

theorem lookup_aset_self (l : List (α × β)) (k : α) (v : β) : (aset l k v).lookup k = some v := by
  induction l with
  | nil => simp [aset, List.lookup]
  | cons p l ih =>
    obtain ⟨k', v'⟩ := p
    by_cases h : k' = k
    · subst h; simp [aset, List.lookup]
    · have h1 : (k == k') = false := by simpa using fun e : k = k' => h e.symm
      simp [aset, h, List.lookup, h1, ih]

theorem lookup_aset_ne (l : List (α × β)) (k k' : α) (v : β) (h : k' ≠ k) :
    (aset l k v).lookup k' = l.lookup k' := by
  induction l with
  | nil =>
    have h1 : (k' == k) = false := by simpa using h
    simp [aset, List.lookup, h1]
  | cons p l ih =>
    obtain ⟨k'', v''⟩ := p
    by_cases hk : k'' = k
    · subst hk
      have h1 : (k' == k'') = false := by simpa using h
      simp [aset, List.lookup, h1]
    · by_cases hk2 : k' = k''
      · subst hk2; simp [aset, hk, List.lookup]
      · have h1 : (k' == k'') = false := by simpa using hk2
        simp [aset, hk, List.lookup, h1, ih]

theorem akeys_aset_of_mem (l : List (α × β)) (k : α) (v : β) (h : k ∈ akeys l) :
    akeys (aset l k v) = akeys l := by
  induction l with
  | nil => simp at h
  | cons p l ih =>
    obtain ⟨k', v'⟩ := p
    by_cases hk : k' = k
    · subst hk; simp [aset]
    · simp only [akeys_cons, List.mem_cons] at h
      rcases h with h | h
      · exact absurd h.symm hk
      · simp [aset, hk, ih h]

theorem aset_aset (l : List (α × β)) (k : α) (v w : β) : aset (aset l k v) k w = aset l k w := by
  induction l with
  | nil => simp [aset]
  | cons p l ih =>
    obtain ⟨k', v'⟩ := p
    by_cases hk : k' = k
    · subst hk; simp [aset]
    · simp [aset, hk, ih]

theorem lookup_aerase_self (l : List (α × β)) (k : α) (h : (akeys l).Nodup) :
    (aerase l k).lookup k = none := by
  induction l with
  | nil => rfl
  | cons p l ih =>
    obtain ⟨k', v'⟩ := p
    simp only [akeys_cons, List.nodup_cons] at h
    by_cases hk : k' = k
    · subst hk
      simp only [aerase, if_true]
      exact lookup_eq_none_of_not_mem l k' h.1
    · have h1 : (k == k') = false := by simpa using fun e : k = k' => hk e.symm
      simp [aerase, hk, List.lookup, h1, ih h.2]

theorem lookup_aerase_ne (l : List (α × β)) (k k' : α) (h : k' ≠ k) :
    (aerase l k).lookup k' = l.lookup k' := by
  induction l with
  | nil => rfl
  | cons p l ih =>
    obtain ⟨k'', v''⟩ := p
    by_cases hk : k'' = k
    · subst hk
      have h1 : (k' == k'') = false := by simpa using h
      simp [aerase, List.lookup, h1]
    · by_cases hk2 : k' = k''
      · subst hk2; simp [aerase, hk, List.lookup]
      · have h1 : (k' == k'') = false := by simpa using hk2
        simp [aerase, hk, List.lookup, h1, ih]

end assoc

/-! ## strings: `strip`, lines -/

theorem lstrip_of_headOk (l : Text) (h : headOk l = true) : lstrip l = l := by
  cases l with
  | nil => rfl
  | cons c l =>
    simp only [headOk, Bool.not_eq_true'] at h
    simp [lstrip, List.dropWhile, h]

theorem rstrip_of_lastOk (l : Text) (h : lastOk l = true) : rstrip l = l := by
  unfold rstrip
  have := lstrip_of_headOk l.reverse h
  unfold lstrip at this
  rw [this, List.reverse_reverse]

theorem strip_of_ok (l : Text) (h1 : headOk l = true) (h2 : lastOk l = true) : strip l = l := by
  unfold strip
  rw [lstrip_of_headOk l h1, rstrip_of_lastOk l h2]

theorem lastOk_append (a b : Text) (hb : b ≠ []) (h : lastOk b = true) : lastOk (a ++ b) = true := by
  unfold lastOk at *
  rw [List.reverse_append]
  cases hr : b.reverse with
  | nil => exact absurd (List.reverse_eq_nil_iff.mp hr) hb
  | cons c r => rw [hr] at h; simpa [headOk] using h

theorem headOk_append (a b : Text) (ha : a ≠ []) (h : headOk a = true) : headOk (a ++ b) = true := by
  cases a with
  | nil => exact absurd rfl ha
  | cons c a => simpa [headOk] using h

theorem lastOk_singleton (c : Char) (h : isSpace c = false) : lastOk [c] = true := by
  simp [lastOk, headOk, h]

theorem rstrip_append_space (a : Text) (c : Char) (h : isSpace c = true) :
    rstrip (a ++ [c]) = rstrip a := by
  simp [rstrip, List.dropWhile, h]

theorem rstrip_nil : rstrip [] = [] := rfl
theorem lstrip_nil : lstrip [] = [] := rfl
theorem strip_nil : strip [] = [] := rfl

theorem lstrip_cons_space (c : Char) (l : Text) (h : isSpace c = true) : lstrip (c :: l) = lstrip l := by
  simp [lstrip, List.dropWhile, h]

theorem isSpace_space : isSpace ' ' = true := by decide
theorem isSpace_tab : isSpace '\t' = true := by decide
theorem isSpace_nl : isSpace '\n' = true := by decide
theorem isSpace_lbrack : isSpace '[' = false := by decide
theorem isSpace_rbrack : isSpace ']' = false := by decide
theorem isSpace_eq : isSpace '=' = false := by decide

theorem indentOf_of_headOk (l : Text) (hne : l ≠ []) (h : headOk l = true) : indentOf l = 0 := by
  cases l with
  | nil => exact absurd rfl hne
  | cons c l =>
    simp only [headOk, Bool.not_eq_true'] at h
    simp [indentOf, List.takeWhile, h]

theorem indentOf_tab (l : Text) : indentOf ('\t' :: l) > 0 := by
  simp [indentOf, List.takeWhile, isSpace_tab]

/-! ### `splitLines` -/

/-- `"".join(l + "\n" for l in ls)` -/
def unlines (ls : List Text) : Text := ls.flatMap (· ++ ['\n'])

theorem splitLinesAux_line (l rest acc : Text) (h : '\n' ∉ l) :
    splitLinesAux (l ++ '\n' :: rest) acc = (acc.reverse ++ l) :: splitLinesAux rest [] := by
  induction l generalizing acc with
  | nil => simp [splitLinesAux]
  | cons c l ih =>
    have hc : c ≠ '\n' := fun e => h (by simp [e])
    have hl : '\n' ∉ l := fun e => h (List.mem_cons_of_mem _ e)
    simp [splitLinesAux, hc, ih _ hl]

theorem splitLines_unlines (ls : List Text) (h : ∀ l ∈ ls, '\n' ∉ l) : splitLines (unlines ls) = ls := by
  induction ls with
  | nil => rfl
  | cons l ls ih =>
    have := splitLinesAux_line l (unlines ls) [] (h l (by simp))
    unfold splitLines unlines at *
    simp only [List.flatMap_cons, List.append_assoc, List.cons_append, List.nil_append]
    rw [this]
    simp only [List.reverse_nil, List.nil_append]
    rw [ih (fun l' hl' => h l' (List.mem_cons_of_mem _ hl'))]

/-! ### the lines of a value -/

/-- all pieces -/
def rawVal (v : Text) : List Text := (splitNl v).1 :: (splitNl v).2

theorem splitNl_no_nl (v : Text) : ∀ l ∈ rawVal v, '\n' ∉ l := by
  induction v with
  | nil => simp [rawVal, splitNl]
  | cons c cs ih =>
    unfold rawVal at *
    by_cases hc : c = '\n'
    · subst hc
      simp only [splitNl, if_true]
      intro l hl
      simp only [List.mem_cons] at hl
      rcases hl with rfl | hl
      · simp
      · exact ih l (by simpa using hl)
    · simp only [splitNl, hc, if_false]
      intro l hl
      simp only [List.mem_cons] at hl
      rcases hl with rfl | hl
      · have := ih (splitNl cs).1 (by simp)
        simp only [List.mem_cons, not_or]
        exact ⟨fun e => hc e.symm, this⟩
      · exact ih l (by simp [hl])

theorem joinNl_cons_cons (x y : Text) (l : List Text) :
    joinNl (x :: y :: l) = x ++ '\n' :: joinNl (y :: l) := by
  simp [joinNl, List.intercalate, List.intersperse]

theorem joinNl_singleton (x : Text) : joinNl [x] = x := by
  simp [joinNl, List.intercalate, List.intersperse]

theorem joinNl_rawVal (v : Text) : joinNl (rawVal v) = v := by
  induction v with
  | nil => simp [rawVal, splitNl, joinNl_singleton]
  | cons c cs ih =>
    unfold rawVal at *
    by_cases hc : c = '\n'
    · subst hc
      simp only [splitNl, if_true, joinNl_cons_cons, ih, List.nil_append]
    · simp only [splitNl, hc, if_false]
      cases hs : (splitNl cs).2 with
      | nil =>
        rw [hs] at ih
        simp only [joinNl_singleton] at ih ⊢
        rw [ih]
      | cons y ys =>
        rw [hs] at ih
        simp only [joinNl_cons_cons] at ih ⊢
        exact congrArg (c :: ·) ih

theorem joinNl_append_empty (ls : List Text) (h : ls ≠ []) : joinNl (ls ++ [[]]) = joinNl ls ++ ['\n'] := by
  induction ls with
  | nil => exact absurd rfl h
  | cons x xs ih =>
    cases xs with
    | nil => simp [joinNl_cons_cons, joinNl_singleton]
    | cons y ys =>
      have := ih (by simp)
      simp only [List.cons_append] at this ⊢
      rw [joinNl_cons_cons, this, joinNl_cons_cons]
      simp

/-- `k + v.replace('\n', '\n\t') + '\n'` as lines -/
theorem replaceNl_lines (k v : Text) :
    k ++ replaceNl v ++ ['\n'] = unlines ((k ++ (splitNl v).1) :: (splitNl v).2.map ('\t' :: ·)) := by
  induction v generalizing k with
  | nil => simp [replaceNl, splitNl, unlines]
  | cons c cs ih =>
    by_cases hc : c = '\n'
    · subst hc
      have := ih ['\t']
      simp only [replaceNl, List.flatMap_cons, if_true, splitNl, unlines, List.map_cons,
        List.append_nil, List.append_assoc, List.cons_append, List.nil_append] at this ⊢
      rw [this]
    · have := ih (k ++ [c])
      simp only [replaceNl, List.flatMap_cons, hc, if_false, splitNl, unlines,
        List.append_assoc, List.cons_append, List.nil_append] at this ⊢
      rw [this]

/-! ## `PState` bookkeeping -/

@[simp] theorem setOpts_cursect (st : PState) (s : Text) (os) : (st.setOpts s os).cursect = st.cursect := by
  unfold PState.setOpts; split <;> rfl
@[simp] theorem setOpts_optname (st : PState) (s : Text) (os) : (st.setOpts s os).optname = st.optname := by
  unfold PState.setOpts; split <;> rfl
@[simp] theorem setOpts_indent (st : PState) (s : Text) (os) : (st.setOpts s os).indent = st.indent := by
  unfold PState.setOpts; split <;> rfl
@[simp] theorem setOpts_addedSecs (st : PState) (s : Text) (os) : (st.setOpts s os).addedSecs = st.addedSecs := by
  unfold PState.setOpts; split <;> rfl
@[simp] theorem setOpts_addedOpts (st : PState) (s : Text) (os) : (st.setOpts s os).addedOpts = st.addedOpts := by
  unfold PState.setOpts; split <;> rfl
@[simp] theorem setOpts_err (st : PState) (s : Text) (os) : (st.setOpts s os).err = st.err := by
  unfold PState.setOpts; split <;> rfl

@[simp] theorem getOpts_setOpts (st : PState) (s : Text) (os) : (st.setOpts s os).getOpts s = some os := by
  unfold PState.setOpts PState.getOpts
  by_cases h : s = DEFAULT
  · simp [h]
  · simp only [h, if_false]; exact lookup_aset_self st.sections s os

@[simp] theorem setOpts_setOpts (st : PState) (s : Text) (a b) : (st.setOpts s a).setOpts s b = st.setOpts s b := by
  unfold PState.setOpts
  by_cases h : s = DEFAULT
  · simp [h]
  · simp [h, aset_aset]

theorem modifyOpts_of_get (st : PState) (s : Text) (os) (f) (h : st.getOpts s = some os) :
    st.modifyOpts s f = st.setOpts s (f os) := by
  simp [PState.modifyOpts, h]

/-- field-wise view of a state (to prove two states equal) -/
theorem PState.ext' (a b : PState) (h1 : a.defaults = b.defaults) (h2 : a.sections = b.sections)
    (h3 : a.cursect = b.cursect) (h4 : a.optname = b.optname) (h5 : a.indent = b.indent)
    (h6 : a.addedSecs = b.addedSecs) (h7 : a.addedOpts = b.addedOpts) (h8 : a.err = b.err) : a = b := by
  cases a; cases b; simp_all

/-- setting commutes with updates of the bookkeeping fields -/
theorem setOpts_with (st : PState) (s : Text) (os) (o : Option Text) (i : Nat) (A : List (Text × Text)) (e : Bool) :
    ({ st with optname := o, indent := i, addedOpts := A, err := e } : PState).setOpts s os =
      { st.setOpts s os with optname := o, indent := i, addedOpts := A, err := e } := by
  unfold PState.setOpts; split <;> rfl

theorem getOpts_with (st : PState) (s : Text) (o : Option Text) (i : Nat) (A : List (Text × Text)) (e : Bool) :
    ({ st with optname := o, indent := i, addedOpts := A, err := e } : PState).getOpts s = st.getOpts s := rfl

/-! ## one line at a time -/

/-- a blank line (after stripping) -/
theorem stepLine_blank (st : PState) (line : Text) (h : strip line = []) :
    stepLine st line = .ok (match st.cursect, st.optname with
      | some s, some o => st.appendLine s o []
      | _, _ => st) := by
  unfold stepLine
  simp only [h, isCommentLine, Bool.false_eq_true, if_false, List.isEmpty_nil, if_true]
  split <;> simp_all

/-- a continuation line -/
theorem stepLine_cont (st : PState) (line v s o : Text) (hv : strip line = v) (hne : v ≠ [])
    (hc : isCommentLine v = false) (hs : st.cursect = some s) (ho : st.optname = some o)
    (hi : indentOf line > st.indent) : stepLine st line = .ok (st.appendLine s o v) := by
  unfold stepLine
  have hne' : v.isEmpty = false := by cases v <;> simp_all
  simp only [hv, hc, Bool.false_eq_true, if_false, hne', hs, ho, hi, decide_true]

/-- a header or option line at indentation 0 is never a continuation -/
theorem stepLine_top (st : PState) (line v : Text) (hv : strip line = v) (hne : v ≠ [])
    (hc : isCommentLine v = false) (hi : indentOf line = 0) :
    stepLine st line = topStep { st with indent := 0 } v := by
  unfold stepLine
  have hne' : v.isEmpty = false := by cases v <;> simp_all
  simp only [hv, hc, Bool.false_eq_true, if_false, hne', hi]
  have : decide (0 > st.indent) = false := by simp
  rw [this]
  split <;> simp_all

/-! ## the three kinds of lines `write` produces -/

theorem sectHeader_bracket (n : Text) (hn : n ≠ []) : sectHeader ('[' :: n ++ [']']) = some n := by
  have h1 : (n ++ [']']).reverse = ']' :: n.reverse := by simp
  have h2 : (n ++ [']']).reverse.dropWhile (· ≠ ']') = ']' :: n.reverse := by
    rw [h1]; simp [List.dropWhile]
  have h3 : n.reverse.isEmpty = false := by
    cases h : n.reverse with
    | nil => exact absurd (List.reverse_eq_nil_iff.mp h) hn
    | cons _ _ => rfl
  show sectHeader ('[' :: (n ++ [']'])) = some n
  unfold sectHeader
  simp only [h2, h3, List.reverse_reverse, Bool.false_eq_true, if_false]

theorem sectHeader_none (v : Text) (h : v.head? ≠ some '[') : sectHeader v = none := by
  unfold sectHeader
  split
  · simp at h
  · rfl

theorem dropWhile_all {α : Type} (p : α → Bool) (l : List α) (h : ∀ x ∈ l, p x = true) :
    l.dropWhile p = [] := by
  induction l with
  | nil => rfl
  | cons x l ih =>
    simp [List.dropWhile, h x (by simp), ih (fun y hy => h y (List.mem_cons_of_mem _ hy))]

theorem sectHeader_no_rbrack (v : Text) (h : ']' ∉ v) : sectHeader v = none := by
  unfold sectHeader
  split
  · rename_i rest
    have hr : ∀ c ∈ rest.reverse, (decide (c ≠ ']')) = true := by
      intro c hc
      have : c ∈ rest := List.mem_reverse.mp hc
      simp only [decide_eq_true_eq]
      intro e; subst e
      exact h (List.mem_cons_of_mem _ this)
    have : rest.reverse.dropWhile (· ≠ ']') = [] := dropWhile_all _ _ hr
    rw [this]
  · rfl

theorem isCommentLine_append (k r : Text) (hk : k ≠ []) : isCommentLine (k ++ r) = isCommentLine k := by
  cases k with
  | nil => exact absurd rfl hk
  | cons c k => rfl

theorem head?_append_of_ne (k r : Text) (hk : k ≠ []) : (k ++ r).head? = k.head? := by
  cases k with
  | nil => exact absurd rfl hk
  | cons c k => rfl

theorem topStep_option (st0 : PState) (s v : Text) (hsh : sectHeader v = none)
    (hcs : st0.cursect = some s) : topStep st0 v = optionStep st0 s v := by
  unfold topStep; rw [hsh]; simp only [hcs]

theorem topStep_header (st0 : PState) (v n : Text) (hsh : sectHeader v = some n) :
    topStep st0 v = headerStep st0 n := by
  unfold topStep; rw [hsh]

theorem header_line_step (st : PState) (n : Text) (hn : CleanName n) :
    stepLine st ('[' :: n ++ [']']) = headerStep { st with indent := 0 } n := by
  have hstrip : strip ('[' :: n ++ [']']) = '[' :: n ++ [']'] := by
    apply strip_of_ok
    · simp [headOk, isSpace_lbrack]
    · have : '[' :: n ++ [']'] = ('[' :: n) ++ [']'] := by simp
      rw [this]
      exact lastOk_append _ _ (by simp) (lastOk_singleton _ isSpace_rbrack)
  rw [stepLine_top st _ _ hstrip (by simp) (by simp [isCommentLine])
    (indentOf_of_headOk _ (by simp) (by simp [headOk, isSpace_lbrack]))]
  exact topStep_header { st with indent := 0 } _ n (sectHeader_bracket n hn.1)

theorem takeWhile_key (k rest : Text) (p : Char → Bool) (x y : Char) (hk : ∀ c ∈ k, p c = true)
    (hx : p x = true) (hy : p y = false) :
    (k ++ x :: y :: rest).takeWhile p = k ++ [x] ∧ (k ++ x :: y :: rest).dropWhile p = y :: rest := by
  induction k with
  | nil => simp [List.takeWhile, List.dropWhile, hx, hy]
  | cons c k ih =>
    have hc := hk c (by simp)
    have := ih (fun c' hc' => hk c' (List.mem_cons_of_mem _ hc'))
    simp [List.takeWhile, List.dropWhile, hc, this]

theorem optMatch_key (k rest : Text) (hk : ∀ c ∈ k, isDelim c = false) :
    optMatch (k ++ ' ' :: '=' :: rest) = some (rstrip (k ++ [' ']), lstrip rest) := by
  unfold optMatch
  have := takeWhile_key k rest (fun c => !isDelim c) ' ' '=' (by simpa using hk) (by decide) (by decide)
  rw [this.1, this.2]

/-- everything `_read` computes from the line `key = first-line-of-value` -/
theorem sectHeader_none_of (k r : Text) (hne : k ≠ [])
    (h : k.head? = some '[' → ']' ∉ k ++ r) : sectHeader (k ++ r) = none := by
  by_cases hb : k.head? = some '['
  · exact sectHeader_no_rbrack _ (h hb)
  · apply sectHeader_none; rw [head?_append_of_ne k _ hne]; exact hb

theorem optline_facts (k l0 : Text) (hk : CleanKey k) (hl : CleanLine l0)
    (hsafe : k.head? = some '[' → ']' ∉ k ∧ ']' ∉ l0) :
    ∃ v, strip (k ++ [' ', '=', ' '] ++ l0) = v ∧ v ≠ [] ∧ isCommentLine v = false ∧
      indentOf (k ++ [' ', '=', ' '] ++ l0) = 0 ∧ sectHeader v = none ∧ optMatch v = some (k, l0) := by
  obtain ⟨hne, ⟨hh, hlast⟩, hlow, hchars, hcom⟩ := hk
  have hind : indentOf (k ++ [' ', '=', ' '] ++ l0) = 0 := by
    apply indentOf_of_headOk
    · simp [hne]
    · rw [List.append_assoc]; exact headOk_append _ _ hne hh
  have hrk : rstrip (k ++ [' ']) = k := by
    rw [rstrip_append_space _ _ isSpace_space]; exact rstrip_of_lastOk k hlast
  have hdel : ∀ c ∈ k, isDelim c = false := fun c hc => (hchars c hc).1
  by_cases h0 : l0 = []
  · subst h0
    refine ⟨k ++ [' ', '='], ?_, by simp, ?_, hind, ?_, ?_⟩
    · unfold strip
      rw [lstrip_of_headOk _ (by rw [List.append_assoc]; exact headOk_append _ _ hne hh)]
      have : k ++ [' ', '=', ' '] ++ [] = (k ++ [' ', '=']) ++ [' '] := by simp
      rw [this, rstrip_append_space _ _ isSpace_space]
      exact rstrip_of_lastOk _ (by
        have : k ++ [' ', '='] = (k ++ [' ']) ++ ['='] := by simp
        rw [this]; exact lastOk_append _ _ (by simp) (lastOk_singleton _ isSpace_eq))
    · rw [isCommentLine_append k _ hne]; exact hcom
    · apply sectHeader_none_of k _ hne
      intro hb
      have := (hsafe hb).1
      simp only [List.mem_append, List.mem_cons, not_or]
      exact ⟨this, by decide, by decide, by simp⟩
    · have := optMatch_key k [] hdel
      simp only [hrk, lstrip_nil] at this
      simpa using this
  · refine ⟨k ++ [' ', '=', ' '] ++ l0, ?_, by simp [hne], ?_, hind, ?_, ?_⟩
    · apply strip_of_ok
      · rw [List.append_assoc]; exact headOk_append _ _ hne hh
      · exact lastOk_append _ _ h0 hl.2
    · rw [List.append_assoc, isCommentLine_append k _ hne]; exact hcom
    · rw [List.append_assoc]
      apply sectHeader_none_of k _ hne
      intro hb
      have := hsafe hb
      simp only [List.mem_append, List.mem_cons, not_or]
      exact ⟨this.1, ⟨by decide, by decide, by decide, by simp⟩, this.2⟩
    · have := optMatch_key k (' ' :: l0) hdel
      simp only [hrk, lstrip_cons_space _ _ isSpace_space, lstrip_of_headOk l0 hl.1] at this
      simpa using this

theorem contains_false_of_not_mem {α : Type} [BEq α] [LawfulBEq α] (l : List α) (a : α) (h : a ∉ l) :
    l.contains a = false := by
  cases hc : l.contains a with
  | false => rfl
  | true => exact absurd (List.contains_iff_mem.mp hc) h

theorem setOpts_indent_comm (st : PState) (s : Text) (os) (i : Nat) :
    ({ st with indent := i } : PState).setOpts s os = { st.setOpts s os with indent := i } := by
  unfold PState.setOpts; split <;> rfl

theorem optionStep_new (st0 : PState) (s v k l0 : Text) (os : List (Text × List Text))
    (hom : optMatch v = some (k, l0)) (hke : k.isEmpty = false) (hrk : optionxform (rstrip k) = k)
    (hl : strip l0 = l0) (hget : st0.getOpts s = some os) (hnew : k ∉ akeys os)
    (hadd : (s, k) ∉ st0.addedOpts) :
    optionStep st0 s v =
      .ok { st0.setOpts s (os ++ [(k, [l0])]) with addedOpts := (s, k) :: st0.addedOpts, optname := some k } := by
  unfold optionStep
  simp only [hom, hrk, hke, Bool.or_false, contains_false_of_not_mem _ _ hadd, Bool.false_eq_true, if_false,
    modifyOpts_of_get _ s os _ hget, aset_of_not_mem os k _ hnew, hl]
  congr 1
  apply PState.ext' <;> simp

/-- the line `key = first-line` starts a new option -/
theorem option_line_step (st : PState) (s k l0 : Text) (os : List (Text × List Text))
    (hk : CleanKey k) (hl : CleanLine l0) (hsafe : k.head? = some '[' → ']' ∉ k ∧ ']' ∉ l0)
    (hs : st.cursect = some s) (hos : st.getOpts s = some os)
    (hnew : k ∉ akeys os) (hadd : (s, k) ∉ st.addedOpts) :
    stepLine st (k ++ [' ', '=', ' '] ++ l0) =
      .ok { st.setOpts s (os ++ [(k, [l0])]) with
            indent := 0, addedOpts := (s, k) :: st.addedOpts, optname := some k } := by
  obtain ⟨v, hv, hvne, hvc, hind, hsh, hom⟩ := optline_facts k l0 hk hl hsafe
  rw [stepLine_top st _ v hv hvne hvc hind]
  have hke : k.isEmpty = false := by
    have := hk.1
    cases k <;> simp_all
  have hrk : optionxform (rstrip k) = k := by
    rw [rstrip_of_lastOk k hk.2.1.2]; exact hk.2.2.1
  rw [topStep_option { st with indent := 0 } s v hsh hs,
    optionStep_new { st with indent := 0 } s v k l0 os hom hke hrk (strip_of_ok l0 hl.1 hl.2) hos hnew hadd,
    setOpts_indent_comm]

/-- a `'\t'`-indented line continues the current option (an empty one adds an empty line) -/
theorem cont_line_step (st : PState) (s k l : Text) (os : List (Text × List Text)) (ls : List Text)
    (hl : CleanLine l) (hc : isCommentLine l = false) (hs : st.cursect = some s) (ho : st.optname = some k)
    (hi : st.indent = 0) (hos : st.getOpts s = some (os ++ [(k, ls)])) (hnew : k ∉ akeys os) :
    stepLine st ('\t' :: l) = .ok (st.setOpts s (os ++ [(k, ls ++ [l])])) := by
  have happ : ∀ x, st.appendLine s k x = st.setOpts s (os ++ [(k, ls ++ [x])]) := by
    intro x
    unfold PState.appendLine
    rw [modifyOpts_of_get st s _ _ hos, amodify_append_last os k ls _ hnew]
  by_cases h0 : l = []
  · subst h0
    have : strip ['\t'] = [] := by decide
    rw [stepLine_blank st _ this, hs, ho]
    simp [happ]
  · have hstrip : strip ('\t' :: l) = l := by
      unfold strip
      rw [lstrip_cons_space _ _ isSpace_tab, lstrip_of_headOk l hl.1, rstrip_of_lastOk l hl.2]
    rw [stepLine_cont st _ l s k hstrip h0 hc hs ho (by rw [hi]; exact indentOf_tab l), happ]

/-- the empty line after a section -/
theorem blank_line_step (st : PState) (s k : Text) (os : List (Text × List Text)) (ls : List Text)
    (hs : st.cursect = some s) (ho : st.optname = some k)
    (hos : st.getOpts s = some (os ++ [(k, ls)])) (hnew : k ∉ akeys os) :
    stepLine st [] = .ok (st.setOpts s (os ++ [(k, ls ++ [[]])])) := by
  rw [stepLine_blank st _ strip_nil, hs, ho]
  simp only
  unfold PState.appendLine
  rw [modifyOpts_of_get st s _ _ hos, amodify_append_last os k ls _ hnew]

theorem blank_line_step_none (st : PState) (ho : st.optname = none) : stepLine st [] = .ok st := by
  rw [stepLine_blank st _ strip_nil, ho]
  split <;> simp_all

/-! ## folding over the lines of an option, a section, a file -/

theorem foldLines_cons (st : PState) (l : Text) (ls : List Text) (st' : PState)
    (h : stepLine st l = .ok st') : foldLines st (l :: ls) = foldLines st' ls := by
  simp [foldLines, h]

theorem foldLines_append (st : PState) (a b : List Text) (st' : PState) (h : foldLines st a = .ok st') :
    foldLines st (a ++ b) = foldLines st' b := by
  induction a generalizing st with
  | nil => simp only [foldLines] at h; cases h; rfl
  | cons l a ih =>
    simp only [List.cons_append, foldLines] at h ⊢
    cases hs : stepLine st l with
    | error e => rw [hs] at h; cases h
    | ok st1 => rw [hs] at h; simp only at h ⊢; exact ih st1 h

/-- bookkeeping fields after an option line -/
def PState.book (st : PState) (o : Option Text) (A : List (Text × Text)) : PState :=
  { st with indent := 0, addedOpts := A, optname := o }

@[simp] theorem book_getOpts (st : PState) (o A) (s : Text) : (st.book o A).getOpts s = st.getOpts s := rfl
@[simp] theorem book_cursect (st : PState) (o A) : (st.book o A).cursect = st.cursect := rfl
@[simp] theorem book_optname (st : PState) (o A) : (st.book o A).optname = o := rfl
@[simp] theorem book_indent (st : PState) (o A) : (st.book o A).indent = 0 := rfl
@[simp] theorem book_addedOpts (st : PState) (o A) : (st.book o A).addedOpts = A := rfl
@[simp] theorem book_addedSecs (st : PState) (o A) : (st.book o A).addedSecs = st.addedSecs := rfl
@[simp] theorem book_err (st : PState) (o A) : (st.book o A).err = st.err := rfl
@[simp] theorem book_book (st : PState) (o A o' A') : (st.book o A).book o' A' = st.book o' A' := rfl
theorem book_setOpts (st : PState) (o A) (s : Text) (os) :
    (st.book o A).setOpts s os = (st.setOpts s os).book o A := by
  unfold PState.setOpts PState.book; split <;> rfl

theorem aset_lookup_self {α β : Type} [DecidableEq α] [BEq α] [LawfulBEq α] (l : List (α × β)) (k : α) (v : β)
    (h : l.lookup k = some v) : aset l k v = l := by
  induction l with
  | nil => simp at h
  | cons p l ih =>
    obtain ⟨k', v'⟩ := p
    by_cases hk : k' = k
    · subst hk
      simp only [List.lookup, beq_self_eq_true] at h
      cases h
      simp [aset]
    · have h1 : (k == k') = false := by simpa using fun e : k = k' => hk e.symm
      simp only [List.lookup, h1] at h
      simp [aset, hk, ih h]

theorem setOpts_self (st : PState) (s : Text) (os) (h : st.getOpts s = some os) : st.setOpts s os = st := by
  unfold PState.getOpts at h
  unfold PState.setOpts
  by_cases hs : s = DEFAULT
  · simp only [hs, if_true] at h ⊢
    cases h; rfl
  · simp only [hs, if_false] at h ⊢
    rw [aset_lookup_self _ _ _ h]

theorem book_self (st : PState) (hi : st.indent = 0) : st.book st.optname st.addedOpts = st := by
  cases st; simp_all [PState.book]

/-- continuation lines -/
theorem fold_cont (s k : Text) (os : List (Text × List Text)) (hnew : k ∉ akeys os) (ls' : List Text) :
    ∀ (st : PState) (ls : List Text), (∀ l ∈ ls', CleanLine l ∧ isCommentLine l = false) →
      st.cursect = some s → st.optname = some k → st.indent = 0 →
      st.getOpts s = some (os ++ [(k, ls)]) →
      foldLines st (ls'.map ('\t' :: ·)) = .ok (st.setOpts s (os ++ [(k, ls ++ ls')])) := by
  induction ls' with
  | nil =>
    intro st ls _ _ _ _ hos
    simp only [List.map_nil, foldLines, List.append_nil]
    rw [setOpts_self st s _ hos]
  | cons l ls' ih =>
    intro st ls hc hs ho hi hos
    have hl := hc l (by simp)
    simp only [List.map_cons]
    rw [foldLines_cons st _ _ _ (cont_line_step st s k l os ls hl.1 hl.2 hs ho hi hos hnew)]
    rw [ih (st.setOpts s (os ++ [(k, ls ++ [l])])) (ls ++ [l])
      (fun l' hl' => hc l' (List.mem_cons_of_mem _ hl')) (by simpa using hs) (by simpa using ho)
      (by simpa using hi) (by simp)]
    simp

/-- the lines `write` emits for one option -/
def itemLines (kv : Text × Text) : List Text :=
  (kv.1 ++ [' ', '=', ' '] ++ (splitNl kv.2).1) :: (splitNl kv.2).2.map ('\t' :: ·)

theorem fold_item (st : PState) (s : Text) (kv : Text × Text) (os : List (Text × List Text))
    (hk : CleanKey kv.1) (hv : CleanVal kv.2) (hsafe : HeaderSafe kv) (hs : st.cursect = some s)
    (hos : st.getOpts s = some os)
    (hnew : kv.1 ∉ akeys os) (hadd : (s, kv.1) ∉ st.addedOpts) :
    foldLines st (itemLines kv) =
      .ok ((st.setOpts s (os ++ [(kv.1, rawVal kv.2)])).book (some kv.1) ((s, kv.1) :: st.addedOpts)) := by
  unfold itemLines
  have h1 := option_line_step st s kv.1 (splitNl kv.2).1 os hk hv.1 hsafe hs hos hnew hadd
  rw [foldLines_cons st _ _ _ h1]
  have := fold_cont s kv.1 os hnew (splitNl kv.2).2
    ((st.setOpts s (os ++ [(kv.1, [(splitNl kv.2).1])])).book (some kv.1) ((s, kv.1) :: st.addedOpts))
    [(splitNl kv.2).1] hv.2.1 (by simpa using hs) (by simp) (by simp) (by simp)
  show foldLines ((st.setOpts s (os ++ [(kv.1, [(splitNl kv.2).1])])).book (some kv.1)
    ((s, kv.1) :: st.addedOpts)) _ = _
  rw [this, book_setOpts, setOpts_setOpts]
  rfl

def rawOpts (opts : List (Text × Text)) : List (Text × List Text) := opts.map fun kv => (kv.1, rawVal kv.2)

def lastKeyOr (o : Option Text) (opts : List (Text × Text)) : Option Text :=
  match opts.getLast? with
  | some kv => some kv.1
  | none => o

theorem lastKeyOr_cons (o : Option Text) (kv : Text × Text) (rest : List (Text × Text)) :
    lastKeyOr o (kv :: rest) = lastKeyOr (some kv.1) rest := by
  unfold lastKeyOr
  cases rest with
  | nil => simp
  | cons x xs =>
    rw [List.getLast?_cons_cons]
    cases h : (x :: xs).getLast? with
    | none => simp at h
    | some y => rfl

theorem akeys_rawOpts (opts : List (Text × Text)) : akeys (rawOpts opts) = akeys opts := by
  simp [akeys, rawOpts, Function.comp_def]

/-- all the options of a section -/
theorem fold_items (s : Text) (opts : List (Text × Text)) :
    ∀ (st : PState) (os : List (Text × List Text)),
      (∀ kv ∈ opts, CleanKey kv.1 ∧ CleanVal kv.2 ∧ HeaderSafe kv) → (akeys os ++ akeys opts).Nodup →
      st.cursect = some s → st.indent = 0 → st.getOpts s = some os →
      (∀ k ∈ akeys opts, (s, k) ∉ st.addedOpts) →
      foldLines st (opts.flatMap itemLines) =
        .ok ((st.setOpts s (os ++ rawOpts opts)).book (lastKeyOr st.optname opts)
              ((opts.map fun kv => (s, kv.1)).reverse ++ st.addedOpts)) := by
  induction opts with
  | nil =>
    intro st os _ _ _ hi hos _
    simp only [List.flatMap_nil, foldLines, rawOpts, List.map_nil, List.append_nil, List.reverse_nil,
      List.nil_append, lastKeyOr, List.getLast?_nil]
    rw [setOpts_self st s os hos, book_self st hi]
  | cons kv rest ih =>
    intro st os hc hnd hs hi hos hadd
    have hkv := hc kv (by simp)
    have hnd' : (akeys os ++ kv.1 :: akeys rest).Nodup := by simpa using hnd
    have hnew : kv.1 ∉ akeys os := by
      intro hm
      have := (List.nodup_append.mp hnd').2.2 kv.1 hm kv.1 (by simp)
      exact this rfl
    have h1 := fold_item st s kv os hkv.1 hkv.2.1 hkv.2.2 hs hos hnew (hadd kv.1 (by simp))
    simp only [List.flatMap_cons]
    rw [foldLines_append st _ _ _ h1]
    have hnd2 : (akeys (os ++ [(kv.1, rawVal kv.2)]) ++ akeys rest).Nodup := by
      simpa using hnd'
    rw [ih _ (os ++ [(kv.1, rawVal kv.2)]) (fun x hx => hc x (List.mem_cons_of_mem _ hx)) hnd2
      (by simpa using hs) (by simp) (by simp) (by
        intro k hk hmem
        simp only [book_addedOpts, List.mem_cons, Prod.mk.injEq, true_and] at hmem
        rcases hmem with h | h
        · subst h
          have hn := (List.nodup_append.mp hnd').2.1
          exact (List.nodup_cons.mp hn).1 hk
        · exact hadd k (List.mem_cons_of_mem _ hk) h)]
    simp only [book_setOpts, setOpts_setOpts, book_book, book_optname, book_addedOpts, lastKeyOr_cons,
      rawOpts, List.map_cons, List.reverse_cons, List.append_assoc, List.cons_append, List.nil_append]

/-- the empty line after a section lands in the last option's value -/
def padLast : List (Text × List Text) → List (Text × List Text)
  | [] => []
  | [(k, ls)] => [(k, ls ++ [[]])]
  | x :: y :: r => x :: padLast (y :: r)

theorem padLast_append_last (os : List (Text × List Text)) (k : Text) (ls : List Text) :
    padLast (os ++ [(k, ls)]) = os ++ [(k, ls ++ [[]])] := by
  induction os with
  | nil => rfl
  | cons x os ih =>
    cases os with
    | nil => rfl
    | cons y r =>
      simp only [List.cons_append] at ih ⊢
      rw [padLast, ih]

/-- options and the blank line -/
theorem fold_items_blank (s : Text) (opts : List (Text × Text)) (st : PState)
    (hc : ∀ kv ∈ opts, CleanKey kv.1 ∧ CleanVal kv.2 ∧ HeaderSafe kv) (hnd : (akeys opts).Nodup)
    (hs : st.cursect = some s) (hi : st.indent = 0) (ho : st.optname = none) (hos : st.getOpts s = some [])
    (hadd : ∀ k ∈ akeys opts, (s, k) ∉ st.addedOpts) :
    foldLines st (opts.flatMap itemLines ++ [[]]) =
      .ok ((st.setOpts s (padLast (rawOpts opts))).book (lastKeyOr none opts)
            ((opts.map fun kv => (s, kv.1)).reverse ++ st.addedOpts)) := by
  have h1 := fold_items s opts st [] hc (by simpa using hnd) hs hi hos hadd
  rw [foldLines_append st _ _ _ h1, ho]
  simp only [List.nil_append, foldLines]
  rcases List.eq_nil_or_concat opts with h0 | ⟨init, kv, h0⟩
  · subst h0
    rw [blank_line_step_none _ (by simp [lastKeyOr])]
    rfl
  · subst h0
    have hraw : rawOpts (init.concat kv) = rawOpts init ++ [(kv.1, rawVal kv.2)] := by
      simp [rawOpts]
    have hlast : lastKeyOr none (init.concat kv) = some kv.1 := by
      simp [lastKeyOr]
    have hnew : kv.1 ∉ akeys (rawOpts init) := by
      rw [akeys_rawOpts]
      have : (akeys init ++ [kv.1]).Nodup := by simpa using hnd
      intro hm
      exact (List.nodup_append.mp this).2.2 kv.1 hm kv.1 (by simp) rfl
    rw [hraw, hlast]
    rw [blank_line_step _ s kv.1 (rawOpts init) (rawVal kv.2) (by simpa using hs) (by simp) (by simp) hnew]
    simp only [book_setOpts, setOpts_setOpts, padLast_append_last]

/-! ## `write` as a list of lines -/

def sectionLines (n : Text) (items : List (Text × Text)) : List Text :=
  ('[' :: n ++ [']']) :: (items.flatMap itemLines ++ [[]])

def configLines (c : Config) : List Text :=
  (if c.defaults.isEmpty then [] else sectionLines DEFAULT c.defaults) ++
  c.sections.flatMap fun s => sectionLines s.1 s.2

theorem unlines_append (a b : List Text) : unlines (a ++ b) = unlines a ++ unlines b := by
  simp [unlines]

theorem unlines_cons (l : Text) (ls : List Text) : unlines (l :: ls) = l ++ '\n' :: unlines ls := by
  simp [unlines]

theorem writeItem_lines (kv : Text × Text) : writeItem kv = unlines (itemLines kv) := by
  unfold writeItem itemLines
  exact replaceNl_lines (kv.1 ++ [' ', '=', ' ']) kv.2

theorem writeItems_lines (items : List (Text × Text)) :
    items.flatMap writeItem = unlines (items.flatMap itemLines) := by
  induction items with
  | nil => rfl
  | cons kv items ih => simp only [List.flatMap_cons, unlines_append, writeItem_lines, ih]

theorem writeSection_lines (n : Text) (items : List (Text × Text)) :
    writeSection n items = unlines (sectionLines n items) := by
  unfold writeSection sectionLines
  rw [unlines_cons, unlines_append, writeItems_lines]
  simp [unlines]

theorem writeSections_lines (secs : List (Text × List (Text × Text))) :
    (secs.flatMap fun (n, items) => writeSection n items) =
      unlines (secs.flatMap fun s => sectionLines s.1 s.2) := by
  induction secs with
  | nil => rfl
  | cons s secs ih =>
    obtain ⟨n, items⟩ := s
    rw [List.flatMap_cons, List.flatMap_cons, unlines_append, ih]
    show writeSection n items ++ _ = _
    rw [writeSection_lines]

theorem write_lines (c : Config) : write c = unlines (configLines c) := by
  unfold write configLines
  rw [unlines_append, writeSections_lines]
  congr 1
  split
  · rfl
  · exact writeSection_lines _ _

theorem itemLines_no_nl (kv : Text × Text) (hk : CleanKey kv.1) : ∀ l ∈ itemLines kv, '\n' ∉ l := by
  intro l hl
  have hraw := splitNl_no_nl kv.2
  unfold rawVal at hraw
  unfold itemLines at hl
  simp only [List.mem_cons, List.mem_map] at hl
  rcases hl with rfl | ⟨x, hx, rfl⟩
  · have h1 := hraw (splitNl kv.2).1 (by simp)
    have h2 : '\n' ∉ kv.1 := fun hm => (hk.2.2.2.1 _ hm).2 rfl
    simp only [List.mem_append, List.mem_cons, not_or]
    refine ⟨⟨h2, ?_⟩, h1⟩
    decide
  · have h1 := hraw x (by simp [hx])
    simp only [List.mem_cons, not_or]
    exact ⟨by decide, h1⟩

theorem sectionLines_no_nl (n : Text) (items : List (Text × Text)) (hn : '\n' ∉ n)
    (hi : ∀ kv ∈ items, CleanKey kv.1) : ∀ l ∈ sectionLines n items, '\n' ∉ l := by
  intro l hl
  unfold sectionLines at hl
  simp only [List.mem_cons, List.mem_append, List.mem_flatMap, List.mem_singleton] at hl
  rcases hl with rfl | ⟨kv, hkv, hl⟩ | hl
  · simp only [List.cons_append, List.mem_cons, List.mem_append, List.mem_singleton, not_or]
    exact ⟨by decide, hn, by decide⟩
  · exact itemLines_no_nl kv (hi kv hkv) l hl
  · simp only [List.mem_nil_iff, or_false] at hl
    subst hl; simp

theorem configLines_no_nl (c : Config) (h : IniClean c) : ∀ l ∈ configLines c, '\n' ∉ l := by
  intro l hl
  unfold configLines at hl
  simp only [List.mem_append, List.mem_flatMap] at hl
  rcases hl with hl | ⟨s, hs, hl⟩
  · split at hl
    · simp at hl
    · exact sectionLines_no_nl DEFAULT _ (by decide) (fun kv hkv => (h.1.2 kv hkv).1) l hl
  · have := h.2.2 s hs
    exact sectionLines_no_nl s.1 s.2 this.1.2.1 (fun kv hkv => (this.2.2 kv hkv).1) l hl

/-! ## sections -/

theorem headerStep_new (st0 : PState) (n : Text) (h1 : n ∉ akeys st0.sections) (h2 : n ≠ DEFAULT) :
    headerStep st0 n = .ok { st0 with sections := st0.sections ++ [(n, [])], cursect := some n,
                                      addedSecs := n :: st0.addedSecs, optname := none } := by
  unfold headerStep
  simp [ahas_false_of_not_mem _ _ h1, h2]

theorem headerStep_default (st0 : PState) (h1 : DEFAULT ∉ akeys st0.sections) :
    headerStep st0 DEFAULT = .ok { st0 with cursect := some DEFAULT, optname := none } := by
  unfold headerStep
  simp [ahas_false_of_not_mem _ _ h1]

/-- the state after the block of a (new) section has been read -/
def afterSection (st : PState) (n : Text) (opts : List (Text × Text)) : PState :=
  { defaults := st.defaults, sections := st.sections ++ [(n, padLast (rawOpts opts))], cursect := some n,
    optname := lastKeyOr none opts, indent := 0, addedSecs := n :: st.addedSecs,
    addedOpts := (opts.map fun kv => (n, kv.1)).reverse ++ st.addedOpts, err := st.err }

/-- the state right after the header line of a new section -/
def afterHeader (st : PState) (n : Text) : PState :=
  { st with indent := 0, sections := st.sections ++ [(n, [])], cursect := some n,
            addedSecs := n :: st.addedSecs, optname := none }

theorem fold_section (st : PState) (n : Text) (opts : List (Text × Text)) (hn : CleanName n)
    (hnew : n ∉ akeys st.sections) (hopts : CleanOpts opts) (hadd : ∀ k, (n, k) ∉ st.addedOpts) :
    foldLines st (sectionLines n opts) = .ok (afterSection st n opts) := by
  unfold sectionLines
  have h1 : stepLine st ('[' :: n ++ [']']) = .ok (afterHeader st n) := by
    rw [header_line_step st n hn]
    exact headerStep_new { st with indent := 0 } n hnew hn.2.2
  rw [foldLines_cons st _ _ _ h1]
  have hget : (afterHeader st n).getOpts n = some [] := by
    unfold PState.getOpts afterHeader
    simp only [hn.2.2, if_false]
    exact lookup_append_last st.sections n [] hnew
  rw [fold_items_blank n opts _ hopts.2 hopts.1 rfl rfl rfl hget (fun k _ => hadd k)]
  congr 1
  apply PState.ext' <;> simp [afterSection, afterHeader, PState.setOpts, hn.2.2, PState.book]
  exact aset_append_last st.sections n [] _ hnew

/-- the state after a leading `[DEFAULT]` block -/
def afterDefault (opts : List (Text × Text)) : PState :=
  { defaults := padLast (rawOpts opts), sections := [], cursect := some DEFAULT,
    optname := lastKeyOr none opts, indent := 0, addedSecs := [],
    addedOpts := (opts.map fun kv => (DEFAULT, kv.1)).reverse, err := false }

theorem fold_default (opts : List (Text × Text)) (hopts : CleanOpts opts) :
    foldLines {} (sectionLines DEFAULT opts) = .ok (afterDefault opts) := by
  unfold sectionLines
  have hname : strip ('[' :: DEFAULT ++ [']']) = '[' :: DEFAULT ++ [']'] := by decide
  have h1 : stepLine {} ('[' :: DEFAULT ++ [']']) = .ok
      ({ cursect := some DEFAULT, optname := none } : PState) := by
    rw [stepLine_top {} _ _ hname (by decide) (by decide) (by decide)]
    rw [topStep_header _ _ DEFAULT (by decide)]
    exact headerStep_default _ (by simp)
  rw [foldLines_cons _ _ _ _ h1]
  rw [fold_items_blank DEFAULT opts _ hopts.2 hopts.1 rfl rfl rfl (by simp [PState.getOpts])
    (fun k _ => by simp)]
  congr 1
  apply PState.ext' <;> simp [afterDefault, PState.setOpts, PState.book]

theorem fold_sections (secs : List (Text × List (Text × Text))) :
    ∀ st : PState, (akeys st.sections ++ akeys secs).Nodup →
      (∀ s ∈ secs, CleanName s.1 ∧ CleanOpts s.2) →
      (∀ s ∈ secs, ∀ k, (s.1, k) ∉ st.addedOpts) →
      ∃ st', foldLines st (secs.flatMap fun s => sectionLines s.1 s.2) = .ok st' ∧
        st'.defaults = st.defaults ∧
        st'.sections = st.sections ++ secs.map (fun s => (s.1, padLast (rawOpts s.2))) ∧
        st'.err = st.err := by
  induction secs with
  | nil => intro st _ _ _; exact ⟨st, rfl, rfl, by simp, rfl⟩
  | cons s secs ih =>
    intro st hnd hc hadd
    have hs := hc s (by simp)
    have hnd' : (akeys st.sections ++ s.1 :: akeys secs).Nodup := by simpa using hnd
    have hnew : s.1 ∉ akeys st.sections := by
      intro hm
      exact (List.nodup_append.mp hnd').2.2 s.1 hm s.1 (by simp) rfl
    have h1 := fold_section st s.1 s.2 hs.1 hnew hs.2 (hadd s (by simp))
    obtain ⟨st', hf, hd, hsec, herr⟩ := ih (afterSection st s.1 s.2)
      (by simpa [afterSection] using hnd')
      (fun x hx => hc x (List.mem_cons_of_mem _ hx))
      (by
        intro x hx k hmem
        simp only [afterSection, List.mem_append, List.mem_reverse, List.mem_map, Prod.mk.injEq] at hmem
        rcases hmem with ⟨kv, _, hname, _⟩ | hmem
        · have hn := (List.nodup_append.mp hnd').2.1
          have : s.1 ∉ akeys secs := (List.nodup_cons.mp hn).1
          apply this
          rw [hname]
          exact List.mem_map_of_mem (f := Prod.fst) hx
        · exact hadd x (List.mem_cons_of_mem _ hx) k hmem)
    refine ⟨st', ?_, ?_, ?_, ?_⟩
    · simp only [List.flatMap_cons]
      rw [foldLines_append st _ _ _ h1, hf]
    · rw [hd]; rfl
    · rw [hsec]; simp [afterSection]
    · rw [herr]; rfl

/-! ## joining the value lines back -/

theorem rstrip_append_nl (a : Text) : rstrip (a ++ ['\n']) = rstrip a :=
  rstrip_append_space a '\n' isSpace_nl

theorem joinOpts_padLast (X : List (Text × List Text)) (h : ∀ p ∈ X, p.2 ≠ []) :
    joinOpts (padLast X) = joinOpts X := by
  induction X with
  | nil => rfl
  | cons x X ih =>
    cases X with
    | nil =>
      obtain ⟨k, ls⟩ := x
      have hls : ls ≠ [] := h (k, ls) (by simp)
      simp [padLast, joinOpts, joinNl_append_empty ls hls, rstrip_append_nl]
    | cons y r =>
      have := ih (fun p hp => h p (List.mem_cons_of_mem _ hp))
      simp only [padLast, joinOpts, List.map_cons] at this ⊢
      rw [this]

theorem joinOpts_rawOpts (opts : List (Text × Text)) (h : ∀ kv ∈ opts, CleanVal kv.2) :
    joinOpts (rawOpts opts) = opts := by
  induction opts with
  | nil => rfl
  | cons kv opts ih =>
    have := ih (fun x hx => h x (List.mem_cons_of_mem _ hx))
    simp only [joinOpts, rawOpts, List.map_cons, List.map_map] at this ⊢
    rw [this, joinNl_rawVal, (h kv (by simp)).2.2]

theorem joinOpts_pad_raw (opts : List (Text × Text)) (h : CleanOpts opts) :
    joinOpts (padLast (rawOpts opts)) = opts := by
  rw [joinOpts_padLast, joinOpts_rawOpts opts (fun kv hkv => (h.2 kv hkv).2.1)]
  intro p hp
  simp only [rawOpts, List.mem_map] at hp
  obtain ⟨kv, _, rfl⟩ := hp
  simp [rawVal]

/-! ## the round trip -/

/-- **write / read round trip.**  For every configuration satisfying the explicit, decidable predicate
`IniClean`, reading back what `ConfigParser.write` wrote gives the same sections, options and values in
the same order. -/
theorem write_parse_roundtrip (c : Config) (h : IniClean c) : parse (write c) = .ok c := by
  unfold parse
  rw [write_lines, splitLines_unlines _ (configLines_no_nl c h)]
  unfold configLines
  have hsec_map : (c.sections.map fun s => (s.1, padLast (rawOpts s.2))).map
      (fun x => (x.1, joinOpts x.2)) = c.sections := by
    rw [List.map_map]
    have : ∀ l : List (Text × List (Text × Text)), (∀ s ∈ l, CleanOpts s.2) →
        l.map ((fun x => (x.1, joinOpts x.2)) ∘ fun s => (s.1, padLast (rawOpts s.2))) = l := by
      intro l hl
      induction l with
      | nil => rfl
      | cons s l ih =>
        simp only [List.map_cons, Function.comp]
        rw [joinOpts_pad_raw s.2 (hl s (by simp)), ih (fun x hx => hl x (List.mem_cons_of_mem _ hx))]
    exact this _ (fun s hs => (h.2.2 s hs).2)
  by_cases hd : c.defaults.isEmpty = true
  · simp only [hd, if_true, List.nil_append]
    obtain ⟨st', hf, hdef, hsec, herr⟩ := fold_sections c.sections {} (by simpa using h.2.1)
      (fun s hs => h.2.2 s hs) (fun _ _ _ => by simp)
    rw [hf]
    simp only [PState.finish, herr, Bool.false_eq_true, if_false, hdef, hsec, List.nil_append]
    have hd' : c.defaults = [] := List.isEmpty_iff.mp hd
    cases c with
    | mk d s =>
      simp only at hd' hsec_map ⊢
      subst hd'
      rw [hsec_map]
      rfl
  · simp only [hd, Bool.false_eq_true, if_false]
    rw [foldLines_append _ _ _ _ (fold_default c.defaults h.1)]
    obtain ⟨st', hf, hdef, hsec, herr⟩ := fold_sections c.sections (afterDefault c.defaults)
      (by simpa [afterDefault] using h.2.1) (fun s hs => h.2.2 s hs)
      (by
        intro s hs k hmem
        simp only [afterDefault, List.mem_reverse, List.mem_map, Prod.mk.injEq] at hmem
        obtain ⟨_, _, hname, _⟩ := hmem
        exact (h.2.2 s hs).1.2.2 hname.symm)
    rw [hf]
    simp only [PState.finish, herr, afterDefault, Bool.false_eq_true, if_false, hdef, hsec, List.nil_append]
    cases c with
    | mk d s =>
      simp only at hsec_map ⊢
      rw [joinOpts_pad_raw d h.1, hsec_map]

/-- the same through a file opened in universal-newlines mode, when the text has no carriage return -/
theorem universalNewlines_of_no_cr (t : Text) (h : '\r' ∉ t) : universalNewlines t = t := by
  induction t with
  | nil => rfl
  | cons c t ih =>
    have hc : c ≠ '\r' := fun e => h (by simp [e])
    have ht : '\r' ∉ t := fun e => h (List.mem_cons_of_mem _ e)
    rw [universalNewlines.eq_4 c t (fun _ h1 _ => hc h1) (fun h1 => hc h1), ih ht]

theorem write_parseFile_roundtrip (c : Config) (h : IniClean c) (hcr : '\r' ∉ write c) :
    parseFile (write c) = .ok c := by
  unfold parseFile
  rw [universalNewlines_of_no_cr _ hcr, write_parse_roundtrip c h]

/-- the predicate is executable: a small solution-file-like configuration with a multi-line value -/
example : IniClean { defaults := [], sections := [(['1', '0', '4', '0'], [(['a'], ['x', '\n', '\n', 'y']), (['1', 'b'], [])]),
                                                    (['w', '-', '2', ':', '1'], [])] } := by decide

example : ¬ IniClean { defaults := [], sections := [(['s'], [(['K'], ['v'])])] } := by decide

/-! ## `set` / `get` / `has_option` -/

/-- a name that denotes a real section for `set`, `get` and `has_option` alike (the empty name is an
alias of DEFAULT for `set` / `has_option` / `remove_option`, but not for `get`) -/
def RegularName (s : Text) : Prop := s ≠ [] ∧ s ≠ DEFAULT

theorem set_eq (c : Config) (s k v : Text) (c' : Config) (hs : RegularName s)
    (h : c.set s k v = .ok c') :
    ∃ os, c.sections.lookup s = some os ∧
      c' = { c with sections := aset c.sections s (aset os (optionxform k) v) } := by
  unfold Config.set Config.setRaw at h
  have h1 : s.isEmpty = false := by cases s <;> simp_all [RegularName]
  simp only [h1, hs.2, Bool.false_or, decide_false, Bool.false_eq_true, if_false] at h
  cases hl : c.sections.lookup s with
  | none => rw [hl] at h; cases h
  | some os => rw [hl] at h; cases h; exact ⟨os, rfl, rfl⟩

/-- after a successful `set s k v` on a regular section, `get s k` returns `v` -/
theorem set_get (c : Config) (s k v : Text) (c' : Config) (hs : RegularName s)
    (h : c.set s k v = .ok c') : c'.get s k = .ok v := by
  obtain ⟨os, _, rfl⟩ := set_eq c s k v c' hs h
  unfold Config.get
  simp only [lookup_aset_self]

/-- … and every other (section, option) pair reads as before -/
theorem set_get_other (c : Config) (s k v : Text) (c' : Config) (hs : RegularName s)
    (h : c.set s k v = .ok c') (s' k' : Text) (hne : s' ≠ s ∨ optionxform k' ≠ optionxform k) :
    c'.get s' k' = c.get s' k' := by
  obtain ⟨os, hos, rfl⟩ := set_eq c s k v c' hs h
  unfold Config.get
  by_cases hss : s' = s
  · subst hss
    have hk : optionxform k' ≠ optionxform k := by
      rcases hne with h | h
      · exact absurd rfl h
      · exact h
    simp only [lookup_aset_self, hos, lookup_aset_ne os _ _ v hk]
  · simp only [lookup_aset_ne c.sections s s' _ hss]

theorem set_hasOption_self (c : Config) (s k v : Text) (c' : Config) (hs : RegularName s)
    (h : c.set s k v = .ok c') : c'.hasOption s k = true := by
  obtain ⟨os, _, rfl⟩ := set_eq c s k v c' hs h
  unfold Config.hasOption
  have h1 : s.isEmpty = false := by cases s <;> simp_all [RegularName]
  simp only [h1, hs.2, Bool.false_or, decide_false, Bool.false_eq_true, if_false, lookup_aset_self]
  simp [ahas, lookup_aset_self]

theorem set_hasOption_other (c : Config) (s k v : Text) (c' : Config) (hs : RegularName s)
    (h : c.set s k v = .ok c') (s' k' : Text) (hne : s' ≠ s ∨ optionxform k' ≠ optionxform k) :
    c'.hasOption s' k' = c.hasOption s' k' := by
  obtain ⟨os, hos, rfl⟩ := set_eq c s k v c' hs h
  unfold Config.hasOption
  by_cases hss : s' = s
  · subst hss
    have hk : optionxform k' ≠ optionxform k := by
      rcases hne with h | h
      · exact absurd rfl h
      · exact h
    simp only [lookup_aset_self, hos, ahas, lookup_aset_ne os _ _ v hk]
  · simp only [lookup_aset_ne c.sections s s' _ hss]

theorem ahas_aset_mono {β : Type} (l : List (Text × β)) (k k' : Text) (v : β) (h : ahas l k' = true) :
    ahas (aset l k v) k' = true := by
  unfold ahas at *
  by_cases hk : k' = k
  · subst hk; simp [lookup_aset_self]
  · rw [lookup_aset_ne l k k' v hk]; exact h

/-- `has_option` never turns false through a `set` (any section, DEFAULT included) -/
theorem hasOption_set_mono (c : Config) (s k v : Text) (c' : Config) (h : c.set s k v = .ok c')
    (s' k' : Text) (hp : c.hasOption s' k' = true) : c'.hasOption s' k' = true := by
  unfold Config.set Config.setRaw at h
  by_cases hd : (s.isEmpty || decide (s = DEFAULT)) = true
  · simp only [hd, if_true] at h
    cases h
    unfold Config.hasOption at hp ⊢
    by_cases hd' : (s'.isEmpty || decide (s' = DEFAULT)) = true
    · simp only [hd', if_true] at hp ⊢
      exact ahas_aset_mono _ _ _ _ hp
    · simp only [hd', Bool.false_eq_true, if_false] at hp ⊢
      cases hl : c.sections.lookup s' with
      | none => rw [hl] at hp; cases hp
      | some os =>
        rw [hl] at hp
        simp only [Bool.or_eq_true] at hp ⊢
        rcases hp with hp | hp
        · exact Or.inl hp
        · exact Or.inr (ahas_aset_mono _ _ _ _ hp)
  · simp only [hd, Bool.false_eq_true, if_false] at h
    cases hl : c.sections.lookup s with
    | none => rw [hl] at h; cases h
    | some os =>
      rw [hl] at h; cases h
      unfold Config.hasOption at hp ⊢
      by_cases hd' : (s'.isEmpty || decide (s' = DEFAULT)) = true
      · simp only [hd', if_true] at hp ⊢
        exact hp
      · simp only [hd', Bool.false_eq_true, if_false] at hp ⊢
        by_cases hss : s' = s
        · subst hss
          rw [hl] at hp
          rw [lookup_aset_self]
          simp only [Bool.or_eq_true] at hp ⊢
          rcases hp with hp | hp
          · exact Or.inl (ahas_aset_mono _ _ _ _ hp)
          · exact Or.inr hp
        · rw [lookup_aset_ne c.sections s s' _ hss]; exact hp

theorem addSection_eq (c : Config) (n : Text) (c' : Config) (h : c.addSection n = .ok c') :
    n ≠ DEFAULT ∧ n ∉ akeys c.sections ∧ c' = { c with sections := c.sections ++ [(n, [])] } := by
  unfold Config.addSection at h
  by_cases h1 : n = DEFAULT
  · simp [h1] at h
  · simp only [h1, if_false] at h
    by_cases h2 : ahas c.sections n = true
    · simp [h2] at h
    · simp only [h2, Bool.false_eq_true, if_false] at h
      cases h
      exact ⟨h1, fun hm => h2 ((ahas_iff _ _).mpr hm), rfl⟩

theorem lookup_append_of_some {β : Type} (l l' : List (Text × β)) (k : Text) (v : β)
    (h : l.lookup k = some v) : (l ++ l').lookup k = some v := by
  induction l with
  | nil => simp at h
  | cons p l ih =>
    obtain ⟨k', v'⟩ := p
    by_cases hk : k = k'
    · subst hk; simpa [List.lookup] using h
    · have h1 : (k == k') = false := by simpa using hk
      simp only [List.cons_append, List.lookup, h1] at h ⊢
      exact ih h

/-- `has_option` never turns false through `add_section` -/
theorem hasOption_addSection_mono (c : Config) (n : Text) (c' : Config) (h : c.addSection n = .ok c')
    (s k : Text) (hp : c.hasOption s k = true) : c'.hasOption s k = true := by
  obtain ⟨_, _, rfl⟩ := addSection_eq c n c' h
  unfold Config.hasOption at hp ⊢
  by_cases hd : (s.isEmpty || decide (s = DEFAULT)) = true
  · simp only [hd, if_true] at hp ⊢; exact hp
  · simp only [hd, Bool.false_eq_true, if_false] at hp ⊢
    cases hl : c.sections.lookup s with
    | none => rw [hl] at hp; cases hp
    | some os => rw [hl] at hp; rw [lookup_append_of_some _ _ _ _ hl]; exact hp

/-- with an empty DEFAULT section, `add_section` changes no `has_option` answer at all -/
theorem hasOption_addSection_eq (c : Config) (n : Text) (c' : Config) (h : c.addSection n = .ok c')
    (hd : c.defaults = []) (s k : Text) : c'.hasOption s k = c.hasOption s k := by
  obtain ⟨_, hnew, rfl⟩ := addSection_eq c n c' h
  unfold Config.hasOption
  simp only [hd]
  by_cases hs : s = n
  · subst hs
    rw [lookup_append_last _ _ _ hnew, lookup_eq_none_of_not_mem _ _ hnew]
    simp [ahas]
  · rw [lookup_append_ne _ _ _ _ hs]

/-- the quirk: with a non-empty `[DEFAULT]`, `add_section` makes an option of the new section "present"
that `has_option` reported missing a moment before (and `get` then returns the DEFAULT value) -/
example :
    let c : Config := { defaults := [(['k'], ['v'])], sections := [] }
    c.hasOption ['s'] ['k'] = false ∧
    (∃ c', c.addSection ['s'] = .ok c' ∧ c'.hasOption ['s'] ['k'] = true ∧ c'.get ['s'] ['k'] = .ok ['v']) := by
  refine ⟨by decide, ⟨_, rfl, by decide, rfl⟩⟩

/-! ## the order of sections and options does not matter -/

theorem lookup_perm {β : Type} (l₁ l₂ : List (Text × β)) (hp : l₁.Perm l₂) (hn : (akeys l₁).Nodup)
    (k : Text) : l₁.lookup k = l₂.lookup k := by
  induction hp with
  | nil => rfl
  | cons x _ ih =>
    obtain ⟨k', v'⟩ := x
    simp only [akeys_cons, List.nodup_cons] at hn
    by_cases hk : k = k'
    · subst hk; simp [List.lookup]
    · have h1 : (k == k') = false := by simpa using hk
      simp only [List.lookup, h1]; exact ih hn.2
  | swap x y l =>
    obtain ⟨kx, vx⟩ := x
    obtain ⟨ky, vy⟩ := y
    simp only [akeys_cons, List.nodup_cons, List.mem_cons, not_or] at hn
    have hxy : ky ≠ kx := hn.1.1
    by_cases h1 : k = kx
    · subst h1
      have : (k == ky) = false := by simpa using fun e : k = ky => hxy e.symm
      simp [List.lookup, this]
    · have h1' : (k == kx) = false := by simpa using h1
      simp [List.lookup, h1']
  | trans p1 _ ih1 ih2 =>
    have : (akeys _).Nodup := (p1.map Prod.fst).nodup_iff.mp hn
    rw [ih1 hn, ih2 this]

/-- position by position the same section names, each with a permutation of the same options -/
inductive SecsMatch : List (Text × List (Text × Text)) → List (Text × List (Text × Text)) → Prop
  | nil : SecsMatch [] []
  | cons {n : Text} {o₁ o₂ : List (Text × Text)} {l₁ l₂ : List (Text × List (Text × Text))} :
      o₁.Perm o₂ → SecsMatch l₁ l₂ → SecsMatch ((n, o₁) :: l₁) ((n, o₂) :: l₂)

/-- the same sections with the same options, in any order of sections and of options inside a section -/
def SameContent (c₁ c₂ : Config) : Prop :=
  c₁.defaults.Perm c₂.defaults ∧ ∃ mid, c₁.sections.Perm mid ∧ SecsMatch mid c₂.sections

theorem mem_of_lookup {β : Type} (l : List (Text × β)) (k : Text) (v : β) (h : l.lookup k = some v) :
    (k, v) ∈ l := by
  induction l with
  | nil => simp at h
  | cons p l ih =>
    obtain ⟨k', v'⟩ := p
    by_cases hk : k = k'
    · subst hk
      simp only [List.lookup, beq_self_eq_true] at h
      cases h; simp
    · have h1 : (k == k') = false := by simpa using hk
      simp only [List.lookup, h1] at h
      exact List.mem_cons_of_mem _ (ih h)

theorem lookup_secsMatch (a b : List (Text × List (Text × Text))) (h : SecsMatch a b) (s : Text) :
    (a.lookup s = none ∧ b.lookup s = none) ∨
    ∃ o₁ o₂, a.lookup s = some o₁ ∧ b.lookup s = some o₂ ∧ o₁.Perm o₂ := by
  induction h with
  | nil => exact Or.inl ⟨rfl, rfl⟩
  | @cons n o₁ o₂ l₁ l₂ hperm _ ih =>
    by_cases hs : s = n
    · subst hs
      exact Or.inr ⟨o₁, o₂, by simp [List.lookup], by simp [List.lookup], hperm⟩
    · have h1 : (s == n) = false := by simpa using hs
      simp only [List.lookup, h1]
      exact ih

/-- what `get` and `has_option` see of two configurations with the same content is the same -/
theorem sameContent_get (c₁ c₂ : Config) (h₁ : IniClean c₁) (h : SameContent c₁ c₂) (s k : Text) :
    c₁.get s k = c₂.get s k ∧ c₁.hasOption s k = c₂.hasOption s k := by
  obtain ⟨hd, mid, hp, hf⟩ := h
  have hdl : ∀ k', c₁.defaults.lookup k' = c₂.defaults.lookup k' := lookup_perm _ _ hd h₁.1.1
  have hsl : c₁.sections.lookup s = mid.lookup s := lookup_perm _ _ hp h₁.2.1 s
  unfold Config.get Config.hasOption ahas
  rw [hsl]
  rcases lookup_secsMatch mid c₂.sections hf s with ⟨h1, h2⟩ | ⟨o₁, o₂, h1, h2, hperm⟩
  · simp only [h1, h2, hdl]
    exact ⟨trivial, trivial⟩
  · have hmem : (s, o₁) ∈ c₁.sections := hp.symm.subset (mem_of_lookup _ _ _ h1)
    have hnd : (akeys o₁).Nodup := (h₁.2.2 _ hmem).2.1
    have hol : ∀ k', o₁.lookup k' = o₂.lookup k' := lookup_perm _ _ hperm hnd
    simp only [h1, h2, hdl, hol]
    exact ⟨trivial, trivial⟩

/-- **layout (order) irrelevance**, partial.  The full statement would be: two INI texts that differ only
in layout (order of sections, order of options inside a section, blank lines, comments, spacing around the
delimiter, `=` vs `:`) are read into parsers that answer every `get` / `has_option` query alike.  Proved
here for the ORDER part, on texts produced by `write` from clean configurations. -/
theorem parse_layout_irrelevant_partial (c₁ c₂ : Config) (h₁ : IniClean c₁) (h₂ : IniClean c₂)
    (h : SameContent c₁ c₂) :
    ∃ d₁ d₂, parse (write c₁) = .ok d₁ ∧ parse (write c₂) = .ok d₂ ∧
      (∀ s k, d₁.get s k = d₂.get s k) ∧ (∀ s k, d₁.hasOption s k = d₂.hasOption s k) :=
  ⟨c₁, c₂, write_parse_roundtrip c₁ h₁, write_parse_roundtrip c₂ h₂,
    fun s k => (sameContent_get c₁ c₂ h₁ h s k).1, fun s k => (sameContent_get c₁ c₂ h₁ h s k).2⟩

end HabuVerif.Ini
