import HabuVerif.Core.Cli
import HabuVerif.Proofs.IniLemmas
/-!
# The CLI / session layer: properties C20, C13, C14 at the level of the files

* `answers_kept` (C20/C13): under `AsksOk` (answers go to regular sections, no input asked twice, only
  absent inputs asked), after ANY prefix of the answers the configuration object the `finally` block writes
  (`applyAnswersP`) holds every value the file provided, unchanged, every answer as typed, and `provides` is
  monotone (`Kept`).  No hypothesis on DEFAULT is needed.
* `session_file_wellformed`, `session_file_wellformed_of_clean` (C20): if the written configuration is
  `IniClean` (e.g. a clean file and `CleanAnswer`s) the file left behind parses to exactly that
  configuration.  `storeSet_clean` / `applyAnswers_clean` say which answers keep it clean.
* `rerun_provides` (C13/C20): after re-reading the file every answered input is provided and reads as typed;
  everything provided before still is and reads the same.
* `solution_file_roundtrip` (C14): `readBack (parse (write (attachMeta (toConfig ts) y v)))` is the year as
  written and the triples as a finite map, under `SolutionOk ts`.
* evaluated examples at the excluded points (blank-padded answer / text, colliding line names, a form
  called `DEFAULT`).
-/
set_option autoImplicit false
set_option linter.unusedSimpArgs false
set_option linter.unusedSectionVars false

namespace HabuVerif.Cli
open HabuVerif.Ini

/-! ## more about association lists -/
section assoc
variable {α β : Type} [DecidableEq α] [BEq α] [LawfulBEq α]

theorem mem_aset (l : List (α × β)) (k : α) (v : β) (x : α × β) (h : x ∈ aset l k v) :
    x ∈ l ∨ x = (k, v) := by
  induction l with
  | nil => simp [aset] at h; exact Or.inr h
  | cons p l ih =>
    obtain ⟨k', v'⟩ := p
    by_cases hk : k' = k
    · subst hk
      simp only [aset, if_true, List.mem_cons] at h
      rcases h with h | h
      · exact Or.inr h
      · exact Or.inl (List.mem_cons_of_mem _ h)
    · simp only [aset, hk, if_false, List.mem_cons] at h
      rcases h with h | h
      · exact Or.inl (by simp [h])
      · rcases ih h with h' | h'
        · exact Or.inl (List.mem_cons_of_mem _ h')
        · exact Or.inr h'

theorem mem_akeys_of_lookup (l : List (α × β)) (k : α) (v : β) (h : l.lookup k = some v) : k ∈ akeys l := by
  have : (l.lookup k).isSome = true := by rw [h]; rfl
  exact (lookup_isSome_iff l k).mp this

theorem mem_of_lookup' (l : List (α × β)) (k : α) (v : β) (h : l.lookup k = some v) : (k, v) ∈ l := by
  induction l with
  | nil => simp at h
  | cons p l ih =>
    obtain ⟨k', v'⟩ := p
    by_cases hk : k = k'
    · subst hk
      simp only [List.lookup, beq_self_eq_true] at h
      cases h; simp
    · have h1 : (k == k') = false := by simpa using hk
      simp only [List.lookup, h1] at h
      exact List.mem_cons_of_mem _ (ih h)

theorem nodup_akeys_aset (l : List (α × β)) (k : α) (v : β) (h : (akeys l).Nodup) :
    (akeys (aset l k v)).Nodup := by
  by_cases hk : k ∈ akeys l
  · rw [akeys_aset_of_mem l k v hk]; exact h
  · rw [aset_of_not_mem l k v hk, akeys_append]
    apply List.nodup_append.mpr
    refine ⟨h, by simp, ?_⟩
    intro a ha b hb
    simp only [akeys_cons, akeys_nil, List.mem_singleton] at hb
    subst hb
    intro e; subst e; exact hk ha

theorem lookup_isSome_of_ahas (l : List (α × β)) (k : α) (h : ahas l k = true) : ∃ v, l.lookup k = some v := by
  unfold ahas at h
  cases hl : l.lookup k with
  | none => rw [hl] at h; cases h
  | some v => exact ⟨v, rfl⟩

theorem aerase_append_last (l : List (α × β)) (k : α) (v : β) (h : k ∉ akeys l) :
    aerase (l ++ [(k, v)]) k = l := by
  induction l with
  | nil => simp [aerase]
  | cons p l ih =>
    obtain ⟨k', v'⟩ := p
    simp only [akeys_cons, List.mem_cons, not_or] at h
    have h1 : k' ≠ k := fun e => h.1 e.symm
    simp [aerase, h1, ih h.2]

end assoc

/-! ## `storeSet` -/

theorem regular_isEmpty (s : Text) (hs : RegularName s) : s.isEmpty = false := by
  cases s with
  | nil => exact absurd rfl hs.1
  | cons _ _ => rfl

theorem set_regular (c : Config) (s k v : Text) (hs : RegularName s) :
    c.set s k v = match c.sections.lookup s with
      | none => .error .noSection
      | some os => .ok { c with sections := aset c.sections s (aset os (optionxform k) v) } := by
  unfold Config.set Config.setRaw
  simp only [regular_isEmpty s hs, hs.2, Bool.false_or, decide_false, Bool.false_eq_true, if_false]
  cases c.sections.lookup s <;> rfl

/-- what `InputStore.__setitem__` does to the configuration, explicitly -/
theorem storeSet_explicit (c : Config) (s k v : Text) (hs : RegularName s) :
    (∃ os, c.sections.lookup s = some os ∧
      storeSet c s k v = .ok { c with sections := aset c.sections s (aset os (optionxform k) v) }) ∨
    (s ∉ akeys c.sections ∧
      storeSet c s k v = .ok { c with sections := c.sections ++ [(s, [(optionxform k, v)])] }) := by
  unfold storeSet
  by_cases hh : c.hasSection s = true
  · obtain ⟨os, hos⟩ := lookup_isSome_of_ahas c.sections s hh
    left
    refine ⟨os, hos, ?_⟩
    simp only [hh, if_true, set_regular c s k v hs, hos]
  · right
    have hnot : s ∉ akeys c.sections := fun hm => hh ((ahas_iff _ _).mpr hm)
    refine ⟨hnot, ?_⟩
    have hadd : c.addSection s = .ok { c with sections := c.sections ++ [(s, [])] } := by
      unfold Config.addSection
      have : ahas c.sections s = false := ahas_false_of_not_mem _ _ hnot
      simp [hs.2, this]
    simp only [hh, Bool.false_eq_true, if_false, hadd, set_regular _ s k v hs,
      lookup_append_last c.sections s [] hnot, aset_append_last c.sections s [] _ hnot]
    rfl

/-- `storeSet` on a regular section name never raises -/
theorem storeSet_ok (c : Config) (s k v : Text) (hs : RegularName s) : ∃ c', storeSet c s k v = .ok c' := by
  rcases storeSet_explicit c s k v hs with ⟨os, _, h⟩ | ⟨_, h⟩ <;> exact ⟨_, h⟩

theorem storeSet_get_self (c : Config) (s k v : Text) (c' : Config) (hs : RegularName s)
    (h : storeSet c s k v = .ok c') : c'.get s k = .ok v := by
  rcases storeSet_explicit c s k v hs with ⟨os, _, h'⟩ | ⟨hn, h'⟩
  · rw [h'] at h; cases h
    unfold Config.get
    simp only [lookup_aset_self]
  · rw [h'] at h; cases h
    unfold Config.get
    simp only [lookup_append_last c.sections s _ hn]
    simp [List.lookup]

theorem storeSet_hasSection_self (c : Config) (s k v : Text) (c' : Config) (hs : RegularName s)
    (h : storeSet c s k v = .ok c') : c'.hasSection s = true := by
  rcases storeSet_explicit c s k v hs with ⟨os, _, h'⟩ | ⟨hn, h'⟩
  · rw [h'] at h; cases h
    unfold Config.hasSection ahas
    simp only [lookup_aset_self]; rfl
  · rw [h'] at h; cases h
    unfold Config.hasSection ahas
    simp only [lookup_append_last c.sections s _ hn]; rfl

theorem storeSet_hasSection_mono (c : Config) (s k v : Text) (c' : Config) (hs : RegularName s)
    (h : storeSet c s k v = .ok c') (s' : Text) (hp : c.hasSection s' = true) : c'.hasSection s' = true := by
  by_cases hss : s' = s
  · subst hss; exact storeSet_hasSection_self c s' k v c' hs h
  · rcases storeSet_explicit c s k v hs with ⟨os, _, h'⟩ | ⟨hn, h'⟩
    · rw [h'] at h; cases h
      unfold Config.hasSection ahas at hp ⊢
      simp only [lookup_aset_ne c.sections s s' _ hss]; exact hp
    · rw [h'] at h; cases h
      unfold Config.hasSection ahas at hp ⊢
      simp only [lookup_append_ne c.sections s s' _ hss]; exact hp

/-- every other (section, option) reads as before; for another option of the SAME section this needs the
section to exist already (else `get` went from `NoSectionError` to a DEFAULT value or `NoOptionError`) -/
theorem storeSet_get_other (c : Config) (s k v : Text) (c' : Config) (hs : RegularName s)
    (h : storeSet c s k v = .ok c') (s' k' : Text)
    (hne : s' ≠ s ∨ optionxform k' ≠ optionxform k) (hex : s' = s → c.hasSection s = true) :
    c'.get s' k' = c.get s' k' := by
  rcases storeSet_explicit c s k v hs with ⟨os, hos, h'⟩ | ⟨hn, h'⟩
  · rw [h'] at h; cases h
    unfold Config.get
    by_cases hss : s' = s
    · subst hss
      have hk : optionxform k' ≠ optionxform k := by
        rcases hne with h | h
        · exact absurd rfl h
        · exact h
      simp only [lookup_aset_self, hos, lookup_aset_ne os _ _ v hk]
    · simp only [lookup_aset_ne c.sections s s' _ hss]
  · rw [h'] at h; cases h
    have hss : s' ≠ s := by
      intro e
      have := hex e
      exact hn ((ahas_iff _ _).mp this)
    unfold Config.get
    simp only [lookup_append_ne c.sections s s' _ hss]

theorem storeSet_provides_self (c : Config) (s k v : Text) (c' : Config) (hs : RegularName s)
    (h : storeSet c s k v = .ok c') : provides c' s k = true := by
  unfold provides
  rcases storeSet_explicit c s k v hs with ⟨os, _, h'⟩ | ⟨hn, h'⟩
  · rw [h'] at h; cases h
    unfold Config.hasOption
    simp only [regular_isEmpty s hs, hs.2, Bool.false_or, decide_false, Bool.false_eq_true, if_false,
      lookup_aset_self]
    simp [ahas, lookup_aset_self]
  · rw [h'] at h; cases h
    unfold Config.hasOption
    simp only [regular_isEmpty s hs, hs.2, Bool.false_or, decide_false, Bool.false_eq_true, if_false,
      lookup_append_last c.sections s _ hn]
    simp [ahas, List.lookup]

/-- `provides` never turns false through an answer -/
theorem storeSet_provides_mono (c : Config) (s k v : Text) (c' : Config)
    (h : storeSet c s k v = .ok c') (s' k' : Text) (hp : provides c s' k' = true) :
    provides c' s' k' = true := by
  unfold provides at *
  unfold storeSet at h
  by_cases hh : c.hasSection s = true
  · simp only [hh, if_true] at h
    exact hasOption_set_mono c s k v c' h s' k' hp
  · simp only [hh, Bool.false_eq_true, if_false] at h
    cases ha : c.addSection s with
    | error e => rw [ha] at h; cases h
    | ok c1 =>
      rw [ha] at h
      exact hasOption_set_mono c1 s k v c' h s' k' (hasOption_addSection_mono c s c1 ha s' k' hp)

/-! ## the answers of a session -/

/-- the key under which an answer is filed: (section, lower-cased option name) -/
def answerKey (a : Answer) : Text × Text := (a.1, optionxform a.2.1)

theorem provides_congr (c : Config) (s k k' : Text) (h : optionxform k = optionxform k') :
    provides c s k = provides c s k' := by
  unfold provides Config.hasOption
  rw [h]

theorem applyAnswers_cons (c : Config) (a : Answer) (rest : List Answer) (c1 : Config)
    (h : storeSet c a.1 a.2.1 a.2.2 = .ok c1) : applyAnswers c (a :: rest) = applyAnswers c1 rest := by
  simp [applyAnswers, h]

theorem applyAnswers_cons_ok (c : Config) (a : Answer) (rest : List Answer) (c' : Config)
    (h : applyAnswers c (a :: rest) = .ok c') :
    ∃ c1, storeSet c a.1 a.2.1 a.2.2 = .ok c1 ∧ applyAnswers c1 rest = .ok c' := by
  simp only [applyAnswers] at h
  cases hs : storeSet c a.1 a.2.1 a.2.2 with
  | error e => rw [hs] at h; cases h
  | ok c1 => rw [hs] at h; exact ⟨c1, rfl, h⟩

/-- with regular section names the answers can always be stored -/
theorem applyAnswers_ok (as : List Answer) : ∀ c : Config, (∀ a ∈ as, RegularName a.1) →
    ∃ c', applyAnswers c as = .ok c' := by
  induction as with
  | nil => intro c _; exact ⟨c, rfl⟩
  | cons a rest ih =>
    intro c hr
    obtain ⟨c1, h1⟩ := storeSet_ok c a.1 a.2.1 a.2.2 (hr a (by simp))
    obtain ⟨c', h'⟩ := ih c1 (fun b hb => hr b (List.mem_cons_of_mem _ hb))
    exact ⟨c', by rw [applyAnswers_cons c a rest c1 h1]; exact h'⟩

theorem applyAnswersP_of_ok (as : List Answer) : ∀ (c c' : Config), applyAnswers c as = .ok c' →
    applyAnswersP c as = (c', none) := by
  induction as with
  | nil => intro c c' h; simp only [applyAnswers] at h; cases h; rfl
  | cons a rest ih =>
    intro c c' h
    obtain ⟨c1, h1, h2⟩ := applyAnswers_cons_ok c a rest c' h
    simp only [applyAnswersP, h1]
    exact ih c1 c' h2

/-- options that are not among the answers read as before, as long as their section existed already or
no answer goes to that section -/
theorem applyAnswers_get_other (as : List Answer) : ∀ (c c' : Config), (∀ a ∈ as, RegularName a.1) →
    applyAnswers c as = .ok c' → ∀ s k : Text,
      (∀ a ∈ as, a.1 = s → optionxform a.2.1 ≠ optionxform k) →
      (c.hasSection s = true ∨ ∀ a ∈ as, a.1 ≠ s) → c'.get s k = c.get s k := by
  induction as with
  | nil => intro c c' _ h s k _ _; simp only [applyAnswers] at h; cases h; rfl
  | cons a rest ih =>
    intro c c' hr h s k hk hsec
    obtain ⟨c1, h1, h2⟩ := applyAnswers_cons_ok c a rest c' h
    have hra := hr a (by simp)
    have hstep : c1.get s k = c.get s k := by
      apply storeSet_get_other c a.1 a.2.1 a.2.2 c1 hra h1 s k
      · by_cases e : s = a.1
        · right; intro e2; exact hk a (by simp) e.symm e2.symm
        · left; exact e
      · intro e
        rcases hsec with h | h
        · rw [← e]; exact h
        · exact absurd e.symm (h a (by simp))
    rw [← hstep]
    apply ih c1 c' (fun b hb => hr b (List.mem_cons_of_mem _ hb)) h2 s k
      (fun b hb => hk b (List.mem_cons_of_mem _ hb))
    rcases hsec with h | h
    · exact Or.inl (storeSet_hasSection_mono c a.1 a.2.1 a.2.2 c1 hra h1 s h)
    · exact Or.inr (fun b hb => h b (List.mem_cons_of_mem _ hb))

/-- every answer reads back as given -/
theorem applyAnswers_get_self (as : List Answer) : ∀ (c c' : Config), (∀ a ∈ as, RegularName a.1) →
    (as.map answerKey).Nodup → applyAnswers c as = .ok c' →
    ∀ a ∈ as, c'.get a.1 a.2.1 = .ok a.2.2 := by
  induction as with
  | nil => intro _ _ _ _ _ a ha; simp at ha
  | cons a rest ih =>
    intro c c' hr hnd h b hb
    obtain ⟨c1, h1, h2⟩ := applyAnswers_cons_ok c a rest c' h
    have hra := hr a (by simp)
    simp only [List.map_cons, List.nodup_cons] at hnd
    simp only [List.mem_cons] at hb
    rcases hb with rfl | hb
    · rw [applyAnswers_get_other rest c1 c' (fun x hx => hr x (List.mem_cons_of_mem _ hx)) h2 b.1 b.2.1]
      · exact storeSet_get_self c b.1 b.2.1 b.2.2 c1 hra h1
      · intro x hx e1 e2
        apply hnd.1
        have : answerKey x = answerKey b := by simp [answerKey, e1, e2]
        rw [← this]
        exact List.mem_map_of_mem (f := answerKey) hx
      · exact Or.inl (storeSet_hasSection_self c b.1 b.2.1 b.2.2 c1 hra h1)
    · exact ih c1 c' (fun x hx => hr x (List.mem_cons_of_mem _ hx)) hnd.2 h2 b hb

theorem applyAnswers_provides_mono (as : List Answer) : ∀ (c c' : Config), applyAnswers c as = .ok c' →
    ∀ s k, provides c s k = true → provides c' s k = true := by
  induction as with
  | nil => intro c c' h s k hp; simp only [applyAnswers] at h; cases h; exact hp
  | cons a rest ih =>
    intro c c' h s k hp
    obtain ⟨c1, h1, h2⟩ := applyAnswers_cons_ok c a rest c' h
    exact ih c1 c' h2 s k (storeSet_provides_mono c a.1 a.2.1 a.2.2 c1 h1 s k hp)

/-- every answered input is provided afterwards (no distinctness needed) -/
theorem applyAnswers_provides_self (as : List Answer) : ∀ (c c' : Config), (∀ a ∈ as, RegularName a.1) →
    applyAnswers c as = .ok c' → ∀ a ∈ as, provides c' a.1 a.2.1 = true := by
  induction as with
  | nil => intro _ _ _ _ a ha; simp at ha
  | cons a rest ih =>
    intro c c' hr h b hb
    obtain ⟨c1, h1, h2⟩ := applyAnswers_cons_ok c a rest c' h
    simp only [List.mem_cons] at hb
    rcases hb with rfl | hb
    · exact applyAnswers_provides_mono rest c1 c' h2 _ _
        (storeSet_provides_self c b.1 b.2.1 b.2.2 c1 (hr b (by simp)) h1)
    · exact ih c1 c' (fun x hx => hr x (List.mem_cons_of_mem _ hx)) h2 b hb

/-- the hypotheses under which the solver asks: every answer goes to a regular section (form names are
never empty or `DEFAULT`), no input is asked twice, and only inputs the file does not provide are asked -/
structure AsksOk (c : Config) (as : List Answer) : Prop where
  regular : ∀ a ∈ as, RegularName a.1
  distinct : (as.map answerKey).Nodup
  absent : ∀ a ∈ as, provides c a.1 a.2.1 = false

instance (s : Text) : Decidable (RegularName s) := by unfold RegularName; infer_instance

instance (c : Config) (as : List Answer) : Decidable (AsksOk c as) :=
  if h : (∀ a ∈ as, RegularName a.1) ∧ (as.map answerKey).Nodup ∧ ∀ a ∈ as, provides c a.1 a.2.1 = false
  then isTrue ⟨h.1, h.2.1, h.2.2⟩
  else isFalse fun h' => h ⟨h'.regular, h'.distinct, h'.absent⟩

theorem AsksOk.take {c : Config} {as : List Answer} (h : AsksOk c as) (n : Nat) : AsksOk c (as.take n) where
  regular := fun a ha => h.regular a (List.mem_of_mem_take ha)
  distinct := by
    rw [List.map_take]
    exact (List.take_sublist n _).nodup h.distinct
  absent := fun a ha => h.absent a (List.mem_of_mem_take ha)

/-- what holds after the answers `as` have been stored into `c` -/
structure Kept (c : Config) (as : List Answer) (c' : Config) : Prop where
  /-- everything the file provided reads exactly as before -/
  old : ∀ s k, provides c s k = true → c'.get s k = c.get s k
  /-- every answer reads back as typed -/
  new : ∀ a ∈ as, c'.get a.1 a.2.1 = .ok a.2.2
  /-- nothing that was provided stops being provided -/
  mono : ∀ s k, provides c s k = true → provides c' s k = true
  /-- every answered input is provided -/
  answered : ∀ a ∈ as, provides c' a.1 a.2.1 = true

theorem provides_hasSection (c : Config) (s k : Text) (hs : RegularName s) (h : provides c s k = true) :
    c.hasSection s = true := by
  unfold provides Config.hasOption at h
  simp only [regular_isEmpty s hs, hs.2, Bool.false_or, decide_false, Bool.false_eq_true, if_false] at h
  unfold Config.hasSection ahas
  cases hl : c.sections.lookup s with
  | none => rw [hl] at h; cases h
  | some os => rfl

theorem kept_of_ok (c : Config) (as : List Answer) (c' : Config) (hok : AsksOk c as)
    (h : applyAnswers c as = .ok c') : Kept c as c' where
  old := by
    intro s k hp
    apply applyAnswers_get_other as c c' hok.regular h s k
    · intro a ha e1 e2
      have : provides c a.1 a.2.1 = provides c s k := by
        rw [e1]; exact provides_congr c s _ _ e2
      rw [hok.absent a ha, hp] at this
      cases this
    · by_cases hex : ∃ a ∈ as, a.1 = s
      · obtain ⟨a, ha, e⟩ := hex
        left
        exact provides_hasSection c s k (e ▸ hok.regular a ha) hp
      · right
        intro a ha e
        exact hex ⟨a, ha, e⟩
  new := applyAnswers_get_self as c c' hok.regular hok.distinct h
  mono := applyAnswers_provides_mono as c c' h
  answered := applyAnswers_provides_self as c c' hok.regular h

/-- **C20 / C13, the configuration object.**  Whenever the session is interrupted — after any number `n` of
the answers — the configuration object that the `finally` block writes holds every value the file
provided, unchanged, plus every answer given so far, exactly as typed; and whatever was provided still is. -/
theorem answers_kept (c : Config) (as : List Answer) (hok : AsksOk c as) (n : Nat) :
    ∃ cn, applyAnswers c (as.take n) = .ok cn ∧ applyAnswersP c (as.take n) = (cn, none) ∧
      Kept c (as.take n) cn := by
  obtain ⟨cn, hcn⟩ := applyAnswers_ok (as.take n) c (hok.take n).regular
  exact ⟨cn, hcn, applyAnswersP_of_ok _ c cn hcn, kept_of_ok c _ cn (hok.take n) hcn⟩

/-! ## which answers keep the file re-readable -/

/-- An answer that leaves an `IniClean` configuration `IniClean`: a clean section name (non-empty, no
newline, not `DEFAULT`), an option name that is clean once lower-cased, and a text without leading or
trailing white space (`CleanVal`; a text typed at `input()` has no newline, so that is all it says). -/
def CleanAnswer (a : Answer) : Prop :=
  CleanName a.1 ∧ CleanKey (optionxform a.2.1) ∧ CleanVal a.2.2 ∧ HeaderSafe (optionxform a.2.1, a.2.2)

instance (a : Answer) : Decidable (CleanAnswer a) := by unfold CleanAnswer; infer_instance

theorem cleanName_regular (s : Text) (h : CleanName s) : RegularName s := ⟨h.1, h.2.2⟩

theorem cleanOpts_aset (os : List (Text × Text)) (k v : Text) (h : CleanOpts os) (hk : CleanKey k)
    (hv : CleanVal v) (hs : HeaderSafe (k, v)) : CleanOpts (aset os k v) := by
  refine ⟨nodup_akeys_aset os k v h.1, ?_⟩
  intro kv hkv
  rcases mem_aset os k v kv hkv with h' | h'
  · exact h.2 kv h'
  · subst h'; exact ⟨hk, hv, hs⟩

theorem cleanOpts_singleton (k v : Text) (hk : CleanKey k) (hv : CleanVal v) (hs : HeaderSafe (k, v)) :
    CleanOpts [(k, v)] := by
  refine ⟨by simp, ?_⟩
  intro kv hkv
  simp only [List.mem_singleton] at hkv
  subst hkv; exact ⟨hk, hv, hs⟩

theorem storeSet_clean (c : Config) (s k v : Text) (c' : Config) (hc : IniClean c)
    (ha : CleanAnswer (s, k, v)) (h : storeSet c s k v = .ok c') : IniClean c' := by
  obtain ⟨hn, hk, hv, hsafe⟩ := ha
  simp only at hn hk hv hsafe
  rcases storeSet_explicit c s k v (cleanName_regular s hn) with ⟨os, hos, h'⟩ | ⟨hnot, h'⟩
  · rw [h'] at h; cases h
    refine ⟨hc.1, nodup_akeys_aset _ _ _ hc.2.1, ?_⟩
    intro x hx
    rcases mem_aset _ _ _ x hx with hx' | hx'
    · exact hc.2.2 x hx'
    · subst hx'
      have hmem := mem_of_lookup' c.sections s os hos
      exact ⟨hn, cleanOpts_aset os _ v (hc.2.2 _ hmem).2 hk hv hsafe⟩
  · rw [h'] at h; cases h
    refine ⟨hc.1, ?_, ?_⟩
    · simp only [akeys_append, akeys_cons, akeys_nil]
      apply List.nodup_append.mpr
      refine ⟨hc.2.1, by simp, ?_⟩
      intro a ha b hb
      simp only [List.mem_singleton] at hb
      subst hb
      intro e; subst e; exact hnot ha
    · intro x hx
      simp only [List.mem_append, List.mem_singleton] at hx
      rcases hx with hx | hx
      · exact hc.2.2 x hx
      · subst hx; exact ⟨hn, cleanOpts_singleton _ v hk hv hsafe⟩

theorem applyAnswers_clean (as : List Answer) : ∀ (c c' : Config), IniClean c → (∀ a ∈ as, CleanAnswer a) →
    applyAnswers c as = .ok c' → IniClean c' := by
  induction as with
  | nil => intro c c' hc _ h; simp only [applyAnswers] at h; cases h; exact hc
  | cons a rest ih =>
    intro c c' hc ha h
    obtain ⟨c1, h1, h2⟩ := applyAnswers_cons_ok c a rest c' h
    exact ih c1 c' (storeSet_clean c a.1 a.2.1 a.2.2 c1 hc (ha a (by simp)) h1)
      (fun b hb => ha b (List.mem_cons_of_mem _ hb)) h2

/-! ## the file the `finally` block leaves behind -/

theorem sessionFile_eq (file : Text) (as : List Answer) (c0 c' : Config) (h0 : parseFile file = .ok c0)
    (h : applyAnswers c0 as = .ok c') : sessionFile file as = .ok (write c') := by
  unfold sessionFile
  rw [h0]
  simp only [applyAnswersP_of_ok as c0 c' h]

/-- a file that cannot be read is left untouched (`InputStore(file)` raises before the `try`) -/
theorem sessionDisk_unreadable (file : Text) (as : List Answer) (e : Err) (h : parseFile file = .error e) :
    sessionDisk file as = file := by
  unfold sessionDisk sessionFile
  rw [h]

/-- **C20, well-formedness.**  If the configuration that gets written is `IniClean` (and the written text
has no carriage return), the file left behind parses — through `open()` with universal newlines, as the
next `habutax solve` reads it — to exactly that configuration: file content ∪ answers so far. -/
theorem session_file_wellformed (file : Text) (as : List Answer) (c0 c' : Config)
    (h0 : parseFile file = .ok c0) (h : applyAnswers c0 as = .ok c') (hclean : IniClean c')
    (hcr : '\r' ∉ write c') :
    ∃ text, sessionFile file as = .ok text ∧ sessionDisk file as = text ∧ parseFile text = .ok c' := by
  refine ⟨write c', sessionFile_eq file as c0 c' h0 h, ?_, write_parseFile_roundtrip c' hclean hcr⟩
  unfold sessionDisk
  rw [sessionFile_eq file as c0 c' h0 h]

/-- the same from hypotheses on the inputs: a clean file and clean answers -/
theorem session_file_wellformed_of_clean (file : Text) (as : List Answer) (c0 : Config)
    (h0 : parseFile file = .ok c0) (hc0 : IniClean c0) (ha : ∀ a ∈ as, CleanAnswer a) (n : Nat) :
    ∃ cn text, applyAnswers c0 (as.take n) = .ok cn ∧ sessionFile file (as.take n) = .ok text ∧
      IniClean cn ∧ ('\r' ∉ text → parseFile text = .ok cn) := by
  have hreg : ∀ a ∈ as.take n, RegularName a.1 :=
    fun a hm => cleanName_regular a.1 (ha a (List.mem_of_mem_take hm)).1
  obtain ⟨cn, hcn⟩ := applyAnswers_ok (as.take n) c0 hreg
  have hclean := applyAnswers_clean (as.take n) c0 cn hc0 (fun a hm => ha a (List.mem_of_mem_take hm)) hcn
  refine ⟨cn, write cn, hcn, sessionFile_eq file _ c0 cn h0 hcn, hclean, ?_⟩
  intro hcr
  exact write_parseFile_roundtrip cn hclean hcr

/-- **C13 / C20, the re-run.**  After re-reading the file left behind, every input answered before the
interruption is provided (so the re-run does not ask for it again), it reads as typed, and everything the
original file provided reads as before. -/
theorem rerun_provides (file : Text) (as : List Answer) (c0 : Config) (h0 : parseFile file = .ok c0)
    (hok : AsksOk c0 as) (n : Nat) :
    ∃ cn, applyAnswers c0 (as.take n) = .ok cn ∧
      (IniClean cn → '\r' ∉ write cn →
        ∃ text d, sessionFile file (as.take n) = .ok text ∧ parseFile text = .ok d ∧
          (∀ a ∈ as.take n, provides d a.1 a.2.1 = true ∧ d.get a.1 a.2.1 = .ok a.2.2) ∧
          (∀ s k, provides c0 s k = true → provides d s k = true ∧ d.get s k = c0.get s k)) := by
  obtain ⟨cn, hcn, _, hk⟩ := answers_kept c0 as hok n
  refine ⟨cn, hcn, ?_⟩
  intro hclean hcr
  obtain ⟨text, hs, _, hp⟩ := session_file_wellformed file (as.take n) c0 cn h0 hcn hclean hcr
  exact ⟨text, cn, hs, hp, fun a ha => ⟨hk.answered a ha, hk.new a ha⟩,
    fun s k hp' => ⟨hk.mono s k hp', hk.old s k hp'⟩⟩

/-! ### the excluded points, by evaluation

Answers are stored RAW (`prompt_input` returns the line as typed, `_attempt_input` stores it), so an answer
with a leading or trailing blank makes the configuration object non-`IniClean`: the file does not read back
to the same OBJECT (the blanks are stripped), though the input stays provided and — every `Input.value`
strips — means the same.  A multi-line answer cannot come out of `input()`. -/

def exAnswers : List Answer := [(['1', '0', '4', '0'], ['k'], [' ', 'y', 'e', 's'])]

example : (applyAnswersP {} exAnswers).1 =
    { sections := [(['1', '0', '4', '0'], [(['k'], [' ', 'y', 'e', 's'])])] } := by decide

example : ¬ IniClean (applyAnswersP {} exAnswers).1 := by decide

def exText : Text := ['[', '1', '0', '4', '0', ']', '\n', 'k', ' ', '=', ' ', ' ', 'y', 'e', 's', '\n', '\n']

example : (sessionFile [] exAnswers).toOption = some exText := by decide

example : (parseFile exText).toOption =
    some { sections := [(['1', '0', '4', '0'], [(['k'], ['y', 'e', 's'])])] } := by decide

/-! ## decimal numerals -/

theorem digitChar_lt_ten (d : Nat) (h : d < 10) : d.digitChar = Char.ofNat (48 + d) := by
  match d, h with
  | 0, _ => rfl | 1, _ => rfl | 2, _ => rfl | 3, _ => rfl | 4, _ => rfl
  | 5, _ => rfl | 6, _ => rfl | 7, _ => rfl | 8, _ => rfl | 9, _ => rfl
  | n + 10, h => omega

theorem toDigits_eq_decOfNat (n : Nat) : Nat.toDigits 10 n = decOfNat n := by
  induction n using Nat.strongRecOn with
  | _ n ih =>
    rw [decOfNat]
    by_cases h : n < 10
    · simp only [h, dif_pos]
      rw [Nat.toDigits_of_lt_base h, digitChar_lt_ten n h]
    · simp only [h, dif_neg, not_false_eq_true]
      rw [Nat.toDigits_of_base_le (by decide) (by omega), ih (n / 10) (by omega),
        digitChar_lt_ten (n % 10) (by omega)]

/-- the model of `str(year)` inside `read_dict` is the decimal numeral -/
theorem toStr_int_ofNat (n : Nat) : (PyVal.int (Int.ofNat n)).toStr = decOfNat n := by
  show (toString (Int.ofNat n)).toList = decOfNat n
  have : toString (Int.ofNat n) = Nat.repr n := rfl
  rw [this, Nat.toList_repr, toDigits_eq_decOfNat]

theorem isDigit_ofNat (d : Nat) (h : d < 10) : isDigit (Char.ofNat (48 + d)) = true ∧
    (Char.ofNat (48 + d)).toNat - 48 = d := by
  match d, h with
  | 0, _ => decide | 1, _ => decide | 2, _ => decide | 3, _ => decide | 4, _ => decide
  | 5, _ => decide | 6, _ => decide | 7, _ => decide | 8, _ => decide | 9, _ => decide
  | n + 10, h => omega

theorem decOfNat_digits (n : Nat) : ∀ c ∈ decOfNat n, isDigit c = true := by
  induction n using Nat.strongRecOn with
  | _ n ih =>
    rw [decOfNat]
    by_cases h : n < 10
    · simp only [h, dif_pos, List.mem_singleton]
      intro c hc; subst hc; exact (isDigit_ofNat n h).1
    · simp only [h, dif_neg, not_false_eq_true, List.mem_append, List.mem_singleton]
      intro c hc
      rcases hc with hc | hc
      · exact ih (n / 10) (by omega) c hc
      · subst hc; exact (isDigit_ofNat (n % 10) (by omega)).1

theorem decOfNat_ne_nil (n : Nat) : decOfNat n ≠ [] := by
  rw [decOfNat]
  by_cases h : n < 10 <;> simp [h]

/-- reading digits left to right -/
theorem parseDigits_append_digit (ds : Text) (d : Nat) (hd : d < 10) :
    ∀ (acc : Nat) (b : Bool) (m : Nat), parseDigits ds acc b = some m → (ds ≠ [] ∨ b = true) →
      parseDigits (ds ++ [Char.ofNat (48 + d)]) acc b = some (m * 10 + d) := by
  induction ds with
  | nil =>
    intro acc b m h hb
    have hb' : b = true := by
      rcases hb with h' | h'
      · exact absurd rfl h'
      · exact h'
    subst hb'
    simp only [parseDigits, if_true] at h
    cases h
    simp [parseDigits, (isDigit_ofNat d hd).1, (isDigit_ofNat d hd).2]
  | cons c cs ih =>
    intro acc b m h _
    simp only [List.cons_append, parseDigits] at h ⊢
    by_cases hc : isDigit c = true
    · simp only [hc, if_true] at h ⊢
      exact ih _ true m h (Or.inr rfl)
    · simp only [hc, Bool.false_eq_true, if_false] at h ⊢
      by_cases hu : (c = '_' && b) = true
      · simp only [hu, if_true] at h ⊢
        cases cs with
        | nil => simp [parseDigits] at h
        | cons c2 cs2 => exact ih _ false m h (Or.inl (by simp))
      · simp only [hu, Bool.false_eq_true, if_false] at h
        cases h

theorem parseDigits_decOfNat (n : Nat) : parseDigits (decOfNat n) 0 false = some n := by
  induction n using Nat.strongRecOn with
  | _ n ih =>
    rw [decOfNat]
    by_cases h : n < 10
    · simp only [h, dif_pos]
      simp [parseDigits, (isDigit_ofNat n h).1, (isDigit_ofNat n h).2]
    · simp only [h, dif_neg, not_false_eq_true]
      have := parseDigits_append_digit (decOfNat (n / 10)) (n % 10) (by omega) 0 false (n / 10)
        (ih (n / 10) (by omega)) (Or.inl (decOfNat_ne_nil _))
      rw [this]
      congr 1
      omega

theorem isSpace_of_isDigit (c : Char) (h : isDigit c = true) : isSpace c = false := by
  unfold isDigit at h
  simp only [Bool.and_eq_true, decide_eq_true_eq] at h
  unfold isSpace
  simp only [Bool.or_eq_false_iff, Bool.and_eq_false_iff, decide_eq_false_iff_not, beq_eq_false_iff_ne]
  omega

/-- a text without white space (and hence without newline) is a clean value -/
theorem cleanVal_of_nospace (v : Text) (h : ∀ c ∈ v, isSpace c = false) : CleanVal v := by
  have hsplit : splitNl v = (v, []) := by
    induction v with
    | nil => rfl
    | cons c cs ih =>
      have hc : c ≠ '\n' := by
        intro e; subst e
        have := h '\n' (by simp)
        simp [isSpace_nl] at this
      simp only [splitNl, hc, if_false, ih (fun x hx => h x (List.mem_cons_of_mem _ hx))]
  have hhead : headOk v = true := by
    cases v with
    | nil => rfl
    | cons c cs => simp [headOk, h c (by simp)]
  have hlast : lastOk v = true := by
    unfold lastOk
    cases hr : v.reverse with
    | nil => rfl
    | cons c cs =>
      have : c ∈ v := by
        have : c ∈ v.reverse := by rw [hr]; simp
        exact List.mem_reverse.mp this
      simp [headOk, h c this]
  refine ⟨?_, ?_, rstrip_of_lastOk v hlast⟩
  · rw [hsplit]; exact ⟨hhead, hlast⟩
  · rw [hsplit]; intro l hl; simp at hl

theorem cleanVal_decOfNat (n : Nat) : CleanVal (decOfNat n) :=
  cleanVal_of_nospace _ (fun c hc => isSpace_of_isDigit c (decOfNat_digits n c hc))

/-- `int(str(n)) == n` -/
theorem pyInt_decOfNat (n : Nat) : pyInt (decOfNat n) = some (Int.ofNat n) := by
  have hstrip : strip (decOfNat n) = decOfNat n := by
    apply strip_of_ok
    · cases hd : decOfNat n with
      | nil => rfl
      | cons c cs =>
        have : c ∈ decOfNat n := by rw [hd]; simp
        simp [headOk, isSpace_of_isDigit c (decOfNat_digits n c this)]
    · unfold lastOk
      cases hr : (decOfNat n).reverse with
      | nil => rfl
      | cons c cs =>
        have : c ∈ decOfNat n := by
          have : c ∈ (decOfNat n).reverse := by rw [hr]; simp
          exact List.mem_reverse.mp this
        simp [headOk, isSpace_of_isDigit c (decOfNat_digits n c this)]
  unfold pyInt
  rw [hstrip]
  cases hd : decOfNat n with
  | nil => exact absurd hd (decOfNat_ne_nil n)
  | cons c cs =>
    have hc : isDigit c = true := decOfNat_digits n c (by rw [hd]; simp)
    have h1 : c ≠ '-' := by intro e; subst e; revert hc; decide
    have h2 : c ≠ '+' := by intro e; subst e; revert hc; decide
    have := parseDigits_decOfNat n
    rw [hd] at this
    split
    · rename_i heq; simp at heq; exact absurd heq.1 h1
    · rename_i heq; simp at heq; exact absurd heq.1 h2
    · rw [this]; rfl

/-! ## `to_config` is a sequence of `storeSet`s -/

theorem contains_regular (c : Config) (s : Text) (hs : RegularName s) : c.contains s = c.hasSection s := by
  unfold Config.contains
  simp [hs.2]

/-- `if form not in config: config[form] = {}` then `config[form][line] = text` is `InputStore.__setitem__`
in other words (for form names other than `''` and `DEFAULT`), and cannot fail -/
theorem toConfigStep_eq (c : Config) (t : Text × Text × Text) (hr : RegularName t.1) :
    storeSet c t.1 t.2.1 t.2.2 = .ok (toConfigStep c t) := by
  obtain ⟨c', hc'⟩ := storeSet_ok c t.1 t.2.1 t.2.2 hr
  rw [hc']
  congr 1
  unfold toConfigStep
  unfold storeSet at hc'
  by_cases hh : c.hasSection t.1 = true
  · simp only [hh, if_true] at hc'
    simp only [contains_regular c t.1 hr, hh, if_true, Config.proxySet, Bool.not_true, Bool.false_eq_true,
      if_false]
    unfold Config.set at hc'
    rw [hc']
  · simp only [hh, Bool.false_eq_true, if_false] at hc'
    have hnot : t.1 ∉ akeys c.sections := fun hm => hh ((ahas_iff _ _).mpr hm)
    have hahas : ahas c.sections t.1 = false := ahas_false_of_not_mem _ _ hnot
    have hadd : c.addSection t.1 = .ok { c with sections := c.sections ++ [(t.1, [])] } := by
      unfold Config.addSection
      simp [hr.2, hahas]
    rw [hadd] at hc'
    simp only at hc'
    have hitem : (c.setItem t.1 []).1 = { c with sections := c.sections ++ [(t.1, [])] } := by
      unfold Config.setItem
      simp only [hr.2, if_false, hahas, Bool.false_eq_true, hadd, Config.readDictItems]
    have hcont : ({ c with sections := c.sections ++ [(t.1, [])] } : Config).contains t.1 = true := by
      rw [contains_regular _ t.1 hr]
      unfold Config.hasSection ahas
      simp only [lookup_append_last c.sections t.1 [] hnot]; rfl
    simp only [contains_regular c t.1 hr, hh, Bool.false_eq_true, if_false, hitem, Config.proxySet, hcont,
      Bool.not_true]
    unfold Config.set at hc'
    rw [hc']

theorem toConfig_fold_eq (ts : List (Text × Text × Text)) : ∀ c : Config, (∀ t ∈ ts, RegularName t.1) →
    applyAnswers c ts = .ok (ts.foldl toConfigStep c) := by
  induction ts with
  | nil => intro c _; rfl
  | cons t rest ih =>
    intro c hr
    rw [applyAnswers_cons c t rest _ (toConfigStep_eq c t (hr t (by simp)))]
    exact ih _ (fun x hx => hr x (List.mem_cons_of_mem _ hx))

/-- `ValueStore.to_config` = storing the triples one after the other into an empty parser -/
theorem toConfig_eq_applyAnswers (ts : List (Text × Text × Text)) (hr : ∀ t ∈ ts, RegularName t.1) :
    applyAnswers {} ts = .ok (toConfig ts) := toConfig_fold_eq ts {} hr

/-! ## `solution['habutax'] = {...}` -/

theorem attachMeta_explicit (c : Config) (y : Nat) (v : Text) (hno : c.hasSection habutax = false) :
    attachMeta c y v =
      { c with sections := c.sections ++ [(habutax, [(taxYearKey, decOfNat y), (versionKey, v)])] } := by
  have hnot : habutax ∉ akeys c.sections := fun hm => by
    have := (ahas_iff c.sections habutax).mpr hm
    unfold Config.hasSection at hno
    rw [hno] at this; cases this
  have hahas : ahas c.sections habutax = false := ahas_false_of_not_mem _ _ hnot
  have hd : habutax ≠ DEFAULT := by decide
  have hadd : c.addSection habutax = .ok { c with sections := c.sections ++ [(habutax, [])] } := by
    unfold Config.addSection
    simp [hd, hahas]
  have hk1 : optionxform taxYearKey = taxYearKey := by decide
  have hk2 : optionxform versionKey = versionKey := by decide
  have he : habutax.isEmpty = false := by decide
  have hc2 : ([taxYearKey] : List Text).contains versionKey = false := by decide
  unfold attachMeta Config.setItem
  simp only [hd, if_false, hahas, Bool.false_eq_true, hadd]
  simp only [Config.readDictItems, hk1, hk2, List.contains_nil, Bool.false_eq_true, if_false, toStr_int_ofNat,
    Config.setAny, Config.setRaw, he, Bool.false_or, decide_false, hd, lookup_append_last c.sections habutax _ hnot,
    aset_append_last c.sections habutax _ _ hnot, hc2, PyVal.toStr]
  have hne : taxYearKey ≠ versionKey := by decide
  have hrepr : (toString (Int.ofNat y)).toList = decOfNat y := toStr_int_ofNat y
  simp only [aset, hne, if_false]
  rw [hrepr]

/-! ## what `fill_pdfs` reads -/

theorem readOpts_clean (c : Config) (n : Text) (os : List (Text × Text)) (hn : RegularName n)
    (_hd : c.defaults = []) (hl : c.sections.lookup n = some os)
    (hlow : ∀ kv ∈ os, optionxform kv.1 = kv.1) (hnd : (akeys os).Nodup) :
    ∀ (sub : List (Text × Text)), (∀ kv ∈ sub, kv ∈ os) → readOpts c n (akeys sub) = .ok sub := by
  intro sub
  induction sub with
  | nil => intro _; rfl
  | cons kv rest ih =>
    intro hsub
    have hmem := hsub kv (by simp)
    have hlk : os.lookup kv.1 = some kv.2 := by
      -- first match in a nodup list is the member itself
      have : ∀ (l : List (Text × Text)), (akeys l).Nodup → kv ∈ l → l.lookup kv.1 = some kv.2 := by
        intro l
        induction l with
        | nil => intro _ h; simp at h
        | cons p l ihl =>
          intro hnd hm
          obtain ⟨k', v'⟩ := p
          simp only [akeys_cons, List.nodup_cons] at hnd
          simp only [List.mem_cons] at hm
          rcases hm with hm | hm
          · subst hm; simp [List.lookup]
          · have hne : kv.1 ≠ k' := by
              intro e
              apply hnd.1
              rw [← e]
              exact List.mem_map_of_mem (f := Prod.fst) hm
            have h1 : (kv.1 == k') = false := by simpa using hne
            simp only [List.lookup, h1]
            exact ihl hnd.2 hm
      exact this os hnd hmem
    have hget : c.proxyGet n kv.1 = .ok kv.2 := by
      unfold Config.proxyGet
      have hcont : c.contains n = true := by
        rw [contains_regular c n hn]
        unfold Config.hasSection ahas
        rw [hl]; rfl
      have hopt : c.hasOption n kv.1 = true := by
        unfold Config.hasOption
        simp only [regular_isEmpty n hn, hn.2, Bool.false_or, decide_false, Bool.false_eq_true, if_false, hl,
          hlow kv hmem, ahas, hlk]
        rfl
      simp only [hcont, hopt, Bool.not_true, Bool.false_eq_true, if_false]
      unfold Config.get
      simp only [hl, hlow kv hmem, hlk]
    simp only [akeys_cons, readOpts, hget, ih (fun x hx => hsub x (List.mem_cons_of_mem _ hx))]

theorem readForms_clean (c : Config) (hd : c.defaults = []) (hnd : (akeys c.sections).Nodup)
    (hsec : ∀ s ∈ c.sections, RegularName s.1 ∧ (akeys s.2).Nodup ∧ ∀ kv ∈ s.2, optionxform kv.1 = kv.1) :
    ∀ (sub : List (Text × List (Text × Text))), (∀ s ∈ sub, s ∈ c.sections) →
      readForms c (akeys sub) = .ok sub := by
  intro sub
  induction sub with
  | nil => intro _; rfl
  | cons s rest ih =>
    intro hsub
    have hmem := hsub s (by simp)
    obtain ⟨hreg, hk, hlow⟩ := hsec s hmem
    have hl : c.sections.lookup s.1 = some s.2 := by
      have : ∀ (l : List (Text × List (Text × Text))), (akeys l).Nodup → s ∈ l → l.lookup s.1 = some s.2 := by
        intro l
        induction l with
        | nil => intro _ h; simp at h
        | cons p l ihl =>
          intro hnd hm
          obtain ⟨k', v'⟩ := p
          simp only [akeys_cons, List.nodup_cons] at hnd
          simp only [List.mem_cons] at hm
          rcases hm with hm | hm
          · subst hm; simp [List.lookup]
          · have hne : s.1 ≠ k' := by
              intro e
              apply hnd.1
              rw [← e]
              exact List.mem_map_of_mem (f := Prod.fst) hm
            have h1 : (s.1 == k') = false := by simpa using hne
            simp only [List.lookup, h1]
            exact ihl hnd.2 hm
      exact this c.sections hnd hmem
    have hiter : c.proxyIter s.1 = .ok (akeys s.2) := by
      unfold Config.proxyIter
      have hcont : c.contains s.1 = true := by
        rw [contains_regular c s.1 hreg]
        unfold Config.hasSection ahas
        rw [hl]; rfl
      simp only [hcont, Bool.not_true, Bool.false_eq_true, if_false, hreg.2, Config.options, hl, hd, akeys_nil,
        List.filter_nil, List.append_nil]
    have hopts := readOpts_clean c s.1 s.2 hreg hd hl hlow hk s.2 (fun _ h => h)
    simp only [akeys_cons, readForms, hreg.2, if_false, hiter, hopts,
      ih (fun x hx => hsub x (List.mem_cons_of_mem _ hx))]

/-! ## where the entries of the configuration come from -/

/-- all (section, option, value) entries -/
def entries (c : Config) : List (Text × Text × Text) :=
  c.sections.flatMap fun s => s.2.map fun kv => (s.1, kv.1, kv.2)

theorem mem_entries (c : Config) (e : Text × Text × Text) :
    e ∈ entries c ↔ ∃ s ∈ c.sections, ∃ kv ∈ s.2, e = (s.1, kv.1, kv.2) := by
  unfold entries
  simp only [List.mem_flatMap, List.mem_map]
  constructor
  · rintro ⟨s, hs, kv, hkv, rfl⟩; exact ⟨s, hs, kv, hkv, rfl⟩
  · rintro ⟨s, hs, kv, hkv, rfl⟩; exact ⟨s, hs, kv, hkv, rfl⟩

theorem storeSet_facts (c : Config) (s k v : Text) (c' : Config) (hs : RegularName s)
    (h : storeSet c s k v = .ok c') :
    c'.defaults = c.defaults ∧
    (∀ s', s' ≠ s → c'.hasSection s' = c.hasSection s') ∧
    (∀ e ∈ entries c', e ∈ entries c ∨ e = (s, optionxform k, v)) := by
  rcases storeSet_explicit c s k v hs with ⟨os, hos, h'⟩ | ⟨hn, h'⟩
  · rw [h'] at h; cases h
    refine ⟨rfl, ?_, ?_⟩
    · intro s' hne
      unfold Config.hasSection ahas
      simp only [lookup_aset_ne c.sections s s' _ hne]
    · intro e he
      obtain ⟨x, hx, kv, hkv, rfl⟩ := (mem_entries _ e).mp he
      rcases mem_aset _ _ _ x hx with hx' | hx'
      · exact Or.inl ((mem_entries c _).mpr ⟨x, hx', kv, hkv, rfl⟩)
      · subst hx'
        rcases mem_aset _ _ _ kv hkv with hkv' | hkv'
        · exact Or.inl ((mem_entries c _).mpr ⟨(s, os), mem_of_lookup' _ _ _ hos, kv, hkv', rfl⟩)
        · subst hkv'; exact Or.inr rfl
  · rw [h'] at h; cases h
    refine ⟨rfl, ?_, ?_⟩
    · intro s' hne
      unfold Config.hasSection ahas
      simp only [lookup_append_ne c.sections s s' _ hne]
    · intro e he
      obtain ⟨x, hx, kv, hkv, rfl⟩ := (mem_entries _ e).mp he
      simp only [List.mem_append, List.mem_singleton] at hx
      rcases hx with hx | hx
      · exact Or.inl ((mem_entries c _).mpr ⟨x, hx, kv, hkv, rfl⟩)
      · subst hx
        simp only [List.mem_singleton] at hkv
        subst hkv; exact Or.inr rfl

theorem applyAnswers_facts (as : List Answer) : ∀ (c c' : Config), (∀ a ∈ as, RegularName a.1) →
    applyAnswers c as = .ok c' →
    c'.defaults = c.defaults ∧
    (∀ s', (∀ a ∈ as, a.1 ≠ s') → c'.hasSection s' = c.hasSection s') ∧
    (∀ e ∈ entries c', e ∈ entries c ∨ ∃ a ∈ as, e = (a.1, optionxform a.2.1, a.2.2)) := by
  induction as with
  | nil =>
    intro c c' _ h
    simp only [applyAnswers] at h; cases h
    exact ⟨rfl, fun _ _ => rfl, fun e he => Or.inl he⟩
  | cons a rest ih =>
    intro c c' hr h
    obtain ⟨c1, h1, h2⟩ := applyAnswers_cons_ok c a rest c' h
    obtain ⟨hd1, hs1, he1⟩ := storeSet_facts c a.1 a.2.1 a.2.2 c1 (hr a (by simp)) h1
    obtain ⟨hd2, hs2, he2⟩ := ih c1 c' (fun x hx => hr x (List.mem_cons_of_mem _ hx)) h2
    refine ⟨hd2.trans hd1, ?_, ?_⟩
    · intro s' hne
      rw [hs2 s' (fun x hx => hne x (List.mem_cons_of_mem _ hx)), hs1 s' (fun e => hne a (by simp) e.symm)]
    · intro e he
      rcases he2 e he with h' | ⟨x, hx, rfl⟩
      · rcases he1 e h' with h'' | h''
        · exact Or.inl h''
        · exact Or.inr ⟨a, by simp, h''⟩
      · exact Or.inr ⟨x, List.mem_cons_of_mem _ hx, rfl⟩

/-! ## the solution file -/

/-- the hypotheses on the (form, line, text) triples of a solution -/
structure SolutionOk (ts : List (Text × Text × Text)) : Prop where
  /-- form names: non-empty, no newline, not `DEFAULT`, not `habutax` -/
  forms : ∀ t ∈ ts, CleanName t.1 ∧ t.1 ≠ habutax
  /-- line names that are clean once lower-cased, texts without leading / trailing white space on any
  of their lines (and no later line starting with `#` / `;`) -/
  lines : ∀ t ∈ ts, CleanKey (optionxform t.2.1) ∧ CleanVal t.2.2 ∧ HeaderSafe (optionxform t.2.1, t.2.2)
  /-- no two lines of a form collide after lower-casing -/
  distinct : (ts.map answerKey).Nodup

instance (ts : List (Text × Text × Text)) : Decidable (SolutionOk ts) :=
  if h : (∀ t ∈ ts, CleanName t.1 ∧ t.1 ≠ habutax) ∧
      (∀ t ∈ ts, CleanKey (optionxform t.2.1) ∧ CleanVal t.2.2 ∧ HeaderSafe (optionxform t.2.1, t.2.2)) ∧
      (ts.map answerKey).Nodup
  then isTrue ⟨h.1, h.2.1, h.2.2⟩
  else isFalse fun h' => h ⟨h'.forms, h'.lines, h'.distinct⟩

theorem iniClean_empty : IniClean {} := by decide

theorem solution_config_clean (ts : List (Text × Text × Text)) (y : Nat) (v : Text) (hok : SolutionOk ts)
    (hv : CleanVal v) :
    IniClean (toConfig ts) ∧ (toConfig ts).defaults = [] ∧
    attachMeta (toConfig ts) y v = { defaults := [], sections := (toConfig ts).sections ++
        [(habutax, [(taxYearKey, decOfNat y), (versionKey, v)])] } ∧
    habutax ∉ akeys (toConfig ts).sections ∧
    IniClean (attachMeta (toConfig ts) y v) := by
  have hreg : ∀ t ∈ ts, RegularName t.1 := fun t ht => cleanName_regular t.1 (hok.forms t ht).1
  have happ := toConfig_eq_applyAnswers ts hreg
  have hclean : IniClean (toConfig ts) :=
    applyAnswers_clean ts {} _ iniClean_empty
      (fun t ht => ⟨(hok.forms t ht).1, (hok.lines t ht).1, (hok.lines t ht).2.1, (hok.lines t ht).2.2⟩) happ
  obtain ⟨hdef, hsec, _⟩ := applyAnswers_facts ts {} _ hreg happ
  have hdef' : (toConfig ts).defaults = [] := hdef
  have hno : (toConfig ts).hasSection habutax = false := by
    rw [hsec habutax (fun t ht => (hok.forms t ht).2)]; rfl
  have hnot : habutax ∉ akeys (toConfig ts).sections := by
    intro hm
    have := (ahas_iff _ _).mpr hm
    unfold Config.hasSection at hno
    rw [hno] at this; cases this
  have hexp := attachMeta_explicit (toConfig ts) y v hno
  rw [hdef'] at hexp
  refine ⟨hclean, hdef', hexp, hnot, ?_⟩
  rw [hexp]
  refine ⟨by simp [CleanOpts], ?_, ?_⟩
  · simp only [akeys_append, akeys_cons, akeys_nil]
    apply List.nodup_append.mpr
    refine ⟨hclean.2.1, by simp, ?_⟩
    intro a ha b hb
    simp only [List.mem_singleton] at hb
    subst hb
    intro e; subst e; exact hnot ha
  · intro s hs
    simp only [List.mem_append, List.mem_singleton] at hs
    rcases hs with hs | hs
    · exact hclean.2.2 s hs
    · subst hs
      refine ⟨show CleanName habutax by decide, ?_⟩
      have hs1 : HeaderSafe (taxYearKey, decOfNat y) := by
        show taxYearKey.head? = some '[' → _
        intro h; exact absurd h (by decide)
      have hs2 : HeaderSafe (versionKey, v) := by
        show versionKey.head? = some '[' → _
        intro h; exact absurd h (by decide)
      have h1 : CleanOpts [(taxYearKey, decOfNat y)] :=
        cleanOpts_singleton _ _ (by decide) (cleanVal_decOfNat y) hs1
      have h2 := cleanOpts_aset _ versionKey v h1 (by decide) hv hs2
      have : aset [(taxYearKey, decOfNat y)] versionKey v = [(taxYearKey, decOfNat y), (versionKey, v)] := by
        have hne : taxYearKey ≠ versionKey := by decide
        simp [aset, hne]
      rw [this] at h2
      exact h2

theorem lookup_of_mem_nodup {β : Type} (l : List (Text × β)) (p : Text × β) (hnd : (akeys l).Nodup)
    (hm : p ∈ l) : l.lookup p.1 = some p.2 := by
  induction l with
  | nil => simp at hm
  | cons q l ih =>
    obtain ⟨k', v'⟩ := q
    simp only [akeys_cons, List.nodup_cons] at hnd
    simp only [List.mem_cons] at hm
    rcases hm with hm | hm
    · subst hm; simp [List.lookup]
    · have hne : p.1 ≠ k' := by
        intro e
        apply hnd.1
        rw [← e]
        exact List.mem_map_of_mem (f := Prod.fst) hm
      have h1 : (p.1 == k') = false := by simpa using hne
      simp only [List.lookup, h1]
      exact ih hnd.2 hm

/-- what `fill_pdfs` reads from a clean configuration that carries the `habutax` section last -/
theorem readBack_explicit (S : List (Text × List (Text × Text))) (y : Nat) (v : Text)
    (hclean : IniClean { defaults := [], sections := S }) (hnot : habutax ∉ akeys S) :
    readBack { defaults := [], sections := S ++ [(habutax, [(taxYearKey, decOfNat y), (versionKey, v)])] } =
      .ok (Int.ofNat y, S) := by
  unfold readBack
  have hget : ({ defaults := [], sections := S ++ [(habutax, [(taxYearKey, decOfNat y), (versionKey, v)])] } :
      Config).get habutax taxYearKey = .ok (decOfNat y) := by
    unfold Config.get
    simp only [lookup_append_last S habutax _ hnot]
    have hk1 : optionxform taxYearKey = taxYearKey := by decide
    simp [hk1, List.lookup]
  simp only [hget, pyInt_decOfNat, Config.removeSection, aerase_append_last S habutax _ hnot, Config.iter]
  have hforms := readForms_clean { defaults := [], sections := S } rfl hclean.2.1
    (fun s hs => ⟨cleanName_regular s.1 (hclean.2.2 s hs).1, (hclean.2.2 s hs).2.1,
      fun kv hkv => ((hclean.2.2 s hs).2.2 kv hkv).1.2.2.1⟩) S (fun _ h => h)
  simp only [readForms, if_true, hforms]

/-- **C14, the container.**  For (form, line, text) triples satisfying `SolutionOk` and a clean version
text: the solution file `solve` writes parses back; what `fill_pdfs` / `_read_form_fields` then read is the
tax year as the integer that was written and exactly the sections `to_config` built — which, as a finite
map, are the triples (line names lower-cased): every triple is there with its text, and nothing else. -/
theorem solution_file_roundtrip (ts : List (Text × Text × Text)) (y : Nat) (v : Text) (hok : SolutionOk ts)
    (hv : CleanVal v) :
    ∃ d, parse (write (attachMeta (toConfig ts) y v)) = .ok d ∧
      readBack d = .ok (Int.ofNat y, (toConfig ts).sections) ∧
      (∀ t ∈ ts, ∃ os, (toConfig ts).sections.lookup t.1 = some os ∧
        os.lookup (optionxform t.2.1) = some t.2.2) ∧
      (∀ s ∈ (toConfig ts).sections, ∀ kv ∈ s.2, ∃ t ∈ ts, t.1 = s.1 ∧ optionxform t.2.1 = kv.1 ∧
        t.2.2 = kv.2) := by
  obtain ⟨hclean0, hdef, hexp, hnot, hclean⟩ := solution_config_clean ts y v hok hv
  have hreg : ∀ t ∈ ts, RegularName t.1 := fun t ht => cleanName_regular t.1 (hok.forms t ht).1
  have happ := toConfig_eq_applyAnswers ts hreg
  refine ⟨attachMeta (toConfig ts) y v, write_parse_roundtrip _ hclean, ?_, ?_, ?_⟩
  · rw [hexp]
    apply readBack_explicit _ y v ?_ hnot
    have : ({ defaults := [], sections := (toConfig ts).sections } : Config) = toConfig ts := by
      cases hc : toConfig ts with
      | mk d s => rw [hc] at hdef; simp only at hdef; subst hdef; rfl
    rw [this]; exact hclean0
  · intro t ht
    have hg := applyAnswers_get_self ts {} _ hreg hok.distinct happ t ht
    unfold Config.get at hg
    cases hl : (toConfig ts).sections.lookup t.1 with
    | none =>
      rw [hl] at hg
      simp only [(hreg t ht).2, if_false] at hg
      cases hg
    | some os =>
      rw [hl] at hg
      simp only [hdef] at hg
      cases hl2 : os.lookup (optionxform t.2.1) with
      | none => rw [hl2] at hg; simp [List.lookup] at hg
      | some x =>
        rw [hl2] at hg
        simp only at hg
        cases hg
        exact ⟨os, rfl, hl2⟩
  · intro s hs kv hkv
    obtain ⟨_, _, hent⟩ := applyAnswers_facts ts {} _ hreg happ
    have hmem : (s.1, kv.1, kv.2) ∈ entries (toConfig ts) := (mem_entries _ _).mpr ⟨s, hs, kv, hkv, rfl⟩
    rcases hent _ hmem with h | ⟨t, ht, he⟩
    · simp [entries] at h
    · simp only [Prod.mk.injEq] at he
      exact ⟨t, ht, he.1.symm, he.2.1.symm, he.2.2.symm⟩

/-- the same through a real file (`open()`, universal newlines), when the text has no carriage return -/
theorem solution_file_roundtrip_file (ts : List (Text × Text × Text)) (y : Nat) (v : Text)
    (hok : SolutionOk ts) (hv : CleanVal v) (hcr : '\r' ∉ write (attachMeta (toConfig ts) y v)) :
    ∃ d, parseFile (write (attachMeta (toConfig ts) y v)) = .ok d ∧
      readBack d = .ok (Int.ofNat y, (toConfig ts).sections) := by
  obtain ⟨d, hd, hr, _⟩ := solution_file_roundtrip ts y v hok hv
  refine ⟨d, ?_, hr⟩
  unfold parseFile
  rw [universalNewlines_of_no_cr _ hcr]; exact hd

/-! ## the hypotheses are satisfiable, and the excluded points by evaluation -/

def exTriples : List (Text × Text × Text) :=
  [(['1', '0', '4', '0'], ['1', 'a'], ['1', '2', '.', '0', '0']),
   (['1', '0', '4', '0'], ['n', 'a', 'm', 'e'], ['A', ' ', 'Q']),
   (['w', '-', '2', ':', '0'], ['B', 'o', 'x'], ['x', '\n', '\n', 'y'])]

example : SolutionOk exTriples := by decide

example : AsksOk { sections := [(['1', '0', '4', '0'], [(['a'], ['1'])])] }
    [(['1', '0', '4', '0'], ['b'], ['2']), (['w'], ['a'], ['3'])] := by decide

/-- a text with surrounding blanks comes back stripped (`SolutionOk` excludes it; C14 says "text up to
surrounding whitespace") -/
example :
    ((parse (write (attachMeta (toConfig [(['f'], ['k'], [' ', 'x', ' '])]) 2023 ['1']))).toOption.bind
      fun d => (readBack d).toOption).map Prod.snd = some [(['f'], [(['k'], ['x'])])] := by decide

/-- two line names that differ only in case collide: the later text wins -/
example : (toConfig [(['f'], ['A'], ['1']), (['f'], ['a'], ['2'])]).sections = [(['f'], [(['a'], ['2'])])] := by
  decide

/-- a form called `DEFAULT` lands in the DEFAULT section, and then shows up in every other form read back -/
example :
    ((parse (write (attachMeta (toConfig [(DEFAULT, ['k'], ['1']), (['f'], ['j'], ['2'])]) 2023 ['1']))).toOption.bind
      fun d => (readBack d).toOption).map Prod.snd = some [(['f'], [(['j'], ['2']), (['k'], ['1'])])] := by decide

end HabuVerif.Cli
