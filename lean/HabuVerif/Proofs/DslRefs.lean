import HabuVerif.Dsl.Refs
import HabuVerif.Dsl.Cat
/-!
# Soundness of the read-set analysis `refsV` / `refsI`

`eval_reads_in_refs`: every `readV n` / `readI x` node occurring anywhere in the strategy tree of a
line (for ALL continuations, i.e. independently of the stores) reads a name described by one of the
syntactically computed key patterns.
-/
set_option autoImplicit false

namespace HabuVerif.Dsl
open HabuVerif

/-! ## a predicate transformer on interaction trees -/

/-- all `readV` names satisfy `RV`, all `readI` names `RI`, all results `Q` — along every path -/
def Prog.All {α : Type} (RV RI : String → Prop) (Q : α → Prop) : Prog α → Prop
  | .pure a => Q a
  | .notImpl => True
  | .err _ => True
  | .readV n k => RV n ∧ ∀ v, (k v).All RV RI Q
  | .readI x k => RI x ∧ ∀ v, (k v).All RV RI Q
  | .needForm _ k => k.All RV RI Q

section
variable {α β : Type} {RV RI : String → Prop}

theorem Prog.All.bind {Q : α → Prop} {Q' : β → Prop} {m : Prog α} {g : α → Prog β}
    (hm : m.All RV RI Q) (hg : ∀ a, Q a → (g a).All RV RI Q') : (m.bind g).All RV RI Q' := by
  induction m with
  | pure a => exact hg a hm
  | notImpl => trivial
  | err e => trivial
  | readV n k ih => exact ⟨hm.1, fun v => ih v (hm.2 v)⟩
  | readI x k ih => exact ⟨hm.1, fun v => ih v (hm.2 v)⟩
  | needForm f k ih => exact ih hm

theorem Prog.All.mono {Q Q' : α → Prop} {m : Prog α} (hm : m.All RV RI Q) (h : ∀ a, Q a → Q' a) :
    m.All RV RI Q' := by
  induction m with
  | pure a => exact h a hm
  | notImpl => trivial
  | err e => trivial
  | readV n k ih => exact ⟨hm.1, fun v => ih v (hm.2 v)⟩
  | readI x k ih => exact ⟨hm.1, fun v => ih v (hm.2 v)⟩
  | needForm f k ih => exact ih hm

theorem Prog.All.lift {Q : α → Prop} {r : R α} (h : ∀ a, r = .ok a → Q a) :
    (Prog.lift r).All RV RI Q := by
  cases r with
  | ok a => exact h a rfl
  | error e => trivial

theorem Prog.All.liftTrue {r : R α} : (Prog.lift r).All RV RI (fun _ => True) :=
  Prog.All.lift fun _ _ => trivial

end

/-! ## concretisation of abstract values and environments -/

/-- the values an abstract value stands for -/
def InG (inst : Option String) : AVal → Val → Prop
  | .any, _ => True
  | .str p, v => ∃ s, v = .str s ∧ KeyPat.Matches inst p s
  | .int lo hi, v => ∃ n : Nat, v = .int n ∧ lo ≤ n ∧ ∀ h, hi = some h → n < h
  | .inst, v => v = (match inst with | some i => .str i | none => .none)
  | .items a, v => ∀ xs, Val.iterItems v = .ok xs → ∀ x ∈ xs, InG inst a x
  | .intOneOf ns, v => ∃ n ∈ ns, v = .int n

/-- the environments an abstract environment stands for -/
def GEnv (inst : Option String) (Γ : AEnv) (ρ : Env) : Prop :=
  ∀ x a, Γ.lookup x = some a → ∀ v, ρ.lookup x = some v → InG inst a v

def NoEntries (Γ : AEnv) (xs : List String) : Prop := ∀ x ∈ xs, Γ.lookup x = none

variable {inst : Option String}

/-! ### patterns -/

theorem matches_nil : KeyPat.Matches inst [] "" := rfl

theorem matches_single {p : Piece} {s : String} (h : p.Matches inst s) : KeyPat.Matches inst [p] s :=
  ⟨s, "", by simp, h, rfl⟩

theorem matches_append {p q : KeyPat} {s t : String} (hp : KeyPat.Matches inst p s)
    (hq : KeyPat.Matches inst q t) : KeyPat.Matches inst (p ++ q) (s ++ t) := by
  induction p generalizing s with
  | nil =>
    have : s = "" := hp
    subst this
    simpa using hq
  | cons x xs ih =>
    obtain ⟨a, b, rfl, ha, hb⟩ := hp
    exact ⟨a, b ++ t, by rw [String.append_assoc], ha, ih hb⟩

/-! ### environments -/

theorem lookup_cons_eq {β : Type} (k : String) (b : β) (es : List (String × β)) (y : String) :
    List.lookup y ((k, b) :: es) = if y = k then some b else es.lookup y := by
  by_cases h : y = k
  · subst h; simp [List.lookup]
  · have : (y == k) = false := by simpa using h
    simp [List.lookup, this, h]

theorem lookup_map_upd {β : Type} (ρ : List (String × β)) (x : String) (v : β) (y : String) :
    (ρ.map fun p => if p.1 = x then (x, v) else p).lookup y
      = if y = x then (if (ρ.lookup x).isSome then some v else none) else ρ.lookup y := by
  induction ρ with
  | nil => simp
  | cons p ps ih =>
    obtain ⟨k, w⟩ := p
    rw [List.map_cons]
    by_cases hk : k = x
    · subst hk
      rw [if_pos rfl, lookup_cons_eq, lookup_cons_eq, ih]
      by_cases hy : y = k
      · simp [hy]
      · simp [hy, lookup_cons_eq]
    · rw [if_neg hk, lookup_cons_eq, lookup_cons_eq, lookup_cons_eq, ih]
      by_cases hy : y = k
      · subst hy; simp [hk]
      · by_cases hyx : y = x
        · subst hyx; simp only [if_true, if_neg hy]
        · simp [hy, hyx]

theorem lookup_set (ρ : Env) (x : String) (v : Val) (y : String) :
    (ρ.set x v).lookup y = if y = x then some v else ρ.lookup y := by
  unfold Env.set
  split
  · rename_i hsome
    simp only [beq_iff_eq]
    rw [lookup_map_upd]
    by_cases hy : y = x
    · simp [hy, hsome]
    · simp [hy]
  · rw [lookup_cons_eq]
theorem lookup_aset (Γ : AEnv) (x : String) (a : AVal) (y : String) :
    (Γ.set x a).lookup y = if y = x then some a else Γ.lookup y := by
  unfold AEnv.set
  split
  · rename_i hsome
    simp only [beq_iff_eq]
    rw [lookup_map_upd]
    by_cases hy : y = x
    · simp [hy, hsome]
    · simp [hy]
  · rw [lookup_cons_eq]

theorem lookup_erase (Γ : AEnv) (xs : List String) (x : String) :
    (Γ.erase xs).lookup x = if xs.contains x then none else Γ.lookup x := by
  unfold AEnv.erase
  induction Γ with
  | nil => simp
  | cons p ps ih =>
    obtain ⟨k, a⟩ := p
    rw [List.filter_cons]
    by_cases hk : xs.contains k = true
    · rw [if_neg (by simpa using hk), ih, lookup_cons_eq]
      by_cases hx : x = k
      · subst hx; rw [if_pos hk, if_pos hk]
      · rw [if_neg hx]
    · have hk' : xs.contains k = false := by simpa using hk
      rw [if_pos (by simpa using hk'), lookup_cons_eq, lookup_cons_eq, ih]
      by_cases hx : x = k
      · subst hx; rw [if_pos rfl, if_pos rfl, if_neg hk]
      · rw [if_neg hx, if_neg hx]

theorem GEnv.set_noEntry {Γ : AEnv} {ρ : Env} (h : GEnv inst Γ ρ) {x : String} (hx : Γ.lookup x = none)
    (v : Val) : GEnv inst Γ (ρ.set x v) := by
  intro y a hy w hw
  rw [lookup_set] at hw
  by_cases hyx : y = x
  · subst hyx; rw [hx] at hy; exact absurd hy (by simp)
  · rw [if_neg hyx] at hw
    exact h y a hy w hw

theorem GEnv.cons_set {Γ : AEnv} {ρ : Env} (h : GEnv inst Γ ρ) {x : String} {a : AVal} {v : Val}
    (hv : InG inst a v) : GEnv inst ((x, a) :: Γ) (ρ.set x v) := by
  intro y b hy w hw
  rw [lookup_set] at hw
  by_cases hyx : y = x
  · subst hyx
    simp [List.lookup] at hy hw
    subst hy; subst hw; exact hv
  · rw [if_neg hyx] at hw
    have : (y == x) = false := by simpa using hyx
    simp only [List.lookup, this] at hy
    exact h y b hy w hw

theorem GEnv.erase {Γ : AEnv} {ρ : Env} (h : GEnv inst Γ ρ) (xs : List String) :
    GEnv inst (Γ.erase xs) ρ := by
  intro y a hy w hw
  rw [lookup_erase] at hy
  split at hy
  · exact absurd hy (by simp)
  · exact h y a hy w hw

theorem noEntries_erase (Γ : AEnv) (xs : List String) : NoEntries (Γ.erase xs) xs := by
  intro x hx
  rw [lookup_erase]
  simp [hx]

/-- assigning a list of variables that the abstract environment does not describe -/
theorem GEnv.foldl_set {Γ : AEnv} (ps : List (String × Val)) {ρ : Env} (h : GEnv inst Γ ρ)
    (hps : ∀ p ∈ ps, Γ.lookup p.1 = none) :
    GEnv inst Γ (ps.foldl (fun e p => e.set p.1 p.2) ρ) := by
  induction ps generalizing ρ with
  | nil => exact h
  | cons p ps ih =>
    simp only [List.foldl_cons]
    exact ih (h.set_noEntry (hps p (List.mem_cons_self)) p.2)
      (fun q hq => hps q (List.mem_cons_of_mem _ hq))


/-! ### abstract values -/

theorem optMax_some {h1 h2 : Option Nat} {h : Nat} (hEq : optMax h1 h2 = some h) :
    ∃ a b, h1 = some a ∧ h2 = some b ∧ h = max a b := by
  cases h1 with
  | none => simp [optMax] at hEq
  | some a =>
    cases h2 with
    | none => simp [optMax] at hEq
    | some b =>
      simp only [optMax, Option.some.injEq] at hEq
      exact ⟨a, b, rfl, rfl, hEq.symm⟩

theorem inG_choices {a : AVal} {ss : List String} (hc : a.strChoices = some ss) {v : Val}
    (h : InG inst a v) : ∃ s ∈ ss, v = .str s := by
  unfold AVal.strChoices at hc
  split at hc
  · simp only [Option.some.injEq] at hc
    subst hc
    obtain ⟨s, rfl, a, b, rfl, ha, hb⟩ := h
    have ha' : a = _ := ha
    have hb' : b = "" := hb
    subst ha' hb'
    exact ⟨_, List.mem_singleton.2 rfl, by simp⟩
  · simp only [Option.some.injEq] at hc
    subst hc
    obtain ⟨s, rfl, a, b, rfl, ha, hb⟩ := h
    have hb' : b = "" := hb
    subst hb'
    exact ⟨a, ha, by simp⟩
  · simp at hc

theorem inG_oneOf {ss : List String} {s : String} (h : s ∈ ss) : InG inst (.str [.oneOf ss]) (.str s) :=
  ⟨s, rfl, matches_single h⟩

theorem foldl_min_le (u : List Nat) : ∀ (init : Nat) {n : Nat}, n ∈ u → u.foldl min init ≤ n := by
  induction u with
  | nil => intro _ _ h; cases h
  | cons a as ih =>
    intro init n hn
    simp only [List.foldl_cons]
    rcases List.mem_cons.1 hn with rfl | hm
    · -- the accumulator only decreases
      have hacc : ∀ (l : List Nat) (i : Nat), l.foldl min i ≤ i := by
        intro l
        induction l with
        | nil => intro i; exact Nat.le_refl _
        | cons b bs ihb => intro i; exact Nat.le_trans (ihb (min i b)) (Nat.min_le_left _ _)
      exact Nat.le_trans (hacc as (min init n)) (Nat.min_le_right _ _)
    · exact ih _ hm

theorem le_foldl_max (u : List Nat) : ∀ (init : Nat) {n : Nat}, n ∈ u → n ≤ u.foldl max init := by
  induction u with
  | nil => intro _ _ h; cases h
  | cons a as ih =>
    intro init n hn
    simp only [List.foldl_cons]
    rcases List.mem_cons.1 hn with rfl | hm
    · have hacc : ∀ (l : List Nat) (i : Nat), i ≤ l.foldl max i := by
        intro l
        induction l with
        | nil => intro i; exact Nat.le_refl _
        | cons b bs ihb => intro i; exact Nat.le_trans (Nat.le_max_left _ _) (ihb (max i b))
      exact Nat.le_trans (Nat.le_max_right _ _) (hacc as (max init n))
    · exact ih _ hm

theorem inG_natHull {u : List Nat} {n : Nat} (hn : n ∈ u) : InG inst (natHull u) (.int n) := by
  refine ⟨n, rfl, foldl_min_le u _ hn, ?_⟩
  intro h hh
  simp only [Option.some.injEq] at hh
  have := le_foldl_max u 0 hn
  omega

theorem inG_joinNats {x y : List Nat} {n : Nat} (hn : n ∈ natUnion x y) :
    InG inst (joinNats x y) (.int n) := by
  unfold joinNats
  simp only
  split
  · exact inG_natHull hn
  · split
    · exact ⟨n, hn, rfl⟩
    · exact inG_natHull hn

theorem mem_natUnion_left {x y : List Nat} {n : Nat} (h : n ∈ x) : n ∈ natUnion x y :=
  List.mem_append_left _ h

theorem mem_natUnion_right {x y : List Nat} {n : Nat} (h : n ∈ y) : n ∈ natUnion x y := by
  unfold natUnion
  by_cases hx : n ∈ x
  · exact List.mem_append_left _ hx
  · exact List.mem_append_right _ (List.mem_filter.2 ⟨h, by simpa using hx⟩)

theorem inG_natChoices {a : AVal} {x : List Nat} (hc : a.natChoices = some x) {v : Val}
    (h : InG inst a v) : ∃ n ∈ x, v = .int n := by
  unfold AVal.natChoices at hc
  split at hc
  · rename_i lo hi
    simp only [Option.some.injEq] at hc
    subst hc
    obtain ⟨n, rfl, hlo, hhi⟩ := h
    have := hhi hi rfl
    exact ⟨n, List.mem_range'_1.2 ⟨hlo, by omega⟩, rfl⟩
  · simp only [Option.some.injEq] at hc
    subst hc
    exact h
  · simp at hc

theorem inG_join_left {a b : AVal} {v : Val} (h : InG inst a v) : InG inst (a.join b) v := by
  unfold AVal.join
  by_cases hab : a = b
  · rw [if_pos hab]; exact h
  · rw [if_neg hab]
    split
    · rename_i x y hx hy
      obtain ⟨n, hn, rfl⟩ := inG_natChoices hx h
      exact inG_joinNats (mem_natUnion_left hn)
    · split
      · rename_i l1 h1 l2 h2
        obtain ⟨n, rfl, hlo, hhi⟩ := h
        refine ⟨n, rfl, Nat.le_trans (Nat.min_le_left _ _) hlo, ?_⟩
        intro hh hEq
        obtain ⟨a1, a2, rfl, rfl, rfl⟩ := optMax_some hEq
        exact Nat.lt_of_lt_of_le (hhi a1 rfl) (Nat.le_max_left _ _)
      · split
        · rename_i x y hx hy
          obtain ⟨s, hs, rfl⟩ := inG_choices hx h
          exact inG_oneOf (List.mem_append_left _ hs)
        · trivial

theorem inG_join_right {a b : AVal} {v : Val} (h : InG inst b v) : InG inst (a.join b) v := by
  unfold AVal.join
  by_cases hab : a = b
  · rw [if_pos hab]; subst hab; exact h
  · rw [if_neg hab]
    split
    · rename_i x y hx hy
      obtain ⟨n, hn, rfl⟩ := inG_natChoices hy h
      exact inG_joinNats (mem_natUnion_right hn)
    · split
      · rename_i l1 h1 l2 h2
        obtain ⟨n, rfl, hlo, hhi⟩ := h
        refine ⟨n, rfl, Nat.le_trans (Nat.min_le_right _ _) hlo, ?_⟩
        intro hh hEq
        obtain ⟨a1, a2, rfl, rfl, rfl⟩ := optMax_some hEq
        exact Nat.lt_of_lt_of_le (hhi a2 rfl) (Nat.le_max_right _ _)
      · split
        · rename_i x y hx hy
          obtain ⟨s, hs, rfl⟩ := inG_choices hy h
          exact inG_oneOf (List.mem_append_right _ hs)
        · trivial

theorem inG_joinAll {as : List AVal} {a : AVal} (ha : a ∈ as) {v : Val} (h : InG inst a v) :
    InG inst (AVal.joinAll as) v := by
  induction as with
  | nil => cases ha
  | cons b bs ih =>
    cases bs with
    | nil =>
      have : a = b := by simpa using ha
      subst this
      exact h
    | cons c cs =>
      rw [AVal.joinAll]
      · rcases List.mem_cons.1 ha with rfl | hmem
        · exact inG_join_left h
        · exact inG_join_right (ih hmem)
      · intro hnil; cases hnil

theorem inG_elem (v : Val) : InG inst (absVal.elem v) v := by
  cases v <;> simp only [absVal.elem] <;> try trivial
  · rename_i i
    split
    · rename_i hi
      exact ⟨i.toNat, by rw [Int.toNat_of_nonneg hi], Nat.le_refl _, fun h hh => by
        simp only [Option.some.injEq] at hh; omega⟩
    · trivial
  · rename_i s
    exact ⟨s, rfl, matches_single rfl⟩

theorem inG_absVal (v : Val) : InG inst (absVal v) v := by
  cases v <;> simp only [absVal] <;> try trivial
  · rename_i i
    split
    · rename_i hi
      exact ⟨i.toNat, by rw [Int.toNat_of_nonneg hi], Nat.le_refl _, fun h hh => by
        simp only [Option.some.injEq] at hh; omega⟩
    · trivial
  · rename_i s
    exact ⟨s, rfl, matches_single rfl⟩
  · rename_i xs
    intro ys hys y hy
    simp only [Val.iterItems, Except.ok.injEq] at hys
    subst hys
    exact inG_joinAll (List.mem_map.2 ⟨y, hy, rfl⟩) (inG_elem y)
  · rename_i xs
    intro ys hys y hy
    simp only [Val.iterItems, Except.ok.injEq] at hys
    subst hys
    exact inG_joinAll (List.mem_map.2 ⟨y, hy, rfl⟩) (inG_elem y)

/-- what iterating a described value yields -/
theorem inG_itemsOf {a : AVal} {v : Val} (h : InG inst a v) {xs : List Val}
    (hxs : Val.iterItems v = .ok xs) : ∀ x ∈ xs, InG inst a.itemsOf x := by
  unfold AVal.itemsOf
  split
  · exact h xs hxs
  · rename_i s
    obtain ⟨s', rfl, a, b, rfl, ha, hb⟩ := h
    have hb' : b = "" := hb
    have ha' : a = s := ha
    subst hb' ha'
    simp only [String.append_empty, Val.iterItems, Except.ok.injEq] at hxs
    subst hxs
    intro x hx
    obtain ⟨c, hc, rfl⟩ := List.mem_map.1 hx
    exact ⟨_, rfl, matches_single (List.mem_map.2 ⟨c, hc, rfl⟩)⟩
  · intro _ _; trivial

/-- the text a described value formats to matches its pieces -/
theorem matches_pieces {a : AVal} {v : Val} (h : InG inst a v) {s : String}
    (hs : Val.pyStr v = .ok s) : KeyPat.Matches inst a.pieces s := by
  cases a with
  | any => exact matches_single trivial
  | str p =>
    obtain ⟨s', rfl, hm⟩ := h
    simp only [Val.pyStr, Except.ok.injEq] at hs
    subst hs
    exact hm
  | int lo hi =>
    obtain ⟨n, rfl, hlo, hhi⟩ := h
    simp only [Val.pyStr, Except.ok.injEq] at hs
    subst hs
    refine matches_single ⟨n, hlo, hhi, ?_⟩
    simp [Val.intToStr]
  | inst =>
    have hv : v = _ := h
    subst hv
    cases inst with
    | none =>
      simp only [Val.pyStr, Except.ok.injEq] at hs
      subst hs
      exact matches_single rfl
    | some i =>
      simp only [Val.pyStr, Except.ok.injEq] at hs
      subst hs
      exact matches_single rfl
  | items a => exact matches_single trivial
  | intOneOf ns =>
    obtain ⟨n, hn, rfl⟩ := h
    simp only [Val.pyStr, Except.ok.injEq] at hs
    subst hs
    refine matches_single ?_
    show Val.intToStr (n : Int) ∈ ns.map fun k => toString k
    have hstr : Val.intToStr (n : Int) = toString n := by simp [Val.intToStr]
    exact List.mem_map.2 ⟨n, hn, hstr.symm⟩


/-! ### f-strings, keys -/

/-- element-wise description of a list of values -/
inductive AllIn (inst : Option String) : List AVal → List Val → Prop
  | nil : AllIn inst [] []
  | cons {a : AVal} {v : Val} {as : List AVal} {vs : List Val} :
      InG inst a v → AllIn inst as vs → AllIn inst (a :: as) (v :: vs)

theorem matches_fmtAll (Γ : AEnv) : ∀ (es : List Expr) (vs : List Val),
    AllIn inst (absEs Γ es) vs → ∀ s, fmtAll vs = .ok s →
    KeyPat.Matches inst (absParts Γ es) s
  | [], vs, h, s, hs => by
    simp only [absEs] at h
    cases h
    simp only [fmtAll, Except.ok.injEq] at hs
    subst hs
    exact matches_nil
  | e :: es, vs, h, s, hs => by
    simp only [absEs] at h
    cases h with
    | cons hv hrest =>
      rename_i v vs'
      simp only [fmtAll] at hs
      cases h1 : Val.pyStr v with
      | error err => simp [h1, bind, Except.bind] at hs
      | ok s1 =>
        cases h2 : fmtAll vs' with
        | error err => simp [h1, h2, bind, Except.bind] at hs
        | ok s2 =>
          simp [h1, h2, bind, Except.bind, pure, Except.pure] at hs
          subst hs
          simp only [absParts]
          exact matches_append (matches_pieces hv h1) (matches_fmtAll Γ es vs' hrest s2 h2)

/-- the names a list of key patterns describes -/
def MN (form : String) (L : List KeyPat) (n : String) : Prop :=
  ∃ p ∈ L, KeyPat.Names form inst p n

theorem names_of_qualify {ctx : Ctx} {a : AVal} {k : Val} (hk : InG ctx.inst a k) {n : String}
    (hn : qualify ctx k = .ok n) : KeyPat.Names ctx.form ctx.inst a.pieces n := by
  cases k with
  | str s =>
    simp only [qualify, Except.ok.injEq] at hn
    exact ⟨s, matches_pieces hk rfl, hn.symm⟩
  | _ => simp [qualify] at hn

/-! ### reference lists -/

def Refs.Sub (r : Refs) (LV LI : List KeyPat) : Prop := (∀ p ∈ r.v, p ∈ LV) ∧ (∀ p ∈ r.i, p ∈ LI)

theorem Refs.sub_append {a b : Refs} {LV LI : List KeyPat} :
    (a ++ b).Sub LV LI ↔ a.Sub LV LI ∧ b.Sub LV LI := by
  have hv : (a ++ b).v = a.v ++ b.v := rfl
  have hi : (a ++ b).i = a.i ++ b.i := rfl
  unfold Refs.Sub
  rw [hv, hi]
  constructor
  · intro h
    exact ⟨⟨fun p hp => h.1 p (List.mem_append_left _ hp), fun p hp => h.2 p (List.mem_append_left _ hp)⟩,
      ⟨fun p hp => h.1 p (List.mem_append_right _ hp), fun p hp => h.2 p (List.mem_append_right _ hp)⟩⟩
  · intro h
    exact ⟨fun p hp => (List.mem_append.1 hp).elim (h.1.1 p) (h.2.1 p),
      fun p hp => (List.mem_append.1 hp).elim (h.1.2 p) (h.2.2 p)⟩

theorem Refs.sub_empty {LV LI : List KeyPat} : ({} : Refs).Sub LV LI :=
  ⟨fun _ h => absurd h List.not_mem_nil, fun _ h => absurd h List.not_mem_nil⟩

/-! ### the loop helpers -/

section loops
variable {RV RI : String → Prop}

theorem collectM_all {step : Val → Prog (Option Val)} : ∀ (items : List Val),
    (∀ x ∈ items, (step x).All RV RI (fun _ => True)) →
    (collectM step items).All RV RI (fun _ => True)
  | [], _ => trivial
  | x :: xs, h => by
    unfold collectM
    refine Prog.All.bind (h x List.mem_cons_self) fun r _ => ?_
    refine Prog.All.bind (collectM_all xs fun y hy => h y (List.mem_cons_of_mem _ hy)) fun rest _ => ?_
    trivial

theorem sumGenM_all {step : Val → Prog (Option Val)} : ∀ (items : List Val) (st : Val.SumSt),
    (∀ x ∈ items, (step x).All RV RI (fun _ => True)) →
    (sumGenM step st items).All RV RI (fun _ => True)
  | [], _, _ => trivial
  | x :: xs, st, h => by
    unfold sumGenM
    refine Prog.All.bind (h x List.mem_cons_self) fun r _ => ?_
    have hxs : ∀ y ∈ xs, (step y).All RV RI (fun _ => True) := fun y hy => h y (List.mem_cons_of_mem _ hy)
    cases r with
    | none => exact sumGenM_all xs st hxs
    | some v =>
      simp only
      cases Val.sumStep st v with
      | ok st' => exact sumGenM_all xs st' hxs
      | error e => trivial

/-- the environments of a `Flow` satisfy `P` -/
def FlowOK (P : Env → Prop) : Flow → Prop
  | .next ρ => P ρ
  | .cont ρ => P ρ
  | .brk ρ => P ρ
  | .ret _ => True

theorem forLoop_all {step : Env → Val → Prog Flow} {P : Env → Prop} : ∀ (items : List Val) (ρ : Env),
    (∀ ρ' x, P ρ' → x ∈ items → (step ρ' x).All RV RI (FlowOK P)) → P ρ →
    (forLoop step ρ items).All RV RI (FlowOK P)
  | [], ρ, _, hρ => hρ
  | x :: xs, ρ, h, hρ => by
    unfold forLoop
    refine Prog.All.bind (h ρ x hρ List.mem_cons_self) fun r hr => ?_
    have hxs : ∀ ρ' y, P ρ' → y ∈ xs → (step ρ' y).All RV RI (FlowOK P) :=
      fun ρ' y hp hy => h ρ' y hp (List.mem_cons_of_mem _ hy)
    cases r with
    | next ρ' => exact forLoop_all xs ρ' hxs hr
    | cont ρ' => exact forLoop_all xs ρ' hxs hr
    | brk ρ' => exact hr
    | ret v => trivial

end loops


/-! ### binary operators and builtin calls -/

theorem optAddHi_some {h1 h2 : Option Nat} {h : Nat} (hEq : optAddHi h1 h2 = some h) :
    ∃ a b, h1 = some a ∧ h2 = some b ∧ h = a + b - 1 := by
  cases h1 with
  | none => simp [optAddHi] at hEq
  | some a =>
    cases h2 with
    | none => simp [optAddHi] at hEq
    | some b =>
      simp only [optAddHi, Option.some.injEq] at hEq
      exact ⟨a, b, rfl, rfl, hEq.symm⟩

theorem add_float_ne {x y : Val.Num} {r : Val} (hr : ∀ f, r ≠ .float f) :
    (do let fx ← x.toF; let fy ← y.toF; pure (Val.float (F64.add fx fy)) : R Val) ≠ .ok r := by
  intro h
  cases hx : x.toF with
  | error e => simp [hx, bind, Except.bind] at h
  | ok fx =>
    cases hy : y.toF with
    | error e => simp [hx, hy, bind, Except.bind] at h
    | ok fy =>
      simp [hx, hy, bind, Except.bind, pure, Except.pure] at h
      exact hr _ h.symm

theorem iterItems_add {a b r : Val} (h : Val.add a b = .ok r) {zs : List Val}
    (hz : Val.iterItems r = .ok zs) :
    ∃ xs ys, Val.iterItems a = .ok xs ∧ Val.iterItems b = .ok ys ∧ zs = xs ++ ys := by
  have hnf : ∀ f, r ≠ .float f := by
    intro f hf; subst hf; simp [Val.iterItems] at hz
  have hni : ∀ i, r ≠ .int i := by
    intro f hf; subst hf; simp [Val.iterItems] at hz
  cases a <;> cases b <;> simp only [Val.add, Val.num?] at h
  all_goals first
    | exact absurd h (add_float_ne hnf)
    | (simp only [Except.ok.injEq] at h; exact absurd h.symm (hni _))
    | (simp at h)
    | skip
  · -- str + str
    subst h
    simp only [Val.iterItems, Except.ok.injEq] at hz
    subst hz
    exact ⟨_, _, rfl, rfl, by simp [String.toList_append]⟩
  · subst h
    simp only [Val.iterItems, Except.ok.injEq] at hz
    subst hz
    exact ⟨_, _, rfl, rfl, rfl⟩
  · subst h
    simp only [Val.iterItems, Except.ok.injEq] at hz
    subst hz
    exact ⟨_, _, rfl, rfl, rfl⟩

theorem inG_absBin {op : BinOp} {a b : AVal} {x y r : Val} (hx : InG inst a x) (hy : InG inst b y)
    (hr : applyBin op x y = .ok r) : InG inst (absBin op a b) r := by
  unfold absBin
  split
  · -- items + items
    rename_i a' b'
    simp only [applyBin] at hr
    intro zs hz z hzm
    obtain ⟨xs, ys, hxs, hys, rfl⟩ := iterItems_add hr hz
    rcases List.mem_append.1 hzm with hm | hm
    · exact inG_join_left (hx xs hxs z hm)
    · exact inG_join_right (hy ys hys z hm)
  · -- int + int
    rename_i l1 h1 l2 h2
    obtain ⟨n1, rfl, hlo1, hhi1⟩ := hx
    obtain ⟨n2, rfl, hlo2, hhi2⟩ := hy
    simp only [applyBin, Val.add, Val.num?, Except.ok.injEq] at hr
    subst hr
    refine ⟨n1 + n2, by simp, Nat.add_le_add hlo1 hlo2, ?_⟩
    intro h hEq
    obtain ⟨a1, a2, rfl, rfl, rfl⟩ := optAddHi_some hEq
    have := hhi1 a1 rfl
    have := hhi2 a2 rfl
    omega
  · trivial

theorem rangeHi_bound {b : AVal} {v : Val} {n : Int} (hb : InG inst b v)
    (hn : Val.asIndexInt v = some n) {h : Nat} (hh : b.rangeHi = some h) : n < (h : Int) + 1 := by
  cases b with
  | int lo hi =>
    cases hi with
    | none => simp [AVal.rangeHi] at hh
    | some h' =>
      simp only [AVal.rangeHi, Option.some.injEq] at hh
      obtain ⟨m, rfl, _, hhi⟩ := hb
      have := hhi h' rfl
      simp only [Val.asIndexInt, Option.some.injEq] at hn
      omega
  | _ => simp [AVal.rangeHi] at hh

theorem mem_rangeList {a b : Int} {z : Val} (hz : z ∈ Val.rangeList a b) :
    ∃ k : Nat, z = .int (a + k) ∧ a + (k : Int) < b := by
  unfold Val.rangeList at hz
  obtain ⟨k, hk, rfl⟩ := List.mem_map.1 hz
  refine ⟨k, rfl, ?_⟩
  have := List.mem_range.1 hk
  omega

theorem inG_absCall {f : Builtin} {as : List AVal} {vs : List Val} {r : Val}
    (h : AllIn inst as vs) (hr : applyBuiltin f vs = .ok r) : InG inst (absCall f as) r := by
  unfold absCall
  split
  · -- range(b)
    rename_i b
    cases h with
    | cons hb hrest =>
      cases hrest
      rename_i v
      simp only [applyBuiltin, Val.pyRange] at hr
      cases hn : Val.asIndexInt v with
      | none => simp [hn] at hr
      | some n =>
        simp only [hn] at hr
        split at hr
        · simp only [Except.ok.injEq] at hr
          subst hr
          intro zs hzs z hz
          simp only [Val.iterItems, Except.ok.injEq] at hzs
          subst hzs
          obtain ⟨k, rfl, hk⟩ := mem_rangeList hz
          refine ⟨k, by simp, Nat.zero_le _, ?_⟩
          intro hh hEq
          have := rangeHi_bound hb hn hEq
          omega
        · simp at hr
  · -- range(a, b)
    rename_i lo hi b
    cases h with
    | cons ha hrest =>
      cases hrest with
      | cons hb hnil =>
        cases hnil
        rename_i va vb
        obtain ⟨m0, rfl, hlo, _⟩ := ha
        simp only [applyBuiltin, Val.pyRange] at hr
        have hm0 : Val.asIndexInt (Val.int (m0 : Int)) = some (m0 : Int) := rfl
        cases hn : Val.asIndexInt vb with
        | none => simp [hn, hm0] at hr
        | some n =>
          simp only [hn, hm0] at hr
          split at hr
          · simp only [Except.ok.injEq] at hr
            subst hr
            intro zs hzs z hz
            simp only [Val.iterItems, Except.ok.injEq] at hzs
            subst hzs
            obtain ⟨k, rfl, hk⟩ := mem_rangeList hz
            refine ⟨m0 + k, by simp, by omega, ?_⟩
            intro hh hEq
            have := rangeHi_bound hb hn hEq
            omega
          · simp at hr
  · -- list(x)
    rename_i x
    cases h with
    | cons hx hrest =>
      cases hrest
      rename_i v
      simp only [applyBuiltin, Val.pyList] at hr
      cases hit : Val.iterItems v with
      | error e => simp [hit, bind, Except.bind] at hr
      | ok xs =>
        simp [hit, bind, Except.bind, pure, Except.pure] at hr
        subst hr
        intro zs hzs z hz
        simp only [Val.iterItems, Except.ok.injEq] at hzs
        subst hzs
        exact inG_itemsOf hx hit z hz
  · trivial


/-! ## The induction over the syntax -/

theorem inG_any (v : Val) : InG inst AVal.any v := by unfold InG; trivial

theorem allIn_mem {as : List AVal} {vs : List Val} (h : AllIn inst as vs) {v : Val} (hv : v ∈ vs) :
    ∃ a ∈ as, InG inst a v := by
  induction h with
  | nil => cases hv
  | cons ha _ ih =>
    rcases List.mem_cons.1 hv with rfl | hm
    · exact ⟨_, List.mem_cons_self, ha⟩
    · obtain ⟨a, ham, hin⟩ := ih hm
      exact ⟨a, List.mem_cons_of_mem _ ham, hin⟩

theorem GEnv.of_cons {Γ : AEnv} {ρ : Env} {x : String} {a : AVal} (hx : Γ.lookup x = none)
    (h : GEnv inst ((x, a) :: Γ) ρ) : GEnv inst Γ ρ := by
  intro y b hy w hw
  refine h y b ?_ w hw
  rw [lookup_cons_eq]
  by_cases hyx : y = x
  · subst hyx; rw [hx] at hy; exact absurd hy (by simp)
  · rw [if_neg hyx]; exact hy

theorem GEnv.aset_set {Γ : AEnv} {ρ : Env} (h : GEnv inst Γ ρ) {x : String} {a : AVal} {v : Val}
    (hv : InG inst a v) : GEnv inst (Γ.set x a) (ρ.set x v) := by
  intro y b hy w hw
  rw [lookup_set] at hw
  rw [lookup_aset] at hy
  by_cases hyx : y = x
  · rw [if_pos hyx] at hy hw
    simp only [Option.some.injEq] at hy hw
    subst hy; subst hw; exact hv
  · rw [if_neg hyx] at hy hw
    exact h y b hy w hw

theorem gEnv_fold_params : ∀ (params : List String) {as : List AVal} {vs : List Val} {Γ : AEnv} {ρ : Env},
    AllIn inst as vs → GEnv inst Γ ρ →
    GEnv inst ((params.zip as).foldl (fun e p => e.set p.1 p.2) Γ)
      ((params.zip vs).foldl (fun e p => e.set p.1 p.2) ρ)
  | [], _, _, _, _, _, h => by simpa using h
  | p :: ps, _, _, Γ, ρ, hall, h => by
    cases hall with
    | nil => simpa using h
    | cons ha hrest =>
      simp only [List.zip_cons_cons, List.foldl_cons]
      exact gEnv_fold_params ps hrest (h.aset_set ha)

theorem lookup_map_abs (ds : List (String × Val)) (x : String) :
    (ds.map fun p => (p.1, absVal p.2)).lookup x = (ds.lookup x).map absVal := by
  induction ds with
  | nil => simp
  | cons p ps ih =>
    obtain ⟨k, v⟩ := p
    simp only [List.map_cons]
    rw [lookup_cons_eq, lookup_cons_eq, ih]
    by_cases h : x = k
    · simp [h]
    · simp [h]

theorem gEnv_defaults (ds : List (String × Val)) :
    GEnv inst (ds.map fun p => (p.1, absVal p.2)) ds := by
  intro x a hx v hv
  rw [lookup_map_abs, hv] at hx
  simp only [Option.map_some, Option.some.injEq] at hx
  subst hx
  exact inG_absVal v

theorem gEnv_helper {params : List String} {as : List AVal} {vs : List Val}
    (hall : AllIn inst as vs) (defaults : List (String × Val)) (body : List Stmt) :
    GEnv inst (helperEnv params as defaults body)
      ((params.zip vs).foldl (fun e p => e.set p.1 p.2) defaults) :=
  (gEnv_fold_params params hall (gEnv_defaults defaults)).erase _

/-- binding targets that the abstract environment does not describe -/
theorem gEnv_bindTargets_noEntries {Γ : AEnv} {ρ ρ' : Env} {xs : List String} {item : Val}
    (h : GEnv inst Γ ρ) (hno : NoEntries Γ xs) (hb : bindTargets xs item ρ = .ok ρ') :
    GEnv inst Γ ρ' := by
  unfold bindTargets at hb
  split at hb
  · rename_i x
    simp only [Except.ok.injEq] at hb
    subst hb
    exact h.set_noEntry (hno x (List.mem_singleton.2 rfl)) item
  · cases hit : Val.iterItems item with
    | error e => simp [hit, bind, Except.bind] at hb
    | ok parts =>
      simp only [hit, bind, Except.bind] at hb
      split at hb
      · simp [throw, throwThe, MonadExceptOf.throw] at hb
      · simp only [pure, Except.pure, Except.ok.injEq] at hb
        subst hb
        exact h.foldl_set _ fun p hp => hno p.1 (List.of_mem_zip hp).1

/-- binding comprehension targets -/
theorem gEnv_bindTargets {Γ : AEnv} {ρ ρ' : Env} {xs : List String} {item : Val} {a : AVal}
    (h : GEnv inst Γ ρ) (ha : InG inst a item) (hb : bindTargets xs item ρ = .ok ρ') :
    GEnv inst (Γ.bind xs a) ρ' := by
  unfold AEnv.bind
  split
  · rename_i x
    simp only [bindTargets, Except.ok.injEq] at hb
    subst hb
    exact h.cons_set ha
  · exact gEnv_bindTargets_noEntries (h.erase xs) (noEntries_erase Γ xs) hb

section main
variable (ctx : Ctx) (LV LI : List KeyPat)

/-- reads are described, results satisfy `Q` -/
abbrev Good {α : Type} (Q : α → Prop) (p : Prog α) : Prop :=
  p.All (@MN ctx.inst ctx.form LV) (@MN ctx.inst ctx.form LI) Q

def PE (e : Expr) : Prop :=
  ∀ (Γ : AEnv) (ρ : Env), GEnv ctx.inst Γ ρ → (refsE Γ e).Sub LV LI →
    Good ctx LV LI (InG ctx.inst (absE Γ e)) (evalExpr ctx ρ e)

def PEs (es : List Expr) : Prop :=
  ∀ (Γ : AEnv) (ρ : Env), GEnv ctx.inst Γ ρ → (refsEs Γ es).Sub LV LI →
    Good ctx LV LI (AllIn ctx.inst (absEs Γ es)) (evalArgs ctx ρ es)

def PCmp (es : List Expr) : Prop :=
  ∀ (ops : List CmpOp) (left : Val) (Γ : AEnv) (ρ : Env), GEnv ctx.inst Γ ρ → (refsEs Γ es).Sub LV LI →
    Good ctx LV LI (fun _ => True) (evalCmp ctx ρ left ops es)

def PConds (es : List Expr) : Prop :=
  ∀ (Γ : AEnv) (ρ : Env), GEnv ctx.inst Γ ρ → (refsEs Γ es).Sub LV LI →
    Good ctx LV LI (fun _ => True) (evalConds ctx ρ es)

def PS (s : Stmt) : Prop :=
  ∀ (Γ : AEnv) (ρ : Env), GEnv ctx.inst Γ ρ → NoEntries Γ (modifies s) → (refsS Γ s).Sub LV LI →
    Good ctx LV LI (FlowOK (GEnv ctx.inst Γ)) (execStmt ctx ρ s)

def PB (ss : List Stmt) : Prop :=
  ∀ (Γ : AEnv) (ρ : Env), GEnv ctx.inst Γ ρ → NoEntries Γ (modifiesB ss) → (refsB Γ ss).Sub LV LI →
    Good ctx LV LI (FlowOK (GEnv ctx.inst Γ)) (execBlock ctx ρ ss)

variable {ctx LV LI}

theorem Good.any {p : Prog Val} (h : Good ctx LV LI (fun _ => True) p) :
    Good ctx LV LI (InG ctx.inst AVal.any) p :=
  Prog.All.mono h fun v _ => inG_any v

theorem Good.toTrue {α : Type} {Q : α → Prop} {p : Prog α} (h : Good ctx LV LI Q p) :
    Good ctx LV LI (fun _ => True) p :=
  Prog.All.mono h fun _ _ => trivial

theorem pe_const (v : Val) : PE ctx LV LI (.const v) := by
  intro Γ ρ hΓ hsub
  simp only [evalExpr, absE]
  exact inG_absVal v

theorem pe_var (x : String) : PE ctx LV LI (.var x) := by
  intro Γ ρ hΓ hsub
  simp only [evalExpr, absE]
  refine Prog.All.lift fun v hv => ?_
  unfold AEnv.get
  cases hx : Γ.lookup x with
  | none => exact inG_any v
  | some a =>
    simp only [Option.getD_some]
    refine hΓ x a hx v ?_
    unfold Env.get at hv
    cases hl : List.lookup x ρ with
    | none => simp [hl] at hv
    | some w => simp [hl] at hv; rw [hv]

theorem pe_readV {e : Expr} (ih : PE ctx LV LI e) : PE ctx LV LI (.readV e) := by
  intro Γ ρ hΓ hsub
  simp only [evalExpr, absE]
  simp only [refsE] at hsub
  obtain ⟨hs1, hs2⟩ := Refs.sub_append.1 hsub
  refine Prog.All.bind (ih Γ ρ hΓ hs2) fun k hk => ?_
  refine Prog.All.bind (Q := fun n => KeyPat.Names ctx.form ctx.inst (absE Γ e).pieces n)
    (Prog.All.lift fun n hn => names_of_qualify hk hn) fun n hn => ?_
  exact ⟨⟨_, hs1.1 _ (List.mem_singleton.2 rfl), hn⟩, fun v => inG_any v⟩

theorem pe_readI {e : Expr} (ih : PE ctx LV LI e) : PE ctx LV LI (.readI e) := by
  intro Γ ρ hΓ hsub
  simp only [evalExpr, absE]
  simp only [refsE] at hsub
  obtain ⟨hs1, hs2⟩ := Refs.sub_append.1 hsub
  refine Prog.All.bind (ih Γ ρ hΓ hs2) fun k hk => ?_
  refine Prog.All.bind (Q := fun n => KeyPat.Names ctx.form ctx.inst (absE Γ e).pieces n)
    (Prog.All.lift fun n hn => names_of_qualify hk hn) fun n hn => ?_
  exact ⟨⟨_, hs1.2 _ (List.mem_singleton.2 rfl), hn⟩, fun v => inG_any v⟩

theorem pe_fstr {parts : List Expr} (ih : PEs ctx LV LI parts) : PE ctx LV LI (.fstr parts) := by
  intro Γ ρ hΓ hsub
  simp only [evalExpr, absE]
  simp only [refsE] at hsub
  refine Prog.All.bind (ih Γ ρ hΓ hsub) fun vs hvs => ?_
  refine Prog.All.bind (Q := fun s => KeyPat.Matches ctx.inst (absParts Γ parts) s)
    (Prog.All.lift fun s hs => matches_fmtAll Γ parts vs hvs s hs) fun s hs => ?_
  exact ⟨s, rfl, hs⟩

theorem pe_bin {op : BinOp} {a b : Expr} (iha : PE ctx LV LI a) (ihb : PE ctx LV LI b) :
    PE ctx LV LI (.bin op a b) := by
  intro Γ ρ hΓ hsub
  simp only [evalExpr, absE]
  simp only [refsE] at hsub
  obtain ⟨hs1, hs2⟩ := Refs.sub_append.1 hsub
  refine Prog.All.bind (iha Γ ρ hΓ hs1) fun x hx => ?_
  refine Prog.All.bind (ihb Γ ρ hΓ hs2) fun y hy => ?_
  exact Prog.All.lift fun r hr => inG_absBin hx hy hr

theorem pe_neg {a : Expr} (ih : PE ctx LV LI a) : PE ctx LV LI (.neg a) := by
  intro Γ ρ hΓ hsub
  simp only [evalExpr, absE]
  simp only [refsE] at hsub
  exact Prog.All.bind (ih Γ ρ hΓ hsub) fun x _ => Prog.All.lift fun r _ => inG_any r

theorem pe_pos {a : Expr} (ih : PE ctx LV LI a) : PE ctx LV LI (.pos a) := by
  intro Γ ρ hΓ hsub
  simp only [evalExpr, absE]
  simp only [refsE] at hsub
  exact Prog.All.bind (ih Γ ρ hΓ hsub) fun x _ => Prog.All.lift fun r _ => inG_any r

theorem pe_not {a : Expr} (ih : PE ctx LV LI a) : PE ctx LV LI (.not a) := by
  intro Γ ρ hΓ hsub
  simp only [evalExpr, absE]
  simp only [refsE] at hsub
  exact Prog.All.bind (ih Γ ρ hΓ hsub) fun x _ => inG_any _

theorem pe_and {a b : Expr} (iha : PE ctx LV LI a) (ihb : PE ctx LV LI b) : PE ctx LV LI (.and a b) := by
  intro Γ ρ hΓ hsub
  simp only [evalExpr, absE]
  simp only [refsE] at hsub
  obtain ⟨hs1, hs2⟩ := Refs.sub_append.1 hsub
  refine Prog.All.bind (iha Γ ρ hΓ hs1) fun x _ => ?_
  split
  · exact (ihb Γ ρ hΓ hs2).toTrue.any
  · exact inG_any x

theorem pe_or {a b : Expr} (iha : PE ctx LV LI a) (ihb : PE ctx LV LI b) : PE ctx LV LI (.or a b) := by
  intro Γ ρ hΓ hsub
  simp only [evalExpr, absE]
  simp only [refsE] at hsub
  obtain ⟨hs1, hs2⟩ := Refs.sub_append.1 hsub
  refine Prog.All.bind (iha Γ ρ hΓ hs1) fun x _ => ?_
  split
  · exact inG_any x
  · exact (ihb Γ ρ hΓ hs2).toTrue.any

theorem pe_cmp {first : Expr} {ops : List CmpOp} {rest : List Expr} (ih : PE ctx LV LI first)
    (ihr : PCmp ctx LV LI rest) : PE ctx LV LI (.cmp first ops rest) := by
  intro Γ ρ hΓ hsub
  simp only [evalExpr, absE]
  simp only [refsE] at hsub
  obtain ⟨hs1, hs2⟩ := Refs.sub_append.1 hsub
  exact Prog.All.bind (ih Γ ρ hΓ hs1) fun x _ => (ihr ops x Γ ρ hΓ hs2).any

theorem pe_ite {c a b : Expr} (ihc : PE ctx LV LI c) (iha : PE ctx LV LI a) (ihb : PE ctx LV LI b) :
    PE ctx LV LI (.ite c a b) := by
  intro Γ ρ hΓ hsub
  simp only [evalExpr, absE]
  simp only [refsE] at hsub
  obtain ⟨hs12, hs3⟩ := Refs.sub_append.1 hsub
  obtain ⟨hs1, hs2⟩ := Refs.sub_append.1 hs12
  refine Prog.All.bind (ihc Γ ρ hΓ hs1) fun x _ => ?_
  split
  · exact Prog.All.mono (iha Γ ρ hΓ hs2) fun v hv => inG_join_left hv
  · exact Prog.All.mono (ihb Γ ρ hΓ hs3) fun v hv => inG_join_right hv

theorem pe_call {f : Builtin} {args : List Expr} (ih : PEs ctx LV LI args) : PE ctx LV LI (.call f args) := by
  intro Γ ρ hΓ hsub
  simp only [evalExpr, absE]
  simp only [refsE] at hsub
  exact Prog.All.bind (ih Γ ρ hΓ hsub) fun vs hvs => Prog.All.lift fun r hr => inG_absCall hvs hr

theorem pe_method {m : Method} {obj : Expr} {args : List Expr} (ih : PE ctx LV LI obj)
    (iha : PEs ctx LV LI args) : PE ctx LV LI (.method m obj args) := by
  intro Γ ρ hΓ hsub
  simp only [evalExpr, absE]
  simp only [refsE] at hsub
  obtain ⟨hs1, hs2⟩ := Refs.sub_append.1 hsub
  refine Prog.All.bind (ih Γ ρ hΓ hs1) fun o _ => ?_
  split
  · exact Prog.All.bind (iha Γ ρ hΓ hs2) fun vs _ => Prog.All.lift fun r _ => inG_any r
  · trivial

theorem pe_attr {obj : Expr} {name : String} (ih : PE ctx LV LI obj) : PE ctx LV LI (.attr obj name) := by
  intro Γ ρ hΓ hsub
  simp only [evalExpr, absE]
  simp only [refsE] at hsub
  refine Prog.All.bind (ih Γ ρ hΓ hsub) fun o _ => ?_
  split
  · split
    · split
      · exact inG_any _
      · trivial
    · trivial
  · trivial

theorem pe_attrFail {obj : Expr} (ih : PE ctx LV LI obj) : PE ctx LV LI (.attrFail obj) := by
  intro Γ ρ hΓ hsub
  simp only [evalExpr, absE]
  simp only [refsE] at hsub
  exact Prog.All.bind (ih Γ ρ hΓ hsub) fun o _ => trivial

theorem pe_raise (e : PyErr) : PE ctx LV LI (.raise e) := by
  intro Γ ρ hΓ hsub
  simp only [evalExpr]
  trivial

theorem pe_threshold {name key : Expr} {hasKey : Bool} (ihn : PE ctx LV LI name) (ihk : PE ctx LV LI key) :
    PE ctx LV LI (.threshold name hasKey key) := by
  intro Γ ρ hΓ hsub
  simp only [evalExpr, absE]
  simp only [refsE] at hsub
  obtain ⟨hs1, hs2⟩ := Refs.sub_append.1 hsub
  refine Prog.All.bind (ihn Γ ρ hΓ hs1) fun n _ => ?_
  split
  · exact Prog.All.bind (ihk Γ ρ hΓ hs2) fun k _ => Prog.All.lift fun r _ => inG_any r
  · exact Prog.All.lift fun r _ => inG_any r

theorem pe_thresholdOf {form name key : Expr} {hasKey : Bool} (ihf : PE ctx LV LI form)
    (ihn : PE ctx LV LI name) (ihk : PE ctx LV LI key) :
    PE ctx LV LI (.thresholdOf form name hasKey key) := by
  intro Γ ρ hΓ hsub
  simp only [evalExpr, absE]
  simp only [refsE] at hsub
  obtain ⟨hs12, hs3⟩ := Refs.sub_append.1 hsub
  obtain ⟨hs1, hs2⟩ := Refs.sub_append.1 hs12
  refine Prog.All.bind (ihf Γ ρ hΓ hs1) fun f _ => ?_
  split
  · -- needForm
    show Prog.All _ _ _ (Prog.needForm _ _)
    simp only [Prog.All]
    split
    · trivial
    · refine Prog.All.bind (ihn Γ ρ hΓ hs2) fun n _ => ?_
      split
      · exact Prog.All.bind (ihk Γ ρ hΓ hs3) fun k _ => Prog.All.lift fun r _ => inG_any r
      · exact Prog.All.lift fun r _ => inG_any r
  · trivial
  · trivial
  · trivial

theorem pe_loadedForm {form : Expr} (ihf : PE ctx LV LI form) : PE ctx LV LI (.loadedForm form) := by
  intro Γ ρ hΓ hsub
  simp only [evalExpr, absE]
  simp only [refsE] at hsub
  refine Prog.All.bind (ihf Γ ρ hΓ hsub) fun f _ => ?_
  split
  · show Prog.All _ _ _ (Prog.needForm _ _)
    simp only [Prog.All]
    exact inG_any _
  · trivial
  · trivial
  · trivial

theorem pe_instance : PE ctx LV LI .instance := by
  intro Γ ρ hΓ hsub
  simp only [evalExpr, absE]
  show InG ctx.inst AVal.inst _
  unfold InG
  cases ctx.inst <;> rfl

theorem pe_notImpl {args : List Expr} (ih : PEs ctx LV LI args) : PE ctx LV LI (.notImpl args) := by
  intro Γ ρ hΓ hsub
  simp only [evalExpr, absE]
  simp only [refsE] at hsub
  exact Prog.All.bind (ih Γ ρ hΓ hsub) fun _ _ => trivial

theorem inG_items_of_allIn {as : List AVal} {vs : List Val} (h : AllIn inst as vs) {r : Val}
    (hr : Val.iterItems r = .ok vs) : InG inst (.items (AVal.joinAll as)) r := by
  intro xs hxs x hx
  rw [hr] at hxs
  simp only [Except.ok.injEq] at hxs
  subst hxs
  obtain ⟨a, ha, hin⟩ := allIn_mem h hx
  exact inG_joinAll ha hin

theorem pe_tuple {xs : List Expr} (ih : PEs ctx LV LI xs) : PE ctx LV LI (.tuple xs) := by
  intro Γ ρ hΓ hsub
  simp only [evalExpr, absE]
  simp only [refsE] at hsub
  exact Prog.All.bind (ih Γ ρ hΓ hsub) fun vs hvs => inG_items_of_allIn hvs rfl

theorem pe_list {xs : List Expr} (ih : PEs ctx LV LI xs) : PE ctx LV LI (.list xs) := by
  intro Γ ρ hΓ hsub
  simp only [evalExpr, absE]
  simp only [refsE] at hsub
  exact Prog.All.bind (ih Γ ρ hΓ hsub) fun vs hvs => inG_items_of_allIn hvs rfl

theorem pe_dict {ks : List Val} {vs : List Expr} (ih : PEs ctx LV LI vs) : PE ctx LV LI (.dict ks vs) := by
  intro Γ ρ hΓ hsub
  simp only [evalExpr, absE]
  simp only [refsE] at hsub
  exact Prog.All.bind (ih Γ ρ hΓ hsub) fun _ _ => inG_any _

theorem pe_index {e idx : Expr} (iha : PE ctx LV LI e) (ihb : PE ctx LV LI idx) : PE ctx LV LI (.index e idx) := by
  intro Γ ρ hΓ hsub
  simp only [evalExpr, absE]
  simp only [refsE] at hsub
  obtain ⟨hs1, hs2⟩ := Refs.sub_append.1 hsub
  refine Prog.All.bind (iha Γ ρ hΓ hs1) fun x _ => ?_
  exact Prog.All.bind (ihb Γ ρ hΓ hs2) fun y _ => Prog.All.lift fun r _ => inG_any r

theorem pe_slice {e lo hi : Expr} (iha : PE ctx LV LI e) (ihl : PE ctx LV LI lo) (ihh : PE ctx LV LI hi) :
    PE ctx LV LI (.slice e lo hi) := by
  intro Γ ρ hΓ hsub
  simp only [evalExpr, absE]
  simp only [refsE] at hsub
  obtain ⟨hs12, hs3⟩ := Refs.sub_append.1 hsub
  obtain ⟨hs1, hs2⟩ := Refs.sub_append.1 hs12
  refine Prog.All.bind (iha Γ ρ hΓ hs1) fun x _ => ?_
  refine Prog.All.bind (ihl Γ ρ hΓ hs2) fun l _ => ?_
  exact Prog.All.bind (ihh Γ ρ hΓ hs3) fun h _ => Prog.All.lift fun r _ => inG_any r

/-- one step of a comprehension -/
theorem comp_step {elt : Expr} {xs : List String} {conds : List Expr} (ihc : PConds ctx LV LI conds)
    (ihe : PE ctx LV LI elt) {Γ : AEnv} {ρ : Env} (hΓ : GEnv ctx.inst Γ ρ) {a : AVal}
    (hsc : (refsEs (Γ.bind xs a) conds).Sub LV LI) (hse : (refsE (Γ.bind xs a) elt).Sub LV LI)
    {item : Val} (hitem : InG ctx.inst a item) :
    Good ctx LV LI (fun _ => True)
      ((Prog.lift (bindTargets xs item ρ)).bind fun env' =>
        (evalConds ctx env' conds).bind fun ok =>
          if ok then (evalExpr ctx env' elt).bind fun v => .pure (some v) else .pure none) := by
  refine Prog.All.bind (Q := fun ρ' => GEnv ctx.inst (Γ.bind xs a) ρ')
    (Prog.All.lift fun ρ' hρ' => gEnv_bindTargets hΓ hitem hρ') fun ρ' hρ' => ?_
  refine Prog.All.bind (ihc _ ρ' hρ' hsc) fun ok _ => ?_
  split
  · exact Prog.All.bind (ihe _ ρ' hρ' hse) fun v _ => trivial
  · trivial

theorem pe_listComp {elt iter : Expr} {xs : List String} {conds : List Expr} (ihi : PE ctx LV LI iter)
    (ihc : PConds ctx LV LI conds) (ihe : PE ctx LV LI elt) : PE ctx LV LI (.listComp elt xs iter conds) := by
  intro Γ ρ hΓ hsub
  simp only [evalExpr, absE]
  simp only [refsE] at hsub
  obtain ⟨hs12, hs3⟩ := Refs.sub_append.1 hsub
  obtain ⟨hs1, hs2⟩ := Refs.sub_append.1 hs12
  refine Prog.All.bind (ihi Γ ρ hΓ hs1) fun itv hitv => ?_
  refine Prog.All.bind (Q := fun items => ∀ x ∈ items, InG ctx.inst (absE Γ iter).itemsOf x)
    (Prog.All.lift fun items hitems => inG_itemsOf hitv hitems) fun items hitems => ?_
  refine Prog.All.bind (Q := fun _ => True) (collectM_all items fun item hmem => ?_) fun vs _ => inG_any _
  exact comp_step ihc ihe hΓ hs2 hs3 (hitems item hmem)

theorem pe_sumGen {elt iter : Expr} {xs : List String} {conds : List Expr} (ihi : PE ctx LV LI iter)
    (ihc : PConds ctx LV LI conds) (ihe : PE ctx LV LI elt) : PE ctx LV LI (.sumGen elt xs iter conds) := by
  intro Γ ρ hΓ hsub
  simp only [evalExpr, absE]
  simp only [refsE] at hsub
  obtain ⟨hs12, hs3⟩ := Refs.sub_append.1 hsub
  obtain ⟨hs1, hs2⟩ := Refs.sub_append.1 hs12
  refine Prog.All.bind (ihi Γ ρ hΓ hs1) fun itv hitv => ?_
  refine Prog.All.bind (Q := fun items => ∀ x ∈ items, InG ctx.inst (absE Γ iter).itemsOf x)
    (Prog.All.lift fun items hitems => inG_itemsOf hitv hitems) fun items hitems => ?_
  refine Good.any (sumGenM_all items _ fun item hmem => ?_)
  exact comp_step ihc ihe hΓ hs2 hs3 (hitems item hmem)

theorem good_flow_result (r : Flow) : Good ctx LV LI (InG ctx.inst AVal.any) (Flow.result r) := by
  cases r <;> simp only [Flow.result]
  · exact inG_any _
  · trivial
  · trivial
  · exact inG_any _

theorem pe_callHelper {params : List String} {args : List Expr} {defaults : List (String × Val)}
    {body : List Stmt} (iha : PEs ctx LV LI args) (ihb : PB ctx LV LI body) :
    PE ctx LV LI (.callHelper params args defaults body) := by
  intro Γ ρ hΓ hsub
  simp only [evalExpr, absE]
  simp only [refsE] at hsub
  obtain ⟨hs1, hs2⟩ := Refs.sub_append.1 hsub
  refine Prog.All.bind (iha Γ ρ hΓ hs1) fun vs hvs => ?_
  split
  · trivial
  · refine Prog.All.bind (ihb _ _ (gEnv_helper hvs defaults body) (noEntries_erase _ _) hs2) fun r _ => ?_
    exact good_flow_result r

theorem pe_global (name : String) : PE ctx LV LI (.global name) := by
  intro Γ ρ hΓ hsub
  simp only [evalExpr, absE]
  split
  · exact inG_any _
  · trivial

theorem pe_unsupported (w : String) : PE ctx LV LI (.unsupported w) := by
  intro Γ ρ hΓ hsub
  simp only [evalExpr]
  trivial


/-! #### lists of expressions -/

theorem pes_nil : PEs ctx LV LI [] := by
  intro Γ ρ hΓ hsub
  simp only [evalArgs, absEs]
  exact AllIn.nil

theorem pes_cons {e : Expr} {es : List Expr} (ih : PE ctx LV LI e) (ihs : PEs ctx LV LI es) :
    PEs ctx LV LI (e :: es) := by
  intro Γ ρ hΓ hsub
  simp only [evalArgs, absEs]
  simp only [refsEs] at hsub
  obtain ⟨hs1, hs2⟩ := Refs.sub_append.1 hsub
  refine Prog.All.bind (ih Γ ρ hΓ hs1) fun v hv => ?_
  exact Prog.All.bind (ihs Γ ρ hΓ hs2) fun vs hvs => AllIn.cons hv hvs

theorem pcmp_nil : PCmp ctx LV LI [] := by
  intro ops left Γ ρ hΓ hsub
  cases ops <;> simp only [evalCmp] <;> trivial

theorem pcmp_cons {e : Expr} {es : List Expr} (ih : PE ctx LV LI e) (ihs : PCmp ctx LV LI es) :
    PCmp ctx LV LI (e :: es) := by
  intro ops left Γ ρ hΓ hsub
  simp only [refsEs] at hsub
  obtain ⟨hs1, hs2⟩ := Refs.sub_append.1 hsub
  cases ops with
  | nil => simp only [evalCmp]; trivial
  | cons op ops =>
    simp only [evalCmp]
    refine Prog.All.bind (ih Γ ρ hΓ hs1) fun right _ => ?_
    refine Prog.All.bind (Q := fun _ => True) Prog.All.liftTrue fun b _ => ?_
    split
    · split
      · trivial
      · exact ihs _ right Γ ρ hΓ hs2
    · trivial

theorem pconds_nil : PConds ctx LV LI [] := by
  intro Γ ρ hΓ hsub
  simp only [evalConds]
  trivial

theorem pconds_cons {e : Expr} {es : List Expr} (ih : PE ctx LV LI e) (ihs : PConds ctx LV LI es) :
    PConds ctx LV LI (e :: es) := by
  intro Γ ρ hΓ hsub
  simp only [evalConds]
  simp only [refsEs] at hsub
  obtain ⟨hs1, hs2⟩ := Refs.sub_append.1 hsub
  refine Prog.All.bind (ih Γ ρ hΓ hs1) fun v _ => ?_
  split
  · exact ihs Γ ρ hΓ hs2
  · trivial

/-! #### statements -/

theorem noEntries_append {Γ : AEnv} {xs ys : List String} (h : NoEntries Γ (xs ++ ys)) :
    NoEntries Γ xs ∧ NoEntries Γ ys :=
  ⟨fun x hx => h x (List.mem_append_left _ hx), fun x hx => h x (List.mem_append_right _ hx)⟩

theorem ps_assign {x : String} {e : Expr} (ih : PE ctx LV LI e) : PS ctx LV LI (.assign x e) := by
  intro Γ ρ hΓ hno hsub
  simp only [execStmt]
  simp only [refsS] at hsub
  refine Prog.All.bind (ih Γ ρ hΓ hsub) fun v _ => ?_
  exact hΓ.set_noEntry (hno x (by simp [modifies])) v

theorem ps_unpack {xs : List String} {e : Expr} (ih : PE ctx LV LI e) : PS ctx LV LI (.unpack xs e) := by
  intro Γ ρ hΓ hno hsub
  simp only [execStmt]
  simp only [refsS] at hsub
  refine Prog.All.bind (ih Γ ρ hΓ hsub) fun v _ => ?_
  refine Prog.All.bind (Q := fun ρ' => GEnv ctx.inst Γ ρ')
    (Prog.All.lift fun ρ' hρ' => gEnv_bindTargets_noEntries hΓ (by simpa [modifies] using hno) hρ')
    fun ρ' hρ' => hρ'

theorem ps_aug {x : String} {op : BinOp} {e : Expr} (ih : PE ctx LV LI e) : PS ctx LV LI (.aug x op e) := by
  intro Γ ρ hΓ hno hsub
  simp only [execStmt]
  simp only [refsS] at hsub
  have hx : Γ.lookup x = none := hno x (by simp [modifies])
  refine Prog.All.bind (Q := fun _ => True) Prog.All.liftTrue fun old _ => ?_
  refine Prog.All.bind (ih Γ ρ hΓ hsub) fun v _ => ?_
  split
  · exact Prog.All.bind (Q := fun _ => True) Prog.All.liftTrue fun ys _ => hΓ.set_noEntry hx _
  · exact Prog.All.bind (Q := fun _ => True) Prog.All.liftTrue fun r _ => hΓ.set_noEntry hx _

theorem ps_ifS {c : Expr} {thn els : List Stmt} (ihc : PE ctx LV LI c) (iht : PB ctx LV LI thn)
    (ihe : PB ctx LV LI els) : PS ctx LV LI (.ifS c thn els) := by
  intro Γ ρ hΓ hno hsub
  simp only [execStmt]
  simp only [refsS] at hsub
  simp only [modifies] at hno
  obtain ⟨hno1, hno2⟩ := noEntries_append hno
  obtain ⟨hs12, hs3⟩ := Refs.sub_append.1 hsub
  obtain ⟨hs1, hs2⟩ := Refs.sub_append.1 hs12
  refine Prog.All.bind (ihc Γ ρ hΓ hs1) fun v _ => ?_
  split
  · exact iht Γ ρ hΓ hno1 hs2
  · exact ihe Γ ρ hΓ hno2 hs3

theorem flowOK_mono {P Q : Env → Prop} (h : ∀ ρ, P ρ → Q ρ) {r : Flow} (hr : FlowOK P r) : FlowOK Q r := by
  cases r <;> first | exact h _ hr | trivial

theorem ps_forS {xs : List String} {iter : Expr} {body : List Stmt} (ihi : PE ctx LV LI iter)
    (ihb : PB ctx LV LI body) : PS ctx LV LI (.forS xs iter body) := by
  intro Γ ρ hΓ hno hsub
  simp only [execStmt]
  simp only [refsS] at hsub
  simp only [modifies] at hno
  obtain ⟨hnox, hnob⟩ := noEntries_append hno
  obtain ⟨hs1, hs2⟩ := Refs.sub_append.1 hsub
  refine Prog.All.bind (ihi Γ ρ hΓ hs1) fun itv hitv => ?_
  refine Prog.All.bind (Q := fun items => ∀ x ∈ items, InG ctx.inst (absE Γ iter).itemsOf x)
    (Prog.All.lift fun items hitems => inG_itemsOf hitv hitems) fun items hitems => ?_
  refine forLoop_all items ρ (fun ρ1 item hρ1 hmem => ?_) hΓ
  -- one iteration
  have hitem := hitems item hmem
  -- the environment of the body
  have key : ∀ ρ2, bindTargets xs item ρ1 = .ok ρ2 →
      GEnv ctx.inst (loopEnv Γ xs (absE Γ iter).itemsOf body) ρ2 ∧
      NoEntries (loopEnv Γ xs (absE Γ iter).itemsOf body) (modifiesB body) ∧
      (∀ ρ', GEnv ctx.inst (loopEnv Γ xs (absE Γ iter).itemsOf body) ρ' → GEnv ctx.inst Γ ρ') := by
    intro ρ2 hρ2
    unfold loopEnv
    split
    · rename_i x
      split
      · exact ⟨gEnv_bindTargets_noEntries hρ1 hnox hρ2, hnob, fun _ h => h⟩
      · rename_i hxm
        have hxm' : (modifiesB body).contains x = false := by simpa using hxm
        simp only [bindTargets, Except.ok.injEq] at hρ2
        subst hρ2
        refine ⟨hρ1.cons_set hitem, ?_, fun ρ' h => GEnv.of_cons (hnox x (List.mem_singleton.2 rfl)) h⟩
        intro y hy
        rw [lookup_cons_eq]
        have : y ≠ x := by
          intro hyx; subst hyx
          have : (modifiesB body).contains y = true := by simpa using hy
          rw [this] at hxm'; exact absurd hxm' (by simp)
        rw [if_neg this]
        exact hnob y hy
    · exact ⟨gEnv_bindTargets_noEntries hρ1 hnox hρ2, hnob, fun _ h => h⟩
  refine Prog.All.bind (Q := fun ρ2 => bindTargets xs item ρ1 = .ok ρ2)
    (Prog.All.lift fun ρ2 hρ2 => hρ2) fun ρ2 hρ2 => ?_
  obtain ⟨hg, hn, hback⟩ := key ρ2 hρ2
  exact Prog.All.mono (ihb _ ρ2 hg hn hs2) fun r hr => flowOK_mono hback hr

theorem ps_ret {e : Expr} (ih : PE ctx LV LI e) : PS ctx LV LI (.ret e) := by
  intro Γ ρ hΓ hno hsub
  simp only [execStmt]
  simp only [refsS] at hsub
  exact Prog.All.bind (ih Γ ρ hΓ hsub) fun v _ => trivial

theorem ps_expr {e : Expr} (ih : PE ctx LV LI e) : PS ctx LV LI (.expr e) := by
  intro Γ ρ hΓ hno hsub
  simp only [execStmt]
  simp only [refsS] at hsub
  exact Prog.All.bind (ih Γ ρ hΓ hsub) fun v _ => hΓ

theorem ps_append {x : String} {e : Expr} (ih : PE ctx LV LI e) : PS ctx LV LI (.append x e) := by
  intro Γ ρ hΓ hno hsub
  simp only [execStmt]
  simp only [refsS] at hsub
  have hx : Γ.lookup x = none := hno x (by simp [modifies])
  refine Prog.All.bind (Q := fun _ => True) Prog.All.liftTrue fun old _ => ?_
  split
  · exact Prog.All.bind (ih Γ ρ hΓ hsub) fun v _ => hΓ.set_noEntry hx _
  · trivial

theorem ps_assertS {c msg : Expr} (ihc : PE ctx LV LI c) (ihm : PE ctx LV LI msg) :
    PS ctx LV LI (.assertS c msg) := by
  intro Γ ρ hΓ hno hsub
  simp only [execStmt]
  simp only [refsS] at hsub
  obtain ⟨hs1, hs2⟩ := Refs.sub_append.1 hsub
  refine Prog.All.bind (ihc Γ ρ hΓ hs1) fun v _ => ?_
  split
  · exact hΓ
  · exact Prog.All.bind (ihm Γ ρ hΓ hs2) fun _ _ => trivial

theorem ps_continueS : PS ctx LV LI .continueS := by
  intro Γ ρ hΓ hno hsub
  simp only [execStmt]
  exact hΓ

theorem ps_breakS : PS ctx LV LI .breakS := by
  intro Γ ρ hΓ hno hsub
  simp only [execStmt]
  exact hΓ

theorem ps_pass : PS ctx LV LI .pass := by
  intro Γ ρ hΓ hno hsub
  simp only [execStmt]
  exact hΓ

theorem pb_nil : PB ctx LV LI [] := by
  intro Γ ρ hΓ hno hsub
  simp only [execBlock]
  exact hΓ

theorem pb_cons {s : Stmt} {ss : List Stmt} (ih : PS ctx LV LI s) (ihs : PB ctx LV LI ss) :
    PB ctx LV LI (s :: ss) := by
  intro Γ ρ hΓ hno hsub
  simp only [execBlock]
  simp only [refsB] at hsub
  simp only [modifiesB] at hno
  obtain ⟨hno1, hno2⟩ := noEntries_append hno
  obtain ⟨hs1, hs2⟩ := Refs.sub_append.1 hsub
  refine Prog.All.bind (ih Γ ρ hΓ hno1 hs1) fun r hr => ?_
  cases r with
  | next ρ' => exact ihs Γ ρ' hr hno2 hs2
  | cont ρ' => exact hr
  | brk ρ' => exact hr
  | ret v => trivial

/-! #### the induction -/

mutual
  theorem pe_all : ∀ e : Expr, PE ctx LV LI e
    | .const v => pe_const v
    | .var x => pe_var x
    | .readI e => pe_readI (pe_all e)
    | .readV e => pe_readV (pe_all e)
    | .fstr parts => pe_fstr (pes_all parts)
    | .bin _ a b => pe_bin (pe_all a) (pe_all b)
    | .neg a => pe_neg (pe_all a)
    | .pos a => pe_pos (pe_all a)
    | .not a => pe_not (pe_all a)
    | .and a b => pe_and (pe_all a) (pe_all b)
    | .or a b => pe_or (pe_all a) (pe_all b)
    | .cmp first _ rest => pe_cmp (pe_all first) (pcmp_all rest)
    | .ite c a b => pe_ite (pe_all c) (pe_all a) (pe_all b)
    | .call _ args => pe_call (pes_all args)
    | .method _ obj args => pe_method (pe_all obj) (pes_all args)
    | .attr obj _ => pe_attr (pe_all obj)
    | .attrFail obj => pe_attrFail (pe_all obj)
    | .raise e => pe_raise e
    | .threshold name _ key => pe_threshold (pe_all name) (pe_all key)
    | .thresholdOf form name _ key => pe_thresholdOf (pe_all form) (pe_all name) (pe_all key)
    | .loadedForm form => pe_loadedForm (pe_all form)
    | .instance => pe_instance
    | .notImpl args => pe_notImpl (pes_all args)
    | .tuple xs => pe_tuple (pes_all xs)
    | .list xs => pe_list (pes_all xs)
    | .dict _ vs => pe_dict (pes_all vs)
    | .index e idx => pe_index (pe_all e) (pe_all idx)
    | .slice e lo hi => pe_slice (pe_all e) (pe_all lo) (pe_all hi)
    | .listComp elt _ iter conds => pe_listComp (pe_all iter) (pconds_all conds) (pe_all elt)
    | .sumGen elt _ iter conds => pe_sumGen (pe_all iter) (pconds_all conds) (pe_all elt)
    | .callHelper _ args _ body => pe_callHelper (pes_all args) (pb_all body)
    | .global name => pe_global name
    | .unsupported w => pe_unsupported w
  theorem pes_all : ∀ es : List Expr, PEs ctx LV LI es
    | [] => pes_nil
    | e :: es => pes_cons (pe_all e) (pes_all es)
  theorem pcmp_all : ∀ es : List Expr, PCmp ctx LV LI es
    | [] => pcmp_nil
    | e :: es => pcmp_cons (pe_all e) (pcmp_all es)
  theorem pconds_all : ∀ es : List Expr, PConds ctx LV LI es
    | [] => pconds_nil
    | e :: es => pconds_cons (pe_all e) (pconds_all es)
  theorem ps_all : ∀ s : Stmt, PS ctx LV LI s
    | .assign _ e => ps_assign (pe_all e)
    | .unpack _ e => ps_unpack (pe_all e)
    | .aug _ _ e => ps_aug (pe_all e)
    | .ifS c thn els => ps_ifS (pe_all c) (pb_all thn) (pb_all els)
    | .forS _ iter body => ps_forS (pe_all iter) (pb_all body)
    | .ret e => ps_ret (pe_all e)
    | .expr e => ps_expr (pe_all e)
    | .append _ e => ps_append (pe_all e)
    | .assertS c msg => ps_assertS (pe_all c) (pe_all msg)
    | .continueS => ps_continueS
    | .breakS => ps_breakS
    | .pass => ps_pass
  theorem pb_all : ∀ ss : List Stmt, PB ctx LV LI ss
    | [] => pb_nil
    | s :: ss => pb_cons (ps_all s) (pb_all ss)
end


end main
end HabuVerif.Dsl

/-! ## Occurrence of reads in strategy trees -/

namespace HabuVerif

/-- a `readV n` node occurs somewhere in the tree (whatever the stores answer) -/
inductive Tree.OccursV {N I F V : Type} : Tree N I F V → N → Prop
  | here {n : N} {k : V → Tree N I F V} : OccursV (.readV n k) n
  | inReadV {n m : N} {k : V → Tree N I F V} {v : V} : OccursV (k v) m → OccursV (.readV n k) m
  | inReadI {x : I} {m : N} {k : V → Tree N I F V} {v : V} : OccursV (k v) m → OccursV (.readI x k) m
  | inNeedForm {f : F} {m : N} {k : Tree N I F V} : OccursV k m → OccursV (.needForm f k) m

/-- a `readI x` node occurs somewhere in the tree -/
inductive Tree.OccursI {N I F V : Type} : Tree N I F V → I → Prop
  | here {x : I} {k : V → Tree N I F V} : OccursI (.readI x k) x
  | inReadV {n : N} {y : I} {k : V → Tree N I F V} {v : V} : OccursI (k v) y → OccursI (.readV n k) y
  | inReadI {x y : I} {k : V → Tree N I F V} {v : V} : OccursI (k v) y → OccursI (.readI x k) y
  | inNeedForm {f : F} {y : I} {k : Tree N I F V} : OccursI k y → OccursI (.needForm f k) y

theorem Tree.occursV_mapOut {N I F V : Type} (g : V → Sum V Nat) {t : Tree N I F V} {n : N}
    (h : (t.mapOut g).OccursV n) : t.OccursV n := by
  induction t with
  | ret v => simp only [Tree.mapOut] at h; split at h <;> cases h
  | notImpl => cases h
  | err c => cases h
  | readV m k ih =>
    simp only [Tree.mapOut] at h
    cases h with
    | here => exact .here
    | inReadV h' => exact .inReadV (ih _ h')
  | readI x k ih =>
    simp only [Tree.mapOut] at h
    cases h with
    | inReadI h' => exact .inReadI (ih _ h')
  | needForm f k ih =>
    simp only [Tree.mapOut] at h
    cases h with
    | inNeedForm h' => exact .inNeedForm (ih h')

theorem Tree.occursI_mapOut {N I F V : Type} (g : V → Sum V Nat) {t : Tree N I F V} {y : I}
    (h : (t.mapOut g).OccursI y) : t.OccursI y := by
  induction t with
  | ret v => simp only [Tree.mapOut] at h; split at h <;> cases h
  | notImpl => cases h
  | err c => cases h
  | readV m k ih =>
    simp only [Tree.mapOut] at h
    cases h with
    | inReadV h' => exact .inReadV (ih _ h')
  | readI x k ih =>
    simp only [Tree.mapOut] at h
    cases h with
    | here => exact .here
    | inReadI h' => exact .inReadI (ih _ h')
  | needForm f k ih =>
    simp only [Tree.mapOut] at h
    cases h with
    | inNeedForm h' => exact .inNeedForm (ih h')

namespace Dsl

theorem occursV_toTree {RV RI : String → Prop} {Q : Val → Prop} {p : Prog Val} (hp : p.All RV RI Q)
    {n : String} (h : p.toTree.OccursV n) : RV n := by
  induction p with
  | pure a => cases h
  | notImpl => cases h
  | err e => cases h
  | readV m k ih =>
    simp only [Prog.toTree] at h
    cases h with
    | here => exact hp.1
    | inReadV h' => exact ih _ (hp.2 _) h'
  | readI x k ih =>
    simp only [Prog.toTree] at h
    cases h with
    | inReadI h' => exact ih _ (hp.2 _) h'
  | needForm f k ih =>
    simp only [Prog.toTree] at h
    cases h with
    | inNeedForm h' => exact ih hp h'

theorem occursI_toTree {RV RI : String → Prop} {Q : Val → Prop} {p : Prog Val} (hp : p.All RV RI Q)
    {y : String} (h : p.toTree.OccursI y) : RI y := by
  induction p with
  | pure a => cases h
  | notImpl => cases h
  | err e => cases h
  | readV m k ih =>
    simp only [Prog.toTree] at h
    cases h with
    | inReadV h' => exact ih _ (hp.2 _) h'
  | readI x k ih =>
    simp only [Prog.toTree] at h
    cases h with
    | here => exact hp.1
    | inReadI h' => exact ih _ (hp.2 _) h'
  | needForm f k ih =>
    simp only [Prog.toTree] at h
    cases h with
    | inNeedForm h' => exact ih hp h'

/-- the body of a line only reads names described by its syntactic read sets -/
theorem evalBody_good (ctx : Ctx) (d : LineDecl) :
    Good ctx (refsV d) (refsI d) (fun _ => True) (evalBody ctx d) := by
  unfold evalBody
  have hΓ : GEnv ctx.inst (bodyEnv d) d.defaults := (gEnv_defaults d.defaults).erase _
  have hsub : (refsB (bodyEnv d) d.body).Sub (refsV d) (refsI d) := ⟨fun _ h => h, fun _ h => h⟩
  refine Prog.All.bind (pb_all d.body (bodyEnv d) d.defaults hΓ (noEntries_erase _ _) hsub) fun r _ => ?_
  exact (good_flow_result r).toTrue

/-- **Soundness of the read-set analysis.**  Every `readV n` (`readI x`) node that occurs anywhere
in the strategy tree of line `d` of form `c.name[:inst]` — for all continuations, hence for all
stores — reads a name that is the qualification of a key matching one of the patterns `refsV d`
(`refsI d`), which are computed from the syntax of `d` alone. -/
theorem eval_reads_in_refs (y : YearDecl) (c : ClassDecl) (inst : Option String) (d : LineDecl) :
    (∀ n, (evalLine y c inst d).OccursV n → ∃ p ∈ refsV d, KeyPat.Names c.name inst p n) ∧
    (∀ x, (evalLine y c inst d).OccursI x → ∃ p ∈ refsI d, KeyPat.Names c.name inst p x) := by
  have hg := evalBody_good { year := y, form := c.name, inst := inst, thresholds := c.thresholds } d
  constructor
  · intro n hn
    exact occursV_toTree hg (Tree.occursV_mapOut _ hn)
  · intro x hx
    exact occursI_toTree hg (Tree.occursI_mapOut _ hx)

/-- the same for the catalogue: whatever line name the solver attempts -/
theorem cat_reads_in_refs (y : YearDecl) (n : String) :
    (∀ m, ((mkCat y).sem n).OccursV m →
      ∃ f k c inst d, splitName n = some (f, k) ∧ y.resolveForm f = some (c, inst) ∧ d ∈ c.lines ∧
        d.name = k ∧ ∃ p ∈ refsV d, KeyPat.Names c.name inst p m) ∧
    (∀ x, ((mkCat y).sem n).OccursI x →
      ∃ f k c inst d, splitName n = some (f, k) ∧ y.resolveForm f = some (c, inst) ∧ d ∈ c.lines ∧
        d.name = k ∧ ∃ p ∈ refsI d, KeyPat.Names c.name inst p x) := by
  have key : ∀ (P : Tree String String String Val → Prop), P ((mkCat y).sem n) →
      (∀ c, ¬ P (.err c)) →
      ∃ f k c inst d, splitName n = some (f, k) ∧ y.resolveForm f = some (c, inst) ∧ d ∈ c.lines ∧
        d.name = k ∧ P (evalLine y c inst d) := by
    intro P hP hErr
    simp only [mkCat, mkCatOf] at hP
    cases hs : splitName n with
    | none => simp only [hs] at hP; exact absurd hP (hErr _)
    | some fk =>
      obtain ⟨f, k⟩ := fk
      simp only [hs] at hP
      cases hr : resolveIn y.formMap f with
      | none => simp only [hr] at hP; exact absurd hP (hErr _)
      | some ci =>
        obtain ⟨c, inst⟩ := ci
        simp only [hr] at hP
        cases hd : c.lines.find? (fun d => d.name == k) with
        | none => simp only [hd] at hP; exact absurd hP (hErr _)
        | some d =>
          simp only [hd] at hP
          refine ⟨f, k, c, inst, d, rfl, hr, List.mem_of_find?_eq_some hd, ?_, hP⟩
          have := List.find?_some hd
          simpa using this
  constructor
  · intro m hm
    obtain ⟨f, k, c, inst, d, h1, h2, h3, h4, h5⟩ :=
      key (fun t => t.OccursV m) hm (fun c h => by cases h)
    exact ⟨f, k, c, inst, d, h1, h2, h3, h4, (eval_reads_in_refs y c inst d).1 m h5⟩
  · intro x hx
    obtain ⟨f, k, c, inst, d, h1, h2, h3, h4, h5⟩ :=
      key (fun t => t.OccursI x) hx (fun c h => by cases h)
    exact ⟨f, k, c, inst, d, h1, h2, h3, h4, (eval_reads_in_refs y c inst d).2 x h5⟩

end Dsl
end HabuVerif

#print axioms HabuVerif.Dsl.eval_reads_in_refs
#print axioms HabuVerif.Dsl.cat_reads_in_refs
