import HabuVerif.Proofs.DslRefs
import HabuVerif.Proofs.C08ChecksLemmas
/-!
# Frame (non-interference) theorem for one line evaluation

`line_frame`: the outcome of evaluating the regenerated program of a line depends ONLY on the stored
values and input answers whose names are described by the line's syntactic read sets (`refsV` /
`refsI`, computed from the program text alone): two pairs of stores that agree on all those names give
the same outcome — value, blank, not-implemented, error or "missing" — for the same set of loaded forms.

`cat_frame` is the same for whatever name the solver attempts.  It combines `run_agrees` (an outcome
depends only on the names the run READS) with `eval_reads_in_refs` (every read node of the strategy
tree is described by the read sets).

Used by C05 (a line outcome is a function of the names it can read: nothing else in the stores, and no
ambient state, can influence it) and by C16 (one-step independence: a line none of whose read patterns
names a withholding box does not change when only withholding boxes change).
-/
set_option autoImplicit false

namespace HabuVerif
open HabuVerif.Dsl

/-- a name the run reads is a `readV` node of the tree -/
theorem readsOf_occursV {N I F V : Type} (t : Tree N I F V) (vs : N → Option V) (is : I → InpRes V)
    (fs : F → Bool) : ∀ n ∈ (C08.readsOf vs is fs t).1, t.OccursV n := by
  induction t with
  | ret v => intro n h; simp [C08.readsOf] at h
  | notImpl => intro n h; simp [C08.readsOf] at h
  | err c => intro n h; simp [C08.readsOf] at h
  | readV m k ih =>
    intro n h
    simp only [C08.readsOf] at h
    cases hv : vs m with
    | none =>
      simp only [hv, List.mem_singleton] at h
      subst h; exact .here
    | some v =>
      simp only [hv, List.mem_cons] at h
      cases h with
      | inl h => subst h; exact .here
      | inr h => exact .inReadV (ih v n h)
  | readI x k ih =>
    intro n h
    simp only [C08.readsOf] at h
    cases hx : is x with
    | ok v => simp only [hx] at h; exact .inReadI (ih v n h)
    | noSpec => simp [hx] at h
    | missing => simp [hx] at h
    | invalid => simp [hx] at h
  | needForm f k ih =>
    intro n h
    simp only [C08.readsOf] at h
    cases hf : fs f with
    | false => simp [hf] at h
    | true => simp only [hf, if_true] at h; exact .inNeedForm (ih n h)

/-- an input the run reads is a `readI` node of the tree -/
theorem readsOf_occursI {N I F V : Type} (t : Tree N I F V) (vs : N → Option V) (is : I → InpRes V)
    (fs : F → Bool) : ∀ x ∈ (C08.readsOf vs is fs t).2, t.OccursI x := by
  induction t with
  | ret v => intro n h; simp [C08.readsOf] at h
  | notImpl => intro n h; simp [C08.readsOf] at h
  | err c => intro n h; simp [C08.readsOf] at h
  | readV m k ih =>
    intro y h
    simp only [C08.readsOf] at h
    cases hv : vs m with
    | none => simp [hv] at h
    | some v => simp only [hv] at h; exact .inReadV (ih v y h)
  | readI x k ih =>
    intro y h
    simp only [C08.readsOf] at h
    cases hx : is x with
    | ok v =>
      simp only [hx, List.mem_cons] at h
      cases h with
      | inl h => subst h; exact .here
      | inr h => exact .inReadI (ih v y h)
    | noSpec => simp only [hx, List.mem_singleton] at h; subst h; exact .here
    | missing => simp only [hx, List.mem_singleton] at h; subst h; exact .here
    | invalid => simp only [hx, List.mem_singleton] at h; subst h; exact .here
  | needForm f k ih =>
    intro y h
    simp only [C08.readsOf] at h
    cases hf : fs f with
    | false => simp [hf] at h
    | true => simp only [hf, if_true] at h; exact .inNeedForm (ih y h)

/-- **Frame theorem for a line.**  Two pairs of stores that agree on every name described by the
syntactic read sets of line `d` give the same outcome of its regenerated program. -/
theorem line_frame (y : YearDecl) (c : ClassDecl) (inst : Option String) (d : LineDecl)
    (vs vs' : String → Option Val) (is is' : String → InpRes Val) (fs : String → Bool)
    (hv : ∀ n, (∃ p ∈ refsV d, KeyPat.Names c.name inst p n) → vs n = vs' n)
    (hi : ∀ x, (∃ p ∈ refsI d, KeyPat.Names c.name inst p x) → is x = is' x) :
    run vs is fs (evalLine y c inst d) = run vs' is' fs (evalLine y c inst d) := by
  have hr := eval_reads_in_refs y c inst d
  exact C08.run_agrees _ vs vs' is is' fs
    (fun n hn => hv n (hr.1 n (readsOf_occursV _ vs is fs n hn)))
    (fun x hx => hi x (hr.2 x (readsOf_occursI _ vs is fs x hx)))

/-- **Frame theorem for the catalogue**: whatever name `n` the solver attempts, its outcome is the same
in two pairs of stores that agree on every name some read pattern of the line behind `n` describes. -/
theorem cat_frame (y : YearDecl) (n : String)
    (vs vs' : String → Option Val) (is is' : String → InpRes Val) (fs : String → Bool)
    (hv : ∀ m, (∃ f k c inst d, splitName n = some (f, k) ∧ y.resolveForm f = some (c, inst) ∧ d ∈ c.lines ∧
        d.name = k ∧ ∃ p ∈ refsV d, KeyPat.Names c.name inst p m) → vs m = vs' m)
    (hi : ∀ x, (∃ f k c inst d, splitName n = some (f, k) ∧ y.resolveForm f = some (c, inst) ∧ d ∈ c.lines ∧
        d.name = k ∧ ∃ p ∈ refsI d, KeyPat.Names c.name inst p x) → is x = is' x) :
    run vs is fs ((mkCat y).sem n) = run vs' is' fs ((mkCat y).sem n) := by
  have hr := cat_reads_in_refs y n
  exact C08.run_agrees _ vs vs' is is' fs
    (fun m hm => hv m (hr.1 m (readsOf_occursV _ vs is fs m hm)))
    (fun x hx => hi x (hr.2 x (readsOf_occursI _ vs is fs x hx)))

/-- a store that differs from `vs` only at names NO read pattern of the line describes cannot change
the line: the form used by C16 (the changed names are withholding boxes) -/
theorem line_unchanged_by_unread (y : YearDecl) (c : ClassDecl) (inst : Option String) (d : LineDecl)
    (vs vs' : String → Option Val) (is : String → InpRes Val) (fs : String → Bool) (D : String → Prop)
    (hD : ∀ n, D n → ¬ ∃ p ∈ refsV d, KeyPat.Names c.name inst p n)
    (hsame : ∀ n, ¬ D n → vs n = vs' n) :
    run vs is fs (evalLine y c inst d) = run vs' is fs (evalLine y c inst d) := by
  refine line_frame y c inst d vs vs' is is fs (fun n hn => ?_) (fun _ _ => rfl)
  by_cases h : D n
  · exact absurd hn (hD n h)
  · exact hsame n h

end HabuVerif

#print axioms HabuVerif.line_frame
#print axioms HabuVerif.cat_frame
#print axioms HabuVerif.line_unchanged_by_unread
