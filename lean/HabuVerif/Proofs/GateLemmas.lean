import HabuVerif.Spec.Gates
import HabuVerif.Props.C01
import HabuVerif.Proofs.DslCatWF
/-!
# C09 — soundness of the gate analysis (`Spec/Gates.lean`) and what it means for `solve`

1. `Prog.exec`: the value a line program yields against given stores (if it returns at all), together with the
   fact "the gate input was read on the way".  `run … (evalLine …) = .val x` implies `exec = some _`.
2. `Sim`: every concrete result is covered by some abstract outcome (with a flag that is at least as large);
   compositional lemmas (`Sim.bind`, …).
3. `absExpr_sound` … `absBlock_sound`: the abstract interpreter covers the evaluator, by mutual induction on the syntax.
4. `cannotReturn_sound`, `noReturnAfterRead_sound`, `checkLine_sound`: the statements about `run`.
5. `gate_blocks_line`, `gate_blocks_form`, `gate_read_blocks`: corollaries for `HabuVerif.solve` through
   `C01.solved_sound`.
-/
set_option autoImplicit false
set_option linter.unusedVariables false
set_option linter.unusedSectionVars false

namespace HabuVerif.Gates
open HabuVerif HabuVerif.Dsl

/-! ## 1. What a program yields -/

structure Stores where
  vs : String → Option Val
  is : String → InpRes Val
  fs : String → Bool

/-- the result of running `p` against the stores when it is a returned value, and whether input `g` was read -/
def exec {α : Type} (σ : Stores) (g : String) : Prog α → Option (α × Bool)
  | .pure a => some (a, false)
  | .notImpl => none
  | .err _ => none
  | .readV n k =>
    match σ.vs n with
    | some v => exec σ g (k v)
    | none => none
  | .readI x k =>
    match σ.is x with
    | .ok v => (exec σ g (k v)).map fun r => (r.1, (x == g) || r.2)
    | _ => none
  | .needForm f k => if σ.fs f then exec σ g k else none

variable {σ : Stores} {g : String}

theorem exec_bind {α β : Type} (p : Prog α) (f : α → Prog β) :
    exec σ g (p.bind f) =
      (exec σ g p).bind fun r => (exec σ g (f r.1)).map fun q => (q.1, r.2 || q.2) := by
  induction p with
  | pure a =>
    simp only [Prog.bind, exec, Option.bind_some, Bool.false_or]
    cases exec σ g (f a) <;> simp
  | notImpl => simp [Prog.bind, exec]
  | err e => simp [Prog.bind, exec]
  | readV n k ih =>
    simp only [Prog.bind, exec]
    cases σ.vs n with
    | none => simp
    | some v => simpa using ih v
  | readI x k ih =>
    simp only [Prog.bind, exec]
    cases σ.is x with
    | ok v =>
      simp only [ih v]
      cases exec σ g (k v) with
      | none => simp
      | some r =>
        simp only [Option.bind_some, Option.map_some]
        cases exec σ g (f r.1) with
        | none => simp
        | some q => simp [Bool.or_assoc]
    | noSpec => simp
    | missing => simp
    | invalid => simp
  | needForm fm k ih =>
    simp only [Prog.bind, exec]
    split
    · exact ih
    · simp

theorem exec_bind_some {α β : Type} {p : Prog α} {f : α → Prog β} {b : β} {fl : Bool}
    (h : exec σ g (p.bind f) = some (b, fl)) :
    ∃ a f1 f2, exec σ g p = some (a, f1) ∧ exec σ g (f a) = some (b, f2) ∧ fl = (f1 || f2) := by
  rw [exec_bind] at h
  cases hp : exec σ g p with
  | none => simp [hp] at h
  | some r =>
    simp only [hp, Option.bind_some] at h
    cases hq : exec σ g (f r.1) with
    | none => simp [hq] at h
    | some q =>
      simp only [hq, Option.map_some, Option.some.injEq, Prod.mk.injEq] at h
      exact ⟨r.1, r.2, q.2, rfl, by rw [hq, ← h.1], h.2.symm⟩

theorem exec_lift {α : Type} {r : R α} {a : α} {fl : Bool} (h : exec σ g (Prog.lift r) = some (a, fl)) :
    r = .ok a ∧ fl = false := by
  cases r with
  | error e => simp [Prog.lift, exec] at h
  | ok x =>
    simp only [Prog.lift, exec, Option.some.injEq, Prod.mk.injEq] at h
    exact ⟨by rw [h.1], h.2.symm⟩

/-- does the run of the tree against the stores pass through a read of input `g`? -/
def readsOn {N I F V : Type} [DecidableEq I] (vs : N → Option V) (is : I → InpRes V) (fs : F → Bool) (g : I) :
    Tree N I F V → Bool
  | .ret _ => false
  | .notImpl => false
  | .err _ => false
  | .readV n k =>
    match vs n with
    | some v => readsOn vs is fs g (k v)
    | none => false
  | .readI x k =>
    decide (x = g) ||
      match is x with
      | .ok v => readsOn vs is fs g (k v)
      | _ => false
  | .needForm f k => if fs f then readsOn vs is fs g k else false

/-- a returned value of the tree is a result of the program, with the same reads -/
theorem run_toTree_val {p : Prog Val} {w : Val → Sum Val Nat} {x : Val}
    (h : run σ.vs σ.is σ.fs (p.toTree.mapOut w) = .val x) :
    ∃ a, exec σ g p = some (a, readsOn σ.vs σ.is σ.fs g (p.toTree.mapOut w)) := by
  induction p with
  | pure a =>
    refine ⟨a, ?_⟩
    simp only [Prog.toTree, Tree.mapOut] at h ⊢
    cases hw : w a <;> simp [exec, readsOn]
  | notImpl => simp [Prog.toTree, Tree.mapOut, run] at h
  | err e => simp [Prog.toTree, Tree.mapOut, run] at h
  | readV n k ih =>
    simp only [Prog.toTree, Tree.mapOut, run, exec, readsOn] at h ⊢
    cases hv : σ.vs n with
    | none => simp [hv] at h
    | some v =>
      simp only [hv] at h ⊢
      exact ih v h
  | readI y k ih =>
    simp only [Prog.toTree, Tree.mapOut, run, exec, readsOn] at h ⊢
    cases hv : σ.is y with
    | ok v =>
      simp only [hv] at h ⊢
      obtain ⟨a, ha⟩ := ih v h
      refine ⟨a, ?_⟩
      rw [ha]
      have hb : (y == g) = decide (y = g) := by
        by_cases hyg : y = g <;> simp [hyg]
      simp [hb]
    | noSpec => simp [hv] at h
    | missing => simp [hv] at h
    | invalid => simp [hv] at h
  | needForm f k ih =>
    simp only [Prog.toTree, Tree.mapOut, run, exec, readsOn] at h ⊢
    split at h
    · rename_i hf
      simp only [hf, if_true]
      exact ih h
    · simp at h

/-! ## 2. Simulation -/

/-- every result of `p` is covered by an outcome of `m` (related by `R`, flag at least as large) -/
def Sim {α β : Type} (σ : Stores) (g : String) (R : α → β → Prop) (p : Prog α) (m : A β) : Prop :=
  ∀ a fl, exec σ g p = some (a, fl) → ∃ o, o ∈ m ∧ R a o.1 ∧ (fl = true → o.2 = true)

namespace Sim
variable {α β γ δ : Type} {R : α → β → Prop} {R' : γ → δ → Prop}

theorem pure {a : α} {x : β} (h : R a x) : Sim σ g R (Prog.pure a) (A.pure x) := by
  intro a' fl he
  simp only [exec, Option.some.injEq, Prod.mk.injEq] at he
  exact ⟨(x, false), by simp [A.pure], by rw [← he.1]; exact h, by rw [← he.2]; simp⟩

theorem notImpl {m : A β} : Sim σ g R (Prog.notImpl : Prog α) m := by
  intro a fl he; simp [exec] at he

theorem err {e : Dsl.PyErr} {m : A β} : Sim σ g R (Prog.err e : Prog α) m := by
  intro a fl he; simp [exec] at he

theorem bind {p : Prog α} {m : A β} {f : α → Prog γ} {h : β → A δ}
    (hp : Sim σ g R p m) (hf : ∀ a x, R a x → Sim σ g R' (f a) (h x)) :
    Sim σ g R' (p.bind f) (m.bind h) := by
  intro c fl he
  obtain ⟨a, f1, f2, h1, h2, hfl⟩ := exec_bind_some he
  obtain ⟨o, hom, hR, hfo⟩ := hp a f1 h1
  obtain ⟨q, hqm, hR', hfq⟩ := hf a o.1 hR c f2 h2
  refine ⟨(q.1, o.2 || q.2), ?_, hR', ?_⟩
  · simp only [A.bind, List.mem_flatMap, List.mem_map]
    exact ⟨o, hom, q, hqm, rfl⟩
  · intro ht
    rw [hfl] at ht
    simp only [Bool.or_eq_true] at ht ⊢
    rcases ht with h | h
    · exact Or.inl (hfo h)
    · exact Or.inr (hfq h)

/-- a pure Python operation: an exception stops, a result is covered by whatever covers everything -/
theorem lift_bind {r : Except Dsl.PyErr α} {f : α → Prog γ} {m : A δ}
    (hf : ∀ a, r = .ok a → Sim σ g R' (f a) m) : Sim σ g R' ((Prog.lift r).bind f) m := by
  cases r with
  | error e => intro c fl he; simp [Prog.lift, Prog.bind, exec] at he
  | ok a => simpa [Prog.lift, Prog.bind] using hf a rfl

theorem mono {p : Prog α} {m m' : A β} (hp : Sim σ g R p m) (hsub : ∀ o, o ∈ m → o ∈ m') :
    Sim σ g R p m' := by
  intro a fl he
  obtain ⟨o, hom, h⟩ := hp a fl he
  exact ⟨o, hsub o hom, h⟩

theorem left {p : Prog α} {m m' : A β} (hp : Sim σ g R p m) : Sim σ g R p (m ++ m') :=
  hp.mono fun o ho => List.mem_append_left _ ho

theorem right {p : Prog α} {m m' : A β} (hp : Sim σ g R p m') : Sim σ g R p (m ++ m') :=
  hp.mono fun o ho => List.mem_append_right _ ho

theorem weaken {R2 : α → β → Prop} {p : Prog α} {m : A β} (hp : Sim σ g R p m)
    (h : ∀ a x, R a x → R2 a x) : Sim σ g R2 p m := by
  intro a fl he
  obtain ⟨o, hom, hR, hf⟩ := hp a fl he
  exact ⟨o, hom, h _ _ hR, hf⟩

/-- only the flag: if the concrete run read the gate, some outcome is flagged -/
theorem flagged {p : Prog α} {m : A β} (hp : Sim σ g R p m) {a : α}
    (he : exec σ g p = some (a, true)) : m.flagged = true := by
  obtain ⟨o, hom, _, hf⟩ := hp a true he
  simp only [A.flagged, List.any_eq_true]
  exact ⟨o, hom, hf rfl⟩

/-- a single outcome that covers everything, flagged when anything may be flagged -/
theorem top {p : Prog α} {x : β} {b : Bool} (hR : ∀ a, R a x)
    (hb : ∀ a, exec σ g p = some (a, true) → b = true) : Sim σ g R p [(x, b)] := by
  intro a fl he
  refine ⟨(x, b), by simp, hR a, ?_⟩
  intro hfl
  subst hfl
  exact hb a he

end Sim

/-! ## 3. The abstract interpreter covers the evaluator -/

section Sound
variable (G : GCtx)

/-- concrete value `w` is described by abstract value `a` -/
def Approx (w : Val) : AVal → Prop
  | .known v => w = v
  | .gate => G.spec.sat w = true
  | .unkT b => w.truthy = b
  | .unk => True

def EnvApprox (env : Env) (aenv : AEnv) : Prop :=
  ∀ x a v, aenv.lookup x = some a → env.lookup x = some v → Approx G v a

def FlowApprox : Flow → AFlow → Prop
  | .next e, .next ae => EnvApprox G e ae
  | .cont e, .cont ae => EnvApprox G e ae
  | .brk e, .brk ae => EnvApprox G e ae
  | .ret v, .ret a => Approx G v a
  | _, _ => False

def Any {α β : Type} : α → β → Prop := fun _ _ => True

theorem envApprox_nil (env : Env) : EnvApprox G env [] := by
  intro x a v h; simp at h

theorem spec_truth_sound {v : Val} {b : Bool} (hs : G.spec.sat v = true) (ht : G.spec.truth = some b) :
    v.truthy = b := by
  cases hspec : G.spec with
  | isBool b' =>
    rw [hspec] at hs ht
    cases v <;> simp_all [GateSpec.sat, GateSpec.truth, Val.truthy]
  | truthy =>
    rw [hspec] at hs ht
    simp_all [GateSpec.sat, GateSpec.truth]
  | intGt k =>
    rw [hspec] at hs ht
    cases v <;> simp_all [GateSpec.sat, GateSpec.truth, Val.truthy]
    omega

theorem truth_sound {v : Val} {a : AVal} {b : Bool} (h : Approx G v a) (ht : a.truth G = some b) :
    v.truthy = b := by
  cases a with
  | known w => simp only [Approx] at h; simp only [AVal.truth, Option.some.injEq] at ht; rw [h, ht]
  | gate => exact spec_truth_sound G h ht
  | unkT c => simp only [Approx] at h; simp only [AVal.truth, Option.some.injEq] at ht; rw [h, ht]
  | unk => simp [AVal.truth] at ht

theorem branch_sound {α β : Type} {Rel : α → β → Prop} {x : Val} {a : AVal} {P Q : Prog α} {thn els : A β}
    (hx : Approx G x a) (hP : x.truthy = true → Sim σ g Rel P thn) (hQ : x.truthy = false → Sim σ g Rel Q els) :
    Sim σ g Rel (if x.truthy then P else Q) (branch G a thn els) := by
  unfold branch
  cases ht : a.truth G with
  | none =>
    cases hxt : x.truthy
    · simpa using (hQ hxt).right
    · simpa using (hP hxt).left
  | some b =>
    have := truth_sound G hx ht
    cases b
    · simpa [this] using hQ this
    · simpa [this] using hP this

/-! ### environments -/

theorem lookup_cons_if {α : Type} (y k : String) (w : α) (t : List (String × α)) :
    List.lookup y ((k, w) :: t) = if (y == k) = true then some w else List.lookup y t := by
  cases h : y == k <;> simp [List.lookup, h]

theorem lookup_map_set_ne {x y : String} {v : Val} (hne : (y == x) = false) (env : Env) :
    (env.map fun p => if p.1 == x then (x, v) else p).lookup y = env.lookup y := by
  induction env with
  | nil => rfl
  | cons p t ih =>
    obtain ⟨k, w⟩ := p
    simp only [List.map_cons]
    by_cases hk : (k == x) = true
    · have hkx : k = x := by simpa using hk
      subst hkx
      simp only [hk, if_true, lookup_cons_if, hne, Bool.false_eq_true, if_false, ih]
    · have hk' : (k == x) = false := by simpa using hk
      simp only [hk', Bool.false_eq_true, if_false, lookup_cons_if, ih]

theorem lookup_map_set_eq {x : String} {v : Val} (env : Env) (h : (env.lookup x).isSome = true) :
    (env.map fun p => if p.1 == x then (x, v) else p).lookup x = some v := by
  induction env with
  | nil => simp at h
  | cons p t ih =>
    obtain ⟨k, w⟩ := p
    simp only [List.map_cons, lookup_cons_if] at h ⊢
    by_cases hk : (k == x) = true
    · have hkx : k = x := by simpa using hk
      subst hkx
      simp
    · have hk' : (k == x) = false := by simpa using hk
      have hxk : (x == k) = false := by
        simp only [beq_eq_false_iff_ne, ne_eq] at hk' ⊢
        exact fun h => hk' h.symm
      simp only [hk', Bool.false_eq_true, if_false, hxk, lookup_cons_if] at h ⊢
      exact ih h

theorem lookup_set {env : Env} {x y : String} {v w : Val} (h : (env.set x v).lookup y = some w) :
    (y = x ∧ w = v) ∨ ((y == x) = false ∧ env.lookup y = some w) := by
  unfold Env.set at h
  by_cases hyx : y = x
  · subst hyx
    left
    refine ⟨rfl, ?_⟩
    split at h
    · rename_i hs
      rw [lookup_map_set_eq env hs] at h
      exact (Option.some.inj h).symm
    · simp only [lookup_cons_if, beq_self_eq_true, if_true] at h
      exact (Option.some.inj h).symm
  · right
    have hne : (y == x) = false := by simpa using hyx
    refine ⟨hne, ?_⟩
    split at h
    · rwa [lookup_map_set_ne hne] at h
    · simpa only [lookup_cons_if, hne, Bool.false_eq_true, if_false] using h

theorem envApprox_set {env : Env} {aenv : AEnv} {x : String} {v : Val} {a : AVal}
    (he : EnvApprox G env aenv) (hv : Approx G v a) : EnvApprox G (env.set x v) (aenv.set x a) := by
  intro y b w hb hw
  rcases lookup_set hw with ⟨hyx, hwv⟩ | ⟨hne, hl⟩
  · subst hyx; subst hwv
    simp only [AEnv.set, lookup_cons_if, beq_self_eq_true, if_true, Option.some.injEq] at hb
    rw [← hb]; exact hv
  · simp only [AEnv.set, lookup_cons_if, hne, Bool.false_eq_true, if_false] at hb
    exact he y b w hb hl

theorem approx_get {env : Env} {aenv : AEnv} {x : String} {v : Val}
    (he : EnvApprox G env aenv) (h : env.get x = .ok v) : Approx G v (aenv.get x) := by
  unfold Env.get at h
  unfold AEnv.get
  cases hl : env.lookup x with
  | none => simp [hl] at h
  | some w =>
    simp only [hl, Except.ok.injEq] at h
    subst h
    cases ha : aenv.lookup x with
    | none => trivial
    | some a => exact he x a w ha hl

theorem approx_unk (v : Val) : Approx G v .unk := trivial

/-! ### reads, comparisons -/

theorem lift_unk {α : Type} {β : Type} {Rel : α → β → Prop} {r : Except Dsl.PyErr α} {x : β} (hR : ∀ a, Rel a x) :
    Sim σ g Rel (Prog.lift r) (A.pure x) := by
  cases r with
  | error e => exact Sim.err
  | ok a => exact Sim.pure (hR a)

theorem cmp1_sound {op : CmpOp} {l r : Val} {al ar : AVal} {b : Bool} (hl : Approx G l al) (hr : Approx G r ar)
    (h : applyCmp op l r = .ok b) : Approx G (.bool b) (cmp1 G op al ar) := by
  unfold cmp1
  split
  · rename_i c
    split
    · rename_i b' hc
      simp only [Approx] at hl hr ⊢
      subst hr
      cases hspec : G.spec with
      | isBool _ => simp [hspec, GateSpec.cmpConst] at hc
      | truthy => simp [hspec, GateSpec.cmpConst] at hc
      | intGt k =>
        rw [hspec] at hc hl
        cases op <;> first | (simp [GateSpec.cmpConst] at hc; done) | skip
        cases r <;> first | (simp [GateSpec.cmpConst] at hc; done) | skip
        rename_i c
        cases l <;> first | (simp [GateSpec.sat] at hl; done) | skip
        rename_i n
        simp only [GateSpec.cmpConst] at hc
        split at hc
        · rename_i hck
          simp only [Option.some.injEq] at hc
          subst hc
          have hlt : c < n := by simp only [GateSpec.sat, decide_eq_true_eq] at hl; omega
          simp only [applyCmp, Val.ordCmp, Val.num?, Val.cmpNum] at h
          have hcmp : compare n c = .gt := by
            rw [Int.compare_eq_gt]; exact hlt
          simp only [hcmp, Val.OrdOp.holds, Except.ok.injEq] at h
          rw [← h]
          rfl
        · simp at hc
    · trivial
  · trivial

variable (hg : ∀ v, σ.is G.gate = .ok v → G.spec.sat v = true)
include hg

theorem readInput_sound {k : Val} {ak : AVal} (hk : Approx G k ak) :
    Sim σ G.gate (Approx G) ((Prog.lift (qualify G.ctx k)).bind fun n => Prog.readI n Prog.pure)
      (readInput G ak) := by
  unfold readInput
  split
  · rename_i s
    simp only [Approx] at hk
    subst hk
    cases hq : qualify G.ctx (.str s) with
    | error e => simp only [Prog.lift, Prog.bind]; exact Sim.err
    | ok n =>
      simp only [Prog.lift, Prog.bind]
      intro a fl he
      simp only [exec] at he
      cases hv : σ.is n with
      | ok v =>
        simp only [hv, Option.map_some, Bool.or_false, Option.some.injEq, Prod.mk.injEq] at he
        obtain ⟨hva, hfl⟩ := he
        subst hva
        by_cases hn : (n == G.gate) = true
        · have hng : n = G.gate := by simpa using hn
          refine ⟨(.gate, true), by simp [hn], ?_, fun _ => rfl⟩
          simp only [Approx]
          exact hg v (by rw [← hng]; exact hv)
        · have hn' : (n == G.gate) = false := by simpa using hn
          refine ⟨(.unk, false), by simp [hn', A.pure], trivial, ?_⟩
          rw [← hfl, hn']; simp
      | noSpec => simp [hv] at he
      | missing => simp [hv] at he
      | invalid => simp [hv] at he
  · intro a fl he
    exact ⟨(.unk, true), by simp, trivial, fun _ => rfl⟩

omit hg in
theorem loopOutcomes_flag {body : A AFlow} {o : AFlow × Bool} (ho : o ∈ loopOutcomes body) :
    o.2 = body.flagged := by
  unfold loopOutcomes at ho
  simp only [List.mem_cons] at ho
  rcases ho with h | h
  · rw [h]
  · split at h
    · simp only [List.mem_cons, List.not_mem_nil, or_false] at h; rw [h]
    · simp at h

omit hg in
theorem forLoop_sound {step : Env → Val → Prog Flow} {body : A AFlow}
    (hstep : ∀ env item, Sim σ G.gate (FlowApprox G) (step env item) body) :
    ∀ (items : List Val) (env : Env), Sim σ G.gate (FlowApprox G) (forLoop step env items) (loopOutcomes body) := by
  intro items
  induction items with
  | nil =>
    intro env a fl he
    simp only [forLoop, exec, Option.some.injEq, Prod.mk.injEq] at he
    refine ⟨(.next [], body.flagged), by simp [loopOutcomes], ?_, ?_⟩
    · rw [← he.1]; exact envApprox_nil G env
    · rw [← he.2]; simp
  | cons x xs ih =>
    intro env res fl he
    simp only [forLoop] at he
    obtain ⟨r, f1, f2, h1, h2, hfl⟩ := exec_bind_some he
    obtain ⟨o, hom, hR, hfo⟩ := hstep env x r f1 h1
    have hflag1 : f1 = true → body.flagged = true := by
      intro h
      simp only [A.flagged, List.any_eq_true]
      exact ⟨o, hom, hfo h⟩
    have hrec : ∀ env', exec σ G.gate (forLoop step env' xs) = some (res, f2) →
        ∃ o, o ∈ loopOutcomes body ∧ FlowApprox G res o.1 ∧ (fl = true → o.2 = true) := by
      intro env' h2'
      obtain ⟨o', hom', hR', hfo'⟩ := ih env' res f2 h2'
      refine ⟨o', hom', hR', ?_⟩
      intro hflt
      rw [hfl] at hflt
      simp only [Bool.or_eq_true] at hflt
      rcases hflt with h | h
      · rw [loopOutcomes_flag hom']; exact hflag1 h
      · exact hfo' h
    cases r with
    | next env' => exact hrec env' h2
    | cont env' => exact hrec env' h2
    | brk env' =>
      simp only [exec, Option.some.injEq, Prod.mk.injEq] at h2
      refine ⟨(.next [], body.flagged), by simp [loopOutcomes], ?_, ?_⟩
      · rw [← h2.1]; exact envApprox_nil G env'
      · intro hflt
        rw [hfl, ← h2.2] at hflt
        simp only [Bool.or_false] at hflt
        exact hflag1 hflt
    | ret v =>
      simp only [exec, Option.some.injEq, Prod.mk.injEq] at h2
      have hret : body.any (fun o => o.1.isRet) = true := by
        simp only [List.any_eq_true]
        refine ⟨o, hom, ?_⟩
        cases ho1 : o.1 <;> first | rfl | (rw [ho1] at hR; simp [FlowApprox] at hR)
      refine ⟨(.ret .unk, body.flagged), by simp [loopOutcomes, hret], ?_, ?_⟩
      · rw [← h2.1]; trivial
      · intro hflt
        rw [hfl, ← h2.2] at hflt
        simp only [Bool.or_false] at hflt
        exact hflag1 hflt

omit hg in
theorem collectM_flag {step : Val → Prog (Option Val)} {bf : Bool}
    (hstep : ∀ item r, exec σ g (step item) = some (r, true) → bf = true) :
    ∀ (items : List Val) (vs : List Val), exec σ g (collectM step items) = some (vs, true) → bf = true := by
  intro items
  induction items with
  | nil => intro vs he; simp [collectM, exec] at he
  | cons x xs ih =>
    intro vs he
    simp only [collectM] at he
    obtain ⟨r, f1, f2, h1, h2, hfl⟩ := exec_bind_some he
    obtain ⟨rest, f3, f4, h3, h4, hfl2⟩ := exec_bind_some h2
    simp only [exec, Option.some.injEq, Prod.mk.injEq] at h4
    cases f1 with
    | true => exact hstep x r h1
    | false =>
      cases f3 with
      | true => exact ih rest h3
      | false =>
        rw [hfl2, ← h4.2] at hfl
        simp at hfl

omit hg in
theorem sumGenM_flag {step : Val → Prog (Option Val)} {bf : Bool}
    (hstep : ∀ item r, exec σ g (step item) = some (r, true) → bf = true) :
    ∀ (items : List Val) (st : Val.SumSt) (v : Val),
      exec σ g (sumGenM step st items) = some (v, true) → bf = true := by
  intro items
  induction items with
  | nil => intro st v he; simp [sumGenM, exec] at he
  | cons x xs ih =>
    intro st v he
    simp only [sumGenM] at he
    obtain ⟨r, f1, f2, h1, h2, hfl⟩ := exec_bind_some he
    cases f1 with
    | true => exact hstep x r h1
    | false =>
      simp only [Bool.false_or] at hfl
      subst hfl
      cases r with
      | none => exact ih st v h2
      | some w =>
        simp only at h2
        cases hs : Val.sumStep st w with
        | ok st' => rw [hs] at h2; exact ih st' v h2
        | error e => rw [hs] at h2; simp [exec] at h2

omit hg in
theorem readV_unk (n : String) : Sim σ G.gate (Approx G) (Prog.readV n Prog.pure) (A.pure .unk) := by
  intro a fl he
  simp only [exec] at he
  cases hv : σ.vs n with
  | none => simp [hv] at he
  | some v =>
    simp only [hv, Option.some.injEq, Prod.mk.injEq] at he
    exact ⟨(.unk, false), by simp [A.pure], trivial, by rw [← he.2]; simp⟩

omit hg in
theorem Sim.needForm {α β : Type} {Rel : α → β → Prop} {f : String} {p : Prog α} {m : A β}
    (hp : Sim σ g Rel p m) : Sim σ g Rel (Prog.needForm f p) m := by
  intro a fl he
  simp only [exec] at he
  split at he
  · exact hp a fl he
  · simp at he

omit hg in
theorem Sim.map_any {α γ β : Type} {p : Prog α} {m : A β} {f : α → γ} (hp : Sim σ g Any p m) :
    Sim σ g Any (p.bind fun a => Prog.pure (f a)) m := by
  intro c fl he
  obtain ⟨a, f1, f2, h1, h2, hfl⟩ := exec_bind_some he
  simp only [exec, Option.some.injEq, Prod.mk.injEq] at h2
  obtain ⟨o, hom, _, hfo⟩ := hp a f1 h1
  refine ⟨o, hom, trivial, ?_⟩
  intro h
  rw [hfl, ← h2.2] at h
  simp only [Bool.or_false] at h
  exact hfo h

omit hg in
theorem Sim.bind_err {α γ β : Type} {Rel : γ → β → Prop} {p : Prog α} {e : Dsl.PyErr} {m : A β} :
    Sim σ g Rel (p.bind fun _ => (Prog.err e : Prog γ)) m := by
  intro c fl he
  obtain ⟨a, f1, f2, h1, h2, hfl⟩ := exec_bind_some he
  simp [exec] at h2

omit hg in
theorem resultOf_sound {r : Flow} {ar : AFlow} (h : FlowApprox G r ar) :
    Sim σ G.gate (Approx G) (Flow.result r) (resultOf ar) := by
  cases r <;> cases ar <;> simp only [FlowApprox] at h <;> simp only [Flow.result, resultOf]
  · exact Sim.pure rfl
  · exact Sim.err
  · exact Sim.err
  · exact Sim.pure h

omit hg in
theorem envApprox_defaults (dfl : List (String × Val)) :
    EnvApprox G dfl (dfl.map fun p => (p.1, AVal.known p.2)) := by
  intro x a v ha hv
  induction dfl with
  | nil => simp at hv
  | cons p t ih =>
    obtain ⟨k, w⟩ := p
    simp only [List.map_cons, lookup_cons_if] at ha hv
    by_cases hk : (x == k) = true
    · simp only [hk, if_true, Option.some.injEq] at ha hv
      rw [← ha, ← hv]; rfl
    · have hk' : (x == k) = false := by simpa using hk
      simp only [hk', Bool.false_eq_true, if_false] at ha hv
      exact ih ha hv

mutual
  theorem absExpr_sound : ∀ (e : Expr) (env : Env) (aenv : AEnv), EnvApprox G env aenv →
      Sim σ G.gate (Approx G) (evalExpr G.ctx env e) (absExpr G aenv e)
    | .const v, env, aenv, he => by
      simp only [evalExpr, absExpr]; exact Sim.pure rfl
    | .var x, env, aenv, he => by
      simp only [evalExpr, absExpr]
      cases h : env.get x with
      | error e => simp only [Prog.lift]; exact Sim.err
      | ok v => simp only [Prog.lift]; exact Sim.pure (approx_get G he h)
    | .readI e, env, aenv, he => by
      simp only [evalExpr, absExpr]
      exact (absExpr_sound e env aenv he).bind fun k ak hk => readInput_sound G hg hk
    | .readV e, env, aenv, he => by
      simp only [evalExpr, absExpr]
      exact (absExpr_sound e env aenv he).bind fun k ak hk => Sim.lift_bind fun n _ => readV_unk G n
    | .fstr parts, env, aenv, he => by
      simp only [evalExpr, absExpr]
      exact (absArgs_sound parts env aenv he).bind fun vs _ _ =>
        Sim.lift_bind fun ss _ => Sim.pure trivial
    | .bin op a b, env, aenv, he => by
      simp only [evalExpr, absExpr]
      exact (absExpr_sound a env aenv he).bind fun x _ _ =>
        (absExpr_sound b env aenv he).bind fun y _ _ => lift_unk fun _ => trivial
    | .neg a, env, aenv, he => by
      simp only [evalExpr, absExpr]
      exact (absExpr_sound a env aenv he).bind fun x _ _ => lift_unk fun _ => trivial
    | .pos a, env, aenv, he => by
      simp only [evalExpr, absExpr]
      exact (absExpr_sound a env aenv he).bind fun x _ _ => lift_unk fun _ => trivial
    | .not a, env, aenv, he => by
      simp only [evalExpr, absExpr]
      refine (absExpr_sound a env aenv he).bind fun x ax hx => Sim.pure ?_
      cases ht : ax.truth G with
      | none => trivial
      | some b => simp only [Approx]; rw [truth_sound G hx ht]
    | .and a b, env, aenv, he => by
      simp only [evalExpr, absExpr]
      refine (absExpr_sound a env aenv he).bind fun x ax hx => ?_
      cases ht : ax.truth G with
      | none =>
        cases hxt : x.truthy with
        | true => simpa using (absExpr_sound b env aenv he).right
        | false =>
          have : Approx G x (.unkT false) := hxt
          simpa using (Sim.pure this).left
      | some c =>
        have hxt := truth_sound G hx ht
        cases c with
        | true => simpa [hxt] using absExpr_sound b env aenv he
        | false => simpa [hxt] using Sim.pure hx
    | .or a b, env, aenv, he => by
      simp only [evalExpr, absExpr]
      refine (absExpr_sound a env aenv he).bind fun x ax hx => ?_
      cases ht : ax.truth G with
      | none =>
        cases hxt : x.truthy with
        | false => simpa using (absExpr_sound b env aenv he).right
        | true =>
          have : Approx G x (.unkT true) := hxt
          simpa using (Sim.pure this).left
      | some c =>
        have hxt := truth_sound G hx ht
        cases c with
        | false => simpa [hxt] using absExpr_sound b env aenv he
        | true => simpa [hxt] using Sim.pure hx
    | .cmp first ops rest, env, aenv, he => by
      simp only [evalExpr, absExpr]
      exact (absExpr_sound first env aenv he).bind fun x ax hx => absCmp_sound ops rest env aenv he x ax hx
    | .ite c a b, env, aenv, he => by
      simp only [evalExpr, absExpr]
      exact (absExpr_sound c env aenv he).bind fun x ax hx =>
        branch_sound G hx (fun _ => absExpr_sound a env aenv he) (fun _ => absExpr_sound b env aenv he)
    | .call f args, env, aenv, he => by
      simp only [evalExpr, absExpr]
      exact (absArgs_sound args env aenv he).bind fun vs _ _ => lift_unk fun _ => trivial
    | .method m obj args, env, aenv, he => by
      simp only [evalExpr, absExpr]
      refine (absExpr_sound obj env aenv he).bind fun o _ _ => ?_
      cases o <;> first
        | exact Sim.err
        | exact (absArgs_sound args env aenv he).bind fun vs _ _ => lift_unk fun _ => trivial
    | .attr obj name, env, aenv, he => by
      simp only [evalExpr, absExpr]
      refine (absExpr_sound obj env aenv he).bind fun o _ _ => ?_
      cases o <;> try exact Sim.err
      simp only
      split
      · split
        · exact Sim.pure trivial
        · exact Sim.err
      · exact Sim.err
    | .attrFail obj, env, aenv, he => by
      simp only [evalExpr, absExpr]
      exact (absExpr_sound obj env aenv he).bind fun _ _ _ => Sim.err
    | .raise e, env, aenv, he => by
      simp only [evalExpr, absExpr]; exact Sim.err
    | .threshold name hasKey key, env, aenv, he => by
      simp only [evalExpr, absExpr]
      refine (absExpr_sound name env aenv he).bind fun n _ _ => ?_
      cases hasKey with
      | true =>
        simp only [if_true]
        exact (absExpr_sound key env aenv he).bind fun k _ _ => lift_unk fun _ => trivial
      | false =>
        simp only [Bool.false_eq_true, if_false]
        exact lift_unk fun _ => trivial
    | .thresholdOf form name hasKey key, env, aenv, he => by
      simp only [evalExpr, absExpr]
      refine (absExpr_sound form env aenv he).bind fun f _ _ => ?_
      cases f <;> try exact Sim.err
      simp only
      refine Sim.needForm ?_
      split
      · exact Sim.err
      · refine (absExpr_sound name env aenv he).bind fun n _ _ => ?_
        cases hasKey with
        | true =>
          simp only [if_true]
          exact (absExpr_sound key env aenv he).bind fun k _ _ => lift_unk fun _ => trivial
        | false =>
          simp only [Bool.false_eq_true, if_false]
          exact lift_unk fun _ => trivial
    | .loadedForm form, env, aenv, he => by
      simp only [evalExpr, absExpr]
      refine (absExpr_sound form env aenv he).bind fun f _ _ => ?_
      cases f <;> try exact Sim.err
      exact Sim.needForm (Sim.pure rfl)
    | .instance, env, aenv, he => by
      simp only [evalExpr, absExpr]; exact Sim.pure trivial
    | .notImpl args, env, aenv, he => by
      simp only [evalExpr, absExpr]
      exact (absArgs_sound args env aenv he).bind fun _ _ _ => Sim.notImpl
    | .tuple xs, env, aenv, he => by
      simp only [evalExpr, absExpr]
      exact (absArgs_sound xs env aenv he).bind fun _ _ _ => Sim.pure trivial
    | .list xs, env, aenv, he => by
      simp only [evalExpr, absExpr]
      exact (absArgs_sound xs env aenv he).bind fun _ _ _ => Sim.pure trivial
    | .dict ks vs, env, aenv, he => by
      simp only [evalExpr, absExpr]
      exact (absArgs_sound vs env aenv he).bind fun _ _ _ => Sim.pure trivial
    | .index e idx, env, aenv, he => by
      simp only [evalExpr, absExpr]
      exact (absExpr_sound e env aenv he).bind fun _ _ _ =>
        (absExpr_sound idx env aenv he).bind fun _ _ _ => lift_unk fun _ => trivial
    | .slice e lo hi, env, aenv, he => by
      simp only [evalExpr, absExpr]
      exact (absExpr_sound e env aenv he).bind fun _ _ _ =>
        (absExpr_sound lo env aenv he).bind fun _ _ _ =>
          (absExpr_sound hi env aenv he).bind fun _ _ _ => lift_unk fun _ => trivial
    | .listComp elt xs iter conds, env, aenv, he => by
      simp only [evalExpr, absExpr]
      refine (absExpr_sound iter env aenv he).bind fun itv _ _ => Sim.lift_bind fun items _ => ?_
      refine Sim.top (fun _ => trivial) ?_
      intro a hea
      obtain ⟨vs, f1, f2, h1, h2, hfl⟩ := exec_bind_some hea
      simp only [exec, Option.some.injEq, Prod.mk.injEq] at h2
      have hf1 : f1 = true := by rw [← h2.2] at hfl; simpa using hfl.symm
      subst hf1
      refine collectM_flag (fun item r hr => ?_) items vs h1
      obtain ⟨env', g1, g2, k1, k2, hk⟩ := exec_bind_some hr
      obtain ⟨_, hg1⟩ := exec_lift k1
      subst hg1
      obtain ⟨ok, g3, g4, k3, k4, hk'⟩ := exec_bind_some k2
      simp only [Bool.false_or] at hk
      subst hk
      simp only [Bool.or_eq_true]
      cases g3 with
      | true => exact Or.inl ((absConds_sound conds env' [] (envApprox_nil G env')).flagged k3)
      | false =>
        simp only [Bool.false_or] at hk'
        subst hk'
        right
        cases ok with
        | false => simp [exec] at k4
        | true =>
          simp only [if_true] at k4
          obtain ⟨v, g5, g6, k5, k6, hk6⟩ := exec_bind_some k4
          simp only [exec, Option.some.injEq, Prod.mk.injEq] at k6
          have hg5 : g5 = true := by rw [← k6.2] at hk6; simpa using hk6.symm
          subst hg5
          exact (absExpr_sound elt env' [] (envApprox_nil G env')).flagged k5
    | .sumGen elt xs iter conds, env, aenv, he => by
      simp only [evalExpr, absExpr]
      refine (absExpr_sound iter env aenv he).bind fun itv _ _ => Sim.lift_bind fun items _ => ?_
      refine Sim.top (fun _ => trivial) ?_
      intro a hea
      refine sumGenM_flag (fun item r hr => ?_) items _ a hea
      obtain ⟨env', g1, g2, k1, k2, hk⟩ := exec_bind_some hr
      obtain ⟨_, hg1⟩ := exec_lift k1
      subst hg1
      obtain ⟨ok, g3, g4, k3, k4, hk'⟩ := exec_bind_some k2
      simp only [Bool.false_or] at hk
      subst hk
      simp only [Bool.or_eq_true]
      cases g3 with
      | true => exact Or.inl ((absConds_sound conds env' [] (envApprox_nil G env')).flagged k3)
      | false =>
        simp only [Bool.false_or] at hk'
        subst hk'
        right
        cases ok with
        | false => simp [exec] at k4
        | true =>
          simp only [if_true] at k4
          obtain ⟨v, g5, g6, k5, k6, hk6⟩ := exec_bind_some k4
          simp only [exec, Option.some.injEq, Prod.mk.injEq] at k6
          have hg5 : g5 = true := by rw [← k6.2] at hk6; simpa using hk6.symm
          subst hg5
          exact (absExpr_sound elt env' [] (envApprox_nil G env')).flagged k5
    | .callHelper params args defaults body, env, aenv, he => by
      simp only [evalExpr, absExpr]
      refine (absArgs_sound args env aenv he).bind fun vs _ _ => ?_
      split
      · exact Sim.err
      · rename_i hlen
        refine (absBlock_sound body _ _ ?_).bind fun r ar hr => resultOf_sound G hr
        cases params with
        | nil =>
          simp only [List.zip_nil_left, List.foldl_nil, List.isEmpty_nil, if_true]
          exact envApprox_defaults G defaults
        | cons p ps =>
          simp only [List.isEmpty_cons, Bool.false_eq_true, if_false]
          exact envApprox_nil G _
    | .global name, env, aenv, he => by
      simp only [evalExpr, absExpr]
      split
      · exact Sim.pure trivial
      · exact Sim.err
    | .unsupported w, env, aenv, he => by
      simp only [evalExpr, absExpr]; exact Sim.err

  theorem absArgs_sound : ∀ (es : List Expr) (env : Env) (aenv : AEnv), EnvApprox G env aenv →
      Sim σ G.gate Any (evalArgs G.ctx env es) (absArgs G aenv es)
    | [], env, aenv, he => by
      simp only [evalArgs, absArgs]; exact Sim.pure trivial
    | e :: es, env, aenv, he => by
      simp only [evalArgs, absArgs]
      exact (absExpr_sound e env aenv he).bind fun v _ _ => Sim.map_any (absArgs_sound es env aenv he)

  theorem absCmp_sound : ∀ (ops : List CmpOp) (es : List Expr) (env : Env) (aenv : AEnv), EnvApprox G env aenv →
      ∀ (left : Val) (aleft : AVal), Approx G left aleft →
      Sim σ G.gate (Approx G) (evalCmp G.ctx env left ops es) (absCmp G aenv aleft ops es)
    | op :: ops, e :: es, env, aenv, he, left, aleft, hl => by
      simp only [evalCmp, absCmp]
      refine (absExpr_sound e env aenv he).bind fun right ar hr => Sim.lift_bind fun b hb => ?_
      cases ops with
      | nil =>
        cases b with
        | false => simpa using Sim.pure (cmp1_sound G hl hr hb)
        | true => simpa using Sim.pure (cmp1_sound G hl hr hb)
      | cons o os =>
        cases b with
        | false =>
          have : Approx G (.bool false) (.known (.bool false)) := rfl
          simpa using (Sim.pure this).left
        | true => simpa using (absCmp_sound (o :: os) es env aenv he right ar hr).right
    | [], [], env, aenv, he, left, aleft, hl => by
      simp only [evalCmp, absCmp]; exact Sim.pure rfl
    | [], _ :: _, env, aenv, he, left, aleft, hl => by
      simp only [evalCmp, absCmp]; exact Sim.err
    | _ :: _, [], env, aenv, he, left, aleft, hl => by
      simp only [evalCmp, absCmp]; exact Sim.err

  theorem absConds_sound : ∀ (cs : List Expr) (env : Env) (aenv : AEnv), EnvApprox G env aenv →
      Sim σ G.gate Any (evalConds G.ctx env cs) (absConds G aenv cs)
    | [], env, aenv, he => by
      simp only [evalConds, absConds]; exact Sim.pure trivial
    | c :: cs, env, aenv, he => by
      simp only [evalConds, absConds]
      refine (absExpr_sound c env aenv he).bind fun v av hv => ?_
      cases ht : av.truth G with
      | none =>
        cases hvt : v.truthy with
        | true => simpa using (absConds_sound cs env aenv he).right
        | false => simpa using (Sim.pure (R := Any) trivial).left
      | some b =>
        have hvt := truth_sound G hv ht
        cases b with
        | true => simpa [hvt] using absConds_sound cs env aenv he
        | false => simpa [hvt] using Sim.pure (R := Any) trivial

  theorem absStmt_sound : ∀ (s : Stmt) (env : Env) (aenv : AEnv), EnvApprox G env aenv →
      Sim σ G.gate (FlowApprox G) (execStmt G.ctx env s) (absStmt G aenv s)
    | .assign x e, env, aenv, he => by
      simp only [execStmt, absStmt]
      exact (absExpr_sound e env aenv he).bind fun v a hv => Sim.pure (envApprox_set G he hv)
    | .unpack xs e, env, aenv, he => by
      simp only [execStmt, absStmt]
      exact (absExpr_sound e env aenv he).bind fun v _ _ =>
        Sim.lift_bind fun env' _ => Sim.pure (envApprox_nil G env')
    | .aug x op e, env, aenv, he => by
      simp only [execStmt, absStmt]
      refine Sim.lift_bind fun old _ => (absExpr_sound e env aenv he).bind fun v _ _ => ?_
      split
      · exact Sim.lift_bind fun ys _ => Sim.pure (envApprox_set G he (approx_unk G _))
      · exact Sim.lift_bind fun r _ => Sim.pure (envApprox_set G he (approx_unk G _))
    | .ifS c thn els, env, aenv, he => by
      simp only [execStmt, absStmt]
      exact (absExpr_sound c env aenv he).bind fun x ax hx =>
        branch_sound G hx (fun _ => absBlock_sound thn env aenv he) (fun _ => absBlock_sound els env aenv he)
    | .forS xs iter body, env, aenv, he => by
      simp only [execStmt, absStmt]
      exact (absExpr_sound iter env aenv he).bind fun itv _ _ =>
        Sim.lift_bind fun items _ =>
          forLoop_sound G (fun env1 item => Sim.lift_bind fun env2 _ =>
            absBlock_sound body env2 [] (envApprox_nil G env2)) items env
    | .ret e, env, aenv, he => by
      simp only [execStmt, absStmt]
      exact (absExpr_sound e env aenv he).bind fun v a hv => Sim.pure hv
    | .expr e, env, aenv, he => by
      simp only [execStmt, absStmt]
      exact (absExpr_sound e env aenv he).bind fun _ _ _ => Sim.pure he
    | .append x e, env, aenv, he => by
      simp only [execStmt, absStmt]
      refine Sim.lift_bind fun old _ => ?_
      cases old <;> try exact Sim.err
      exact (absExpr_sound e env aenv he).bind fun v _ _ => Sim.pure (envApprox_set G he (approx_unk G _))
    | .assertS c msg, env, aenv, he => by
      simp only [execStmt, absStmt]
      refine (absExpr_sound c env aenv he).bind fun v av hv => ?_
      cases hvt : v.truthy with
      | false =>
        simp only [Bool.false_eq_true, if_false]
        exact Sim.bind_err
      | true =>
        simp only [if_true]
        cases ht : av.truth G with
        | none => exact Sim.pure he
        | some b =>
          have := truth_sound G hv ht
          rw [hvt] at this
          subst this
          exact Sim.pure he
    | .continueS, env, aenv, he => by
      simp only [execStmt, absStmt]; exact Sim.pure he
    | .breakS, env, aenv, he => by
      simp only [execStmt, absStmt]; exact Sim.pure he
    | .pass, env, aenv, he => by
      simp only [execStmt, absStmt]; exact Sim.pure he

  theorem absBlock_sound : ∀ (ss : List Stmt) (env : Env) (aenv : AEnv), EnvApprox G env aenv →
      Sim σ G.gate (FlowApprox G) (execBlock G.ctx env ss) (absBlock G aenv ss)
    | [], env, aenv, he => by
      simp only [execBlock, absBlock]; exact Sim.pure he
    | s :: ss, env, aenv, he => by
      simp only [execBlock, absBlock]
      refine (absStmt_sound s env aenv he).bind fun r ar hr => ?_
      cases r <;> cases ar <;> simp only [FlowApprox] at hr
      · exact absBlock_sound ss _ _ hr
      · exact Sim.pure hr
      · exact Sim.pure hr
      · exact Sim.pure hr
end

theorem absBody_sound (d : LineDecl) : Sim σ G.gate (Approx G) (evalBody G.ctx d) (absBody G d) := by
  unfold evalBody absBody
  exact (absBlock_sound G hg d.body d.defaults _ (envApprox_defaults G d.defaults)).bind
    fun r ar hr => resultOf_sound G hr

end Sound

/-! ## 4. The statements about `run` -/

/-- **Soundness of `cannotReturn`.**  If the analysis finds no returning path, then against ANY stores in which
the gate input — if it has a value at all — satisfies the spec, the line does not evaluate to a value. -/
theorem cannotReturn_sound {year : YearDecl} {c : ClassDecl} {inst : Option String} {d : LineDecl}
    {gate : String} {spec : GateSpec} (h : cannotReturn year c inst d gate spec = true)
    (vs : String → Option Val) (is : String → InpRes Val) (fs : String → Bool)
    (hg : ∀ v, is gate = .ok v → spec.sat v = true) (x : Val) :
    run vs is fs (evalLine year c inst d) ≠ .val x := by
  intro hrun
  unfold evalLine at hrun
  obtain ⟨a, ha⟩ := run_toTree_val (σ := ⟨vs, is, fs⟩) (g := gate) hrun
  have hs := absBody_sound (σ := ⟨vs, is, fs⟩) (mkG year c inst gate spec) hg d
  obtain ⟨o, hom, _, _⟩ := hs a _ ha
  unfold cannotReturn at h
  rw [List.isEmpty_iff] at h
  rw [h] at hom
  simp at hom

/-- **Soundness of `noReturnAfterRead`.**  A run of the line that returns a value has not read the gate. -/
theorem noReturnAfterRead_sound {year : YearDecl} {c : ClassDecl} {inst : Option String} {d : LineDecl}
    {gate : String} {spec : GateSpec} (h : noReturnAfterRead year c inst d gate spec = true)
    (vs : String → Option Val) (is : String → InpRes Val) (fs : String → Bool)
    (hg : ∀ v, is gate = .ok v → spec.sat v = true) (x : Val)
    (hrun : run vs is fs (evalLine year c inst d) = .val x) :
    readsOn vs is fs gate (evalLine year c inst d) = false := by
  unfold evalLine at hrun ⊢
  obtain ⟨a, ha⟩ := run_toTree_val (σ := ⟨vs, is, fs⟩) (g := gate) hrun
  have hs := absBody_sound (σ := ⟨vs, is, fs⟩) (mkG year c inst gate spec) hg d
  obtain ⟨o, hom, _, hfl⟩ := hs a _ ha
  unfold noReturnAfterRead at h
  rw [List.all_eq_true] at h
  have ho := h o hom
  cases hr : readsOn vs is fs gate
      ((evalBody { year := year, form := c.name, inst := inst, thresholds := c.thresholds } d).toTree.mapOut
        (FieldKind.wrap d.kind)) with
  | false => rfl
  | true =>
    have := hfl hr
    rw [this] at ho
    simp at ho

theorem resolveLoose_ok {y : YearDecl} {cname : String} {inst : Option String} {c : ClassDecl} {i' : Option String}
    (hok : formOk y cname inst = true) (h : resolveLoose y (formName cname inst) = some (c, i')) :
    y.resolveForm (formName cname inst) = some (c, i') := by
  unfold formOk at hok
  unfold resolveLoose at h
  unfold YearDecl.resolveForm resolveIn
  split at h
  · simp at h
  · rename_i hn
    simp only [hn, if_false]
    cases hni : nameAndInstance (formName cname inst) with
    | none => simp [hni] at h
    | some ci =>
      obtain ⟨cn, i0⟩ := ci
      simp only [hni] at h hok ⊢
      cases hl : y.formMap.lookup cn with
      | none => simp [hl] at h
      | some e =>
        obtain ⟨c0, ok⟩ := e
        simp only [hl] at h hok ⊢
        subst hok
        simpa using h

/-- what a successful `checkLine` establishes about the catalogue -/
theorem checkLine_sem {year : YearDecl} {cname : String} {inst : Option String} {lname gate : String}
    {spec : GateSpec} {mode : Mode} {req : Bool} (hok : formOk year cname inst = true)
    (h : checkLine year cname inst lname gate spec mode req = true) :
    ∃ c inst' d, (mkCat year).sem (lineName cname inst lname) = evalLine year c inst' d ∧
      year.resolveForm (formName cname inst) = some (c, inst') ∧ d ∈ c.lines ∧ d.name = lname ∧
      (req = true → d.required = true) ∧
      (match mode with
       | .never => cannotReturn year c inst' d gate spec = true
       | .afterRead => noReturnAfterRead year c inst' d gate spec = true) := by
  unfold checkLine at h
  cases hla : lineAt year cname inst lname with
  | none => simp [hla] at h
  | some cd =>
    obtain ⟨c, inst', d⟩ := cd
    simp only [hla, Bool.and_eq_true, Bool.or_eq_true, Bool.not_eq_eq_eq_not, Bool.not_true] at h
    obtain ⟨⟨hnames, hreq⟩, hmode⟩ := h
    unfold lineAt at hla
    cases hres : resolveLoose year (formName cname inst) with
    | none => simp [hres] at hla
    | some ci =>
      obtain ⟨c', i'⟩ := ci
      simp only [hres] at hla
      cases hfd : c'.lines.find? (fun d => d.name == lname) with
      | none => simp [hfd] at hla
      | some d' =>
        simp only [hfd, Option.some.injEq, Prod.mk.injEq] at hla
        obtain ⟨hc, hi, hd⟩ := hla
        subst hc; subst hi; subst hd
        unfold namesOK at hnames
        simp only [beq_iff_eq] at hnames
        have hres' : resolveIn year.formMap (formName cname inst) = some (c', i') := resolveLoose_ok hok hres
        refine ⟨c', i', d', ?_, hres', List.mem_of_find?_eq_some hfd, ?_, ?_, ?_⟩
        · simp only [mkCat, mkCatOf, hnames, hres', hfd]
        · have := List.find?_some hfd
          simpa using this
        · intro hr
          rcases hreq with h1 | h1
          · rw [hr] at h1; cases h1
          · exact h1
        · cases mode <;> exact hmode

/-- **`checkLine` for `.never`**: the named line of the catalogue never evaluates to a value while the gate is
affirmative (or absent). -/
theorem checkLine_never_sound {year : YearDecl} {cname : String} {inst : Option String} {lname gate : String}
    {spec : GateSpec} {req : Bool} (hok : formOk year cname inst = true)
    (h : checkLine year cname inst lname gate spec .never req = true)
    (vs : String → Option Val) (is : String → InpRes Val) (fs : String → Bool)
    (hg : ∀ v, is gate = .ok v → spec.sat v = true) (x : Val) :
    run vs is fs ((mkCat year).sem (lineName cname inst lname)) ≠ .val x := by
  obtain ⟨c, i', d, hsem, _, _, _, _, hm⟩ := checkLine_sem hok h
  rw [hsem]
  exact cannotReturn_sound hm vs is fs hg x

/-- **`checkLine` for `.afterRead`**: a run of the named line that consults the gate does not yield a value. -/
theorem checkLine_afterRead_sound {year : YearDecl} {cname : String} {inst : Option String} {lname gate : String}
    {spec : GateSpec} {req : Bool} (hok : formOk year cname inst = true)
    (h : checkLine year cname inst lname gate spec .afterRead req = true)
    (vs : String → Option Val) (is : String → InpRes Val) (fs : String → Bool)
    (hg : ∀ v, is gate = .ok v → spec.sat v = true) (x : Val)
    (hrun : run vs is fs ((mkCat year).sem (lineName cname inst lname)) = .val x) :
    readsOn vs is fs gate ((mkCat year).sem (lineName cname inst lname)) = false := by
  obtain ⟨c, i', d, hsem, _, _, _, _, hm⟩ := checkLine_sem hok h
  rw [hsem] at hrun ⊢
  exact noReturnAfterRead_sound hm vs is fs hg x hrun

/-! ## 5. What this means for `solve` (through C01) -/

section Solve
variable {year : YearDecl} {sch : Sched String String}
variable {P : Option (Nat → String → List String → Option String)} {inp : List (String × String)}
variable {forms : List String} {extra : List String} {fuel qfuel : Nat}
variable {s : St String String String Val String}

/-- **The guarding line is demanded ⇒ not solved.**  If a line that cannot return under the gate is among the
lines the solver was solving, and the gate input is affirmative (or was never supplied), the verdict is not
*solved*. -/
theorem gate_blocks_line (hσ : SchedOK sch)
    (hsolve : solve (mkCat year) sch P inp forms extra fuel qfuel = .ok (some s))
    {cname : String} {inst : Option String} {lname gate : String} {spec : GateSpec} {req : Bool}
    (hok : formOk year cname inst = true)
    (hchk : checkLine year cname inst lname gate spec .never req = true)
    (hdem : lineName cname inst lname ∈ s.solving)
    (hgate : ∀ v, s.inf (mkCat year) gate = .ok v → spec.sat v = true) : s.solved = false := by
  cases hs : s.solved with
  | false => rfl
  | true =>
    obtain ⟨_, _, _, hval, _⟩ := C01.solved_sound (mkCat_wf year) hσ hsolve hs
    obtain ⟨x, _, hx⟩ := hval _ hdem
    exact absurd hx (checkLine_never_sound hok hchk _ _ _ hgate x)

/-- **The form is loaded ⇒ not solved** (for a REQUIRED guarding line): whatever else was entered, a run in which
the form is loaded and the gate is affirmative (or unanswered) does not end *solved*. -/
theorem gate_blocks_form (hσ : SchedOK sch)
    (hsolve : solve (mkCat year) sch P inp forms extra fuel qfuel = .ok (some s))
    {cname : String} {inst : Option String} {lname gate : String} {spec : GateSpec}
    (hok : formOk year cname inst = true)
    (hchk : checkLine year cname inst lname gate spec .never true = true)
    (hform : formName cname inst ∈ s.forms)
    (hgate : ∀ v, s.inf (mkCat year) gate = .ok v → spec.sat v = true) : s.solved = false := by
  obtain ⟨c, i', d, _, hres, hd, hname, hreq, _⟩ := checkLine_sem hok hchk
  obtain ⟨hinv, _, _⟩ := solve_inv (mkCat_wf year) hσ hsolve
  refine gate_blocks_line hσ hsolve hok hchk ((hinv.formsLoaded _ hform).2.1 _ ?_) hgate
  have hres' : resolveIn year.formMap (formName cname inst) = some (c, i') := hres
  simp only [mkCat, mkCatOf, hres', List.mem_map, List.mem_filter]
  exact ⟨d, ⟨hd, hreq rfl⟩, by rw [hname]; rfl⟩

/-- **The gate is consulted ⇒ not solved.**  If the final evaluation of a demanded line reads the gate input, the
line is one whose gate-reading paths never return, and the answer is affirmative, the verdict is not *solved*. -/
theorem gate_read_blocks (hσ : SchedOK sch)
    (hsolve : solve (mkCat year) sch P inp forms extra fuel qfuel = .ok (some s))
    {cname : String} {inst : Option String} {lname gate : String} {spec : GateSpec} {req : Bool}
    (hok : formOk year cname inst = true)
    (hchk : checkLine year cname inst lname gate spec .afterRead req = true)
    (hdem : lineName cname inst lname ∈ s.solving)
    (hread : readsOn s.vf (s.inf (mkCat year)) s.ff gate ((mkCat year).sem (lineName cname inst lname)) = true)
    (hgate : ∀ v, s.inf (mkCat year) gate = .ok v → spec.sat v = true) : s.solved = false := by
  cases hs : s.solved with
  | false => rfl
  | true =>
    obtain ⟨_, _, _, hval, _⟩ := C01.solved_sound (mkCat_wf year) hσ hsolve hs
    obtain ⟨x, _, hx⟩ := hval _ hdem
    have := checkLine_afterRead_sound hok hchk _ _ _ hgate x hx
    rw [this] at hread
    cases hread

end Solve

/-! ## Non-vacuity: the analysis separates the two answers, and the evaluator agrees -/
namespace Examples

def toyYear : YearDecl := { year := 0, classes := [], enums := [], globals := [] }
def toyClass : ClassDecl := { name := "f", instRule := .any, inputs := [], lines := [], thresholds := [] }
/-- `BooleanField('l', lambda s, i, v: s.not_implemented() if i['g'] else None)` -/
def toyLine : LineDecl :=
  { name := "l", kind := .bool, required := true, defaults := [],
    body := [.ret (.ite (.readI (.const (.str "g"))) (.notImpl []) (.const .none))] }
/-- `if i['a'] and i['g']: self.not_implemented()` then `return True`: the gate is read only when `a` is truthy -/
def toyLine2 : LineDecl :=
  { name := "m", kind := .bool, required := true, defaults := [],
    body := [.ifS (.and (.readI (.const (.str "a"))) (.readI (.const (.str "g")))) [.expr (.notImpl [])] [],
             .ret (.const (.bool true))] }

def stores (g : Bool) : String → InpRes Val := fun x => if x == "f.g" then .ok (.bool g) else if x == "f.a" then .ok (.bool false) else .noSpec

example : cannotReturn toyYear toyClass none toyLine "f.g" (.isBool true) = true := by decide +kernel
example : cannotReturn toyYear toyClass none toyLine "f.g" (.isBool false) = false := by decide +kernel
example : cannotReturn toyYear toyClass none toyLine2 "f.g" (.isBool true) = false := by decide +kernel
example : noReturnAfterRead toyYear toyClass none toyLine2 "f.g" (.isBool true) = true := by decide +kernel
-- gate answered "no": the line returns (the hypotheses of the soundness theorems are satisfiable and needed)
example : (match run (fun _ => none) (stores false) (fun _ => false) (evalLine toyYear toyClass none toyLine) with
    | .val (.bool false) => true
    | _ => false) = true := by decide +kernel
-- gate answered "yes": not implemented
example : (match run (fun _ => none) (stores true) (fun _ => false) (evalLine toyYear toyClass none toyLine) with
    | .notImpl => true
    | _ => false) = true := by decide +kernel
-- `a` falsy: the second line returns without having consulted the gate
example : readsOn (fun _ => none) (stores true) (fun _ => false) "f.g" (evalLine toyYear toyClass none toyLine2) = false := by
  decide +kernel

end Examples

end HabuVerif.Gates

#print axioms HabuVerif.Gates.cannotReturn_sound
#print axioms HabuVerif.Gates.noReturnAfterRead_sound
#print axioms HabuVerif.Gates.checkLine_never_sound
#print axioms HabuVerif.Gates.checkLine_afterRead_sound
#print axioms HabuVerif.Gates.gate_blocks_line
#print axioms HabuVerif.Gates.gate_blocks_form
#print axioms HabuVerif.Gates.gate_read_blocks
