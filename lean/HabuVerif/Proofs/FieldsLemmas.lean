import HabuVerif.Core.Fields
import HabuVerif.Proofs.InputsLemmas
/-!
# Properties of the typed fields (C12)

For every character table and every float semantics:

* `fieldValue_typed`   — a stored value has exactly the declared type (or is `None` for an enum line);
* `fieldValue_blank`   — `None` / blank text (of `str` or any subclass) is stored as the type's empty
                          value (rounded, for a money line);
* `fieldValue_rejects` — a non-blank object of any other type is rejected with `TypeError`
                          (`bool` for an integer line, `int` for a money line, a subclass instance, a
                          member of another enum class, …), never stored or coerced;
* `fieldValue_rounded` — a money line stores `round(x, places)`; with an idempotent `round` the
                          stored value is a fixed point of the rounding;
* `fromString_toString_*` — reading back what `to_string` wrote gives the value again (bool, int,
                          str, stringy enums; floats under the hypothesis that the formatted text of a
                          rounded value parses back to it);
* `inputForm_field_total` — the line an `InputForm` creates for an input never raises `TypeError` on
                          the input's value.
-/
set_option autoImplicit false

namespace HabuVerif.Fields

open PyStr Inputs

variable {F : Type} (T : CharTable) (ops : FloatOps F)

/-- the stored value is of the line's type (`None` is the empty value of an enum line) -/
def WellTyped (ft : FieldTy) (w : PyVal F) : Prop :=
  hasType ft w = true ∨ ((∃ e, ft = .enum e) ∧ w = .none)

theorem hasType_emptyValue (ft : FieldTy) : WellTyped ft (emptyValue ops ft) := by
  cases ft with
  | enum e => exact Or.inr ⟨⟨e, rfl⟩, rfl⟩
  | _ => exact Or.inl rfl

theorem typedValue_typed (ft : FieldTy) (v w : PyVal F) (h : typedValue T ops ft v = .ok w) :
    WellTyped ft w := by
  unfold typedValue at h
  split at h
  · cases h; exact hasType_emptyValue ops ft
  · split at h
    · cases h
    · rename_i ht
      cases h
      exact Or.inl (by simpa using ht)

/-- on a float line `typedValue` yields a float -/
theorem typedValue_float (p : Nat) (v w : PyVal F) (h : typedValue T ops (.float p) v = .ok w) :
    ∃ x, w = .float x := by
  rcases typedValue_typed T ops _ _ _ h with ht | ⟨⟨e, he⟩, _⟩
  · cases w <;> simp [hasType] at ht
    exact ⟨_, rfl⟩
  · cases he

/-- the `unmodelled` branch of `fieldValue` is dead -/
theorem fieldValue_float_eq (p : Nat) (v : PyVal F) :
    fieldValue T ops (.float p) v =
      (typedValue T ops (.float p) v).map (fun w => match w with
        | .float x => .float (ops.roundN x p)
        | w => w) := by
  unfold fieldValue
  cases h : typedValue T ops (.float p) v with
  | error e => rfl
  | ok w =>
    obtain ⟨x, rfl⟩ := typedValue_float T ops p v w h
    rfl

/-- C12: the value a solution holds has exactly the declared type -/
theorem fieldValue_typed (ft : FieldTy) (v w : PyVal F) (h : fieldValue T ops ft v = .ok w) :
    WellTyped ft w := by
  cases ft with
  | float p =>
    rw [fieldValue_float_eq] at h
    cases ht : typedValue T ops (.float p) v with
    | error e => simp [ht, Except.map] at h
    | ok u =>
      obtain ⟨x, rfl⟩ := typedValue_float T ops p v u ht
      simp [ht, Except.map] at h
      subst h
      exact Or.inl rfl
  | str => exact typedValue_typed T ops _ _ _ h
  | bool => exact typedValue_typed T ops _ _ _ h
  | int => exact typedValue_typed T ops _ _ _ h
  | enum e => exact typedValue_typed T ops _ _ _ h

/-- what is stored for a blank answer -/
def storedEmpty (ft : FieldTy) : PyVal F :=
  match ft with
  | .float p => .float (ops.roundN ops.zero p)
  | ft => emptyValue ops ft

/-- C12: `None` and blank text are stored as the type's empty value -/
theorem fieldValue_blank (ft : FieldTy) (v : PyVal F) (hb : isBlank T v = true) :
    fieldValue T ops ft v = .ok (storedEmpty ops ft) := by
  cases ft <;> simp [fieldValue, typedValue, hb, storedEmpty, emptyValue]

theorem fieldValue_none (ft : FieldTy) : fieldValue T ops ft .none = .ok (storedEmpty ops ft) :=
  fieldValue_blank T ops ft .none rfl

/-- C12: a non-blank object of another type is rejected with `TypeError` -/
theorem fieldValue_rejects (ft : FieldTy) (v : PyVal F) (hb : isBlank T v = false)
    (ht : hasType ft v = false) : fieldValue T ops ft v = .error .typeError := by
  cases ft <;> simp [fieldValue, typedValue, hb, ht]

/-- `True` is not an `int` -/
theorem intField_rejects_bool (b : Bool) : fieldValue T ops .int (.bool b) = .error .typeError :=
  fieldValue_rejects T ops _ _ rfl rfl

/-- `1` is not a `float` -/
theorem floatField_rejects_int (p : Nat) (i : Int) :
    fieldValue T ops (.float p) (.int i) = .error .typeError :=
  fieldValue_rejects T ops _ _ rfl rfl

/-- `1.0` is not an `int` -/
theorem intField_rejects_float (x : F) : fieldValue T ops .int (.float x) = .error .typeError :=
  fieldValue_rejects T ops _ _ rfl rfl

/-- instances of subclasses (`IntEnum` members, `float` subclasses, …) are rejected everywhere -/
theorem field_rejects_other (ft : FieldTy) (tag : Nat) :
    fieldValue T ops ft (.other tag) = .error .typeError :=
  fieldValue_rejects T ops _ _ rfl (by cases ft <;> rfl)

/-- a non-blank instance of a `str` subclass is rejected everywhere, also by a text line -/
theorem field_rejects_strSub (ft : FieldTy) (tag : Nat) (s : Text) (h : strip T s ≠ []) :
    fieldValue T ops ft (.strSub tag s) = .error .typeError :=
  fieldValue_rejects T ops _ _ (by simp [isBlank, h]) (by cases ft <;> rfl)

/-- a member of another enum class is rejected -/
theorem enumField_rejects_other_enum (e : EnumTy) (i : Nat) (m : Text) (h : i ≠ e.ident) :
    fieldValue T ops (.enum e) (.enumMember i m) = .error .typeError :=
  fieldValue_rejects T ops _ _ rfl (by simp [hasType, h])

/-- a correctly typed non-blank value is stored unchanged (rounded on a money line) -/
theorem fieldValue_accepts (ft : FieldTy) (v : PyVal F) (hb : isBlank T v = false)
    (ht : hasType ft v = true) :
    fieldValue T ops ft v = .ok (match ft, v with
      | .float p, .float x => .float (ops.roundN x p)
      | _, v => v) := by
  cases ft with
  | float p =>
    cases v <;> simp [hasType] at ht
    simp [fieldValue, typedValue, hb, hasType]
  | str => simp [fieldValue, typedValue, hb, ht]
  | bool => simp [fieldValue, typedValue, hb, ht]
  | int => simp [fieldValue, typedValue, hb, ht]
  | enum e => simp [fieldValue, typedValue, hb, ht]

/-- C12: a money line stores a rounded value -/
theorem fieldValue_rounded (p : Nat) (v w : PyVal F) (h : fieldValue T ops (.float p) v = .ok w) :
    ∃ x, w = .float (ops.roundN x p) := by
  rw [fieldValue_float_eq] at h
  cases ht : typedValue T ops (.float p) v with
  | error e => simp [ht, Except.map] at h
  | ok u =>
    obtain ⟨x, rfl⟩ := typedValue_float T ops p v u ht
    simp [ht, Except.map] at h
    exact ⟨x, h.symm⟩

/-- with an idempotent `round`, what a money line stores is a fixed point of the rounding:
dependents read an already rounded amount -/
theorem fieldValue_rounded_fixed (hidem : ∀ x n, ops.roundN (ops.roundN x n) n = ops.roundN x n)
    (p : Nat) (v w : PyVal F) (h : fieldValue T ops (.float p) v = .ok w) :
    ∃ y, w = .float y ∧ ops.roundN y p = y := by
  obtain ⟨x, rfl⟩ := fieldValue_rounded T ops p v w h
  exact ⟨_, rfl, hidem x p⟩

/-- rounding happens after the type check: an `int` is rejected, not rounded -/
theorem fieldValue_check_before_round (p : Nat) (v : PyVal F) (hb : isBlank T v = false)
    (ht : hasType (.float p) v = false) : fieldValue T ops (.float p) v = .error .typeError :=
  fieldValue_rejects T ops _ _ hb ht

/-! ## `from_string (to_string v) = v` -/

theorem fromString_toString_bool (hT : AsciiCompat T) (b : Bool) (s : Text)
    (h : toString T ops .bool (.bool b) = .ok s) : fromString T ops .bool s = .ok (.bool b) := by
  cases b
  · simp [toString, pyStrBasic] at h
    subst h
    simp only [fromString, lower_False T hT]
    rfl
  · simp [toString, pyStrBasic] at h
    subst h
    simp only [fromString, lower_True T hT]
    rfl

/-- integers survive the round trip whenever `str(i)` is allowed at all (digit limit) -/
theorem fromString_toString_int (i : Int) (s : Text)
    (h : toString T ops .int (.int i) = .ok s) : fromString T ops .int s = .ok (.int i) := by
  simp only [toString, pyStrBasic] at h
  cases hs : intStr T i with
  | none => simp [hs] at h
  | some t =>
    simp [hs] at h
    subst h
    simp [fromString, parseInt_intStr T i t hs]

theorem fromString_toString_str (t s : Text) (h : toString T ops .str (.str t) = .ok s) :
    fromString T ops .str s = .ok (.str t) := by
  simp [toString, pyStrBasic] at h
  subst h
  rfl

/-- enum lines: `None` ↔ empty text; members by name — for enums whose `str()` is the bare name
(`habutax.enum.make`).  For a plain `enum.Enum`, `to_string` writes `Class.name`, which
`from_string` does not find (`KeyError`). -/
theorem fromString_toString_enum (e : EnumTy) (hs : e.stringy = true) (v : PyVal F) (s : Text)
    (hv : v = .none ∨ ∃ m, m ∈ e.members ∧ m ≠ [] ∧ v = .enumMember e.ident m)
    (h : toString T ops (.enum e) v = .ok s) : fromString T ops (.enum e) s = .ok v := by
  rcases hv with rfl | ⟨m, hm, hne, rfl⟩
  · simp [toString] at h
    subst h
    rfl
  · simp [toString, enumStr, hs] at h
    subst h
    simp [fromString, hm, hne]

theorem fromString_toString_enum_plain (e : EnumTy) (hs : e.stringy = false) (m : Text)
    (hnot : e.clsName ++ ['.'] ++ m ∉ e.members) :
    ∃ s, toString T ops (.enum e) (.enumMember e.ident m : PyVal F) = .ok s ∧
      fromString T ops (.enum e) s = .error .keyError := by
  refine ⟨e.clsName ++ ['.'] ++ m, by simp [toString, enumStr, hs], ?_⟩
  have hnot' : e.clsName ++ '.' :: m ∉ e.members := by simpa using hnot
  simp [fromString, hnot']

/-- money lines: the text written for a stored (= rounded) amount reads back as the same amount,
provided the decimal text of a rounded double parses back to it (true for IEEE doubles with correct
rounding whenever `places ≤ 15` and the magnitude is moderate; it is a property of the float
semantics, not of habutax) and rounding is idempotent. -/
theorem fromString_toString_float (p : Nat) (x : F)
    (hidem : ∀ y n, ops.roundN (ops.roundN y n) n = ops.roundN y n)
    (hparse : ∃ d, parseFloatLit T (ops.fmt (ops.roundN x p) p) = some d ∧
      ops.ofLit d = ops.roundN x p) (s : Text)
    (h : toString T ops (.float p) (.float (ops.roundN x p)) = .ok s) :
    fromString T ops (.float p) s = .ok (.float (ops.roundN x p)) := by
  simp [toString] at h
  subst h
  obtain ⟨d, hd, hx⟩ := hparse
  simp [fromString, hd, hx, hidem]

/-! ## `InputForm`: the line mirroring an input -/

theorem fieldOfInput_ok_iff (sp : InputSpec) :
    (∃ ft, fieldOfInput sp = .ok ft) ↔ ∀ r, sp ≠ .regex r := by
  cases sp <;> simp [fieldOfInput]

/-- a `RegexInput` cannot be part of an `InputForm` -/
theorem fieldOfInput_regex (r : Regex.Re) : fieldOfInput (.regex r) = .error .typeError := rfl

/-- the line created for an input accepts every value the input can produce: no `TypeError` -/
theorem inputForm_field_total (sp : InputSpec) (ft : FieldTy) (hft : fieldOfInput sp = .ok ft)
    (s : Text) (v : PyVal F) (hv : value T ops sp s = .ok v) :
    ∃ w, fieldValue T ops ft v = .ok w := by
  have hk := value_typed T ops sp s v hv
  cases sp with
  | regex r => cases hft
  | str =>
    cases hft; obtain ⟨t, rfl⟩ := hk
    by_cases hb : isBlank T (.str t : PyVal F) = true
    · exact ⟨_, fieldValue_blank T ops _ _ hb⟩
    · exact ⟨_, fieldValue_accepts T ops _ _ (by simpa using hb) rfl⟩
  | ssn =>
    cases hft; obtain ⟨t, rfl⟩ := hk
    by_cases hb : isBlank T (.str t : PyVal F) = true
    · exact ⟨_, fieldValue_blank T ops _ _ hb⟩
    · exact ⟨_, fieldValue_accepts T ops _ _ (by simpa using hb) rfl⟩
  | bool => cases hft; obtain ⟨b, rfl⟩ := hk; exact ⟨_, fieldValue_accepts T ops _ _ rfl rfl⟩
  | int => cases hft; obtain ⟨b, rfl⟩ := hk; exact ⟨_, fieldValue_accepts T ops _ _ rfl rfl⟩
  | float => cases hft; obtain ⟨b, rfl⟩ := hk; exact ⟨_, fieldValue_accepts T ops _ _ rfl rfl⟩
  | enum e ae =>
    cases hft
    rcases hk with ⟨rfl, _⟩ | ⟨m, _, rfl⟩
    · exact ⟨_, fieldValue_none T ops _⟩
    · exact ⟨_, fieldValue_accepts T ops _ _ rfl (by simp [hasType])⟩

/-- for the text-like classes the line stores exactly the input's value -/
theorem inputForm_str_value (s : Text) :
    fieldValue T ops .str (.str (strip T s) : PyVal F) = .ok (.str (strip T s)) := by
  by_cases hb : strip T (strip T s) = []
  · have h0 : strip T s = [] := by rwa [strip_idem] at hb
    rw [fieldValue_blank T ops _ _ (by simp [isBlank, hb])]
    simp [storedEmpty, emptyValue, h0]
  · exact fieldValue_accepts T ops _ _ (by simp [isBlank, hb]) rfl

/-- a money input is stored rounded to two places -/
theorem inputForm_float_value (x : F) :
    fieldValue T ops (.float 2) (.float x) = .ok (.float (ops.roundN x 2)) :=
  fieldValue_accepts T ops _ _ rfl rfl

end HabuVerif.Fields
