import HabuVerif.Refl.SortedTables
/-!
# Soundness of the sorted-table checkers

What a `true` answer of each linear-time checker in `Refl/SortedTables.lean` means, in terms of `∈`,
`List.Nodup`, `List.Pairwise`; and injectivity / decodability of the `Nat` coding of names.
Core only (no Mathlib needed).
-/
set_option autoImplicit false

namespace HabuVerif.Refl

/-! ## strictSorted -/

theorem strictSorted_cons {a : Nat} {l : List Nat} (h : strictSorted (a :: l) = true) :
    strictSorted l = true := by
  cases l with
  | nil => rfl
  | cons b t => simp [strictSorted] at h; exact h.2

theorem strictSorted_head_lt {a : Nat} {l : List Nat} (h : strictSorted (a :: l) = true) :
    ∀ x ∈ l, a < x := by
  induction l generalizing a with
  | nil => intro x hx; cases hx
  | cons b t ih =>
    simp [strictSorted] at h
    intro x hx
    rcases List.mem_cons.mp hx with rfl | hx
    · exact h.1
    · exact Nat.lt_trans h.1 (ih h.2 x hx)

/-- `strictSorted` decides "strictly increasing" -/
theorem strictSorted_pairwise {l : List Nat} (h : strictSorted l = true) : l.Pairwise (· < ·) := by
  induction l with
  | nil => exact List.Pairwise.nil
  | cons a t ih =>
    exact List.Pairwise.cons (strictSorted_head_lt h) (ih (strictSorted_cons h))

theorem strictSorted_of_pairwise {l : List Nat} (h : l.Pairwise (· < ·)) : strictSorted l = true := by
  induction l with
  | nil => rfl
  | cons a t ih =>
    cases t with
    | nil => rfl
    | cons b u =>
      rw [List.pairwise_cons] at h
      simp only [strictSorted, Bool.and_eq_true, decide_eq_true_eq]
      exact ⟨h.1 b (List.mem_cons_self ..), ih h.2⟩

theorem strictSorted_iff {l : List Nat} : strictSorted l = true ↔ l.Pairwise (· < ·) :=
  ⟨strictSorted_pairwise, strictSorted_of_pairwise⟩

/-- a strictly sorted list has no duplicates -/
theorem strictSorted_nodup {l : List Nat} (h : strictSorted l = true) : l.Nodup := by
  have hp := strictSorted_pairwise h
  exact hp.imp (fun hab => Nat.ne_of_lt hab)

/-! ## subsetSorted -/

/-- soundness of the merge needs no sortedness: every element of `a` was matched with an equal element of `b` -/
theorem subsetGo_sound : ∀ (b a : List Nat), subsetGo b a = true → ∀ x ∈ a, x ∈ b := by
  intro b
  induction b with
  | nil =>
    intro a h x hx
    cases a with
    | nil => cases hx
    | cons a as => simp [subsetGo] at h
  | cons b bs ih =>
    intro a h x hx
    cases a with
    | nil => cases hx
    | cons a as =>
      simp only [subsetGo] at h
      split at h
      · rename_i hab
        have hab' : a = b := by simpa using hab
        rcases List.mem_cons.mp hx with rfl | hx
        · rw [hab']; exact List.mem_cons_self ..
        · exact List.mem_cons_of_mem _ (ih as h x hx)
      · split at h
        · exact List.mem_cons_of_mem _ (ih (a :: as) h x hx)
        · cases h

theorem subsetSorted_sound (a b : List Nat) (h : subsetSorted a b = true) : ∀ x ∈ a, x ∈ b :=
  subsetGo_sound b a h

/-- completeness on strictly sorted inputs -/
theorem subsetGo_complete : ∀ (b a : List Nat), strictSorted a = true → strictSorted b = true →
    (∀ x ∈ a, x ∈ b) → subsetGo b a = true := by
  intro b
  induction b with
  | nil =>
    intro a _ _ h
    cases a with
    | nil => rfl
    | cons a as => have := h a (List.mem_cons_self ..); cases this
  | cons b bs ih =>
    intro a ha hb h
    cases a with
    | nil => rfl
    | cons a as =>
      simp only [subsetGo]
      have hbs := strictSorted_head_lt hb
      have has := strictSorted_head_lt ha
      by_cases hab : a = b
      · subst hab
        simp only [beq_self_eq_true, ↓reduceIte]
        apply ih as (strictSorted_cons ha) (strictSorted_cons hb)
        intro x hx
        rcases List.mem_cons.mp (h x (List.mem_cons_of_mem _ hx)) with rfl | hm
        · exact absurd (has x hx) (Nat.lt_irrefl _)
        · exact hm
      · have hne : (a == b) = false := by simpa using hab
        simp only [hne]
        rcases List.mem_cons.mp (h a (List.mem_cons_self ..)) with rfl | hm
        · exact absurd rfl hab
        · have hlt : b < a := hbs a hm
          simp only [Bool.false_eq_true, ↓reduceIte, hlt]
          apply ih (a :: as) ha (strictSorted_cons hb)
          intro x hx
          rcases List.mem_cons.mp (h x hx) with rfl | hm'
          · -- x = b but every element of a :: as is ≥ a > b
            rcases List.mem_cons.mp hx with rfl | hx'
            · exact absurd hlt (Nat.lt_irrefl _)
            · exact absurd (Nat.lt_trans hlt (has _ hx')) (Nat.lt_irrefl _)
          · exact hm'

theorem subsetSorted_complete (a b : List Nat) (ha : strictSorted a = true) (hb : strictSorted b = true)
    (h : ∀ x ∈ a, x ∈ b) : subsetSorted a b = true :=
  subsetGo_complete b a ha hb h

/-! ## the row-level variants agree with the key-list versions -/

theorem keysSorted_eq {α : Type} : ∀ (t : List (Nat × α)), keysSorted t = strictSorted (keys t) := by
  intro t
  induction t with
  | nil => rfl
  | cons a u ih =>
    cases u with
    | nil => rfl
    | cons b v =>
      simp only [keysSorted, keys, List.map_cons, strictSorted]
      rw [ih]
      rfl

theorem keysSubsetGo_eq {α β : Type} : ∀ (t : List (Nat × β)) (m : List (Nat × α)),
    keysSubsetGo t m = subsetGo (keys t) (keys m) := by
  intro t
  induction t with
  | nil =>
    intro m
    cases m with
    | nil => rfl
    | cons x xs => rfl
  | cons b bs ih =>
    intro m
    cases m with
    | nil => rfl
    | cons x xs =>
      simp only [keysSubsetGo, keys, List.map_cons, subsetGo]
      rw [ih xs, ih (x :: xs)]
      rfl

theorem keysSubset_eq {α β : Type} (m : List (Nat × α)) (t : List (Nat × β)) :
    keysSubset m t = subsetSorted (keys m) (keys t) :=
  keysSubsetGo_eq t m

/-! ## disjointSorted -/

theorem disjointAux_sound : ∀ (fuel : Nat) (a b : List Nat), disjointAux fuel a b = true →
    strictSorted a = true → strictSorted b = true → ∀ x ∈ a, x ∉ b := by
  intro fuel
  induction fuel with
  | zero =>
    intro a b h _ _ x hx hxb
    cases a with
    | nil => cases hx
    | cons a as =>
      cases b with
      | nil => cases hxb
      | cons b bs => simp [disjointAux] at h
  | succ n ih =>
    intro a b h ha hb x hx hxb
    cases a with
    | nil => cases hx
    | cons a as =>
      cases b with
      | nil => cases hxb
      | cons b bs =>
        unfold disjointAux at h
        have has := strictSorted_head_lt ha
        have hbs := strictSorted_head_lt hb
        split at h
        · cases h
        · rename_i hne
          have hne' : a ≠ b := by simpa using hne
          split at h
          · rename_i hlt
            -- a < b: a is smaller than everything in b :: bs
            rcases List.mem_cons.mp hx with rfl | hx'
            · rcases List.mem_cons.mp hxb with rfl | hb'
              · exact hne' rfl
              · exact absurd (Nat.lt_trans hlt (hbs _ hb')) (Nat.lt_irrefl _)
            · exact ih as (b :: bs) h (strictSorted_cons ha) hb x hx' hxb
          · rename_i hnlt
            have hba : b < a := by omega
            rcases List.mem_cons.mp hxb with rfl | hb'
            · rcases List.mem_cons.mp hx with rfl | hx'
              · exact hne' rfl
              · exact absurd (Nat.lt_trans hba (has _ hx')) (Nat.lt_irrefl _)
            · exact ih (a :: as) bs h ha (strictSorted_cons hb) x hx hb'

/-- two strictly sorted lists that pass the merge test share no element -/
theorem disjointSorted_sound {a b : List Nat} (h : disjointSorted a b = true)
    (ha : strictSorted a = true) (hb : strictSorted b = true) : ∀ x ∈ a, x ∉ b :=
  disjointAux_sound _ a b h ha hb

/-! ## lookupSorted -/

theorem lookupSorted_sound {α : Type} : ∀ (t : List (Nat × α)) (k : Nat) (v : α),
    lookupSorted t k = some v → (k, v) ∈ t := by
  intro t
  induction t with
  | nil => intro k v h; simp [lookupSorted] at h
  | cons kv t ih =>
    intro k v h
    obtain ⟨k', v'⟩ := kv
    unfold lookupSorted at h
    split at h
    · rename_i heq
      have : k' = k := by simpa using heq
      subst this
      cases h
      exact List.mem_cons_self ..
    · split at h
      · cases h
      · exact List.mem_cons_of_mem _ (ih k v h)

theorem lookupSorted_complete {α : Type} : ∀ (t : List (Nat × α)) (k : Nat) (v : α),
    strictSorted (keys t) = true → (k, v) ∈ t → lookupSorted t k = some v := by
  intro t
  induction t with
  | nil => intro k v _ h; cases h
  | cons kv t ih =>
    intro k v hs h
    obtain ⟨k', v'⟩ := kv
    have hlt := strictSorted_head_lt (show strictSorted (k' :: keys t) = true from hs)
    unfold lookupSorted
    rcases List.mem_cons.mp h with heq | hm
    · cases heq; simp
    · have hk : k ∈ keys t := List.mem_map.mpr ⟨(k, v), hm, rfl⟩
      have hkk : k' < k := hlt k hk
      have hne : (k' == k) = false := by simpa using Nat.ne_of_lt hkk
      have hnl : ¬ k < k' := by omega
      simp only [hne, Bool.false_eq_true, ↓reduceIte, hnl]
      exact ih k v (strictSorted_cons (show strictSorted (k' :: keys t) = true from hs)) hm

/-- on a sorted table, `none` really means "no such key" -/
theorem lookupSorted_none {α : Type} (t : List (Nat × α)) (k : Nat)
    (hs : strictSorted (keys t) = true) (h : lookupSorted t k = none) : k ∉ keys t := by
  intro hk
  obtain ⟨⟨k', v⟩, hm, hk'⟩ := List.mem_map.mp hk
  simp only at hk'
  subst hk'
  have := lookupSorted_complete t k' v hs hm
  rw [h] at this
  cases this

/-- the value found on a sorted table is THE value of that key -/
theorem lookupSorted_unique {α : Type} (t : List (Nat × α)) (k : Nat) (v w : α)
    (hs : strictSorted (keys t) = true) (hv : (k, v) ∈ t) (hw : (k, w) ∈ t) : v = w := by
  have h1 := lookupSorted_complete t k v hs hv
  have h2 := lookupSorted_complete t k w hs hw
  rw [h1] at h2
  exact Option.some.inj h2

theorem joinGo_sound {α β : Type} (p : α → β → Bool) : ∀ (r : List (Nat × β)) (l : List (Nat × α)),
    joinGo p r l = true → ∀ k a, (k, a) ∈ l → ∃ b, (k, b) ∈ r ∧ p a b = true := by
  intro r
  induction r with
  | nil =>
    intro l h k a hm
    cases l with
    | nil => cases hm
    | cons x xs => simp [joinGo] at h
  | cons b bs ih =>
    intro l h k a hm
    cases l with
    | nil => cases hm
    | cons x xs =>
      simp only [joinGo] at h
      split at h
      · rename_i hk
        have hk' : x.1 = b.1 := by simpa using hk
        simp only [Bool.and_eq_true] at h
        rcases List.mem_cons.mp hm with heq | hm'
        · refine ⟨b.2, ?_, ?_⟩
          · have : (k, b.2) = b := by rw [← heq] at hk'; simp only at hk'; rw [hk']
            rw [this]; exact List.mem_cons_self ..
          · rw [← heq] at h; exact h.1
        · obtain ⟨f, hf, hp⟩ := ih xs h.2 k a hm'
          exact ⟨f, List.mem_cons_of_mem _ hf, hp⟩
      · split at h
        · obtain ⟨f, hf, hp⟩ := ih (x :: xs) h k a hm
          exact ⟨f, List.mem_cons_of_mem _ hf, hp⟩
        · cases h

/-- every left row has a partner with the same key on the right and `p` holds for the pair -/
theorem joinAll_sound {α β : Type} (p : α → β → Bool) (l : List (Nat × α)) (r : List (Nat × β))
    (h : joinAll p l r = true) : ∀ k a, (k, a) ∈ l → ∃ b, (k, b) ∈ r ∧ p a b = true :=
  joinGo_sound p r l h

/-! ## nodupB, atMostOne, countB -/

theorem nodupB_iff : ∀ (l : List Nat), nodupB l = true ↔ l.Nodup := by
  intro l
  induction l with
  | nil => simp [nodupB]
  | cons a t ih =>
    simp only [nodupB, Bool.and_eq_true, Bool.not_eq_true', List.nodup_cons, ih]
    constructor
    · rintro ⟨h1, h2⟩
      refine ⟨?_, h2⟩
      intro hm
      have : t.contains a = true := by simpa using hm
      rw [this] at h1; cases h1
    · rintro ⟨h1, h2⟩
      refine ⟨?_, h2⟩
      cases hc : t.contains a with
      | false => rfl
      | true => exact absurd (by simpa using hc) h1

/-- at most one position holds `true` -/
theorem atMostOne_sound : ∀ (l : List Bool), atMostOne l = true →
    ∀ (i j : Nat), l[i]? = some true → l[j]? = some true → i = j := by
  intro l
  induction l with
  | nil => intro _ i j hi; simp at hi
  | cons b t ih =>
    intro h i j hi hj
    cases b with
    | true =>
      simp only [atMostOne, List.all_eq_true, Bool.not_eq_true'] at h
      cases i with
      | zero =>
        cases j with
        | zero => rfl
        | succ j =>
          simp only [List.getElem?_cons_succ] at hj
          have := h true (List.mem_of_getElem? hj)
          cases this
      | succ i =>
        simp only [List.getElem?_cons_succ] at hi
        have := h true (List.mem_of_getElem? hi)
        cases this
    | false =>
      simp only [atMostOne] at h
      cases i with
      | zero => simp at hi
      | succ i =>
        cases j with
        | zero => simp at hj
        | succ j =>
          simp only [List.getElem?_cons_succ] at hi hj
          rw [ih h i j hi hj]

theorem countB_zero {α : Type} (p : α → Bool) : ∀ (l : List α), countB p l = 0 → ∀ a ∈ l, p a = false := by
  intro l
  induction l with
  | nil => intro _ a ha; cases ha
  | cons b t ih =>
    intro h a ha
    simp only [countB] at h
    rcases List.mem_cons.mp ha with rfl | ha'
    · cases hp : p a with
      | false => rfl
      | true => simp [hp] at h
    · exact ih (by omega) a ha'

/-- `countB p l = 1`: exactly one POSITION of `l` satisfies `p` -/
theorem countB_one {α : Type} (p : α → Bool) : ∀ (l : List α), countB p l = 1 →
    ∃ (i : Nat) (a : α), l[i]? = some a ∧ p a = true ∧
      ∀ (j : Nat) (b : α), l[j]? = some b → p b = true → j = i := by
  intro l
  induction l with
  | nil => intro h; simp [countB] at h
  | cons b t ih =>
    intro h
    simp only [countB] at h
    cases hp : p b with
    | true =>
      simp only [hp, ↓reduceIte] at h
      have hz : countB p t = 0 := by omega
      refine ⟨0, b, by simp, hp, ?_⟩
      intro j c hj hc
      cases j with
      | zero => rfl
      | succ j =>
        simp only [List.getElem?_cons_succ] at hj
        have := countB_zero p t hz c (List.mem_of_getElem? hj)
        rw [this] at hc; cases hc
    | false =>
      simp only [hp, Bool.false_eq_true, ↓reduceIte, Nat.zero_add] at h
      obtain ⟨i, a, hi, hpa, huniq⟩ := ih h
      refine ⟨i + 1, a, by simpa using hi, hpa, ?_⟩
      intro j c hj hc
      cases j with
      | zero =>
        simp only [List.getElem?_cons_zero, Option.some.injEq] at hj
        subst hj
        rw [hp] at hc; cases hc
      | succ j =>
        simp only [List.getElem?_cons_succ] at hj
        rw [huniq j c hj hc]

/-! ## the coding is injective and decodable -/

/-- least-significant-first view of the code -/
def encodeRev : List Nat → Nat
  | [] => 1
  | b :: t => encodeRev t * 256 + b

/-- `encodeRev` started from an arbitrary accumulator -/
def encodeRevFrom (acc : Nat) : List Nat → Nat
  | [] => acc
  | b :: t => encodeRevFrom acc t * 256 + b

theorem encodeRevFrom_snoc (acc : Nat) (r : List Nat) (a : Nat) :
    encodeRevFrom acc (r ++ [a]) = encodeRevFrom (acc * 256 + a) r := by
  induction r with
  | nil => rfl
  | cons b t ih => simp only [List.cons_append, encodeRevFrom, ih]

theorem pushBytes_eq (acc : Nat) (l : List Nat) : pushBytes acc l = encodeRevFrom acc l.reverse := by
  induction l generalizing acc with
  | nil => rfl
  | cons a t ih =>
    simp only [pushBytes, List.reverse_cons]
    rw [ih, encodeRevFrom_snoc]

theorem encodeRevFrom_one (r : List Nat) : encodeRevFrom 1 r = encodeRev r := by
  induction r with
  | nil => rfl
  | cons b t ih => simp only [encodeRevFrom, encodeRev, ih]

theorem encodeBytes_eq_encodeRev (bs : List Nat) : encodeBytes bs = encodeRev bs.reverse := by
  unfold encodeBytes
  rw [pushBytes_eq, encodeRevFrom_one]

theorem encodeRev_pos (r : List Nat) : 1 ≤ encodeRev r := by
  induction r with
  | nil => exact Nat.le_refl 1
  | cons b t ih => simp only [encodeRev]; omega

theorem encodeRev_injective : ∀ (r s : List Nat), (∀ b ∈ r, b < 256) → (∀ b ∈ s, b < 256) →
    encodeRev r = encodeRev s → r = s := by
  intro r
  induction r with
  | nil =>
    intro s _ hs h
    cases s with
    | nil => rfl
    | cons b t =>
      simp only [encodeRev] at h
      have := encodeRev_pos t
      omega
  | cons a u ih =>
    intro s hr hs h
    cases s with
    | nil =>
      simp only [encodeRev] at h
      have := encodeRev_pos u
      omega
    | cons b t =>
      simp only [encodeRev] at h
      have ha := hr a (List.mem_cons_self ..)
      have hb := hs b (List.mem_cons_self ..)
      have h1 : a = b := by omega
      have h2 : encodeRev u = encodeRev t := by omega
      rw [h1, ih t (fun x hx => hr x (List.mem_cons_of_mem _ hx))
        (fun x hx => hs x (List.mem_cons_of_mem _ hx)) h2]

/-- different byte strings have different codes -/
theorem encodeBytes_injective (a b : List Nat) (ha : ∀ x ∈ a, x < 256) (hb : ∀ x ∈ b, x < 256)
    (h : encodeBytes a = encodeBytes b) : a = b := by
  rw [encodeBytes_eq_encodeRev, encodeBytes_eq_encodeRev] at h
  have := encodeRev_injective a.reverse b.reverse
    (fun x hx => ha x (List.mem_reverse.mp hx)) (fun x hx => hb x (List.mem_reverse.mp hx)) h
  simpa using congrArg List.reverse this

theorem utf8Bytes_lt (c : Char) : ∀ b ∈ utf8Bytes c, b < 256 := by
  intro b hb
  have hv : c.toNat < 0x110000 := by
    have := c.valid
    simp only [Char.toNat]
    rcases this with h | h
    · have : c.val.toNat < 0xd800 := h
      omega
    · have : c.val.toNat < 0x110000 := h.2
      omega
  unfold utf8Bytes at hb
  simp only at hb
  split at hb
  · simp only [List.mem_singleton] at hb; omega
  · split at hb
    · simp only [List.mem_cons, List.not_mem_nil, or_false] at hb; omega
    · split at hb
      · simp only [List.mem_cons, List.not_mem_nil, or_false] at hb; omega
      · simp only [List.mem_cons, List.not_mem_nil, or_false] at hb; omega

/-- the code of a name determines its UTF-8 byte string -/
theorem encode_injective_bytes (s t : List Char) (h : encode s = encode t) :
    s.flatMap utf8Bytes = t.flatMap utf8Bytes := by
  apply encodeBytes_injective _ _ _ _ h
  · intro x hx
    obtain ⟨c, _, hc⟩ := List.mem_flatMap.mp hx
    exact utf8Bytes_lt c x hc
  · intro x hx
    obtain ⟨c, _, hc⟩ := List.mem_flatMap.mp hx
    exact utf8Bytes_lt c x hc

/-- on ASCII names the code determines the name -/
theorem encode_injective_ascii : ∀ (s t : List Char), (∀ c ∈ s, c.toNat < 128) → (∀ c ∈ t, c.toNat < 128) →
    encode s = encode t → s = t := by
  intro s t hs ht h
  have hb := encode_injective_bytes s t h
  clear h
  induction s generalizing t with
  | nil =>
    cases t with
    | nil => rfl
    | cons d u =>
      have hd := ht d (List.mem_cons_self ..)
      simp [utf8Bytes, hd] at hb
  | cons c u ih =>
    have hc := hs c (List.mem_cons_self ..)
    cases t with
    | nil => simp [utf8Bytes, hc] at hb
    | cons d w =>
      have hd := ht d (List.mem_cons_self ..)
      simp only [List.flatMap_cons, utf8Bytes, hc, hd, ↓reduceIte, List.cons_append, List.nil_append,
        List.cons.injEq] at hb
      have hcd : c = d := Char.ext (by
        have : c.toNat = d.toNat := hb.1
        simp only [Char.toNat] at this
        exact UInt32.toNat_inj.mp this)
      rw [hcd, ih w (fun x hx => hs x (List.mem_cons_of_mem _ hx))
        (fun x hx => ht x (List.mem_cons_of_mem _ hx)) hb.2]

/-- decoding: with enough fuel the bytes come back (least significant first) -/
theorem bytesRevAux_encodeRev : ∀ (r : List Nat) (fuel : Nat), (∀ b ∈ r, b < 256) → r.length < fuel →
    bytesRevAux fuel (encodeRev r) = r := by
  intro r
  induction r with
  | nil =>
    intro fuel _ hf
    cases fuel with
    | zero => omega
    | succ n => simp [bytesRevAux, encodeRev]
  | cons b t ih =>
    intro fuel hr hf
    cases fuel with
    | zero => omega
    | succ n =>
      have hb := hr b (List.mem_cons_self ..)
      have hpos := encodeRev_pos t
      simp only [bytesRevAux, encodeRev]
      have h1 : ¬ (encodeRev t * 256 + b < 256) := by omega
      have h2 : (encodeRev t * 256 + b) % 256 = b := by omega
      have h3 : (encodeRev t * 256 + b) / 256 = encodeRev t := by omega
      simp only [h1, ↓reduceIte, h2, h3]
      rw [ih n (fun x hx => hr x (List.mem_cons_of_mem _ hx)) (by simp only [List.length_cons] at hf; omega)]

theorem two_pow_le_encodeRev (r : List Nat) : 2 ^ r.length ≤ encodeRev r := by
  induction r with
  | nil => simp [encodeRev]
  | cons b t ih =>
    simp only [List.length_cons, encodeRev, Nat.pow_succ]
    omega

/-- `bytesOf` inverts `encodeBytes` -/
theorem bytesOf_encodeBytes (bs : List Nat) (h : ∀ b ∈ bs, b < 256) : bytesOf (encodeBytes bs) = bs := by
  unfold bytesOf
  rw [encodeBytes_eq_encodeRev]
  have hlen : bs.reverse.length < Nat.log2 (encodeRev bs.reverse) + 1 := by
    have hne : encodeRev bs.reverse ≠ 0 := by have := encodeRev_pos bs.reverse; omega
    have := (Nat.le_log2 hne).mpr (two_pow_le_encodeRev bs.reverse)
    omega
  rw [bytesRevAux_encodeRev bs.reverse _ (fun x hx => h x (List.mem_reverse.mp hx)) hlen]
  exact List.reverse_reverse bs

/-- a name accepted by `nameOk` is ASCII, has no upper-case letter and no dot -/
theorem nameOk_sound (bs : List Nat) (hb : ∀ b ∈ bs, b < 256) (h : nameOk (encodeBytes bs) = true) :
    ∀ b ∈ bs, b < 128 ∧ ¬ (65 ≤ b ∧ b ≤ 90) ∧ b ≠ 46 := by
  unfold nameOk at h
  rw [bytesOf_encodeBytes bs hb] at h
  simp only [Bool.and_eq_true, decide_eq_true_eq, List.all_eq_true] at h
  intro b hm
  have := h.2 b hm
  simp only [nameByteOk, Bool.and_eq_true, decide_eq_true_eq, Bool.not_eq_true', Bool.and_eq_false_imp,
    decide_eq_false_iff_not, bne_iff_ne, ne_eq] at this
  refine ⟨this.1.1, ?_, this.2⟩
  rintro ⟨h1, h2⟩
  exact this.1.2 h1 h2

end HabuVerif.Refl
