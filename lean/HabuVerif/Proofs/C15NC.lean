import HabuVerif.Proofs.C16Lines
import HabuVerif.Proofs.F64Dollars
import HabuVerif.Props.C15
/-!
# C15, North Carolina half — the D-400 return balances, in exact whole dollars

The D-400 lines are `FloatField(..., places=0)`: every stored value is `round(e, 0)`.  As for the
federal half (`Props/C15.lean`) the theorems are about the line programs REGENERATED from the working
tree: `nc_shapes_<year>` checks by `rfl` that lines 19, 23, 25, 26a, 27, 28, 33, 34 and `refund` of
class `nc_d-400` still have the syntactic shapes whose meaning is established here (an operand, a sign
or a comparison changed in the source breaks the `rfl`), and `Proofs/F64Dollars.lean` turns the F64
formulas into integer identities in dollars (amounts bounded by `10^13`).

The comparison in lines 26a and 28 is written differently in the 2021 source (`v['19'] > v['25']`,
`v['19'] <= v['25']`) and in 2022/2023 (`v['25'] < v['19']`, `v['25'] >= v['19']`); the structure
accepts either spelling, the meaning is the same.
-/
set_option autoImplicit false
set_option maxRecDepth 100000
set_option linter.unusedVariables false
set_option linter.unusedSimpArgs false

/-! ## shapes and what they compute -/

namespace HabuVerif.Dsl
open HabuVerif

variable (vs : String → Option Val) (is : String → InpRes Val) (fs : String → Bool)
variable (year : YearDecl) (c : ClassDecl) (inst : Option String) (d : LineDecl)

/-- `v[x] + v[y]`   (D-400 line 19) -/
def shapeAdd2 (x y : String) : List Stmt := [.ret (.bin .add (rd x) (rd y))]

theorem eval_add2 (x y : String) (p : Nat) (hb : d.body = shapeAdd2 x y) (hk : d.kind = .float p)
    (a b : F64)
    (hx : vs (qual' c.name inst x) = some (.float a)) (hy : vs (qual' c.name inst y) = some (.float b)) :
    run vs is fs (evalLine year c inst d) = .val (.float (F64.roundN (F64.add a b) p)) := by
  rw [run_evalLine, runP_body_ret _ _ _ _ _ _ hb, hk]
  simp only [runP_bin, runP_readV_lit, qual_eq, hx, hy, POut.bind_pure, applyBin_add_float, liftOut,
    POut.toOut, wrap_float]

/-- `v[x] - v[y]`   (D-400 line 25) -/
def shapeSub2 (x y : String) : List Stmt := [.ret (.bin .sub (rd x) (rd y))]

theorem eval_sub2 (x y : String) (p : Nat) (hb : d.body = shapeSub2 x y) (hk : d.kind = .float p)
    (a b : F64)
    (hx : vs (qual' c.name inst x) = some (.float a)) (hy : vs (qual' c.name inst y) = some (.float b)) :
    run vs is fs (evalLine year c inst d) = .val (.float (F64.roundN (F64.sub a b) p)) := by
  rw [run_evalLine, runP_body_ret _ _ _ _ _ _ hb, hk]
  simp only [runP_bin, runP_readV_lit, qual_eq, hx, hy, POut.bind_pure, applyBin_sub_float, liftOut,
    POut.toOut, wrap_float]

/-- `v[x1] + v[x2] + v[x3] + v[x4]`   (D-400 line 33) -/
def shapeAdd4 (x1 x2 x3 x4 : String) : List Stmt :=
  [.ret (.bin .add (.bin .add (.bin .add (rd x1) (rd x2)) (rd x3)) (rd x4))]

theorem eval_add4 (x1 x2 x3 x4 : String) (p : Nat) (hb : d.body = shapeAdd4 x1 x2 x3 x4)
    (hk : d.kind = .float p) (a1 a2 a3 a4 : F64)
    (h1 : vs (qual' c.name inst x1) = some (.float a1)) (h2 : vs (qual' c.name inst x2) = some (.float a2))
    (h3 : vs (qual' c.name inst x3) = some (.float a3)) (h4 : vs (qual' c.name inst x4) = some (.float a4)) :
    run vs is fs (evalLine year c inst d) =
      .val (.float (F64.roundN (F64.add (F64.add (F64.add a1 a2) a3) a4) p)) := by
  rw [run_evalLine, runP_body_ret _ _ _ _ _ _ hb, hk]
  simp only [runP_bin, runP_readV_lit, qual_eq, h1, h2, h3, h4, POut.bind_pure, applyBin_add_float,
    liftOut, POut.toOut, wrap_float]

/-- `v[x1] + v[x2] + … + v[x7]`   (D-400 line 23) -/
def shapeAdd7 (x1 x2 x3 x4 x5 x6 x7 : String) : List Stmt :=
  [.ret (.bin .add (.bin .add (.bin .add (.bin .add (.bin .add (.bin .add (rd x1) (rd x2)) (rd x3)) (rd x4))
    (rd x5)) (rd x6)) (rd x7))]

theorem eval_add7 (x1 x2 x3 x4 x5 x6 x7 : String) (p : Nat)
    (hb : d.body = shapeAdd7 x1 x2 x3 x4 x5 x6 x7) (hk : d.kind = .float p)
    (a1 a2 a3 a4 a5 a6 a7 : F64)
    (h1 : vs (qual' c.name inst x1) = some (.float a1)) (h2 : vs (qual' c.name inst x2) = some (.float a2))
    (h3 : vs (qual' c.name inst x3) = some (.float a3)) (h4 : vs (qual' c.name inst x4) = some (.float a4))
    (h5 : vs (qual' c.name inst x5) = some (.float a5)) (h6 : vs (qual' c.name inst x6) = some (.float a6))
    (h7 : vs (qual' c.name inst x7) = some (.float a7)) :
    run vs is fs (evalLine year c inst d) =
      .val (.float (F64.roundN
        (F64.add (F64.add (F64.add (F64.add (F64.add (F64.add a1 a2) a3) a4) a5) a6) a7) p)) := by
  rw [run_evalLine, runP_body_ret _ _ _ _ _ _ hb, hk]
  simp only [runP_bin, runP_readV_lit, qual_eq, h1, h2, h3, h4, h5, h6, h7, POut.bind_pure,
    applyBin_add_float, liftOut, POut.toOut, wrap_float]

/-- `self.not_implemented()` -/
theorem runP_notImpl0 (ctx : Ctx) (env : Env) :
    runP vs is fs (evalExpr ctx env (.notImpl [])) = (.notImpl : POut Val) := by
  simp only [evalExpr, evalArgs, runP_bind, runP_pure, POut.bind_pure, runP_notImpl]

/-- `v[a] - v[b] if v[l] <op> v[r] else self.not_implemented()`   (D-400 lines 26a, 28, 34) -/
def shapeSubIfCmpElseNI (a b l : String) (op : CmpOp) (r : String) : List Stmt :=
  [.ret (.ite (.cmp (rd l) [op] [rd r]) (.bin .sub (rd a) (rd b)) (.notImpl []))]

theorem eval_subIfCmpElseNI (a b l r : String) (op : CmpOp) (p : Nat)
    (hb : d.body = shapeSubIfCmpElseNI a b l op r) (hk : d.kind = .float p)
    (va vb vl vr : F64) (t : Bool) (hcmp : applyCmp op (.float vl) (.float vr) = .ok t)
    (ha : vs (qual' c.name inst a) = some (.float va)) (hb' : vs (qual' c.name inst b) = some (.float vb))
    (hl : vs (qual' c.name inst l) = some (.float vl)) (hr : vs (qual' c.name inst r) = some (.float vr)) :
    run vs is fs (evalLine year c inst d) =
      if t then .val (.float (F64.roundN (F64.sub va vb) p)) else .notImpl := by
  rw [run_evalLine, runP_body_ret _ _ _ _ _ _ hb, hk]
  simp only [runP_ite, runP_cmp1, runP_bin, runP_readV_lit, runP_notImpl0, qual_eq, ha, hb', hl, hr,
    POut.bind_pure, hcmp, applyBin_sub_float, liftOut, Val.truthy]
  cases t
  · simp [POut.toOut]
  · simp [POut.toOut, wrap_float]

theorem applyNeg_float (x : F64) : Val.neg (.float x) = .ok (.float (F64.neg x)) := rfl

theorem runP_neg (ctx : Ctx) (env : Env) (a : Expr) :
    runP vs is fs (evalExpr ctx env (.neg a)) =
      (runP vs is fs (evalExpr ctx env a)).bind fun x => liftOut (Val.neg x) := by
  simp only [evalExpr, runP_bind, runP_lift]

/-- `v[x] if v[l] <= v[r] else -v[z]`   (the D-400 pseudo-line `refund`); only the selected operand
is read -/
def shapeIfLeElseNeg (l r x z : String) : List Stmt :=
  [.ret (.ite (.cmp (rd l) [.le] [rd r]) (rd x) (.neg (rd z)))]

theorem eval_ifLeElseNeg (l r x z : String) (p : Nat)
    (hb : d.body = shapeIfLeElseNeg l r x z) (hk : d.kind = .float p)
    (vl vr vx vz : F64) (hln : vl.isNaN = false) (hrn : vr.isNaN = false)
    (hl : vs (qual' c.name inst l) = some (.float vl)) (hr : vs (qual' c.name inst r) = some (.float vr))
    (hx : F64.lt vr vl = false → vs (qual' c.name inst x) = some (.float vx))
    (hz : F64.lt vr vl = true → vs (qual' c.name inst z) = some (.float vz)) :
    run vs is fs (evalLine year c inst d) =
      .val (.float (if F64.lt vr vl then F64.roundN (F64.neg vz) p else F64.roundN vx p)) := by
  rw [run_evalLine, runP_body_ret _ _ _ _ _ _ hb, hk]
  simp only [runP_ite, runP_cmp1, runP_neg, runP_readV_lit, qual_eq, hl, hr, POut.bind_pure,
    applyCmp_le_float vl vr hln hrn, liftOut, Val.truthy]
  by_cases h : F64.lt vr vl = true
  · simp [h, hz h, applyNeg_float, liftOut, POut.toOut, wrap_float]
  · have h' : F64.lt vr vl = false := by simpa using h
    simp [h', hx h', POut.toOut, wrap_float]

/-- whatever a line of kind `float p` evaluates to is a double rounded to `p` places -/
theorem evalLine_val_rounded (p : Nat) (hk : d.kind = .float p) (v : Val)
    (h : run vs is fs (evalLine year c inst d) = .val v) : ∃ x, v = .float (F64.roundN x p) := by
  rw [run_evalLine, hk] at h
  cases hr : runP vs is fs (evalBody { year := year, form := c.name, inst := inst, thresholds := c.thresholds } d) with
  | pure w =>
    rw [hr] at h
    simp only [POut.toOut] at h
    cases hw : FieldKind.wrap (.float p) w with
    | inl u =>
      rw [hw] at h
      injection h with h
      subst h
      exact wrap_float_out p w u hw
    | inr e => rw [hw] at h; cases h
  | needV n => rw [hr] at h; cases h
  | needI n => rw [hr] at h; cases h
  | needSpec n => rw [hr] at h; cases h
  | notImpl => rw [hr] at h; cases h
  | invalid n => rw [hr] at h; cases h
  | noForm n => rw [hr] at h; cases h
  | err e => rw [hr] at h; cases h

end HabuVerif.Dsl

/-! ## the D-400 balance -/

namespace HabuVerif.C15
open HabuVerif HabuVerif.Dsl HabuVerif.F64 HabuVerif.Gen

/-- what the balance lines of a year's D-400 must look like (26a / 28: either spelling of the test) -/
structure NCShapes (y : YearDecl) (c : ClassDecl)
    (l19 l23 l25 l26a l27 l28 l33 l34 lrefund : LineDecl) : Prop where
  cname : c.name = "nc_d-400"
  s19 : l19.body = shapeAdd2 "17" "18" ∧ l19.kind = .float 0
  s23 : l23.body = shapeAdd7 "20a" "20b" "21a" "21b" "21c" "21d" "22" ∧ l23.kind = .float 0
  s25 : l25.body = shapeSub2 "23" "24" ∧ l25.kind = .float 0
  s26a : (l26a.body = shapeSubIfCmpElseNI "19" "25" "25" .lt "19" ∨
          l26a.body = shapeSubIfCmpElseNI "19" "25" "19" .gt "25") ∧ l26a.kind = .float 0
  s27 : l27.body = shapeAdd3 "26a" "26d" "26e" ∧ l27.kind = .float 0
  s28 : (l28.body = shapeSubIfCmpElseNI "25" "19" "25" .ge "19" ∨
         l28.body = shapeSubIfCmpElseNI "25" "19" "19" .le "25") ∧ l28.kind = .float 0
  s33 : l33.body = shapeAdd4 "29" "30" "31" "32" ∧ l33.kind = .float 0
  s34 : l34.body = shapeSubIfCmpElseNI "28" "33" "28" .ge "33" ∧ l34.kind = .float 0
  srefund : lrefund.body = shapeIfLeElseNeg "19" "25" "34" "27" ∧ lrefund.kind = .float 0
  sem19 : (mkCat y).sem "nc_d-400.19" = evalLine y c none l19
  sem23 : (mkCat y).sem "nc_d-400.23" = evalLine y c none l23
  sem25 : (mkCat y).sem "nc_d-400.25" = evalLine y c none l25
  sem26a : (mkCat y).sem "nc_d-400.26a" = evalLine y c none l26a
  sem27 : (mkCat y).sem "nc_d-400.27" = evalLine y c none l27
  sem28 : (mkCat y).sem "nc_d-400.28" = evalLine y c none l28
  sem33 : (mkCat y).sem "nc_d-400.33" = evalLine y c none l33
  sem34 : (mkCat y).sem "nc_d-400.34" = evalLine y c none l34
  semrefund : (mkCat y).sem "nc_d-400.refund" = evalLine y c none lrefund

section general
variable {y : YearDecl} {c : ClassDecl} {l19 l23 l25 l26a l27 l28 l33 l34 lrefund : LineDecl}
variable (vs : String → Option Val) (is : String → InpRes Val) (fs : String → Bool)

theorem qn17 : qual' "nc_d-400" none "17" = "nc_d-400.17" := by decide
theorem qn18 : qual' "nc_d-400" none "18" = "nc_d-400.18" := by decide
theorem qn19 : qual' "nc_d-400" none "19" = "nc_d-400.19" := by decide
theorem qn20a : qual' "nc_d-400" none "20a" = "nc_d-400.20a" := by decide
theorem qn20b : qual' "nc_d-400" none "20b" = "nc_d-400.20b" := by decide
theorem qn21a : qual' "nc_d-400" none "21a" = "nc_d-400.21a" := by decide
theorem qn21b : qual' "nc_d-400" none "21b" = "nc_d-400.21b" := by decide
theorem qn21c : qual' "nc_d-400" none "21c" = "nc_d-400.21c" := by decide
theorem qn21d : qual' "nc_d-400" none "21d" = "nc_d-400.21d" := by decide
theorem qn22 : qual' "nc_d-400" none "22" = "nc_d-400.22" := by decide
theorem qn23 : qual' "nc_d-400" none "23" = "nc_d-400.23" := by decide
theorem qn24 : qual' "nc_d-400" none "24" = "nc_d-400.24" := by decide
theorem qn25 : qual' "nc_d-400" none "25" = "nc_d-400.25" := by decide
theorem qn26a : qual' "nc_d-400" none "26a" = "nc_d-400.26a" := by decide
theorem qn26d : qual' "nc_d-400" none "26d" = "nc_d-400.26d" := by decide
theorem qn26e : qual' "nc_d-400" none "26e" = "nc_d-400.26e" := by decide
theorem qn27 : qual' "nc_d-400" none "27" = "nc_d-400.27" := by decide
theorem qn28 : qual' "nc_d-400" none "28" = "nc_d-400.28" := by decide
theorem qn29 : qual' "nc_d-400" none "29" = "nc_d-400.29" := by decide
theorem qn30 : qual' "nc_d-400" none "30" = "nc_d-400.30" := by decide
theorem qn31 : qual' "nc_d-400" none "31" = "nc_d-400.31" := by decide
theorem qn32 : qual' "nc_d-400" none "32" = "nc_d-400.32" := by decide
theorem qn33 : qual' "nc_d-400" none "33" = "nc_d-400.33" := by decide
theorem qn34 : qual' "nc_d-400" none "34" = "nc_d-400.34" := by decide

/-- the money range of the dollar theorems: `10^13` dollars -/
abbrev NCBound : Nat := 10000000000000

/-- **Line 19 (tax) is line 17 plus line 18**, in dollars. -/
theorem nc_tax_total (hS : NCShapes y c l19 l23 l25 l26a l27 l28 l33 l34 lrefund)
    (a b : F64) (da db : Int) (hDa : Dollar a da) (hDb : Dollar b db)
    (hda : da.natAbs ≤ NCBound) (hdb : db.natAbs ≤ NCBound)
    (h17 : vs "nc_d-400.17" = some (.float a)) (h18 : vs "nc_d-400.18" = some (.float b)) :
    ∃ t : F64, run vs is fs ((mkCat y).sem "nc_d-400.19") = .val (.float t) ∧ Dollar t (da + db) := by
  refine ⟨_, ?_, dollar_roundN_add hDa hDb hda hdb⟩
  rw [hS.sem19]
  exact eval_add2 vs is fs y c none l19 "17" "18" 0 hS.s19.1 hS.s19.2 a b
    (by rw [hS.cname, qn17]; exact h17) (by rw [hS.cname, qn18]; exact h18)

/-- **Line 23 (payments) is the sum of lines 20a, 20b, 21a–21d and 22; line 25 is line 23 minus line
24**, in dollars. -/
theorem nc_payments_total (hS : NCShapes y c l19 l23 l25 l26a l27 l28 l33 l34 lrefund)
    (a1 a2 a3 a4 a5 a6 a7 : F64) (d1 d2 d3 d4 d5 d6 d7 : Int)
    (hD1 : Dollar a1 d1) (hD2 : Dollar a2 d2) (hD3 : Dollar a3 d3) (hD4 : Dollar a4 d4)
    (hD5 : Dollar a5 d5) (hD6 : Dollar a6 d6) (hD7 : Dollar a7 d7)
    (hd1 : d1.natAbs ≤ NCBound) (hd2 : d2.natAbs ≤ NCBound) (hd3 : d3.natAbs ≤ NCBound)
    (hd4 : d4.natAbs ≤ NCBound) (hd5 : d5.natAbs ≤ NCBound) (hd6 : d6.natAbs ≤ NCBound)
    (hd7 : d7.natAbs ≤ NCBound)
    (h20a : vs "nc_d-400.20a" = some (.float a1)) (h20b : vs "nc_d-400.20b" = some (.float a2))
    (h21a : vs "nc_d-400.21a" = some (.float a3)) (h21b : vs "nc_d-400.21b" = some (.float a4))
    (h21c : vs "nc_d-400.21c" = some (.float a5)) (h21d : vs "nc_d-400.21d" = some (.float a6))
    (h22 : vs "nc_d-400.22" = some (.float a7)) :
    ∃ t : F64, run vs is fs ((mkCat y).sem "nc_d-400.23") = .val (.float t) ∧
      Dollar t (d1 + d2 + d3 + d4 + d5 + d6 + d7) := by
  have h := (dollar_roundN_sum8 (x0 := a1) (d0 := d1)
    [(a2, d2), (a3, d3), (a4, d4), (a5, d5), (a6, d6), (a7, d7)] (by simp) hD1 hd1 (by
      intro t ht
      simp only [List.mem_cons, List.not_mem_nil, or_false] at ht
      rcases ht with rfl | rfl | rfl | rfl | rfl | rfl
      exacts [⟨hD2, hd2⟩, ⟨hD3, hd3⟩, ⟨hD4, hd4⟩, ⟨hD5, hd5⟩, ⟨hD6, hd6⟩, ⟨hD7, hd7⟩])).1
  have e : d1 + ([(a2, d2), (a3, d3), (a4, d4), (a5, d5), (a6, d6), (a7, d7)].map Prod.snd).sum
      = d1 + d2 + d3 + d4 + d5 + d6 + d7 := by
    simp only [List.map, List.sum_cons, List.sum_nil]; omega
  rw [e] at h
  refine ⟨_, ?_, h⟩
  rw [hS.sem23]
  exact eval_add7 vs is fs y c none l23 "20a" "20b" "21a" "21b" "21c" "21d" "22" 0 hS.s23.1 hS.s23.2
    a1 a2 a3 a4 a5 a6 a7
    (by rw [hS.cname, qn20a]; exact h20a) (by rw [hS.cname, qn20b]; exact h20b)
    (by rw [hS.cname, qn21a]; exact h21a) (by rw [hS.cname, qn21b]; exact h21b)
    (by rw [hS.cname, qn21c]; exact h21c) (by rw [hS.cname, qn21d]; exact h21d)
    (by rw [hS.cname, qn22]; exact h22)

theorem nc_payments_net (hS : NCShapes y c l19 l23 l25 l26a l27 l28 l33 l34 lrefund)
    (a b : F64) (da db : Int) (hDa : Dollar a da) (hDb : Dollar b db)
    (hda : da.natAbs ≤ NCBound) (hdb : db.natAbs ≤ NCBound)
    (h23 : vs "nc_d-400.23" = some (.float a)) (h24 : vs "nc_d-400.24" = some (.float b)) :
    ∃ t : F64, run vs is fs ((mkCat y).sem "nc_d-400.25") = .val (.float t) ∧ Dollar t (da - db) := by
  refine ⟨_, ?_, dollar_roundN_sub hDa hDb hda hdb⟩
  rw [hS.sem25]
  exact eval_sub2 vs is fs y c none l25 "23" "24" 0 hS.s25.1 hS.s25.2 a b
    (by rw [hS.cname, qn23]; exact h23) (by rw [hS.cname, qn24]; exact h24)

/-- the two spellings of line 26a's test mean the same: `v['25'] < v['19']` -/
theorem eval_nc26a (hS : NCShapes y c l19 l23 l25 l26a l27 l28 l33 l34 lrefund)
    (t p : F64) (htn : t.isNaN = false) (hpn : p.isNaN = false)
    (h19 : vs "nc_d-400.19" = some (.float t)) (h25 : vs "nc_d-400.25" = some (.float p)) :
    run vs is fs ((mkCat y).sem "nc_d-400.26a") =
      if F64.lt p t then .val (.float (F64.roundN (F64.sub t p) 0)) else .notImpl := by
  have e19 : vs (qual' c.name none "19") = some (.float t) := by rw [hS.cname, qn19]; exact h19
  have e25 : vs (qual' c.name none "25") = some (.float p) := by rw [hS.cname, qn25]; exact h25
  rw [hS.sem26a]
  rcases hS.s26a.1 with hb | hb
  · exact eval_subIfCmpElseNI vs is fs y c none l26a "19" "25" "25" "19" .lt 0 hb hS.s26a.2 t p p t _
      (applyCmp_lt_float p t hpn htn) e19 e25 e25 e19
  · exact eval_subIfCmpElseNI vs is fs y c none l26a "19" "25" "19" "25" .gt 0 hb hS.s26a.2 t p t p _
      (applyCmp_gt_float t p htn hpn) e19 e25 e19 e25

/-- the two spellings of line 28's test mean the same: `not (v['25'] < v['19'])` -/
theorem eval_nc28 (hS : NCShapes y c l19 l23 l25 l26a l27 l28 l33 l34 lrefund)
    (t p : F64) (htn : t.isNaN = false) (hpn : p.isNaN = false)
    (h19 : vs "nc_d-400.19" = some (.float t)) (h25 : vs "nc_d-400.25" = some (.float p)) :
    run vs is fs ((mkCat y).sem "nc_d-400.28") =
      if F64.lt p t then .notImpl else .val (.float (F64.roundN (F64.sub p t) 0)) := by
  have e19 : vs (qual' c.name none "19") = some (.float t) := by rw [hS.cname, qn19]; exact h19
  have e25 : vs (qual' c.name none "25") = some (.float p) := by rw [hS.cname, qn25]; exact h25
  rw [hS.sem28]
  have key : ∀ o : Out String String String Val,
      o = (if (!F64.lt p t) = true then .val (.float (F64.roundN (F64.sub p t) 0)) else .notImpl) →
      o = (if F64.lt p t then .notImpl else .val (.float (F64.roundN (F64.sub p t) 0))) := by
    intro o ho; rw [ho]; cases F64.lt p t <;> rfl
  apply key
  rcases hS.s28.1 with hb | hb
  · exact eval_subIfCmpElseNI vs is fs y c none l28 "25" "19" "25" "19" .ge 0 hb hS.s28.2 p t p t _
      (applyCmp_ge_float p t hpn htn) e25 e19 e25 e19
  · exact eval_subIfCmpElseNI vs is fs y c none l28 "25" "19" "19" "25" .le 0 hb hS.s28.2 p t t p _
      (applyCmp_le_float t p htn hpn) e25 e19 e19 e25

/-- **Tax due or overpayment, exactly one of them.**  For ANY stores in which line 19 (tax) and line
25 (payments) hold dollar amounts in range:
* if payments < tax, line 26a evaluates to the dollar amount `tax − payments` (positive) and line 28
  is `not_implemented` (produces nothing);
* otherwise line 28 evaluates to the dollar amount `payments − tax` (non-negative) and line 26a is
  `not_implemented`. -/
theorem nc_overpayment_or_due (hS : NCShapes y c l19 l23 l25 l26a l27 l28 l33 l34 lrefund)
    (t p : F64) (d19 d25 : Int) (hD19 : Dollar t d19) (hD25 : Dollar p d25)
    (hd19 : d19.natAbs ≤ NCBound) (hd25 : d25.natAbs ≤ NCBound)
    (h19 : vs "nc_d-400.19" = some (.float t)) (h25 : vs "nc_d-400.25" = some (.float p)) :
    (d25 < d19 ∧
      (∃ due : F64, run vs is fs ((mkCat y).sem "nc_d-400.26a") = .val (.float due) ∧
        Dollar due (d19 - d25)) ∧
      run vs is fs ((mkCat y).sem "nc_d-400.28") = .notImpl) ∨
    (d19 ≤ d25 ∧
      (∃ over : F64, run vs is fs ((mkCat y).sem "nc_d-400.28") = .val (.float over) ∧
        Dollar over (d25 - d19)) ∧
      run vs is fs ((mkCat y).sem "nc_d-400.26a") = .notImpl) := by
  have e26 := eval_nc26a vs is fs hS t p hD19.isNaN hD25.isNaN h19 h25
  have e28 := eval_nc28 vs is fs hS t p hD19.isNaN hD25.isNaN h19 h25
  have hlt := dollar_lt hD25 hD19
  by_cases h : F64.lt p t = true
  · left
    rw [h] at e26 e28
    exact ⟨hlt.1 h, ⟨_, e26, dollar_roundN_sub hD19 hD25 hd19 hd25⟩, e28⟩
  · right
    have h' : F64.lt p t = false := by simpa using h
    rw [h'] at e26 e28
    exact ⟨by have := mt hlt.2 h; omega, ⟨_, e28, dollar_roundN_sub hD25 hD19 hd25 hd19⟩, e26⟩

/-- what a line produces: a dollar value, or nothing (`self.not_implemented()`) -/
def producedOut : Option F64 → Out String String String Val
  | some x => .val (.float x)
  | none => .notImpl

/-- the amount on a line, an absent line counting as 0 -/
def AmountIs : Option F64 → Int → Prop
  | some x, d => Dollar x d
  | none, d => d = 0

/-- **The D-400 balances**: exactly one of lines 26a (tax due) and 28 (overpayment) is produced, both
amounts are non-negative, and overpayment − tax due = payments − tax, the absent line counting as 0. -/
theorem nc_balance (hS : NCShapes y c l19 l23 l25 l26a l27 l28 l33 l34 lrefund)
    (t p : F64) (d19 d25 : Int) (hD19 : Dollar t d19) (hD25 : Dollar p d25)
    (hd19 : d19.natAbs ≤ NCBound) (hd25 : d25.natAbs ≤ NCBound)
    (h19 : vs "nc_d-400.19" = some (.float t)) (h25 : vs "nc_d-400.25" = some (.float p)) :
    ∃ (due over : Option F64) (cdue cover : Int),
      run vs is fs ((mkCat y).sem "nc_d-400.26a") = producedOut due ∧
      run vs is fs ((mkCat y).sem "nc_d-400.28") = producedOut over ∧
      AmountIs due cdue ∧ AmountIs over cover ∧
      (due.isSome = true ↔ d25 < d19) ∧ (over.isSome = true ↔ d19 ≤ d25) ∧
      due.isSome ≠ over.isSome ∧ 0 ≤ cdue ∧ 0 ≤ cover ∧ cover - cdue = d25 - d19 := by
  rcases nc_overpayment_or_due vs is fs hS t p d19 d25 hD19 hD25 hd19 hd25 h19 h25 with
    ⟨hlt, ⟨due, e26, hdue⟩, e28⟩ | ⟨hle, ⟨over, e28, hover⟩, e26⟩
  · refine ⟨some due, none, d19 - d25, 0, e26, e28, hdue, rfl, ?_, ?_, by simp, by omega, by omega, by omega⟩
    · simp [hlt]
    · simp; omega
  · refine ⟨none, some over, 0, d25 - d19, e26, e28, rfl, hover, ?_, ?_, by simp, by omega, by omega, by omega⟩
    · simp; omega
    · simp [hle]

/-- **Line 34 (amount to be refunded) is the overpayment minus the amounts applied / contributed
(line 33), produced iff that is non-negative.** -/
theorem nc_amount_refunded (hS : NCShapes y c l19 l23 l25 l26a l27 l28 l33 l34 lrefund)
    (a b : F64) (d28 d33 : Int) (hDa : Dollar a d28) (hDb : Dollar b d33)
    (hda : d28.natAbs ≤ NCBound) (hdb : d33.natAbs ≤ NCBound)
    (h28 : vs "nc_d-400.28" = some (.float a)) (h33 : vs "nc_d-400.33" = some (.float b)) :
    (d33 ≤ d28 ∧ ∃ r : F64, run vs is fs ((mkCat y).sem "nc_d-400.34") = .val (.float r) ∧
        Dollar r (d28 - d33)) ∨
    (d28 < d33 ∧ run vs is fs ((mkCat y).sem "nc_d-400.34") = .notImpl) := by
  have e28 : vs (qual' c.name none "28") = some (.float a) := by rw [hS.cname, qn28]; exact h28
  have e33 : vs (qual' c.name none "33") = some (.float b) := by rw [hS.cname, qn33]; exact h33
  have e := eval_subIfCmpElseNI vs is fs y c none l34 "28" "33" "28" "33" .ge 0 hS.s34.1 hS.s34.2 a b a b _
    (applyCmp_ge_float a b hDa.isNaN hDb.isNaN) e28 e33 e28 e33
  rw [← hS.sem34] at e
  have hlt := dollar_lt hDa hDb
  by_cases h : F64.lt a b = true
  · right
    rw [h] at e
    exact ⟨hlt.1 h, e⟩
  · left
    have h' : F64.lt a b = false := by simpa using h
    rw [h'] at e
    exact ⟨by have := mt hlt.2 h; omega, _, e, dollar_roundN_sub hDa hDb hda hdb⟩

/-- **Line 33 is the sum of lines 29–32; line 27 is the sum of lines 26a, 26d, 26e**, in dollars. -/
theorem nc_applied_total (hS : NCShapes y c l19 l23 l25 l26a l27 l28 l33 l34 lrefund)
    (a1 a2 a3 a4 : F64) (d1 d2 d3 d4 : Int)
    (hD1 : Dollar a1 d1) (hD2 : Dollar a2 d2) (hD3 : Dollar a3 d3) (hD4 : Dollar a4 d4)
    (hd1 : d1.natAbs ≤ NCBound) (hd2 : d2.natAbs ≤ NCBound) (hd3 : d3.natAbs ≤ NCBound)
    (hd4 : d4.natAbs ≤ NCBound)
    (h29 : vs "nc_d-400.29" = some (.float a1)) (h30 : vs "nc_d-400.30" = some (.float a2))
    (h31 : vs "nc_d-400.31" = some (.float a3)) (h32 : vs "nc_d-400.32" = some (.float a4)) :
    ∃ t : F64, run vs is fs ((mkCat y).sem "nc_d-400.33") = .val (.float t) ∧
      Dollar t (d1 + d2 + d3 + d4) := by
  have h := (dollar_roundN_sum8 (x0 := a1) (d0 := d1) [(a2, d2), (a3, d3), (a4, d4)] (by simp) hD1 hd1 (by
      intro t ht
      simp only [List.mem_cons, List.not_mem_nil, or_false] at ht
      rcases ht with rfl | rfl | rfl
      exacts [⟨hD2, hd2⟩, ⟨hD3, hd3⟩, ⟨hD4, hd4⟩])).1
  have e : d1 + ([(a2, d2), (a3, d3), (a4, d4)].map Prod.snd).sum = d1 + d2 + d3 + d4 := by
    simp only [List.map, List.sum_cons, List.sum_nil]; omega
  rw [e] at h
  refine ⟨_, ?_, h⟩
  rw [hS.sem33]
  exact eval_add4 vs is fs y c none l33 "29" "30" "31" "32" 0 hS.s33.1 hS.s33.2 a1 a2 a3 a4
    (by rw [hS.cname, qn29]; exact h29) (by rw [hS.cname, qn30]; exact h30)
    (by rw [hS.cname, qn31]; exact h31) (by rw [hS.cname, qn32]; exact h32)

theorem nc_amount_due_total (hS : NCShapes y c l19 l23 l25 l26a l27 l28 l33 l34 lrefund)
    (a1 a2 a3 : F64) (d1 d2 d3 : Int)
    (hD1 : Dollar a1 d1) (hD2 : Dollar a2 d2) (hD3 : Dollar a3 d3)
    (hd1 : d1.natAbs ≤ NCBound) (hd2 : d2.natAbs ≤ NCBound) (hd3 : d3.natAbs ≤ NCBound)
    (h26a : vs "nc_d-400.26a" = some (.float a1)) (h26d : vs "nc_d-400.26d" = some (.float a2))
    (h26e : vs "nc_d-400.26e" = some (.float a3)) :
    ∃ t : F64, run vs is fs ((mkCat y).sem "nc_d-400.27") = .val (.float t) ∧
      Dollar t (d1 + d2 + d3) := by
  have h := (dollar_roundN_sum8 (x0 := a1) (d0 := d1) [(a2, d2), (a3, d3)] (by simp) hD1 hd1 (by
      intro t ht
      simp only [List.mem_cons, List.not_mem_nil, or_false] at ht
      rcases ht with rfl | rfl
      exacts [⟨hD2, hd2⟩, ⟨hD3, hd3⟩])).1
  have e : d1 + ([(a2, d2), (a3, d3)].map Prod.snd).sum = d1 + d2 + d3 := by
    simp only [List.map, List.sum_cons, List.sum_nil]; omega
  rw [e] at h
  refine ⟨_, ?_, h⟩
  rw [hS.sem27]
  exact eval_add3 vs is fs y c none l27 "26a" "26d" "26e" 0 hS.s27.1 hS.s27.2 a1 a2 a3
    (by rw [hS.cname, qn26a]; exact h26a) (by rw [hS.cname, qn26d]; exact h26d)
    (by rw [hS.cname, qn26e]; exact h26e)

/-- **The pseudo-line `refund`** (what the PDF filler uses to decide which half of the page to fill):
line 34 when tax ≤ payments, minus line 27 (amount due, as a negative number) otherwise; only the
selected line is read. -/
theorem nc_refund_line (hS : NCShapes y c l19 l23 l25 l26a l27 l28 l33 l34 lrefund)
    (t p x z : F64) (d19 d25 d34 d27 : Int) (hD19 : Dollar t d19) (hD25 : Dollar p d25)
    (h19 : vs "nc_d-400.19" = some (.float t)) (h25 : vs "nc_d-400.25" = some (.float p))
    (h34 : d19 ≤ d25 → vs "nc_d-400.34" = some (.float x) ∧ Dollar x d34)
    (h27 : d25 < d19 → vs "nc_d-400.27" = some (.float z) ∧ Dollar z d27) :
    ∃ r : F64, run vs is fs ((mkCat y).sem "nc_d-400.refund") = .val (.float r) ∧
      Dollar r (if d19 ≤ d25 then d34 else -d27) := by
  have hlt := dollar_lt hD25 hD19
  have e := eval_ifLeElseNeg vs is fs y c none lrefund "19" "25" "34" "27" 0 hS.srefund.1 hS.srefund.2
    t p x z hD19.isNaN hD25.isNaN (by rw [hS.cname, qn19]; exact h19) (by rw [hS.cname, qn25]; exact h25)
    (by
      intro hf
      rw [hS.cname, qn34]
      exact (h34 (by have := (dollar_lt_false hD25 hD19).1 hf; omega)).1)
    (by
      intro ht
      rw [hS.cname, qn27]
      exact (h27 (hlt.1 ht)).1)
  rw [← hS.semrefund] at e
  refine ⟨_, e, ?_⟩
  by_cases h : F64.lt p t = true
  · have hd : d25 < d19 := hlt.1 h
    rw [if_pos h, if_neg (by omega)]
    exact dollar_roundN_neg (h27 hd).2
  · have hd : d19 ≤ d25 := by have := mt hlt.2 h; omega
    rw [if_neg h, if_pos hd]
    have := (h34 hd).2
    rwa [this.roundN0]

end general

/-! ## in every state the solver returns -/

/-- **In every state the solver returns** (any schedule, prompt, inputs; solved or not) for a year
whose D-400 programs have the checked shapes: if lines 19 (tax) and 25 (payments) are stored and hold
dollar amounts in range, then
* a stored line 26a (tax due) means payments < tax, and the stored value is the dollar amount
  `tax − payments`, positive;
* a stored line 28 (overpayment) means tax ≤ payments, and the stored value is the dollar amount
  `payments − tax`, non-negative;
* the two are never both stored. -/
theorem solved_nc_return_balances {y : YearDecl} {c : ClassDecl}
    {l19 l23 l25 l26a l27 l28 l33 l34 lrefund : LineDecl}
    (hS : NCShapes y c l19 l23 l25 l26a l27 l28 l33 l34 lrefund) {σ : Sched String String}
    (hσ : SchedOK σ) {P : Option (Nat → String → List String → Option String)}
    {inp : List (String × String)} {forms : List String} {extra : List String} {fuel qfuel : Nat}
    {s : St String String String Val String}
    (h : solve (mkCat y) σ P inp forms extra fuel qfuel = .ok (some s))
    (t p : F64) (d19 d25 : Int) (hD19 : Dollar t d19) (hD25 : Dollar p d25)
    (hd19 : d19.natAbs ≤ NCBound) (hd25 : d25.natAbs ≤ NCBound)
    (h19 : s.vf "nc_d-400.19" = some (.float t)) (h25 : s.vf "nc_d-400.25" = some (.float p)) :
    (∀ v, s.vf "nc_d-400.26a" = some v →
      d25 < d19 ∧ ∃ due : F64, v = .float due ∧ Dollar due (d19 - d25) ∧ 0 < d19 - d25) ∧
    (∀ v, s.vf "nc_d-400.28" = some v →
      d19 ≤ d25 ∧ ∃ over : F64, v = .float over ∧ Dollar over (d25 - d19) ∧ 0 ≤ d25 - d19) ∧
    ¬ ((s.vf "nc_d-400.26a").isSome = true ∧ (s.vf "nc_d-400.28").isSome = true) := by
  have hC : CatWF (mkCat y) := Dsl.mkCat_wf y
  have key := nc_overpayment_or_due s.vf (s.inf (mkCat y)) s.ff hS t p d19 d25 hD19 hD25 hd19 hd25 h19 h25
  have h26 : ∀ v, s.vf "nc_d-400.26a" = some v →
      d25 < d19 ∧ ∃ due : F64, v = .float due ∧ Dollar due (d19 - d25) ∧ 0 < d19 - d25 := by
    intro v hv
    have f := C03.solution_fixed_point hC hσ h "nc_d-400.26a" v hv
    rcases key with ⟨hlt, ⟨due, e26, hdue⟩, _⟩ | ⟨_, _, e26⟩
    · rw [e26] at f
      injection f with f
      exact ⟨hlt, due, f.symm, hdue, by omega⟩
    · rw [e26] at f; cases f
  have h28 : ∀ v, s.vf "nc_d-400.28" = some v →
      d19 ≤ d25 ∧ ∃ over : F64, v = .float over ∧ Dollar over (d25 - d19) ∧ 0 ≤ d25 - d19 := by
    intro v hv
    have f := C03.solution_fixed_point hC hσ h "nc_d-400.28" v hv
    rcases key with ⟨_, _, e28⟩ | ⟨hle, ⟨over, e28, hover⟩, _⟩
    · rw [e28] at f; cases f
    · rw [e28] at f
      injection f with f
      exact ⟨hle, over, f.symm, hover, by omega⟩
  refine ⟨h26, h28, ?_⟩
  rintro ⟨ha, hb⟩
  obtain ⟨v1, hv1⟩ := Option.isSome_iff_exists.1 ha
  obtain ⟨v2, hv2⟩ := Option.isSome_iff_exists.1 hb
  have := (h26 v1 hv1).1
  have := (h28 v2 hv2).1
  omega

/-- the `Dollar` hypotheses above are dischargeable: in every state the solver returns, a stored line
19 / 25 is `round(x, 0)` of some double, hence dollar-valued as soon as it is finite and below `2^52` -/
theorem solved_nc_stored_dollar {y : YearDecl} {c : ClassDecl}
    {l19 l23 l25 l26a l27 l28 l33 l34 lrefund : LineDecl}
    (hS : NCShapes y c l19 l23 l25 l26a l27 l28 l33 l34 lrefund) {σ : Sched String String}
    (hσ : SchedOK σ) {P : Option (Nat → String → List String → Option String)}
    {inp : List (String × String)} {forms : List String} {extra : List String} {fuel qfuel : Nat}
    {s : St String String String Val String}
    (h : solve (mkCat y) σ P inp forms extra fuel qfuel = .ok (some s))
    (n : String) (hn : n = "nc_d-400.19" ∨ n = "nc_d-400.25") (v : Val) (hv : s.vf n = some v) :
    ∃ t : F64, v = .float t ∧
      (t.isFinite = true → (sval t).natAbs < 2 ^ 52 * F64.one → ∃ d : Int, Dollar t d ∧ d.natAbs < 2 ^ 52) := by
  have hC : CatWF (mkCat y) := Dsl.mkCat_wf y
  have f := C03.solution_fixed_point hC hσ h n v hv
  have : ∃ x, v = .float (F64.roundN x 0) := by
    rcases hn with rfl | rfl
    · rw [hS.sem19] at f
      exact evalLine_val_rounded _ _ _ y c none l19 0 hS.s19.2 v f
    · rw [hS.sem25] at f
      exact evalLine_val_rounded _ _ _ y c none l25 0 hS.s25.2 v f
  obtain ⟨x, rfl⟩ := this
  exact ⟨_, rfl, fun hf hb => dollar_of_roundN0 hf hb⟩

end HabuVerif.C15

/-! ## the regenerated programs of each year have these shapes (checked by the kernel on every run) -/

namespace HabuVerif.C15
open HabuVerif HabuVerif.Dsl HabuVerif.F64 HabuVerif.Gen

/-- 2021 spells the tests of lines 26a / 28 as `v['19'] > v['25']` / `v['19'] <= v['25']` -/
theorem nc_shapes_2021 : NCShapes year2021 Y2021.c_nc_d_400
    (lineOf Y2021.c_nc_d_400 "19") (lineOf Y2021.c_nc_d_400 "23") (lineOf Y2021.c_nc_d_400 "25")
    (lineOf Y2021.c_nc_d_400 "26a") (lineOf Y2021.c_nc_d_400 "27") (lineOf Y2021.c_nc_d_400 "28")
    (lineOf Y2021.c_nc_d_400 "33") (lineOf Y2021.c_nc_d_400 "34") (lineOf Y2021.c_nc_d_400 "refund") :=
  ⟨rfl, ⟨rfl, rfl⟩, ⟨rfl, rfl⟩, ⟨rfl, rfl⟩, ⟨.inr rfl, rfl⟩, ⟨rfl, rfl⟩, ⟨.inr rfl, rfl⟩, ⟨rfl, rfl⟩, ⟨rfl, rfl⟩,
    ⟨rfl, rfl⟩, rfl, rfl, rfl, rfl, rfl, rfl, rfl, rfl, rfl⟩

/-- 2022 and 2023 spell them as `v['25'] < v['19']` / `v['25'] >= v['19']` -/
theorem nc_shapes_2022 : NCShapes year2022 Y2022.c_nc_d_400
    (lineOf Y2022.c_nc_d_400 "19") (lineOf Y2022.c_nc_d_400 "23") (lineOf Y2022.c_nc_d_400 "25")
    (lineOf Y2022.c_nc_d_400 "26a") (lineOf Y2022.c_nc_d_400 "27") (lineOf Y2022.c_nc_d_400 "28")
    (lineOf Y2022.c_nc_d_400 "33") (lineOf Y2022.c_nc_d_400 "34") (lineOf Y2022.c_nc_d_400 "refund") :=
  ⟨rfl, ⟨rfl, rfl⟩, ⟨rfl, rfl⟩, ⟨rfl, rfl⟩, ⟨.inl rfl, rfl⟩, ⟨rfl, rfl⟩, ⟨.inl rfl, rfl⟩, ⟨rfl, rfl⟩, ⟨rfl, rfl⟩,
    ⟨rfl, rfl⟩, rfl, rfl, rfl, rfl, rfl, rfl, rfl, rfl, rfl⟩

theorem nc_shapes_2023 : NCShapes year2023 Y2023.c_nc_d_400
    (lineOf Y2023.c_nc_d_400 "19") (lineOf Y2023.c_nc_d_400 "23") (lineOf Y2023.c_nc_d_400 "25")
    (lineOf Y2023.c_nc_d_400 "26a") (lineOf Y2023.c_nc_d_400 "27") (lineOf Y2023.c_nc_d_400 "28")
    (lineOf Y2023.c_nc_d_400 "33") (lineOf Y2023.c_nc_d_400 "34") (lineOf Y2023.c_nc_d_400 "refund") :=
  ⟨rfl, ⟨rfl, rfl⟩, ⟨rfl, rfl⟩, ⟨rfl, rfl⟩, ⟨.inl rfl, rfl⟩, ⟨rfl, rfl⟩, ⟨.inl rfl, rfl⟩, ⟨rfl, rfl⟩, ⟨rfl, rfl⟩,
    ⟨rfl, rfl⟩, rfl, rfl, rfl, rfl, rfl, rfl, rfl, rfl, rfl⟩

end HabuVerif.C15

/-! ## non-vacuity: a concrete store (tax 500, payments 1200) satisfies the hypotheses -/

namespace HabuVerif.C15
open HabuVerif HabuVerif.Dsl HabuVerif.F64 HabuVerif.Gen

/-- example store: line 19 = 500.0, line 25 = 1200.0 -/
def ncExampleStore : String → Option Val := fun n =>
  if n = "nc_d-400.19" then some (.float (ofIntD 500))
  else if n = "nc_d-400.25" then some (.float (ofIntD 1200)) else none

example (is : String → InpRes Val) (fs : String → Bool) :
    ∃ over : F64, run ncExampleStore is fs ((mkCat year2023).sem "nc_d-400.28") = .val (.float over) ∧
      Dollar over 700 ∧ run ncExampleStore is fs ((mkCat year2023).sem "nc_d-400.26a") = .notImpl := by
  have := nc_overpayment_or_due ncExampleStore is fs nc_shapes_2023 (ofIntD 500) (ofIntD 1200) 500 1200
    (Dollar_ofIntD (by decide)) (Dollar_ofIntD (by decide)) (by decide) (by decide)
    (by simp [ncExampleStore]) (by simp [ncExampleStore])
  rcases this with ⟨h, _⟩ | ⟨_, ⟨over, e, hd⟩, e'⟩
  · omega
  · exact ⟨over, e, hd, e'⟩

end HabuVerif.C15

#print axioms HabuVerif.C15.nc_shapes_2021
#print axioms HabuVerif.C15.nc_shapes_2022
#print axioms HabuVerif.C15.nc_shapes_2023
#print axioms HabuVerif.C15.nc_tax_total
#print axioms HabuVerif.C15.nc_payments_total
#print axioms HabuVerif.C15.nc_payments_net
#print axioms HabuVerif.C15.nc_overpayment_or_due
#print axioms HabuVerif.C15.nc_balance
#print axioms HabuVerif.C15.nc_amount_refunded
#print axioms HabuVerif.C15.nc_applied_total
#print axioms HabuVerif.C15.nc_amount_due_total
#print axioms HabuVerif.C15.nc_refund_line
#print axioms HabuVerif.C15.solved_nc_return_balances
#print axioms HabuVerif.C15.solved_nc_stored_dollar
