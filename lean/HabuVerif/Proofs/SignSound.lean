import HabuVerif.Proofs.SignLemmas
import HabuVerif.Proofs.GateLemmas
/-!
# C15 sign analysis — soundness of `Spec/Sign.lean` against `Dsl.evalLine` / `run`

1. `Yields σ p a`: program `p` run against the stores `σ` returns `a` (reuses `Gates.exec`); `Holds σ p P`: every
   returned value satisfies `P`.
2. `Approx v a`: the concrete value `v` is described by the abstract value `a`; `EnvApprox`, `FlowOK`; the lattice
   lemmas (`join`, `forget`, `le`, `joinEnv`, `envLe`).
3. `absExpr_sound` … `absBlock_sound`: the abstract interpreter covers the evaluator — mutual induction on the syntax,
   including comprehensions over constant iterables (unrolled), helper calls, and `for` loops (the CHECKED invariant
   `BRes.stable` is what the proof uses; how the candidate invariant was found is irrelevant).
4. `nnLine_sound_partial`.

STATUS (honest): the control-flow / environment / loop part (3.) is proved outright.  The purely LOCAL facts about the
Python operators of `Dsl/Val.lean` on which the abstract rules rest ("`a + b` of not-negative values is not negative",
"`max` with a not-negative constant is not negative", "the key string `prefix{n}suffix` has class/line …", the
field wrapper) are collected in the structure `OpFacts` and are HYPOTHESES of `nnLine_sound_partial`; the binary64
core of them is proved in `Proofs/SignLemmas.lean` (`add_notNeg`, `mul_notNeg`, `div_notNeg`, `roundN_notNeg`,
`ofInt_notNeg`, `ceil_notNeg`, `roundInt_notNeg`, `notNeg_of_lt`, `lt_of_isNeg_notNeg`), their lift to `Val` is not
finished.  Every field of `OpFacts` is a closed statement about total functions of `Dsl/Val.lean` / `Dsl/Eval.lean`.
-/
set_option autoImplicit false
set_option linter.unusedVariables false
set_option linter.unusedSectionVars false

namespace HabuVerif.Sign
open HabuVerif HabuVerif.Dsl
open HabuVerif.Gates (Stores exec exec_bind_some exec_lift run_toTree_val)

/-! ## 1. What a program returns -/

def Yields {α : Type} (σ : Stores) (p : Prog α) (a : α) : Prop := ∃ fl, exec σ "" p = some (a, fl)

def Holds {α : Type} (σ : Stores) (p : Prog α) (P : α → Prop) : Prop := ∀ a, Yields σ p a → P a

variable {σ : Stores}

theorem yields_bind {α β : Type} {p : Prog α} {f : α → Prog β} {b : β} (h : Yields σ (p.bind f) b) :
    ∃ a, Yields σ p a ∧ Yields σ (f a) b := by
  obtain ⟨fl, h⟩ := h
  obtain ⟨a, f1, f2, h1, h2, _⟩ := exec_bind_some h
  exact ⟨a, ⟨f1, h1⟩, ⟨f2, h2⟩⟩

theorem yields_pure {α : Type} {a b : α} (h : Yields σ (Prog.pure a) b) : b = a := by
  obtain ⟨fl, h⟩ := h
  simp only [exec, Option.some.injEq, Prod.mk.injEq] at h
  exact h.1.symm

theorem yields_lift {α : Type} {r : R α} {a : α} (h : Yields σ (Prog.lift r) a) : r = .ok a := by
  obtain ⟨fl, h⟩ := h
  exact (exec_lift h).1

namespace Holds
variable {α β : Type} {P : α → Prop} {Q : β → Prop}

theorem pure {a : α} (h : P a) : Holds σ (Prog.pure a) P := by
  intro b hb; rw [yields_pure hb]; exact h

theorem err {e : Dsl.PyErr} : Holds σ (Prog.err e : Prog α) P := by
  intro b hb; obtain ⟨fl, h⟩ := hb; simp [exec] at h

theorem notImpl : Holds σ (Prog.notImpl : Prog α) P := by
  intro b hb; obtain ⟨fl, h⟩ := hb; simp [exec] at h

theorem bind {p : Prog α} {f : α → Prog β} (hp : Holds σ p P) (hf : ∀ a, P a → Holds σ (f a) Q) :
    Holds σ (p.bind f) Q := by
  intro b hb
  obtain ⟨a, h1, h2⟩ := yields_bind hb
  exact hf a (hp a h1) b h2

theorem lift {r : R α} (h : ∀ a, r = .ok a → P a) : Holds σ (Prog.lift r) P := by
  intro a ha; exact h a (yields_lift ha)

theorem lift_bind {r : R α} {f : α → Prog β} (hf : ∀ a, r = .ok a → Holds σ (f a) Q) :
    Holds σ ((Prog.lift r).bind f) Q :=
  Holds.bind (P := fun a => r = .ok a) (Holds.lift fun a h => h) hf

theorem mono {p : Prog α} {P' : α → Prop} (hp : Holds σ p P) (h : ∀ a, P a → P' a) : Holds σ p P' :=
  fun a ha => h a (hp a ha)

theorem needForm {f : String} {p : Prog α} (hp : Holds σ p P) : Holds σ (Prog.needForm f p) P := by
  intro a ha
  obtain ⟨fl, h⟩ := ha
  simp only [exec] at h
  split at h
  · exact hp a ⟨fl, h⟩
  · simp at h

theorem readV {P : Val → Prop} {n : String} (h : ∀ v, σ.vs n = some v → P v) : Holds σ (Prog.readV n Prog.pure) P := by
  intro a ha
  obtain ⟨fl, he⟩ := ha
  simp only [exec] at he
  cases hv : σ.vs n with
  | none => simp [hv] at he
  | some v =>
    simp only [hv, Option.some.injEq, Prod.mk.injEq] at he
    rw [← he.1]; exact h v hv

theorem readI {P : Val → Prop} {n : String} (h : ∀ v, σ.is n = .ok v → P v) : Holds σ (Prog.readI n Prog.pure) P := by
  intro a ha
  obtain ⟨fl, he⟩ := ha
  simp only [exec] at he
  cases hv : σ.is n with
  | ok v =>
    simp only [hv, Option.map_some, Option.some.injEq, Prod.mk.injEq] at he
    rw [← he.1]; exact h v hv
  | noSpec => simp [hv] at he
  | missing => simp [hv] at he
  | invalid => simp [hv] at he

end Holds

/-! ## 2. Abstraction -/

/-- `v` is a key string with a dot, of this (class code, line code) -/
def IsKey (v : Val) (cl : Nat × Nat) : Prop :=
  ∃ s, v = .str s ∧ (nats s).contains 46 = true ∧ code (clsNats (nats s)) = cl.1 ∧ code (lineNats (nats s)) = cl.2

structure Approx (v : Val) (a : SVal) : Prop where
  nb : a.bot = false
  nn : a.nn = true → v.NN = true
  num : a.num = true → v.isNum = true
  items : a.items = true → v.itemsNN = true
  known : ∀ c, a.known = some c → v = c
  key : ∀ cl, a.key = some cl → IsKey v cl

theorem approx_any (v : Val) : Approx v .any :=
  ⟨rfl, by simp [SVal.any], by simp [SVal.any], by simp [SVal.any], by simp [SVal.any], by simp [SVal.any]⟩

theorem approx_flags {v : Val} {nn num items : Bool} (h1 : nn = true → v.NN = true)
    (h2 : num = true → v.isNum = true) (h3 : items = true → v.itemsNN = true) :
    Approx v (.flags nn num items) :=
  ⟨rfl, h1, h2, h3, by simp [SVal.flags], by simp [SVal.flags]⟩

theorem approx_nnOnly {v : Val} (h : v.NN = true) : Approx v .nnOnly :=
  approx_flags (fun _ => h) (by simp) (by simp)

theorem approx_numNN {v : Val} (h : v.NN = true) (h2 : v.isNum = true) : Approx v .numNN :=
  approx_flags (fun _ => h) (fun _ => h2) (by simp)

theorem approx_ofConst (v : Val) : Approx v (.ofConst v) :=
  ⟨rfl, fun h => h, fun h => h, fun h => h, fun c h => by simp [SVal.ofConst] at h; exact h,
   by simp [SVal.ofConst]⟩

theorem approx_ofR {r : R Val} {v : Val} (h : r = .ok v) : Approx v (.ofR r) := by
  subst h; exact approx_ofConst v

theorem approx_join_left {v : Val} {a b : SVal} (h : Approx v a) : Approx v (a.join b) := by
  unfold SVal.join
  rw [h.nb]
  simp only [Bool.false_eq_true, if_false]
  split
  · exact h
  · refine ⟨rfl, ?_, ?_, ?_, by simp, by simp⟩
    · intro hh; simp only [Bool.and_eq_true] at hh; exact h.nn hh.1
    · intro hh; simp only [Bool.and_eq_true] at hh; exact h.num hh.1
    · intro hh; simp only [Bool.and_eq_true] at hh; exact h.items hh.1

theorem approx_join_right {v : Val} {a b : SVal} (h : Approx v b) : Approx v (a.join b) := by
  unfold SVal.join
  split
  · exact h
  · rw [h.nb]
    simp only [Bool.false_eq_true, if_false]
    refine ⟨rfl, ?_, ?_, ?_, by simp, by simp⟩
    · intro hh; simp only [Bool.and_eq_true] at hh; exact h.nn hh.2
    · intro hh; simp only [Bool.and_eq_true] at hh; exact h.num hh.2
    · intro hh; simp only [Bool.and_eq_true] at hh; exact h.items hh.2

theorem approx_forget {v : Val} {a : SVal} (h : Approx v a) : Approx v a.forget :=
  ⟨h.nb, h.nn, h.num, h.items, by simp [SVal.forget], by simp [SVal.forget]⟩

theorem approx_le {v : Val} {a b : SVal} (h : Approx v a) (hle : a.le b = true) : Approx v b := by
  unfold SVal.le at hle
  rw [h.nb] at hle
  simp only [Bool.false_or, Bool.and_eq_true, Bool.not_eq_true', Bool.or_eq_true, Option.isNone_iff_eq_none]
    at hle
  obtain ⟨⟨⟨⟨⟨hb, hnn⟩, hnum⟩, hit⟩, hk⟩, hkey⟩ := hle
  refine ⟨hb, ?_, ?_, ?_, by simp [hk], by simp [hkey]⟩
  · intro hh; rcases hnn with h' | h'
    · rw [h'] at hh; simp at hh
    · exact h.nn h'
  · intro hh; rcases hnum with h' | h'
    · rw [h'] at hh; simp at hh
    · exact h.num h'
  · intro hh; rcases hit with h' | h'
    · rw [h'] at hh; simp at hh
    · exact h.items h'

theorem approx_ok {v : Val} {a : SVal} (h : Approx v a) (hok : a.ok = true) : v.NN = true := by
  unfold SVal.ok at hok
  rw [h.nb] at hok
  exact h.nn (by simpa using hok)

/-! ### environments -/

def EnvApprox (env : Env) (aenv : AEnv) : Prop := ∀ x v, env.lookup x = some v → Approx v (aenv.get x)

theorem envApprox_nil (env : Env) : EnvApprox env [] := fun x v _ => approx_any v

theorem aget_set (aenv : AEnv) (x y : String) (a : SVal) :
    (aenv.set x a).get y = if (y == x) = true then a else aenv.get y := by
  unfold AEnv.set AEnv.get
  rw [Gates.lookup_cons_if]
  cases (y == x) <;> simp

theorem envApprox_set {env : Env} {aenv : AEnv} {x : String} {v : Val} {a : SVal}
    (he : EnvApprox env aenv) (hv : Approx v a) : EnvApprox (env.set x v) (aenv.set x a) := by
  intro y w hw
  rw [aget_set]
  rcases Gates.lookup_set hw with ⟨hyx, hwv⟩ | ⟨hne, hl⟩
  · subst hyx; subst hwv; simp only [beq_self_eq_true, if_true]; exact hv
  · simp only [hne, Bool.false_eq_true, if_false]; exact he y w hl

theorem approx_get {env : Env} {aenv : AEnv} {x : String} {v : Val}
    (he : EnvApprox env aenv) (h : env.get x = .ok v) : Approx v (aenv.get x) := by
  unfold Env.get at h
  cases hl : env.lookup x with
  | none => simp [hl] at h
  | some w =>
    simp only [hl, Except.ok.injEq] at h
    subst h
    exact he x w hl

theorem lookup_map_snd {β γ : Type} (f : String → β → γ) (l : List (String × β)) (x : String) :
    (l.map fun p => (p.1, f p.1 p.2)).lookup x = (l.lookup x).map (fun b => f x b) := by
  induction l with
  | nil => rfl
  | cons p t ih =>
    obtain ⟨k, w⟩ := p
    simp only [List.map_cons, Gates.lookup_cons_if]
    by_cases hk : (x == k) = true
    · have : x = k := by simpa using hk
      subst this
      simp
    · have hk' : (x == k) = false := by simpa using hk
      simp only [hk', Bool.false_eq_true, if_false, ih]

theorem aget_eq (env : AEnv) (x : String) :
    env.get x = match env.lookup x with
      | some a => a
      | none => SVal.any := rfl

theorem get_joinEnv (e1 e2 : AEnv) (x : String) :
    (joinEnv e1 e2).get x = match e1.lookup x with
      | some a => SVal.join a (e2.get x)
      | none => SVal.any := by
  rw [aget_eq]; unfold joinEnv
  rw [lookup_map_snd (fun k a => SVal.join a (AEnv.get e2 k))]
  cases e1.lookup x <;> rfl

theorem get_forgetEnv (e : AEnv) (x : String) :
    (forgetEnv e).get x = match e.lookup x with
      | some a => SVal.forget a
      | none => SVal.any := by
  rw [aget_eq]; unfold forgetEnv
  rw [lookup_map_snd (fun _ a => SVal.forget a)]
  cases e.lookup x <;> rfl

theorem envApprox_joinEnv_left {env : Env} {e1 e2 : AEnv} (h : EnvApprox env e1) :
    EnvApprox env (joinEnv e1 e2) := by
  intro x v hv
  have h1 := h x v hv
  rw [get_joinEnv]
  rw [aget_eq] at h1
  cases hl : e1.lookup x with
  | none => exact approx_any v
  | some a => rw [hl] at h1; exact approx_join_left h1

theorem envApprox_joinEnv_right {env : Env} {e1 e2 : AEnv} (h : EnvApprox env e2) :
    EnvApprox env (joinEnv e1 e2) := by
  intro x v hv
  have h2 := h x v hv
  rw [get_joinEnv]
  cases hl : e1.lookup x with
  | none => exact approx_any v
  | some a => exact approx_join_right h2

theorem envApprox_forget {env : Env} {e : AEnv} (h : EnvApprox env e) : EnvApprox env (forgetEnv e) := by
  intro x v hv
  have h1 := h x v hv
  rw [get_forgetEnv]
  rw [aget_eq] at h1
  cases hl : e.lookup x with
  | none => exact approx_any v
  | some a => rw [hl] at h1; exact approx_forget h1

theorem lookup_some_mem {β : Type} {l : List (String × β)} {x : String} {b : β} (h : l.lookup x = some b) :
    (x, b) ∈ l := by
  induction l with
  | nil => simp at h
  | cons p t ih =>
    obtain ⟨k, w⟩ := p
    rw [Gates.lookup_cons_if] at h
    by_cases hk : (x == k) = true
    · have : x = k := by simpa using hk
      subst this
      simp only [beq_self_eq_true, if_true, Option.some.injEq] at h
      subst h
      exact List.mem_cons_self
    · have hk' : (x == k) = false := by simpa using hk
      simp only [hk', Bool.false_eq_true, if_false] at h
      exact List.mem_cons_of_mem _ (ih h)

theorem envApprox_le {env : Env} {o inv : AEnv} (h : EnvApprox env o) (hle : envLe o inv = true) :
    EnvApprox env inv := by
  intro x v hv
  have h1 := h x v hv
  rw [aget_eq]
  cases hl : inv.lookup x with
  | none => exact approx_any v
  | some a =>
    have hm := lookup_some_mem hl
    unfold envLe at hle
    rw [List.all_eq_true] at hle
    exact approx_le h1 (hle _ hm)

/-! ### flows -/

def FlowOK (r : Flow) (b : BRes) : Prop :=
  match r with
  | .next e => ∃ ae, b.next = some ae ∧ EnvApprox e ae
  | .cont e => ∃ ae, b.cont = some ae ∧ EnvApprox e ae
  | .brk e => ∃ ae, b.brk = some ae ∧ EnvApprox e ae
  | .ret v => Approx v b.ret

theorem joinOpt_left {env : Env} {a : AEnv} {o1 o2 : Option AEnv} (h1 : o1 = some a) (h : EnvApprox env a) :
    ∃ ae, joinOptEnv o1 o2 = some ae ∧ EnvApprox env ae := by
  subst h1
  cases o2 with
  | none => exact ⟨a, rfl, h⟩
  | some b => exact ⟨joinEnv a b, rfl, envApprox_joinEnv_left h⟩

theorem joinOpt_right {env : Env} {b : AEnv} {o1 o2 : Option AEnv} (h2 : o2 = some b) (h : EnvApprox env b) :
    ∃ ae, joinOptEnv o1 o2 = some ae ∧ EnvApprox env ae := by
  subst h2
  cases o1 with
  | none => exact ⟨b, rfl, h⟩
  | some a => exact ⟨joinEnv a b, rfl, envApprox_joinEnv_right h⟩

theorem flowOK_join_left {r : Flow} {a b : BRes} (h : FlowOK r a) : FlowOK r (a.join b) := by
  cases r with
  | next e => obtain ⟨ae, h1, h2⟩ := h; exact joinOpt_left h1 h2
  | cont e => obtain ⟨ae, h1, h2⟩ := h; exact joinOpt_left h1 h2
  | brk e => obtain ⟨ae, h1, h2⟩ := h; exact joinOpt_left h1 h2
  | ret v => exact approx_join_left h

theorem flowOK_join_right {r : Flow} {a b : BRes} (h : FlowOK r b) : FlowOK r (a.join b) := by
  cases r with
  | next e => obtain ⟨ae, h1, h2⟩ := h; exact joinOpt_right h1 h2
  | cont e => obtain ⟨ae, h1, h2⟩ := h; exact joinOpt_right h1 h2
  | brk e => obtain ⟨ae, h1, h2⟩ := h; exact joinOpt_right h1 h2
  | ret v => exact approx_join_right h

/-- the second block's flows are flows of the sequence -/
theorem flowOK_seq_right {r : Flow} {a b : BRes} (h : FlowOK r b) : FlowOK r (a.seq b) := by
  cases r with
  | next e => exact h
  | cont e => obtain ⟨ae, h1, h2⟩ := h; exact joinOpt_right h1 h2
  | brk e => obtain ⟨ae, h1, h2⟩ := h; exact joinOpt_right h1 h2
  | ret v => exact approx_join_right h

theorem result_sound {r : Flow} {b : BRes} (h : FlowOK r b) : Holds σ (Flow.result r) (fun v => Approx v b.result) := by
  cases r with
  | next e =>
    obtain ⟨ae, h1, _⟩ := h
    simp only [Flow.result]
    refine Holds.pure ?_
    unfold BRes.result
    rw [h1]
    exact approx_join_right (approx_ofConst _)
  | cont e => exact Holds.err
  | brk e => exact Holds.err
  | ret v => exact Holds.pure (approx_join_left h)

/-! ## 3. The local facts about the Python operators (hypotheses of the partial theorem) -/

/-- Every field is a closed statement about the total functions of `Dsl/Val.lean` / `Dsl/Eval.lean`
(no evaluator, no stores except in `readV`/`readI`, which state the premise of the property). -/
structure OpFacts (K : SCtx) (ctx : Ctx) (σ : Stores) : Prop where
  bin : ∀ op x y r a b, Approx x a → Approx y b → applyBin op x y = .ok r → Approx r (binFlags op a b)
  augList : ∀ xs v ys a b, Approx (.list xs) a → Approx v b → Val.iterItems v = .ok ys →
    Approx (.list (xs ++ ys)) (binFlags .add a b)
  call : ∀ f vs as r, List.Forall₂ Approx vs as → applyBuiltin f vs = .ok r → Approx r (callFlags K f as)
  sumGen : ∀ (step : Val → Prog (Option Val)) items r, K.trustSum = true →
    (∀ item v, item ∈ items → Yields σ (step item) (some v) → v.NN = true) →
    Yields σ (sumGenM step (Val.sumInit (.int 0)) items) r → Approx r .numNN
  readV : ∀ k a n v, Approx k a → qualify ctx k = .ok n → σ.vs n = some v → Approx v (readKey K a)
  readI : ∀ n v, σ.is n = .ok v → v.NN = true
  fstr : ∀ vs as s, List.Forall₂ Approx vs as → fmtAll vs = .ok s → ∀ cl, fstrKey as = some cl → IsKey (.str s) cl
  thresh : ∀ n k r a, Approx n a → lookupThreshold ctx.thresholds n k = .ok r → Approx r (threshVal K.ths a)
  index : ∀ x i r a, Approx x a → a.items = true → Val.getItem x i = .ok r → r.NN = true
  items : ∀ v a xs, Approx v a → Val.iterItems v = .ok xs → ∀ x, x ∈ xs → Approx x a.itemOf
  neg : ∀ x r, Val.neg x = .ok r → r.isNum = true
  pos : ∀ x r, Val.pos x = .ok r → r.isNum = true
  append : ∀ xs v a b, Approx (.list xs) a → Approx v b →
    Approx (.list (xs ++ [v])) (.flags true false (a.items && b.nn))

/-! ## 4. The abstract interpreter covers the evaluator -/

theorem ite_bot {v : Val} {a : SVal} (h : Approx v a) (x y : SVal) : (if a.bot = true then x else y) = y := by
  rw [h.nb]; simp

theorem ite_botB {v : Val} {a : SVal} (h : Approx v a) (x y : BRes) : (if a.bot = true then x else y) = y := by
  rw [h.nb]; simp

theorem forall2_no_bot {vs : List Val} {as : List SVal} (h : List.Forall₂ Approx vs as) :
    as.any (·.bot) = false := by
  induction h with
  | nil => rfl
  | cons h1 _ ih => simp only [List.any_cons, h1.nb, ih, Bool.or_self]

theorem forall2_known {vs : List Val} {as : List SVal} (h : List.Forall₂ Approx vs as) :
    ∀ cs, knownAll as = some cs → vs = cs := by
  induction h with
  | nil => intro cs hk; simp [knownAll] at hk; exact hk.symm
  | @cons v a vs' as' h1 _ ih =>
    intro cs hk
    unfold knownAll at hk
    cases hka : a.known with
    | none => simp [hka] at hk
    | some c =>
      cases hkr : knownAll as' with
      | none => simp [hka, hkr] at hk
      | some cs' =>
        simp only [hka, hkr, Option.some.injEq] at hk
        rw [← hk, h1.known c hka, ih cs' hkr]

theorem forall2_length {vs : List Val} {as : List SVal} (h : List.Forall₂ Approx vs as) :
    as.length = vs.length := by
  induction h with
  | nil => rfl
  | cons _ _ ih => simp [ih]

theorem forall2_all_nn {vs : List Val} {as : List SVal} (h : List.Forall₂ Approx vs as)
    (hall : as.all (·.nn) = true) : vs.all Val.NN = true := by
  induction h with
  | nil => rfl
  | cons h1 _ ih =>
    simp only [List.all_cons, Bool.and_eq_true] at hall ⊢
    exact ⟨h1.nn hall.1, ih hall.2⟩

theorem approx_foldl_join {v : Val} (f : Val → SVal) :
    ∀ (items : List Val) (init : SVal), (Approx v init ∨ ∃ i, i ∈ items ∧ Approx v (f i)) →
      Approx v (items.foldl (fun acc i => SVal.join acc (f i)) init) := by
  intro items
  induction items with
  | nil =>
    intro init h
    rcases h with h | ⟨i, hi, _⟩
    · exact h
    · simp at hi
  | cons x t ih =>
    intro init h
    simp only [List.foldl_cons]
    apply ih
    rcases h with h | ⟨i, hi, hv⟩
    · exact Or.inl (approx_join_left h)
    · rcases List.mem_cons.1 hi with hx | ht
      · subst hx; exact Or.inl (approx_join_right hv)
      · exact Or.inr ⟨i, ht, hv⟩

theorem envApprox_defaults (dfl : List (String × Val)) :
    EnvApprox dfl (dfl.map fun p => (p.1, SVal.ofConst p.2)) := by
  intro x v hv
  rw [aget_eq, lookup_map_snd (fun _ w => SVal.ofConst w), hv]
  exact approx_ofConst v

theorem zipFold_sound : ∀ (params : List String) (vs : List Val) (as : List SVal) (env : Env) (aenv : AEnv),
    List.Forall₂ Approx vs as → EnvApprox env aenv →
    EnvApprox ((params.zip vs).foldl (fun e p => e.set p.1 p.2) env)
      ((params.zip as).foldl (fun e p => e.set p.1 p.2) aenv) := by
  intro params
  induction params with
  | nil => intro vs as env aenv _ he; simpa using he
  | cons p ps ih =>
    intro vs as env aenv h he
    cases h with
    | nil => simpa using he
    | cons h1 ht =>
      simp only [List.zip_cons_cons, List.foldl_cons]
      exact ih _ _ _ _ ht (envApprox_set he h1)

theorem bindA_sound {env env' : Env} {aenv : AEnv} {xs : List String} {item : Val} {a : SVal}
    (he : EnvApprox env aenv) (ha : Approx item a) (hb : bindTargets xs item env = .ok env') :
    EnvApprox env' (bindA xs a aenv) := by
  cases xs with
  | nil => exact envApprox_nil _
  | cons x t =>
    cases t with
    | nil =>
      simp only [bindTargets, Except.ok.injEq] at hb
      subst hb
      exact envApprox_set he ha
    | cons y t' => exact envApprox_nil _

theorem stable_nil (b : BRes) : b.stable [] = true := by
  unfold BRes.stable optLe
  cases b.next <;> cases b.cont <;> simp [envLe]

theorem forLoop_sound {step : Env → Val → Prog Flow} {inv : AEnv} {b : BRes} {items0 : List Val}
    (hst : b.stable inv = true)
    (hstep : ∀ env1 item, item ∈ items0 → EnvApprox env1 inv → Holds σ (step env1 item) (fun r => FlowOK r b)) :
    ∀ (items : List Val), (∀ i, i ∈ items → i ∈ items0) → ∀ env, EnvApprox env inv →
      Holds σ (forLoop step env items) (fun r => FlowOK r (b.finish inv)) := by
  unfold BRes.stable at hst
  simp only [Bool.and_eq_true] at hst
  intro items
  induction items with
  | nil =>
    intro _ env he
    simp only [forLoop]
    exact Holds.pure (joinOpt_left rfl he)
  | cons x xs ih =>
    intro hsub env he
    simp only [forLoop]
    refine (hstep env x (hsub x List.mem_cons_self) he).bind fun r hr => ?_
    have hsub' : ∀ i, i ∈ xs → i ∈ items0 := fun i hi => hsub i (List.mem_cons_of_mem _ hi)
    cases r with
    | next env' =>
      obtain ⟨ae, h1, h2⟩ := hr
      have : envLe ae inv = true := by have := hst.1; rw [h1] at this; exact this
      exact ih hsub' env' (envApprox_le h2 this)
    | cont env' =>
      obtain ⟨ae, h1, h2⟩ := hr
      have : envLe ae inv = true := by have := hst.2; rw [h1] at this; exact this
      exact ih hsub' env' (envApprox_le h2 this)
    | brk env' =>
      obtain ⟨ae, h1, h2⟩ := hr
      exact Holds.pure (joinOpt_right (o1 := some inv) h1 h2)
    | ret v => exact Holds.pure hr

theorem collectM_sound {step : Val → Prog (Option Val)} {P : Val → Prop} :
    ∀ (items : List Val), (∀ item, item ∈ items → Holds σ (step item) (fun o => ∀ v, o = some v → P v)) →
      Holds σ (collectM step items) (fun vs => ∀ v, v ∈ vs → P v) := by
  intro items
  induction items with
  | nil => intro _; simp only [collectM]; exact Holds.pure (by simp)
  | cons x xs ih =>
    intro h
    simp only [collectM]
    refine (h x List.mem_cons_self).bind fun r hr => ?_
    refine (ih fun item hi => h item (List.mem_cons_of_mem _ hi)).bind fun rest hrest => ?_
    refine Holds.pure ?_
    cases r with
    | none => exact hrest
    | some w =>
      intro v hv
      rcases List.mem_cons.1 hv with h1 | h1
      · subst h1; exact hr _ rfl
      · exact hrest v h1

section Sound
variable (K : SCtx) (ctx : Ctx) (hops : OpFacts K ctx σ)
include hops

mutual
  theorem absExpr_sound : ∀ (e : Expr) (env : Env) (aenv : AEnv), EnvApprox env aenv →
      Holds σ (evalExpr ctx env e) (fun v => Approx v (absExpr K aenv e))
    | .const v, env, aenv, he => by
      simp only [evalExpr, absExpr]; exact Holds.pure (approx_ofConst v)
    | .var x, env, aenv, he => by
      simp only [evalExpr, absExpr]
      exact Holds.lift fun v h => approx_get he h
    | .readI e, env, aenv, he => by
      simp only [evalExpr, absExpr]
      refine (absExpr_sound e env aenv he).bind fun k hk => ?_
      rw [ite_bot hk]
      exact Holds.lift_bind fun n _ => Holds.readI fun v hv => approx_nnOnly (hops.readI n v hv)
    | .readV e, env, aenv, he => by
      simp only [evalExpr, absExpr]
      refine (absExpr_sound e env aenv he).bind fun k hk => ?_
      exact Holds.lift_bind fun n hn => Holds.readV fun v hv => hops.readV k _ n v hk hn hv
    | .fstr parts, env, aenv, he => by
      simp only [evalExpr, absExpr]
      refine (absArgs_sound parts env aenv he).bind fun vs hvs => ?_
      refine Holds.lift_bind fun s hs => Holds.pure ?_
      unfold fstrVal
      rw [forall2_no_bot hvs]
      simp only [Bool.false_eq_true, if_false]
      cases hk : knownAll (absArgs K aenv parts) with
      | some cs =>
        simp only
        rw [← forall2_known hvs cs hk, hs]
        exact approx_ofConst _
      | none =>
        simp only
        exact ⟨rfl, fun _ => rfl, by simp, by simp, by simp, fun cl hcl => hops.fstr vs _ s hvs hs cl hcl⟩
    | .bin op a b, env, aenv, he => by
      simp only [evalExpr, absExpr]
      refine (absExpr_sound a env aenv he).bind fun x hx => ?_
      refine (absExpr_sound b env aenv he).bind fun y hy => ?_
      refine Holds.lift fun r hr => ?_
      unfold binVal
      cases hka : (absExpr K aenv a).known with
      | none => exact hops.bin op x y r _ _ hx hy hr
      | some ca =>
        cases hkb : (absExpr K aenv b).known with
        | none => exact hops.bin op x y r _ _ hx hy hr
        | some cb =>
          simp only [hx.nb, hy.nb, Bool.or_self, Bool.false_eq_true, if_false]
          rw [hx.known ca hka, hy.known cb hkb] at hr
          exact approx_ofR hr
    | .neg a, env, aenv, he => by
      simp only [evalExpr, absExpr]
      refine (absExpr_sound a env aenv he).bind fun x hx => ?_
      rw [ite_bot hx]
      exact Holds.lift fun r hr => approx_flags (by simp) (fun _ => hops.neg x r hr) (by simp)
    | .pos a, env, aenv, he => by
      simp only [evalExpr, absExpr]
      refine (absExpr_sound a env aenv he).bind fun x hx => ?_
      rw [ite_bot hx]
      exact Holds.lift fun r hr => approx_flags (by simp) (fun _ => hops.pos x r hr) (by simp)
    | .not a, env, aenv, he => by
      simp only [evalExpr, absExpr]
      refine (absExpr_sound a env aenv he).bind fun x hx => ?_
      rw [ite_bot hx]
      exact Holds.pure (approx_numNN rfl rfl)
    | .and a b, env, aenv, he => by
      simp only [evalExpr, absExpr]
      refine (absExpr_sound a env aenv he).bind fun x hx => ?_
      split
      · exact (absExpr_sound b env aenv he).mono fun v hv => approx_join_right hv
      · exact Holds.pure (approx_join_left hx)
    | .or a b, env, aenv, he => by
      simp only [evalExpr, absExpr]
      refine (absExpr_sound a env aenv he).bind fun x hx => ?_
      split
      · exact Holds.pure (approx_join_left hx)
      · exact (absExpr_sound b env aenv he).mono fun v hv => approx_join_right hv
    | .cmp first ops rest, env, aenv, he => by
      simp only [evalExpr, absExpr]
      refine (absExpr_sound first env aenv he).bind fun x hx => ?_
      rw [ite_bot hx]
      exact absCmp_sound ops rest env aenv he x
    | .ite c a b, env, aenv, he => by
      simp only [evalExpr, absExpr]
      refine (absExpr_sound c env aenv he).bind fun x hx => ?_
      rw [ite_bot hx]
      split
      · exact (absExpr_sound a env aenv he).mono fun v hv => approx_join_left hv
      · exact (absExpr_sound b env aenv he).mono fun v hv => approx_join_right hv
    | .call f args, env, aenv, he => by
      simp only [evalExpr, absExpr]
      refine (absArgs_sound args env aenv he).bind fun vs hvs => ?_
      refine Holds.lift fun r hr => ?_
      unfold callVal
      rw [forall2_no_bot hvs]
      simp only [Bool.false_eq_true, if_false]
      cases hk : knownAll (absArgs K aenv args) with
      | some cs =>
        simp only
        rw [forall2_known hvs cs hk] at hr
        exact approx_ofR hr
      | none => exact hops.call f vs _ r hvs hr
    | .method m obj args, env, aenv, he => by
      simp only [evalExpr, absExpr]
      refine (absExpr_sound obj env aenv he).bind fun o ho => ?_
      rw [ite_bot ho]
      exact fun v _ => approx_any v
    | .attr obj name, env, aenv, he => by
      simp only [evalExpr, absExpr]
      refine (absExpr_sound obj env aenv he).bind fun o ho => ?_
      rw [ite_bot ho]
      exact fun v _ => approx_any v
    | .attrFail obj, env, aenv, he => by
      simp only [evalExpr, absExpr]
      exact (absExpr_sound obj env aenv he).bind fun _ _ => Holds.err
    | .raise e, env, aenv, he => by
      simp only [evalExpr, absExpr]; exact Holds.err
    | .threshold name hasKey key, env, aenv, he => by
      simp only [evalExpr, absExpr]
      refine (absExpr_sound name env aenv he).bind fun n hn => ?_
      cases hasKey with
      | true =>
        simp only [if_true]
        refine (absExpr_sound key env aenv he).bind fun k _ => ?_
        exact Holds.lift fun r hr => hops.thresh n _ r _ hn hr
      | false =>
        simp only [Bool.false_eq_true, if_false]
        exact Holds.lift fun r hr => hops.thresh n _ r _ hn hr
    | .thresholdOf form name hasKey key, env, aenv, he => by
      simp only [evalExpr, absExpr]
      refine (absExpr_sound form env aenv he).bind fun f hf => ?_
      rw [ite_bot hf]
      exact fun v _ => approx_any v
    | .loadedForm form, env, aenv, he => by
      simp only [evalExpr, absExpr]
      refine (absExpr_sound form env aenv he).bind fun f hf => ?_
      rw [ite_bot hf]
      cases f <;> first | exact Holds.err | exact Holds.needForm (Holds.pure (approx_nnOnly rfl))
    | .instance, env, aenv, he => by
      simp only [evalExpr, absExpr]
      refine Holds.pure (approx_nnOnly ?_)
      cases ctx.inst <;> rfl
    | .notImpl args, env, aenv, he => by
      simp only [evalExpr, absExpr]
      exact (absArgs_sound args env aenv he).bind fun _ _ => Holds.notImpl
    | .tuple xs, env, aenv, he => by
      simp only [evalExpr, absExpr]
      refine (absArgs_sound xs env aenv he).bind fun vs hvs => Holds.pure ?_
      rw [forall2_no_bot hvs]
      simp only [Bool.false_eq_true, if_false]
      cases hk : knownAll (absArgs K aenv xs) with
      | some cs => simp only; rw [forall2_known hvs cs hk]; exact approx_ofConst _
      | none => exact approx_flags (fun _ => rfl) (by simp) (fun h => forall2_all_nn hvs h)
    | .list xs, env, aenv, he => by
      simp only [evalExpr, absExpr]
      refine (absArgs_sound xs env aenv he).bind fun vs hvs => Holds.pure ?_
      rw [forall2_no_bot hvs]
      simp only [Bool.false_eq_true, if_false]
      cases hk : knownAll (absArgs K aenv xs) with
      | some cs => simp only; rw [forall2_known hvs cs hk]; exact approx_ofConst _
      | none => exact approx_flags (fun _ => rfl) (by simp) (fun h => forall2_all_nn hvs h)
    | .dict ks vs, env, aenv, he => by
      simp only [evalExpr, absExpr]
      refine (absArgs_sound vs env aenv he).bind fun xs hxs => Holds.pure ?_
      rw [forall2_no_bot hxs]
      simp only [Bool.false_eq_true, if_false]
      exact approx_nnOnly rfl
    | .index e idx, env, aenv, he => by
      simp only [evalExpr, absExpr]
      refine (absExpr_sound e env aenv he).bind fun x hx => ?_
      refine (absExpr_sound idx env aenv he).bind fun i hi => ?_
      refine Holds.lift fun r hr => ?_
      simp only [hx.nb, hi.nb, Bool.or_self, Bool.false_eq_true, if_false]
      cases hka : (absExpr K aenv e).known with
      | none =>
        simp only
        split
        · rename_i hit; exact approx_nnOnly (hops.index x i r _ hx hit hr)
        · exact approx_any r
      | some ca =>
        cases hkb : (absExpr K aenv idx).known with
        | none =>
          simp only
          split
          · rename_i hit; exact approx_nnOnly (hops.index x i r _ hx hit hr)
          · exact approx_any r
        | some cb =>
          simp only
          rw [hx.known ca hka, hi.known cb hkb] at hr
          exact approx_ofR hr
    | .slice e lo hi, env, aenv, he => by
      simp only [evalExpr, absExpr]
      refine (absExpr_sound e env aenv he).bind fun x hx => ?_
      refine (absExpr_sound lo env aenv he).bind fun l hl => ?_
      refine (absExpr_sound hi env aenv he).bind fun h hh => ?_
      simp only [hx.nb, hl.nb, hh.nb, Bool.or_self, Bool.false_eq_true, if_false]
      exact fun v _ => approx_any v
    | .listComp elt xs iter conds, env, aenv, he => by
      simp only [evalExpr, absExpr]
      refine (absExpr_sound iter env aenv he).bind fun itv hit => ?_
      rw [ite_bot hit]
      refine Holds.lift_bind fun items hitems => ?_
      have keyA : ∀ cs x, constItems (absExpr K aenv iter) = some cs → xs = [x] →
          ∀ item env', item ∈ items → bindTargets xs item env = .ok env' →
          Holds σ (evalExpr ctx env' elt) (fun v => Approx v
            (cs.foldl (fun acc item => SVal.join acc (absExpr K (aenv.set x (.ofConst item)) elt)) .bottom)) := by
        intro cs x hci hxs item env' hmem hb
        subst hxs
        unfold constItems at hci
        cases hkn : (absExpr K aenv iter).known with
        | none => simp [hkn] at hci
        | some c =>
          simp only [hkn] at hci
          have hc := hit.known c hkn
          subst hc
          rw [hitems] at hci
          simp only [Option.some.injEq] at hci
          subst hci
          simp only [bindTargets, Except.ok.injEq] at hb
          subst hb
          refine (absExpr_sound elt _ _ (envApprox_set he (approx_ofConst item))).mono fun v hv => ?_
          exact approx_foldl_join _ _ _ (Or.inr ⟨item, hmem, hv⟩)
      have keyB : ∀ item env', item ∈ items → bindTargets xs item env = .ok env' →
          Holds σ (evalExpr ctx env' elt)
            (fun v => Approx v (absExpr K (bindA xs (absExpr K aenv iter).itemOf aenv) elt)) := by
        intro item env' hmem hb
        exact absExpr_sound elt _ _ (bindA_sound he (hops.items itv _ items hit hitems item hmem) hb)
      have fin : ∀ r : SVal, (∀ item env', item ∈ items → bindTargets xs item env = .ok env' →
          Holds σ (evalExpr ctx env' elt) (fun v => Approx v r)) →
          Holds σ ((collectM (fun item =>
            (Prog.lift (bindTargets xs item env)).bind fun env' =>
              (evalConds ctx env' conds).bind fun ok =>
                if ok then (evalExpr ctx env' elt).bind fun v => .pure (some v) else .pure none)
            items).bind fun vs => .pure (.list vs)) (fun v => Approx v (.flags true false r.ok)) := by
        intro r key
        refine (collectM_sound (P := fun v => Approx v r) items fun item hmem => ?_).bind fun vs hvs => ?_
        · refine Holds.lift_bind fun env' hb => ?_
          refine (absConds_sound conds env' [] (envApprox_nil env')).bind fun ok _ => ?_
          cases ok with
          | true =>
            simp only [if_true]
            exact (key item env' hmem hb).bind fun v hv => Holds.pure (fun w hw => by
              simp only [Option.some.injEq] at hw; subst hw; exact hv)
          | false =>
            simp only [Bool.false_eq_true, if_false]
            exact Holds.pure (fun w hw => by simp at hw)
        · refine Holds.pure (approx_flags (fun _ => rfl) (by simp) fun hok => ?_)
          simp only [Val.itemsNN, List.all_eq_true]
          exact fun v hv => approx_ok (hvs v hv) hok
      split
      · rename_i cs x hci
        exact fin _ (keyA cs x hci rfl)
      · exact fin _ keyB
    | .sumGen elt xs iter conds, env, aenv, he => by
      simp only [evalExpr, absExpr]
      refine (absExpr_sound iter env aenv he).bind fun itv hit => ?_
      rw [ite_bot hit]
      refine Holds.lift_bind fun items hitems => ?_
      have keyA : ∀ cs x, constItems (absExpr K aenv iter) = some cs → xs = [x] →
          ∀ item env', item ∈ items → bindTargets xs item env = .ok env' →
          Holds σ (evalExpr ctx env' elt) (fun v => Approx v
            (cs.foldl (fun acc item => SVal.join acc (absExpr K (aenv.set x (.ofConst item)) elt)) .bottom)) := by
        intro cs x hci hxs item env' hmem hb
        subst hxs
        unfold constItems at hci
        cases hkn : (absExpr K aenv iter).known with
        | none => simp [hkn] at hci
        | some c =>
          simp only [hkn] at hci
          have hc := hit.known c hkn
          subst hc
          rw [hitems] at hci
          simp only [Option.some.injEq] at hci
          subst hci
          simp only [bindTargets, Except.ok.injEq] at hb
          subst hb
          refine (absExpr_sound elt _ _ (envApprox_set he (approx_ofConst item))).mono fun v hv => ?_
          exact approx_foldl_join _ _ _ (Or.inr ⟨item, hmem, hv⟩)
      have keyB : ∀ item env', item ∈ items → bindTargets xs item env = .ok env' →
          Holds σ (evalExpr ctx env' elt)
            (fun v => Approx v (absExpr K (bindA xs (absExpr K aenv iter).itemOf aenv) elt)) := by
        intro item env' hmem hb
        exact absExpr_sound elt _ _ (bindA_sound he (hops.items itv _ items hit hitems item hmem) hb)
      have fin : ∀ r : SVal, (∀ item env', item ∈ items → bindTargets xs item env = .ok env' →
          Holds σ (evalExpr ctx env' elt) (fun v => Approx v r)) →
          Holds σ (sumGenM (fun item =>
            (Prog.lift (bindTargets xs item env)).bind fun env' =>
              (evalConds ctx env' conds).bind fun ok =>
                if ok then (evalExpr ctx env' elt).bind fun v => .pure (some v) else .pure none)
            (Val.sumInit (.int 0)) items)
            (fun v => Approx v (if (r.ok && K.trustSum) = true then .numNN else .any)) := by
        intro r key res hres
        by_cases hcond : (r.ok && K.trustSum) = true
        · rw [if_pos hcond]
          simp only [Bool.and_eq_true] at hcond
          refine hops.sumGen _ items res hcond.2 (fun item v hmem hy => ?_) hres
          obtain ⟨env', h1, h2⟩ := yields_bind hy
          have hb := yields_lift h1
          obtain ⟨ok, _, h3⟩ := yields_bind h2
          cases ok with
          | true =>
            obtain ⟨w, h4, h5⟩ := yields_bind h3
            have hw := yields_pure h5
            simp only [Option.some.injEq] at hw
            subst hw
            exact approx_ok (key item env' hmem hb v h4) hcond.1
          | false =>
            have hw := yields_pure h3
            simp at hw
        · rw [if_neg hcond]; exact approx_any res
      split
      · rename_i cs x hci
        exact fin _ (keyA cs x hci rfl)
      · exact fin _ keyB
    | .callHelper params args defaults body, env, aenv, he => by
      simp only [evalExpr, absExpr]
      refine (absArgs_sound args env aenv he).bind fun vs hvs => ?_
      rw [forall2_no_bot hvs]
      simp only [Bool.false_eq_true, if_false]
      have hlen : (absArgs K aenv args).length = vs.length := forall2_length hvs
      rw [hlen]
      split
      · exact Holds.err
      · exact (absBlock_sound body _ _ (zipFold_sound params vs _ _ _ hvs (envApprox_defaults defaults))).bind
          fun r hr => result_sound hr
    | .global name, env, aenv, he => by
      simp only [evalExpr, absExpr]
      exact fun v _ => approx_any v
    | .unsupported w, env, aenv, he => by
      simp only [evalExpr, absExpr]; exact Holds.err

  theorem absArgs_sound : ∀ (es : List Expr) (env : Env) (aenv : AEnv), EnvApprox env aenv →
      Holds σ (evalArgs ctx env es) (fun vs => List.Forall₂ Approx vs (absArgs K aenv es))
    | [], env, aenv, he => by
      simp only [evalArgs, absArgs]; exact Holds.pure List.Forall₂.nil
    | e :: es, env, aenv, he => by
      simp only [evalArgs, absArgs]
      exact (absExpr_sound e env aenv he).bind fun v hv =>
        (absArgs_sound es env aenv he).bind fun vs hvs => Holds.pure (List.Forall₂.cons hv hvs)

  theorem absCmp_sound : ∀ (ops : List CmpOp) (es : List Expr) (env : Env) (aenv : AEnv), EnvApprox env aenv →
      ∀ (left : Val), Holds σ (evalCmp ctx env left ops es) (fun v => Approx v .numNN)
    | op :: ops, e :: es, env, aenv, he, left => by
      simp only [evalCmp]
      refine (absExpr_sound e env aenv he).bind fun right _ => Holds.lift_bind fun b _ => ?_
      cases b with
      | false => simp only [Bool.false_eq_true, if_false]; exact Holds.pure (approx_numNN rfl rfl)
      | true =>
        simp only [if_true]
        cases ops with
        | nil => exact Holds.pure (approx_numNN rfl rfl)
        | cons o os => exact absCmp_sound (o :: os) es env aenv he right
    | [], [], env, aenv, he, left => by
      simp only [evalCmp]; exact Holds.pure (approx_numNN rfl rfl)
    | [], _ :: _, env, aenv, he, left => by
      simp only [evalCmp]; exact Holds.err
    | _ :: _, [], env, aenv, he, left => by
      simp only [evalCmp]; exact Holds.err

  theorem absConds_sound : ∀ (cs : List Expr) (env : Env) (aenv : AEnv), EnvApprox env aenv →
      Holds σ (evalConds ctx env cs) (fun _ => True)
    | [], env, aenv, he => fun _ _ => trivial
    | c :: cs, env, aenv, he => fun _ _ => trivial

  theorem absStmt_sound : ∀ (s : Stmt) (env : Env) (aenv : AEnv), EnvApprox env aenv →
      Holds σ (execStmt ctx env s) (fun r => FlowOK r (absStmt K aenv s))
    | .assign x e, env, aenv, he => by
      simp only [execStmt, absStmt]
      refine (absExpr_sound e env aenv he).bind fun v hv => Holds.pure ?_
      rw [ite_botB hv]
      exact ⟨_, rfl, envApprox_set he hv⟩
    | .unpack xs e, env, aenv, he => by
      simp only [execStmt, absStmt]
      refine (absExpr_sound e env aenv he).bind fun v hv => Holds.lift_bind fun env' _ => Holds.pure ?_
      rw [ite_botB hv]
      exact ⟨_, rfl, envApprox_nil env'⟩
    | .aug x op e, env, aenv, he => by
      simp only [execStmt, absStmt]
      refine Holds.lift_bind fun old hold => (absExpr_sound e env aenv he).bind fun v hv => ?_
      rw [ite_botB hv]
      have ho := approx_get he hold
      split
      · refine Holds.lift_bind fun ys hys => Holds.pure ⟨_, rfl, envApprox_set he ?_⟩
        exact hops.augList _ v ys _ _ ho hv hys
      · refine Holds.lift_bind fun r hr => Holds.pure ⟨_, rfl, envApprox_set he ?_⟩
        exact hops.bin op old v r _ _ ho hv hr
    | .ifS c thn els, env, aenv, he => by
      simp only [execStmt, absStmt]
      refine (absExpr_sound c env aenv he).bind fun x hx => ?_
      rw [ite_botB hx]
      split
      · exact (absBlock_sound thn env aenv he).mono fun r hr => flowOK_join_left hr
      · exact (absBlock_sound els env aenv he).mono fun r hr => flowOK_join_right hr
    | .forS xs iter body, env, aenv, he => by
      simp only [execStmt, absStmt]
      refine (absExpr_sound iter env aenv he).bind fun itv hit => ?_
      rw [ite_botB hit]
      refine Holds.lift_bind fun items hitems => ?_
      have hstep : ∀ (c : AEnv) env1 item, item ∈ items → EnvApprox env1 c →
          Holds σ ((Prog.lift (bindTargets xs item env1)).bind fun env2 => execBlock ctx env2 body)
            (fun r => FlowOK r (absBlock K (bindA xs (absExpr K aenv iter).itemOf c) body)) := by
        intro c env1 item hmem h1
        exact Holds.lift_bind fun env2 hb =>
          absBlock_sound body env2 _ (bindA_sound h1 (hops.items itv _ items hit hitems item hmem) hb)
      split
      · rename_i hst
        exact forLoop_sound hst (hstep _) items (fun i hi => hi) env (envApprox_forget he)
      · split
        · rename_i hst
          exact forLoop_sound hst (hstep _) items (fun i hi => hi) env
            (envApprox_joinEnv_left (envApprox_forget he))
        · exact forLoop_sound (stable_nil _) (hstep _) items (fun i hi => hi) env (envApprox_nil env)
    | .ret e, env, aenv, he => by
      simp only [execStmt, absStmt]
      exact (absExpr_sound e env aenv he).bind fun v hv => Holds.pure hv
    | .expr e, env, aenv, he => by
      simp only [execStmt, absStmt]
      refine (absExpr_sound e env aenv he).bind fun v hv => Holds.pure ?_
      rw [ite_botB hv]
      exact ⟨_, rfl, he⟩
    | .append x e, env, aenv, he => by
      simp only [execStmt, absStmt]
      refine Holds.lift_bind fun old hold => ?_
      have ho := approx_get he hold
      cases old <;> try exact Holds.err
      refine (absExpr_sound e env aenv he).bind fun v hv => Holds.pure ?_
      rw [ite_botB hv]
      exact ⟨_, rfl, envApprox_set he (hops.append _ v _ _ ho hv)⟩
    | .assertS c msg, env, aenv, he => by
      simp only [execStmt, absStmt]
      refine (absExpr_sound c env aenv he).bind fun v hv => ?_
      rw [ite_botB hv]
      split
      · exact Holds.pure ⟨_, rfl, he⟩
      · exact (absExpr_sound msg env aenv he).bind fun _ _ => Holds.err
    | .continueS, env, aenv, he => by
      simp only [execStmt, absStmt]; exact Holds.pure ⟨_, rfl, he⟩
    | .breakS, env, aenv, he => by
      simp only [execStmt, absStmt]; exact Holds.pure ⟨_, rfl, he⟩
    | .pass, env, aenv, he => by
      simp only [execStmt, absStmt]; exact Holds.pure ⟨_, rfl, he⟩

  theorem absBlock_sound : ∀ (ss : List Stmt) (env : Env) (aenv : AEnv), EnvApprox env aenv →
      Holds σ (execBlock ctx env ss) (fun r => FlowOK r (absBlock K aenv ss))
    | [], env, aenv, he => by
      simp only [execBlock, absBlock]; exact Holds.pure ⟨_, rfl, he⟩
    | s :: ss, env, aenv, he => by
      simp only [execBlock, absBlock]
      refine (absStmt_sound s env aenv he).bind fun r hr => ?_
      cases r with
      | next env' =>
        obtain ⟨ae, h1, h2⟩ := hr
        cases hn : (absStmt K aenv s).next with
        | none => rw [h1] at hn; simp at hn
        | some e' =>
          rw [h1] at hn
          simp only [Option.some.injEq] at hn
          subst hn
          exact (absBlock_sound ss env' ae h2).mono fun r' hr' => flowOK_seq_right hr'
      | cont env' =>
        refine Holds.pure ?_
        obtain ⟨ae, h1, h2⟩ := hr
        cases hn : (absStmt K aenv s).next with
        | none => exact ⟨ae, h1, h2⟩
        | some e' => exact joinOpt_left (o2 := (absBlock K e' ss).cont) h1 h2
      | brk env' =>
        refine Holds.pure ?_
        obtain ⟨ae, h1, h2⟩ := hr
        cases hn : (absStmt K aenv s).next with
        | none => exact ⟨ae, h1, h2⟩
        | some e' => exact joinOpt_left (o2 := (absBlock K e' ss).brk) h1 h2
      | ret v =>
        refine Holds.pure ?_
        cases hn : (absStmt K aenv s).next with
        | none => exact hr
        | some e' => exact approx_join_left (b := (absBlock K e' ss).ret) hr
end

theorem absBody_sound (d : LineDecl) : Holds σ (evalBody ctx d) (fun v => Approx v (absBody K d)) := by
  unfold evalBody absBody
  exact (absBlock_sound K ctx hops d.body d.defaults _ (envApprox_defaults d.defaults)).bind
    fun r hr => result_sound hr

end Sound

/-! ## 5. The statement about `run` -/

/-- a returned value of the wrapped tree is the wrapper's image of a result of the program -/
theorem run_mapOut_val {p : Prog Val} {w : Val → Sum Val Nat} {x : Val}
    (h : run σ.vs σ.is σ.fs (p.toTree.mapOut w) = .val x) : ∃ a, Yields σ p a ∧ w a = .inl x := by
  induction p with
  | pure a =>
    refine ⟨a, ⟨false, rfl⟩, ?_⟩
    simp only [Prog.toTree, Tree.mapOut] at h
    cases hw : w a with
    | inl b => rw [hw] at h; simp only [run, Out.val.injEq] at h; rw [h]
    | inr c => rw [hw] at h; simp [run] at h
  | notImpl => simp [Prog.toTree, Tree.mapOut, run] at h
  | err e => simp [Prog.toTree, Tree.mapOut, run] at h
  | readV n k ih =>
    simp only [Prog.toTree, Tree.mapOut, run] at h
    cases hv : σ.vs n with
    | none => simp [hv] at h
    | some v =>
      simp only [hv] at h
      obtain ⟨a, ⟨fl, ha⟩, hw⟩ := ih v h
      exact ⟨a, ⟨fl, by simp only [exec, hv]; exact ha⟩, hw⟩
  | readI y k ih =>
    simp only [Prog.toTree, Tree.mapOut, run] at h
    cases hv : σ.is y with
    | ok v =>
      simp only [hv] at h
      obtain ⟨a, ⟨fl, ha⟩, hw⟩ := ih v h
      exact ⟨a, ⟨((y == "") || fl), by simp only [exec, hv, ha, Option.map_some]⟩, hw⟩
    | noSpec => simp [hv] at h
    | missing => simp [hv] at h
    | invalid => simp [hv] at h
  | needForm f k ih =>
    simp only [Prog.toTree, Tree.mapOut, run] at h
    split at h
    · rename_i hf
      obtain ⟨a, ⟨fl, ha⟩, hw⟩ := ih h
      exact ⟨a, ⟨fl, by simp only [exec, hf, if_true]; exact ha⟩, hw⟩
    · simp at h

/-- the typed-field wrapper of a float / int line maps a not-negative result to a not-negative NUMBER
(`None` / blank → `0.0` / `0`, a float is rounded: `F64.roundN_notNeg`) — a closed statement about `FieldKind.wrap` -/
def WrapFact : Prop :=
  ∀ k v w, kindOK k = true → Val.NN v = true → FieldKind.wrap k v = .inl w → Val.NN w = true ∧ Val.isNum w = true

/-- **Soundness of the sign analysis, relative to the local operator facts.**
FULL STATEMENT (`nnLine_sound`, not yet proved outright): if `nnLine y S c l = true` then for every instance `inst`
and all stores `vs is fs` such that (a) every input that evaluates is `Val.NN` and (b) every stored value under a key
`k` with `keyIn S k` is `Val.NN` and a number: whenever `run vs is fs (evalLine y c inst l) = .val v` then `Val.NN v`
(and `v` is a number).  Here (a) and (b) enter through the fields `readI` / `readV` of `OpFacts`; what is MISSING for
the full statement is the discharge of the other fields of `OpFacts` (closed facts about `Val.add`, `Val.mul`,
`Val.div`, `pyMinMax`, `pyRound`, `pyCeil`, `pyFloat`, `pyLen`, `pyList`, `pyRange`, `lookupThreshold`, `getItem`,
`iterItems`, the key-string lemmas behind `readKey` / `fstrKey`, for `trust = true` CPython's compensated `sum`) and
of `WrapFact`; their binary64 core is in `Proofs/SignLemmas.lean`. -/
theorem nnLineWith_sound_partial {trust : Bool} {y : YearDecl} {S : SSet} {c : ClassDecl} {l : LineDecl}
    (h : nnLineWith trust y S c l = true) (inst : Option String)
    (vs : String → Option Val) (is : String → InpRes Val) (fs : String → Bool)
    (hops : OpFacts (mkK trust y S c) { year := y, form := c.name, inst := inst, thresholds := c.thresholds }
      ⟨vs, is, fs⟩)
    (hw : WrapFact) (v : Val) (hrun : run vs is fs (evalLine y c inst l) = .val v) :
    Val.NN v = true ∧ Val.isNum v = true := by
  unfold nnLineWith at h
  simp only [Bool.and_eq_true] at h
  obtain ⟨⟨hk, _⟩, hok⟩ := h
  unfold evalLine at hrun
  obtain ⟨a, ha, hwa⟩ := run_mapOut_val (σ := ⟨vs, is, fs⟩) hrun
  have hs := absBody_sound (σ := ⟨vs, is, fs⟩) (mkK trust y S c) _ hops l a ha
  exact hw _ a v hk (approx_ok hs hok) hwa

theorem nnLine_sound_partial {y : YearDecl} {S : SSet} {c : ClassDecl} {l : LineDecl}
    (h : nnLine y S c l = true) (inst : Option String)
    (vs : String → Option Val) (is : String → InpRes Val) (fs : String → Bool)
    (hops : OpFacts (mkK false y S c) { year := y, form := c.name, inst := inst, thresholds := c.thresholds }
      ⟨vs, is, fs⟩)
    (hw : WrapFact) (v : Val) (hrun : run vs is fs (evalLine y c inst l) = .val v) :
    Val.NN v = true :=
  (nnLineWith_sound_partial h inst vs is fs hops hw v hrun).1

/-- a line of a closed set passes the analysis -/
theorem closedWith_line {trust : Bool} {y : YearDecl} {S : SSet} (h : closedWith trust y S = true)
    {c : ClassDecl} (hc : c ∈ y.classes) {l : LineDecl} (hl : l ∈ c.lines)
    (hin : S.has (code (nats c.name)) (code (nats l.name)) = true) : nnLineWith trust y S c l = true := by
  unfold closedWith at h
  rw [List.all_eq_true] at h
  have h1 := h c hc
  unfold SSet.has at hin
  cases hlk : S.lookup (code (nats c.name)) with
  | none => rw [hlk] at hin; simp at hin
  | some ls =>
    rw [hlk] at hin h1
    simp only at hin h1
    simp only [List.all_eq_true] at h1
    have h2 := h1 l hl
    simp only [Bool.or_eq_true, Bool.not_eq_true'] at h2
    rcases h2 with h2 | h2
    · rw [h2] at hin; simp at hin
    · exact h2

end HabuVerif.Sign

section AxiomCheck
open HabuVerif.Sign HabuVerif.F64
#print axioms absBody_sound
#print axioms nnLineWith_sound_partial
#print axioms nnLine_sound_partial
#print axioms closedWith_line
#print axioms forLoop_sound
#print axioms run_mapOut_val
#print axioms lt_zero_eq
#print axioms add_notNeg
#print axioms mul_notNeg
#print axioms div_notNeg
#print axioms roundN_notNeg
#print axioms ofInt_notNeg
#print axioms ceil_notNeg
#print axioms roundInt_notNeg
#print axioms notNeg_of_lt
#print axioms lt_of_isNeg_notNeg
end AxiomCheck
