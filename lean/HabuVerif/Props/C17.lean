import HabuVerif.Proofs.C17C18ChecksLemmas
import HabuVerif.Gen.C17_2021
import HabuVerif.Gen.C17_2022
import HabuVerif.Gen.C17_2023
/-!
# C17 — Each year's form catalogue is consistent; status look-ups are total

The catalogue facts are REGENERATED from the working tree on every run (`tools/catalogue.py` →
`tools/gen_c17_c18.py` → `HabuVerif/Gen/C17_<year>.lean`) and every obligation there is closed by
`decide +kernel` over Nat-coded, sorted tables.  The theorems below say what a check that evaluates
to `true` MEANS (proved once, for all tables); the generated modules instantiate them with the
shipped catalogue.  `list-form-inputs` parse-back is checked on the real output (oracle).
-/
set_option autoImplicit false

namespace HabuVerif.C17
open HabuVerif.Refl

/-- unique form names -/
theorem names_unique {c : Catalogue} (h : namesUnique c = true) : (c.map (·.name)).Nodup :=
  namesUnique_sound h

/-- a status-keyed table that passes the check yields exactly one value for each status, and it is
the one `Form.threshold`'s first-match scan returns -/
theorem threshold_lookup_total {statuses : List Nat} {t : Table} (h : tableTotal statuses t = true) :
    ∀ s ∈ statuses, ∃ (i : Nat) (key : List Nat), t[i]? = some key ∧ s ∈ key ∧
      (∀ (j : Nat) (key' : List Nat), t[j]? = some key' → s ∈ key' → j = i) ∧ firstMatch s t = some i :=
  tableTotal_sound h

theorem all_threshold_lookups_total {statuses : List Nat} {tables : List (Nat × Table)}
    (h : thresholdsTotal statuses tables = true) :
    ∀ nt ∈ tables, ∀ s ∈ statuses, ∃ (i : Nat) (key : List Nat), nt.2[i]? = some key ∧ s ∈ key ∧
      (∀ (j : Nat) (key' : List Nat), nt.2[j]? = some key' → s ∈ key' → j = i) ∧
      firstMatch s nt.2 = some i := thresholdsTotal_sound h

/-- input and line names that pass the check are duplicate-free, lower-case and dot-free -/
theorem names_clean {names : List Nat} (h : namesClean names = true) :
    names.Nodup ∧ ∀ n ∈ names, nameOk n = true := namesClean_sound h

theorem every_class_instantiates {c : Catalogue} (h : allInstantiate c = true) :
    ∀ f ∈ c, f.instancesOk = true := allInstantiate_sound h
theorem declared_year_is_directory_year {year : Nat} {c : Catalogue} (h : yearsAgree year c = true) :
    ∀ f ∈ c, f.taxYear = some year := yearsAgree_sound h
theorem metadata_present {c : Catalogue} (h : metadataPresent c = true) :
    ∀ f ∈ c, f.hasDescription = true ∧ f.hasLongDescription = true ∧ f.hasJurisdiction = true :=
  metadataPresent_sound h

end HabuVerif.C17

#print axioms HabuVerif.C17.names_unique
#print axioms HabuVerif.C17.threshold_lookup_total
#print axioms HabuVerif.C17.all_threshold_lookups_total
#print axioms HabuVerif.C17.names_clean
#print axioms HabuVerif.C17.every_class_instantiates
#print axioms HabuVerif.C17.declared_year_is_directory_year
#print axioms HabuVerif.C17.metadata_present
