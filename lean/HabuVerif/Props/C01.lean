import HabuVerif.Proofs.SolverFinal
/-!
# C01 — No silent success

Property theorems only (lemmas live in `Proofs/`).  They are about `HabuVerif.solve`, the model of
`Solver.solve` that the correspondence harness compares with the real solver step by step; they
hold for EVERY catalogue (`CatWF`: names are `form.line`), every schedule that only reorders
(`SchedOK`), every prompt (including one that refuses at any point), every input store and request.
-/
set_option autoImplicit false
set_option linter.unusedSectionVars false
set_option linter.unusedVariables false

namespace HabuVerif.C01
open HabuVerif Tracker

variable {N I F V S : Type} [DecidableEq N] [DecidableEq I] [DecidableEq F]
variable {C : Cat N I F V S} {σ : Sched N I}
variable {P : Option (Nat → I → List N → Option S)} {inp : List (I × S)} {forms : List F}
variable {extra : List N} {fuel qfuel : Nat} {s : St N I F V S}

/-- **"Solved" is sound.** If `solve` returns with verdict *solved* then nothing was unimplemented,
no input is missing, no line is blocked, every line the solver was solving — in particular every
required line of every loaded form — has a value, and that value is what the line's definition
yields on the final stores. -/
theorem solved_sound (hC : CatWF C) (hσ : SchedOK σ)
    (h : solve C σ P inp forms extra fuel qfuel = .ok (some s)) (hs : s.solved = true) :
    s.unimpl = [] ∧ s.fdeps.unmet = [] ∧ s.ideps.unmet = [] ∧
    (∀ n, n ∈ s.solving → ∃ x, s.vf n = some x ∧ s.attempt C n = .val x) ∧
    (∀ f, f ∈ s.forms → ∀ n, n ∈ C.required f → ∃ x, s.vf n = some x) := by
  obtain ⟨hinv, hlc, _⟩ := solve_inv hC hσ h
  obtain ⟨hq, him, hfm, _⟩ := loopCond_false hlc
  simp only [St.solved, Bool.and_eq_true, Bool.not_eq_eq_eq_not, Bool.not_true,
    List.isEmpty_iff] at hs
  obtain ⟨⟨h1, h2⟩, h3⟩ := hs
  have hfu := hasUnmet_false_unmet_nil hinv.fwf hfm h1
  have hiu := hasUnmet_false_unmet_nil hinv.iwf him h2
  have hval : ∀ n, n ∈ s.solving → ∃ x, s.vf n = some x ∧ s.attempt C n = .val x := by
    intro n hn
    rcases hinv.part n hn with p | p | p | ⟨m, p⟩ | ⟨x, p⟩ | p
    · rw [hq] at p; simp at p
    · simp at p
    · cases hv : s.vf n with
      | none => exact absurd hv p
      | some x => exact ⟨x, rfl, hinv.vSound n x hv⟩
    · exact absurd p (no_waits_of_unmet_nil hfu m n)
    · exact absurd p (no_waits_of_unmet_nil hiu x n)
    · rw [h3] at p; simp at p
  refine ⟨h3, hfu, hiu, hval, ?_⟩
  intro f hf n hn
  obtain ⟨x, hx, _⟩ := hval n ((hinv.formsLoaded f hf).2.1 n hn)
  exact ⟨x, hx⟩

/-- **"Failed" is complete and names the right things.** If the verdict is *failed*, at least one
of the three diagnostics is non-empty; every line listed as unimplemented really evaluates to
"not implemented" on the final stores; every (input, line) pair reported really is a line whose
evaluation stops at that missing input; every (line, line) pair reported really is a line blocked
on a line that has no value; and every demanded line without a value is in one of the reports. -/
theorem failed_complete (hC : CatWF C) (hσ : SchedOK σ)
    (h : solve C σ P inp forms extra fuel qfuel = .ok (some s)) (hs : s.solved = false) :
    (s.unimpl ≠ [] ∨ s.fdeps.unmet ≠ [] ∨ s.ideps.unmet ≠ []) ∧
    (∀ n, n ∈ s.unimpl → s.attempt C n = .notImpl) ∧
    (∀ x n, Waits s.ideps x n → s.inf C x = .missing ∧ s.attempt C n = .needI x) ∧
    (∀ m n, Waits s.fdeps m n → s.vf m = none ∧ s.attempt C n = .needV m) ∧
    (∀ n, n ∈ s.solving → s.vf n = none →
      n ∈ s.unimpl ∨ (∃ m, Waits s.fdeps m n) ∨ (∃ x, Waits s.ideps x n)) := by
  obtain ⟨hinv, hlc, _⟩ := solve_inv hC hσ h
  obtain ⟨hq, him, hfm, _⟩ := loopCond_false hlc
  refine ⟨?_, fun n hn => (hinv.unimplSound n hn).2, ?_, ?_, ?_⟩
  · by_cases h1 : s.unimpl = []
    · by_cases h2 : s.fdeps.unmet = []
      · by_cases h3 : s.ideps.unmet = []
        · exfalso
          have : s.solved = true := by
            simp [St.solved, hasUnmet, h1, h2, h3]
          rw [hs] at this; cases this
        · exact Or.inr (Or.inr h3)
      · exact Or.inr (Or.inl h2)
    · exact Or.inl h1
  · intro x n hw
    rcases (hinv.iWait x n hw).2 with c | c
    · rw [him] at c; simp at c
    · exact c
  · intro m n hw
    rcases (hinv.fWait m n hw).2.2 with c | c
    · rw [hfm] at c; simp at c
    · exact c
  · intro n hn hv
    rcases hinv.part n hn with p | p | p | p | p | p
    · rw [hq] at p; simp at p
    · simp at p
    · exact absurd hv p
    · exact Or.inr (Or.inl p)
    · exact Or.inr (Or.inr p)
    · exact Or.inl p

/-- A prompt that refuses leaves the verdict *failed* whenever some line still needs an input. -/
theorem missing_input_not_solved (hC : CatWF C) (hσ : SchedOK σ)
    (h : solve C σ P inp forms extra fuel qfuel = .ok (some s))
    {x : I} {n : N} (hw : Waits s.ideps x n) : s.solved = false := by
  cases hs : s.solved with
  | false => rfl
  | true =>
    obtain ⟨_, _, hiu, _⟩ := solved_sound hC hσ h hs
    exact absurd hw (no_waits_of_unmet_nil hiu x n)

/-- An abort hands back no verdict at all (by construction of the result type): the three
outcomes are `error abort`, `ok none` (model out of fuel) and `ok (some finalState)`. -/
theorem abort_has_no_state {a : Abort N I F}
    (h : solve C σ P inp forms extra fuel qfuel = .error a) :
    ∀ s, solve C σ P inp forms extra fuel qfuel ≠ .ok (some s) := by
  intro s h'; rw [h] at h'; cases h'

end HabuVerif.C01

/-! ## Non-vacuity: concrete runs of the model that meet the hypotheses -/
namespace HabuVerif.C01.Examples
open HabuVerif

/-- line 0 := line 1 + 10, line 1 := input 0; line 2 is not implemented; line 3 reads itself -/
def cat : Cat Nat Nat Nat Nat Nat :=
  { sem := fun n => match n with
      | 0 => .readV 1 fun v => .ret (v + 10)
      | 1 => .readI 0 fun v => .ret v
      | 2 => .notImpl
      | 3 => .readV 3 fun v => .ret v
      | _ => .err 1
    formOfN := fun n => some (n / 10)
    formOfI := fun x => some (x / 10)
    status := fun f => if f = 0 then .ok else .unsupported
    fields := fun f => if f = 0 then [0, 1, 2, 3] else []
    required := fun f => if f = 0 then [0] else []
    inputs := fun f => if f = 0 then [0] else []
    parse := fun _ s => some s }

def sched : Sched Nat Nat := { sortQ := id, sortW := id, sortI := id, sortR := id }

def verdict (r : Res Nat Nat Nat (Option (St Nat Nat Nat Nat Nat))) : Option Bool :=
  match r with
  | .ok (some s) => some s.solved
  | _ => none

-- input supplied: solved
example : verdict (solve cat sched none [(0, 5)] [0] [] 10 10) = some true := by decide
-- input absent, no prompt: failed
example : verdict (solve cat sched none [] [0] [] 10 10) = some false := by decide
-- input absent, prompt answers 7: solved
example : verdict (solve cat sched (some fun _ _ _ => some 7) [] [0] [] 10 10) = some true := by decide
-- unimplemented line requested: failed
example : verdict (solve cat sched none [(0, 5)] [0] [2] 10 10) = some false := by decide
-- self-referential line requested: failed (blocked on itself), not divergence
example : verdict (solve cat sched none [(0, 5)] [0] [3] 10 10) = some false := by decide
-- unsupported form: abort
example : verdict (solve cat sched none [] [1] [] 10 10) = none := by decide

end HabuVerif.C01.Examples

#print axioms HabuVerif.C01.solved_sound
#print axioms HabuVerif.C01.failed_complete
#print axioms HabuVerif.C01.missing_input_not_solved
#print axioms HabuVerif.C01.abort_has_no_state
