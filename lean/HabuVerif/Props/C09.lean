import HabuVerif.Proofs.GateLemmas
/-!
# C09 — Declaring an unsupported tax situation never yields a solved return

`Spec/Gates.lean` is an abstract interpreter over the line programs: the gate input is "some value
satisfying the declaring answer", every other read is unknown, both branches of every undecided
condition are explored.  `Proofs/GateLemmas.lean` proves it sound against `Dsl.evalLine`/`run` and
lifts it through C01 to the solver.  The per-gate obligations (`Gen/C09_<year>_<k>.lean`, regenerated
from the working tree and the reviewed gate list on every run) are closed by `decide +kernel`.
The theorems audited by the check are listed below.
-/
set_option autoImplicit false

#print axioms HabuVerif.Gates.cannotReturn_sound
#print axioms HabuVerif.Gates.noReturnAfterRead_sound
#print axioms HabuVerif.Gates.checkLine_never_sound
#print axioms HabuVerif.Gates.checkLine_afterRead_sound
#print axioms HabuVerif.Gates.gate_blocks_form
#print axioms HabuVerif.Gates.gate_blocks_line
#print axioms HabuVerif.Gates.gate_read_blocks
