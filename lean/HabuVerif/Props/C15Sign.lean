import HabuVerif.Proofs.SignSound
import HabuVerif.Proofs.SignSound2
import HabuVerif.Gen.C15Sign_2021
import HabuVerif.Gen.C15Sign_2022
import HabuVerif.Gen.C15Sign_2023
/-!
# C15, second half — "no impossible negative amounts": the sign analysis

`Spec/Sign.lean` is an abstract interpreter over the line DSL: `nnLine y S c l = true` means "this
float/int line can only return a not-negative value (`Val.NN`: not `< 0`; NaN, +inf, ±0.0 count as not
negative), given not-negative inputs and not-negative stored values of the lines of the set `S`".
`tools/gen_c15_sign.py` computes from the programs REGENERATED from the working tree the greatest
sets that are closed under this rule and the kernel re-checks closedness on every run
(`sign_closed_<year>`: `sum(...)` unknown; `sign_closed_sum_<year>`: the compensated `sum` of
not-negative numbers assumed not negative).  A line of the reviewed baseline
(`tools/c15_sign_expected.json`) that drops out of its set — a lost `max(0, …)`, a misplaced
parenthesis, a wrong operand — is a broken obligation.

Soundness (`Proofs/SignSound.lean`): `absBody_sound` (mutual induction over the whole DSL, loops by a
checked invariant), `closedWith_line`, and **`nnLine_sound`** (`Proofs/SignSound2.lean`), with no hypothesis
left about the language: for a line that passes the analysis, against ALL stores whose inputs are not negative
(a) and whose stored values under keys of `S` are not-negative numbers (b), a value returned by `Dsl.run` of
`evalLine` is a not-negative number.  It covers the field wrapper, the builtin table (`max`/`min` with the
NaN-safe rule, `float`, `round`, `ceil`, `len`, `list`, `range`, `str`), `+ - * /`, thresholds, indexing, loops,
helper calls, and the string lemmas that a literal, qualified or `prefix{n}suffix` key denotes the (class, line)
the analysis computed (`key_sound`, `fstr_sound`).  `closed_line_sound'` is the induction step of the lift to
solver states: every line of a closed set returns a not-negative number when the lines of the set it reads hold
not-negative numbers.  PARTIAL: the lift itself (an invariant over solver states) is not proved, and the larger
`sum` sets trust that CPython's compensated `sum` of not-negative numbers is not negative.
-/
set_option autoImplicit false

namespace HabuVerif.C15Sign
open HabuVerif HabuVerif.Dsl HabuVerif.Sign HabuVerif.Gen

/-- regenerated and re-checked on every run: the sets are closed (variant without `sum`) -/
theorem sign_closed_2021 : closedWith false year2021 C15Sign_2021.S_2021 = true := C15Sign_2021.sign_closed_2021
theorem sign_closed_2022 : closedWith false year2022 C15Sign_2022.S_2022 = true := C15Sign_2022.sign_closed_2022
theorem sign_closed_2023 : closedWith false year2023 C15Sign_2023.S_2023 = true := C15Sign_2023.sign_closed_2023
/-- … and the larger sets of the variant that trusts `sum` -/
theorem sign_closed_sum_2021 : closedWith true year2021 C15Sign_2021.SS_2021 = true := C15Sign_2021.sign_closed_sum_2021
theorem sign_closed_sum_2022 : closedWith true year2022 C15Sign_2022.SS_2022 = true := C15Sign_2022.sign_closed_sum_2022
theorem sign_closed_sum_2023 : closedWith true year2023 C15Sign_2023.SS_2023 = true := C15Sign_2023.sign_closed_sum_2023
/-- the sets by NAME are the sets by code -/
theorem names_2021 : C15Sign_2021.S_2021 = SSet.ofNames C15Sign_2021.N_2021 := C15Sign_2021.S_2021_names
theorem names_2022 : C15Sign_2022.S_2022 = SSet.ofNames C15Sign_2022.N_2022 := C15Sign_2022.S_2022_names
theorem names_2023 : C15Sign_2023.S_2023 = SSet.ofNames C15Sign_2023.N_2023 := C15Sign_2023.S_2023_names

/-- every line of a closed set passes the analysis relative to that set (so the set is inductive) -/
theorem closed_set_line {trust : Bool} {y : YearDecl} {S : SSet} (h : closedWith trust y S = true)
    {c : ClassDecl} (hc : c ∈ y.classes) {l : LineDecl} (hl : l ∈ c.lines)
    (hin : S.has (code (nats c.name)) (code (nats l.name)) = true) : nnLineWith trust y S c l = true :=
  closedWith_line h hc hl hin

end HabuVerif.C15Sign

#print axioms HabuVerif.C15Sign.sign_closed_2021
#print axioms HabuVerif.C15Sign.sign_closed_2022
#print axioms HabuVerif.C15Sign.sign_closed_2023
#print axioms HabuVerif.C15Sign.sign_closed_sum_2021
#print axioms HabuVerif.C15Sign.sign_closed_sum_2022
#print axioms HabuVerif.C15Sign.sign_closed_sum_2023
#print axioms HabuVerif.C15Sign.names_2021
#print axioms HabuVerif.C15Sign.names_2022
#print axioms HabuVerif.C15Sign.names_2023
#print axioms HabuVerif.C15Sign.closed_set_line
#print axioms HabuVerif.Sign.absBody_sound
#print axioms HabuVerif.Sign.nnLineWith_sound_partial
#print axioms HabuVerif.Sign.nnLine_sound_partial
#print axioms HabuVerif.Sign.nnLine_sound_partial2
#print axioms HabuVerif.Sign.opFacts_of
#print axioms HabuVerif.Sign.nnLine_sound_partial3
#print axioms HabuVerif.Sign.nnLine_sound_partial4
#print axioms HabuVerif.Sign.intToFloatNN
#print axioms HabuVerif.Sign.nnLine_sound_partial5
#print axioms HabuVerif.Sign.closed_line_sound
#print axioms HabuVerif.Sign.key_sound
#print axioms HabuVerif.Sign.fstr_sound
#print axioms HabuVerif.Sign.roundFact
#print axioms HabuVerif.Sign.roundFloatNegFact
#print axioms HabuVerif.Sign.nnLine_sound
#print axioms HabuVerif.Sign.closed_line_sound'
#print axioms HabuVerif.Sign.restFacts_of
#print axioms HabuVerif.Sign.wrapFact
#print axioms HabuVerif.Sign.call_sound
#print axioms HabuVerif.Sign.maxFact
#print axioms HabuVerif.Sign.div_fact
#print axioms HabuVerif.Sign.mul_NN
#print axioms HabuVerif.Sign.thresh_sound
