import HabuVerif.Proofs.SignSound
import HabuVerif.Proofs.SignSound2
import HabuVerif.Proofs.SignLift
import HabuVerif.Gen.C15Sign_2021
import HabuVerif.Gen.C15Sign_2022
import HabuVerif.Gen.C15Sign_2023
/-!
# C15, second half — "no impossible negative amounts": the sign analysis

`Spec/Sign.lean` is an abstract interpreter over the line DSL: `nnLine y S c l = true` means "this
float/int line can only return a not-negative value (`Val.NN`: not `< 0`; NaN, +inf, ±0.0 count as not
negative), given not-negative inputs and not-negative stored values of the lines of the set `S`".
`tools/gen_c15_sign.py` computes from the programs REGENERATED from the working tree the greatest
sets that are closed under this rule and the kernel re-checks closedness on every run
(`sign_closed_<year>`: `sum(...)` unknown; `sign_closed_sum_<year>`: the compensated `sum` of
not-negative numbers assumed not negative).  A line of the reviewed baseline
(`tools/c15_sign_expected.json`) that drops out of its set — a lost `max(0, …)`, a misplaced
parenthesis, a wrong operand — is a broken obligation.

Soundness (`Proofs/SignSound.lean`): `absBody_sound` (mutual induction over the whole DSL, loops by a
checked invariant), `closedWith_line`, and **`nnLine_sound`** (`Proofs/SignSound2.lean`), with no hypothesis
left about the language: for a line that passes the analysis, against ALL stores whose inputs are not negative
(a) and whose stored values under keys of `S` are not-negative numbers (b), a value returned by `Dsl.run` of
`evalLine` is a not-negative number.  It covers the field wrapper, the builtin table (`max`/`min` with the
NaN-safe rule, `float`, `round`, `ceil`, `len`, `list`, `range`, `str`), `+ - * /`, thresholds, indexing, loops,
helper calls, and the string lemmas that a literal, qualified or `prefix{n}suffix` key denotes the (class, line)
the analysis computed (`key_sound`, `fstr_sound`).  `closed_line_sound'` is the induction step of the lift to
solver states: every line of a closed set returns a not-negative number when the lines of the set it reads hold
not-negative numbers.  The lift to solver states is proved too (below).  PARTIAL: the larger `sum` sets trust that CPython's
compensated `sum` of not-negative numbers is not negative (they are re-checked for closedness, but no soundness
theorem is claimed for them), and lines outside the sets are decided by the oracle.
-/
set_option autoImplicit false

namespace HabuVerif.C15Sign
open HabuVerif HabuVerif.Dsl HabuVerif.Sign HabuVerif.Gen

/-- regenerated and re-checked on every run: the sets are closed (variant without `sum`) -/
theorem sign_closed_2021 : closedWith false year2021 C15Sign_2021.S_2021 = true := C15Sign_2021.sign_closed_2021
theorem sign_closed_2022 : closedWith false year2022 C15Sign_2022.S_2022 = true := C15Sign_2022.sign_closed_2022
theorem sign_closed_2023 : closedWith false year2023 C15Sign_2023.S_2023 = true := C15Sign_2023.sign_closed_2023
/-- … and the larger sets of the variant that trusts `sum` -/
theorem sign_closed_sum_2021 : closedWith true year2021 C15Sign_2021.SS_2021 = true := C15Sign_2021.sign_closed_sum_2021
theorem sign_closed_sum_2022 : closedWith true year2022 C15Sign_2022.SS_2022 = true := C15Sign_2022.sign_closed_sum_2022
theorem sign_closed_sum_2023 : closedWith true year2023 C15Sign_2023.SS_2023 = true := C15Sign_2023.sign_closed_sum_2023
/-- the sets by NAME are the sets by code -/
theorem names_2021 : C15Sign_2021.S_2021 = SSet.ofNames C15Sign_2021.N_2021 := C15Sign_2021.S_2021_names
theorem names_2022 : C15Sign_2022.S_2022 = SSet.ofNames C15Sign_2022.N_2022 := C15Sign_2022.S_2022_names
theorem names_2023 : C15Sign_2023.S_2023 = SSet.ofNames C15Sign_2023.N_2023 := C15Sign_2023.S_2023_names

/-- every line of a closed set passes the analysis relative to that set (so the set is inductive) -/
theorem closed_set_line {trust : Bool} {y : YearDecl} {S : SSet} (h : closedWith trust y S = true)
    {c : ClassDecl} (hc : c ∈ y.classes) {l : LineDecl} (hl : l ∈ c.lines)
    (hin : S.has (code (nats c.name)) (code (nats l.name)) = true) : nnLineWith trust y S c l = true :=
  closedWith_line h hc hl hin

/-! ## The lift to every state the solver returns (`Proofs/SignLift.lean`)

`Sign.solved_lines_not_negative`: an invariant over solver states (every stored value under a key of `S` is a
not-negative number; every stored input text that parses, parses to a not-negative value), threaded through every
step of the solver model with `StepPres`; the only step that stores a line value is an evaluation of that line's
regenerated program, where `semBridge` (catalogue name ↦ class, instance, line declaration) and
`closed_line_sound'` apply.  Instantiated with the closed sets of each year: -/

section lift
variable {σ : Sched String String} {Po : Option (Nat → String → List String → Option String)}
  {inp : List (String × String)} {forms extra : List String} {fuel qfuel : Nat}
  {s : St String String String Val String}

/-- **2021: in every state the solver returns for a return whose input amounts are not negative, every stored
value of a line of `S_2021` (391 of the 569 numeric lines) is a not-negative number.** -/
theorem solved_lines_not_negative_2021 (hσ : SchedOK σ)
    (hinp : ∀ x str v, inp.lookup x = some str → (mkCat year2021).parse x str = some v → Val.NN v = true)
    (hans : ∀ P, Po = some P → ∀ k x nb str v, P k x nb = some str → (mkCat year2021).parse x str = some v →
      Val.NN v = true)
    (h : solve (mkCat year2021) σ Po inp forms extra fuel qfuel = .ok (some s)) :
    ∀ n v, s.vf n = some v → keyIn C15Sign_2021.S_2021 n = true → Val.NN v = true ∧ Val.isNum v = true :=
  Sign.solved_lines_not_negative sign_closed_2021 hσ hinp hans h

theorem solved_lines_not_negative_2022 (hσ : SchedOK σ)
    (hinp : ∀ x str v, inp.lookup x = some str → (mkCat year2022).parse x str = some v → Val.NN v = true)
    (hans : ∀ P, Po = some P → ∀ k x nb str v, P k x nb = some str → (mkCat year2022).parse x str = some v →
      Val.NN v = true)
    (h : solve (mkCat year2022) σ Po inp forms extra fuel qfuel = .ok (some s)) :
    ∀ n v, s.vf n = some v → keyIn C15Sign_2022.S_2022 n = true → Val.NN v = true ∧ Val.isNum v = true :=
  Sign.solved_lines_not_negative sign_closed_2022 hσ hinp hans h

theorem solved_lines_not_negative_2023 (hσ : SchedOK σ)
    (hinp : ∀ x str v, inp.lookup x = some str → (mkCat year2023).parse x str = some v → Val.NN v = true)
    (hans : ∀ P, Po = some P → ∀ k x nb str v, P k x nb = some str → (mkCat year2023).parse x str = some v →
      Val.NN v = true)
    (h : solve (mkCat year2023) σ Po inp forms extra fuel qfuel = .ok (some s)) :
    ∀ n v, s.vf n = some v → keyIn C15Sign_2023.S_2023 n = true → Val.NN v = true ∧ Val.isNum v = true :=
  Sign.solved_lines_not_negative sign_closed_2023 hσ hinp hans h

end lift

/-- the statement is about real lines: total tax (1040 line 24) and the QBI deduction (line 13) of 2023 are keys of
the set, the refund-side subtraction line 37 is not -/
example : keyIn C15Sign_2023.S_2023 "1040.24" = true ∧ keyIn C15Sign_2023.S_2023 "1040.13" = true ∧
    keyIn C15Sign_2023.S_2023 "w-2:1.box_2" = true ∧ keyIn C15Sign_2023.S_2023 "1040.37" = false := by decide +kernel

end HabuVerif.C15Sign

#print axioms HabuVerif.C15Sign.sign_closed_2021
#print axioms HabuVerif.C15Sign.sign_closed_2022
#print axioms HabuVerif.C15Sign.sign_closed_2023
#print axioms HabuVerif.C15Sign.sign_closed_sum_2021
#print axioms HabuVerif.C15Sign.sign_closed_sum_2022
#print axioms HabuVerif.C15Sign.sign_closed_sum_2023
#print axioms HabuVerif.C15Sign.names_2021
#print axioms HabuVerif.C15Sign.names_2022
#print axioms HabuVerif.C15Sign.names_2023
#print axioms HabuVerif.C15Sign.closed_set_line
#print axioms HabuVerif.Sign.absBody_sound
#print axioms HabuVerif.Sign.nnLineWith_sound_partial
#print axioms HabuVerif.Sign.nnLine_sound_partial
#print axioms HabuVerif.Sign.nnLine_sound_partial2
#print axioms HabuVerif.Sign.opFacts_of
#print axioms HabuVerif.Sign.nnLine_sound_partial3
#print axioms HabuVerif.Sign.nnLine_sound_partial4
#print axioms HabuVerif.Sign.intToFloatNN
#print axioms HabuVerif.Sign.nnLine_sound_partial5
#print axioms HabuVerif.Sign.closed_line_sound
#print axioms HabuVerif.Sign.key_sound
#print axioms HabuVerif.Sign.fstr_sound
#print axioms HabuVerif.Sign.roundFact
#print axioms HabuVerif.Sign.roundFloatNegFact
#print axioms HabuVerif.Sign.nnLine_sound
#print axioms HabuVerif.Sign.semBridge
#print axioms HabuVerif.Sign.solved_lines_not_negative
#print axioms HabuVerif.C15Sign.solved_lines_not_negative_2021
#print axioms HabuVerif.C15Sign.solved_lines_not_negative_2022
#print axioms HabuVerif.C15Sign.solved_lines_not_negative_2023
#print axioms HabuVerif.Sign.closed_line_sound'
#print axioms HabuVerif.Sign.restFacts_of
#print axioms HabuVerif.Sign.wrapFact
#print axioms HabuVerif.Sign.call_sound
#print axioms HabuVerif.Sign.maxFact
#print axioms HabuVerif.Sign.div_fact
#print axioms HabuVerif.Sign.mul_NN
#print axioms HabuVerif.Sign.thresh_sound
