import HabuVerif.Proofs.FieldsLemmas
/-!
# C12 — Stored line values have the declared type, rounding and blank convention

`Fields.fieldValue` is the model of `TypedField.value` / `FloatField.value` (compared with the real
classes on every kind of Python value by the `fields` correspondence stream).  In the solver model
`Cat.sem` is a line's strategy tree composed with this wrapper, so by C03 a rejected value is never
stored and a stored one is rounded before anything reads it.
-/
set_option autoImplicit false

namespace HabuVerif.C12
open HabuVerif HabuVerif.Fields HabuVerif.Inputs HabuVerif.PyStr

variable {F : Type} (T : CharTable) (ops : FloatOps F)

/-- every value the wrapper lets through has exactly the declared type -/
theorem stored_value_typed (ft : FieldTy) (v w : PyVal F) (h : fieldValue T ops ft v = .ok w) :
    WellTyped ft w := fieldValue_typed T ops ft v w h

/-- a line that declines to answer (`None`) or answers blank text is stored as the type's empty value -/
theorem blank_is_empty_value (ft : FieldTy) (v : PyVal F) (hb : isBlank T v = true) :
    fieldValue T ops ft v = .ok (storedEmpty ops ft) := fieldValue_blank T ops ft v hb

/-- any non-blank value of another type is rejected (`TypeError`), not stored or coerced -/
theorem other_type_rejected (ft : FieldTy) (v : PyVal F) (hb : isBlank T v = false)
    (ht : hasType ft v = false) : fieldValue T ops ft v = .error .typeError :=
  fieldValue_rejects T ops ft v hb ht

/-- `True` is not an integer, `3` is not a float -/
theorem bool_rejected_for_integer_line (b : Bool) :
    fieldValue T ops .int (.bool b) = .error .typeError := intField_rejects_bool T ops b
theorem int_rejected_for_money_line (p : Nat) (i : Int) :
    fieldValue T ops (.float p) (.int i) = .error .typeError := floatField_rejects_int T ops p i

/-- money lines are stored rounded to the line's number of places (given that rounding is
idempotent — proved for the F64 model in `Proofs/F64Lemmas`) -/
theorem money_is_rounded (hidem : ∀ x n, ops.roundN (ops.roundN x n) n = ops.roundN x n)
    (p : Nat) (v w : PyVal F) (h : fieldValue T ops (.float p) v = .ok w) :
    ∃ y, w = .float y ∧ ops.roundN y p = y := fieldValue_rounded_fixed T ops hidem p v w h

/-- an input-only form's line accepts whatever its input's `value` returns -/
theorem input_form_line_total (sp : InputSpec) (ft : FieldTy) (hft : fieldOfInput sp = .ok ft)
    (s : Text) (v : PyVal F) (hv : value T ops sp s = .ok v) :
    ∃ w, fieldValue T ops ft v = .ok w := inputForm_field_total T ops sp ft hft s v hv

end HabuVerif.C12

#print axioms HabuVerif.C12.stored_value_typed
#print axioms HabuVerif.C12.blank_is_empty_value
#print axioms HabuVerif.C12.other_type_rejected
#print axioms HabuVerif.C12.bool_rejected_for_integer_line
#print axioms HabuVerif.C12.int_rejected_for_money_line
#print axioms HabuVerif.C12.money_is_rounded
#print axioms HabuVerif.C12.input_form_line_total
