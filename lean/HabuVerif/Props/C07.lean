import HabuVerif.Proofs.C07Lemmas
import HabuVerif.Gen.C07
/-!
# C07 — Income tax on a taxable amount follows the year's statutory rate schedule

`HabuVerif/Gen/C07_<year>.lean` is REGENERATED from the working tree's `TAX_TABLE` /
`TAX_WORKSHEET_VALUES` (decimal literals carried exactly) on every run; the per-cell, contiguity,
monotonicity, worksheet-identity, junction and status-column obligations are closed by
`decide +kernel` against `Spec/Brackets.lean` (the bracket schedules of Rev. Proc. 2020-45 / 2021-45 /
2022-38, entered independently of the code).  The general theorems of `Proofs/C07Lemmas.lean` lift
them to EVERY rational income in [0, 10^12].  They are about the exact-rational reading of the same
data; the code evaluates in binary floats (the F64 model and the oracle on the real `figure_tax`
cover that side).
-/
set_option autoImplicit false

namespace HabuVerif.C07
open HabuVerif.Spec

/-- the statutory schedule itself: non-decreasing, never steeper than the top rate -/
theorem schedule_monotone_and_bounded (y : Year) (c : Col) {a b : Rat} (ha : 0 ≤ a) (hab : a ≤ b) :
    0 ≤ bracketTax y c b - bracketTax y c a ∧
      bracketTax y c b - bracketTax y c a ≤ 37 / 100 * (b - a) := bracketTax_slope y c ha hab

/-- **Defined and equal to the schedule**: for any year whose regenerated data passed the
obligations (`Checked`), every status and every income in [0, 10^12]: below $100,000 the result is
the tax at the midpoint of the row containing the income rounded half-up to whole dollars, at or
above $100,000 it is the exact bracket formula. -/
theorem follows_rate_schedule {y : Year} {d : FTData} (h : Checked y d) (st : Status) {x : Rat}
    (h0 : 0 ≤ x) (h1 : x ≤ 1000000000000) :
    (x < 100000 → ∃ r ∈ d.table, (r.lo : Rat) ≤ x ∧ x < (r.hi : Rat) ∧
        figureTaxQ d x st = .ok ((tableCell y st.specCol r.lo r.hi : Nat) : Rat)) ∧
    (100000 ≤ x → figureTaxQ d x st = .ok (bracketTax y st.specCol x)) := figureTaxQ_eq_spec h st h0 h1

theorem non_decreasing {y : Year} {d : FTData} (h : Checked y d) (st : Status) {x x' : Rat}
    (h0 : 0 ≤ x) (hxx : x ≤ x') (h2 : x' ≤ 1000000000000) :
    ∃ a b, figureTaxQ d x st = .ok a ∧ figureTaxQ d x' st = .ok b ∧ a ≤ b := figureTaxQ_mono h st h0 hxx h2

theorem qss_equals_mfj {d : FTData} (h : qssEqMfj d = true) (x : Rat) :
    figureTaxQ d x .qss = figureTaxQ d x .mfj := figureTaxQ_qss_eq_mfj h x

end HabuVerif.C07

#print axioms HabuVerif.C07.schedule_monotone_and_bounded
#print axioms HabuVerif.C07.follows_rate_schedule
#print axioms HabuVerif.C07.non_decreasing
#print axioms HabuVerif.C07.qss_equals_mfj
#print axioms HabuVerif.Gen.checked_2021
#print axioms HabuVerif.Gen.checked_2022
#print axioms HabuVerif.Gen.checked_2023
#print axioms HabuVerif.Gen.figureTaxQ_eq_spec_2021
#print axioms HabuVerif.Gen.figureTaxQ_eq_spec_2022
#print axioms HabuVerif.Gen.figureTaxQ_eq_spec_2023
#print axioms HabuVerif.Gen.figure_tax_mono_2023
#print axioms HabuVerif.Gen.figure_tax_marginal_2023
