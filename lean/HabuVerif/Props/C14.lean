import HabuVerif.Proofs.CliLemmas
import HabuVerif.Proofs.FieldsLemmas
import HabuVerif.Proofs.C14Decimal
import HabuVerif.Gen.Catalogue2021
import HabuVerif.Gen.Catalogue2022
import HabuVerif.Gen.Catalogue2023
/-!
# C14 — A written solution reads back to exactly the values that were solved

Two layers.  (1) The file: `Cli.toConfig` / `attachMeta` / `write` / `parse` / `readBack` model
`ValueStore.to_config`, `solution['habutax'] = …`, `solution.write`, and what `fill_pdfs` +
`PDFFiller._read_form_fields` see; every (form, line, text) triple reads back and the tax year is
carried.  (2) The text of one value: `Fields.toString` / `fromString` per line type.
Both are compared with the real code by the `cli`, `fields` and `f64` correspondence streams.
-/
set_option autoImplicit false

namespace HabuVerif.C14
open HabuVerif HabuVerif.Ini HabuVerif.Cli

/-- **The file layer.** For every list of (form, line, text) triples with distinct
(form, lower-cased line) keys, clean texts and form names other than `habutax` / `DEFAULT`:
the written solution parses, the tax year reads back as the integer written, every triple is found
under its (form, line) with its text, and nothing else is found. -/
theorem solution_reads_back (ts : List (Text × Text × Text)) (y : Nat) (v : Text)
    (hok : SolutionOk ts) (hv : CleanVal v) :
    ∃ d, parse (write (attachMeta (toConfig ts) y v)) = .ok d ∧
      readBack d = .ok (Int.ofNat y, (toConfig ts).sections) ∧
      (∀ t ∈ ts, ∃ os, (toConfig ts).sections.lookup t.1 = some os ∧
        os.lookup (optionxform t.2.1) = some t.2.2) ∧
      (∀ s ∈ (toConfig ts).sections, ∀ kv ∈ s.2, ∃ t ∈ ts, t.1 = s.1 ∧ optionxform t.2.1 = kv.1 ∧
        t.2.2 = kv.2) := solution_file_roundtrip ts y v hok hv

section values
open HabuVerif.Fields HabuVerif.Inputs HabuVerif.PyStr
variable {F : Type} (T : CharTable) (ops : FloatOps F)

/-- **The value layer**: booleans, integers and text read back exactly … -/
theorem bool_reads_back (hT : AsciiCompat T) (b : Bool) (s : PyStr.Text)
    (h : Fields.toString T ops .bool (.bool b) = .ok s) : fromString T ops .bool s = .ok (.bool b) :=
  fromString_toString_bool T ops hT b s h

/-- … and money reads back under two hypotheses about the float carrier (kept for an abstract
carrier `F`; for binary64 they are THEOREMS, see `money_reads_back` below). -/
theorem money_reads_back_partial (p : Nat) (x : F)
    (hidem : ∀ y n, ops.roundN (ops.roundN y n) n = ops.roundN y n)
    (hparse : ∃ d, parseFloatLit T (ops.fmt (ops.roundN x p) p) = some d ∧
      ops.ofLit d = ops.roundN x p) (s : PyStr.Text)
    (h : Fields.toString T ops (.float p) (.float (ops.roundN x p)) = .ok s) :
    fromString T ops (.float p) s = .ok (.float (ops.roundN x p)) :=
  fromString_toString_float T ops p x hidem hparse s h

end values

section binary64
open HabuVerif.Fields HabuVerif.Inputs HabuVerif.PyStr HabuVerif.Dsl
variable (T : CharTable)

/-- **Money reads back, for binary64, with no hypothesis on the value.**  For the bit-exact model of
CPython's `round(x, p)`, `f'{v:.{p}f}'` and `float(s)` (`Py/F64.lean`, `Py/Str.lean`, compared with
CPython bit for bit by the `f64` and `fields` streams) and every double `x` (any magnitude, ±0.0,
inf, nan): the text written for the stored value `round(x, p)` reads back
(`round(float(text), p)`) as exactly that stored value — for the places habutax uses, 0, 2 and 5
(`catalogue_places_*` below shows on every run that these are all). -/
theorem money_reads_back (p : Nat) (hp : p = 0 ∨ p = 2 ∨ p = 5) (x : F64) (text : PyStr.Text)
    (h : Fields.toString T f64Ops (.float p) (.float (f64Ops.roundN x p)) = .ok text) :
    fromString T f64Ops (.float p) text = .ok (.float (f64Ops.roundN x p)) :=
  C14Decimal.money_reads_back T p hp x text h

/-- **Whatever a float line stores reads back**: if `FloatField.value` (type guard, blank
convention, rounding) produced `w`, then `to_string` succeeds and `from_string` of its text is `w`. -/
theorem stored_money_reads_back (p : Nat) (hp : p = 0 ∨ p = 2 ∨ p = 5) (v w : PyVal F64)
    (hv : fieldValue T f64Ops (.float p) v = .ok w) :
    ∃ text, Fields.toString T f64Ops (.float p) w = .ok text ∧
      fromString T f64Ops (.float p) text = .ok w :=
  C14Decimal.stored_money_reads_back T p hp v w hv

/-- the decimal places of every float line of a year's catalogue are 0, 2 or 5 -/
def placesOK (y : YearDecl) : Bool :=
  y.classes.all fun c => c.lines.all fun l =>
    match l.kind with
    | .float p => p == 0 || p == 2 || p == 5
    | _ => true

/-- regenerated from /repo on every run -/
theorem catalogue_places_2021 : placesOK Gen.year2021 = true := by decide +kernel
theorem catalogue_places_2022 : placesOK Gen.year2022 = true := by decide +kernel
theorem catalogue_places_2023 : placesOK Gen.year2023 = true := by decide +kernel

theorem placesOK_spec (y : YearDecl) (h : placesOK y = true) (c : ClassDecl) (hc : c ∈ y.classes)
    (l : LineDecl) (hl : l ∈ c.lines) (p : Nat) (hk : l.kind = .float p) : p = 0 ∨ p = 2 ∨ p = 5 := by
  unfold placesOK at h
  have h1 := (List.all_eq_true.mp h) c hc
  have h2 := (List.all_eq_true.mp h1) l hl
  simp only [hk] at h2
  simp only [Bool.or_eq_true, beq_iff_eq] at h2
  omega

end binary64
end HabuVerif.C14

#print axioms HabuVerif.C14.solution_reads_back
#print axioms HabuVerif.C14.bool_reads_back
#print axioms HabuVerif.C14.money_reads_back_partial
#print axioms HabuVerif.C14.money_reads_back
#print axioms HabuVerif.C14.stored_money_reads_back
#print axioms HabuVerif.C14.catalogue_places_2021
#print axioms HabuVerif.C14.catalogue_places_2022
#print axioms HabuVerif.C14.catalogue_places_2023
#print axioms HabuVerif.C14.placesOK_spec
