import HabuVerif.Proofs.CliLemmas
import HabuVerif.Proofs.FieldsLemmas
/-!
# C14 — A written solution reads back to exactly the values that were solved

Two layers.  (1) The file: `Cli.toConfig` / `attachMeta` / `write` / `parse` / `readBack` model
`ValueStore.to_config`, `solution['habutax'] = …`, `solution.write`, and what `fill_pdfs` +
`PDFFiller._read_form_fields` see; every (form, line, text) triple reads back and the tax year is
carried.  (2) The text of one value: `Fields.toString` / `fromString` per line type.
Both are compared with the real code by the `cli`, `fields` and `f64` correspondence streams.
-/
set_option autoImplicit false

namespace HabuVerif.C14
open HabuVerif HabuVerif.Ini HabuVerif.Cli

/-- **The file layer.** For every list of (form, line, text) triples with distinct
(form, lower-cased line) keys, clean texts and form names other than `habutax` / `DEFAULT`:
the written solution parses, the tax year reads back as the integer written, every triple is found
under its (form, line) with its text, and nothing else is found. -/
theorem solution_reads_back (ts : List (Text × Text × Text)) (y : Nat) (v : Text)
    (hok : SolutionOk ts) (hv : CleanVal v) :
    ∃ d, parse (write (attachMeta (toConfig ts) y v)) = .ok d ∧
      readBack d = .ok (Int.ofNat y, (toConfig ts).sections) ∧
      (∀ t ∈ ts, ∃ os, (toConfig ts).sections.lookup t.1 = some os ∧
        os.lookup (optionxform t.2.1) = some t.2.2) ∧
      (∀ s ∈ (toConfig ts).sections, ∀ kv ∈ s.2, ∃ t ∈ ts, t.1 = s.1 ∧ optionxform t.2.1 = kv.1 ∧
        t.2.2 = kv.2) := solution_file_roundtrip ts y v hok hv

section values
open HabuVerif.Fields HabuVerif.Inputs HabuVerif.PyStr
variable {F : Type} (T : CharTable) (ops : FloatOps F)

/-- **The value layer**: booleans, integers and text read back exactly … -/
theorem bool_reads_back (hT : AsciiCompat T) (b : Bool) (s : PyStr.Text)
    (h : Fields.toString T ops .bool (.bool b) = .ok s) : fromString T ops .bool s = .ok (.bool b) :=
  fromString_toString_bool T ops hT b s h

/-- … and money (a value rounded to the line's places) reads back exactly, PROVIDED the decimal
text `'%.nf' % x` parses back to `x` — true for the correctly rounded `'%.nf'` / `float()` pair on
rounded values of ordinary magnitude; this hypothesis is validated by the `f64` and `fields`
streams (bit-exact), not proved (`…_partial`). -/
theorem money_reads_back_partial (p : Nat) (x : F)
    (hidem : ∀ y n, ops.roundN (ops.roundN y n) n = ops.roundN y n)
    (hparse : ∃ d, parseFloatLit T (ops.fmt (ops.roundN x p) p) = some d ∧
      ops.ofLit d = ops.roundN x p) (s : PyStr.Text)
    (h : Fields.toString T ops (.float p) (.float (ops.roundN x p)) = .ok s) :
    fromString T ops (.float p) s = .ok (.float (ops.roundN x p)) :=
  fromString_toString_float T ops p x hidem hparse s h

end values
end HabuVerif.C14

#print axioms HabuVerif.C14.solution_reads_back
#print axioms HabuVerif.C14.bool_reads_back
#print axioms HabuVerif.C14.money_reads_back_partial
