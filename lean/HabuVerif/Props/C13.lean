import HabuVerif.Proofs.Confluence3
import HabuVerif.Props.C05
/-!
# C13 — Prompting is demand-exact; written-back answers make the run repeatable
-/
set_option autoImplicit false
set_option linter.unusedSectionVars false
set_option linter.unusedVariables false

namespace HabuVerif.C13
open HabuVerif Tracker

variable {N I F V S : Type} [DecidableEq N] [DecidableEq I] [DecidableEq F]
variable {C : Cat N I F V S}

/-- **Asked only if read and absent; the lines quoted really read it.**  Whenever the solver
prompts (`_attempt_input` on an input that has waiters and was not just met — which is the only
way `solve` calls it, see `iteration_inv`), the input is declared but absent from the store, the
list handed to the prompt is non-empty, and every line in it is a demanded line whose evaluation
on the current stores stops exactly at the read of that input. -/
theorem prompt_is_demand_exact {P : Nat → I → List N → Option S} {L : List N}
    {s : St N I F V S} {x : I} (hinv : Inv C L s) (hxm : x ∉ s.ideps.met)
    (hxk : x ∈ keys s.ideps.unmet) :
    ∃ nb, s.ideps.unmetDependents x = some nb ∧ nb ≠ [] ∧ s.inf C x = .missing ∧ s.inpf x = none ∧
      ∀ n, n ∈ nb → n ∈ s.solving ∧ s.attempt C n = .needI x := by
  obtain ⟨p, hp, hpx⟩ := List.mem_map.mp hxk
  have hlk : s.ideps.unmet.lookup x = some p.2 := by
    apply lookup_eq_some_of_mem hinv.iwf.nodup
    rw [← hpx]; exact hp
  have hwait : ∀ n, n ∈ p.2 → Waits s.ideps x n := by
    intro n hn
    exact mem_pairs.mpr ⟨p.2, by rw [← hpx]; exact hp, hn⟩
  have hall : ∀ n, n ∈ p.2 → n ∈ s.solving ∧ s.inf C x = .missing ∧ s.attempt C n = .needI x := by
    intro n hn
    obtain ⟨a, c⟩ := hinv.iWait x n (hwait n hn)
    rcases c with c | c
    · exact absurd c hxm
    · exact ⟨a, c.1, c.2⟩
  have hne : p.2 ≠ [] := hinv.iwf.nonempty p hp
  obtain ⟨w, hw⟩ := List.exists_mem_of_ne_nil _ hne
  have hmiss := (hall w hw).2.1
  exact ⟨p.2, hlk, hne, hmiss, (inpf_none_of_missing hmiss).1, fun n hn => ⟨(hall n hn).1, (hall n hn).2.2⟩⟩

variable {σ τ : Sched N I} {mode : PromptMode S I N} {file : List (I × S)} {forms : List F}
variable {extra : List N} {f1 q1 f2 q2 : Nat}

/-- **Never asked if supplied; nothing invented.**  In the final store every input of the file is
still there with the file's text, and every other input it holds is an answer the prompt gave
for an input that the file did not supply. -/
theorem inputs_are_file_plus_answers (hC : CatWF C) (hσ : SchedOK σ) {s : St N I F V S}
    (h : solve C σ mode.toP file forms extra f1 q1 = .ok (some s)) :
    (∀ x t, file.lookup x = some t → s.inpf x = some t) ∧
    (∀ x t, s.inpf x = some t → file.lookup x = some t ∨
      (file.lookup x = none ∧ ∃ k nb, mode.fn k x nb = some t)) :=
  ⟨(run_facts hC hσ h).src.fileIn, (run_facts hC hσ h).src.src⟩

/-- **Re-run on the written-back inputs: silent and identical.**  Let a run (any schedule) end in
`T`, and let `file'` hold exactly the final inputs of that run (what `--writeback-input` leaves on
disk, once read back — see `Ini.write_parse_roundtrip`).  Then a second run on `file'` (any other
schedule) acquires no new input — it asks nothing that gets answered — and produces the same
verdict, values, lines, forms and diagnostics. -/
theorem rerun_silent_and_identical (hC : CatWF C) (hσ : SchedOK σ) (hτ : SchedOK τ)
    {file' : List (I × S)} {T s : St N I F V S}
    (hA : solve C σ mode.toP file forms extra f1 q1 = .ok (some T))
    (hfile' : ∀ x, file'.lookup x = T.inpf x)
    (hB : solve C τ mode.toP file' forms extra f2 q2 = .ok (some s)) :
    (∀ x, s.inpf x = file'.lookup x) ∧ C05.SameResult s T := by
  have fT := run_facts hC hσ hA
  have fs := run_facts hC hτ hB
  -- T, seen as a closed state for the request with file'
  have fT' : RunFacts (C := C) mode file' forms extra T :=
    { inv := fT.inv, lc := fT.lc, closed := fT.closed,
      src := ⟨fun x t hx => by rw [← hfile' x]; exact hx, fun x t hx => Or.inl (by rw [hfile' x]; exact hx)⟩,
      startSol := fT.startSol, startForms := fT.startForms, startSpecs := fT.startSpecs }
  have b1 : Below s T := below_of_closed hC hτ hB fT' (fun _ h => h) (fun _ h => h)
  -- s, seen as a closed state for the request with the original file
  have fs' : RunFacts (C := C) mode file forms extra s :=
    { inv := fs.inv, lc := fs.lc, closed := fs.closed,
      src := by
        refine ⟨?_, ?_⟩
        · intro x t hx
          exact fs.src.fileIn x t (by rw [hfile' x]; exact fT.src.fileIn x t hx)
        · intro x t hx
          rcases fs.src.src x t hx with h' | ⟨h', hp⟩
          · rw [hfile' x] at h'
            exact fT.src.src x t h'
          · refine Or.inr ⟨?_, hp⟩
            cases hf : file.lookup x with
            | none => rfl
            | some t' =>
              have := fT.src.fileIn x t' hf
              rw [← hfile' x, h'] at this; cases this
      startSol := fs.startSol, startForms := fs.startForms, startSpecs := fs.startSpecs }
  have b2 : Below T s := below_of_closed hC hσ hA fs' (fun _ h => h) (fun _ h => h)
  have hinp : s.inpf = T.inpf := ext_antisymm b1.inp b2.inp
  refine ⟨fun x => by rw [hfile' x, hinp], ?_⟩
  -- same packaging as in C05
  have hv : s.vf = T.vf := ext_antisymm b1.v b2.v
  have hsol : ∀ n, n ∈ s.solving ↔ n ∈ T.solving := fun n => ⟨b1.sol n, b2.sol n⟩
  have hatt : ∀ n, s.attempt C n = T.attempt C n := attempt_eq_of_below b1 b2
  obtain ⟨u1, w1, x1⟩ := C05.diag_char fs
  obtain ⟨u2, w2, x2⟩ := C05.diag_char fT
  refine ⟨?_, hv, hsol, fun f => ⟨b1.forms f, b2.forms f⟩, hinp, ?_, ?_, ?_⟩
  · have e1 := solved_iff fs.inv fs.lc
    have e2 := solved_iff fT.inv fT.lc
    cases h1 : s.solved with
    | true =>
      have := e1.mp h1
      have h2 : T.solved = true := e2.mpr (fun n hn => by rw [← hv]; exact this n ((hsol n).mpr hn))
      rw [h2]
    | false =>
      cases h2 : T.solved with
      | false => rfl
      | true =>
        have := e2.mp h2
        have : s.solved = true := e1.mpr (fun n hn => by rw [hv]; exact this n ((hsol n).mp hn))
        rw [h1] at this; cases this
  · intro n; rw [u1 n, u2 n, hsol n, hatt n]
  · intro m n; rw [w1 m n, w2 m n, hsol n, hatt n]
  · intro x n; rw [x1 x n, x2 x n, hsol n, hatt n]

/-- **Inputs never read are not required for success**: a solved return's demanded lines all
evaluate to their values using only inputs whose text the store holds — formally, deleting from
the file any input that no demanded line's evaluation reads cannot be observed through `run`
(`run` consults the store only at the reads it performs).  Stated for one line: -/
theorem unread_input_irrelevant (vs : N → Option V) (is is' : I → InpRes V) (fs : F → Bool)
    (t : Tree N I F V) (v : V) (h : run vs is fs t = .val v)
    (hagree : ∀ x w, is x = .ok w → is' x = .ok w) : run vs is' fs t = .val v := by
  induction t with
  | ret w => simpa [run] using h
  | notImpl => simp [run] at h
  | err c => simp [run] at h
  | readV n k ih =>
    simp only [run] at h ⊢
    cases hn : vs n with
    | none => simp [hn] at h
    | some w => rw [hn] at h; exact ih w h
  | readI x k ih =>
    simp only [run] at h ⊢
    cases hx : is x with
    | ok w => rw [hx] at h; rw [hagree x w hx]; exact ih w h
    | noSpec => simp [hx] at h
    | missing => simp [hx] at h
    | invalid => simp [hx] at h
  | needForm f k ih =>
    simp only [run] at h ⊢
    cases hff : fs f with
    | false => simp [hff] at h
    | true => rw [hff] at h; simpa using ih (by simpa using h)

end HabuVerif.C13

#print axioms HabuVerif.C13.prompt_is_demand_exact
#print axioms HabuVerif.C13.inputs_are_file_plus_answers
#print axioms HabuVerif.C13.rerun_silent_and_identical
#print axioms HabuVerif.C13.unread_input_irrelevant
