import HabuVerif.Proofs.Confluence3
import HabuVerif.Props.C01
/-!
# C04 — A solution is exactly the demand closure of the requested forms
-/
set_option autoImplicit false
set_option linter.unusedSectionVars false
set_option linter.unusedVariables false

namespace HabuVerif.C04
open HabuVerif Tracker

variable {N I F V S : Type} [DecidableEq N] [DecidableEq I] [DecidableEq F]
variable {C : Cat N I F V S}

/-- the lines an evaluation reads (successfully or as its blocking read) on given stores -/
def readsV (vs : N → Option V) (is : I → InpRes V) (fs : F → Bool) : Tree N I F V → N → Prop
  | .readV n k, m => m = n ∨ (match vs n with | some v => readsV vs is fs (k v) m | none => False)
  | .readI x k, m => (match is x with | .ok v => readsV vs is fs (k v) m | _ => False)
  | .needForm f k, m => fs f = true ∧ readsV vs is fs k m
  | _, _ => False

/-- every line read by an evaluation that ends in a value is present -/
theorem reads_present_of_val (vs : N → Option V) (is : I → InpRes V) (fs : F → Bool)
    (t : Tree N I F V) (x : V) (h : run vs is fs t = .val x) (m : N) (hr : readsV vs is fs t m) :
    vs m ≠ none := by
  induction t with
  | ret w => simp [readsV] at hr
  | notImpl => simp [readsV] at hr
  | err c => simp [readsV] at hr
  | readV n k ih =>
    simp only [run] at h
    simp only [readsV] at hr
    cases hn : vs n with
    | none => rw [hn] at h; simp at h
    | some w =>
      rw [hn] at h hr
      rcases hr with rfl | hr
      · rw [hn]; simp
      · exact ih w h hr
  | readI y k ih =>
    simp only [run] at h
    simp only [readsV] at hr
    cases hy : is y with
    | ok w => rw [hy] at h hr; exact ih w h hr
    | noSpec => rw [hy] at hr; exact absurd hr (by simp)
    | missing => rw [hy] at hr; exact absurd hr (by simp)
    | invalid => rw [hy] at hr; exact absurd hr (by simp)
  | needForm f k ih =>
    simp only [run] at h
    simp only [readsV] at hr
    rw [hr.1] at h
    exact ih (by simpa using h) hr.2

variable {σ : Sched N I} {mode : PromptMode S I N} {file : List (I × S)} {forms : List F}
variable {extra : List N} {fuel qfuel : Nat} {s : St N I F V S}

/-- **Completeness of a solved return.**  It contains every requested form, every required line
of every form that takes part, and — for every line it contains — every line that line's
evaluation read, together with the form that line belongs to. -/
theorem solved_contains_closure (hC : CatWF C) (hσ : SchedOK σ)
    (h : solve C σ mode.toP file forms extra fuel qfuel = .ok (some s)) (hs : s.solved = true) :
    (∀ f, f ∈ forms → f ∈ s.forms) ∧
    (∀ f, f ∈ s.forms → ∀ n, n ∈ C.required f → s.vf n ≠ none) ∧
    (∀ n, s.vf n ≠ none → ∀ m, readsV s.vf (s.inf C) s.ff (C.sem n) m →
      s.vf m ≠ none ∧ ∃ f, f ∈ s.forms ∧ C.formOfN m = some f) := by
  have f := run_facts hC hσ h
  obtain ⟨_, _, _, hval, hreq⟩ := C01.solved_sound hC hσ h hs
  refine ⟨f.startForms, ?_, ?_⟩
  · intro g hg n hn
    obtain ⟨x, hx⟩ := hreq g hg n hn
    rw [hx]; simp
  · intro n hn m hr
    cases hv : s.vf n with
    | none => exact absurd hv hn
    | some x =>
      have hm : s.vf m ≠ none :=
        reads_present_of_val _ _ _ _ x (f.inv.vSound n x hv) m hr
      refine ⟨hm, ?_⟩
      cases hvm : s.vf m with
      | none => exact absurd hvm hm
      | some y =>
        obtain ⟨g, hg1, hg2⟩ := f.inv.fmapForm m (f.inv.solFmap m (f.inv.vDem m y hvm))
        exact ⟨g, hg1, hC.fieldsForm g m hg2⟩

/-- **Nothing else.**  The final state lies below EVERY state that contains the request and is
closed under "attempt any demanded line" (and, with a prompt, "answer any needed input"): every
value, demanded line, form and input in the solution is forced by the request.  In particular an
optional line, a schedule or a numbered copy of a form is present only because a requested form or
an evaluated line referred to it. -/
theorem solution_is_least (hC : CatWF C) (hσ : SchedOK σ)
    (h : solve C σ mode.toP file forms extra fuel qfuel = .ok (some s))
    {T : St N I F V S} (fT : RunFacts (C := C) mode file forms extra T) :
    (∀ n x, s.vf n = some x → T.vf n = some x) ∧ (∀ n, n ∈ s.solving → n ∈ T.solving) ∧
    (∀ f, f ∈ s.forms → f ∈ T.forms) ∧ (∀ x t, s.inpf x = some t → T.inpf x = some t) := by
  have b := below_of_closed hC hσ h fT (fun _ h => h) (fun _ h => h)
  exact ⟨b.v, b.sol, b.forms, b.inp⟩

/-- values only exist for demanded lines, demanded lines only in loaded forms -/
theorem values_are_demanded (hC : CatWF C) (hσ : SchedOK σ)
    (h : solve C σ mode.toP file forms extra fuel qfuel = .ok (some s)) :
    ∀ n x, s.vf n = some x → n ∈ s.solving ∧ ∃ f, f ∈ s.forms ∧ C.formOfN n = some f := by
  intro n x hx
  have f := run_facts hC hσ h
  have hn := f.inv.vDem n x hx
  obtain ⟨g, hg1, hg2⟩ := f.inv.fmapForm n (f.inv.solFmap n hn)
  exact ⟨hn, g, hg1, hC.fieldsForm g n hg2⟩

/-- loading a form only for its inputs adds no line (`_add_form(..., input_only=True)`) -/
theorem input_only_adds_no_line {s0 s1 : St N I F V S} {f : F}
    (h : addForm C σ s0 f true = .ok s1) :
    s1.solving = s0.solving ∧ s1.forms = s0.forms ∧ s1.queue = s0.queue ∧ s1.v = s0.v := by
  obtain ⟨_, h0, _, _, _, _, _, _, hT, _⟩ := addForm_ok h
  obtain ⟨e1, _, e3, e4⟩ := hT rfl
  exact ⟨e4, e1, e3, h0⟩

end HabuVerif.C04

#print axioms HabuVerif.C04.solved_contains_closure
#print axioms HabuVerif.C04.solution_is_least
#print axioms HabuVerif.C04.values_are_demanded
#print axioms HabuVerif.C04.input_only_adds_no_line
