import HabuVerif.Proofs.Confluence3
import HabuVerif.Props.C01
import HabuVerif.Proofs.Frame
import HabuVerif.Props.C03
import HabuVerif.Proofs.DslCatWF
/-!
# C05 — The result depends only on year, requested forms and input values
-/
set_option autoImplicit false
set_option linter.unusedSectionVars false
set_option linter.unusedVariables false

namespace HabuVerif.C05
open HabuVerif Tracker

variable {N I F V S : Type} [DecidableEq N] [DecidableEq I] [DecidableEq F]
variable {C : Cat N I F V S}

/-- What two runs agree on. -/
structure SameResult (s T : St N I F V S) : Prop where
  verdict : s.solved = T.solved
  values : s.vf = T.vf
  lines : ∀ n, n ∈ s.solving ↔ n ∈ T.solving
  forms : ∀ f, f ∈ s.forms ↔ f ∈ T.forms
  inputs : s.inpf = T.inpf
  unimplemented : ∀ n, n ∈ s.unimpl ↔ n ∈ T.unimpl
  blockedOnLine : ∀ m n, Waits s.fdeps m n ↔ Waits T.fdeps m n
  blockedOnInput : ∀ x n, Waits s.ideps x n ↔ Waits T.ideps x n

/-- diagnostics of a final state are determined by the outcome function -/
theorem diag_char {mode : PromptMode S I N} {file : List (I × S)} {forms : List F} {extra : List N}
    {s : St N I F V S} (f : RunFacts (C := C) mode file forms extra s) :
    (∀ n, n ∈ s.unimpl ↔ n ∈ s.solving ∧ s.attempt C n = .notImpl) ∧
    (∀ m n, Waits s.fdeps m n ↔ n ∈ s.solving ∧ s.attempt C n = .needV m) ∧
    (∀ x n, Waits s.ideps x n ↔ n ∈ s.solving ∧ s.attempt C n = .needI x) := by
  obtain ⟨hq, him, hfm, _⟩ := loopCond_false f.lc
  refine ⟨?_, ?_, ?_⟩
  · intro n
    constructor
    · exact f.inv.unimplSound n
    · rintro ⟨hn, ho⟩
      rcases final_outcome f.inv f.lc n hn with ⟨y, _, h'⟩ | ⟨m', _, _, h'⟩ | ⟨y, _, h'⟩ | ⟨hu, _⟩
      · rw [ho] at h'; cases h'
      · rw [ho] at h'; cases h'
      · rw [ho] at h'; cases h'
      · exact hu
  · intro m n
    constructor
    · intro hw
      obtain ⟨a, _, c⟩ := f.inv.fWait m n hw
      rcases c with c | c
      · rw [hfm] at c; simp at c
      · exact ⟨a, c.2⟩
    · rintro ⟨hn, ho⟩
      rcases final_outcome f.inv f.lc n hn with ⟨y, _, h'⟩ | ⟨m', hw, _, h'⟩ | ⟨y, _, h'⟩ | ⟨_, h'⟩
      · rw [ho] at h'; cases h'
      · rw [ho] at h'; cases h'; exact hw
      · rw [ho] at h'; cases h'
      · rw [ho] at h'; cases h'
  · intro x n
    constructor
    · intro hw
      obtain ⟨a, c⟩ := f.inv.iWait x n hw
      rcases c with c | c
      · rw [him] at c; simp at c
      · exact ⟨a, c.2⟩
    · rintro ⟨hn, ho⟩
      rcases final_outcome f.inv f.lc n hn with ⟨y, _, h'⟩ | ⟨m', _, _, h'⟩ | ⟨y, hw, h'⟩ | ⟨_, h'⟩
      · rw [ho] at h'; cases h'
      · rw [ho] at h'; cases h'
      · rw [ho] at h'; cases h'; exact hw
      · rw [ho] at h'; cases h'

/-- **Order independence.**  Two runs of the solver on the same catalogue, the same input file and
the same kind of prompt (none, or one that answers every question as a function of the input's
name) — under ANY two attempt schedules `σ`, `τ`, and with the requested forms listed in any order
or multiplicity — that both return, return the same verdict, the same values, the same set of
demanded lines and forms, the same final inputs and the same three diagnostics (as sets).
(Schedules range over all permutations at the four ordering sites of `solver.py`.) -/
theorem schedule_independent (hC : CatWF C) {σ τ : Sched N I} (hσ : SchedOK σ) (hτ : SchedOK τ)
    {mode : PromptMode S I N} {file : List (I × S)} {forms forms' : List F} {extra extra' : List N}
    {f1 q1 f2 q2 : Nat} {s T : St N I F V S}
    (hs : solve C σ mode.toP file forms extra f1 q1 = .ok (some s))
    (hT : solve C τ mode.toP file forms' extra' f2 q2 = .ok (some T))
    (hforms : ∀ f, f ∈ forms ↔ f ∈ forms') (hextra : ∀ n, n ∈ extra ↔ n ∈ extra') :
    SameResult s T := by
  have b1 : Below s T := below_of_runs hC hσ hτ hs hT (fun f => (hforms f).mp) (fun n => (hextra n).mp)
  have b2 : Below T s := below_of_runs hC hτ hσ hT hs (fun f => (hforms f).mpr) (fun n => (hextra n).mpr)
  have fs := run_facts hC hσ hs
  have fT := run_facts hC hτ hT
  have hv : s.vf = T.vf := ext_antisymm b1.v b2.v
  have hsol : ∀ n, n ∈ s.solving ↔ n ∈ T.solving := fun n => ⟨b1.sol n, b2.sol n⟩
  have hatt : ∀ n, s.attempt C n = T.attempt C n := attempt_eq_of_below b1 b2
  obtain ⟨u1, w1, x1⟩ := diag_char fs
  obtain ⟨u2, w2, x2⟩ := diag_char fT
  refine ⟨?_, hv, hsol, fun f => ⟨b1.forms f, b2.forms f⟩, ext_antisymm b1.inp b2.inp, ?_, ?_, ?_⟩
  · have e1 := solved_iff fs.inv fs.lc
    have e2 := solved_iff fT.inv fT.lc
    cases h1 : s.solved with
    | true =>
      have := e1.mp h1
      have h2 : T.solved = true := e2.mpr (fun n hn => by rw [← hv]; exact this n ((hsol n).mpr hn))
      rw [h2]
    | false =>
      cases h2 : T.solved with
      | false => rfl
      | true =>
        have := e2.mp h2
        have : s.solved = true := e1.mpr (fun n hn => by rw [hv]; exact this n ((hsol n).mp hn))
        rw [h1] at this; cases this
  · intro n; rw [u1 n, u2 n, hsol n, hatt n]
  · intro m n; rw [w1 m n, w2 m n, hsol n, hatt n]
  · intro x n; rw [x1 x n, x2 x n, hsol n, hatt n]

/-- If any schedule returns, no schedule can fail on an exception raised by a line definition
or on an invalid input: such outcomes are stable under growth of the stores, and a returned final
state has none.  (Stated for the final state: on it no demanded line evaluates to an error.)
NOT covered — `schedule_independent_partial` in spirit: that the *kind* of abort agrees when all
schedules abort, and `KeyError` from `Field.form(name)` (the one non-monotone observation; see
known findings). -/
theorem no_error_outcome_in_final (hC : CatWF C) {σ : Sched N I} (hσ : SchedOK σ)
    {mode : PromptMode S I N} {file : List (I × S)} {forms : List F} {extra : List N}
    {f1 q1 : Nat} {s : St N I F V S}
    (hs : solve C σ mode.toP file forms extra f1 q1 = .ok (some s)) :
    ∀ n, n ∈ s.solving → (∀ c, s.attempt C n ≠ .err c) ∧ (∀ x, s.attempt C n ≠ .invalid x) :=
  fun n hn => ⟨(run_facts hC hσ hs).closed.cErr n hn, (run_facts hC hσ hs).closed.cInvalid n hn⟩

end HabuVerif.C05

namespace HabuVerif.C05.Examples
open HabuVerif HabuVerif.C01.Examples

/-- a schedule that reverses everything -/
def rev : Sched Nat Nat :=
  { sortQ := List.reverse, sortW := List.reverse, sortI := List.reverse, sortR := List.reverse }

example : SchedOK rev := ⟨fun l => List.reverse_perm l, fun l => List.reverse_perm l,
  fun l => List.reverse_perm l, fun l => List.reverse_perm l⟩
example : SchedOK sched := ⟨fun l => List.Perm.refl l, fun l => List.Perm.refl l,
  fun l => List.Perm.refl l, fun l => List.Perm.refl l⟩

-- both schedules return on the example catalogue, with the same values up to order
example : (match solve cat rev none [(0, 5)] [0] [3, 2] 10 10 with
    | .ok (some s) => (s.solved, s.vf 0, s.vf 1) | _ => (true, none, none)) = (false, some 15, some 5) := by decide
example : (match solve cat sched none [(0, 5)] [0] [2, 3] 10 10 with
    | .ok (some s) => (s.solved, s.vf 0, s.vf 1) | _ => (true, none, none)) = (false, some 15, some 5) := by decide

end HabuVerif.C05.Examples

#print axioms HabuVerif.C05.schedule_independent
#print axioms HabuVerif.C05.no_error_outcome_in_final

/-! ## frame: a line outcome is a function of the names its program text can read

`Proofs/Frame.lean`: for the REGENERATED catalogue of any year, whatever name the solver attempts, two pairs
of stores that agree on the names described by the syntactic read sets of the line behind it give the same
outcome (value, blank, not implemented, error, missing input or line).  Together with `schedule_independent`
this is the "depends only on ... input values" half at the level of one evaluation: nothing else in the
stores, and no ambient state, can influence a line. -/
namespace HabuVerif.C05
open HabuVerif.Dsl

theorem line_outcome_depends_only_on_read_names (y : YearDecl) (n : String)
    (vs vs' : String → Option Val) (is is' : String → InpRes Val) (fs : String → Bool)
    (hv : ∀ m, (∃ f k c inst d, splitName n = some (f, k) ∧ y.resolveForm f = some (c, inst) ∧ d ∈ c.lines ∧
        d.name = k ∧ ∃ p ∈ refsV d, KeyPat.Names c.name inst p m) → vs m = vs' m)
    (hi : ∀ x, (∃ f k c inst d, splitName n = some (f, k) ∧ y.resolveForm f = some (c, inst) ∧ d ∈ c.lines ∧
        d.name = k ∧ ∃ p ∈ refsI d, KeyPat.Names c.name inst p x) → is x = is' x) :
    run vs is fs ((mkCat y).sem n) = run vs' is' fs ((mkCat y).sem n) :=
  cat_frame y n vs vs' is is' fs hv hi

/-- **Two returns that agree on what a line can read agree on the line.**  For the regenerated catalogue of any
year and ANY name `n`: two states the solver returns (different input files, prompts, requests, schedules) with the
same loaded forms, whose stored values and input answers coincide on every name the syntactic read sets of the
line behind `n` describe, store the same value for `n` (when both store one).  The result depends on the inputs
only THROUGH what the lines read. -/
theorem returns_agree_on_line (y : YearDecl) (n : String)
    {σ σ' : Sched String String} (hσ : SchedOK σ) (hσ' : SchedOK σ')
    {P P' : Option (Nat → String → List String → Option String)}
    {inp inp' : List (String × String)} {forms forms' extra extra' : List String}
    {fuel qfuel fuel' qfuel' : Nat} {s s' : St String String String Val String}
    (h : solve (mkCat y) σ P inp forms extra fuel qfuel = .ok (some s))
    (h' : solve (mkCat y) σ' P' inp' forms' extra' fuel' qfuel' = .ok (some s'))
    (hff : s.ff = s'.ff)
    (hv : ∀ m, (∃ f k c inst d, splitName n = some (f, k) ∧ y.resolveForm f = some (c, inst) ∧ d ∈ c.lines ∧
        d.name = k ∧ ∃ p ∈ refsV d, KeyPat.Names c.name inst p m) → s.vf m = s'.vf m)
    (hi : ∀ x, (∃ f k c inst d, splitName n = some (f, k) ∧ y.resolveForm f = some (c, inst) ∧ d ∈ c.lines ∧
        d.name = k ∧ ∃ p ∈ refsI d, KeyPat.Names c.name inst p x) → s.inf (mkCat y) x = s'.inf (mkCat y) x)
    (x x' : Val) (hx : s.vf n = some x) (hx' : s'.vf n = some x') : x = x' := by
  have hC : CatWF (mkCat y) := Dsl.mkCat_wf y
  have f := C03.solution_fixed_point hC hσ h n x hx
  have f' := C03.solution_fixed_point hC hσ' h' n x' hx'
  have e := cat_frame y n s.vf s'.vf (s.inf (mkCat y)) (s'.inf (mkCat y)) s.ff hv hi
  rw [hff] at e f
  rw [e, f'] at f
  injection f with f
  exact f.symm

end HabuVerif.C05

#print axioms HabuVerif.C05.line_outcome_depends_only_on_read_names
#print axioms HabuVerif.C05.returns_agree_on_line
