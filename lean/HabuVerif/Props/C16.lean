import HabuVerif.Proofs.C16Lines
import HabuVerif.Props.C15
import HabuVerif.Proofs.C16Line25b
import HabuVerif.Proofs.Frame
/-!
# C16 — Returns respond to input changes the way tax law requires

Proved here, in exact cents, about the line programs REGENERATED from the working tree:

* `withholding_total` / `renumbering_keeps_withholding`: Form 1040 line 25a is the sum of the
  W-2 copies' box 2 — a function of the MULTISET of the copies' amounts, so renumbering the copies
  does not change it (CPython's compensated `sum` over doubles is order-dependent in general; on
  cent-valued amounts the rounded total is not).
* `net_is_payments_minus_tax`, `solved_net_is_payments_minus_tax`, `withholding_one_for_one`:
  refund-minus-owed = 25a + 25b + 25c + 26 + 32 − 24 in every state the solver returns, so each extra
  cent withheld moves it by exactly one cent when the other five lines keep their values.

Line 25b (tax withheld on Forms 1099-R, 1099-DIV, 1099-INT, 1099-G) has the same three theorems, see the end of this
file.  PARTIAL: the same invariance for the other per-payer totals (lines 1a, 2b, 3b, Schedule A/B …),
and the monotonicity of total tax in wages and deductions, are explored on real returns by the
metamorphic oracle, not proved (the tax function itself is proved non-decreasing in C07).
-/
set_option autoImplicit false
set_option maxRecDepth 100000
set_option linter.unusedVariables false

namespace HabuVerif.C16
open HabuVerif HabuVerif.Dsl HabuVerif.F64 HabuVerif.Gen HabuVerif.C15

/-- what the three payment lines of a year's Form 1040 must look like -/
structure PaymentShapes (y : YearDecl) (c : ClassDecl) (l25a l25d l33 : LineDecl) : Prop where
  cname : c.name = "1040"
  s25a : l25a.body = shapeSumCopiesIfAny "number_w-2" "w-2:" ".box_2" ∧ l25a.kind = .float 2
  s25d : l25d.body = shapeAdd3 "25a" "25b" "25c" ∧ l25d.kind = .float 2
  s33 : l33.body = shapeAdd3 "25d" "26" "32" ∧ l33.kind = .float 2
  sem25a : (mkCat y).sem "1040.25a" = evalLine y c none l25a
  sem25d : (mkCat y).sem "1040.25d" = evalLine y c none l25d
  sem33 : (mkCat y).sem "1040.33" = evalLine y c none l33

theorem shapes_2021 : PaymentShapes year2021 Y2021.c_1040 (lineOf Y2021.c_1040 "25a")
    (lineOf Y2021.c_1040 "25d") (lineOf Y2021.c_1040 "33") :=
  ⟨rfl, ⟨rfl, rfl⟩, ⟨rfl, rfl⟩, ⟨rfl, rfl⟩, rfl, rfl, rfl⟩
theorem shapes_2022 : PaymentShapes year2022 Y2022.c_1040 (lineOf Y2022.c_1040 "25a")
    (lineOf Y2022.c_1040 "25d") (lineOf Y2022.c_1040 "33") :=
  ⟨rfl, ⟨rfl, rfl⟩, ⟨rfl, rfl⟩, ⟨rfl, rfl⟩, rfl, rfl, rfl⟩
theorem shapes_2023 : PaymentShapes year2023 Y2023.c_1040 (lineOf Y2023.c_1040 "25a")
    (lineOf Y2023.c_1040 "25d") (lineOf Y2023.c_1040 "33") :=
  ⟨rfl, ⟨rfl, rfl⟩, ⟨rfl, rfl⟩, ⟨rfl, rfl⟩, rfl, rfl, rfl⟩

section general
variable {y : YearDecl} {c : ClassDecl} {l25a l25d l33 : LineDecl}
variable (vs : String → Option Val) (is : String → InpRes Val) (fs : String → Bool)

theorem qcnt : qual' "1040" none "number_w-2" = "1040.number_w-2" := by decide
theorem q25a : qual' "1040" none "25a" = "1040.25a" := by decide
theorem q25b : qual' "1040" none "25b" = "1040.25b" := by decide
theorem q25c : qual' "1040" none "25c" = "1040.25c" := by decide
theorem q25d : qual' "1040" none "25d" = "1040.25d" := by decide
theorem q26 : qual' "1040" none "26" = "1040.26" := by decide
theorem q32 : qual' "1040" none "32" = "1040.32" := by decide

/-- the cents of the copies `0 … k-1` -/
def copyCents (cs : Int → Int) (k : Int) : List Int := (List.range k.toNat).map fun (j : Nat) => cs (j : Int)

theorem cent_pySum_pairs (ps : List (F64 × Int)) (hn : ps.length ≤ 64)
    (h : ∀ t ∈ ps, Cent t.1 t.2 ∧ t.2.natAbs ≤ 100000000000) :
    Cent (roundN (pySum (ps.map Prod.fst)) 2) (ps.map Prod.snd).sum := by
  cases ps with
  | nil => simp only [List.map, pySum, F64.roundN_zero, List.sum_nil]; exact Cent_zero
  | cons t ts =>
    have ht := h t List.mem_cons_self
    simp only [List.map_cons, List.sum_cons]
    exact cent_pySum_64 ts (by simp only [List.length_cons] at hn; omega) ht.1 ht.2
      (fun u hu => h u (List.mem_cons_of_mem _ hu))

theorem perm_sum_int {l₁ l₂ : List Int} (h : l₁.Perm l₂) : l₁.sum = l₂.sum := by
  induction h with
  | nil => rfl
  | cons x _ ih => simp [ih]
  | swap x y l => simp only [List.sum_cons]; omega
  | trans _ _ ih1 ih2 => exact ih1.trans ih2

theorem sum_natAbs_le (l : List Int) (B : Nat) (h : ∀ x ∈ l, x.natAbs ≤ B) : l.sum.natAbs ≤ l.length * B := by
  induction l with
  | nil => simp
  | cons x xs ih =>
    have hx := h x List.mem_cons_self
    have := ih (fun z hz => h z (List.mem_cons_of_mem _ hz))
    simp only [List.sum_cons, List.length_cons]
    have := Int.natAbs_add_le x xs.sum
    rw [Nat.succ_mul]
    omega

theorem copyCents_sum_bound (cs : Int → Int) (k : Int) (hk : k ≤ 64)
    (hc : ∀ j : Nat, j < k.toNat → (cs j).natAbs ≤ 100000000000) :
    (copyCents cs k).sum.natAbs < 2 ^ 52 := by
  have h := sum_natAbs_le (copyCents cs k) 100000000000 (by
    intro x hx
    obtain ⟨j, hj, rfl⟩ := List.mem_map.1 hx
    exact hc j (List.mem_range.1 hj))
  have hl : (copyCents cs k).length ≤ 64 := by simp [copyCents]; omega
  have := Nat.mul_le_mul_right 100000000000 hl
  have h3 : 64 * 100000000000 < 2 ^ 52 := by norm_num
  omega

/-- `round(sum(copies), 2)` of cent-valued copies is the double of the sum of their cents -/
theorem cent_sum_copies (f : Int → F64) (cs : Int → Int) (k : Int) (hk : k ≤ 64)
    (hc : ∀ j : Nat, j < k.toNat → Cent (f j) (cs j) ∧ (cs j).natAbs ≤ 100000000000) :
    Cent (roundN (pySum (copyVals f k)) 2) (copyCents cs k).sum := by
  have hlen : k.toNat ≤ 64 := by omega
  have := cent_pySum_pairs ((List.range k.toNat).map fun (j : Nat) => (f (j : Int), cs (j : Int)))
    (by simpa using hlen)
    (by
      intro t ht
      obtain ⟨j, hj, rfl⟩ := List.mem_map.1 ht
      exact hc j (List.mem_range.1 hj))
  rw [List.map_map, List.map_map] at this
  exact this

/-- **Line 25a is the sum of the W-2 copies' box 2, in cents** (at most 64 copies, each amount at
most 10^9 dollars) — for the evaluation of the line against ANY stores. -/
theorem withholding_total (hS : PaymentShapes y c l25a l25d l33)
    (k : Int) (f : Int → F64) (cs : Int → Int) (hk : k ≤ 64)
    (hcnt : is "1040.number_w-2" = .ok (.int k))
    (hv : ∀ j : Nat, j < k.toNat → vs (copyKey "w-2:" ".box_2" j) = some (.float (f j)))
    (hc : ∀ j : Nat, j < k.toNat → Cent (f j) (cs j) ∧ (cs j).natAbs ≤ 100000000000) :
    ∃ x, run vs is fs ((mkCat y).sem "1040.25a") = .val (.float x) ∧ Cent x (copyCents cs k).sum := by
  refine ⟨_, ?_, cent_sum_copies f cs k hk hc⟩
  rw [hS.sem25a]
  exact eval_sumCopiesIfAny vs is fs y c none l25a "number_w-2" "w-2:" ".box_2" 2 hS.s25a.1 hS.s25a.2 k f
    (by rw [hS.cname, qcnt]; exact hcnt) (by omega) (by decide) hv

/-- **Renumbering the W-2 copies does not change line 25a**: two stores whose copies carry the same
amounts in another order give the same number of cents (and the very same double unless it is zero). -/
theorem renumbering_keeps_withholding (hS : PaymentShapes y c l25a l25d l33)
    (vs' : String → Option Val) (is' : String → InpRes Val) (fs' : String → Bool)
    (k : Int) (f f' : Int → F64) (cs cs' : Int → Int) (hk : k ≤ 64)
    (hcnt : is "1040.number_w-2" = .ok (.int k)) (hcnt' : is' "1040.number_w-2" = .ok (.int k))
    (hv : ∀ j : Nat, j < k.toNat → vs (copyKey "w-2:" ".box_2" j) = some (.float (f j)))
    (hv' : ∀ j : Nat, j < k.toNat → vs' (copyKey "w-2:" ".box_2" j) = some (.float (f' j)))
    (hc : ∀ j : Nat, j < k.toNat → Cent (f j) (cs j) ∧ (cs j).natAbs ≤ 100000000000)
    (hc' : ∀ j : Nat, j < k.toNat → Cent (f' j) (cs' j) ∧ (cs' j).natAbs ≤ 100000000000)
    (hperm : (copyCents cs' k).Perm (copyCents cs k)) :
    ∃ x x' t, run vs is fs ((mkCat y).sem "1040.25a") = .val (.float x) ∧
      run vs' is' fs' ((mkCat y).sem "1040.25a") = .val (.float x') ∧
      Cent x t ∧ Cent x' t ∧ (t ≠ 0 → x = x') := by
  obtain ⟨x, hx, cx⟩ := withholding_total vs is fs hS k f cs hk hcnt hv hc
  obtain ⟨x', hx', cx'⟩ := withholding_total vs' is' fs' hS k f' cs' hk hcnt' hv' hc'
  rw [perm_sum_int hperm] at cx'
  exact ⟨x, x', _, hx, hx', cx, cx', fun h0 => Cent.eq_of_ne_zero cx cx' h0
    (copyCents_sum_bound cs k hk fun j hj => (hc j hj).2)⟩


/-! ## refund minus owed, in cents -/

theorem cent_add3 {a b e : F64} {ca cb ce : Int} (ha : Cent a ca) (hb : Cent b cb) (he : Cent e ce)
    (hca : ca.natAbs ≤ 10000000000000) (hcb : cb.natAbs ≤ 10000000000000)
    (hce : ce.natAbs ≤ 10000000000000) :
    Cent (roundN (F64.add (F64.add a b) e) 2) (ca + cb + ce) := by
  have h := cent_foldl_add 10000000000000 [(b, cb), (e, ce)] ha hca
    (by
      intro t ht
      simp only [List.mem_cons, List.mem_nil_iff, or_false] at ht
      rcases ht with rfl | rfl
      · exact ⟨hb, hcb⟩
      · exact ⟨he, hce⟩)
    (by norm_num)
  have e2 : ca + ([(b, cb), (e, ce)].map Prod.snd).sum = ca + cb + ce := by
    simp only [List.map, List.sum_cons, List.sum_nil]; omega
  rw [e2] at h
  exact h

variable {l34 l35a l36 l37 : LineDecl}

/-- **Refund minus owed = 25a + 25b + 25c + 26 + 32 − 24**, for the evaluation of lines 34 and 37
against ANY stores in which the six lines hold cent-valued amounts (each at most 10^10 dollars) and
lines 25d and 33 hold what they evaluate to (C03: every returned state is such a fixed point). -/
theorem net_is_payments_minus_tax (hS : PaymentShapes y c l25a l25d l33)
    (hB : BalanceShapes y c l34 l35a l36 l37)
    (a25a a25b a25c a26 a32 a24 x25d x33 : F64) (c25a c25b c25c c26 c32 c24 : Int)
    (C25a : Cent a25a c25a) (C25b : Cent a25b c25b) (C25c : Cent a25c c25c) (C26 : Cent a26 c26)
    (C32 : Cent a32 c32) (C24 : Cent a24 c24)
    (b25a : c25a.natAbs ≤ 1000000000000) (b25b : c25b.natAbs ≤ 1000000000000)
    (b25c : c25c.natAbs ≤ 1000000000000) (b26 : c26.natAbs ≤ 1000000000000)
    (b32 : c32.natAbs ≤ 1000000000000) (b24 : c24.natAbs ≤ 1000000000000)
    (h25a : vs "1040.25a" = some (.float a25a)) (h25b : vs "1040.25b" = some (.float a25b))
    (h25c : vs "1040.25c" = some (.float a25c)) (h26 : vs "1040.26" = some (.float a26))
    (h32 : vs "1040.32" = some (.float a32)) (h24 : vs "1040.24" = some (.float a24))
    (h25d : vs "1040.25d" = some (.float x25d)) (h33 : vs "1040.33" = some (.float x33))
    (fix25d : run vs is fs ((mkCat y).sem "1040.25d") = .val (.float x25d))
    (fix33 : run vs is fs ((mkCat y).sem "1040.33") = .val (.float x33)) :
    ∃ (over owed : F64) (co cw : Int),
      run vs is fs ((mkCat y).sem "1040.34") = .val (.float over) ∧
      run vs is fs ((mkCat y).sem "1040.37") = .val (.float owed) ∧
      Cent over co ∧ Cent owed cw ∧ 0 ≤ co ∧ 0 ≤ cw ∧
      co - cw = c25a + c25b + c25c + c26 + c32 - c24 := by
  have e25d := eval_add3 vs is fs y c none l25d "25a" "25b" "25c" 2 hS.s25d.1 hS.s25d.2 a25a a25b a25c
    (by rw [hS.cname, q25a]; exact h25a) (by rw [hS.cname, q25b]; exact h25b)
    (by rw [hS.cname, q25c]; exact h25c)
  rw [← hS.sem25d, fix25d] at e25d
  have x25d_eq : x25d = roundN (F64.add (F64.add a25a a25b) a25c) 2 := by
    injection e25d with e; injection e
  have C25d : Cent x25d (c25a + c25b + c25c) := by
    rw [x25d_eq]; exact cent_add3 C25a C25b C25c (by omega) (by omega) (by omega)
  have e33 := eval_add3 vs is fs y c none l33 "25d" "26" "32" 2 hS.s33.1 hS.s33.2 x25d a26 a32
    (by rw [hS.cname, q25d]; exact h25d) (by rw [hS.cname, q26]; exact h26)
    (by rw [hS.cname, q32]; exact h32)
  rw [← hS.sem33, fix33] at e33
  have x33_eq : x33 = roundN (F64.add (F64.add x25d a26) a32) 2 := by
    injection e33 with e; injection e
  have C33 : Cent x33 (c25a + c25b + c25c + c26 + c32) := by
    rw [x33_eq]; exact cent_add3 C25d C26 C32 (by omega) (by omega) (by omega)
  obtain ⟨over, owed, co, cw, e34, e37, Co, Cw, hd, h0o, h0w, _⟩ :=
    overpayment_and_amount_owed vs is fs hB x33 a24 _ c24 C33 C24 (by omega) (by omega) h33 h24
  exact ⟨over, owed, co, cw, e34, e37, Co, Cw, h0o, h0w, hd⟩

end general

/-- **In every state the solver returns** (any schedule, prompt, inputs; solved or not) for a year
whose programs have the checked shapes: if the payment lines, total tax, overpayment and amount
owed of Form 1040 have values and the six summands are cent-valued amounts in range, then the
STORED refund-minus-owed is 25a + 25b + 25c + 26 + 32 − 24 in cents. -/
theorem solved_net_is_payments_minus_tax {y : YearDecl} {c : ClassDecl}
    {l25a l25d l33 l34 l35a l36 l37 : LineDecl}
    (hS : PaymentShapes y c l25a l25d l33) (hB : BalanceShapes y c l34 l35a l36 l37)
    {σ : Sched String String} (hσ : SchedOK σ) {P : Option (Nat → String → List String → Option String)}
    {inp : List (String × String)} {forms : List String} {extra : List String} {fuel qfuel : Nat}
    {s : St String String String Val String}
    (h : solve (mkCat y) σ P inp forms extra fuel qfuel = .ok (some s))
    (a25a a25b a25c a26 a32 a24 : F64) (c25a c25b c25c c26 c32 c24 : Int)
    (C25a : Cent a25a c25a) (C25b : Cent a25b c25b) (C25c : Cent a25c c25c) (C26 : Cent a26 c26)
    (C32 : Cent a32 c32) (C24 : Cent a24 c24)
    (b25a : c25a.natAbs ≤ 1000000000000) (b25b : c25b.natAbs ≤ 1000000000000)
    (b25c : c25c.natAbs ≤ 1000000000000) (b26 : c26.natAbs ≤ 1000000000000)
    (b32 : c32.natAbs ≤ 1000000000000) (b24 : c24.natAbs ≤ 1000000000000)
    (h25a : s.vf "1040.25a" = some (.float a25a)) (h25b : s.vf "1040.25b" = some (.float a25b))
    (h25c : s.vf "1040.25c" = some (.float a25c)) (h26 : s.vf "1040.26" = some (.float a26))
    (h32 : s.vf "1040.32" = some (.float a32)) (h24 : s.vf "1040.24" = some (.float a24))
    (v25d v33 v34 v37 : Val) (h25d : s.vf "1040.25d" = some v25d) (h33 : s.vf "1040.33" = some v33)
    (h34 : s.vf "1040.34" = some v34) (h37 : s.vf "1040.37" = some v37) :
    ∃ (over owed : F64) (co cw : Int), v34 = .float over ∧ v37 = .float owed ∧
      Cent over co ∧ Cent owed cw ∧ 0 ≤ co ∧ 0 ≤ cw ∧
      co - cw = c25a + c25b + c25c + c26 + c32 - c24 := by
  have hC : CatWF (mkCat y) := Dsl.mkCat_wf y
  have f25d := C03.solution_fixed_point hC hσ h "1040.25d" v25d h25d
  have f33 := C03.solution_fixed_point hC hσ h "1040.33" v33 h33
  -- the stored 25d and 33 are floats: they are what the float lines evaluate to
  obtain ⟨x25d, rfl⟩ : ∃ x, v25d = .float x := by
    have e := eval_add3 s.vf (s.inf (mkCat y)) s.ff y c none l25d "25a" "25b" "25c" 2 hS.s25d.1 hS.s25d.2
      a25a a25b a25c (by rw [hS.cname, q25a]; exact h25a) (by rw [hS.cname, q25b]; exact h25b)
      (by rw [hS.cname, q25c]; exact h25c)
    rw [← hS.sem25d, f25d] at e
    injection e with e
    exact ⟨_, e⟩
  obtain ⟨x33, rfl⟩ : ∃ x, v33 = .float x := by
    have e := eval_add3 s.vf (s.inf (mkCat y)) s.ff y c none l33 "25d" "26" "32" 2 hS.s33.1 hS.s33.2
      x25d a26 a32 (by rw [hS.cname, q25d]; exact h25d) (by rw [hS.cname, q26]; exact h26)
      (by rw [hS.cname, q32]; exact h32)
    rw [← hS.sem33, f33] at e
    injection e with e
    exact ⟨_, e⟩
  obtain ⟨over, owed, co, cw, e34, e37, r⟩ :=
    net_is_payments_minus_tax s.vf (s.inf (mkCat y)) s.ff hS hB a25a a25b a25c a26 a32 a24 x25d x33
      c25a c25b c25c c26 c32 c24 C25a C25b C25c C26 C32 C24 b25a b25b b25c b26 b32 b24
      h25a h25b h25c h26 h32 h24 h25d h33 f25d f33
  have f34 := C03.solution_fixed_point hC hσ h "1040.34" v34 h34
  have f37 := C03.solution_fixed_point hC hσ h "1040.37" v37 h37
  rw [e34] at f34; rw [e37] at f37
  injection f34 with f34; injection f37 with f37
  exact ⟨over, owed, co, cw, f34.symm, f37.symm, r⟩

/-- **Each extra cent withheld moves refund-minus-owed by exactly one cent**: two returned states
(of possibly different runs of the same year) in which lines 25b, 25c, 26, 32 and 24 carry the same
numbers of cents and line 25a differs by `δ` cents have refund-minus-owed differing by `δ` cents —
a direct consequence of `solved_net_is_payments_minus_tax`, stated on the two formulas. -/
theorem withholding_one_for_one (co cw co' cw' c25a c25b c25c c26 c32 c24 δ : Int)
    (h : co - cw = c25a + c25b + c25c + c26 + c32 - c24)
    (h' : co' - cw' = (c25a + δ) + c25b + c25c + c26 + c32 - c24) :
    (co' - cw') - (co - cw) = δ := by omega

/-! ## other per-payer totals of the shape `float(sum(copies))` -/

/-- line `lname` of the (instance-less) form `fname` is `float(sum([v[f'{pre}{n}{post}'] for n in
range(i[cnt])]))`, `cntName` being the full name of the count input -/
structure FloatSumLine (y : YearDecl) (c : ClassDecl) (l : LineDecl)
    (fname lname cnt cntName pre post : String) : Prop where
  cname : c.name = fname
  body : l.body = shapeFloatSumCopies cnt pre post ∧ l.kind = .float 2
  sem : (mkCat y).sem (fname ++ "." ++ lname) = evalLine y c none l
  cntq : qual' fname none cnt = cntName
  dot : post.toList.contains '.' = true

section floatsum
variable {y : YearDecl} {c : ClassDecl} {l : LineDecl} {fname lname cnt cntName pre post : String}
variable (vs : String → Option Val) (is : String → InpRes Val) (fs : String → Bool)

/-- **such a line is the sum of the copies' amounts, in cents** (at most 64 copies) -/
theorem float_sum_line_total (hS : FloatSumLine y c l fname lname cnt cntName pre post)
    (k : Int) (f : Int → F64) (cs : Int → Int) (hk : k ≤ 64)
    (hcnt : is cntName = .ok (.int k))
    (hv : ∀ j : Nat, j < k.toNat → vs (copyKey pre post j) = some (.float (f j)))
    (hc : ∀ j : Nat, j < k.toNat → Cent (f j) (cs j) ∧ (cs j).natAbs ≤ 100000000000) :
    ∃ x, run vs is fs ((mkCat y).sem (fname ++ "." ++ lname)) = .val (.float x) ∧
      Cent x (copyCents cs k).sum := by
  refine ⟨_, ?_, cent_sum_copies f cs k hk hc⟩
  rw [hS.sem]
  exact eval_floatSumCopies vs is fs y c none l cnt pre post 2 hS.body.1 hS.body.2 k f
    (by rw [hS.cname, hS.cntq]; exact hcnt) (by omega) hS.dot hv

/-- **renumbering the copies does not change such a line** -/
theorem float_sum_line_renumbering (hS : FloatSumLine y c l fname lname cnt cntName pre post)
    (vs' : String → Option Val) (is' : String → InpRes Val) (fs' : String → Bool)
    (k : Int) (f f' : Int → F64) (cs cs' : Int → Int) (hk : k ≤ 64)
    (hcnt : is cntName = .ok (.int k)) (hcnt' : is' cntName = .ok (.int k))
    (hv : ∀ j : Nat, j < k.toNat → vs (copyKey pre post j) = some (.float (f j)))
    (hv' : ∀ j : Nat, j < k.toNat → vs' (copyKey pre post j) = some (.float (f' j)))
    (hc : ∀ j : Nat, j < k.toNat → Cent (f j) (cs j) ∧ (cs j).natAbs ≤ 100000000000)
    (hc' : ∀ j : Nat, j < k.toNat → Cent (f' j) (cs' j) ∧ (cs' j).natAbs ≤ 100000000000)
    (hperm : (copyCents cs' k).Perm (copyCents cs k)) :
    ∃ x x' t, run vs is fs ((mkCat y).sem (fname ++ "." ++ lname)) = .val (.float x) ∧
      run vs' is' fs' ((mkCat y).sem (fname ++ "." ++ lname)) = .val (.float x') ∧
      Cent x t ∧ Cent x' t ∧ (t ≠ 0 → x = x') := by
  obtain ⟨x, hx, cx⟩ := float_sum_line_total vs is fs hS k f cs hk hcnt hv hc
  obtain ⟨x', hx', cx'⟩ := float_sum_line_total vs' is' fs' hS k f' cs' hk hcnt' hv' hc'
  rw [perm_sum_int hperm] at cx'
  exact ⟨x, x', _, hx, hx', cx, cx', fun h0 => Cent.eq_of_ne_zero cx cx' h0
    (copyCents_sum_bound cs k hk fun j hj => (hc j hj).2)⟩

end floatsum

/-- the regenerated programs that have this shape (checked by the kernel on every run): tax-exempt
interest (1040 line 2a), Medicare wages and Medicare tax withheld (Form 8959 lines 1 and 19) -/
theorem float_sum_lines_2021 :
    FloatSumLine year2021 Y2021.c_1040 (lineOf Y2021.c_1040 "2a") "1040" "2a" "number_1099-int" "1040.number_1099-int" "1099-int:" ".box_8" ∧
    FloatSumLine year2021 Y2021.c_8959 (lineOf Y2021.c_8959 "1") "8959" "1" "1040.number_w-2" "1040.number_w-2" "w-2:" ".box_5" ∧
    FloatSumLine year2021 Y2021.c_8959 (lineOf Y2021.c_8959 "19") "8959" "19" "1040.number_w-2" "1040.number_w-2" "w-2:" ".box_6" :=
  ⟨⟨rfl, ⟨rfl, rfl⟩, rfl, by decide, by decide⟩, ⟨rfl, ⟨rfl, rfl⟩, rfl, by decide, by decide⟩,
   ⟨rfl, ⟨rfl, rfl⟩, rfl, by decide, by decide⟩⟩
theorem float_sum_lines_2022 :
    FloatSumLine year2022 Y2022.c_1040 (lineOf Y2022.c_1040 "2a") "1040" "2a" "number_1099-int" "1040.number_1099-int" "1099-int:" ".box_8" ∧
    FloatSumLine year2022 Y2022.c_8959 (lineOf Y2022.c_8959 "1") "8959" "1" "1040.number_w-2" "1040.number_w-2" "w-2:" ".box_5" ∧
    FloatSumLine year2022 Y2022.c_8959 (lineOf Y2022.c_8959 "19") "8959" "19" "1040.number_w-2" "1040.number_w-2" "w-2:" ".box_6" :=
  ⟨⟨rfl, ⟨rfl, rfl⟩, rfl, by decide, by decide⟩, ⟨rfl, ⟨rfl, rfl⟩, rfl, by decide, by decide⟩,
   ⟨rfl, ⟨rfl, rfl⟩, rfl, by decide, by decide⟩⟩
theorem float_sum_lines_2023 :
    FloatSumLine year2023 Y2023.c_1040 (lineOf Y2023.c_1040 "2a") "1040" "2a" "number_1099-int" "1040.number_1099-int" "1099-int:" ".box_8" ∧
    FloatSumLine year2023 Y2023.c_8959 (lineOf Y2023.c_8959 "1") "8959" "1" "1040.number_w-2" "1040.number_w-2" "w-2:" ".box_5" ∧
    FloatSumLine year2023 Y2023.c_8959 (lineOf Y2023.c_8959 "19") "8959" "19" "1040.number_w-2" "1040.number_w-2" "w-2:" ".box_6" :=
  ⟨⟨rfl, ⟨rfl, rfl⟩, rfl, by decide, by decide⟩, ⟨rfl, ⟨rfl, rfl⟩, rfl, by decide, by decide⟩,
   ⟨rfl, ⟨rfl, rfl⟩, rfl, by decide, by decide⟩⟩

/-! ## one-step independence: what the payment and tax lines can read at all

`Proofs/Frame.lean` (`line_frame`): a line outcome is a function of the names its syntactic read sets
describe.  For the lines below the read sets of the REGENERATED programs are lists of literal keys (checked by
the kernel on every run), so each of them is unchanged by ANY change of the stores that leaves the listed
names alone — in particular by any change of a withholding box of any payer form.  (Whole-return
independence, through the lines these read, is decided on real solved returns.) -/

/-- the read sets of line `lname` of the instance-less form `fname` are exactly the literal keys `vn` / `inn` -/
structure ReadsOnly (y : YearDecl) (c : ClassDecl) (l : LineDecl) (fname lname : String)
    (vn inn : List String) : Prop where
  cname : c.name = fname
  sem : (mkCat y).sem (fname ++ "." ++ lname) = evalLine y c none l
  rv : refsV l = vn.map fun s => [Piece.lit s]
  ri : refsI l = inn.map fun s => [Piece.lit s]

/-- the full name a literal key denotes, seen from form `fname` -/
def litName (fname s : String) : String :=
  if s.toList.contains '.' then s else fname ++ "." ++ s

theorem names_lit {form s n : String} (h : KeyPat.Names form none [Piece.lit s] n) : n = litName form s := by
  obtain ⟨k, ⟨a, b, hk, ha, hb⟩, hn⟩ := h
  have ha' : a = s := ha
  have hb' : b = "" := hb
  subst ha' hb'
  have : k = a := by rw [hk]; exact String.append_empty
  subst this
  exact hn

/-- **such a line depends only on the listed names** -/
theorem reads_only_frame {y : YearDecl} {c : ClassDecl} {l : LineDecl} {fname lname : String}
    {vn inn : List String} (h : ReadsOnly y c l fname lname vn inn)
    (vs vs' : String → Option Val) (is is' : String → InpRes Val) (fs : String → Bool)
    (hv : ∀ s ∈ vn, vs (litName fname s) = vs' (litName fname s))
    (hi : ∀ s ∈ inn, is (litName fname s) = is' (litName fname s)) :
    run vs is fs ((mkCat y).sem (fname ++ "." ++ lname)) =
      run vs' is' fs ((mkCat y).sem (fname ++ "." ++ lname)) := by
  rw [h.sem]
  refine line_frame y c none l vs vs' is is' fs ?_ ?_
  · rintro n ⟨p, hp, hn⟩
    rw [h.rv, List.mem_map] at hp
    obtain ⟨s, hs, rfl⟩ := hp
    rw [h.cname] at hn
    rw [names_lit hn]; exact hv s hs
  · rintro n ⟨p, hp, hn⟩
    rw [h.ri, List.mem_map] at hp
    obtain ⟨s, hs, rfl⟩ := hp
    rw [h.cname] at hn
    rw [names_lit hn]; exact hi s hs

/-- the regenerated Form 1040 lines 24, 25d, 26, 32, 33 read only these names (kernel-checked each run) -/
theorem reads_only_2021 :
    ReadsOnly year2021 Y2021.c_1040 (lineOf Y2021.c_1040 "24") "1040" "24" ["22", "23"] [] ∧
    ReadsOnly year2021 Y2021.c_1040 (lineOf Y2021.c_1040 "25d") "1040" "25d" ["25a", "25b", "25c"] [] ∧
    ReadsOnly year2021 Y2021.c_1040 (lineOf Y2021.c_1040 "26") "1040" "26" [] ["estimated_tax_payments"] ∧
    ReadsOnly year2021 Y2021.c_1040 (lineOf Y2021.c_1040 "32") "1040" "32" ["27a", "28", "29", "30", "31"] [] ∧
    ReadsOnly year2021 Y2021.c_1040 (lineOf Y2021.c_1040 "33") "1040" "33" ["25d", "26", "32"] [] :=
  ⟨⟨rfl, rfl, by decide +kernel, by decide +kernel⟩, ⟨rfl, rfl, by decide +kernel, by decide +kernel⟩,
   ⟨rfl, rfl, by decide +kernel, by decide +kernel⟩, ⟨rfl, rfl, by decide +kernel, by decide +kernel⟩,
   ⟨rfl, rfl, by decide +kernel, by decide +kernel⟩⟩
theorem reads_only_2022 :
    ReadsOnly year2022 Y2022.c_1040 (lineOf Y2022.c_1040 "24") "1040" "24" ["22", "23"] [] ∧
    ReadsOnly year2022 Y2022.c_1040 (lineOf Y2022.c_1040 "25d") "1040" "25d" ["25a", "25b", "25c"] [] ∧
    ReadsOnly year2022 Y2022.c_1040 (lineOf Y2022.c_1040 "26") "1040" "26" [] ["estimated_tax_payments"] ∧
    ReadsOnly year2022 Y2022.c_1040 (lineOf Y2022.c_1040 "32") "1040" "32" ["27", "28", "29", "31"] [] ∧
    ReadsOnly year2022 Y2022.c_1040 (lineOf Y2022.c_1040 "33") "1040" "33" ["25d", "26", "32"] [] :=
  ⟨⟨rfl, rfl, by decide +kernel, by decide +kernel⟩, ⟨rfl, rfl, by decide +kernel, by decide +kernel⟩,
   ⟨rfl, rfl, by decide +kernel, by decide +kernel⟩, ⟨rfl, rfl, by decide +kernel, by decide +kernel⟩,
   ⟨rfl, rfl, by decide +kernel, by decide +kernel⟩⟩
theorem reads_only_2023 :
    ReadsOnly year2023 Y2023.c_1040 (lineOf Y2023.c_1040 "24") "1040" "24" ["22", "23"] [] ∧
    ReadsOnly year2023 Y2023.c_1040 (lineOf Y2023.c_1040 "25d") "1040" "25d" ["25a", "25b", "25c"] [] ∧
    ReadsOnly year2023 Y2023.c_1040 (lineOf Y2023.c_1040 "26") "1040" "26" [] ["estimated_tax_payments"] ∧
    ReadsOnly year2023 Y2023.c_1040 (lineOf Y2023.c_1040 "32") "1040" "32" ["27", "28", "29", "31"] [] ∧
    ReadsOnly year2023 Y2023.c_1040 (lineOf Y2023.c_1040 "33") "1040" "33" ["25d", "26", "32"] [] :=
  ⟨⟨rfl, rfl, by decide +kernel, by decide +kernel⟩, ⟨rfl, rfl, by decide +kernel, by decide +kernel⟩,
   ⟨rfl, rfl, by decide +kernel, by decide +kernel⟩, ⟨rfl, rfl, by decide +kernel, by decide +kernel⟩,
   ⟨rfl, rfl, by decide +kernel, by decide +kernel⟩⟩

/-- **Line 24 (total tax) of the 2023 return is unchanged by any change of the stores that keeps lines 22 and
23** — e.g. by changing any withholding box (instance of `reads_only_frame`; the premises are satisfiable:
the two stores below differ at a W-2 box) -/
theorem total_tax_ignores_everything_but_22_23_2023
    (vs vs' : String → Option Val) (is is' : String → InpRes Val) (fs : String → Bool)
    (h22 : vs "1040.22" = vs' "1040.22") (h23 : vs "1040.23" = vs' "1040.23") :
    run vs is fs ((mkCat year2023).sem "1040.24") = run vs' is' fs ((mkCat year2023).sem "1040.24") := by
  refine reads_only_frame reads_only_2023.1 vs vs' is is' fs ?_ ?_
  · intro s hs
    simp only [List.mem_cons, List.mem_nil_iff, or_false] at hs
    rcases hs with rfl | rfl
    · exact h22
    · exact h23
  · intro s hs; cases hs

/-- **Two returned states that agree on what a line reads agree on the line** (the induction step of whole-return
independence): for a line whose regenerated read sets are the literal names `vn` / `inn`, ANY two states the
solver returns for the year — different input files, prompts, requests, schedules — with the same loaded forms,
whose stored values of `vn` and input answers of `inn` coincide, store the same value for the line (when both
store one).  So a change of the inputs that reaches none of the names a line reads cannot reach the line. -/
theorem solved_lines_agree {y : YearDecl} {c : ClassDecl} {l : LineDecl} {fname lname : String}
    {vn inn : List String} (hR : ReadsOnly y c l fname lname vn inn)
    {σ σ' : Sched String String} (hσ : SchedOK σ) (hσ' : SchedOK σ')
    {P P' : Option (Nat → String → List String → Option String)}
    {inp inp' : List (String × String)} {forms forms' extra extra' : List String}
    {fuel qfuel fuel' qfuel' : Nat} {s s' : St String String String Val String}
    (h : solve (mkCat y) σ P inp forms extra fuel qfuel = .ok (some s))
    (h' : solve (mkCat y) σ' P' inp' forms' extra' fuel' qfuel' = .ok (some s'))
    (hff : s.ff = s'.ff)
    (hv : ∀ k ∈ vn, s.vf (litName fname k) = s'.vf (litName fname k))
    (hi : ∀ k ∈ inn, s.inf (mkCat y) (litName fname k) = s'.inf (mkCat y) (litName fname k))
    (x x' : Val) (hx : s.vf (fname ++ "." ++ lname) = some x)
    (hx' : s'.vf (fname ++ "." ++ lname) = some x') : x = x' := by
  have hC : CatWF (mkCat y) := Dsl.mkCat_wf y
  have f := C03.solution_fixed_point hC hσ h _ x hx
  have f' := C03.solution_fixed_point hC hσ' h' _ x' hx'
  have e := reads_only_frame hR s.vf s'.vf (s.inf (mkCat y)) (s'.inf (mkCat y)) s.ff hv hi
  rw [hff] at e f
  rw [e, f'] at f
  injection f with f
  exact f.symm

/-- instance: total tax (line 24) of two 2023 returns with the same lines 22 and 23 is the same, whatever else
differs between the two input files (withholding boxes, payments, names, ...) -/
theorem solved_total_tax_agrees_2023
    {σ σ' : Sched String String} (hσ : SchedOK σ) (hσ' : SchedOK σ')
    {P P' : Option (Nat → String → List String → Option String)}
    {inp inp' : List (String × String)} {forms forms' extra extra' : List String}
    {fuel qfuel fuel' qfuel' : Nat} {s s' : St String String String Val String}
    (h : solve (mkCat year2023) σ P inp forms extra fuel qfuel = .ok (some s))
    (h' : solve (mkCat year2023) σ' P' inp' forms' extra' fuel' qfuel' = .ok (some s'))
    (hff : s.ff = s'.ff)
    (h22 : s.vf "1040.22" = s'.vf "1040.22") (h23 : s.vf "1040.23" = s'.vf "1040.23")
    (x x' : Val) (hx : s.vf "1040.24" = some x) (hx' : s'.vf "1040.24" = some x') : x = x' := by
  refine solved_lines_agree reads_only_2023.1 hσ hσ' h h' hff ?_ ?_ x x' hx hx'
  · intro k hk
    simp only [List.mem_cons, List.mem_nil_iff, or_false] at hk
    rcases hk with rfl | rfl
    · exact h22
    · exact h23
  · intro k hk; cases hk

end HabuVerif.C16

#print axioms HabuVerif.C16.shapes_2021
#print axioms HabuVerif.C16.shapes_2022
#print axioms HabuVerif.C16.shapes_2023
#print axioms HabuVerif.C16.withholding_total
#print axioms HabuVerif.C16.renumbering_keeps_withholding
#print axioms HabuVerif.C16.net_is_payments_minus_tax
#print axioms HabuVerif.C16.solved_net_is_payments_minus_tax
#print axioms HabuVerif.C16.withholding_one_for_one
#print axioms HabuVerif.C16.float_sum_line_total
#print axioms HabuVerif.C16.float_sum_line_renumbering
#print axioms HabuVerif.C16.float_sum_lines_2021
#print axioms HabuVerif.C16.float_sum_lines_2022
#print axioms HabuVerif.C16.float_sum_lines_2023
#print axioms HabuVerif.C16.reads_only_frame
#print axioms HabuVerif.C16.reads_only_2021
#print axioms HabuVerif.C16.reads_only_2022
#print axioms HabuVerif.C16.reads_only_2023
#print axioms HabuVerif.C16.total_tax_ignores_everything_but_22_23_2023
#print axioms HabuVerif.C16.solved_lines_agree
#print axioms HabuVerif.C16.solved_total_tax_agrees_2023

/-! ## Form 1040 line 25b (tax withheld on Forms 1099), `Proofs/C16Line25b.lean`

`L25b.line25b_shape_2021/2/3` re-check on every run that the regenerated line 25b of each year is the
four-fold chain `float(sum(1099-R box 4)) += … 1099-DIV … += … 1099-INT … += … 1099-G …; if > 0.001`.
For every store (≤ 64 copies per form, amounts between 0 and 10^9 dollars, in cents):
`L25b.line25b_total` — the line is exactly the cents total of all copies (a zero total is stored as
`0.0`); `L25b.line25b_renumbering` — permuting the copies of each form leaves the stored double
unchanged; `L25b.line25b_one_for_one` — one more cent withheld on ANY copy of ANY of the four forms is
one more cent on line 25b, hence (`net_is_payments_minus_tax`) one more cent of refund-minus-owed. -/
#print axioms HabuVerif.C16.L25b.line25b_shape_2021
#print axioms HabuVerif.C16.L25b.line25b_shape_2022
#print axioms HabuVerif.C16.L25b.line25b_shape_2023
#print axioms HabuVerif.C16.L25b.eval_25b
#print axioms HabuVerif.C16.L25b.line25b_total
#print axioms HabuVerif.C16.L25b.line25b_renumbering
#print axioms HabuVerif.C16.L25b.line25b_one_for_one
