import HabuVerif.Proofs.InstrSound
import HabuVerif.Proofs.DslCatWF
import HabuVerif.Props.C03
/-!
# C02 — Every computed line equals what the official form instructs for it

Three layers:

1. `Gen/C02_<year>.lean` (regenerated from the working tree on every run): one kernel-checked
   obligation per (line, instruction of the official form) — `matchesInstr d i = true`
   (the translated program has the canonical arithmetic shape of the instruction, up to operand
   order, orientation of comparisons and the ways of writing a floor at zero), and for the narrower
   fragment `certified d i = true`.
2. `Spec.line_matches_instruction` (re-exported here): `certified d i = true` MEANS that the line
   evaluates to the double of exactly the cents the instruction yields on its operands' cents.
3. `solved_line_is_what_the_form_says`: hence in every state the solver returns, the STORED value
   of a certified line is what the form instructs, applied to the stored values of its operands.

PARTIAL: lines matched only syntactically (sum-comprehensions, rate multiplications, guarded and
declined branches, NC whole-dollar lines) have layer 1 but not layer 2; they are checked on real
solutions by the statement oracle (exact rational arithmetic on the solution's own values).
-/
set_option autoImplicit false

namespace HabuVerif.C02
open HabuVerif HabuVerif.Dsl HabuVerif.Spec HabuVerif.F64

/-- what `(mkCat y).sem` is for a name that resolves to a line -/
theorem mkCat_sem_of (y : YearDecl) (n f k : String) (c : ClassDecl) (inst : Option String) (d : LineDecl)
    (hs : splitName n = some (f, k)) (hr : y.resolveForm f = some (c, inst))
    (hd : c.lines.find? (fun d => d.name == k) = some d) :
    (mkCat y).sem n = evalLine y c inst d := by
  simp only [mkCat, mkCatOf, hs]
  simp only [YearDecl.resolveForm] at hr
  simp only [hr, hd]

/-- **A certified line evaluates to what the form says** (any stores holding cent-valued operands) -/
theorem certified_line_computes_instruction (year : YearDecl) (cls : ClassDecl) (inst : Option String)
    (d : LineDecl) (i : Instr) (hcert : certified d i = true)
    (σ : String → F64) (c : String → Int) (hσ : CentStore σ c)
    (vs : String → Option Val) (is : String → InpRes Val) (fs : String → Bool)
    (hs : ∀ n ∈ lineReads d,
      vs (qual { year := year, form := cls.name, inst := inst, thresholds := cls.thresholds } n)
        = some (.float (σ n))) :
    ∃ x r, run vs is fs (evalLine year cls inst d) = .val (.float x) ∧ i.evalI c = some r ∧ Cent x r :=
  line_matches_instruction year cls inst d i hcert σ c hσ vs is fs hs

/-- **In every state the solver returns** (any schedule, prompt, inputs; solved or not): the stored
value of a certified line is the double of exactly the cents the official instruction yields on the
stored (cent-valued) values of the lines it reads. -/
theorem solved_line_is_what_the_form_says (y : YearDecl) (n f k : String) (cls : ClassDecl)
    (inst : Option String) (d : LineDecl)
    (hsplit : splitName n = some (f, k)) (hres : y.resolveForm f = some (cls, inst))
    (hfind : cls.lines.find? (fun d => d.name == k) = some d)
    (i : Instr) (hcert : certified d i = true)
    {σ : Sched String String} (hσs : SchedOK σ) {P : Option (Nat → String → List String → Option String)}
    {inp : List (String × String)} {forms : List String} {extra : List String} {fuel qfuel : Nat}
    {s : St String String String Val String}
    (h : solve (mkCat y) σ P inp forms extra fuel qfuel = .ok (some s))
    (σ' : String → F64) (c : String → Int) (hσ : CentStore σ' c)
    (hs : ∀ m ∈ lineReads d,
      s.vf (qual { year := y, form := cls.name, inst := inst, thresholds := cls.thresholds } m)
        = some (.float (σ' m)))
    (v : Val) (hv : s.vf n = some v) :
    ∃ x r, v = .float x ∧ i.evalI c = some r ∧ Cent x r := by
  obtain ⟨x, r, hrun, hi, hc⟩ := line_matches_instruction y cls inst d i hcert σ' c hσ s.vf
    (s.inf (mkCat y)) s.ff hs
  have hfix := C03.solution_fixed_point (Dsl.mkCat_wf y) hσs h n v hv
  rw [mkCat_sem_of y n f k cls inst d hsplit hres hfind, hrun] at hfix
  injection hfix with hfix
  exact ⟨x, r, hfix.symm, hi, hc⟩

end HabuVerif.C02

#print axioms HabuVerif.C02.certified_line_computes_instruction
#print axioms HabuVerif.C02.solved_line_is_what_the_form_says
#print axioms HabuVerif.Spec.line_matches_instruction
#print axioms HabuVerif.Spec.certifies_sound
#print axioms HabuVerif.Spec.evalLine_of_toArith
