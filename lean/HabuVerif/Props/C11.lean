import HabuVerif.Proofs.InputsLemmas
/-!
# C11 — Lines only ever see validated, correctly typed, finite input values

`Inputs.getitem` is the model of `InputStore.__getitem__` (spec loaded? provided? `valid`? `value`),
`Inputs.valid` / `Inputs.value` the models of the seven input classes, compared with the real
classes on adversarial strings by the `inputs` correspondence stream.  All theorems hold for EVERY
text, every Unicode character table `T` and every float semantics `ops` whose `FloatInput.value`
structure is the code's (strip, empty → 0.0, `float()`, reject non-finite).
-/
set_option autoImplicit false

namespace HabuVerif.C11
open HabuVerif HabuVerif.Inputs HabuVerif.PyStr

variable {F : Type} (T : CharTable) (ops : FloatOps F)

/-- **The gate.** Whatever `inputs[name]` hands to a line passed the input's own validation, is
that input's `value`, has the declared dynamic type and — for a numeric input — is finite. -/
theorem line_sees_only_valid_typed_finite (hz : ops.isFinite ops.zero = true) (sp : InputSpec)
    (text : Text) (v : PyVal F) (h : getitem T ops (some sp) (some text) = .ok v) :
    valid T ops sp text = true ∧ value T ops sp text = .ok v ∧ HasKind sp v ∧
      (∀ x, v = .float x → ops.isFinite x = true) :=
  getitem_ok_sound T ops hz sp text v h

/-- text the validator rejects is reported as invalid, never turned into a value -/
theorem rejected_text_is_invalid (sp : InputSpec) (text : Text) (h : valid T ops sp text = false) :
    getitem T ops (some sp) (some text) = .invalid text :=
  ((getitem_cases T ops (some sp) (some text)).2.2.1 text).mpr ⟨sp, rfl, rfl, h⟩

/-- **Missing iff not supplied**: an input that was supplied is never reported missing and one that
was not supplied never silently defaults. -/
theorem missing_iff_not_supplied (sp : InputSpec) (stored : Option Text) :
    getitem T ops (some sp) stored = .missing ↔ stored = none :=
  getitem_missing_iff T ops sp stored

/-- a conversion error can never escape the store: `valid` said yes, so `value` returns -/
theorem no_conversion_error_escapes (spec : Option InputSpec) (stored : Option Text) (e : PyErr) :
    getitem T ops spec stored ≠ .raised e := getitem_never_raised T ops spec stored e

/-- text that does not denote a finite number is invalid for a numeric input -/
theorem nonfinite_is_invalid (s : Text) (d : DecLit) (hd : parseFloatLit T (strip T s) = some d)
    (hn : ops.isFinite (ops.ofLit d) = false) : valid T ops .float s = false :=
  float_rejects_nonfinite T ops s d hd hn

/-- and a valid one denotes a finite double -/
theorem valid_float_is_finite (hz : ops.isFinite ops.zero = true) (s : Text)
    (h : valid T ops .float s = true) :
    ∃ x, value T ops .float s = .ok (.float x) ∧ ops.isFinite x = true :=
  float_finite T ops hz s h

/-- `nan` and `inf` ARE float literals for Python's `float()` — so the finiteness check is what
keeps them out (this was false before the `fix:` commit) -/
theorem nan_inf_are_literals :
    (∃ d, parseFloatLit T "nan".toList = some d) ∧ (∃ d, parseFloatLit T "inf".toList = some d) :=
  ⟨⟨_, parseFloatLit_nan T⟩, ⟨_, parseFloatLit_inf T⟩⟩

/-- what the validators accept, exactly -/
theorem boolean_accepts_exactly (s : Text) :
    valid T ops .bool s = true ↔ lower T (strip T s) ∈ tenWords := bool_accepts_exactly T ops s

theorem ssn_accepts (s : Text) :
    valid T ops .ssn s = true ↔
      (removeDash (strip T s)).length = 9 ∧ ∀ c ∈ removeDash (strip T s), isAsciiDigit c = true :=
  ssn_accepts_exactly T ops s

theorem enum_accepts (e : EnumTy) (ae : Bool) (s : Text) :
    valid T ops (.enum e ae) s = true ↔ (strip T s = [] ∧ ae = true) ∨ strip T s ∈ e.members :=
  enum_accepts_exactly T ops e ae s

/-- `valid` agrees with `value` for every class (for Regex/SSN `value` never fails and `valid`
is the stricter one) -/
theorem valid_implies_value (sp : InputSpec) (s : Text) (h : valid T ops sp s = true) :
    ∃ v, value T ops sp s = .ok v := valid_imp_value_ok T ops sp s h

end HabuVerif.C11

#print axioms HabuVerif.C11.line_sees_only_valid_typed_finite
#print axioms HabuVerif.C11.rejected_text_is_invalid
#print axioms HabuVerif.C11.missing_iff_not_supplied
#print axioms HabuVerif.C11.no_conversion_error_escapes
#print axioms HabuVerif.C11.nonfinite_is_invalid
#print axioms HabuVerif.C11.valid_float_is_finite
#print axioms HabuVerif.C11.nan_inf_are_literals
#print axioms HabuVerif.C11.boolean_accepts_exactly
#print axioms HabuVerif.C11.ssn_accepts
#print axioms HabuVerif.C11.enum_accepts
#print axioms HabuVerif.C11.valid_implies_value
