import HabuVerif.Proofs.PdfLemmas
/-!
# C19 — The fill step transmits values faithfully and files exactly the right forms

`Pdf.createFdf` is the model of `PDFFiller._create_fdf` (compared byte for byte with the real
function by the `ini` correspondence stream), `Pdf.decodeFdfFields` a decoder for the PDF
literal-string syntax (ISO 32000 §7.3.4.2), `Pdf.fillSelection` the model of the form selection in
`PDFFiller.fill`.
-/
set_option autoImplicit false

namespace HabuVerif.C19
open HabuVerif HabuVerif.Pdf

/-- **Faithful transmission.**  For EVERY list of (field name, text) pairs — any characters,
any length, unbalanced parentheses, backslashes, quotes — except a raw carriage return, the
form-data text handed to the PDF tool decodes, under the PDF string syntax, to exactly those pairs. -/
theorem fdf_decodes (m : List (Text × Text)) (h : ∀ kv ∈ m, '\r' ∉ kv.1 ∧ '\r' ∉ kv.2) :
    decodeFdfFields (createFdf m) = some m := fdf_roundtrip m h

/-- the excluded character really is lossy (a raw CR inside a literal string reads as LF) -/
theorem carriage_return_is_lossy :
    decodeFdfFields (createFdf [(['k'], ['a', '\r', 'b'])]) = some [(['k'], ['a', '\n', 'b'])] :=
  cr_not_preserved

/-- negative control: without the escaping the property is false (this was the shipped behaviour
before the `fix:` commit; the check would report it again if the escaping were removed) -/
theorem unescaped_does_not_decode :
    decodeFdfFields (createFdfRaw [(['k'], "a) /V (b".toList)]) ≠ some [(['k'], "a) /V (b".toList)] :=
  raw_does_not_roundtrip

/-- **Exactly the right forms.**  The forms filled are exactly the solution's sections (other than
`DEFAULT`) whose form needs filing … -/
theorem filled_iff_needs_filing (l : List FormInfo) (f : FormInfo) :
    f ∈ fillSelection l ↔ f ∈ l ∧ f.name ≠ DEFAULT ∧ f.needsFiling = true :=
  fill_selection_mem l f

/-- … each once … -/
theorem filled_once (l : List FormInfo) (h : (l.map (·.name)).Nodup) :
    ((fillSelection l).map (·.name)).Nodup := fill_selection_nodup l h

/-- … ordered by jurisdiction and attachment sequence number. -/
theorem filled_in_order (l : List FormInfo) : (fillSelection l).Pairwise (fun a b => keyLe a b = true) :=
  fill_selection_sorted l

/-- A text box with a length limit never truncates: the mapped text is passed unchanged or the
fill stops (`TextPDFField.value`). -/
def textFieldValue (maxLen : Option Nat) (s : Text) : Except Unit Text :=
  match maxLen with
  | some m => if s.length > m then .error () else .ok s
  | none => .ok s

theorem no_truncation (maxLen : Option Nat) (s t : Text) (h : textFieldValue maxLen s = .ok t) :
    t = s ∧ ∀ m, maxLen = some m → s.length ≤ m := by
  unfold textFieldValue at h
  cases maxLen with
  | none => cases h; exact ⟨rfl, fun m hm => by cases hm⟩
  | some m =>
    simp only at h
    split at h
    · cases h
    · rename_i hle
      cases h
      exact ⟨rfl, fun m' hm' => by cases hm'; omega⟩

/-- `ChoicePDFField.value`: a text outside the choice list stops the fill, no substitution -/
def choiceFieldValue (choices : List Text) (s : Text) : Except Unit Text :=
  if s ∈ choices then .ok s else .error ()

theorem no_substitution (choices : List Text) (s t : Text) (h : choiceFieldValue choices s = .ok t) :
    t = s ∧ s ∈ choices := by
  unfold choiceFieldValue at h
  split at h
  · rename_i hm; cases h; exact ⟨rfl, hm⟩
  · cases h

end HabuVerif.C19

#print axioms HabuVerif.C19.fdf_decodes
#print axioms HabuVerif.C19.carriage_return_is_lossy
#print axioms HabuVerif.C19.unescaped_does_not_decode
#print axioms HabuVerif.C19.filled_iff_needs_filing
#print axioms HabuVerif.C19.filled_once
#print axioms HabuVerif.C19.filled_in_order
#print axioms HabuVerif.C19.no_truncation
#print axioms HabuVerif.C19.no_substitution
