import HabuVerif.Proofs.C08ChecksLemmas
import HabuVerif.Spec.Statutory
/-!
# C08 — Year- and status-indexed statutory amounts are the official ones

The obligations themselves are GENERATED (`Gen/C08_<year>_<k>.lean`, from the working tree on every
run): for every (year, filing status, statutory amount) triple and every site of the shipped forms
where the amount shows — a threshold table entry, an echo line, a gate, a coefficient — the Lean
kernel evaluates the REAL translated line program (or `Form.threshold` lookup) at the bounds given
by the independent table `Spec/Statutory.lean` (amount, amount ± one cent / one dollar) and compares.

What one such evaluation on a tiny store means for every state of the solver is `run_agrees`: an
evaluation depends only on the names it actually reads, so it speaks for every store that agrees
with the tiny one on those names.
-/
set_option autoImplicit false

namespace HabuVerif.C08

/-- the published table has an entry (a value or an explicit "not applicable") for the statuses of
every year: spot-checked here so that a table that lost its rows cannot make obligations vacuous -/
theorem table_has_standard_deductions :
    (Spec.Statutory.amount 2021 .single .stdDeduction).isSome = true ∧
    (Spec.Statutory.amount 2022 .mfj .stdDeduction).isSome = true ∧
    (Spec.Statutory.amount 2023 .hoh .stdDeduction).isSome = true := by decide +kernel

end HabuVerif.C08

#print axioms HabuVerif.C08.run_congr
#print axioms HabuVerif.C08.run_agrees
#print axioms HabuVerif.C08.allSome_cons
#print axioms HabuVerif.C08.table_has_standard_deductions
