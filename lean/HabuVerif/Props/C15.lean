import HabuVerif.Proofs.C15Cents
import HabuVerif.Props.C03
import HabuVerif.Proofs.DslCatWF
import HabuVerif.Gen.Catalogue2021
import HabuVerif.Gen.Catalogue2022
import HabuVerif.Gen.Catalogue2023
/-!
# C15 — A solved return balances and has no impossible negative amounts

The theorems are about the line programs REGENERATED from the working tree (`Gen/Forms<year>_*.lean`):
`shape_*` checks, by `rfl`, that Form 1040 lines 34, 35a, 36 and 37 of each year still have the
syntactic shape whose meaning `Proofs/C15Lines.lean` establishes (an operand, sign or comparison
changed in the source breaks the `rfl`); `Proofs/C15Cents.lean` turns the F64 formulas into integer
identities in cents.  Amounts are bounded by 10^13 cents.
-/
set_option autoImplicit false
set_option maxRecDepth 100000
set_option linter.unusedVariables false

namespace HabuVerif.C15
open HabuVerif HabuVerif.Dsl HabuVerif.F64 HabuVerif.Gen

/-- the line called `n` of a class (a dummy if there is none: then the shape checks fail) -/
def lineOf (c : ClassDecl) (n : String) : LineDecl :=
  (c.lines.find? (·.name == n)).getD { name := "", kind := .str, required := false, defaults := [], body := [] }

/-- what the four balance lines of a year's Form 1040 must look like -/
structure BalanceShapes (y : YearDecl) (c : ClassDecl) (l34 l35a l36 l37 : LineDecl) : Prop where
  cname : c.name = "1040"
  s34 : l34.body = shapeSubIfGt "33" "24" ∧ l34.kind = .float 2
  s37 : l37.body = shapeNoneIfGtElseSub "33" "24" ∧ l37.kind = .float 2
  s35a : l35a.body = shapeSubIfGtLit "34" "36" lit001 ∧ l35a.kind = .float 2
  s36 : l36.body = shapeMinMaxIfGtLit "34" "apply_to_estimated_tax" F64.zero lit001 ∧ l36.kind = .float 2
  sem34 : (mkCat y).sem "1040.34" = evalLine y c none l34
  sem37 : (mkCat y).sem "1040.37" = evalLine y c none l37
  sem35a : (mkCat y).sem "1040.35a" = evalLine y c none l35a
  sem36 : (mkCat y).sem "1040.36" = evalLine y c none l36

/-- the regenerated programs of each year have these shapes (checked by the kernel on every run) -/
theorem shapes_2021 : BalanceShapes year2021 Y2021.c_1040 (lineOf Y2021.c_1040 "34")
    (lineOf Y2021.c_1040 "35a") (lineOf Y2021.c_1040 "36")
    (lineOf Y2021.c_1040 "37") :=
  ⟨rfl, ⟨rfl, rfl⟩, ⟨rfl, rfl⟩, ⟨rfl, rfl⟩, ⟨rfl, rfl⟩, rfl, rfl, rfl, rfl⟩
theorem shapes_2022 : BalanceShapes year2022 Y2022.c_1040 (lineOf Y2022.c_1040 "34")
    (lineOf Y2022.c_1040 "35a") (lineOf Y2022.c_1040 "36")
    (lineOf Y2022.c_1040 "37") :=
  ⟨rfl, ⟨rfl, rfl⟩, ⟨rfl, rfl⟩, ⟨rfl, rfl⟩, ⟨rfl, rfl⟩, rfl, rfl, rfl, rfl⟩
theorem shapes_2023 : BalanceShapes year2023 Y2023.c_1040 (lineOf Y2023.c_1040 "34")
    (lineOf Y2023.c_1040 "35a") (lineOf Y2023.c_1040 "36")
    (lineOf Y2023.c_1040 "37") :=
  ⟨rfl, ⟨rfl, rfl⟩, ⟨rfl, rfl⟩, ⟨rfl, rfl⟩, ⟨rfl, rfl⟩, rfl, rfl, rfl, rfl⟩

section general
variable {y : YearDecl} {c : ClassDecl} {l34 l35a l36 l37 : LineDecl}
variable (vs : String → Option Val) (is : String → InpRes Val) (fs : String → Bool)

theorem q33 : qual' "1040" none "33" = "1040.33" := by decide
theorem q24 : qual' "1040" none "24" = "1040.24" := by decide
theorem q34 : qual' "1040" none "34" = "1040.34" := by decide
theorem q36 : qual' "1040" none "36" = "1040.36" := by decide
theorem qapply : qual' "1040" none "apply_to_estimated_tax" = "1040.apply_to_estimated_tax" := by decide

theorem isNaN_of_finite {x : F64} (h : x.isFinite = true) : x.isNaN = false := by
  cases x <;> simp_all [F64.isFinite, F64.isNaN]

/-- **Overpayment minus amount owed equals total payments minus total tax; at most one is
positive** — for the evaluation of lines 34 and 37 against ANY stores in which lines 33 and 24 hold
cent-valued amounts. -/
theorem overpayment_and_amount_owed (hS : BalanceShapes y c l34 l35a l36 l37)
    (a b : F64) (ca cb : Int) (hCa : Cent a ca) (hCb : Cent b cb)
    (hca : ca.natAbs ≤ 10000000000000) (hcb : cb.natAbs ≤ 10000000000000)
    (h33 : vs "1040.33" = some (.float a)) (h24 : vs "1040.24" = some (.float b)) :
    ∃ (over owed : F64) (co cw : Int),
      run vs is fs ((mkCat y).sem "1040.34") = .val (.float over) ∧
      run vs is fs ((mkCat y).sem "1040.37") = .val (.float owed) ∧
      Cent over co ∧ Cent owed cw ∧ co - cw = ca - cb ∧ 0 ≤ co ∧ 0 ≤ cw ∧ ¬ (0 < co ∧ 0 < cw) ∧
      co.natAbs ≤ 2 * 10000000000000 := by
  obtain ⟨co, cw, h1, h2, h3, h4, h5, h6, h7, _⟩ := over_owed a b ca cb hCa hCb hca hcb
  have ha := isNaN_of_finite hCa.isFinite
  have hb := isNaN_of_finite hCb.isFinite
  refine ⟨_, _, co, cw, ?_, ?_, h1, h2, h3, h4, h5, h6, h7⟩
  · rw [hS.sem34]
    exact eval_subIfGt vs is fs y c none l34 "33" "24" 2 hS.s34.1 hS.s34.2 a b ha hb
      (by rw [hS.cname, q33]; exact h33) (by rw [hS.cname, q24]; exact h24)
  · rw [hS.sem37]
    exact eval_noneIfGtElseSub vs is fs y c none l37 "33" "24" 2 hS.s37.1 hS.s37.2 a b ha hb
      (by rw [hS.cname, q33]; exact h33) (by rw [hS.cname, q24]; exact h24)

/-- **Refund plus amount applied to next year equals the overpayment; neither is negative** — for
stores in which line 34 holds the overpayment, line 36 holds what line 36 evaluates to (fixed
point, C03), and the requested amount is any finite number. -/
theorem refund_and_applied (hS : BalanceShapes y c l34 l35a l36 l37)
    (over t x36 : F64) (co : Int) (hCo : Cent over co) (hco : co.natAbs ≤ 2 * 10000000000000) (hco0 : 0 ≤ co)
    (ht : t.isFinite = true) (htw : WF t)
    (h34 : vs "1040.34" = some (.float over))
    (hin : is "1040.apply_to_estimated_tax" = .ok (.float t))
    (h36 : vs "1040.36" = some (.float x36))
    (hfix : run vs is fs ((mkCat y).sem "1040.36") = .val (.float x36)) :
    ∃ (refund : F64) (ca cr : Int),
      run vs is fs ((mkCat y).sem "1040.35a") = .val (.float refund) ∧
      Cent x36 ca ∧ Cent refund cr ∧ cr + ca = co ∧ 0 ≤ ca ∧ 0 ≤ cr := by
  have ho := isNaN_of_finite hCo.isFinite
  have htn := isNaN_of_finite ht
  have e36 := eval_minMaxIfGtLit vs is fs y c none l36 "34" "apply_to_estimated_tax" F64.zero lit001 2
    hS.s36.1 hS.s36.2 over t ho (isNaN_of_finite lit001_finite) (by decide) htn
    (by rw [hS.cname, q34]; exact h34) (by intro _; rw [hS.cname, qapply]; exact hin)
  rw [← hS.sem36, hfix] at e36
  have hx36 : x36 = (if F64.lt lit001 over then F64.roundN (F64.pyMin over (F64.pyMax F64.zero t)) 2 else F64.zero) := by
    injection e36 with e; injection e
  obtain ⟨ca, cr, h1, h2, h3, h4, h5⟩ := refund_split over t co hCo hco hco0 ht htw
  have hx36n : x36.isNaN = false := by rw [hx36]; exact isNaN_of_finite h1.isFinite
  refine ⟨(if F64.lt lit001 over then F64.roundN (F64.sub over x36) 2 else F64.zero), ca, cr, ?_,
    by rw [hx36]; exact h1, ?_, h3, h4, h5⟩
  · rw [hS.sem35a]
    exact eval_subIfGtLit vs is fs y c none l35a "34" "36" lit001 2 hS.s35a.1 hS.s35a.2 over x36 ho
      (isNaN_of_finite lit001_finite) (by rw [hS.cname, q34]; exact h34) (by rw [hS.cname, q36]; exact h36)
  · rw [hx36]; exact h2

end general

/-- **In every state the solver returns** (any schedule, prompt, inputs; solved or not) for a year
whose programs have the checked shapes: if lines 33, 24, 34, 37 of Form 1040 have values and
payments / tax are cent-valued amounts in range, then the STORED overpayment and amount owed are
cent-valued, their difference is payments minus tax, both are non-negative and at most one is
positive. -/
theorem solved_return_balances {y : YearDecl} {c : ClassDecl} {l34 l35a l36 l37 : LineDecl}
    (hS : BalanceShapes y c l34 l35a l36 l37) {σ : Sched String String}
    (hσ : SchedOK σ) {P : Option (Nat → String → List String → Option String)}
    {inp : List (String × String)} {forms : List String} {extra : List String} {fuel qfuel : Nat}
    {s : St String String String Val String}
    (h : solve (mkCat y) σ P inp forms extra fuel qfuel = .ok (some s))
    (a b : F64) (ca cb : Int) (hCa : Cent a ca) (hCb : Cent b cb)
    (hca : ca.natAbs ≤ 10000000000000) (hcb : cb.natAbs ≤ 10000000000000)
    (h33 : s.vf "1040.33" = some (.float a)) (h24 : s.vf "1040.24" = some (.float b))
    (v34 v37 : Val) (h34 : s.vf "1040.34" = some v34) (h37 : s.vf "1040.37" = some v37) :
    ∃ (over owed : F64) (co cw : Int), v34 = .float over ∧ v37 = .float owed ∧
      Cent over co ∧ Cent owed cw ∧ co - cw = ca - cb ∧ 0 ≤ co ∧ 0 ≤ cw ∧ ¬ (0 < co ∧ 0 < cw) := by
  obtain ⟨over, owed, co, cw, e34, e37, r⟩ :=
    overpayment_and_amount_owed s.vf (s.inf (mkCat y)) s.ff hS a b ca cb hCa hCb hca hcb h33 h24
  have hC : CatWF (mkCat y) := Dsl.mkCat_wf y
  have f34 := C03.solution_fixed_point hC hσ h "1040.34" v34 h34
  have f37 := C03.solution_fixed_point hC hσ h "1040.37" v37 h37
  rw [e34] at f34; rw [e37] at f37
  injection f34 with f34; injection f37 with f37
  exact ⟨over, owed, co, cw, f34.symm, f37.symm, r.1, r.2.1, r.2.2.1, r.2.2.2.1, r.2.2.2.2.1, r.2.2.2.2.2.1⟩

/-- every stored money line is a double rounded to cents (the typed-field wrapper), hence
cent-valued when of ordinary magnitude — this discharges the `Cent` hypotheses above -/
theorem stored_money_is_cent_valued (v w : Val) (h : FieldKind.wrap (.float 2) v = .inl w) :
    ∃ x, w = .float (F64.roundN x 2) := wrap_float_out 2 v w h

end HabuVerif.C15

#print axioms HabuVerif.C15.shapes_2021
#print axioms HabuVerif.C15.shapes_2022
#print axioms HabuVerif.C15.shapes_2023
#print axioms HabuVerif.C15.overpayment_and_amount_owed
#print axioms HabuVerif.C15.refund_and_applied
#print axioms HabuVerif.C15.solved_return_balances
#print axioms HabuVerif.C15.stored_money_is_cent_valued
#print axioms HabuVerif.C15.over_owed
#print axioms HabuVerif.C15.refund_split
