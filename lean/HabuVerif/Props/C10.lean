import HabuVerif.Proofs.RefsCheckSound
import HabuVerif.Proofs.SolverRefs
/-!
# C10 — Every name a form definition can refer to resolves

Four links, each machine-checked:

1. `Dsl.eval_reads_in_refs` / `Dsl.cat_reads_in_refs` — every `v[...]` / `i[...]` node that occurs
   ANYWHERE in the strategy tree of a line (all continuations: all stores, all syntactic paths) reads a
   name matching a key pattern computed from the line's syntax (`Dsl/Refs.lean`).
2. `Dsl.c10_of_obligations(_all)`, `Dsl.yearOK_sound` — the decision procedure that checks the
   patterns against the catalogue (`Dsl/RefsCheck.lean`) is sound: a year that passes has
   `Resolves (mkCat y) absentOK`.
3. `Gen/C10_<year>.lean` (regenerated on every run) — the kernel evaluates the procedure on the
   regenerated programs and catalogue, class by class (`decide +kernel`), and assembles
   `c10_<year> : Resolves cat<year> …` (or `c10_<year>_rest` with the proved-failing lines excepted).
4. `solve_abort_good` — for ANY catalogue that resolves, `solve` never aborts with the solver's
   internal assertion (`noSuchField`), the unbounded `MissingInputSpecification` retry
   (`recursion`) or the `name.split('.')` ValueError (`badName`), under every schedule, prompt,
   input file and request; "form not supported" only names a requested or deliberately absent form.
-/
set_option autoImplicit false

namespace HabuVerif.C10
open HabuVerif HabuVerif.Dsl

/-- **A year that passes the reference check never aborts on a dangling name.** -/
theorem checked_year_never_aborts_on_dangling_names (y : YearDecl) (absent : List String)
    (h : yearOK y absent = true) {σ : Sched String String}
    (P : Option (Nat → String → List String → Option String)) (inp : List (String × String))
    (forms : List String) (extra : List String) (fuel qfuel : Nat) {e : Abort String String String}
    (he : solve (mkCat y) σ P inp forms extra fuel qfuel = .error e) :
    e.Good (fun f => decide (classOf f ∈ absent)) forms :=
  solve_abort_good (yearOK_sound y absent h) P inp forms extra fuel qfuel he

/-- the same from the class-by-class obligations the generator emits -/
theorem obligations_exclude_dangling_aborts {y : YearDecl} {absent : List String} {ix : YearIx}
    {absN : List (List Nat)} (hix : mkIx y = some ix) (habs : codesAll? absent = some absN)
    (h : classesRefsOK ⟨ix, absN⟩ [] y.classes = true) {σ : Sched String String}
    (P : Option (Nat → String → List String → Option String)) (inp : List (String × String))
    (forms : List String) (extra : List String) (fuel qfuel : Nat) {e : Abort String String String}
    (he : solve (mkCat y) σ P inp forms extra fuel qfuel = .error e) :
    e.Good (fun f => decide (classOf f ∈ absent)) forms :=
  solve_abort_good (c10_of_obligations_all hix habs h) P inp forms extra fuel qfuel he

/-- what `Good` excludes, spelled out -/
theorem good_excludes (absentOK : String → Bool) (forms : List String) (n x : String) :
    ¬ (Abort.noSuchField n : Abort String String String).Good absentOK forms ∧
    ¬ (Abort.recursion x : Abort String String String).Good absentOK forms ∧
    ¬ (Abort.badName : Abort String String String).Good absentOK forms :=
  ⟨id, id, id⟩

end HabuVerif.C10

#print axioms HabuVerif.C10.checked_year_never_aborts_on_dangling_names
#print axioms HabuVerif.C10.obligations_exclude_dangling_aborts
#print axioms HabuVerif.C10.good_excludes
#print axioms HabuVerif.solve_abort_good
#print axioms HabuVerif.Dsl.eval_reads_in_refs
#print axioms HabuVerif.Dsl.cat_reads_in_refs
#print axioms HabuVerif.Dsl.c10_of_obligations
#print axioms HabuVerif.Dsl.yearOK_sound
#print axioms HabuVerif.Dsl.C10Example.typo_not_resolves
