import HabuVerif.Proofs.SolverFinal
import HabuVerif.Props.C13
import HabuVerif.Proofs.SolverTermination
/-!
# C06 — Termination, bounded work, no lost waiter

Proved here: the dependency bookkeeping (`DependencyTracker`) refines a multiset of
(dependency, waiter) pairs for EVERY history of register / meet / generator steps, including
generator steps interleaved with registrations; draining always terminates within
`waiters + 1` steps and never crashes; the solver asks only for inputs that are absent and an
answered input is present ever after (hence at most one answered prompt per input); a refusal ends
all prompting.  NOT proved (validated by exploration on the real solver with call counters and a
step budget, and stated in the evidence as such): termination of the outer loop for every
catalogue and the per-line attempt bound.
-/
set_option autoImplicit false
set_option linter.unusedSectionVars false
set_option linter.unusedVariables false

namespace HabuVerif.C06
open HabuVerif Tracker

section tracker
variable {D W : Type} [DecidableEq D]

/-- operations on the tracker, as a history -/
inductive Op (D W : Type) where
  | add (d : D) (w : W)      -- add_unmet
  | meet (d : D)             -- meet
  | next                     -- one next() on the met_dependents() generator

/-- run a history; collects what the generator handed out -/
def runOps : Tracker D W → List (Op D W) → Option (Tracker D W × List W)
  | t, [] => some (t, [])
  | t, .add d w :: ops => runOps (t.addUnmet d w) ops
  | t, .meet d :: ops => runOps (t.meet d) ops
  | t, .next :: ops =>
    match t.drainStep with
    | .done t' => runOps t' ops
    | .yield w t' => (runOps t' ops).map fun (t'', out) => (t'', w :: out)
    | .crash => none

/-- **Well-formedness is an invariant of every history and the generator never crashes.** -/
theorem history_wf (t : Tracker D W) (hwf : WF t) (ops : List (Op D W)) :
    ∃ t' out, runOps t ops = some (t', out) ∧ WF t' := by
  induction ops generalizing t with
  | nil => exact ⟨t, [], rfl, hwf⟩
  | cons op ops ih =>
    cases op with
    | add d w => simp only [runOps]; exact ih _ (addUnmet_WF t hwf d w)
    | meet d => simp only [runOps]; exact ih _ (meet_WF t d hwf)
    | next =>
      simp only [runOps]
      have hs := drainStep_spec t hwf
      cases hr : t.drainStep with
      | crash => rw [hr] at hs; cases hs
      | done t' =>
        rw [hr] at hs
        cases hs with
        | done _ hu hm hnone =>
          exact ih t' ⟨by rw [hu]; exact hwf.nodup, by rw [hu]; exact hwf.nonempty⟩
      | «yield» w t' =>
        rw [hr] at hs
        cases hs with
        | «yield» _ _ m hm hperm hwf' hmet hkeys hdropped =>
          obtain ⟨t'', out, h1, h2⟩ := ih t' hwf'
          exact ⟨t'', w :: out, by simp [h1], h2⟩

/-- **A waiter is handed out only for a dependency that was met, and exactly the pair that is
handed out leaves the bookkeeping** (one generator step; as multisets). -/
theorem step_releases_one_met_pair (t : Tracker D W) (hwf : WF t) (w : W) (t' : Tracker D W)
    (h : t.drainStep = .yield w t') :
    ∃ m, m ∈ t.met ∧ (pairs t.unmet).Perm ((m, w) :: pairs t'.unmet) := by
  have hs := drainStep_spec t hwf
  rw [h] at hs
  cases hs with
  | «yield» _ _ m hm hperm _ _ _ _ => exact ⟨m, hm, hperm⟩

/-- a finished generator leaves no met name pending and touches no registration -/
theorem step_done_keeps_everything (t : Tracker D W) (hwf : WF t) (t' : Tracker D W)
    (h : t.drainStep = .done t') : t'.unmet = t.unmet ∧ t'.met = [] ∧ ∀ m ∈ t.met, m ∉ keys t.unmet := by
  have hs := drainStep_spec t hwf
  rw [h] at hs
  cases hs with
  | done _ hu hm hnone => exact ⟨hu, hm, hnone⟩

/-- registering adds exactly one pair -/
theorem register_adds_one_pair (t : Tracker D W) (hwf : WF t) (d : D) (w : W) :
    (pairs (t.addUnmet d w).unmet).Perm ((d, w) :: pairs t.unmet) := addUnmet_pairs t hwf d w

/-- **Every registered wait on a met dependency is released exactly once, none is lost, none is
released early; running the generator to exhaustion terminates** (`list(met_dependents())`). -/
theorem drain_releases_exactly_the_met_waits (t : Tracker D W) (hwf : WF t) :
    ∃ ws t' rel, t.drainAll = some (ws, t') ∧ WF t' ∧ t'.met = [] ∧
      rel.map (·.2) = ws ∧ (∀ p ∈ rel, p.1 ∈ t.met) ∧
      (pairs t.unmet).Perm (rel ++ pairs t'.unmet) ∧
      (∀ d, d ∈ t.met → d ∉ keys t'.unmet) := drainAll_spec t hwf

/-- `has_unmet()` is false exactly when nothing is registered (once no met name is pending) -/
theorem has_unmet_false_iff_empty (t : Tracker D W) (hwf : WF t) (hmet : t.met = []) :
    t.hasUnmet = false ↔ t.unmet = [] := by
  constructor
  · exact hasUnmet_false_unmet_nil hwf hmet
  · intro h; simp [hasUnmet, h]

end tracker

section solver
variable {N I F V S : Type} [DecidableEq N] [DecidableEq I] [DecidableEq F]
variable {C : Cat N I F V S}

/-- **Asked at most once.**  A prompt happens only for an absent input
(`C13.prompt_is_demand_exact`); if it is answered the input is present afterwards … -/
theorem answered_input_is_present {P : Nat → I → List N → Option S} {L : List N}
    {s s' : St N I F V S} {x : I} (hinv : Inv C L s) (hxm : x ∉ s.ideps.met)
    (hxk : x ∈ keys s.ideps.unmet) (h : attemptInput C P s x = .ok s') :
    s'.refused = true ∨ ∃ v, s'.inf C x = .ok v := by
  obtain ⟨hinv', post⟩ := attemptInput_inv hinv hxm hxk h
  rcases post.cases with ⟨c, _⟩ | ⟨_, hmet, _⟩
  · exact Or.inl c
  · exact Or.inr (hinv'.iMet x (by rw [hmet]; simp))

/-- … and stays present through every later step (stores only grow), so it is never asked again. -/
theorem present_input_stays_present {s s' : St N I F V S} (hle : StoreLe C s s') {x : I} {v : V}
    (h : s.inf C x = .ok v) : s'.inf C x = .ok v := (hle.i x).1 v h

/-- a line attempt never un-refuses and never touches the inputs -/
theorem attempt_keeps_refused_and_inputs (hC : CatWF C) {σ : Sched N I} (hσ : SchedOK σ)
    {L : List N} {s s' : St N I F V S} {n : N} (hinv : Inv C (n :: L) s)
    (h : attemptField C σ specFuel s n = .ok s') : s'.refused = s.refused ∧ s'.inp = s.inp :=
  ⟨(attemptField_inv hC hσ specFuel hinv h).2.2.2.2, (attemptField_inv hC hσ specFuel hinv h).2.2.1⟩

/-- cycles, self-reference and a refusing prompt end in "failed", not in divergence: whenever the
model returns at all, blocked lines are reported (C01); see `C01.Examples` for a self-referential
line.  Unknown names abort (`Abort.noSuchField`, `Abort.recursion`, `Abort.unsupportedForm`). -/
theorem blocked_lines_are_reported (hC : CatWF C) {σ : Sched N I} (hσ : SchedOK σ)
    {P : Option (Nat → I → List N → Option S)} {inp : List (I × S)} {forms : List F}
    {extra : List N} {fuel qfuel : Nat} {s : St N I F V S}
    (h : solve C σ P inp forms extra fuel qfuel = .ok (some s)) (n : N) (hn : n ∈ s.solving)
    (hv : s.vf n = none) :
    n ∈ s.unimpl ∨ (∃ m, Waits s.fdeps m n) ∨ (∃ x, Waits s.ideps x n) := by
  cases hs : s.solved with
  | true =>
    obtain ⟨_, _, _, hval, _⟩ := C01.solved_sound hC hσ h hs
    obtain ⟨x, hx, _⟩ := hval n hn
    rw [hv] at hx; cases hx
  | false => exact (C01.failed_complete hC hσ h hs).2.2.2.2 n hn hv

end solver
end HabuVerif.C06

namespace HabuVerif.C06.Examples
open HabuVerif HabuVerif.C06

-- a history with a generator step interleaved with registrations
example : (runOps (D := Nat) (W := Nat) {} [.add 1 10, .add 1 11, .meet 1, .next, .add 1 12, .next, .next, .next]).map (·.2)
    = some [11, 12, 10] := by decide

end HabuVerif.C06.Examples

#print axioms HabuVerif.C06.history_wf
#print axioms HabuVerif.C06.step_releases_one_met_pair
#print axioms HabuVerif.C06.step_done_keeps_everything
#print axioms HabuVerif.C06.register_adds_one_pair
#print axioms HabuVerif.C06.drain_releases_exactly_the_met_waits
#print axioms HabuVerif.C06.has_unmet_false_iff_empty
#print axioms HabuVerif.C06.answered_input_is_present
#print axioms HabuVerif.C06.present_input_stays_present
#print axioms HabuVerif.C06.attempt_keeps_refused_and_inputs
#print axioms HabuVerif.C06.blocked_lines_are_reported
-- termination and bounded work (Proofs/SolverTermination.lean, builder L)
#print axioms HabuVerif.solve_terminates
#print axioms HabuVerif.solve_terminates_any_fuel
#print axioms HabuVerif.solve_fuel_mono
#print axioms HabuVerif.attempt_accounting
#print axioms HabuVerif.wait_multiplicity
#print axioms HabuVerif.attempt_bound
#print axioms HabuVerif.attempt_bound_additive
#print axioms HabuVerif.queued_at_most_once
#print axioms HabuVerif.pushes_exact
#print axioms HabuVerif.loads_distinct
#print axioms HabuVerif.prompt_at_most_once
#print axioms HabuVerif.Universe.ofOccurs
