import HabuVerif.Proofs.C17C18ChecksLemmas
import HabuVerif.Gen.C18_2021
import HabuVerif.Gen.C18_2022
import HabuVerif.Gen.C18_2023
/-!
# C18 — Each PDF box is filled from the line the official template assigns to it

Mappings (`Form.pdf_fields()`) and the field trees of the bundled templates (names, kinds, length
limits, on-states, accessibility text) are REGENERATED on every run (`tools/catalogue.py`,
`tools/pdf_extract.py` → `tools/gen_c17_c18.py` → `HabuVerif/Gen/C18_<year>.lean`); every obligation
there is closed by `decide +kernel`.  The theorems below give the meaning of each check.
-/
set_option autoImplicit false

namespace HabuVerif.C18
open HabuVerif.Refl

theorem every_target_exists {m : Mappings} {t : Template} (h : targetsExist m t = true) :
    ∀ k a, (k, a) ∈ m → ∃ f, (k, f) ∈ t := targetsExist_sound h
theorem no_field_driven_twice {m : Mappings} (h : noDoubleDrive m = true) : (keys m).Nodup :=
  noDoubleDrive_nodup h
theorem labelled_line_is_mapped_line {m : Mappings} {t : Template} (hs : templateSorted t = true)
    (h : labelsAgree m t = true) :
    ∀ k a f, (k, a) ∈ m → (k, f) ∈ t → ∀ x y, a.lineLabel = some x → f.label = some y → x = y :=
  labelsAgree_sound hs h
theorem length_limits_agree {m : Mappings} {t : Template} (hs : templateSorted t = true)
    (h : maxLenOk m t = true) :
    ∀ k a f, (k, a) ∈ m → (k, f) ∈ t → a.kind = 0 → ∀ L, f.maxLen = some L →
      ∃ l, a.maxLength = some l ∧ l ≤ L := maxLenOk_sound hs h
theorem export_values_are_on_states {m : Mappings} {t : Template} (hs : templateSorted t = true)
    (h : trueValuesOk m t = true) :
    ∀ k a f, (k, a) ∈ m → (k, f) ∈ t → a.kind = 1 → ∃ v, a.trueValue = some v ∧ v ∈ f.states :=
  trueValuesOk_sound hs h
theorem exclusive_groups_at_most_one_on {g : Groups} (h : groupsExclusive g = true) :
    ∀ id rows, (id, rows) ∈ g → ∀ row ∈ rows, ∀ (i j : Nat),
      row[i]? = some true → row[j]? = some true → i = j := groupsExclusive_sound h
theorem every_mapped_line_exists {m : Mappings} {lines fields : List Nat}
    (hc : linesCover m lines = true) (h : linesExist lines fields = true) :
    ∀ k a, (k, a) ∈ m → a.line ∈ fields := linesExist_sound hc h
theorem fileable_forms_have_template_and_mappings {c : Catalogue} (h : fileableComplete c = true) :
    ∀ f ∈ c, f.fileable = true → f.hasTemplate = true ∧ 0 < f.nMappings := fileableComplete_sound h

end HabuVerif.C18

#print axioms HabuVerif.C18.every_target_exists
#print axioms HabuVerif.C18.no_field_driven_twice
#print axioms HabuVerif.C18.labelled_line_is_mapped_line
#print axioms HabuVerif.C18.length_limits_agree
#print axioms HabuVerif.C18.export_values_are_on_states
#print axioms HabuVerif.C18.exclusive_groups_at_most_one_on
#print axioms HabuVerif.C18.every_mapped_line_exists
#print axioms HabuVerif.C18.fileable_forms_have_template_and_mappings
