import HabuVerif.Proofs.SolverFinal
import HabuVerif.Props.C01
/-!
# C03 — Every value in a solution is a fixed point of its line definition
-/
set_option autoImplicit false
set_option linter.unusedSectionVars false
set_option linter.unusedVariables false

namespace HabuVerif.C03
open HabuVerif Tracker

variable {N I F V S : Type} [DecidableEq N] [DecidableEq I] [DecidableEq F]
variable {C : Cat N I F V S} {σ : Sched N I}
variable {P : Option (Nat → I → List N → Option S)} {inp : List (I × S)} {forms : List F}
variable {extra : List N} {fuel qfuel : Nat} {s : St N I F V S}

/-- **Fixed point.** Every value in the returned store — solved or not — is exactly what its
line's definition yields when evaluated against the FINAL values, the FINAL inputs and the FINAL
set of loaded forms.  (`C.sem n` includes the typed-field wrapper: blank convention, type check,
rounding; so "rounded before anything else reads it" is part of the statement.)  Holds for every
catalogue, every attempt order, every prompt. -/
theorem solution_fixed_point (hC : CatWF C) (hσ : SchedOK σ)
    (h : solve C σ P inp forms extra fuel qfuel = .ok (some s)) :
    ∀ n x, s.vf n = some x → run s.vf (s.inf C) s.ff (C.sem n) = .val x := by
  obtain ⟨hinv, _, _⟩ := solve_inv hC hσ h
  exact hinv.vSound

/-- No value is ever overwritten by a different one, and no input that was present is changed:
the final stores extend the stores at every earlier moment — in particular the initial ones. -/
theorem stores_only_grow (hC : CatWF C) (hσ : SchedOK σ)
    (h : solve C σ P inp forms extra fuel qfuel = .ok (some s)) :
    StoreLe C (initSt inp P.isSome) s := (solve_inv hC hσ h).2.2

/-- One attempt never changes a value that is already stored (the step-level fact behind the
theorem above; `attemptField` is the model of `_attempt_field`). -/
theorem attempt_keeps_values (hC : CatWF C) (hσ : SchedOK σ) {L : List N} {s0 s1 : St N I F V S}
    {n : N} (hinv : Inv C (n :: L) s0) (h : attemptField C σ specFuel s0 n = .ok s1) :
    ∀ k x, s0.vf k = some x → s1.vf k = some x :=
  (attemptField_inv hC hσ specFuel hinv h).2.1.v

end HabuVerif.C03

namespace HabuVerif.C03.Examples
open HabuVerif HabuVerif.C01.Examples

-- the final store of the solved example holds 15 for line 0 and 5 for line 1
example : (match solve cat sched none [(0, 5)] [0] [] 10 10 with
    | .ok (some s) => s.v | _ => []) = [(1, 5), (0, 15)] := by decide

end HabuVerif.C03.Examples

#print axioms HabuVerif.C03.solution_fixed_point
#print axioms HabuVerif.C03.stores_only_grow
#print axioms HabuVerif.C03.attempt_keeps_values
