import HabuVerif.Proofs.CliLemmas
/-!
# C20 — Interrupting an interactive solve never loses input already given

`habutax solve --prompt-missing --writeback-input` ends, whatever happens (Ctrl-C at a prompt =
refusal, end of input, unsupported form, failing line), in the same `finally: input_store.write`.
`Cli.sessionFile file answers` is the model of the file this leaves behind when `answers` were
given before the interruption (compared byte for byte with the real CLI, interrupted at EVERY
prompt index with every kind of interruption, by the `cli` correspondence stream).  The solver asks
only for absent inputs, each once (`C13`, `C06`): that is the hypothesis `AsksOk`.
-/
set_option autoImplicit false

namespace HabuVerif.C20
open HabuVerif HabuVerif.Ini HabuVerif.Cli

/-- **Nothing is lost, at any interruption point.** For every number `n` of answers given before
the interruption: the store the `finally` block writes exists, every input the file provided
still reads the same, every answer given so far reads back as typed, and "provided" only grows. -/
theorem answers_and_file_kept (c : Config) (as : List Answer) (hok : AsksOk c as) (n : Nat) :
    ∃ cn, applyAnswers c (as.take n) = .ok cn ∧ applyAnswersP c (as.take n) = (cn, none) ∧
      Kept c (as.take n) cn := answers_kept c as hok n

/-- **The file left behind is well-formed** (it parses back to exactly file ∪ answers-so-far),
for every interruption point, when the file and the answers are clean (no surrounding blanks …). -/
theorem file_left_behind_wellformed (file : Text) (as : List Answer) (c0 : Config)
    (h0 : parseFile file = .ok c0) (hc0 : IniClean c0) (ha : ∀ a ∈ as, CleanAnswer a) (n : Nat) :
    ∃ cn text, applyAnswers c0 (as.take n) = .ok cn ∧ sessionFile file (as.take n) = .ok text ∧
      IniClean cn ∧ ('\r' ∉ text → parseFile text = .ok cn) :=
  session_file_wellformed_of_clean file as c0 h0 hc0 ha n

/-- **Re-running does not ask again**: after re-reading the file, every input answered before the
interruption is provided and reads as typed; everything the original file provided reads as before. -/
theorem rerun_does_not_ask_again (file : Text) (as : List Answer) (c0 : Config)
    (h0 : parseFile file = .ok c0) (hok : AsksOk c0 as) (n : Nat) :
    ∃ cn, applyAnswers c0 (as.take n) = .ok cn ∧
      (IniClean cn → '\r' ∉ write cn →
        ∃ text d, sessionFile file (as.take n) = .ok text ∧ parseFile text = .ok d ∧
          (∀ a ∈ as.take n, provides d a.1 a.2.1 = true ∧ d.get a.1 a.2.1 = .ok a.2.2) ∧
          (∀ s k, provides c0 s k = true → provides d s k = true ∧ d.get s k = c0.get s k)) :=
  rerun_provides file as c0 h0 hok n

end HabuVerif.C20

#print axioms HabuVerif.C20.answers_and_file_kept
#print axioms HabuVerif.C20.file_left_behind_wellformed
#print axioms HabuVerif.C20.rerun_does_not_ask_again
