import HabuVerif.Refl.SortedTables
/-!
# Decidable checks for C17 (catalogue consistency, status look-ups total) and C18 (PDF mappings vs templates)

Core only.  The DATA these checks run on is generated from the live Python objects and the bundled PDF templates
by `tools/gen_c17_c18.py` into `HabuVerif/Gen/C17_<year>.lean` / `C18_<year>.lean`; every obligation there is a
theorem `check data = true := by decide +kernel`.  All names are `Nat` codes (`SortedTables.encode`).

Soundness lemmas (what a `true` result means in terms of `∈`, `Nodup`, `∃!`) are in
`HabuVerif/Proofs/C17C18ChecksLemmas.lean`.
-/
set_option autoImplicit false

namespace HabuVerif.Refl

/-! ## C18: template fields and mappings -/

/-- field kinds: 0 = text (`/FT /Tx`), 1 = check box / radio (`/FT /Btn`), 2 = choice (`/FT /Ch`),
3 = push button, 4 = anything else (signature, missing `/FT`) -/
abbrev Kind := Nat

/-- what the extractor read for one terminal field of a template -/
structure TField where
  kind : Kind
  /-- `/MaxLen` -/
  maxLen : Option Nat
  /-- buttons: names of the on-states (`/AP /N`, `/AP /D` keys other than `Off`); choices: export values of `/Opt` -/
  states : List Nat
  /-- line label parsed from the accessibility text (IRS) or from the widget name (NC); `none` = unlabelled/ambiguous -/
  label : Option Nat
deriving Repr

/-- one entry of a form's `pdf_fields` list.  kinds: 0 = `TextPDFField`, 1 = `ButtonPDFField`,
2 = `ChoicePDFField`, 3 = `OptionlessButtonPDFField`, 4 = unknown class -/
structure Mapping where
  kind : Kind
  maxLength : Option Nat
  trueValue : Option Nat
  choices : List Nat
  /-- label carried by the line name (`7_checkbox` ↦ `7`), `none` for descriptive or qualified names -/
  lineLabel : Option Nat
  /-- fully qualified line name `form[:instance].line` -/
  line : Nat
deriving Repr

abbrev Template := List (Nat × TField)
abbrev Mappings := List (Nat × Mapping)

/-- no template field is driven by two mappings (the table is sorted by target, duplicates kept) -/
def noDoubleDrive (m : Mappings) : Bool := keysSorted m

/-- every target exists in the template -/
def targetsExist (m : Mappings) (t : Template) : Bool := keysSubset m t

/-- the template is a function of the field name -/
def templateSorted (t : Template) : Bool := keysSorted t

/-- the mapping class fits the widget type (and the target exists) -/
def kindsAgree (m : Mappings) (t : Template) : Bool :=
  joinAll (fun (a : Mapping) (f : TField) => a.kind == f.kind && a.kind < 4) m t

/-- where the template limits a text widget's length, the mapping declares a limit that is not larger -/
def maxLenOk (m : Mappings) (t : Template) : Bool :=
  joinAll (fun (a : Mapping) (f : TField) =>
    if a.kind != 0 then true else
      match f.maxLen, a.maxLength with
      | none, _ => true
      | some _, none => false
      | some L, some l => l ≤ L) m t

/-- the value written for a checked box is an on-state of the widget -/
def trueValuesOk (m : Mappings) (t : Template) : Bool :=
  joinAll (fun (a : Mapping) (f : TField) =>
    if a.kind != 1 then true else
      match a.trueValue with
      | none => false
      | some v => f.states.contains v) m t

/-- every choice a mapping may write is an option of the widget -/
def choicesOk (m : Mappings) (t : Template) : Bool :=
  joinAll (fun (a : Mapping) (f : TField) =>
    if a.kind != 2 then true else a.choices.all f.states.contains) m t

/-- where both the template widget and the line name carry a line label, they are the same label -/
def labelsAgree (m : Mappings) (t : Template) : Bool :=
  joinAll (fun (a : Mapping) (f : TField) =>
    match a.lineLabel with
    | none => true
    | some x => match f.label with
      | none => true
      | some y => x == y) m t

/-- every mapped line exists: `lines` = sorted, duplicate-free list of the fully qualified lines of the
mappings; `fields` = sorted list of the fully qualified names of all lines of all forms of the year -/
def linesExist (lines fields : List Nat) : Bool := subsetSorted lines fields

/-- the `lines` list really is the set of lines of the mapping table -/
def linesCover (m : Mappings) (lines : List Nat) : Bool := m.all fun r => lines.contains r.2.line

/-- remove the rows with the given keys (used to re-check the rest of a table when some rows fail) -/
def dropKeys {α : Type} (ks : List Nat) (m : List (Nat × α)) : List (Nat × α) :=
  m.filter fun r => !ks.contains r.1

/-- exclusive groups: per group, per value of the driving line, the on/off row of the members -/
abbrev Groups := List (Nat × List (List Bool))

def groupsExclusive (g : Groups) : Bool := g.all fun x => x.2.all atMostOne

/-! ## C17: catalogue facts -/

structure FormFacts where
  /-- code of `form_name` -/
  name : Nat
  /-- `tax_year` when it is an `int` -/
  taxYear : Option Nat
  hasDescription : Bool
  hasLongDescription : Bool
  hasJurisdiction : Bool
  /-- every allowed instance (None / each of `valid_instances` / "0" for input forms) constructed -/
  instancesOk : Bool
  /-- `needs_filing` can be true (returned `True` on the empty store, or depends on values) -/
  fileable : Bool
  hasSeqNo : Bool
  /-- `pdf_file()` is set, exists on disk and was parsed -/
  hasTemplate : Bool
  nMappings : Nat
deriving Repr

abbrev Catalogue := List FormFacts

def allInstantiate (c : Catalogue) : Bool := c.all (·.instancesOk)

def yearsAgree (year : Nat) (c : Catalogue) : Bool := c.all fun f => f.taxYear == some year

/-- form names are pairwise different and none is a reserved section name (`habutax`, `DEFAULT`) -/
def namesUnique (c : Catalogue) : Bool := nodupB (c.map (·.name))

def namesNotReserved (reserved : List Nat) (c : Catalogue) : Bool := c.all fun f => !reserved.contains f.name

def metadataPresent (c : Catalogue) : Bool :=
  c.all fun f => f.hasDescription && f.hasLongDescription && f.hasJurisdiction

/-- every form that can require filing has a template and at least one mapping (C18) -/
def fileableComplete (c : Catalogue) : Bool :=
  c.all fun f => !f.fileable || (f.hasTemplate && 0 < f.nMappings)

/-- every form that can require filing has a sequence number (the filler sorts by it) (C17) -/
def fileableHaveSeqNo (c : Catalogue) : Bool :=
  c.all fun f => !f.fileable || f.hasSeqNo

def dropForms (ks : List Nat) (c : Catalogue) : Catalogue := c.filter fun f => !ks.contains f.name

/-- names of one form (emitted sorted by code, duplicates kept): duplicate-free, lower-case ASCII, dot-free -/
def namesClean (names : List Nat) : Bool := strictSorted names && names.all nameOk

/-- remove every occurrence of the given names (used to re-check the rest of a list when some names fail) -/
def dropNames (bad : List Nat) (names : List Nat) : List Nat := names.filter fun n => !bad.contains n

/-- the year has five pairwise different filing statuses -/
def fiveStatuses (statuses : List Nat) : Bool := statuses.length == 5 && nodupB statuses

/-! ### status-keyed threshold tables

A table is the list of its keys in dict order; a key is the list of the members it stands for (a 1-element
list for a plain member, the members of the tuple otherwise); a member is the code of `<enum id>.<member>`.
`Form.threshold` returns the value of the FIRST key that matches. -/
abbrev Table := List (List Nat)

def keyMatches (s : Nat) (key : List Nat) : Bool := key.contains s

/-- index of the first matching key: the model of the scan in `Form.threshold` -/
def firstMatch (s : Nat) : Table → Option Nat
  | [] => none
  | k :: t => if keyMatches s k then some 0 else (firstMatch s t).map (· + 1)

/-- exactly one key matches each status -/
def tableTotal (statuses : List Nat) (t : Table) : Bool :=
  statuses.all fun s => countB (keyMatches s) t == 1

def thresholdsTotal (statuses : List Nat) (tables : List (Nat × Table)) : Bool :=
  tables.all fun t => tableTotal statuses t.2

def dropTables (ks : List Nat) (tables : List (Nat × Table)) : List (Nat × Table) :=
  tables.filter fun t => !ks.contains t.1

end HabuVerif.Refl
