/-!
# Nat-coded names and linear-time checkers on sorted tables  (core only)

Strings are unusable inside `decide +kernel` (measured: ~12 min for 60,000 `String` comparisons), so every
name that a reflection check compares is coded as a `Nat`:

    code(name) = the base-256 number whose digits are  0x01 :: utf8(name)      (big-endian)

The leading `1` makes the code injective (no leading-zero ambiguity) and decodable (`bytesOf`).  Tables are
emitted by the generator sorted by code; sortedness is *re-checked in the kernel* (`strictSorted`), so the
generator's sort is not trusted, and set operations are linear merges.

Soundness theorems are in `HabuVerif/Proofs/SortedTablesLemmas.lean`.
-/
set_option autoImplicit false

namespace HabuVerif.Refl

/-! ## coding -/

/-- UTF-8 bytes of one character (as `Nat`s `< 256`). -/
def utf8Bytes (c : Char) : List Nat :=
  let v := c.toNat
  if v < 0x80 then [v]
  else if v < 0x800 then [0xC0 + v / 0x40, 0x80 + v % 0x40]
  else if v < 0x10000 then [0xE0 + v / 0x1000, 0x80 + (v / 0x40) % 0x40, 0x80 + v % 0x40]
  else [0xF0 + v / 0x40000, 0x80 + (v / 0x1000) % 0x40, 0x80 + (v / 0x40) % 0x40, 0x80 + v % 0x40]

/-- push the bytes onto an accumulator, most significant first -/
def pushBytes (acc : Nat) : List Nat → Nat
  | [] => acc
  | b :: bs => pushBytes (acc * 256 + b) bs

/-- code of a byte string: digits `1 :: bytes` in base 256 -/
def encodeBytes (bs : List Nat) : Nat := pushBytes 1 bs

/-- code of a name -/
def encode (s : List Char) : Nat := encodeBytes (s.flatMap utf8Bytes)

/-- the bytes of a code, least significant first, without the leading `1` (fuel-bounded, structural) -/
def bytesRevAux : Nat → Nat → List Nat
  | 0, _ => []
  | fuel + 1, n => if n < 256 then [] else (n % 256) :: bytesRevAux fuel (n / 256)

/-- the bytes of a code, most significant first, without the leading `1` -/
def bytesOf (n : Nat) : List Nat := (bytesRevAux (Nat.log2 n + 1) n).reverse

/-- A name made of ASCII bytes only, none of them an upper-case letter or a dot: Python's `str.lower()` is the
identity on it and it cannot be confused with a qualified `form.line` name.  (A *sufficient* condition for the
"lower-case, dot-free" clause of C17; a non-ASCII name is reported, not accepted.) -/
def nameByteOk (b : Nat) : Bool := b < 128 && !(65 ≤ b && b ≤ 90) && b != 46

def nameOk (code : Nat) : Bool := 256 ≤ code && (bytesOf code).all nameByteOk

/-! ## checkers on lists sorted by code -/

/-- strictly increasing -/
def strictSorted : List Nat → Bool
  | [] => true
  | [_] => true
  | a :: b :: t => a < b && strictSorted (b :: t)

/-- merge pass behind `subsetSorted`, recursing on the (long) second list first.  This argument order and the
explicit inner `match` matter for the kernel: the same function written with a simultaneous pattern match on
both lists evaluates ~9x slower under `decide +kernel` (measured 2.4 s vs 0.27 s for 98-in-787). -/
def subsetGo : List Nat → List Nat → Bool
  | [], a => a.isEmpty
  | b :: bs, a => match a with
    | [] => true
    | x :: xs => if x == b then subsetGo bs xs else if b < x then subsetGo bs a else false

/-- every element of the first list occurs in the second; one merge pass (both lists increasing).
Sound without any sortedness assumption; complete when both are strictly sorted. -/
def subsetSorted (a b : List Nat) : Bool := subsetGo b a

/-- no common element; one merge pass, fuel = total length -/
def disjointAux : Nat → List Nat → List Nat → Bool
  | _, [], _ => true
  | _, _, [] => true
  | 0, _ :: _, _ :: _ => false
  | fuel + 1, a :: as, b :: bs =>
    if a == b then false
    else if a < b then disjointAux fuel as (b :: bs)
    else disjointAux fuel (a :: as) bs

def disjointSorted (a b : List Nat) : Bool := disjointAux (a.length + b.length) a b

/-- look a key up in a table sorted by key; stops at the first larger key -/
def lookupSorted {α : Type} : List (Nat × α) → Nat → Option α
  | [], _ => none
  | (k, v) :: t, key => if k == key then some v else if key < k then none else lookupSorted t key

/-- keys of a table -/
def keys {α : Type} (t : List (Nat × α)) : List Nat := t.map Prod.fst

/-- `strictSorted (keys t)` computed on the rows directly.  (Feeding the lazily mapped list `keys t` to
`strictSorted` is pathologically slow in the kernel: 11.5 s against 0.05 s for a 139-row table.) -/
def keysSorted {α : Type} : List (Nat × α) → Bool
  | [] => true
  | [_] => true
  | a :: b :: t => a.1 < b.1 && keysSorted (b :: t)

/-- `subsetSorted (keys m) (keys t)` computed on the rows directly: `keysSubsetGo t m` -/
def keysSubsetGo {α β : Type} : List (Nat × β) → List (Nat × α) → Bool
  | [], m => m.isEmpty
  | b :: bs, m => match m with
    | [] => true
    | x :: xs => if x.1 == b.1 then keysSubsetGo bs xs else if b.1 < x.1 then keysSubsetGo bs m else false

def keysSubset {α β : Type} (m : List (Nat × α)) (t : List (Nat × β)) : Bool := keysSubsetGo t m

/-- merge join behind `joinAll`: recursion on the right (long, sorted) table first -/
def joinGo {α β : Type} (p : α → β → Bool) : List (Nat × β) → List (Nat × α) → Bool
  | [], l => l.isEmpty
  | b :: bs, l => match l with
    | [] => true
    | x :: xs =>
      if x.1 == b.1 then p x.2 b.2 && joinGo p bs xs
      else if b.1 < x.1 then joinGo p bs l
      else false

/-- Every row `(k, a)` of the left table is matched, in one merge pass, with a row `(k, b)` of the right table
and `p a b` holds.  Conservative: a left key that is missing on the right, or repeated on the left, makes the
result `false` (those defects are reported by `keysSubset` / `keysSorted`).  Sound without sortedness. -/
def joinAll {α β : Type} (p : α → β → Bool) (l : List (Nat × α)) (r : List (Nat × β)) : Bool :=
  joinGo p r l

/-- quadratic duplicate check for short source-order lists (input / line names of one form) -/
def nodupB : List Nat → Bool
  | [] => true
  | a :: t => !(t.contains a) && nodupB t

/-- at most one `true` -/
def atMostOne : List Bool → Bool
  | [] => true
  | true :: t => t.all (fun b => !b)
  | false :: t => atMostOne t

/-- number of elements satisfying `p` -/
def countB {α : Type} (p : α → Bool) : List α → Nat
  | [] => 0
  | a :: t => (if p a then 1 else 0) + countB p t

end HabuVerif.Refl
