import HabuVerif.Dsl.Eval
import HabuVerif.Spec.Statutory
/-!
# C08: kernel-evaluated checks of the shipped forms against `Spec.Statutory`

The generated modules `Gen/C08_<year>.lean` (written by `tools/gen_c08.py`) contain one obligation per
(year, filing status, statutory amount, site).  Every obligation has the shape

    (do let a ← Statutory.amount y s id; …; pure (allTrue [p₁, …, pₙ])) = some true

and is closed by `decide +kernel`: the published amounts are read from `Spec/Statutory.lean` INSIDE the
statement, the site is the translated program (`Gen/Forms<year>_<k>.lean`) or the translated threshold table,
and each `pᵢ` is one evaluation:

* `thresholdIs ths name key a`: the model of `Form.threshold` (`Dsl.lookupThreshold`) returns a number equal
  to the published amount `a`;
* `lineGives y c inst d is vs e`: the line program `d` of class `c`, EVALUATED by `Dsl.evalLine` and run
  (`HabuVerif.run`) against the tiny input store `is` and value store `vs`, has the outcome `e`.  The stores
  place the compared quantity AT the published limit and one cent (or one dollar) either side, so an echo
  line must return the published value and a gate must flip exactly at the published limit.

A store is a list of (full name, typed value); every name outside it is a `MissingInput` / an unmet line
dependency, so an evaluation that reads anything the store does not mention is NOT a `val` outcome and the
check fails (no totalisation hides a read).  `C08.run_agrees` (`Proofs/C08ChecksLemmas.lean`) lifts one
evaluation to every pair of stores that agree with the tiny stores on the names the evaluation actually read.

Core only (this file is compiled into nothing, but it imports nothing outside core either).
-/
set_option autoImplicit false

namespace HabuVerif.C08
open HabuVerif HabuVerif.Dsl HabuVerif.Spec

abbrev Store := List (String × Val)

def valuesOf (s : Store) : String → Option Val := fun n => s.lookup n

/-- inputs outside the store are declared but not supplied (`MissingInput`) -/
def inputsOf (s : Store) : String → InpRes Val := fun n =>
  match s.lookup n with
  | some v => .ok v
  | none => .missing

/-- the correctly rounded double of a rational: what `float("<decimal>")` is in CPython -/
def f64OfRat (q : Rat) : F64 := F64.ofScaled (decide (q < 0)) (q.num.natAbs * F64.one) q.den

/-- a `float` store value / expected value at the rational `q` -/
def flt (q : Rat) : Val := .float (f64OfRat q)

/-- an `int` store value from an integral rational (`none` when `q` is not an integer) -/
def intOf (q : Rat) : Option Val := if q.den = 1 then some (.int q.num) else none

/-- the filing-status member as the forms of the year see it -/
def statusVal (enumId member : String) : Val := .enumv enumId member

/-- expected outcome of an evaluation -/
inductive Expect where
  /-- a `float` result equal (as a double) to the correctly rounded `q` -/
  | float (q : Rat)
  /-- an `int` result equal to `q` -/
  | int (q : Rat)
  | bool (b : Bool)
  | str (s : String)
  /-- `self.not_implemented()` -/
  | notImpl
  /-- the run stops at the value store: line `n` is demanded (it is not in the tiny store) -/
  | needV (n : String)

def Expect.matches : Expect → Out String String String Val → Bool
  | .float q, .val (.float x) => decide (x = f64OfRat q)
  | .int q, .val (.int i) => q.den == 1 && q.num == i
  | .bool b, .val (.bool c) => b == c
  | .str s, .val (.str t) => s == t
  | .notImpl, .notImpl => true
  | .needV n, .needV m => n == m
  | _, _ => false

/-- run line `d` of class `c` (form instance `inst`) of year `y` against the two stores; every form counts
as loaded (`Field.form(name)` never raises `KeyError` here) -/
def runLine (y : YearDecl) (c : ClassDecl) (inst : Option String) (d : LineDecl) (is vs : Store) :
    Out String String String Val :=
  run (valuesOf vs) (inputsOf is) (fun _ => true) (evalLine y c inst d)

def lineGives (y : YearDecl) (c : ClassDecl) (inst : Option String) (d : LineDecl) (is vs : Store)
    (e : Expect) : Bool :=
  e.matches (runLine y c inst d is vs)

/-- the number a threshold look-up returns equals the published amount: a `float` must be the correctly
rounded double, an `int` the integer itself -/
def numIs (v : Val) (q : Rat) : Bool :=
  match v with
  | .float x => decide (x = f64OfRat q)
  | .int i => q.den == 1 && q.num == i
  | _ => false

def thresholdIs (ths : List (String × Thresh)) (name : String) (key : Option Val) (q : Rat) : Bool :=
  match lookupThreshold ths (.str name) key with
  | .ok v => numIs v q
  | .error _ => false

def allTrue (bs : List Bool) : Bool := bs.all id

/-- every obligation of a batch is `some true` (an obligation is `none` when the table has no value) -/
def allSome : List (Option Bool) → Bool
  | [] => true
  | x :: xs => (match x with
      | some true => true
      | _ => false) && allSome xs

/-- projecting one obligation (and the rest) out of a batch that was decided by a single kernel evaluation -/
theorem allSome_cons (x : Option Bool) (xs : List (Option Bool)) (h : allSome (x :: xs) = true) :
    x = some true ∧ allSome xs = true := by
  simp only [allSome, Bool.and_eq_true] at h
  refine ⟨?_, h.2⟩
  have h1 := h.1
  cases x with
  | none => simp at h1
  | some b => cases b <;> simp at h1 ⊢

end HabuVerif.C08
