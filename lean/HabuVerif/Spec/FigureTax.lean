import HabuVerif.Spec.Brackets
/-!
# Model of `figure_tax` (habutax/forms/ty202x/f1040_figure_tax.py) over exact rationals, and the C07 checks

```python
def figure_tax_table(taxable_amount, filing_status_column):
    for row in TAX_TABLE:
        if taxable_amount >= row[0] and taxable_amount < row[1]:
            return float(row[filing_status_column])
    assert False

def figure_tax_worksheet(taxable_amount, filing_status_index):
    first_row = True                                                   # (2022, 2023; 2021 has `>=` on every row)
    for row in TAX_WORKSHEET_VALUES[filing_status_index-2]:
        meets_lower_bound = taxable_amount >= row[0] if first_row else taxable_amount > row[0]
        if meets_lower_bound and taxable_amount <= row[1]:
            return taxable_amount * row[2] - row[3]
        first_row = False
    assert False

def figure_tax(taxable_amount, filing_status):
    filing_status_index = None
    if filing_status is filing_status.Single: filing_status_index = 2
    elif filing_status in [filing_status.MarriedFilingJointly, filing_status.QualifyingSurvivingSpouse]: filing_status_index = 3
    elif filing_status is filing_status.MarriedFilingSeparately: filing_status_index = 4
    elif filing_status is filing_status.HeadOfHousehold: filing_status_index = 5
    if taxable_amount < 100000:
        return figure_tax_table(taxable_amount, filing_status_index)
    return figure_tax_worksheet(taxable_amount, filing_status_index)
```

**Reading.**  The Python computes in binary64; this model is the *exact-rational reading* of the same control flow
on the same data: the income is a rational number, the decimal literals of `TAX_WORKSHEET_VALUES` denote their
exact decimal values (`0.24` is 24/100), `*` and `-` are exact, `float(cell)` is the cell.  The float ↔ rational
link is a separate matter (Py/F64) and no theorem about this model claims anything about rounding.

The comparison operators at the row boundaries, the table/worksheet switch and the status → column mapping are
DATA (`Cfg`, `statusCol`), read off the source by `tools/gen_c07.py`, so that a changed operator shows up as a
failed obligation rather than going unnoticed.

Core Lean only.
-/
set_option autoImplicit false

namespace HabuVerif.Spec

/-- One row of `TAX_TABLE`: `(lo, hi, single, mfj/qss, mfs, hoh)`. -/
structure TRow where
  lo : Nat
  hi : Nat
  single : Nat
  mfj : Nat
  mfs : Nat
  hoh : Nat
  deriving DecidableEq, Repr, Inhabited

/-- `row[filing_status_column]` for the columns 2..5. -/
def TRow.cell (r : TRow) : Col → Nat
  | .single => r.single | .mfj => r.mfj | .mfs => r.mfs | .hoh => r.hoh

/-- One row of a section of `TAX_WORKSHEET_VALUES`: `(lo, hi, multiplication amount, subtraction amount)`. -/
structure WRow where
  lo : Rat
  hi : Rat
  rate : Rat
  sub : Rat
  deriving DecidableEq, Repr, Inhabited

/-- The five members of the filing-status enumeration (`qss` is `QualifyingWidowWidower` in 2021,
`QualifyingSurvivingSpouse` from 2022). -/
inductive Status where
  | single | mfj | mfs | hoh | qss
  deriving DecidableEq, Repr, Inhabited

def Status.all : List Status := [.single, .mfj, .mfs, .hoh, .qss]

/-- The statutory column of a status: a qualifying surviving spouse uses the joint schedule (IRC §1(a)). -/
def Status.specCol : Status → Col
  | .single => .single | .mfj => .mfj | .mfs => .mfs | .hoh => .hoh | .qss => .mfj

/-- A Python comparison operator. -/
inductive BoundCmp where
  | lt | le | gt | ge
  deriving DecidableEq, Repr, Inhabited

def BoundCmp.holds : BoundCmp → Rat → Rat → Bool
  | .lt, a, b => decide (a < b)
  | .le, a, b => decide (a ≤ b)
  | .gt, a, b => decide (b < a)
  | .ge, a, b => decide (b ≤ a)

/-- The comparison operators and the switch point of the three functions, as found in the source. -/
structure Cfg where
  /-- `if taxable_amount < 100000:` → table, else worksheet -/
  switchCmp : BoundCmp
  switchAt : Rat
  /-- `taxable_amount >= row[0] and taxable_amount < row[1]` -/
  tblLo : BoundCmp
  tblHi : BoundCmp
  /-- lower-bound test of the first worksheet row and of the later ones, upper-bound test -/
  wsFirstLo : BoundCmp
  wsRestLo : BoundCmp
  wsHi : BoundCmp
  deriving DecidableEq, Repr, Inhabited

/-- The shape of the 2022 / 2023 code. -/
def Cfg.std : Cfg :=
  { switchCmp := .lt, switchAt := 100000, tblLo := .ge, tblHi := .lt, wsFirstLo := .ge, wsRestLo := .gt, wsHi := .le }

/-- The shape of the 2021 code (no `first_row` distinction: `>=` on every worksheet row). -/
def Cfg.std2021 : Cfg := { Cfg.std with wsRestLo := .ge }

/-- A configuration the general theorems cover. -/
def Cfg.isStd (c : Cfg) : Bool := c == Cfg.std || c == Cfg.std2021

/-- What the Python raises when it does not return. -/
inductive FTErr where
  /-- `assert False`: no row matched -/
  | assertion
  /-- `filing_status_index` stayed `None`: `row[None]` resp. `None - 2` -/
  | typeError
  deriving DecidableEq, Repr, Inhabited

/-- Everything `figure_tax` of one year depends on. -/
structure FTData where
  cfg : Cfg
  /-- status → column (index 2..5 of the row tuple, section index − 2 of the worksheet); `none`: index stays `None` -/
  statusCol : Status → Option Col
  table : List TRow
  ws : Col → List WRow

/-- `figure_tax_table`. -/
def tableLookup (cfg : Cfg) (col : Option Col) (x : Rat) : List TRow → Except FTErr Rat
  | [] => .error .assertion
  | r :: rest =>
      if cfg.tblLo.holds x r.lo && cfg.tblHi.holds x r.hi then
        match col with
        | some c => .ok (r.cell c : Nat)
        | none => .error .typeError
      else tableLookup cfg col x rest

/-- The loop of `figure_tax_worksheet` (`first` is the `first_row` flag). -/
def worksheetLookup (cfg : Cfg) (x : Rat) : Bool → List WRow → Except FTErr Rat
  | _, [] => .error .assertion
  | first, w :: rest =>
      if (if first then cfg.wsFirstLo.holds x w.lo else cfg.wsRestLo.holds x w.lo) && cfg.wsHi.holds x w.hi then
        .ok (x * w.rate - w.sub)
      else worksheetLookup cfg x false rest

/-- `figure_tax(taxable_amount, filing_status)` on the exact-rational reading. -/
def figureTaxQ (d : FTData) (x : Rat) (st : Status) : Except FTErr Rat :=
  if d.cfg.switchCmp.holds x d.cfg.switchAt then
    tableLookup d.cfg (d.statusCol st) x d.table
  else
    match d.statusCol st with
    | none => .error .typeError
    | some c => worksheetLookup d.cfg x true (d.ws c)

/-! ## The decidable checks (evaluated by the kernel on the generated data) -/

/-- Where the table region ends and the worksheets begin / the supported maximum. -/
def tableTop : Nat := 100000
def wsTop : Rat := 1000000000000

/-- Rows are non-empty and do not overlap or go backwards: each starts at or after the end of the previous one
(`cur`), and the last one ends at or before `top`. -/
def rowsOrdered (cur : Nat) : List TRow → Nat → Bool
  | [], top => decide (cur ≤ top)
  | r :: rest, top => decide (cur ≤ r.lo) && decide (r.lo < r.hi) && rowsOrdered r.hi rest top

/-- The holes of the table: every `[a, b)` with `a ≠ b` between the end of one row (or `cur`) and the start of
the next (or `top`). -/
def tableGaps (cur : Nat) : List TRow → Nat → List (Nat × Nat)
  | [], top => if cur = top then [] else [(cur, top)]
  | r :: rest, top => (if cur = r.lo then [] else [(cur, r.lo)]) ++ tableGaps r.hi rest top

/-- `table_contiguous`: first row starts at `cur` (0), each row starts where the previous ended, the last ends at
`top` (100000), every row has `lo < hi`. -/
def tableContiguous (cur : Nat) (tbl : List TRow) (top : Nat) : Bool :=
  rowsOrdered cur tbl top && (tableGaps cur tbl top).isEmpty

/-- The four cells of one row are the statutory schedule at the row midpoint, rounded half-up to dollars. -/
def rowCellsOkN (y : Year) (r : TRow) : Bool :=
  r.single == tableCellN y .single r.lo r.hi && r.mfj == tableCellN y .mfj r.lo r.hi &&
  r.mfs == tableCellN y .mfs r.lo r.hi && r.hoh == tableCellN y .hoh r.lo r.hi

/-- `table_cells`: every cell of every row. -/
def cellsOkN (y : Year) : List TRow → Bool
  | [] => true
  | r :: rest => rowCellsOkN y r && cellsOkN y rest

/-- The rows `(lo, hi)` with a wrong cell (reported when `table_cells` fails). -/
def cellsBad (y : Year) : List TRow → List (Nat × Nat)
  | [] => []
  | r :: rest => if rowCellsOkN y r then cellsBad y rest else (r.lo, r.hi) :: cellsBad y rest

/-- The same with the `Rat` definition (the official statement; equivalent by `tableCell_eq_tableCellN`). -/
def cellsOk (y : Year) (tbl : List TRow) : Prop :=
  ∀ r ∈ tbl, ∀ c : Col, r.cell c = tableCell y c r.lo r.hi

/-- One column is non-decreasing down the rows. -/
def colMonotone (c : Col) : List TRow → Bool
  | r :: r' :: rest => decide (r.cell c ≤ r'.cell c) && colMonotone c (r' :: rest)
  | _ => true

/-- `table_monotone`. -/
def tableMonotone (tbl : List TRow) : Bool :=
  colMonotone .single tbl && colMonotone .mfj tbl && colMonotone .mfs tbl && colMonotone .hoh tbl

/-- No row is wider than `w` dollars. -/
def rowsWidthLe (w : Nat) : List TRow → Bool
  | [] => true
  | r :: rest => decide (r.hi ≤ r.lo + w) && rowsWidthLe w rest

/-- A linear piece of the schedule: on `[lo, hi]` (`hi = none`: unbounded) the tax is `slope * x + icpt`. -/
structure Piece where
  lo : Rat
  hi : Option Rat
  slope : Rat
  icpt : Rat
  deriving Repr

/-- The linear pieces of `fun x => acc + taxAbove prev brs top x`. -/
def pieces (prev acc : Rat) : Brackets → Rat → List Piece
  | [], top => [⟨prev, none, top, acc - top * prev⟩]
  | (e, r) :: rest, top => ⟨prev, some e, r, acc - r * prev⟩ :: pieces e (acc + r * (e - prev)) rest top

/-- The worksheet row lies inside the piece and is the same linear function (slope and intercept compared as
rationals: this decides `x * rate - sub = bracketTax x` for every `x` of the row at once). -/
def WRow.fits (w : WRow) (p : Piece) : Bool :=
  decide (p.lo ≤ w.lo) && (match p.hi with | none => true | some h => decide (w.hi ≤ h)) &&
  decide (w.rate = p.slope) && decide (-w.sub = p.icpt)

def wsRowOk (y : Year) (c : Col) (w : WRow) : Bool :=
  (pieces 0 0 (brackets y c) topRate).any w.fits

/-- Rows chain from `cur` upwards, each is non-empty and is the schedule on its interval; the result is where the
last one ends. -/
def wsChain (y : Year) (c : Col) (cur : Rat) : List WRow → Option Rat
  | [] => some cur
  | w :: rest =>
      if decide (w.lo = cur) && decide (w.lo < w.hi) && wsRowOk y c w then wsChain y c w.hi rest else none

/-- One worksheet section: chains from 100000 to at least the supported maximum 10^12 (the code writes the
open-ended last row with that upper end). -/
def wsSectionOk (y : Year) (c : Col) (rows : List WRow) : Bool :=
  match wsChain y c (tableTop : Nat) rows with
  | some e => decide (wsTop ≤ e)
  | none => false

/-- Junction: at 100000 the worksheet is at least the last table cell. -/
def junctionOk (tbl : List TRow) (c : Col) (rows : List WRow) : Bool :=
  match tbl.getLast?, rows.head? with
  | some r, some w => decide (((r.cell c : Nat) : Rat) ≤ (tableTop : Nat) * w.rate - w.sub)
  | _, _ => false

/-- `worksheet`: all four sections, with their junctions. -/
def worksheetOk (y : Year) (d : FTData) : Bool :=
  Col.all.all fun c => wsSectionOk y c (d.ws c) && junctionOk d.table c (d.ws c)

/-- `qss_eq_mfj`: both statuses are sent to the same column, hence to the same table column and worksheet rows. -/
def qssEqMfj (d : FTData) : Bool := d.statusCol .qss == d.statusCol .mfj

/-- Every status is sent to its statutory column. -/
def statusColsOk (d : FTData) : Bool := Status.all.all fun s => d.statusCol s == some s.specCol

end HabuVerif.Spec
