import HabuVerif.Dsl.Eval
/-!
# C15 (second half) — a sign analysis that decides "this line is never negative"

`nnLine y S c l` is an abstract interpreter of the line DSL (`Dsl/Eval.lean`) over a small domain of facts about a
value: "it is not negative" (`Val.NN`: a float that is not `< 0.0` — so NaN, +inf, ±0.0 count —, an int `≥ 0`, any
non-numeric value), "it is a number", "it is a list/tuple of not-negative values", "it is this constant", "it is a
line key of this (class, line)".  Inputs are assumed not negative (the premise of the property), a read `v[key]` is
not negative when the key can only denote a line of the ASSUMED set `S`, `max(0, e)` is not negative whatever `e`
is, `a - b` and `-a` are unknown, both branches of every condition are joined, paths ending in `not_implemented()`
or an exception yield nothing, loops are analysed to a checked invariant.  Constant sub-expressions are folded by
EVALUATION (`range(3, 8)`, `list(range(11, 19)) + list(range(20, 24))`, f-strings of constants), comprehensions over
a constant iterable are unrolled (`v[f"8{l}"] for l in "abc…"`).

`S` is instance-blind and keyed by NUMBERS (`code` of the code points of the class name / line name): string
comparisons are very slow under `decide +kernel`, comparisons of naturals are not.  `keyIn S key` is the predicate
on a run-time key STRING (`class[:inst].line`): class = the text before the first `:` or `.`, line = the text after
the last `.`.

CPython's `sum()` of floats is a COMPENSATED (Neumaier) summation; that its result on not-negative doubles is not
negative is true but not proved here, so `sum` counts as not negative only in the `trustSum` variant (`nnLineSum`;
soundness under the explicit hypothesis `PySumNN`), and as unknown in `nnLine` (unconditional soundness).

Soundness against `Dsl.evalLine` / `run`: `Proofs/SignSound.lean`.  Executable, core only; evaluated by
`decide +kernel` in `Gen/C15Sign_<year>.lean` and mirrored line by line in `tools/gen_c15_sign.py`.
-/
set_option autoImplicit false

namespace HabuVerif.Dsl.Val

/-- not negative: NaN, +inf, ±0.0 and every non-numeric value count as not negative -/
def NN : Val → Bool
  | .float x => !(F64.lt x F64.zero)
  | .int n => decide (0 ≤ n)
  | _ => true

/-- `int`, `float` or `bool` -/
def isNum : Val → Bool
  | .bool _ => true
  | .int _ => true
  | .float _ => true
  | _ => false

/-- a number that is not negative and not NaN -/
def NNreal : Val → Bool
  | .bool _ => true
  | .int n => decide (0 ≤ n)
  | .float x => !(F64.lt x F64.zero) && !x.isNaN
  | _ => false

/-- a list or tuple all of whose elements are not negative -/
def itemsNN : Val → Bool
  | .list xs => xs.all NN
  | .tuple xs => xs.all NN
  | _ => false

end HabuVerif.Dsl.Val

namespace HabuVerif.Sign
open HabuVerif HabuVerif.Dsl

/-! ## Keys as numbers -/

/-- code points of a string -/
def nats (s : String) : List Nat := s.toList.map Char.toNat

/-- `:` or `.` -/
def isStop (n : Nat) : Bool := n == 58 || n == 46

/-- the text before the first `:` or `.` -/
def clsNats (ns : List Nat) : List Nat := ns.takeWhile fun n => !isStop n

/-- the text after the last `.` -/
def lineNats (ns : List Nat) : List Nat := (ns.reverse.takeWhile fun n => n != 46).reverse

/-- positional code of a list of code points (injective: base above every code point, leading 1) -/
def code (ns : List Nat) : Nat := ns.foldl (fun a n => a * 0x110000 + n) 1

/-- the assumed set: class code ↦ line codes -/
abbrev SSet := List (Nat × List Nat)

def SSet.has (S : SSet) (c l : Nat) : Bool :=
  match S.lookup c with
  | some ls => ls.contains l
  | none => false

/-- the run-time key `class[:inst].line` denotes a line of the set -/
def keyIn (S : SSet) (key : String) : Bool :=
  S.has (code (clsNats (nats key))) (code (lineNats (nats key)))

/-- the set given by names -/
def SSet.ofNames (xs : List (String × List String)) : SSet :=
  xs.map fun p => (code (nats p.1), p.2.map fun l => code (nats l))

/-! ## Abstract values -/

structure SVal where
  /-- no value at all (the expression always raises / is `not_implemented()`) -/
  bot : Bool := false
  /-- `Val.NN` -/
  nn : Bool := false
  /-- `Val.isNum` -/
  num : Bool := false
  /-- `Val.itemsNN` -/
  items : Bool := false
  /-- the value is this constant -/
  known : Option Val := none
  /-- the value is a string containing a dot with this (class code, line code) -/
  key : Option (Nat × Nat) := none

namespace SVal
def any : SVal := {}
def bottom : SVal := { bot := true }
def flags (nn num items : Bool) : SVal := { nn := nn, num := num, items := items }
def numNN : SVal := flags true true false
def nnOnly : SVal := flags true false false
def ofConst (v : Val) : SVal := { nn := v.NN, num := v.isNum, items := v.itemsNN, known := some v }
def ofR (r : R Val) : SVal :=
  match r with
  | .ok v => ofConst v
  | .error _ => bottom
/-- the fact we are after -/
def ok (a : SVal) : Bool := a.bot || a.nn
def join (a b : SVal) : SVal :=
  if a.bot then b else if b.bot then a
  else { nn := a.nn && b.nn, num := a.num && b.num, items := a.items && b.items }
def forget (a : SVal) : SVal := { bot := a.bot, nn := a.nn, num := a.num, items := a.items }
/-- `a` says at least as much as `b` -/
def le (a b : SVal) : Bool :=
  a.bot || (!b.bot && (!b.nn || a.nn) && (!b.num || a.num) && (!b.items || a.items) &&
    b.known.isNone && b.key.isNone)
/-- a not-negative real constant (`0`, `0.0`, `3`) -/
def isRealConst (a : SVal) : Bool :=
  match a.known with
  | some c => c.NNreal
  | none => false
/-- an element of the iterable -/
def itemOf (a : SVal) : SVal := if a.items then nnOnly else any
end SVal

abbrev AEnv := List (String × SVal)

def AEnv.get (env : AEnv) (x : String) : SVal :=
  match env.lookup x with
  | some a => a
  | none => .any

def AEnv.set (env : AEnv) (x : String) (a : SVal) : AEnv := (x, a) :: env

def joinEnv (e1 e2 : AEnv) : AEnv := e1.map fun p => (p.1, SVal.join p.2 (AEnv.get e2 p.1))

def forgetEnv (e : AEnv) : AEnv := e.map fun p => (p.1, p.2.forget)

/-- every entry of `inv` is implied by what `o` says about that variable -/
def envLe (o inv : AEnv) : Bool := inv.all fun p => SVal.le (AEnv.get o p.1) p.2

def joinOptEnv : Option AEnv → Option AEnv → Option AEnv
  | none, o => o
  | some a, none => some a
  | some a, some b => some (joinEnv a b)

def optLe : Option AEnv → AEnv → Bool
  | none, _ => true
  | some o, inv => envLe o inv

/-- what a block can do: fall through / `continue` / `break` with an environment, return a value -/
structure BRes where
  next : Option AEnv := none
  cont : Option AEnv := none
  brk : Option AEnv := none
  ret : SVal := .bottom

namespace BRes
def join (a b : BRes) : BRes :=
  { next := joinOptEnv a.next b.next, cont := joinOptEnv a.cont b.cont, brk := joinOptEnv a.brk b.brk,
    ret := SVal.join a.ret b.ret }
/-- `a` then (from its fall-through environment) `b` -/
def seq (a b : BRes) : BRes :=
  { next := b.next, cont := joinOptEnv a.cont b.cont, brk := joinOptEnv a.brk b.brk,
    ret := SVal.join a.ret b.ret }
/-- the body `b` was analysed from the loop invariant `inv` and is stable -/
def stable (b : BRes) (inv : AEnv) : Bool := optLe b.next inv && optLe b.cont inv
/-- after the loop -/
def finish (b : BRes) (inv : AEnv) : BRes :=
  { next := joinOptEnv (some inv) b.brk, ret := b.ret }
/-- value of a function body: `return x`, or `None` when it falls off the end -/
def result (b : BRes) : SVal :=
  SVal.join b.ret (if b.next.isSome then SVal.ofConst .none else SVal.bottom)
end BRes

/-- what the analysis is relative to -/
structure SCtx where
  year : YearDecl
  /-- `code` of the own class name (which contains no `:` and no `.`: checked by `nnLineWith`) -/
  clsCode : Nat
  /-- thresholds of the own class -/
  ths : List (String × Thresh)
  S : SSet
  /-- count `sum(...)` of not-negative values as not negative (sound under `PySumNN`) -/
  trustSum : Bool

/-- `v[key]` -/
def readKey (K : SCtx) (k : SVal) : SVal :=
  if k.bot then .bottom else
  match k.known with
  | some (.str s) =>
    let ns := nats s
    if ns.contains 46 then (if K.S.has (code (clsNats ns)) (code (lineNats ns)) then .numNN else .any)
    else (if K.S.has K.clsCode (code ns) then .numNN else .any)
  | some _ => .any
  | none =>
    match k.key with
    | some cl => if K.S.has cl.1 cl.2 then .numNN else .any
    | none => .any

def knownAll : List SVal → Option (List Val)
  | [] => some []
  | a :: as =>
    match a.known with
    | none => none
    | some c =>
      match knownAll as with
      | none => none
      | some cs => some (c :: cs)

/-- the key pattern `prefix{…}suffix`: the prefix fixes the class, the suffix the line -/
def fstrKey (as : List SVal) : Option (Nat × Nat) :=
  match as with
  | [a, _, c] =>
    (match a.known with
     | some (.str p) =>
       (match c.known with
        | some (.str q) =>
          if (nats p).any isStop && (nats q).contains 46 then
            some (code (clsNats (nats p)), code (lineNats (nats q)))
          else none
        | _ => none)
     | _ => none)
  | _ => none

def fstrVal (as : List SVal) : SVal :=
  if as.any (·.bot) then .bottom else
  match knownAll as with
  | some cs =>
    (match fmtAll cs with
     | .ok s => .ofConst (.str s)
     | .error _ => .bottom)
  | none => { nn := true, key := fstrKey as }

/-- the facts about `a op b` that do not need the constants -/
def binFlags (op : BinOp) (a b : SVal) : SVal :=
  if a.bot || b.bot then .bottom else
  match op with
  | .add => .flags (a.nn && b.nn) (a.num && b.num) (a.items && b.items)
  | .mul => .flags (a.nn && b.nn) (a.num && b.num) false
  | .div => .flags (a.nn && b.nn) true false
  | .sub => .flags false true false

def binVal (op : BinOp) (a b : SVal) : SVal :=
  match a.known, b.known with
  | some x, some y => if a.bot || b.bot then .bottom else .ofR (applyBin op x y)
  | _, _ => binFlags op a b

def callFlags (K : SCtx) (f : Builtin) (as : List SVal) : SVal :=
  match f, as with
  | .sum, [a] => if a.items && K.trustSum then .numNN else .any
  | .min, [a] => if a.items then .nnOnly else .any
  | .max, [a] => if a.items then .nnOnly else .any
  | .min, a :: b :: rest => .flags ((a :: b :: rest).all (·.nn)) ((a :: b :: rest).all (·.num)) false
  | .max, a :: b :: rest =>
    .flags (a.nn || (a :: b :: rest).any SVal.isRealConst) ((a :: b :: rest).all (·.num)) false
  | .float, [a] => .flags (a.nn && a.num) true false
  | .round, a :: _ => .flags a.nn true false
  | .ceil, [a] => .flags a.nn true false
  | .len, [_] => .numNN
  | .list, [a] => .flags true false a.items
  | .range, [_] => .flags true false true
  | .range, [_, _] => .flags true false false
  | .str, _ => .nnOnly
  | _, _ => .any

def callVal (K : SCtx) (f : Builtin) (as : List SVal) : SVal :=
  if as.any (·.bot) then .bottom else
  match knownAll as with
  | some cs => .ofR (applyBuiltin f cs)
  | none => callFlags K f as

/-- `self.threshold(name[, key])` -/
def threshVal (ths : List (String × Thresh)) (name : SVal) : SVal :=
  if name.bot then .bottom else
  match name.known with
  | some (.str n) =>
    (match ths.lookup n with
     | some (.scalar v) => .flags v.NN v.isNum false
     | some (.table rows) => .flags (rows.all fun r => r.2.NN) (rows.all fun r => r.2.isNum) false
     | none => .bottom)
  | _ => .any

/-- loop / comprehension targets -/
def bindA (xs : List String) (item : SVal) (env : AEnv) : AEnv :=
  match xs with
  | [x] => env.set x item
  | _ => []

/-- the iterable's items when it is a constant -/
def constItems (it : SVal) : Option (List Val) :=
  match it.known with
  | some c =>
    (match Val.iterItems c with
     | .ok items => some items
     | .error _ => none)
  | none => none

mutual
  def absExpr (K : SCtx) (env : AEnv) : Expr → SVal
    | .const v => .ofConst v
    | .var x => env.get x
    | .readI e => if (absExpr K env e).bot then .bottom else .nnOnly
    | .readV e => readKey K (absExpr K env e)
    | .fstr parts => fstrVal (absArgs K env parts)
    | .bin op a b => binVal op (absExpr K env a) (absExpr K env b)
    | .neg a => if (absExpr K env a).bot then .bottom else .flags false true false
    | .pos a => if (absExpr K env a).bot then .bottom else .flags false true false
    | .not a => if (absExpr K env a).bot then .bottom else .numNN
    | .and a b => SVal.join (absExpr K env a) (absExpr K env b)
    | .or a b => SVal.join (absExpr K env a) (absExpr K env b)
    | .cmp first _ _ => if (absExpr K env first).bot then .bottom else .numNN
    | .ite c a b =>
      if (absExpr K env c).bot then .bottom else SVal.join (absExpr K env a) (absExpr K env b)
    | .call f args => callVal K f (absArgs K env args)
    | .method _ obj _ => if (absExpr K env obj).bot then .bottom else .any
    | .attr obj _ => if (absExpr K env obj).bot then .bottom else .any
    | .attrFail _ => .bottom
    | .raise _ => .bottom
    | .threshold name _ _ => threshVal K.ths (absExpr K env name)
    | .thresholdOf form _ _ _ => if (absExpr K env form).bot then .bottom else .any
    | .loadedForm form => if (absExpr K env form).bot then .bottom else .nnOnly
    | .instance => .nnOnly
    | .notImpl _ => .bottom
    | .tuple xs =>
      let as := absArgs K env xs
      if as.any (·.bot) then .bottom else
      (match knownAll as with
       | some cs => .ofConst (.tuple cs)
       | none => .flags true false (as.all (·.nn)))
    | .list xs =>
      let as := absArgs K env xs
      if as.any (·.bot) then .bottom else
      (match knownAll as with
       | some cs => .ofConst (.list cs)
       | none => .flags true false (as.all (·.nn)))
    | .dict _ vs => if (absArgs K env vs).any (·.bot) then .bottom else .nnOnly
    | .index e idx =>
      let a := absExpr K env e
      let b := absExpr K env idx
      if a.bot || b.bot then .bottom else
      (match a.known, b.known with
       | some x, some y => .ofR (Val.getItem x y)
       | _, _ => if a.items then .nnOnly else .any)
    | .slice e lo hi =>
      if (absExpr K env e).bot || (absExpr K env lo).bot || (absExpr K env hi).bot then .bottom else .any
    | .listComp elt xs iter _ =>
      let it := absExpr K env iter
      if it.bot then .bottom else
      let r : SVal :=
        match constItems it, xs with
        | some items, [x] =>
          items.foldl (fun acc item => SVal.join acc (absExpr K (env.set x (.ofConst item)) elt)) .bottom
        | _, _ => absExpr K (bindA xs it.itemOf env) elt
      .flags true false r.ok
    | .sumGen elt xs iter _ =>
      let it := absExpr K env iter
      if it.bot then .bottom else
      let r : SVal :=
        match constItems it, xs with
        | some items, [x] =>
          items.foldl (fun acc item => SVal.join acc (absExpr K (env.set x (.ofConst item)) elt)) .bottom
        | _, _ => absExpr K (bindA xs it.itemOf env) elt
      if r.ok && K.trustSum then .numNN else .any
    | .callHelper params args defaults body =>
      let as := absArgs K env args
      if as.any (·.bot) then .bottom
      else if as.length != params.length then .bottom
      else
        (absBlock K ((params.zip as).foldl (fun e p => e.set p.1 p.2)
          (defaults.map fun p => (p.1, SVal.ofConst p.2))) body).result
    | .global _ => .any
    | .unsupported _ => .bottom

  def absArgs (K : SCtx) (env : AEnv) : List Expr → List SVal
    | [] => []
    | e :: es => absExpr K env e :: absArgs K env es

  def absStmt (K : SCtx) (env : AEnv) : Stmt → BRes
    | .assign x e =>
      let a := absExpr K env e
      if a.bot then {} else { next := some (env.set x a) }
    | .unpack _ e => if (absExpr K env e).bot then {} else { next := some [] }
    | .aug x op e =>
      let a := absExpr K env e
      if a.bot then {} else { next := some (env.set x (binFlags op (env.get x) a)) }
    | .ifS c thn els =>
      if (absExpr K env c).bot then {} else BRes.join (absBlock K env thn) (absBlock K env els)
    | .forS xs iter body =>
      let it := absExpr K env iter
      if it.bot then {} else
      let item := it.itemOf
      let c1 := forgetEnv env
      let b1 := absBlock K (bindA xs item c1) body
      if b1.stable c1 then b1.finish c1 else
      let c2 := joinEnv c1 ((joinOptEnv b1.next b1.cont).getD [])
      let b2 := absBlock K (bindA xs item c2) body
      if b2.stable c2 then b2.finish c2 else
      (absBlock K (bindA xs item []) body).finish []
    | .ret e => { ret := absExpr K env e }
    | .expr e => if (absExpr K env e).bot then {} else { next := some env }
    | .append x e =>
      let a := absExpr K env e
      if a.bot then {} else { next := some (env.set x (.flags true false ((env.get x).items && a.nn))) }
    | .assertS c _ => if (absExpr K env c).bot then {} else { next := some env }
    | .continueS => { cont := some env }
    | .breakS => { brk := some env }
    | .pass => { next := some env }

  def absBlock (K : SCtx) (env : AEnv) : List Stmt → BRes
    | [] => { next := some env }
    | s :: ss =>
      let r := absStmt K env s
      match r.next with
      | none => r
      | some env' => r.seq (absBlock K env' ss)
end

/-- what the body of line `d` can return -/
def absBody (K : SCtx) (d : LineDecl) : SVal :=
  (absBlock K (d.defaults.map fun p => (p.1, SVal.ofConst p.2)) d.body).result

def kindOK : FieldKind → Bool
  | .float _ => true
  | .int => true
  | _ => false

def mkK (trust : Bool) (y : YearDecl) (S : SSet) (c : ClassDecl) : SCtx :=
  { year := y, clsCode := code (nats c.name), ths := c.thresholds, S := S, trustSum := trust }

/-- the class name contains no `:` and no `.` -/
def classOK (c : ClassDecl) : Bool := (nats c.name).all fun n => !isStop n

/-- line `l` of class `c` (a float or int line) can only return not-negative values, for every instance, given
not-negative inputs and not-negative stored values of the lines of `S` -/
def nnLineWith (trust : Bool) (y : YearDecl) (S : SSet) (c : ClassDecl) (l : LineDecl) : Bool :=
  kindOK l.kind && classOK c && (absBody (mkK trust y S c) l).ok

/-- unconditional variant: `sum(...)` is unknown -/
def nnLine (y : YearDecl) (S : SSet) (c : ClassDecl) (l : LineDecl) : Bool := nnLineWith false y S c l

/-- variant trusting CPython's `sum()` (hypothesis `PySumNN` of `Proofs/SignSound.lean`) -/
def nnLineSum (y : YearDecl) (S : SSet) (c : ClassDecl) (l : LineDecl) : Bool := nnLineWith true y S c l

/-- `S` is closed: every line of the year whose (class, line) is in `S` passes the analysis relative to `S` -/
def closedWith (trust : Bool) (y : YearDecl) (S : SSet) : Bool :=
  y.classes.all fun c =>
    match S.lookup (code (nats c.name)) with
    | none => true
    | some ls => c.lines.all fun l => !ls.contains (code (nats l.name)) || nnLineWith trust y S c l

end HabuVerif.Sign
