import HabuVerif.Dsl.Cat
/-!
# C09 — gates: an abstract interpreter that decides "this line cannot return a value"

A *gate* is an input by which the user declares a situation habutax does not implement
(`1040.digital_assets = yes`, `8889:you.age_under_55 = no`, `1040.number_1099-int > 14`).  The reviewed list is
`tools/c09_gates.json`; `GateSpec` is the set of answers that declare the situation.

`absExpr` / `absStmt` / `absBlock` are a partial evaluator of the line DSL (`Dsl/Eval.lean`) over a tiny abstract
domain: a value is a known constant, the gate's value (some value satisfying the spec), a value of known
truthiness, or unknown.  Every read other than the gate is unknown; BOTH branches of every condition that is not
decided are explored; paths that end in `not_implemented()`, an exception or an unsatisfiable read are dropped.
The result is the finite list of possible normal outcomes, each with a flag "the gate input may have been read on
this path".  Loops and comprehensions are summarised (the body is analysed once from the empty environment).

* `cannotReturn`: no outcome at all — whatever the other inputs and line values are, the line never returns;
* `noReturnAfterRead`: no outcome on which the gate was read — a run that consults the gate never returns.

Soundness against `Dsl.evalLine` / `run`: `Proofs/GateLemmas.lean`.  Executable, core only (the checks are
evaluated by `decide +kernel` in `Gen/C09_<year>.lean`, and mirrored line by line in `tools/gen_c09.py`).
-/
set_option autoImplicit false

namespace HabuVerif.Gates
open HabuVerif HabuVerif.Dsl

/-- which answers declare the unsupported situation -/
inductive GateSpec where
  /-- a yes/no question answered with `b` -/
  | isBool (b : Bool)
  /-- any truthy value (a non-zero amount) -/
  | truthy
  /-- an integer above `k` (more payers than rows, any 1099-OID) -/
  | intGt (k : Int)
deriving Repr, DecidableEq, Inhabited

def GateSpec.sat : GateSpec → Val → Bool
  | .isBool b, .bool b' => b == b'
  | .isBool _, _ => false
  | .truthy, v => v.truthy
  | .intGt k, .int n => decide (k < n)
  | .intGt _, _ => false

/-- truthiness of a value that satisfies the spec, when the spec determines it -/
def GateSpec.truth : GateSpec → Option Bool
  | .isBool b => some b
  | .truthy => some true
  | .intGt k => if 0 ≤ k then some true else none

/-- `gate <op> c`, when the spec determines it -/
def GateSpec.cmpConst : GateSpec → CmpOp → Val → Option Bool
  | .intGt k, .gt, .int c => if c ≤ k then some true else none
  | _, _, _ => none

/-- abstract values -/
inductive AVal where
  | known (v : Val)
  /-- the value of the gate input: some value satisfying the spec -/
  | gate
  /-- an unknown value whose truthiness is `b` -/
  | unkT (b : Bool)
  | unk
deriving Inhabited

abbrev AEnv := List (String × AVal)

def AEnv.get (env : AEnv) (x : String) : AVal :=
  match env.lookup x with
  | some a => a
  | none => .unk

def AEnv.set (env : AEnv) (x : String) (a : AVal) : AEnv := (x, a) :: env

/-- possible normal outcomes, each with the flag "the gate may have been read" -/
abbrev A (β : Type) := List (β × Bool)

namespace A
variable {β γ : Type}
def pure (x : β) : A β := [(x, false)]
def stop : A β := []
def bind (m : A β) (h : β → A γ) : A γ :=
  m.flatMap fun o => (h o.1).map fun r => (r.1, o.2 || r.2)
/-- any outcome flagged? -/
def flagged (m : A β) : Bool := m.any (·.2)
end A

inductive AFlow where
  | next (env : AEnv)
  | cont (env : AEnv)
  | brk (env : AEnv)
  | ret (a : AVal)

def AFlow.isRet : AFlow → Bool
  | .ret _ => true
  | _ => false

/-- result of a function body: `return x`, or `None` when it falls off the end -/
def resultOf : AFlow → A AVal
  | .ret a => A.pure a
  | .next _ => A.pure (.known .none)
  | .cont _ => A.stop
  | .brk _ => A.stop

/-- what the analysis is relative to -/
structure GCtx where
  ctx : Ctx
  /-- full name of the gate input, `form[:instance].name` -/
  gate : String
  spec : GateSpec

def AVal.truth (G : GCtx) : AVal → Option Bool
  | .known v => some v.truthy
  | .gate => G.spec.truth
  | .unkT b => some b
  | .unk => none

/-- explore the branch(es) compatible with what is known about the condition -/
def branch {β : Type} (G : GCtx) (a : AVal) (thn els : A β) : A β :=
  match a.truth G with
  | some true => thn
  | some false => els
  | none => thn ++ els

/-- a single comparison -/
def cmp1 (G : GCtx) (op : CmpOp) (l r : AVal) : AVal :=
  match l, r with
  | .gate, .known c =>
    (match G.spec.cmpConst op c with
     | some b => .known (.bool b)
     | none => .unk)
  | _, _ => .unk

/-- `i[key]` -/
def readInput (G : GCtx) (key : AVal) : A AVal :=
  match key with
  | .known (.str s) =>
    (match qualify G.ctx (.str s) with
     | .ok n => if n == G.gate then [(.gate, true)] else A.pure .unk
     | .error _ => A.stop)
  | _ => [(.unk, true)]        -- a computed name: may be the gate

/-- summary of a loop: it may be skipped or run any number of times -/
def loopOutcomes (body : A AFlow) : A AFlow :=
  (AFlow.next [], body.flagged) ::
    (if body.any (fun o => o.1.isRet) then [(AFlow.ret .unk, body.flagged)] else [])

mutual
  def absExpr (G : GCtx) (env : AEnv) : Expr → A AVal
    | .const v => A.pure (.known v)
    | .var x => A.pure (env.get x)
    | .readI e => (absExpr G env e).bind (readInput G)
    | .readV e => (absExpr G env e).bind fun _ => A.pure .unk
    | .fstr parts => (absArgs G env parts).bind fun _ => A.pure .unk
    | .bin _ a b => (absExpr G env a).bind fun _ => (absExpr G env b).bind fun _ => A.pure .unk
    | .neg a => (absExpr G env a).bind fun _ => A.pure .unk
    | .pos a => (absExpr G env a).bind fun _ => A.pure .unk
    | .not a =>
      (absExpr G env a).bind fun x =>
        A.pure (match x.truth G with
          | some b => .known (.bool (!b))
          | none => .unk)
    | .and a b =>
      (absExpr G env a).bind fun x =>
        match x.truth G with
        | some true => absExpr G env b
        | some false => A.pure x
        | none => A.pure (.unkT false) ++ absExpr G env b
    | .or a b =>
      (absExpr G env a).bind fun x =>
        match x.truth G with
        | some true => A.pure x
        | some false => absExpr G env b
        | none => A.pure (.unkT true) ++ absExpr G env b
    | .cmp first ops rest => (absExpr G env first).bind fun x => absCmp G env x ops rest
    | .ite c a b => (absExpr G env c).bind fun x => branch G x (absExpr G env a) (absExpr G env b)
    | .call _ args => (absArgs G env args).bind fun _ => A.pure .unk
    | .method _ obj args => (absExpr G env obj).bind fun _ => (absArgs G env args).bind fun _ => A.pure .unk
    | .attr obj _ => (absExpr G env obj).bind fun _ => A.pure .unk
    | .attrFail obj => (absExpr G env obj).bind fun _ => A.stop
    | .raise _ => A.stop
    | .threshold name hasKey key =>
      (absExpr G env name).bind fun _ =>
        if hasKey then (absExpr G env key).bind fun _ => A.pure .unk else A.pure .unk
    | .thresholdOf form name hasKey key =>
      (absExpr G env form).bind fun _ =>
        (absExpr G env name).bind fun _ =>
          if hasKey then (absExpr G env key).bind fun _ => A.pure .unk else A.pure .unk
    | .loadedForm form => (absExpr G env form).bind fun _ => A.pure (.known .none)
    | .instance => A.pure .unk
    | .notImpl args => (absArgs G env args).bind fun _ => A.stop
    | .tuple xs => (absArgs G env xs).bind fun _ => A.pure .unk
    | .list xs => (absArgs G env xs).bind fun _ => A.pure .unk
    | .dict _ vs => (absArgs G env vs).bind fun _ => A.pure .unk
    | .index e idx => (absExpr G env e).bind fun _ => (absExpr G env idx).bind fun _ => A.pure .unk
    | .slice e lo hi =>
      (absExpr G env e).bind fun _ => (absExpr G env lo).bind fun _ => (absExpr G env hi).bind fun _ => A.pure .unk
    | .listComp elt _ iter conds =>
      (absExpr G env iter).bind fun _ =>
        [(.unk, (absConds G [] conds).flagged || (absExpr G [] elt).flagged)]
    | .sumGen elt _ iter conds =>
      (absExpr G env iter).bind fun _ =>
        [(.unk, (absConds G [] conds).flagged || (absExpr G [] elt).flagged)]
    | .callHelper params args defaults body =>
      (absArgs G env args).bind fun _ =>
        (absBlock G (if params.isEmpty then defaults.map (fun p => (p.1, AVal.known p.2)) else []) body).bind resultOf
    | .global _ => A.pure .unk
    | .unsupported _ => A.stop

  /-- arguments, left to right (only completion and the flag matter) -/
  def absArgs (G : GCtx) (env : AEnv) : List Expr → A Unit
    | [] => A.pure ()
    | e :: es => (absExpr G env e).bind fun _ => absArgs G env es

  def absCmp (G : GCtx) (env : AEnv) (left : AVal) : List CmpOp → List Expr → A AVal
    | op :: ops, e :: es =>
      (absExpr G env e).bind fun right =>
        match ops with
        | [] => A.pure (cmp1 G op left right)
        | _ :: _ => A.pure (.known (.bool false)) ++ absCmp G env right ops es
    | [], [] => A.pure (.known (.bool true))
    | _, _ => A.stop

  /-- comprehension filters (only completion and the flag matter) -/
  def absConds (G : GCtx) (env : AEnv) : List Expr → A Unit
    | [] => A.pure ()
    | c :: cs =>
      (absExpr G env c).bind fun x =>
        match x.truth G with
        | some true => absConds G env cs
        | some false => A.pure ()
        | none => A.pure () ++ absConds G env cs

  def absStmt (G : GCtx) (env : AEnv) : Stmt → A AFlow
    | .assign x e => (absExpr G env e).bind fun a => A.pure (.next (env.set x a))
    | .unpack _ e => (absExpr G env e).bind fun _ => A.pure (.next [])
    | .aug x _ e => (absExpr G env e).bind fun _ => A.pure (.next (env.set x .unk))
    | .ifS c thn els => (absExpr G env c).bind fun x => branch G x (absBlock G env thn) (absBlock G env els)
    | .forS _ iter body => (absExpr G env iter).bind fun _ => loopOutcomes (absBlock G [] body)
    | .ret e => (absExpr G env e).bind fun a => A.pure (.ret a)
    | .expr e => (absExpr G env e).bind fun _ => A.pure (.next env)
    | .append x e => (absExpr G env e).bind fun _ => A.pure (.next (env.set x .unk))
    | .assertS c _ =>
      (absExpr G env c).bind fun x =>
        match x.truth G with
        | some false => A.stop
        | _ => A.pure (.next env)
    | .continueS => A.pure (.cont env)
    | .breakS => A.pure (.brk env)
    | .pass => A.pure (.next env)

  def absBlock (G : GCtx) (env : AEnv) : List Stmt → A AFlow
    | [] => A.pure (.next env)
    | s :: ss =>
      (absStmt G env s).bind fun r =>
        match r with
        | .next env' => absBlock G env' ss
        | other => A.pure other
end

/-- possible normal results of the body of line `d` -/
def absBody (G : GCtx) (d : LineDecl) : A AVal :=
  (absBlock G (d.defaults.map fun p => (p.1, AVal.known p.2)) d.body).bind resultOf

def mkG (year : YearDecl) (c : ClassDecl) (inst : Option String) (gate : String) (spec : GateSpec) : GCtx :=
  { ctx := { year := year, form := c.name, inst := inst, thresholds := c.thresholds }, gate := gate, spec := spec }

/-- no path through the line ends in a returned value when the gate input, if present, satisfies `spec` -/
def cannotReturn (year : YearDecl) (c : ClassDecl) (inst : Option String) (d : LineDecl)
    (gate : String) (spec : GateSpec) : Bool :=
  (absBody (mkG year c inst gate spec) d).isEmpty

/-- no path on which the gate input is read ends in a returned value -/
def noReturnAfterRead (year : YearDecl) (c : ClassDecl) (inst : Option String) (d : LineDecl)
    (gate : String) (spec : GateSpec) : Bool :=
  (absBody (mkG year c inst gate spec) d).all fun o => !o.2

/-! ## Obligations are stated by NAME, so that one kernel evaluation also establishes which line it is -/

def lineName (cname : String) (inst : Option String) (lname : String) : String :=
  formName cname inst ++ "." ++ lname

/-- `YearDecl.resolveForm` without the class's naming assertions (`ClassDecl.namesOk`, expensive to evaluate in
the kernel: every line and input name is scanned): those are established ONCE per form by `formOk` -/
def resolveLoose (y : YearDecl) (f : String) : Option (ClassDecl × Option String) :=
  if !nameOk f then none else
  match nameAndInstance f with
  | none => none
  | some (cn, inst) =>
    match y.formMap.lookup cn with
    | none => none
    | some (c, _) => if c.instRule.accepts inst then some (c, inst) else none

/-- the naming assertions of the class that form `cname[:inst]` resolves to hold (one obligation per form) -/
def formOk (y : YearDecl) (cname : String) (inst : Option String) : Bool :=
  match nameAndInstance (formName cname inst) with
  | none => false
  | some (cn, _) =>
    match y.formMap.lookup cn with
    | none => false
    | some (_, ok) => ok

/-- the class, instance and line declaration that the catalogue (`mkCat`) uses for line `lname` of form
`cname[:inst]` (given `formOk`): no dot in the form name, the LAST class of that name, it accepts the instance -/
def lineAt (year : YearDecl) (cname : String) (inst : Option String) (lname : String) :
    Option (ClassDecl × Option String × LineDecl) :=
  match resolveLoose year (formName cname inst) with
  | none => none
  | some (c, inst') =>
    match c.lines.find? (fun d => d.name == lname) with
    | none => none
    | some d => some (c, inst', d)

/-- the line's full name splits the way `mkCat` splits it -/
def namesOK (cname : String) (inst : Option String) (lname : String) : Bool :=
  splitName (lineName cname inst lname) == some (formName cname inst, lname)

inductive Mode where
  /-- the line never returns -/
  | never
  /-- the line never returns once it has read the gate -/
  | afterRead
deriving DecidableEq, Repr

/-- THE obligation (together with `formOk` of its form): line `lname` of form `cname[:inst]` exists, its name
resolves to it, and it cannot return (in the given mode) when the gate is affirmative.  `needRequired`: also check
that the line is a required line. -/
def checkLine (year : YearDecl) (cname : String) (inst : Option String) (lname : String)
    (gate : String) (spec : GateSpec) (mode : Mode) (needRequired : Bool) : Bool :=
  match lineAt year cname inst lname with
  | none => false
  | some (c, inst', d) =>
    namesOK cname inst lname && (!needRequired || d.required) &&
    (match mode with
     | .never => cannotReturn year c inst' d gate spec
     | .afterRead => noReturnAfterRead year c inst' d gate spec)

end HabuVerif.Gates
