/-!
# The statutory income-tax rate schedules 2021–2023 (oracle of property C07)

Entered from DESIGN.md Appendix B, i.e. from Rev. Proc. 2020-45 §3.01 (tax year 2021), Rev. Proc. 2021-45 §3.01
(2022) and Rev. Proc. 2022-38 §3.01 (2023) — NOT from the habutax sources.  Seven rates 10, 12, 22, 24, 32, 35,
37 % in all three years; per year and per column of the IRS tax table the upper ends of the first six brackets.

* `bracketTax y c x`  the exact piecewise-linear schedule, over `Rat`;
* `tableCell y c lo hi`  what the IRS Tax Table prints for the row `[lo, hi)`: the schedule at the row midpoint,
  rounded half-up to whole dollars.

Core Lean only (no Mathlib): everything here is evaluated by the kernel in `Gen/C07_<year>.lean`.
-/
set_option autoImplicit false

namespace HabuVerif.Spec

/-- The tax years covered. -/
inductive Year where
  | y2021 | y2022 | y2023
  deriving DecidableEq, Repr, Inhabited

def Year.toNat : Year → Nat
  | .y2021 => 2021 | .y2022 => 2022 | .y2023 => 2023

def Year.ofNat? : Nat → Option Year
  | 2021 => some .y2021 | 2022 => some .y2022 | 2023 => some .y2023 | _ => none

def Year.all : List Year := [.y2021, .y2022, .y2023]

/-- The four columns of the IRS Tax Table / the four Tax Computation Worksheet sections:
single; married filing jointly **or** qualifying surviving spouse (qualifying widow(er) in 2021);
married filing separately; head of household. -/
inductive Col where
  | single | mfj | mfs | hoh
  deriving DecidableEq, Repr, Inhabited

def Col.all : List Col := [.single, .mfj, .mfs, .hoh]

/-- The six bounded brackets' rates in percent, lowest first; the open-ended top bracket's rate. -/
def lowerPcts : List Nat := [10, 12, 22, 24, 32, 35]
def topPct : Nat := 37

/-- The top marginal rate, 37 %. -/
def topRate : Rat := (topPct : Rat) / 100

/-- Upper ends (dollars) of the first six brackets.  DESIGN.md Appendix B, verbatim. -/
def bracketEnds : Year → Col → List Nat
  | .y2021, .single => [9950, 40525, 86375, 164925, 209425, 523600]
  | .y2021, .mfj    => [19900, 81050, 172750, 329850, 418850, 628300]
  | .y2021, .mfs    => [9950, 40525, 86375, 164925, 209425, 314150]
  | .y2021, .hoh    => [14200, 54200, 86350, 164900, 209400, 523600]
  | .y2022, .single => [10275, 41775, 89075, 170050, 215950, 539900]
  | .y2022, .mfj    => [20550, 83550, 178150, 340100, 431900, 647850]
  | .y2022, .mfs    => [10275, 41775, 89075, 170050, 215950, 323925]
  | .y2022, .hoh    => [14650, 55900, 89050, 170050, 215950, 539900]
  | .y2023, .single => [11000, 44725, 95375, 182100, 231250, 578125]
  | .y2023, .mfj    => [22000, 89450, 190750, 364200, 462500, 693750]
  | .y2023, .mfs    => [11000, 44725, 95375, 182100, 231250, 346875]
  | .y2023, .hoh    => [15700, 59850, 95350, 182100, 231250, 578100]

/-- A schedule above a floor: the brackets `(upper end, rate)` still ahead, lowest first. -/
abbrev Brackets := List (Rat × Rat)

/-- `(upper end in dollars, rate in percent)` of the six bounded brackets, as whole numbers. -/
def bracketsN (y : Year) (c : Col) : List (Nat × Nat) := (bracketEnds y c).zip lowerPcts

/-- One bounded bracket as rationals: `(upper end, rate)`. -/
def bracketQ (b : Nat × Nat) : Rat × Rat := ((b.1 : Rat), (b.2 : Rat) / 100)

/-- The brackets of a year and column: `(upper end, rate)` for the six bounded brackets. -/
def brackets (y : Year) (c : Col) : Brackets := (bracketsN y c).map bracketQ

/-- Tax on the part of `x` that lies above `prev` (meant for `prev ≤ x`): the income inside each bracket times
that bracket's rate; whatever exceeds the last bounded bracket is taxed at `top`. -/
def taxAbove (prev : Rat) : Brackets → Rat → Rat → Rat
  | [], top, x => top * (x - prev)
  | (e, r) :: rest, top, x =>
      if x ≤ e then r * (x - prev) else r * (e - prev) + taxAbove e rest top x

/-- The statutory tax on a taxable income of `x ≥ 0` dollars. -/
def bracketTax (y : Year) (c : Col) (x : Rat) : Rat :=
  taxAbove 0 (brackets y c) topRate x

/-- Round a non-negative rational half-up to a whole number: `⌊q + 1/2⌋`. -/
def roundHalfUp (q : Rat) : Nat := (q + 1/2).floor.toNat

/-- The IRS Tax Table entry of the row "at least `lo` but less than `hi`": the schedule at the midpoint of the
row, rounded (half-up) to whole dollars.  The rows below $3,000 are $5/$10/$25 wide, then $50: the row's own
ends are used. -/
def tableCell (y : Year) (c : Col) (lo hi : Nat) : Nat :=
  roundHalfUp (bracketTax y c (((lo : Rat) + (hi : Rat)) / 2))

/-! ### The same cell in whole-number arithmetic

`tableCellN` is what the generated files evaluate in the kernel (about five times cheaper than `Rat`).  It works
in half-dollars and in units of 1/200 dollar; `Proofs/C07Lemmas.lean` proves `tableCell = tableCellN` for all
arguments (`tableCell_eq_tableCellN`), so nothing rests on it. -/

/-- `200 ×` the tax on the part of the income above `prev2` half-dollars, the income being `x2` half-dollars. -/
def taxAboveN (prev2 : Nat) : List (Nat × Nat) → Nat → Nat → Nat
  | [], top, x2 => top * (x2 - prev2)
  | (e, r) :: rest, top, x2 =>
      if x2 ≤ 2 * e then r * (x2 - prev2) else r * (2 * e - prev2) + taxAboveN (2 * e) rest top x2

def tableCellN (y : Year) (c : Col) (lo hi : Nat) : Nat :=
  (taxAboveN 0 (bracketsN y c) topPct (lo + hi) + 100) / 200

end HabuVerif.Spec
