import HabuVerif.Dsl.Eval
/-!
# C02 — the instruction language of official forms, and a syntactic matcher for line definitions

`Instr` is what a form says about a line ("Add lines 1z, 2b, … and 8", "Subtract line 14 from line 11. If zero
or less, enter -0-", "Multiply line 3 by 7.5% (0.075)", "Enter the smaller of line X or line Y", "… from Schedule 1,
line 10", "If line 33 is more than line 24, subtract line 24 from line 33").  The table of instructions is produced by
`tools/c02_instructions.py` from the accessibility text of the bundled templates and from cited transcriptions; line
references are habutax line names of the same form, or `form.line`.

The matcher works in three steps, all computable (the per-line obligations are closed by `decide`):

1. `toArith : Expr → Option AExpr` reads a translated line body that lies in the **arithmetic fragment**: reads of
   lines with constant names, float literals, `None`, `self.not_implemented()`, `+ - *`, two-argument `max`/`min`,
   `sum([v[f"…{x}"] for x in <constant range or string>])` (unrolled statically), `t if a <op> b else e` on two
   arithmetic operands, and `t if <anything else> else e` (the condition is NOT interpreted: `AExpr.guard`).
2. `infer : AExpr → Option Shape` recognises the canonical shape of the code (`Shape` mirrors `Instr`, with the literal
   double of a rate instead of a fraction).
3. `Shape.agrees : Shape → Instr → Bool` compares shape and instruction up to the order of the operands of a sum, the
   order of the two operands of `smaller`/`larger`/`mul`, the orientation of a comparison, and the usual ways of writing
   a floor at zero (`max(0.0, a - b)`, `max(a - b, 0.0)`, `0.0 if b > a else a - b`, `a - b if a > b else 0.0`).

**Guards** (decided here): `t if <uninterpreted condition> else e` with two valued branches (`Shape.either`) agrees when
`t` agrees and `e` agrees too or is the instruction with a blank subtrahend; a branch `self.not_implemented()` is a *decline* — it matches anything, because the line has
no value there; `t if <uninterpreted condition> else None` agrees with an instruction when `t` does and is reported as
`guarded` (the line is either what the instruction says or blank); `None` / `0.0` in a branch of a comparison agrees with
the instruction "leave blank".  `lineShape d = none` means the code is outside the fragment: the line is *uncovered*,
not wrong.  Soundness of the arithmetic part is in `Proofs/InstrSound.lean`.  Core only.
-/
set_option autoImplicit false

namespace HabuVerif.Spec
open HabuVerif HabuVerif.Dsl

/-! ## Instructions -/

inductive Cmp where
  | lt | le | gt | ge
deriving DecidableEq, Repr, Inhabited

def Cmp.holds : Cmp → Int → Int → Bool
  | .lt, a, b => decide (a < b)
  | .le, a, b => decide (a ≤ b)
  | .gt, a, b => decide (a > b)
  | .ge, a, b => decide (a ≥ b)

/-- what the official form says about one line; operands are line names -/
inductive Instr where
  /-- leave the line blank (only as a branch of `cond`) -/
  | blank
  /-- "Enter the amount from line a", "… from Schedule 1, line 10" -/
  | carry (a : String)
  | add (ls : List String)
  /-- "Combine lines 2 and 3. If zero or less, enter -0-" -/
  | addFloor0 (ls : List String)
  /-- "Combine lines 2 and 3. If greater than zero, enter -0-" -/
  | addCap0 (ls : List String)
  /-- "Subtract line b from line a" -/
  | sub (a b : String)
  /-- "Subtract line b from line a. If zero or less, enter -0-" -/
  | subFloor0 (a b : String)
  | smaller (a b : String)
  | larger (a b : String)
  /-- "Multiply line a by num/den" (7.5% is `75 1000`), to the nearest unit of the line -/
  | mulRate (a : String) (num den : Nat)
  | mulRateFloor0 (a : String) (num den : Nat)
  /-- "Multiply line a by … but do not enter more than line cap" -/
  | mulRateCap (a : String) (num den : Nat) (cap : String)
  | mul (a b : String)
  /-- "Divide line a by line b … If the result is 1.000 or more, enter 1.000" -/
  | ratioCap1 (a b : String)
  /-- "If line a is more than line b, …" -/
  | cond (c : Cmp) (a b : String) (t e : Instr)
deriving Repr, Inhabited

def sumOf (env : String → Int) (ls : List String) : Int := (ls.map env).sum

/-- the amount the instruction asks for, in units of the line (cents), for the instructions whose result is exact;
`none` for the instructions that involve a rate or a quotient (their result is a nearest unit of `Instr.evalQ`) -/
def Instr.evalI (env : String → Int) : Instr → Option Int
  | .blank => some 0
  | .carry a => some (env a)
  | .add ls => some (sumOf env ls)
  | .addFloor0 ls => some (max 0 (sumOf env ls))
  | .addCap0 ls => some (min 0 (sumOf env ls))
  | .sub a b => some (env a - env b)
  | .subFloor0 a b => some (max 0 (env a - env b))
  | .smaller a b => some (min (env a) (env b))
  | .larger a b => some (max (env a) (env b))
  | .cond c a b t e => if c.holds (env a) (env b) then t.evalI env else e.evalI env
  | _ => none

/-- the exact rational result of every instruction -/
def Instr.evalQ (env : String → Int) : Instr → Rat
  | .blank => 0
  | .carry a => env a
  | .add ls => sumOf env ls
  | .addFloor0 ls => max 0 (sumOf env ls)
  | .addCap0 ls => min 0 (sumOf env ls)
  | .sub a b => env a - env b
  | .subFloor0 a b => max 0 (env a - env b)
  | .smaller a b => min (env a) (env b)
  | .larger a b => max (env a) (env b)
  | .mulRate a n d => (env a : Rat) * n / d
  | .mulRateFloor0 a n d => max 0 ((env a : Rat) * n / d)
  | .mulRateCap a n d c => min ((env a : Rat) * n / d) (env c)
  | .mul a b => (env a : Rat) * env b
  | .ratioCap1 a b => min 1 ((env a : Rat) / env b)
  | .cond c a b t e => if c.holds (env a) (env b) then t.evalQ env else e.evalQ env

/-! ## The arithmetic fragment of line bodies -/

inductive AExpr where
  | read (n : String)
  | lit (x : F64)
  /-- Python `None` (a blank line) -/
  | none
  /-- `self.not_implemented()` -/
  | notImpl
  | add (a b : AExpr)
  | sub (a b : AExpr)
  | mul (a b : AExpr)
  | max (a b : AExpr)
  | min (a b : AExpr)
  /-- `sum([v[n] for n in ns])` with statically known names -/
  | sum (ns : List String)
  /-- `t if a <op> b else e` -/
  | iteCmp (op : Cmp) (a b t e : AExpr)
  /-- `t if <condition that is not interpreted> else e` -/
  | guard (t e : AExpr)
deriving Repr, Inhabited

/-- an integer constant expression (`5 + 1`) -/
def intConst : Expr → Option Int
  | .const (.int i) => some i
  | .bin .add a b => match intConst a, intConst b with
    | some x, some y => some (x + y)
    | _, _ => Option.none
  | .bin .sub a b => match intConst a, intConst b with
    | some x, some y => some (x - y)
    | _, _ => Option.none
  | _ => Option.none

def rangeStrs (a b : Int) : List String :=
  (List.range (b - a).toNat).map fun (k : Nat) => Val.intToStr (a + (k : Int))

/-- the items of a constant iterable, as the strings an f-string makes of them:
`"abc"`, `range(a, b)`, `range(b)`, `list(…)`, `… + …` -/
def staticItems : Expr → Option (List String)
  | .const (.str s) => some (s.toList.map fun c => String.singleton c)
  | .call .range [b] => (intConst b).map fun n => rangeStrs 0 n
  | .call .range [a, b] => match intConst a, intConst b with
    | some m, some n => some (rangeStrs m n)
    | _, _ => Option.none
  | .call .list [e] => staticItems e
  | .bin .add a b => match staticItems a, staticItems b with
    | some xs, some ys => some (xs ++ ys)
    | _, _ => Option.none
  | _ => Option.none

/-- the name an f-string over constants and the loop variable `x` produces for the item `it` -/
def namePart (x : String) (it : String) : Expr → Option String
  | .const (.str s) => some s
  | .var y => if y == x then some it else Option.none
  | _ => Option.none

def nameParts (x : String) (it : String) : List Expr → Option String
  | [] => some ""
  | p :: ps => match namePart x it p, nameParts x it ps with
    | some a, some b => some (a ++ b)
    | _, _ => Option.none

/-- `v[f"…{x}…"]` for the item `it`: the line name -/
def staticName (x : String) (it : String) : Expr → Option String
  | .readV (.fstr parts) => nameParts x it parts
  | _ => Option.none

def staticNames (elt : Expr) (x : String) : List String → Option (List String)
  | [] => some []
  | it :: its => match staticName x it elt, staticNames elt x its with
    | some n, some ns => some (n :: ns)
    | _, _ => Option.none

def cmpOfOp : CmpOp → Option Cmp
  | .lt => some .lt | .le => some .le | .gt => some .gt | .ge => some .ge
  | _ => Option.none

/-- the arithmetic reading of an expression (`none`: outside the fragment) -/
def toArith : Expr → Option AExpr
  | .readV (.const (.str n)) => some (.read n)
  | .const (.float x) => some (.lit x)
  | .const .none => some .none
  | .notImpl [] => some .notImpl
  | .bin .add a b => match toArith a, toArith b with
    | some x, some y => some (.add x y)
    | _, _ => Option.none
  | .bin .sub a b => match toArith a, toArith b with
    | some x, some y => some (.sub x y)
    | _, _ => Option.none
  | .bin .mul a b => match toArith a, toArith b with
    | some x, some y => some (.mul x y)
    | _, _ => Option.none
  | .call .max [a, b] => match toArith a, toArith b with
    | some x, some y => some (.max x y)
    | _, _ => Option.none
  | .call .min [a, b] => match toArith a, toArith b with
    | some x, some y => some (.min x y)
    | _, _ => Option.none
  | .call .sum [.listComp elt [x] iter []] =>
    match staticItems iter with
    | some its => (staticNames elt x its).map AExpr.sum
    | Option.none => Option.none
  | .ite (.cmp a [op] [b]) t e =>
    match toArith t, toArith e with
    | some t', some e' =>
      (match cmpOfOp op, toArith a, toArith b with
       | some c, some a', some b' => some (.iteCmp c a' b' t' e')
       | _, _, _ => some (.guard t' e'))
    | _, _ => Option.none
  | .ite _ t e => match toArith t, toArith e with
    | some t', some e' => some (.guard t' e')
    | _, _ => Option.none
  | _ => Option.none

/-! ## Canonical shapes of code -/

/-- what a line's code computes, in the vocabulary of `Instr` (rates are the literal doubles of the code) -/
inductive Shape where
  | blank
  /-- `self.not_implemented()`: the line has no value on this branch -/
  | decline
  | carry (a : String)
  | add (ls : List String)
  | addFloor0 (ls : List String)
  | addCap0 (ls : List String)
  | sub (a b : String)
  | subFloor0 (a b : String)
  | smaller (a b : String)
  | larger (a b : String)
  | mulRate (a : String) (r : F64)
  | mulRateFloor0 (a : String) (r : F64)
  | mulRateCap (a : String) (r : F64) (cap : String)
  | mul (a b : String)
  /-- `t if a > b else e` (every comparison is brought into this form) -/
  | condGt (a b : String) (t e : Shape)
  /-- `t if <uninterpreted> else None` -/
  | guarded (t : Shape)
  /-- `t if <uninterpreted> else e`, both branches with a value -/
  | either (t e : Shape)
deriving Repr, Inhabited

/-- the operands of a sum written with `+` (any nesting) and `sum([...])` -/
def terms : AExpr → Option (List String)
  | .read n => some [n]
  | .sum ns => some ns
  | .add a b => match terms a, terms b with
    | some xs, some ys => some (xs ++ ys)
    | _, _ => Option.none
  | _ => Option.none

def isZeroLit : AExpr → Bool
  | .lit x => x == F64.zero || x == F64.negZero
  | _ => false

/-- `line * rate` in either order -/
def rateProduct : AExpr → Option (String × F64)
  | .mul (.read a) (.lit r) => some (a, r)
  | .mul (.lit r) (.read a) => some (a, r)
  | _ => Option.none

/-- shape of an expression that is not a conditional -/
def inferFlat (e : AExpr) : Option Shape :=
  match e with
  | .none => some .blank
  | .notImpl => some .decline
  | .read a => some (.carry a)
  | .sub (.read a) (.read b) => some (.sub a b)
  | .mul (.read a) (.read b) => some (.mul a b)
  | .min (.read a) (.read b) => some (.smaller a b)
  | .max (.read a) (.read b) => some (.larger a b)
  | .max x y =>
    -- a floor at zero, the zero on either side
    let body := if isZeroLit x then some y else if isZeroLit y then some x else Option.none
    (match body with
     | some (.sub (.read a) (.read b)) => some (.subFloor0 a b)
     | some b =>
       (match rateProduct b with
        | some (a, r) => some (.mulRateFloor0 a r)
        | Option.none => (terms b).map Shape.addFloor0)
     | Option.none => Option.none)
  | .min x y =>
    let zbody := if isZeroLit x then some y else if isZeroLit y then some x else Option.none
    (match zbody with
     | some b => (terms b).map Shape.addCap0
     | Option.none =>
       -- `min(cap, line * rate)` in either order
       (match x, rateProduct y with
        | .read c, some (a, r) => some (.mulRateCap a r c)
        | _, _ =>
          match rateProduct x, y with
          | some (a, r), .read c => some (.mulRateCap a r c)
          | _, _ => Option.none))
  | e =>
    match rateProduct e with
    | some (a, r) => some (.mulRate a r)
    | Option.none => if isZeroLit e then some .blank else (terms e).map Shape.add

/-- bring `t if a <op> b else e` into the form `t' if x > y else e'` -/
def mkCond (op : Cmp) (a b : String) (t e : Shape) : Shape :=
  match op with
  | .gt => .condGt a b t e
  | .lt => .condGt b a t e
  | .le => .condGt a b e t
  | .ge => .condGt b a e t

def infer : AExpr → Option Shape
  | .iteCmp op (.read a) (.read b) t e =>
    (match infer t, infer e with
     | some t', some e' => some (mkCond op a b t' e')
     | _, _ => Option.none)
  | .iteCmp _ _ _ _ _ => Option.none
  | .guard t e =>
    (match infer t, infer e with
     | some .decline, some e' => some e'
     | some t', some .decline => some t'
     | some t', some .blank => some (.guarded t')
     | some t', some e' => some (.either t' e')
     | _, _ => Option.none)
  | e => inferFlat e

/-! ## Agreement of a shape with an instruction -/

def samePerm (xs ys : List String) : Bool := xs.isPerm ys

def samePair (a b c d : String) : Bool := (a == c && b == d) || (a == d && b == c)

/-- the double of the code is the correctly rounded value of the rate of the form -/
def rateIs (r : F64) (num den : Nat) : Bool :=
  den != 0 && r == F64.ofScaled false (num * F64.one) den

def isBlankOrDecline : Shape → Bool
  | .blank => true
  | .decline => true
  | _ => false

def isDecline : Shape → Bool
  | .decline => true
  | _ => false

/-- instructions that say "a - b, but not less than zero": `subFloor0 a b` itself and
"If line a is more than line b, subtract line b from line a" (otherwise blank), in every orientation -/
def Instr.asFloor : Instr → Option (String × String)
  | .subFloor0 a b => some (a, b)
  | .cond c x y (.sub a b) .blank =>
    (match c with
     | .gt => if x == a && y == b then some (a, b) else Option.none
     | .ge => if x == a && y == b then some (a, b) else Option.none
     | .lt => if x == b && y == a then some (a, b) else Option.none
     | .le => if x == b && y == a then some (a, b) else Option.none)
  | _ => Option.none

def isFloorOf (i : Instr) (a b : String) : Bool :=
  match i.asFloor with
  | some (c, d) => a == c && b == d
  | Option.none => false

/-- `s` (code) agrees with `i` (form).  A `decline` agrees with everything.  `t if x > y else e` agrees
* with a floor instruction (`Instr.asFloor`) in the two ways of writing a floor with a comparison;
* with a conditional instruction branch by branch, the comparison oriented accordingly;
* with any instruction when one branch declines and the other one agrees. -/
def Shape.agrees : Shape → Instr → Bool
  | .decline, _ => true
  -- a guarded line is "what the form says, or blank": the form's own "otherwise leave blank" is covered by the guard
  | .guarded t, .cond c a b ti .blank => t.agrees ti || t.agrees (.cond c a b ti .blank)
  | .guarded t, i => t.agrees i
  -- both branches have a value: the first one is what the form says, the other one either too, or -- for
  -- "Subtract line b from line a" -- what the form says when line b is blank (`v[a] - v[b] if … else v[a]`)
  | .either t e, i =>
    t.agrees i && (e.agrees i || (match i with
      | .sub a _ => e.agrees (.carry a)
      | _ => false))
  | .blank, .blank => true
  | .carry a, .carry b => a == b
  | .add xs, .add ys => samePerm xs ys
  | .add [x], .carry a => x == a
  | .addFloor0 xs, .addFloor0 ys => samePerm xs ys
  | .addCap0 xs, .addCap0 ys => samePerm xs ys
  | .sub a b, .sub c d => a == c && b == d
  | .subFloor0 a b, i => isFloorOf i a b
  | .smaller a b, .smaller c d => samePair a b c d
  | .larger a b, .larger c d => samePair a b c d
  | .mulRate a r, .mulRate b n d => a == b && rateIs r n d
  | .mulRateFloor0 a r, .mulRateFloor0 b n d => a == b && rateIs r n d
  | .mulRateCap a r c, .mulRateCap b n d c' => a == b && c == c' && rateIs r n d
  | .mul a b, .mul c d => samePair a b c d
  | .condGt x y t e, i =>
    -- (1) a floor written with a comparison: `0.0 if b > a else a - b`, `a - b if a > b else 0.0`
    (match i.asFloor with
     | some (a, b) =>
       (x == b && y == a && isBlankOrDecline t && e.agrees (.sub a b)) ||
       (x == a && y == b && t.agrees (.sub a b) && isBlankOrDecline e)
     | Option.none => false) ||
    -- (2) a conditional instruction, branch by branch
    (match i with
     | .cond c a b ti ei =>
       (match c with
        | .gt => x == a && y == b && t.agrees ti && e.agrees ei
        | .lt => x == b && y == a && t.agrees ti && e.agrees ei
        | .le => x == a && y == b && t.agrees ei && e.agrees ti
        | .ge => x == b && y == a && t.agrees ei && e.agrees ti)
     | _ => false) ||
    -- (3) the line has a value on one branch only
    (isDecline t && e.agrees i) || (isDecline e && t.agrees i)
  | _, _ => false

/-- does the agreement go through a guard (`… else None` under an uninterpreted condition)? -/
def Shape.isGuarded : Shape → Bool
  | .guarded _ => true
  | .either _ _ => true
  | _ => false

/-! ## Lines -/

/-- the shape of a line: only single-`return` bodies of `FloatField`s are read -/
def lineShape (d : LineDecl) : Option Shape :=
  match d.kind, d.body with
  | .float _, [.ret e] => (toArith e).bind infer
  | _, _ => Option.none

/-- the line's code is in the arithmetic fragment and has a canonical shape -/
def covered (d : LineDecl) : Bool := (lineShape d).isSome

/-- a line of class `c` whose code never yields anything but a blank (`None`, or it declines) -/
def alwaysBlank (c : ClassDecl) (n : String) : Bool :=
  match c.lines.find? (fun d => d.name == n) with
  | some d => (match lineShape d with
    | some .blank => true
    | _ => false)
  | Option.none => false

def dropBlankNames (c : ClassDecl) (ls : List String) : List String :=
  ls.filter fun n => !alwaysBlank c n

/-- forget the operands of sums that are always blank in this class -/
def Shape.dropBlank (c : ClassDecl) : Shape → Shape
  | .add ls => .add (dropBlankNames c ls)
  | .addFloor0 ls => .addFloor0 (dropBlankNames c ls)
  | .addCap0 ls => .addCap0 (dropBlankNames c ls)
  | .condGt a b t e => .condGt a b (t.dropBlank c) (e.dropBlank c)
  | .guarded t => .guarded (t.dropBlank c)
  | .either t e => .either (t.dropBlank c) (e.dropBlank c)
  | s => s

def Instr.dropBlank (c : ClassDecl) : Instr → Instr
  | .add ls => .add (dropBlankNames c ls)
  | .addFloor0 ls => .addFloor0 (dropBlankNames c ls)
  | .addCap0 ls => .addCap0 (dropBlankNames c ls)
  | .cond k a b t e => .cond k a b (t.dropBlank c) (e.dropBlank c)
  | i => i

/-- the obligation **modulo always-blank operands**: code and form may differ in operands of a sum that are lines of
the same form whose own code can only produce a blank (e.g. Form 1040 line 1i, "not implemented, or blank").  On stores
in which those lines hold what their code produces (C03) the two sums are equal. -/
def matchesInstrModBlank (c : ClassDecl) (d : LineDecl) (i : Instr) : Bool :=
  match lineShape d with
  | some s => (s.dropBlank c).agrees (i.dropBlank c)
  | Option.none => false

/-- **the C02 obligation of one line**: the code has a canonical shape and that shape agrees with the instruction -/
def matchesInstr (d : LineDecl) (i : Instr) : Bool :=
  match lineShape d with
  | some s => s.agrees i
  | Option.none => false

/-! ## The fragment with a proved semantics (`Proofs/InstrSound.lean`)

`certified d i` is a second, narrower check: the body is a single `return` of an expression built from reads of lines,
float literals, `+`, `-`, two-argument `max`/`min`, `None` and comparisons of two lines choosing between such results
(no guards, no declines, no `sum([...])`, no rates), the line is a `FloatField` with two places, and the expression is
one of the exact encodings of the instruction listed in `certifies`.  For these lines `line_matches_instruction`
(`Proofs/InstrSound.lean`) derives, through `Dsl.evalLine` and the cents bridge, that the stored value is the double
of exactly the number of cents the instruction asks for. -/

def Cmp.toOrd : Cmp → Val.OrdOp
  | .lt => .lt | .le => .le | .gt => .gt | .ge => .ge

/-- `x <op> y` on doubles as the evaluator computes it (`Val.ordCmp` on two floats; nan compares false) -/
def cmpF (op : Cmp) (x y : F64) : Bool :=
  match Val.cmpNum (.f x) (.f y) with
  | some o => op.toOrd.holds o
  | Option.none => false

/-- Python `max(x, y)` on two doubles as the evaluator computes it (`Val.extremum`) -/
def dslMax (x y : F64) : F64 := if cmpF .gt y x then y else x
def dslMin (x y : F64) : F64 := if cmpF .lt y x then y else x

/-- arithmetic on values only -/
def AExpr.isValue : AExpr → Bool
  | .read _ => true
  | .lit _ => true
  | .add a b => a.isValue && b.isValue
  | .sub a b => a.isValue && b.isValue
  | .mul a b => a.isValue && b.isValue
  | .max a b => a.isValue && b.isValue
  | .min a b => a.isValue && b.isValue
  | _ => false

/-- what may stand in result position: a value, `None`, or a comparison of two values choosing between results -/
def AExpr.isResult : AExpr → Bool
  | .none => true
  | .iteCmp _ a b t e => a.isValue && b.isValue && t.isResult && e.isResult
  | a => a.isValue

/-- the double the expression evaluates to on a store of doubles; `None` in result position counts as `0.0`, which is
what the typed-field wrapper makes of it -/
def evalA (σ : String → F64) : AExpr → F64
  | .read n => σ n
  | .lit x => x
  | .add a b => F64.add (evalA σ a) (evalA σ b)
  | .sub a b => F64.sub (evalA σ a) (evalA σ b)
  | .mul a b => F64.mul (evalA σ a) (evalA σ b)
  | .max a b => dslMax (evalA σ a) (evalA σ b)
  | .min a b => dslMin (evalA σ a) (evalA σ b)
  | .iteCmp op a b t e => if cmpF op (evalA σ a) (evalA σ b) then evalA σ t else evalA σ e
  | _ => F64.zero

/-- the line names an expression reads -/
def AExpr.reads : AExpr → List String
  | .read n => [n]
  | .add a b => a.reads ++ b.reads
  | .sub a b => a.reads ++ b.reads
  | .mul a b => a.reads ++ b.reads
  | .max a b => a.reads ++ b.reads
  | .min a b => a.reads ++ b.reads
  | .iteCmp _ a b t e => a.reads ++ b.reads ++ t.reads ++ e.reads
  | .guard t e => t.reads ++ e.reads
  | .sum ns => ns
  | _ => []

/-- `((r₀ + r₁) + r₂) + …`: the names, in order -/
def chainNames : AExpr → Option (List String)
  | .read n => some [n]
  | .add a (.read n) => (match chainNames a with
    | some ns => some (ns ++ [n])
    | Option.none => Option.none)
  | _ => Option.none

/-- a left-nested sum of at most 20 reads whose names are the instruction's operands in some order -/
def chainIs (b : AExpr) (ls : List String) : Bool :=
  match chainNames b with
  | some ns => decide (ns.length ≤ 20) && ns.isPerm ls
  | Option.none => false

def isZeroA : AExpr → Bool
  | .lit x => x == F64.zero
  | _ => false

/-- `None` or `0.0` -/
def isBlankA : AExpr → Bool
  | .none => true
  | a => isZeroA a

def floorBody (x y : AExpr) : Option AExpr :=
  if isZeroA x then some y else if isZeroA y then some x else Option.none

def isSubOf (a : AExpr) (p q : String) : Bool :=
  match a with
  | .sub (.read u) (.read v) => u == p && v == q
  | _ => false

def certifiesFlat (a : AExpr) (i : Instr) : Bool :=
  match i with
  | .blank => isBlankA a
  | .carry p => (match a with
    | .read x => x == p
    | _ => false)
  | .sub p q => isSubOf a p q
  | .smaller p q => (match a with
    | .min (.read x) (.read y) => samePair x y p q
    | _ => false)
  | .larger p q => (match a with
    | .max (.read x) (.read y) => samePair x y p q
    | _ => false)
  | .subFloor0 p q => (match a with
    | .max x y => (match floorBody x y with
      | some b => isSubOf b p q
      | Option.none => false)
    | _ => false)
  | .addFloor0 ls => (match a with
    | .max x y => (match floorBody x y with
      | some b => chainIs b ls
      | Option.none => false)
    | _ => false)
  | .addCap0 ls => (match a with
    | .min x y => (match floorBody x y with
      | some b => chainIs b ls
      | Option.none => false)
    | _ => false)
  | .add ls => chainIs a ls
  | _ => false

def Cmp.flip : Cmp → Cmp
  | .lt => .gt | .gt => .lt | .le => .ge | .ge => .le
def Cmp.neg : Cmp → Cmp
  | .lt => .ge | .ge => .lt | .gt => .le | .le => .gt
def Cmp.isGreater : Cmp → Bool
  | .gt => true | .ge => true | _ => false

/-- the code's test `x op y` is the form's test `p c q` -/
def sameTest (op : Cmp) (x y : String) (c : Cmp) (p q : String) : Bool :=
  (op == c && x == p && y == q) || (op == c.flip && x == q && y == p)

/-- the code's test `x op y` decides "p above q" (`p > q` or `p ≥ q`) -/
def testsAbove (op : Cmp) (x y p q : String) : Bool :=
  (op.isGreater && x == p && y == q) || (!op.isGreater && x == q && y == p)

def certifies : AExpr → Instr → Bool
  | .iteCmp op (.read x) (.read y) t e, i =>
    -- a conditional instruction: same test, or the negated test with the branches exchanged
    (match i with
     | .cond c p q ti ei =>
       (sameTest op x y c p q && certifies t ti && certifies e ei) ||
       (sameTest op x y c.neg p q && certifies t ei && certifies e ti)
     | _ => false) ||
    -- a floor at zero written with a comparison: `a - b if a > b else 0.0`, `0.0 if b > a else a - b` (also `≥`, `<`, `≤`)
    (match i.asFloor with
     | some (p, q) =>
       (testsAbove op x y p q && isSubOf t p q && isBlankA e) ||
       (testsAbove op x y q p && isBlankA t && isSubOf e p q)
     | Option.none => false)
  | a, i => certifiesFlat a i

/-- the narrow check of one line (see the section header) -/
def certified (d : LineDecl) (i : Instr) : Bool :=
  match d.kind, d.body with
  | .float 2, [.ret e] =>
    (match toArith e with
     | some a => a.isResult && certifies a i
     | Option.none => false)
  | _, _ => false

end HabuVerif.Spec
