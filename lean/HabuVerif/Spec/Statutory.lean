/-!
# C08 oracle: the published, year- and status-indexed statutory amounts

Lean mirror of `tools/c08_statutory.json` (rendered by `tools/gen_c08.py --write-spec`, then COMMITTED: it is
not regenerated from the habutax tree and no number in it was read from the code).  `amount y s a` is the
published value of amount `a` for tax year `y` and filing status `s` as an exact rational (dollars; rates as
fractions), `none` when the table has no confident entry (such triples are reported as not covered).
`qss` is "Qualifying widow(er)" for 2021 and "Qualifying surviving spouse" from 2022.  Sources per entry:
`citation`.  Amounts the author of the table could not state with confidence are listed in `unverified`
(no value is recorded for them).  Core only.
-/
set_option autoImplicit false
set_option maxRecDepth 100000

namespace HabuVerif.Spec.Statutory

inductive Status where
  | single | mfj | mfs | hoh | qss
deriving DecidableEq, Repr, Inhabited

/-- amount identifiers (the JSON ids in camel case) -/
inductive Amt where
  /-- Standard deduction (no age/blindness additions, not a dependent) -/
  | stdDeduction
  /-- Cash charitable contributions deductible by non-itemizers (2021 only) -/
  | charitableStdDedLimit
  /-- Maximum zero rate amount (Qualified Dividends and Capital Gain Tax Worksheet line 6) -/
  | capgain0Max
  /-- Maximum 15-percent rate amount (worksheet line 13) -/
  | capgain15Max
  /-- 15% capital gain rate -/
  | capgainRate15
  /-- 20% capital gain rate -/
  | capgainRate20
  /-- AMT exemption amount (6251 worksheet line 6) -/
  | amtExemption
  /-- AMT exemption phase-out threshold (6251 worksheet line 8) -/
  | amtPhaseoutStart
  /-- AMT taxable excess above which the 28% rate applies (6251 worksheet line 12 question) -/
  | amt28pctThreshold
  /-- AMT exemption phase-out rate -/
  | amtPhaseoutRate
  /-- AMT 26% rate -/
  | amtRate26
  /-- Child tax credit per qualifying child (Schedule 8812 line 5; 2021: base amount of the line 5 worksheet line 4) -/
  | ctcPerChild
  /-- 2021 child tax credit, child under 6 -/
  | ctc2021Under6
  /-- 2021 child tax credit, child 6 to 17 -/
  | ctc20216to17
  /-- 2021 Line 5 Worksheet line 6 amount -/
  | ctc2021WsLine6
  /-- 2021 increased-credit phase-out threshold (Line 5 Worksheet line 8) -/
  | ctc2021FirstPhaseoutStart
  /-- 2021 Schedule 8812 line 33 amount -/
  | ctc2021RepaymentProtectionAgi
  /-- 2021 Schedule 8812 line 37 multiplier -/
  | ctc2021SafeHarborPerChild
  /-- Credit for other dependents -/
  | odcPerDependent
  /-- Child tax credit phase-out threshold (Schedule 8812 line 9) -/
  | ctcPhaseoutStart
  /-- Phase-out rounding unit (next multiple of $1,000) -/
  | ctcPhaseoutStep
  /-- Phase-out rate 5% -/
  | ctcPhaseoutRate
  /-- Maximum additional child tax credit per child (Schedule 8812 line 16b) -/
  | actcMaxPerChild
  /-- Schedule 8812 line 20 question amount (3 x line 16b multiplier) -/
  | actcLine20Comparison
  /-- Additional Medicare Tax threshold (Form 8959 lines 5, 9, 15) -/
  | addlMedicareThreshold
  /-- Wages above which an employer must withhold Additional Medicare Tax -/
  | addlMedicareWithholdingThreshold
  /-- Additional Medicare Tax rate 0.9% -/
  | addlMedicareRate
  /-- Regular Medicare tax rate 1.45% -/
  | medicareRate
  /-- HSA contribution limit, self-only coverage (Form 8889 line 3) -/
  | hsaLimitSelf
  /-- HSA contribution limit, family coverage (Form 8889 line 3) -/
  | hsaLimitFamily
  /-- HSA additional contribution, age 55 or older -/
  | hsaCatchUp
  /-- State and local tax deduction limit (Schedule A line 5e) -/
  | saltCap
  /-- Medical expense floor 7.5% of AGI -/
  | medicalFloorRate
  /-- AGI above which the mortgage insurance premium deduction is limited (2021 Schedule A line 8d) -/
  | mortgageInsuranceAgiLimit
  /-- Noncash gifts above which Form 8283 is required -/
  | noncashGift8283Threshold
  /-- Taxable income threshold for Form 8995 (simplified QBI computation) -/
  | qbiThreshold
  /-- QBI deduction rate 20% -/
  | qbiRate
  /-- EIC: AGI must be less than this amount, 0 qualifying child(ren) -/
  | eicAgiLimit0
  /-- EIC: AGI must be less than this amount, 1 qualifying child(ren) -/
  | eicAgiLimit1
  /-- EIC: AGI must be less than this amount, 2 qualifying child(ren) -/
  | eicAgiLimit2
  /-- EIC: AGI must be less than this amount, 3+ qualifying child(ren) -/
  | eicAgiLimit3
  /-- EIC: investment income limit -/
  | eicInvestmentIncomeLimit
  /-- 2021 recovery rebate credit per person -/
  | rrcAmount
  /-- AGI at which the 2021 recovery rebate credit starts to phase out (worksheet line 9 question) -/
  | rrcAgiStart
  /-- AGI at which the 2021 recovery rebate credit is fully phased out (worksheet line 10) -/
  | rrcAgiEnd
  /-- 2021 recovery rebate worksheet line 11 divisor -/
  | rrcDivisor
  /-- Taxable interest / ordinary dividends above which Schedule B is required -/
  | scheduleBThreshold
  /-- Foreign taxes up to which Form 1116 may be skipped (Schedule 3 line 1) -/
  | form1116ForeignTaxLimit
  /-- AGI above which the retirement savings contributions credit is not allowed (Schedule 3 line 4) -/
  | saverCreditAgiLimit
  /-- Educator expense deduction limit per educator (Schedule 1 line 11) -/
  | educatorExpenseLimit
  /-- Amount owed at or above which an underpayment penalty may apply (Form 1040 line 38) -/
  | estTaxPenaltyMinDue
  /-- Share of the tax shown above which an underpayment penalty may apply -/
  | estTaxPenaltyPct
  /-- North Carolina individual income tax rate (D-400 line 15) -/
  | ncTaxRate
  /-- North Carolina standard deduction -/
  | ncStdDeduction
  /-- NC child deduction table: upper AGI bound of bracket 1 -/
  | ncChildAgiLimit1
  /-- NC child deduction table: deduction per child in bracket 1 -/
  | ncChildAmount1
  /-- NC child deduction table: upper AGI bound of bracket 2 -/
  | ncChildAgiLimit2
  /-- NC child deduction table: deduction per child in bracket 2 -/
  | ncChildAmount2
  /-- NC child deduction table: upper AGI bound of bracket 3 -/
  | ncChildAgiLimit3
  /-- NC child deduction table: deduction per child in bracket 3 -/
  | ncChildAmount3
  /-- NC child deduction table: upper AGI bound of bracket 4 -/
  | ncChildAgiLimit4
  /-- NC child deduction table: deduction per child in bracket 4 -/
  | ncChildAmount4
  /-- NC child deduction table: upper AGI bound of bracket 5 -/
  | ncChildAgiLimit5
  /-- NC child deduction table: deduction per child in bracket 5 -/
  | ncChildAmount5
  /-- NC child deduction table: upper AGI bound of bracket 6 -/
  | ncChildAgiLimit6
  /-- NC child deduction table: deduction per child in bracket 6 -/
  | ncChildAmount6
  /-- NC cap on home mortgage interest plus real estate taxes (D-400 Schedule A line 4) -/
  | ncMortgagePropertyTaxCap
  /-- NC tax due at or above which interest on the underpayment of estimated tax applies (D-400 line 26e) -/
  | ncUnderpaymentMinDue
deriving DecidableEq, Repr, Inhabited

/-- the exact decimal `mant · 10^(-places)` -/
def dec (mant : Int) (places : Nat) : Rat := mkRat mant (10 ^ places)

structure Row where
  year : Nat
  /-- `none`: the amount does not depend on the filing status -/
  status : Option Status
  amt : Amt
  value : Rat

def rows : List Row := [
  ⟨2021, some .single, .stdDeduction, dec 12550 0⟩,
  ⟨2021, some .mfj, .stdDeduction, dec 25100 0⟩,
  ⟨2021, some .mfs, .stdDeduction, dec 12550 0⟩,
  ⟨2021, some .hoh, .stdDeduction, dec 18800 0⟩,
  ⟨2021, some .qss, .stdDeduction, dec 25100 0⟩,
  ⟨2022, some .single, .stdDeduction, dec 12950 0⟩,
  ⟨2022, some .mfj, .stdDeduction, dec 25900 0⟩,
  ⟨2022, some .mfs, .stdDeduction, dec 12950 0⟩,
  ⟨2022, some .hoh, .stdDeduction, dec 19400 0⟩,
  ⟨2022, some .qss, .stdDeduction, dec 25900 0⟩,
  ⟨2023, some .single, .stdDeduction, dec 13850 0⟩,
  ⟨2023, some .mfj, .stdDeduction, dec 27700 0⟩,
  ⟨2023, some .mfs, .stdDeduction, dec 13850 0⟩,
  ⟨2023, some .hoh, .stdDeduction, dec 20800 0⟩,
  ⟨2023, some .qss, .stdDeduction, dec 27700 0⟩,
  ⟨2021, some .single, .charitableStdDedLimit, dec 300 0⟩,
  ⟨2021, some .mfj, .charitableStdDedLimit, dec 600 0⟩,
  ⟨2021, some .mfs, .charitableStdDedLimit, dec 300 0⟩,
  ⟨2021, some .hoh, .charitableStdDedLimit, dec 300 0⟩,
  ⟨2021, some .qss, .charitableStdDedLimit, dec 300 0⟩,
  ⟨2021, some .single, .capgain0Max, dec 40400 0⟩,
  ⟨2021, some .mfj, .capgain0Max, dec 80800 0⟩,
  ⟨2021, some .mfs, .capgain0Max, dec 40400 0⟩,
  ⟨2021, some .hoh, .capgain0Max, dec 54100 0⟩,
  ⟨2021, some .qss, .capgain0Max, dec 80800 0⟩,
  ⟨2022, some .single, .capgain0Max, dec 41675 0⟩,
  ⟨2022, some .mfj, .capgain0Max, dec 83350 0⟩,
  ⟨2022, some .mfs, .capgain0Max, dec 41675 0⟩,
  ⟨2022, some .hoh, .capgain0Max, dec 55800 0⟩,
  ⟨2022, some .qss, .capgain0Max, dec 83350 0⟩,
  ⟨2023, some .single, .capgain0Max, dec 44625 0⟩,
  ⟨2023, some .mfj, .capgain0Max, dec 89250 0⟩,
  ⟨2023, some .mfs, .capgain0Max, dec 44625 0⟩,
  ⟨2023, some .hoh, .capgain0Max, dec 59750 0⟩,
  ⟨2023, some .qss, .capgain0Max, dec 89250 0⟩,
  ⟨2021, some .single, .capgain15Max, dec 445850 0⟩,
  ⟨2021, some .mfj, .capgain15Max, dec 501600 0⟩,
  ⟨2021, some .mfs, .capgain15Max, dec 250800 0⟩,
  ⟨2021, some .hoh, .capgain15Max, dec 473750 0⟩,
  ⟨2021, some .qss, .capgain15Max, dec 501600 0⟩,
  ⟨2022, some .single, .capgain15Max, dec 459750 0⟩,
  ⟨2022, some .mfj, .capgain15Max, dec 517200 0⟩,
  ⟨2022, some .mfs, .capgain15Max, dec 258600 0⟩,
  ⟨2022, some .hoh, .capgain15Max, dec 488500 0⟩,
  ⟨2022, some .qss, .capgain15Max, dec 517200 0⟩,
  ⟨2023, some .single, .capgain15Max, dec 492300 0⟩,
  ⟨2023, some .mfj, .capgain15Max, dec 553850 0⟩,
  ⟨2023, some .mfs, .capgain15Max, dec 276900 0⟩,
  ⟨2023, some .hoh, .capgain15Max, dec 523050 0⟩,
  ⟨2023, some .qss, .capgain15Max, dec 553850 0⟩,
  ⟨2021, none, .capgainRate15, dec 15 2⟩,
  ⟨2022, none, .capgainRate15, dec 15 2⟩,
  ⟨2023, none, .capgainRate15, dec 15 2⟩,
  ⟨2021, none, .capgainRate20, dec 2 1⟩,
  ⟨2022, none, .capgainRate20, dec 2 1⟩,
  ⟨2023, none, .capgainRate20, dec 2 1⟩,
  ⟨2021, some .single, .amtExemption, dec 73600 0⟩,
  ⟨2021, some .mfj, .amtExemption, dec 114600 0⟩,
  ⟨2021, some .mfs, .amtExemption, dec 57300 0⟩,
  ⟨2021, some .hoh, .amtExemption, dec 73600 0⟩,
  ⟨2021, some .qss, .amtExemption, dec 114600 0⟩,
  ⟨2022, some .single, .amtExemption, dec 75900 0⟩,
  ⟨2022, some .mfj, .amtExemption, dec 118100 0⟩,
  ⟨2022, some .mfs, .amtExemption, dec 59050 0⟩,
  ⟨2022, some .hoh, .amtExemption, dec 75900 0⟩,
  ⟨2022, some .qss, .amtExemption, dec 118100 0⟩,
  ⟨2023, some .single, .amtExemption, dec 81300 0⟩,
  ⟨2023, some .mfj, .amtExemption, dec 126500 0⟩,
  ⟨2023, some .mfs, .amtExemption, dec 63250 0⟩,
  ⟨2023, some .hoh, .amtExemption, dec 81300 0⟩,
  ⟨2023, some .qss, .amtExemption, dec 126500 0⟩,
  ⟨2021, some .single, .amtPhaseoutStart, dec 523600 0⟩,
  ⟨2021, some .mfj, .amtPhaseoutStart, dec 1047200 0⟩,
  ⟨2021, some .mfs, .amtPhaseoutStart, dec 523600 0⟩,
  ⟨2021, some .hoh, .amtPhaseoutStart, dec 523600 0⟩,
  ⟨2021, some .qss, .amtPhaseoutStart, dec 1047200 0⟩,
  ⟨2022, some .single, .amtPhaseoutStart, dec 539900 0⟩,
  ⟨2022, some .mfj, .amtPhaseoutStart, dec 1079800 0⟩,
  ⟨2022, some .mfs, .amtPhaseoutStart, dec 539900 0⟩,
  ⟨2022, some .hoh, .amtPhaseoutStart, dec 539900 0⟩,
  ⟨2022, some .qss, .amtPhaseoutStart, dec 1079800 0⟩,
  ⟨2023, some .single, .amtPhaseoutStart, dec 578150 0⟩,
  ⟨2023, some .mfj, .amtPhaseoutStart, dec 1156300 0⟩,
  ⟨2023, some .mfs, .amtPhaseoutStart, dec 578150 0⟩,
  ⟨2023, some .hoh, .amtPhaseoutStart, dec 578150 0⟩,
  ⟨2023, some .qss, .amtPhaseoutStart, dec 1156300 0⟩,
  ⟨2021, some .single, .amt28pctThreshold, dec 199900 0⟩,
  ⟨2021, some .mfj, .amt28pctThreshold, dec 199900 0⟩,
  ⟨2021, some .mfs, .amt28pctThreshold, dec 99950 0⟩,
  ⟨2021, some .hoh, .amt28pctThreshold, dec 199900 0⟩,
  ⟨2021, some .qss, .amt28pctThreshold, dec 199900 0⟩,
  ⟨2022, some .single, .amt28pctThreshold, dec 206100 0⟩,
  ⟨2022, some .mfj, .amt28pctThreshold, dec 206100 0⟩,
  ⟨2022, some .mfs, .amt28pctThreshold, dec 103050 0⟩,
  ⟨2022, some .hoh, .amt28pctThreshold, dec 206100 0⟩,
  ⟨2022, some .qss, .amt28pctThreshold, dec 206100 0⟩,
  ⟨2023, some .single, .amt28pctThreshold, dec 220700 0⟩,
  ⟨2023, some .mfj, .amt28pctThreshold, dec 220700 0⟩,
  ⟨2023, some .mfs, .amt28pctThreshold, dec 110350 0⟩,
  ⟨2023, some .hoh, .amt28pctThreshold, dec 220700 0⟩,
  ⟨2023, some .qss, .amt28pctThreshold, dec 220700 0⟩,
  ⟨2021, none, .amtPhaseoutRate, dec 25 2⟩,
  ⟨2022, none, .amtPhaseoutRate, dec 25 2⟩,
  ⟨2023, none, .amtPhaseoutRate, dec 25 2⟩,
  ⟨2021, none, .amtRate26, dec 26 2⟩,
  ⟨2022, none, .amtRate26, dec 26 2⟩,
  ⟨2023, none, .amtRate26, dec 26 2⟩,
  ⟨2021, none, .ctcPerChild, dec 2000 0⟩,
  ⟨2022, none, .ctcPerChild, dec 2000 0⟩,
  ⟨2023, none, .ctcPerChild, dec 2000 0⟩,
  ⟨2021, none, .ctc2021Under6, dec 3600 0⟩,
  ⟨2021, none, .ctc20216to17, dec 3000 0⟩,
  ⟨2021, some .single, .ctc2021WsLine6, dec 6250 0⟩,
  ⟨2021, some .mfj, .ctc2021WsLine6, dec 12500 0⟩,
  ⟨2021, some .mfs, .ctc2021WsLine6, dec 6250 0⟩,
  ⟨2021, some .hoh, .ctc2021WsLine6, dec 4375 0⟩,
  ⟨2021, some .qss, .ctc2021WsLine6, dec 2500 0⟩,
  ⟨2021, some .single, .ctc2021FirstPhaseoutStart, dec 75000 0⟩,
  ⟨2021, some .mfj, .ctc2021FirstPhaseoutStart, dec 150000 0⟩,
  ⟨2021, some .mfs, .ctc2021FirstPhaseoutStart, dec 75000 0⟩,
  ⟨2021, some .hoh, .ctc2021FirstPhaseoutStart, dec 112500 0⟩,
  ⟨2021, some .qss, .ctc2021FirstPhaseoutStart, dec 150000 0⟩,
  ⟨2021, some .single, .ctc2021RepaymentProtectionAgi, dec 40000 0⟩,
  ⟨2021, some .mfj, .ctc2021RepaymentProtectionAgi, dec 60000 0⟩,
  ⟨2021, some .mfs, .ctc2021RepaymentProtectionAgi, dec 40000 0⟩,
  ⟨2021, some .hoh, .ctc2021RepaymentProtectionAgi, dec 50000 0⟩,
  ⟨2021, some .qss, .ctc2021RepaymentProtectionAgi, dec 60000 0⟩,
  ⟨2021, none, .ctc2021SafeHarborPerChild, dec 2000 0⟩,
  ⟨2021, none, .odcPerDependent, dec 500 0⟩,
  ⟨2022, none, .odcPerDependent, dec 500 0⟩,
  ⟨2023, none, .odcPerDependent, dec 500 0⟩,
  ⟨2021, some .single, .ctcPhaseoutStart, dec 200000 0⟩,
  ⟨2021, some .mfj, .ctcPhaseoutStart, dec 400000 0⟩,
  ⟨2021, some .mfs, .ctcPhaseoutStart, dec 200000 0⟩,
  ⟨2021, some .hoh, .ctcPhaseoutStart, dec 200000 0⟩,
  ⟨2021, some .qss, .ctcPhaseoutStart, dec 200000 0⟩,
  ⟨2022, some .single, .ctcPhaseoutStart, dec 200000 0⟩,
  ⟨2022, some .mfj, .ctcPhaseoutStart, dec 400000 0⟩,
  ⟨2022, some .mfs, .ctcPhaseoutStart, dec 200000 0⟩,
  ⟨2022, some .hoh, .ctcPhaseoutStart, dec 200000 0⟩,
  ⟨2022, some .qss, .ctcPhaseoutStart, dec 200000 0⟩,
  ⟨2023, some .single, .ctcPhaseoutStart, dec 200000 0⟩,
  ⟨2023, some .mfj, .ctcPhaseoutStart, dec 400000 0⟩,
  ⟨2023, some .mfs, .ctcPhaseoutStart, dec 200000 0⟩,
  ⟨2023, some .hoh, .ctcPhaseoutStart, dec 200000 0⟩,
  ⟨2023, some .qss, .ctcPhaseoutStart, dec 200000 0⟩,
  ⟨2021, none, .ctcPhaseoutStep, dec 1000 0⟩,
  ⟨2022, none, .ctcPhaseoutStep, dec 1000 0⟩,
  ⟨2023, none, .ctcPhaseoutStep, dec 1000 0⟩,
  ⟨2021, none, .ctcPhaseoutRate, dec 5 2⟩,
  ⟨2022, none, .ctcPhaseoutRate, dec 5 2⟩,
  ⟨2023, none, .ctcPhaseoutRate, dec 5 2⟩,
  ⟨2022, none, .actcMaxPerChild, dec 1500 0⟩,
  ⟨2023, none, .actcMaxPerChild, dec 1600 0⟩,
  ⟨2022, none, .actcLine20Comparison, dec 4500 0⟩,
  ⟨2023, none, .actcLine20Comparison, dec 4800 0⟩,
  ⟨2021, some .single, .addlMedicareThreshold, dec 200000 0⟩,
  ⟨2021, some .mfj, .addlMedicareThreshold, dec 250000 0⟩,
  ⟨2021, some .mfs, .addlMedicareThreshold, dec 125000 0⟩,
  ⟨2021, some .hoh, .addlMedicareThreshold, dec 200000 0⟩,
  ⟨2021, some .qss, .addlMedicareThreshold, dec 200000 0⟩,
  ⟨2022, some .single, .addlMedicareThreshold, dec 200000 0⟩,
  ⟨2022, some .mfj, .addlMedicareThreshold, dec 250000 0⟩,
  ⟨2022, some .mfs, .addlMedicareThreshold, dec 125000 0⟩,
  ⟨2022, some .hoh, .addlMedicareThreshold, dec 200000 0⟩,
  ⟨2022, some .qss, .addlMedicareThreshold, dec 200000 0⟩,
  ⟨2023, some .single, .addlMedicareThreshold, dec 200000 0⟩,
  ⟨2023, some .mfj, .addlMedicareThreshold, dec 250000 0⟩,
  ⟨2023, some .mfs, .addlMedicareThreshold, dec 125000 0⟩,
  ⟨2023, some .hoh, .addlMedicareThreshold, dec 200000 0⟩,
  ⟨2023, some .qss, .addlMedicareThreshold, dec 200000 0⟩,
  ⟨2021, none, .addlMedicareWithholdingThreshold, dec 200000 0⟩,
  ⟨2022, none, .addlMedicareWithholdingThreshold, dec 200000 0⟩,
  ⟨2023, none, .addlMedicareWithholdingThreshold, dec 200000 0⟩,
  ⟨2021, none, .addlMedicareRate, dec 9 3⟩,
  ⟨2022, none, .addlMedicareRate, dec 9 3⟩,
  ⟨2023, none, .addlMedicareRate, dec 9 3⟩,
  ⟨2021, none, .medicareRate, dec 145 4⟩,
  ⟨2022, none, .medicareRate, dec 145 4⟩,
  ⟨2023, none, .medicareRate, dec 145 4⟩,
  ⟨2021, none, .hsaLimitSelf, dec 3600 0⟩,
  ⟨2022, none, .hsaLimitSelf, dec 3650 0⟩,
  ⟨2023, none, .hsaLimitSelf, dec 3850 0⟩,
  ⟨2021, none, .hsaLimitFamily, dec 7200 0⟩,
  ⟨2022, none, .hsaLimitFamily, dec 7300 0⟩,
  ⟨2023, none, .hsaLimitFamily, dec 7750 0⟩,
  ⟨2021, none, .hsaCatchUp, dec 1000 0⟩,
  ⟨2022, none, .hsaCatchUp, dec 1000 0⟩,
  ⟨2023, none, .hsaCatchUp, dec 1000 0⟩,
  ⟨2021, some .single, .saltCap, dec 10000 0⟩,
  ⟨2021, some .mfj, .saltCap, dec 10000 0⟩,
  ⟨2021, some .mfs, .saltCap, dec 5000 0⟩,
  ⟨2021, some .hoh, .saltCap, dec 10000 0⟩,
  ⟨2021, some .qss, .saltCap, dec 10000 0⟩,
  ⟨2022, some .single, .saltCap, dec 10000 0⟩,
  ⟨2022, some .mfj, .saltCap, dec 10000 0⟩,
  ⟨2022, some .mfs, .saltCap, dec 5000 0⟩,
  ⟨2022, some .hoh, .saltCap, dec 10000 0⟩,
  ⟨2022, some .qss, .saltCap, dec 10000 0⟩,
  ⟨2023, some .single, .saltCap, dec 10000 0⟩,
  ⟨2023, some .mfj, .saltCap, dec 10000 0⟩,
  ⟨2023, some .mfs, .saltCap, dec 5000 0⟩,
  ⟨2023, some .hoh, .saltCap, dec 10000 0⟩,
  ⟨2023, some .qss, .saltCap, dec 10000 0⟩,
  ⟨2021, none, .medicalFloorRate, dec 75 3⟩,
  ⟨2022, none, .medicalFloorRate, dec 75 3⟩,
  ⟨2023, none, .medicalFloorRate, dec 75 3⟩,
  ⟨2021, some .single, .mortgageInsuranceAgiLimit, dec 100000 0⟩,
  ⟨2021, some .mfj, .mortgageInsuranceAgiLimit, dec 100000 0⟩,
  ⟨2021, some .mfs, .mortgageInsuranceAgiLimit, dec 50000 0⟩,
  ⟨2021, some .hoh, .mortgageInsuranceAgiLimit, dec 100000 0⟩,
  ⟨2021, some .qss, .mortgageInsuranceAgiLimit, dec 100000 0⟩,
  ⟨2021, none, .noncashGift8283Threshold, dec 500 0⟩,
  ⟨2022, none, .noncashGift8283Threshold, dec 500 0⟩,
  ⟨2023, none, .noncashGift8283Threshold, dec 500 0⟩,
  ⟨2021, some .single, .qbiThreshold, dec 164900 0⟩,
  ⟨2021, some .mfj, .qbiThreshold, dec 329800 0⟩,
  ⟨2021, some .mfs, .qbiThreshold, dec 164925 0⟩,
  ⟨2021, some .hoh, .qbiThreshold, dec 164900 0⟩,
  ⟨2021, some .qss, .qbiThreshold, dec 164900 0⟩,
  ⟨2022, some .single, .qbiThreshold, dec 170050 0⟩,
  ⟨2022, some .mfj, .qbiThreshold, dec 340100 0⟩,
  ⟨2022, some .mfs, .qbiThreshold, dec 170050 0⟩,
  ⟨2022, some .hoh, .qbiThreshold, dec 170050 0⟩,
  ⟨2022, some .qss, .qbiThreshold, dec 170050 0⟩,
  ⟨2023, some .single, .qbiThreshold, dec 182100 0⟩,
  ⟨2023, some .mfj, .qbiThreshold, dec 364200 0⟩,
  ⟨2023, some .mfs, .qbiThreshold, dec 182100 0⟩,
  ⟨2023, some .hoh, .qbiThreshold, dec 182100 0⟩,
  ⟨2023, some .qss, .qbiThreshold, dec 182100 0⟩,
  ⟨2021, none, .qbiRate, dec 2 1⟩,
  ⟨2022, none, .qbiRate, dec 2 1⟩,
  ⟨2023, none, .qbiRate, dec 2 1⟩,
  ⟨2021, some .single, .eicAgiLimit0, dec 21430 0⟩,
  ⟨2021, some .mfj, .eicAgiLimit0, dec 27380 0⟩,
  ⟨2021, some .mfs, .eicAgiLimit0, dec 21430 0⟩,
  ⟨2021, some .hoh, .eicAgiLimit0, dec 21430 0⟩,
  ⟨2021, some .qss, .eicAgiLimit0, dec 21430 0⟩,
  ⟨2022, some .single, .eicAgiLimit0, dec 16480 0⟩,
  ⟨2022, some .mfj, .eicAgiLimit0, dec 22610 0⟩,
  ⟨2022, some .mfs, .eicAgiLimit0, dec 16480 0⟩,
  ⟨2022, some .hoh, .eicAgiLimit0, dec 16480 0⟩,
  ⟨2022, some .qss, .eicAgiLimit0, dec 16480 0⟩,
  ⟨2023, some .single, .eicAgiLimit0, dec 17640 0⟩,
  ⟨2023, some .mfj, .eicAgiLimit0, dec 24210 0⟩,
  ⟨2023, some .mfs, .eicAgiLimit0, dec 17640 0⟩,
  ⟨2023, some .hoh, .eicAgiLimit0, dec 17640 0⟩,
  ⟨2023, some .qss, .eicAgiLimit0, dec 17640 0⟩,
  ⟨2021, some .single, .eicAgiLimit1, dec 42158 0⟩,
  ⟨2021, some .mfj, .eicAgiLimit1, dec 48108 0⟩,
  ⟨2021, some .mfs, .eicAgiLimit1, dec 42158 0⟩,
  ⟨2021, some .hoh, .eicAgiLimit1, dec 42158 0⟩,
  ⟨2021, some .qss, .eicAgiLimit1, dec 42158 0⟩,
  ⟨2022, some .single, .eicAgiLimit1, dec 43492 0⟩,
  ⟨2022, some .mfj, .eicAgiLimit1, dec 49622 0⟩,
  ⟨2022, some .mfs, .eicAgiLimit1, dec 43492 0⟩,
  ⟨2022, some .hoh, .eicAgiLimit1, dec 43492 0⟩,
  ⟨2022, some .qss, .eicAgiLimit1, dec 43492 0⟩,
  ⟨2023, some .single, .eicAgiLimit1, dec 46560 0⟩,
  ⟨2023, some .mfj, .eicAgiLimit1, dec 53120 0⟩,
  ⟨2023, some .mfs, .eicAgiLimit1, dec 46560 0⟩,
  ⟨2023, some .hoh, .eicAgiLimit1, dec 46560 0⟩,
  ⟨2023, some .qss, .eicAgiLimit1, dec 46560 0⟩,
  ⟨2021, some .single, .eicAgiLimit2, dec 47915 0⟩,
  ⟨2021, some .mfj, .eicAgiLimit2, dec 53865 0⟩,
  ⟨2021, some .mfs, .eicAgiLimit2, dec 47915 0⟩,
  ⟨2021, some .hoh, .eicAgiLimit2, dec 47915 0⟩,
  ⟨2021, some .qss, .eicAgiLimit2, dec 47915 0⟩,
  ⟨2022, some .single, .eicAgiLimit2, dec 49399 0⟩,
  ⟨2022, some .mfj, .eicAgiLimit2, dec 55529 0⟩,
  ⟨2022, some .mfs, .eicAgiLimit2, dec 49399 0⟩,
  ⟨2022, some .hoh, .eicAgiLimit2, dec 49399 0⟩,
  ⟨2022, some .qss, .eicAgiLimit2, dec 49399 0⟩,
  ⟨2023, some .single, .eicAgiLimit2, dec 52918 0⟩,
  ⟨2023, some .mfj, .eicAgiLimit2, dec 59478 0⟩,
  ⟨2023, some .mfs, .eicAgiLimit2, dec 52918 0⟩,
  ⟨2023, some .hoh, .eicAgiLimit2, dec 52918 0⟩,
  ⟨2023, some .qss, .eicAgiLimit2, dec 52918 0⟩,
  ⟨2021, some .single, .eicAgiLimit3, dec 51464 0⟩,
  ⟨2021, some .mfj, .eicAgiLimit3, dec 57414 0⟩,
  ⟨2021, some .mfs, .eicAgiLimit3, dec 51464 0⟩,
  ⟨2021, some .hoh, .eicAgiLimit3, dec 51464 0⟩,
  ⟨2021, some .qss, .eicAgiLimit3, dec 51464 0⟩,
  ⟨2022, some .single, .eicAgiLimit3, dec 53057 0⟩,
  ⟨2022, some .mfj, .eicAgiLimit3, dec 59187 0⟩,
  ⟨2022, some .mfs, .eicAgiLimit3, dec 53057 0⟩,
  ⟨2022, some .hoh, .eicAgiLimit3, dec 53057 0⟩,
  ⟨2022, some .qss, .eicAgiLimit3, dec 53057 0⟩,
  ⟨2023, some .single, .eicAgiLimit3, dec 56838 0⟩,
  ⟨2023, some .mfj, .eicAgiLimit3, dec 63398 0⟩,
  ⟨2023, some .mfs, .eicAgiLimit3, dec 56838 0⟩,
  ⟨2023, some .hoh, .eicAgiLimit3, dec 56838 0⟩,
  ⟨2023, some .qss, .eicAgiLimit3, dec 56838 0⟩,
  ⟨2021, none, .eicInvestmentIncomeLimit, dec 10000 0⟩,
  ⟨2022, none, .eicInvestmentIncomeLimit, dec 10300 0⟩,
  ⟨2023, none, .eicInvestmentIncomeLimit, dec 11000 0⟩,
  ⟨2021, none, .rrcAmount, dec 1400 0⟩,
  ⟨2021, some .single, .rrcAgiStart, dec 75000 0⟩,
  ⟨2021, some .mfj, .rrcAgiStart, dec 150000 0⟩,
  ⟨2021, some .mfs, .rrcAgiStart, dec 75000 0⟩,
  ⟨2021, some .hoh, .rrcAgiStart, dec 112500 0⟩,
  ⟨2021, some .qss, .rrcAgiStart, dec 150000 0⟩,
  ⟨2021, some .single, .rrcAgiEnd, dec 80000 0⟩,
  ⟨2021, some .mfj, .rrcAgiEnd, dec 160000 0⟩,
  ⟨2021, some .mfs, .rrcAgiEnd, dec 80000 0⟩,
  ⟨2021, some .hoh, .rrcAgiEnd, dec 120000 0⟩,
  ⟨2021, some .qss, .rrcAgiEnd, dec 160000 0⟩,
  ⟨2021, some .single, .rrcDivisor, dec 5000 0⟩,
  ⟨2021, some .mfj, .rrcDivisor, dec 10000 0⟩,
  ⟨2021, some .mfs, .rrcDivisor, dec 5000 0⟩,
  ⟨2021, some .hoh, .rrcDivisor, dec 7500 0⟩,
  ⟨2021, some .qss, .rrcDivisor, dec 10000 0⟩,
  ⟨2021, none, .scheduleBThreshold, dec 1500 0⟩,
  ⟨2022, none, .scheduleBThreshold, dec 1500 0⟩,
  ⟨2023, none, .scheduleBThreshold, dec 1500 0⟩,
  ⟨2021, some .single, .form1116ForeignTaxLimit, dec 300 0⟩,
  ⟨2021, some .mfj, .form1116ForeignTaxLimit, dec 600 0⟩,
  ⟨2021, some .mfs, .form1116ForeignTaxLimit, dec 300 0⟩,
  ⟨2021, some .hoh, .form1116ForeignTaxLimit, dec 300 0⟩,
  ⟨2021, some .qss, .form1116ForeignTaxLimit, dec 300 0⟩,
  ⟨2022, some .single, .form1116ForeignTaxLimit, dec 300 0⟩,
  ⟨2022, some .mfj, .form1116ForeignTaxLimit, dec 600 0⟩,
  ⟨2022, some .mfs, .form1116ForeignTaxLimit, dec 300 0⟩,
  ⟨2022, some .hoh, .form1116ForeignTaxLimit, dec 300 0⟩,
  ⟨2022, some .qss, .form1116ForeignTaxLimit, dec 300 0⟩,
  ⟨2023, some .single, .form1116ForeignTaxLimit, dec 300 0⟩,
  ⟨2023, some .mfj, .form1116ForeignTaxLimit, dec 600 0⟩,
  ⟨2023, some .mfs, .form1116ForeignTaxLimit, dec 300 0⟩,
  ⟨2023, some .hoh, .form1116ForeignTaxLimit, dec 300 0⟩,
  ⟨2023, some .qss, .form1116ForeignTaxLimit, dec 300 0⟩,
  ⟨2021, some .single, .saverCreditAgiLimit, dec 33000 0⟩,
  ⟨2021, some .mfj, .saverCreditAgiLimit, dec 66000 0⟩,
  ⟨2021, some .mfs, .saverCreditAgiLimit, dec 33000 0⟩,
  ⟨2021, some .hoh, .saverCreditAgiLimit, dec 49500 0⟩,
  ⟨2021, some .qss, .saverCreditAgiLimit, dec 33000 0⟩,
  ⟨2022, some .single, .saverCreditAgiLimit, dec 34000 0⟩,
  ⟨2022, some .mfj, .saverCreditAgiLimit, dec 68000 0⟩,
  ⟨2022, some .mfs, .saverCreditAgiLimit, dec 34000 0⟩,
  ⟨2022, some .hoh, .saverCreditAgiLimit, dec 51000 0⟩,
  ⟨2022, some .qss, .saverCreditAgiLimit, dec 34000 0⟩,
  ⟨2023, some .single, .saverCreditAgiLimit, dec 36500 0⟩,
  ⟨2023, some .mfj, .saverCreditAgiLimit, dec 73000 0⟩,
  ⟨2023, some .mfs, .saverCreditAgiLimit, dec 36500 0⟩,
  ⟨2023, some .hoh, .saverCreditAgiLimit, dec 54750 0⟩,
  ⟨2023, some .qss, .saverCreditAgiLimit, dec 36500 0⟩,
  ⟨2021, none, .educatorExpenseLimit, dec 250 0⟩,
  ⟨2022, none, .educatorExpenseLimit, dec 300 0⟩,
  ⟨2023, none, .educatorExpenseLimit, dec 300 0⟩,
  ⟨2021, none, .estTaxPenaltyMinDue, dec 1000 0⟩,
  ⟨2022, none, .estTaxPenaltyMinDue, dec 1000 0⟩,
  ⟨2023, none, .estTaxPenaltyMinDue, dec 1000 0⟩,
  ⟨2021, none, .estTaxPenaltyPct, dec 1 1⟩,
  ⟨2022, none, .estTaxPenaltyPct, dec 1 1⟩,
  ⟨2023, none, .estTaxPenaltyPct, dec 1 1⟩,
  ⟨2021, none, .ncTaxRate, dec 525 4⟩,
  ⟨2022, none, .ncTaxRate, dec 499 4⟩,
  ⟨2023, none, .ncTaxRate, dec 475 4⟩,
  ⟨2021, some .single, .ncStdDeduction, dec 10750 0⟩,
  ⟨2021, some .mfj, .ncStdDeduction, dec 21500 0⟩,
  ⟨2021, some .mfs, .ncStdDeduction, dec 10750 0⟩,
  ⟨2021, some .hoh, .ncStdDeduction, dec 16125 0⟩,
  ⟨2021, some .qss, .ncStdDeduction, dec 21500 0⟩,
  ⟨2022, some .single, .ncStdDeduction, dec 12750 0⟩,
  ⟨2022, some .mfj, .ncStdDeduction, dec 25500 0⟩,
  ⟨2022, some .mfs, .ncStdDeduction, dec 12750 0⟩,
  ⟨2022, some .hoh, .ncStdDeduction, dec 19125 0⟩,
  ⟨2022, some .qss, .ncStdDeduction, dec 25500 0⟩,
  ⟨2023, some .single, .ncStdDeduction, dec 12750 0⟩,
  ⟨2023, some .mfj, .ncStdDeduction, dec 25500 0⟩,
  ⟨2023, some .mfs, .ncStdDeduction, dec 12750 0⟩,
  ⟨2023, some .hoh, .ncStdDeduction, dec 19125 0⟩,
  ⟨2023, some .qss, .ncStdDeduction, dec 25500 0⟩,
  ⟨2021, some .single, .ncChildAgiLimit1, dec 20000 0⟩,
  ⟨2021, some .mfj, .ncChildAgiLimit1, dec 40000 0⟩,
  ⟨2021, some .mfs, .ncChildAgiLimit1, dec 20000 0⟩,
  ⟨2021, some .hoh, .ncChildAgiLimit1, dec 30000 0⟩,
  ⟨2021, some .qss, .ncChildAgiLimit1, dec 40000 0⟩,
  ⟨2022, some .single, .ncChildAgiLimit1, dec 20000 0⟩,
  ⟨2022, some .mfj, .ncChildAgiLimit1, dec 40000 0⟩,
  ⟨2022, some .mfs, .ncChildAgiLimit1, dec 20000 0⟩,
  ⟨2022, some .hoh, .ncChildAgiLimit1, dec 30000 0⟩,
  ⟨2022, some .qss, .ncChildAgiLimit1, dec 40000 0⟩,
  ⟨2023, some .single, .ncChildAgiLimit1, dec 20000 0⟩,
  ⟨2023, some .mfj, .ncChildAgiLimit1, dec 40000 0⟩,
  ⟨2023, some .mfs, .ncChildAgiLimit1, dec 20000 0⟩,
  ⟨2023, some .hoh, .ncChildAgiLimit1, dec 30000 0⟩,
  ⟨2023, some .qss, .ncChildAgiLimit1, dec 40000 0⟩,
  ⟨2021, none, .ncChildAmount1, dec 2500 0⟩,
  ⟨2022, none, .ncChildAmount1, dec 3000 0⟩,
  ⟨2023, none, .ncChildAmount1, dec 3000 0⟩,
  ⟨2021, some .single, .ncChildAgiLimit2, dec 30000 0⟩,
  ⟨2021, some .mfj, .ncChildAgiLimit2, dec 60000 0⟩,
  ⟨2021, some .mfs, .ncChildAgiLimit2, dec 30000 0⟩,
  ⟨2021, some .hoh, .ncChildAgiLimit2, dec 45000 0⟩,
  ⟨2021, some .qss, .ncChildAgiLimit2, dec 60000 0⟩,
  ⟨2022, some .single, .ncChildAgiLimit2, dec 30000 0⟩,
  ⟨2022, some .mfj, .ncChildAgiLimit2, dec 60000 0⟩,
  ⟨2022, some .mfs, .ncChildAgiLimit2, dec 30000 0⟩,
  ⟨2022, some .hoh, .ncChildAgiLimit2, dec 45000 0⟩,
  ⟨2022, some .qss, .ncChildAgiLimit2, dec 60000 0⟩,
  ⟨2023, some .single, .ncChildAgiLimit2, dec 30000 0⟩,
  ⟨2023, some .mfj, .ncChildAgiLimit2, dec 60000 0⟩,
  ⟨2023, some .mfs, .ncChildAgiLimit2, dec 30000 0⟩,
  ⟨2023, some .hoh, .ncChildAgiLimit2, dec 45000 0⟩,
  ⟨2023, some .qss, .ncChildAgiLimit2, dec 60000 0⟩,
  ⟨2021, none, .ncChildAmount2, dec 2000 0⟩,
  ⟨2022, none, .ncChildAmount2, dec 2500 0⟩,
  ⟨2023, none, .ncChildAmount2, dec 2500 0⟩,
  ⟨2021, some .single, .ncChildAgiLimit3, dec 40000 0⟩,
  ⟨2021, some .mfj, .ncChildAgiLimit3, dec 80000 0⟩,
  ⟨2021, some .mfs, .ncChildAgiLimit3, dec 40000 0⟩,
  ⟨2021, some .hoh, .ncChildAgiLimit3, dec 60000 0⟩,
  ⟨2021, some .qss, .ncChildAgiLimit3, dec 80000 0⟩,
  ⟨2022, some .single, .ncChildAgiLimit3, dec 40000 0⟩,
  ⟨2022, some .mfj, .ncChildAgiLimit3, dec 80000 0⟩,
  ⟨2022, some .mfs, .ncChildAgiLimit3, dec 40000 0⟩,
  ⟨2022, some .hoh, .ncChildAgiLimit3, dec 60000 0⟩,
  ⟨2022, some .qss, .ncChildAgiLimit3, dec 80000 0⟩,
  ⟨2023, some .single, .ncChildAgiLimit3, dec 40000 0⟩,
  ⟨2023, some .mfj, .ncChildAgiLimit3, dec 80000 0⟩,
  ⟨2023, some .mfs, .ncChildAgiLimit3, dec 40000 0⟩,
  ⟨2023, some .hoh, .ncChildAgiLimit3, dec 60000 0⟩,
  ⟨2023, some .qss, .ncChildAgiLimit3, dec 80000 0⟩,
  ⟨2021, none, .ncChildAmount3, dec 1500 0⟩,
  ⟨2022, none, .ncChildAmount3, dec 2000 0⟩,
  ⟨2023, none, .ncChildAmount3, dec 2000 0⟩,
  ⟨2021, some .single, .ncChildAgiLimit4, dec 50000 0⟩,
  ⟨2021, some .mfj, .ncChildAgiLimit4, dec 100000 0⟩,
  ⟨2021, some .mfs, .ncChildAgiLimit4, dec 50000 0⟩,
  ⟨2021, some .hoh, .ncChildAgiLimit4, dec 75000 0⟩,
  ⟨2021, some .qss, .ncChildAgiLimit4, dec 100000 0⟩,
  ⟨2022, some .single, .ncChildAgiLimit4, dec 50000 0⟩,
  ⟨2022, some .mfj, .ncChildAgiLimit4, dec 100000 0⟩,
  ⟨2022, some .mfs, .ncChildAgiLimit4, dec 50000 0⟩,
  ⟨2022, some .hoh, .ncChildAgiLimit4, dec 75000 0⟩,
  ⟨2022, some .qss, .ncChildAgiLimit4, dec 100000 0⟩,
  ⟨2023, some .single, .ncChildAgiLimit4, dec 50000 0⟩,
  ⟨2023, some .mfj, .ncChildAgiLimit4, dec 100000 0⟩,
  ⟨2023, some .mfs, .ncChildAgiLimit4, dec 50000 0⟩,
  ⟨2023, some .hoh, .ncChildAgiLimit4, dec 75000 0⟩,
  ⟨2023, some .qss, .ncChildAgiLimit4, dec 100000 0⟩,
  ⟨2021, none, .ncChildAmount4, dec 1000 0⟩,
  ⟨2022, none, .ncChildAmount4, dec 1500 0⟩,
  ⟨2023, none, .ncChildAmount4, dec 1500 0⟩,
  ⟨2021, some .single, .ncChildAgiLimit5, dec 60000 0⟩,
  ⟨2021, some .mfj, .ncChildAgiLimit5, dec 120000 0⟩,
  ⟨2021, some .mfs, .ncChildAgiLimit5, dec 60000 0⟩,
  ⟨2021, some .hoh, .ncChildAgiLimit5, dec 90000 0⟩,
  ⟨2021, some .qss, .ncChildAgiLimit5, dec 120000 0⟩,
  ⟨2022, some .single, .ncChildAgiLimit5, dec 60000 0⟩,
  ⟨2022, some .mfj, .ncChildAgiLimit5, dec 120000 0⟩,
  ⟨2022, some .mfs, .ncChildAgiLimit5, dec 60000 0⟩,
  ⟨2022, some .hoh, .ncChildAgiLimit5, dec 90000 0⟩,
  ⟨2022, some .qss, .ncChildAgiLimit5, dec 120000 0⟩,
  ⟨2023, some .single, .ncChildAgiLimit5, dec 60000 0⟩,
  ⟨2023, some .mfj, .ncChildAgiLimit5, dec 120000 0⟩,
  ⟨2023, some .mfs, .ncChildAgiLimit5, dec 60000 0⟩,
  ⟨2023, some .hoh, .ncChildAgiLimit5, dec 90000 0⟩,
  ⟨2023, some .qss, .ncChildAgiLimit5, dec 120000 0⟩,
  ⟨2021, none, .ncChildAmount5, dec 500 0⟩,
  ⟨2022, none, .ncChildAmount5, dec 1000 0⟩,
  ⟨2023, none, .ncChildAmount5, dec 1000 0⟩,
  ⟨2022, some .single, .ncChildAgiLimit6, dec 70000 0⟩,
  ⟨2022, some .mfj, .ncChildAgiLimit6, dec 140000 0⟩,
  ⟨2022, some .mfs, .ncChildAgiLimit6, dec 70000 0⟩,
  ⟨2022, some .hoh, .ncChildAgiLimit6, dec 105000 0⟩,
  ⟨2022, some .qss, .ncChildAgiLimit6, dec 140000 0⟩,
  ⟨2023, some .single, .ncChildAgiLimit6, dec 70000 0⟩,
  ⟨2023, some .mfj, .ncChildAgiLimit6, dec 140000 0⟩,
  ⟨2023, some .mfs, .ncChildAgiLimit6, dec 70000 0⟩,
  ⟨2023, some .hoh, .ncChildAgiLimit6, dec 105000 0⟩,
  ⟨2023, some .qss, .ncChildAgiLimit6, dec 140000 0⟩,
  ⟨2022, none, .ncChildAmount6, dec 500 0⟩,
  ⟨2023, none, .ncChildAmount6, dec 500 0⟩,
  ⟨2021, none, .ncMortgagePropertyTaxCap, dec 20000 0⟩,
  ⟨2022, none, .ncMortgagePropertyTaxCap, dec 20000 0⟩,
  ⟨2023, none, .ncMortgagePropertyTaxCap, dec 20000 0⟩,
  ⟨2021, none, .ncUnderpaymentMinDue, dec 1000 0⟩,
  ⟨2022, none, .ncUnderpaymentMinDue, dec 1000 0⟩,
  ⟨2023, none, .ncUnderpaymentMinDue, dec 1000 0⟩
]

def Row.covers (r : Row) (y : Nat) (s : Status) (a : Amt) : Bool :=
  r.year == y && decide (r.amt = a) &&
    (match r.status with
     | none => true
     | some t => decide (t = s))

/-- the published value, `none` when the table has no entry -/
def amount (y : Nat) (s : Status) (a : Amt) : Option Rat :=
  (rows.find? fun r => r.covers y s a).map (·.value)

/-- where each entry was taken from -/
def citations : List (Nat × Amt × String) := [
  (2021, .stdDeduction, "Rev. Proc. 2020-45, section 3 (Standard Deduction); 2021 Form 1040, chart beside line 12 (printed in the bundled f1040.pdf)"),
  (2022, .stdDeduction, "Rev. Proc. 2021-45, section 3 (Standard Deduction); 2022 Form 1040, chart beside line 12 (printed in the bundled f1040.pdf)"),
  (2023, .stdDeduction, "Rev. Proc. 2022-38, section 3 (Standard Deduction); 2023 Form 1040, chart beside line 12 (printed in the bundled f1040.pdf)"),
  (2021, .charitableStdDedLimit, "IRC 170(p) (as added by Pub. L. 116-260): $300 ($600 in the case of a joint return); 2021 Form 1040 instructions, line 12b"),
  (2021, .capgain0Max, "Rev. Proc. 2020-45, section 3.03 (Maximum Capital Gains Rate); 2021 Form 1040 instructions, Qualified Dividends and Capital Gain Tax Worksheet, line 6"),
  (2022, .capgain0Max, "Rev. Proc. 2021-45, section 3.03 (Maximum Capital Gains Rate); 2022 Form 1040 instructions, Qualified Dividends and Capital Gain Tax Worksheet, line 6"),
  (2023, .capgain0Max, "Rev. Proc. 2022-38, section 3.03 (Maximum Capital Gains Rate); 2023 Form 1040 instructions, Qualified Dividends and Capital Gain Tax Worksheet, line 6"),
  (2021, .capgain15Max, "Rev. Proc. 2020-45, section 3.03 (Maximum Capital Gains Rate); 2021 Form 1040 instructions, Qualified Dividends and Capital Gain Tax Worksheet, line 13"),
  (2022, .capgain15Max, "Rev. Proc. 2021-45, section 3.03 (Maximum Capital Gains Rate); 2022 Form 1040 instructions, Qualified Dividends and Capital Gain Tax Worksheet, line 13"),
  (2023, .capgain15Max, "Rev. Proc. 2022-38, section 3.03 (Maximum Capital Gains Rate); 2023 Form 1040 instructions, Qualified Dividends and Capital Gain Tax Worksheet, line 13"),
  (2021, .capgainRate15, "IRC 1(h)(1)(C); worksheet line 18"),
  (2022, .capgainRate15, "IRC 1(h)(1)(C); worksheet line 18"),
  (2023, .capgainRate15, "IRC 1(h)(1)(C); worksheet line 18"),
  (2021, .capgainRate20, "IRC 1(h)(1)(D); worksheet line 21"),
  (2022, .capgainRate20, "IRC 1(h)(1)(D); worksheet line 21"),
  (2023, .capgainRate20, "IRC 1(h)(1)(D); worksheet line 21"),
  (2021, .amtExemption, "Rev. Proc. 2020-45, section 3.11 (Exemption Amounts for Alternative Minimum Tax); 2021 Schedule 2 line 1 instructions, Worksheet To See if You Should Fill in Form 6251, line 6"),
  (2022, .amtExemption, "Rev. Proc. 2021-45, section 3.11 (Exemption Amounts for Alternative Minimum Tax); 2022 Schedule 2 line 1 instructions, Worksheet To See if You Should Fill in Form 6251, line 6"),
  (2023, .amtExemption, "Rev. Proc. 2022-38, section 3.11 (Exemption Amounts for Alternative Minimum Tax); 2023 Schedule 2 line 1 instructions, Worksheet To See if You Should Fill in Form 6251, line 6"),
  (2021, .amtPhaseoutStart, "Rev. Proc. 2020-45, section 3.11 (Exemption Amounts for Alternative Minimum Tax); 2021 Schedule 2 line 1 instructions, 6251 worksheet, line 8"),
  (2022, .amtPhaseoutStart, "Rev. Proc. 2021-45, section 3.11 (Exemption Amounts for Alternative Minimum Tax); 2022 Schedule 2 line 1 instructions, 6251 worksheet, line 8"),
  (2023, .amtPhaseoutStart, "Rev. Proc. 2022-38, section 3.11 (Exemption Amounts for Alternative Minimum Tax); 2023 Schedule 2 line 1 instructions, 6251 worksheet, line 8"),
  (2021, .amt28pctThreshold, "Rev. Proc. 2020-45, section 3.11 (Exemption Amounts for Alternative Minimum Tax); 2021 Schedule 2 line 1 instructions, 6251 worksheet, line 12"),
  (2022, .amt28pctThreshold, "Rev. Proc. 2021-45, section 3.11 (Exemption Amounts for Alternative Minimum Tax); 2022 Schedule 2 line 1 instructions, 6251 worksheet, line 12"),
  (2023, .amt28pctThreshold, "Rev. Proc. 2022-38, section 3.11 (Exemption Amounts for Alternative Minimum Tax); 2023 Schedule 2 line 1 instructions, 6251 worksheet, line 12"),
  (2021, .amtPhaseoutRate, "IRC 55(d)(2); 6251 worksheet line 10"),
  (2022, .amtPhaseoutRate, "IRC 55(d)(2); 6251 worksheet line 10"),
  (2023, .amtPhaseoutRate, "IRC 55(d)(2); 6251 worksheet line 10"),
  (2021, .amtRate26, "IRC 55(b)(1)(A); 6251 worksheet line 12"),
  (2022, .amtRate26, "IRC 55(b)(1)(A); 6251 worksheet line 12"),
  (2023, .amtRate26, "IRC 55(b)(1)(A); 6251 worksheet line 12"),
  (2021, .ctcPerChild, "IRC 24(h)(2); 2021 Schedule 8812 instructions, Line 5 Worksheet, line 4"),
  (2022, .ctcPerChild, "IRC 24(h)(2); 2022 Schedule 8812 line 5"),
  (2023, .ctcPerChild, "IRC 24(h)(2); 2023 Schedule 8812 line 5"),
  (2021, .ctc2021Under6, "IRC 24(i) (American Rescue Plan Act, Pub. L. 117-2, sec. 9611); 2021 Schedule 8812 instructions, Line 5 Worksheet, line 1"),
  (2021, .ctc20216to17, "IRC 24(i); 2021 Schedule 8812 instructions, Line 5 Worksheet, line 2"),
  (2021, .ctc2021WsLine6, "2021 Schedule 8812 instructions, Line 5 Worksheet, line 6 (MFJ 12,500; qualifying widow(er) 2,500; head of household 4,375; all others 6,250)"),
  (2021, .ctc2021FirstPhaseoutStart, "IRC 24(i)(4)(B); 2021 Schedule 8812 instructions, Line 5 Worksheet, line 8"),
  (2021, .ctc2021RepaymentProtectionAgi, "IRC 24(j)(2)(B); 2021 Schedule 8812 line 33 (printed in the bundled f1040s8.pdf)"),
  (2021, .ctc2021SafeHarborPerChild, "IRC 24(j)(2)(B)(i); 2021 Schedule 8812 line 37 (printed in the bundled f1040s8.pdf)"),
  (2021, .odcPerDependent, "IRC 24(h)(4); Schedule 8812 line 7 (printed in the bundled f1040s8.pdf)"),
  (2022, .odcPerDependent, "IRC 24(h)(4); Schedule 8812 line 7 (printed in the bundled f1040s8.pdf)"),
  (2023, .odcPerDependent, "IRC 24(h)(4); Schedule 8812 line 7 (printed in the bundled f1040s8.pdf)"),
  (2021, .ctcPhaseoutStart, "IRC 24(h)(3); Schedule 8812 line 9 (printed in the bundled f1040s8.pdf)"),
  (2022, .ctcPhaseoutStart, "IRC 24(h)(3); Schedule 8812 line 9 (printed in the bundled f1040s8.pdf)"),
  (2023, .ctcPhaseoutStart, "IRC 24(h)(3); Schedule 8812 line 9 (printed in the bundled f1040s8.pdf)"),
  (2021, .ctcPhaseoutStep, "IRC 24(b)(1); Schedule 8812 line 10"),
  (2022, .ctcPhaseoutStep, "IRC 24(b)(1); Schedule 8812 line 10"),
  (2023, .ctcPhaseoutStep, "IRC 24(b)(1); Schedule 8812 line 10"),
  (2021, .ctcPhaseoutRate, "IRC 24(b)(1); Schedule 8812 line 11"),
  (2022, .ctcPhaseoutRate, "IRC 24(b)(1); Schedule 8812 line 11"),
  (2023, .ctcPhaseoutRate, "IRC 24(b)(1); Schedule 8812 line 11"),
  (2022, .actcMaxPerChild, "Rev. Proc. 2021-45, section 3.05 (Child Tax Credit); 2022 Schedule 8812 line 16b"),
  (2023, .actcMaxPerChild, "Rev. Proc. 2022-38, section 3.05 (Child Tax Credit); 2023 Schedule 8812 line 16b"),
  (2022, .actcLine20Comparison, "2022 Schedule 8812 line 20"),
  (2023, .actcLine20Comparison, "2023 Schedule 8812 line 20"),
  (2021, .addlMedicareThreshold, "IRC 3101(b)(2); Form 8959 lines 5, 9, 15 (printed in the bundled f8959.pdf)"),
  (2022, .addlMedicareThreshold, "IRC 3101(b)(2); Form 8959 lines 5, 9, 15 (printed in the bundled f8959.pdf)"),
  (2023, .addlMedicareThreshold, "IRC 3101(b)(2); Form 8959 lines 5, 9, 15 (printed in the bundled f8959.pdf)"),
  (2021, .addlMedicareWithholdingThreshold, "IRC 3102(f)(1); Form 8959 instructions"),
  (2022, .addlMedicareWithholdingThreshold, "IRC 3102(f)(1); Form 8959 instructions"),
  (2023, .addlMedicareWithholdingThreshold, "IRC 3102(f)(1); Form 8959 instructions"),
  (2021, .addlMedicareRate, "IRC 3101(b)(2); Form 8959 lines 7, 13, 17"),
  (2022, .addlMedicareRate, "IRC 3101(b)(2); Form 8959 lines 7, 13, 17"),
  (2023, .addlMedicareRate, "IRC 3101(b)(2); Form 8959 lines 7, 13, 17"),
  (2021, .medicareRate, "IRC 3101(b)(1); Form 8959 line 21"),
  (2022, .medicareRate, "IRC 3101(b)(1); Form 8959 line 21"),
  (2023, .medicareRate, "IRC 3101(b)(1); Form 8959 line 21"),
  (2021, .hsaLimitSelf, "Rev. Proc. 2020-32; 2021 Form 8889 line 3"),
  (2022, .hsaLimitSelf, "Rev. Proc. 2021-25; 2022 Form 8889 line 3"),
  (2023, .hsaLimitSelf, "Rev. Proc. 2022-24; 2023 Form 8889 line 3"),
  (2021, .hsaLimitFamily, "Rev. Proc. 2020-32; 2021 Form 8889 line 3"),
  (2022, .hsaLimitFamily, "Rev. Proc. 2021-25; 2022 Form 8889 line 3"),
  (2023, .hsaLimitFamily, "Rev. Proc. 2022-24; 2023 Form 8889 line 3"),
  (2021, .hsaCatchUp, "IRC 223(b)(3)(B); Form 8889 line 3 instructions"),
  (2022, .hsaCatchUp, "IRC 223(b)(3)(B); Form 8889 line 3 instructions"),
  (2023, .hsaCatchUp, "IRC 223(b)(3)(B); Form 8889 line 3 instructions"),
  (2021, .saltCap, "IRC 164(b)(6); Schedule A line 5e (printed in the bundled f1040sa.pdf)"),
  (2022, .saltCap, "IRC 164(b)(6); Schedule A line 5e (printed in the bundled f1040sa.pdf)"),
  (2023, .saltCap, "IRC 164(b)(6); Schedule A line 5e (printed in the bundled f1040sa.pdf)"),
  (2021, .medicalFloorRate, "IRC 213(a); Schedule A line 3"),
  (2022, .medicalFloorRate, "IRC 213(a); Schedule A line 3"),
  (2023, .medicalFloorRate, "IRC 213(a); Schedule A line 3"),
  (2021, .mortgageInsuranceAgiLimit, "IRC 163(h)(3)(E)(ii); 2021 Schedule A instructions, line 8d"),
  (2021, .noncashGift8283Threshold, "Schedule A line 12 (printed in the bundled f1040sa.pdf)"),
  (2022, .noncashGift8283Threshold, "Schedule A line 12 (printed in the bundled f1040sa.pdf)"),
  (2023, .noncashGift8283Threshold, "Schedule A line 12 (printed in the bundled f1040sa.pdf)"),
  (2021, .qbiThreshold, "Rev. Proc. 2020-45, section 3 (Qualified Business Income); 2021 Form 8995, note at the top of the form; 2021 Form 1040 instructions, line 13"),
  (2022, .qbiThreshold, "Rev. Proc. 2021-45, section 3 (Qualified Business Income); 2022 Form 8995, note at the top of the form; 2022 Form 1040 instructions, line 13"),
  (2023, .qbiThreshold, "Rev. Proc. 2022-38, section 3 (Qualified Business Income); 2023 Form 8995, note at the top of the form; 2023 Form 1040 instructions, line 13"),
  (2021, .qbiRate, "IRC 199A(a); Form 8995 lines 5, 9, 14"),
  (2022, .qbiRate, "IRC 199A(a); Form 8995 lines 5, 9, 14"),
  (2023, .qbiRate, "IRC 199A(a); Form 8995 lines 5, 9, 14"),
  (2021, .eicAgiLimit0, "Rev. Proc. 2020-45, section 3.06 (Earned Income Credit) as modified for 2021 by the American Rescue Plan Act (no-child amounts); 2021 Form 1040 instructions, line 27a, step 1"),
  (2022, .eicAgiLimit0, "Rev. Proc. 2021-45, section 3.06 (Earned Income Credit); 2022 Form 1040 instructions, line 27, step 1"),
  (2023, .eicAgiLimit0, "Rev. Proc. 2022-38, section 3.06 (Earned Income Credit); 2023 Form 1040 instructions, line 27, step 1"),
  (2021, .eicAgiLimit1, "Rev. Proc. 2020-45, section 3.06 (Earned Income Credit) as modified for 2021 by the American Rescue Plan Act (no-child amounts); 2021 Form 1040 instructions, line 27a, step 1"),
  (2022, .eicAgiLimit1, "Rev. Proc. 2021-45, section 3.06 (Earned Income Credit); 2022 Form 1040 instructions, line 27, step 1"),
  (2023, .eicAgiLimit1, "Rev. Proc. 2022-38, section 3.06 (Earned Income Credit); 2023 Form 1040 instructions, line 27, step 1"),
  (2021, .eicAgiLimit2, "Rev. Proc. 2020-45, section 3.06 (Earned Income Credit) as modified for 2021 by the American Rescue Plan Act (no-child amounts); 2021 Form 1040 instructions, line 27a, step 1"),
  (2022, .eicAgiLimit2, "Rev. Proc. 2021-45, section 3.06 (Earned Income Credit); 2022 Form 1040 instructions, line 27, step 1"),
  (2023, .eicAgiLimit2, "Rev. Proc. 2022-38, section 3.06 (Earned Income Credit); 2023 Form 1040 instructions, line 27, step 1"),
  (2021, .eicAgiLimit3, "Rev. Proc. 2020-45, section 3.06 (Earned Income Credit) as modified for 2021 by the American Rescue Plan Act (no-child amounts); 2021 Form 1040 instructions, line 27a, step 1"),
  (2022, .eicAgiLimit3, "Rev. Proc. 2021-45, section 3.06 (Earned Income Credit); 2022 Form 1040 instructions, line 27, step 1"),
  (2023, .eicAgiLimit3, "Rev. Proc. 2022-38, section 3.06 (Earned Income Credit); 2023 Form 1040 instructions, line 27, step 1"),
  (2021, .eicInvestmentIncomeLimit, "IRC 32(i) as amended by the American Rescue Plan Act; 2021 Form 1040 instructions, line 27a, step 2"),
  (2022, .eicInvestmentIncomeLimit, "Rev. Proc. 2021-45, section 3.06; 2022 Form 1040 instructions, line 27, step 2"),
  (2023, .eicInvestmentIncomeLimit, "Rev. Proc. 2022-38, section 3.06; 2023 Form 1040 instructions, line 27, step 2"),
  (2021, .rrcAmount, "IRC 6428B(b); 2021 Form 1040 instructions, Recovery Rebate Credit Worksheet, lines 6-7"),
  (2021, .rrcAgiStart, "IRC 6428B(d)(2); Recovery Rebate Credit Worksheet, line 9"),
  (2021, .rrcAgiEnd, "IRC 6428B(d); Recovery Rebate Credit Worksheet, line 10"),
  (2021, .rrcDivisor, "IRC 6428B(d)(1); Recovery Rebate Credit Worksheet, line 11"),
  (2021, .scheduleBThreshold, "Form 1040 instructions, lines 2b and 3b; Schedule B (printed in the bundled f1040sb.pdf)"),
  (2022, .scheduleBThreshold, "Form 1040 instructions, lines 2b and 3b; Schedule B (printed in the bundled f1040sb.pdf)"),
  (2023, .scheduleBThreshold, "Form 1040 instructions, lines 2b and 3b; Schedule B (printed in the bundled f1040sb.pdf)"),
  (2021, .form1116ForeignTaxLimit, "IRC 904(j)(2)(B); Schedule 3 line 1 instructions"),
  (2022, .form1116ForeignTaxLimit, "IRC 904(j)(2)(B); Schedule 3 line 1 instructions"),
  (2023, .form1116ForeignTaxLimit, "IRC 904(j)(2)(B); Schedule 3 line 1 instructions"),
  (2021, .saverCreditAgiLimit, "Notice 2020-79; 2021 Schedule 3 line 4 instructions / Form 8880"),
  (2022, .saverCreditAgiLimit, "Notice 2021-61; 2022 Schedule 3 line 4 instructions / Form 8880"),
  (2023, .saverCreditAgiLimit, "Notice 2022-55; 2023 Schedule 3 line 4 instructions / Form 8880"),
  (2021, .educatorExpenseLimit, "IRC 62(a)(2)(D); Rev. Proc. 2020-45, section 3 (Certain Expenses of Elementary and Secondary School Teachers); 2021 Schedule 1 line 11 instructions"),
  (2022, .educatorExpenseLimit, "Rev. Proc. 2021-45, section 3 (Certain Expenses of Elementary and Secondary School Teachers); 2022 Schedule 1 line 11 instructions ($300; $600 if both spouses are educators, not more than $300 each)"),
  (2023, .educatorExpenseLimit, "Rev. Proc. 2022-38, section 3 (Certain Expenses of Elementary and Secondary School Teachers); 2023 Schedule 1 line 11 instructions ($300; $600 if both spouses are educators, not more than $300 each)"),
  (2021, .estTaxPenaltyMinDue, "IRC 6654(e)(1); Form 1040 instructions, line 38"),
  (2022, .estTaxPenaltyMinDue, "IRC 6654(e)(1); Form 1040 instructions, line 38"),
  (2023, .estTaxPenaltyMinDue, "IRC 6654(e)(1); Form 1040 instructions, line 38"),
  (2021, .estTaxPenaltyPct, "IRC 6654(d)(1)(B)(i); Form 1040 instructions, line 38"),
  (2022, .estTaxPenaltyPct, "IRC 6654(d)(1)(B)(i); Form 1040 instructions, line 38"),
  (2023, .estTaxPenaltyPct, "IRC 6654(d)(1)(B)(i); Form 1040 instructions, line 38"),
  (2021, .ncTaxRate, "N.C.G.S. 105-153.7(a); 2021 Form D-400 line 15 / D-401 instructions"),
  (2022, .ncTaxRate, "N.C.G.S. 105-153.7(a) (S.L. 2021-180); 2022 Form D-400 line 15 / D-401"),
  (2023, .ncTaxRate, "N.C.G.S. 105-153.7(a) (S.L. 2021-180); 2023 Form D-400 line 15 / D-401"),
  (2021, .ncStdDeduction, "N.C.G.S. 105-153.5(a)(1); 2021 D-401 instructions, N.C. Standard Deduction chart"),
  (2022, .ncStdDeduction, "N.C.G.S. 105-153.5(a)(1) (S.L. 2021-180); 2022 D-401, N.C. Standard Deduction chart"),
  (2023, .ncStdDeduction, "N.C.G.S. 105-153.5(a)(1); 2023 D-401, N.C. Standard Deduction chart"),
  (2021, .ncChildAgiLimit1, "N.C.G.S. 105-153.5(a1) (before S.L. 2021-180); 2021 D-401 instructions, Child Deduction Table"),
  (2022, .ncChildAgiLimit1, "N.C.G.S. 105-153.5(a1) as amended by S.L. 2021-180; 2022 D-401 instructions, Child Deduction Table"),
  (2023, .ncChildAgiLimit1, "N.C.G.S. 105-153.5(a1) as amended by S.L. 2021-180; 2023 D-401 instructions, Child Deduction Table"),
  (2021, .ncChildAmount1, "N.C.G.S. 105-153.5(a1) (before S.L. 2021-180); 2021 D-401 instructions, Child Deduction Table"),
  (2022, .ncChildAmount1, "N.C.G.S. 105-153.5(a1) as amended by S.L. 2021-180; 2022 D-401 instructions, Child Deduction Table"),
  (2023, .ncChildAmount1, "N.C.G.S. 105-153.5(a1) as amended by S.L. 2021-180; 2023 D-401 instructions, Child Deduction Table"),
  (2021, .ncChildAgiLimit2, "N.C.G.S. 105-153.5(a1) (before S.L. 2021-180); 2021 D-401 instructions, Child Deduction Table"),
  (2022, .ncChildAgiLimit2, "N.C.G.S. 105-153.5(a1) as amended by S.L. 2021-180; 2022 D-401 instructions, Child Deduction Table"),
  (2023, .ncChildAgiLimit2, "N.C.G.S. 105-153.5(a1) as amended by S.L. 2021-180; 2023 D-401 instructions, Child Deduction Table"),
  (2021, .ncChildAmount2, "N.C.G.S. 105-153.5(a1) (before S.L. 2021-180); 2021 D-401 instructions, Child Deduction Table"),
  (2022, .ncChildAmount2, "N.C.G.S. 105-153.5(a1) as amended by S.L. 2021-180; 2022 D-401 instructions, Child Deduction Table"),
  (2023, .ncChildAmount2, "N.C.G.S. 105-153.5(a1) as amended by S.L. 2021-180; 2023 D-401 instructions, Child Deduction Table"),
  (2021, .ncChildAgiLimit3, "N.C.G.S. 105-153.5(a1) (before S.L. 2021-180); 2021 D-401 instructions, Child Deduction Table"),
  (2022, .ncChildAgiLimit3, "N.C.G.S. 105-153.5(a1) as amended by S.L. 2021-180; 2022 D-401 instructions, Child Deduction Table"),
  (2023, .ncChildAgiLimit3, "N.C.G.S. 105-153.5(a1) as amended by S.L. 2021-180; 2023 D-401 instructions, Child Deduction Table"),
  (2021, .ncChildAmount3, "N.C.G.S. 105-153.5(a1) (before S.L. 2021-180); 2021 D-401 instructions, Child Deduction Table"),
  (2022, .ncChildAmount3, "N.C.G.S. 105-153.5(a1) as amended by S.L. 2021-180; 2022 D-401 instructions, Child Deduction Table"),
  (2023, .ncChildAmount3, "N.C.G.S. 105-153.5(a1) as amended by S.L. 2021-180; 2023 D-401 instructions, Child Deduction Table"),
  (2021, .ncChildAgiLimit4, "N.C.G.S. 105-153.5(a1) (before S.L. 2021-180); 2021 D-401 instructions, Child Deduction Table"),
  (2022, .ncChildAgiLimit4, "N.C.G.S. 105-153.5(a1) as amended by S.L. 2021-180; 2022 D-401 instructions, Child Deduction Table"),
  (2023, .ncChildAgiLimit4, "N.C.G.S. 105-153.5(a1) as amended by S.L. 2021-180; 2023 D-401 instructions, Child Deduction Table"),
  (2021, .ncChildAmount4, "N.C.G.S. 105-153.5(a1) (before S.L. 2021-180); 2021 D-401 instructions, Child Deduction Table"),
  (2022, .ncChildAmount4, "N.C.G.S. 105-153.5(a1) as amended by S.L. 2021-180; 2022 D-401 instructions, Child Deduction Table"),
  (2023, .ncChildAmount4, "N.C.G.S. 105-153.5(a1) as amended by S.L. 2021-180; 2023 D-401 instructions, Child Deduction Table"),
  (2021, .ncChildAgiLimit5, "N.C.G.S. 105-153.5(a1) (before S.L. 2021-180); 2021 D-401 instructions, Child Deduction Table"),
  (2022, .ncChildAgiLimit5, "N.C.G.S. 105-153.5(a1) as amended by S.L. 2021-180; 2022 D-401 instructions, Child Deduction Table"),
  (2023, .ncChildAgiLimit5, "N.C.G.S. 105-153.5(a1) as amended by S.L. 2021-180; 2023 D-401 instructions, Child Deduction Table"),
  (2021, .ncChildAmount5, "N.C.G.S. 105-153.5(a1) (before S.L. 2021-180); 2021 D-401 instructions, Child Deduction Table"),
  (2022, .ncChildAmount5, "N.C.G.S. 105-153.5(a1) as amended by S.L. 2021-180; 2022 D-401 instructions, Child Deduction Table"),
  (2023, .ncChildAmount5, "N.C.G.S. 105-153.5(a1) as amended by S.L. 2021-180; 2023 D-401 instructions, Child Deduction Table"),
  (2022, .ncChildAgiLimit6, "N.C.G.S. 105-153.5(a1) as amended by S.L. 2021-180; 2022 D-401 instructions, Child Deduction Table"),
  (2023, .ncChildAgiLimit6, "N.C.G.S. 105-153.5(a1) as amended by S.L. 2021-180; 2023 D-401 instructions, Child Deduction Table"),
  (2022, .ncChildAmount6, "N.C.G.S. 105-153.5(a1) as amended by S.L. 2021-180; 2022 D-401 instructions, Child Deduction Table"),
  (2023, .ncChildAmount6, "N.C.G.S. 105-153.5(a1) as amended by S.L. 2021-180; 2023 D-401 instructions, Child Deduction Table"),
  (2021, .ncMortgagePropertyTaxCap, "N.C.G.S. 105-153.5(a)(2)b; Form D-400 Schedule A line 4"),
  (2022, .ncMortgagePropertyTaxCap, "N.C.G.S. 105-153.5(a)(2)b; Form D-400 Schedule A line 4"),
  (2023, .ncMortgagePropertyTaxCap, "N.C.G.S. 105-153.5(a)(2)b; Form D-400 Schedule A line 4"),
  (2021, .ncUnderpaymentMinDue, "N.C.G.S. 105-163.15(f); Form D-422 instructions"),
  (2022, .ncUnderpaymentMinDue, "N.C.G.S. 105-163.15(f); Form D-422 instructions"),
  (2023, .ncUnderpaymentMinDue, "N.C.G.S. 105-163.15(f); Form D-422 instructions")
]

def citation (y : Nat) (a : Amt) : Option String :=
  (citations.find? fun c => c.1 == y && decide (c.2.1 = a)).map (·.2.2)

/-- amounts used by the shipped forms for which NO value is recorded (not covered by C08) -/
def unverified : List (String × String) := [
  ("nc_real_estate_tax_limit", "NC D-400 Schedule A line 2 limit on real estate property taxes (habutax: 10,000; 5,000 MFS): the builder of the table could not confirm from memory of the D-401 text that line 2 carries its own $10,000/$5,000 limit"),
  ("nc_charitable_pct_limit", "NC D-400 Schedule A line 6 limit of charitable contributions (habutax: 60% of federal AGI): percentage limits of IRC 170(b) depend on the kind of gift; not a single published amount"),
  ("nc_consumer_use_tax_table", "NC consumer use tax estimate table (30 income brackets, 0.0675% above 45,200): the bracket-by-bracket D-401 table is not known to the builder with confidence"),
  ("ira_exception3_limit", "1040 lines 4a/4b: 1,000,000 guard on IRA distributions under exception 3: not a statutory amount the builder can source"),
  ("figure_tax_switch", "100,000 switch between Tax Table and Tax Computation Worksheet: covered by property C07, not here")
]

end HabuVerif.Spec.Statutory
