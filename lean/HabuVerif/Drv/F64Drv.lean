import HabuVerif.Py.F64
/-!
Line protocol for the F64 correspondence stream (`tools/harness/f64_stream.py`).

One operation per line, one answer per line.  Floats travel as 16 lower-case hex digits (IEEE bit
pattern; nan canonical), Python ints in decimal, booleans as `True`/`False`, errors as the Python
exception name.  Malformed lines answer `bad-op` (unknown operation / wrong arity) or `bad-arg`.
-/
namespace HabuVerif.F64Drv
open HabuVerif HabuVerif.F64

def hexDigit (c : Char) : Option Nat :=
  if '0' ≤ c ∧ c ≤ '9' then some (c.toNat - '0'.toNat)
  else if 'a' ≤ c ∧ c ≤ 'f' then some (c.toNat - 'a'.toNat + 10)
  else none

/-- exactly 16 lower-case hex digits -/
def parseHex (s : String) : Option F64 :=
  let cs := s.toList
  if cs.length ≠ 16 then none else
  (cs.foldlM (fun (acc : Nat) c => (hexDigit c).map (acc * 16 + ·)) 0).map
    fun n => ofBits n.toUInt64

def parseNat (s : String) : Option Nat :=
  let cs := s.toList
  if cs.isEmpty then none else
  cs.foldlM (fun (acc : Nat) c =>
    if '0' ≤ c ∧ c ≤ '9' then some (acc * 10 + (c.toNat - '0'.toNat)) else none) 0

def parseInt (s : String) : Option Int :=
  match s.toList with
  | '-' :: cs => (parseNat (String.ofList cs)).map fun n => -(n : Int)
  | _ => (parseNat s).map fun n => (n : Int)

def hexChar (n : Nat) : Char :=
  if n < 10 then Char.ofNat ('0'.toNat + n) else Char.ofNat ('a'.toNat + (n - 10))

def showHex (x : F64) : String :=
  let b := x.toBits.toNat
  String.ofList ((List.range 16).map fun i => hexChar ((b >>> (4 * (15 - i))) % 16))

def showBool (b : Bool) : String := if b then "True" else "False"

/-- error word for the `Option Int` conversions: inf → OverflowError, nan → ValueError -/
def showToInt (x : F64) (r : Option Int) : String :=
  match r with
  | some i => toString i
  | none => if x.isNaN then "ValueError" else "OverflowError"

def parseMixed (s : String) : Option (Sum Int F64) :=
  match s.toList with
  | 'i' :: cs => (parseInt (String.ofList cs)).map .inl
  | _ => (parseHex s).map .inr

/-- a signed chain term: `+123` is added, `-45` is subtracted (the cents themselves are ≥ 0 or < 0
as written after the operator: `+-5` adds minus five cents) -/
def parseTerm (s : String) : Option (Bool × Int) :=
  match s.toList with
  | '+' :: cs => (parseInt (String.ofList cs)).map fun c => (false, c)
  | '-' :: cs => (parseInt (String.ofList cs)).map fun c => (true, c)
  | _ => none

def showCents (x : F64) : String :=
  match centsOf x with
  | some c => toString c
  | none => "none"

/-- `round(y, 2)`, the double of the exact cents, and the cents read back from `round(y, 2)` -/
def centTriple (y : F64) (exact : Int) : String :=
  showHex (roundN y 2) ++ " " ++ showHex (centD exact) ++ " " ++ showCents (roundN y 2)

def un (s : String) (f : F64 → String) : String :=
  match parseHex s with
  | some x => f x
  | none => "bad-arg"

def bin (a b : String) (f : F64 → F64 → String) : String :=
  match parseHex a, parseHex b with
  | some x, some y => f x y
  | _, _ => "bad-arg"

def step (line : String) : String :=
  match line.splitOn " " with
  | ["bits", a] => un a showHex
  | ["add", a, b] => bin a b fun x y => showHex (add x y)
  | ["sub", a, b] => bin a b fun x y => showHex (sub x y)
  | ["mul", a, b] => bin a b fun x y => showHex (mul x y)
  | ["div", a, b] => bin a b fun x y =>
      match div x y with
      | some r => showHex r
      | none => "ZeroDivisionError"
  | ["neg", a] => un a fun x => showHex (neg x)
  | ["abs", a] => un a fun x => showHex (abs x)
  | ["lt", a, b] => bin a b fun x y => showBool (lt x y)
  | ["le", a, b] => bin a b fun x y => showBool (le x y)
  | ["eq", a, b] => bin a b fun x y => showBool (eq x y)
  | ["max", a, b] => bin a b fun x y => showHex (pyMax x y)
  | ["min", a, b] => bin a b fun x y => showHex (pyMin x y)
  | ["isfinite", a] => un a fun x => showBool x.isFinite
  | ["isnan", a] => un a fun x => showBool x.isNaN
  | ["cmpint", a, i] =>
      match parseHex a, parseInt i with
      | some x, some i =>
        (match cmpInt x i with
          | none => "un"
          | some .lt => "lt"
          | some .eq => "eq"
          | some .gt => "gt") ++ " " ++
        showBool (ltInt x i) ++ " " ++ showBool (leInt x i) ++ " " ++ showBool (eqInt x i) ++ " " ++
        showBool (geInt x i) ++ " " ++ showBool (gtInt x i)
      | _, _ => "bad-arg"
  | ["ofint", i] =>
      match parseInt i with
      | some i => (match ofInt i with
          | some r => showHex r
          | none => "OverflowError")
      | none => "bad-arg"
  | ["dec", sg, mant, ex] =>
      match parseNat sg, parseNat mant, parseInt ex with
      | some sg, some mant, some ex =>
        if sg > 1 then "bad-arg" else showHex (ofDecimal (sg = 1) mant ex)
      | _, _, _ => "bad-arg"
  | ["r2", a] => un a fun x => showHex (roundN x 2)
  | ["round", n, a] =>
      match parseNat n, parseHex a with
      | some n, some x => showHex (roundN x n)
      | _, _ => "bad-arg"
  | ["rint", a] => un a fun x => showToInt x (roundInt x)
  | ["ceil", a] => un a fun x => showToInt x (ceil x)
  | ["floor", a] => un a fun x => showToInt x (floor x)
  | ["trunc", a] => un a fun x => showToInt x (trunc x)
  | ["fmt", n, a] =>
      match parseNat n, parseHex a with
      | some n, some x => fmtFixed x n
      | _, _ => "bad-arg"
  | ["rat", a] => un a fun x =>
      match toRatOpt x with
      | some q => toString q.num ++ "/" ++ toString q.den
      | none => "none"
  | "sum" :: xs =>
      if xs.isEmpty then "bad-op" else
      match xs.mapM parseHex with
      | some xs => showHex (pySum xs)
      | none => "bad-arg"
  | "sumfrom" :: s :: xs =>
      match parseHex s, xs.mapM parseHex with
      | some s, some xs => showHex (pySumFrom s xs)
      | _, _ => "bad-arg"
  | "summixed" :: s :: xs =>
      match parseHex s, xs.mapM parseMixed with
      | some s, some xs =>
        (match pySumMixed s xs with
          | some r => showHex r
          | none => "OverflowError")
      | _, _ => "bad-arg"
  | ["cents", a] => un a showCents
  | ["cdec", c] =>
      match parseInt c with
      | some c => showHex (centD c)
      | none => "bad-arg"
  | "cchain" :: c0 :: ts =>
      match parseInt c0, ts.mapM parseTerm with
      | some c0, some ts =>
        let y := ts.foldl (fun acc t => if t.1 then sub acc (centD t.2) else add acc (centD t.2)) (centD c0)
        let exact := ts.foldl (fun acc t => if t.1 then acc - t.2 else acc + t.2) c0
        centTriple y exact
      | _, _ => "bad-arg"
  | "csum" :: c0 :: cs =>
      match parseInt c0, cs.mapM parseInt with
      | some c0, some cs =>
        centTriple (pySum ((c0 :: cs).map centD)) (cs.foldl (· + ·) c0)
      | _, _ => "bad-arg"
  | ["cmax", a, b] =>
      match parseInt a, parseInt b with
      | some a, some b =>
        showHex (pyMax (centD a) (centD b)) ++ " " ++ showCents (pyMax (centD a) (centD b)) ++ " " ++
        showHex (pyMin (centD a) (centD b)) ++ " " ++ showCents (pyMin (centD a) (centD b))
      | _, _ => "bad-arg"
  | ["cmax0", a] =>
      match parseInt a with
      | some a =>
        showHex (pyMax zero (centD a)) ++ " " ++ showCents (pyMax zero (centD a)) ++ " " ++
        showHex (pyMax (centD a) zero) ++ " " ++ showCents (pyMax (centD a) zero)
      | none => "bad-arg"
  | ["ccmp", a, b] =>
      match parseInt a, parseInt b with
      | some a, some b =>
        showBool (lt (centD a) (centD b)) ++ " " ++ showBool (le (centD a) (centD b)) ++ " " ++
        showBool (eq (centD a) (centD b))
      | _, _ => "bad-arg"
  | ["ccmpint", a, n] =>
      match parseInt a, parseInt n with
      | some a, some n =>
        showBool (ltInt (centD a) n) ++ " " ++ showBool (leInt (centD a) n) ++ " " ++
        showBool (eqInt (centD a) n) ++ " " ++ showBool (geInt (centD a) n) ++ " " ++
        showBool (gtInt (centD a) n)
      | _, _ => "bad-arg"
  | ["cmulrate", a, r] =>
      match parseInt a, parseHex r with
      | some a, some r =>
        showHex (roundN (mul (centD a) r) 2) ++ " " ++ showCents (roundN (mul (centD a) r) 2)
      | _, _ => "bad-arg"
  | _ => "bad-op"

end HabuVerif.F64Drv
