import HabuVerif.Core.Cli
import HabuVerif.Drv.IniDrv
/-!
# Line protocol for the CLI / session stream (`tools/harness/cli_stream.py`)

Same conventions as `IniDrv`: text is the lower-case hex of its UTF-8 bytes, `-` for the empty text.
`<triple>` is `<a>:<b>:<c>` (three texts).

    session <file> <triple>*        sessionFile: `ok <text>` | `err <Error>` (file left untouched)
    rerun <file> <triple>*          parseFile of the written text, then `provides` for every answer:
                                    `ok <T|F>*` | `err <Error>` (first or second read failed)
    clean <file> <triple>*          is the configuration that gets written `IniClean`?  T | F | err …
    solution <year> <version> <triple>*   write (attachMeta (toConfig triples) year version): `<text>`
    readback <text>                 parseFile, then readBack: `ok <year> <name>:<opts>|…` | `err <Error>`
    pyint <text>                    `int(text)`: the integer | `none`
    dec <n>                         `str(n)`: `<text>`
-/
set_option autoImplicit false

namespace HabuVerif.CliDrv
open HabuVerif HabuVerif.Ini HabuVerif.Cli HabuVerif.IniDrv

def parseTriple (t : String) : Option (Text × Text × Text) :=
  match t.splitOn ":" with
  | [a, b, c] => do pure ((← fromHex a), (← fromHex b), (← fromHex c))
  | _ => none

def showForms (l : List (Text × List (Text × Text))) : String :=
  joinWith "|" (l.map fun (n, os) => toHex n ++ ":" ++ showOpts os)

def step (line : String) : String :=
  match (line.splitOn " ").filter (· ≠ "") with
  | "session" :: f :: ts => match fromHex f, ts.mapM parseTriple with
    | some file, some as => match sessionFile file as with
      | .ok t => "ok " ++ toHex t
      | .error e => "err " ++ e.name
    | _, _ => "bad-op"
  | "rerun" :: f :: ts => match fromHex f, ts.mapM parseTriple with
    | some file, some as => match sessionFile file as with
      | .error e => "err " ++ e.name
      | .ok t => match parseFile t with
        | .error e => "err " ++ e.name
        | .ok c => joinWith " " ("ok" :: as.map fun a => if provides c a.1 a.2.1 then "T" else "F")
    | _, _ => "bad-op"
  | "clean" :: f :: ts => match fromHex f, ts.mapM parseTriple with
    | some file, some as => match parseFile file with
      | .error e => "err " ++ e.name
      | .ok c => if decide (IniClean (applyAnswersP c as).1) then "T" else "F"
    | _, _ => "bad-op"
  | "solution" :: y :: v :: ts => match y.toNat?, fromHex v, ts.mapM parseTriple with
    | some year, some ver, some triples => toHex (write (attachMeta (toConfig triples) year ver))
    | _, _, _ => "bad-op"
  | ["readback", t] => match fromHex t with
    | some text => match parseFile text with
      | .error e => "err " ++ e.name
      | .ok c => match readBack c with
        | .error e => "err " ++ e.name
        | .ok (y, forms) => s!"ok {y} {showForms forms}"
    | none => "bad-op"
  | ["pyint", t] => match fromHex t with
    | some text => match pyInt text with
      | some i => toString i
      | none => "none"
    | none => "bad-op"
  | ["dec", n] => match n.toNat? with
    | some k => toHex (decOfNat k)
    | none => "bad-op"
  | _ => "bad-op"

end HabuVerif.CliDrv
