import HabuVerif.Ini
import HabuVerif.Core.Pdf
/-!
# Line protocol for the INI / FDF correspondence stream (`tools/harness/ini_stream.py`)

`step : String → String` is pure and stateless: every line carries a whole case.  Text travels as the
lower-case hex of its UTF-8 bytes, the empty text as `-`.

    parse <text> <query>*          read_string on a fresh parser, then the queries
    parsefile <text> <query>*      the same after universal-newline translation (read_file(open(..)))
    ops <text|!> <op>*             start from parse(text) (or the empty parser for `!`), run the ops
    fdf <k>=<v>*                   createFdf
    fdfraw <k>=<v>*                createFdfRaw
    pdfdec <text>                  pdfDecodeString
    fdfdec <text>                  decodeFdfFields
    fill <name>:<jur>:<seq>:<0|1>* fillSelection

queries / ops (fields separated by `:`) and their answers:

    h:s:k  has_option    T | F                  g:s:k  get         =<text> | !<Error>
    o:s    options       [k,k,…] | !<Error>     secs   sections()  [s,…]
    iter   list(parser)  [s,…]                  dump               the whole content
    clean  is the content `IniClean` (round trip proved)?  T | F
    as:s   add_section   ok | !<Error>          set:s:k:v          ok | !<Error>
    setx:s:k:<pyval>     set with any value     ro:s:k  remove_option   T | F | !<Error>
    rs:s   remove_section T | F                 w      write       =<text>
    rr     write, then re-read into a fresh parser   ok | !<Error>
    si:s:k=<pyval>;…     parser[s] = {…}        ps:s:k:<pyval>     parser[s][k] = v
    pg:s:k parser[s][k]                         pi:s   list(parser[s])

`<pyval>` is `s<text>`, `i<int>` or `n` (None).  Content dump: `*:<opts>|<name>:<opts>|…` with `<opts>` =
`k=v,k=v,…`.
-/
set_option autoImplicit false

namespace HabuVerif.IniDrv
open HabuVerif HabuVerif.Ini

def hexDigit (n : Nat) : Char :=
  if n < 10 then Char.ofNat (48 + n) else Char.ofNat (87 + n)

def hexVal (c : Char) : Option Nat :=
  let n := c.toNat
  if 48 ≤ n ∧ n ≤ 57 then some (n - 48)
  else if 97 ≤ n ∧ n ≤ 102 then some (n - 87)
  else none

def toHex (t : List Char) : String :=
  if t.isEmpty then "-" else
  let bytes := (String.ofList t).toUTF8
  String.ofList (bytes.toList.flatMap fun b => [hexDigit (b.toNat / 16), hexDigit (b.toNat % 16)])

def hexBytes : List Char → Option (List UInt8)
  | [] => some []
  | [_] => none
  | a :: b :: r => do
    let x ← hexVal a
    let y ← hexVal b
    let rest ← hexBytes r
    pure (UInt8.ofNat (x * 16 + y) :: rest)

def fromHex (s : String) : Option (List Char) :=
  if s = "-" then some [] else do
    let bs ← hexBytes s.toList
    let str ← String.fromUTF8? (ByteArray.mk bs.toArray)
    pure str.toList

def joinWith (sep : String) (l : List String) : String := sep.intercalate l

def showList (l : List (List Char)) : String := "[" ++ joinWith "," (l.map toHex) ++ "]"

def showOpts (os : List (Text × Text)) : String :=
  joinWith "," (os.map fun (k, v) => toHex k ++ "=" ++ toHex v)

def dump (c : Config) : String :=
  joinWith "|" (("*:" ++ showOpts c.defaults) :: c.sections.map fun (n, os) => toHex n ++ ":" ++ showOpts os)

def showErr (e : Err) : String := "!" ++ e.name

def parsePyVal (s : String) : Option PyVal :=
  match s.toList with
  | 'n' :: [] => some .none
  | 's' :: r => (fromHex (String.ofList r)).map .str
  | 'i' :: r => (String.ofList r).toInt?.map .int
  | _ => none

def parseItems (s : String) : Option (List (Text × PyVal)) :=
  if s.isEmpty then some [] else
  (s.splitOn ";").mapM fun it =>
    match it.splitOn "=" with
    | [k, v] => do
      let k ← fromHex k
      let v ← parsePyVal v
      pure (k, v)
    | _ => none

/-- one query or op: new state and the answer token -/
def runOp (c : Config) (op : String) : Config × String :=
  let bad := (c, "bad-op")
  let fs := op.splitOn ":"
  let arg (i : Nat) : Option Text := (fs[i]?).bind fromHex
  match fs.head? with
  | some "h" => match arg 1, arg 2 with
    | some s, some k => (c, if c.hasOption s k then "T" else "F")
    | _, _ => bad
  | some "g" => match arg 1, arg 2 with
    | some s, some k => (c, match c.get s k with | .ok v => "=" ++ toHex v | .error e => showErr e)
    | _, _ => bad
  | some "o" => match arg 1 with
    | some s => (c, match c.options s with | .ok l => showList l | .error e => showErr e)
    | _ => bad
  | some "secs" => (c, showList c.sectionNames)
  | some "iter" => (c, showList c.iter)
  | some "dump" => (c, dump c)
  | some "clean" => (c, if decide (IniClean c) then "T" else "F")
  | some "as" => match arg 1 with
    | some s => (match c.addSection s with | .ok c' => (c', "ok") | .error e => (c, showErr e))
    | _ => bad
  | some "set" => match arg 1, arg 2, arg 3 with
    | some s, some k, some v => (match c.set s k v with | .ok c' => (c', "ok") | .error e => (c, showErr e))
    | _, _, _ => bad
  | some "setx" => match arg 1, arg 2, (fs[3]?).bind parsePyVal with
    | some s, some k, some v => (match c.setAny s k v with | .ok c' => (c', "ok") | .error e => (c, showErr e))
    | _, _, _ => bad
  | some "ro" => match arg 1, arg 2 with
    | some s, some k => (match c.removeOption s k with
      | .ok (b, c') => (c', if b then "T" else "F")
      | .error e => (c, showErr e))
    | _, _ => bad
  | some "rs" => match arg 1 with
    | some s => let (b, c') := c.removeSection s; (c', if b then "T" else "F")
    | _ => bad
  | some "w" => (c, "=" ++ toHex (write c))
  | some "rr" => (match parse (write c) with | .ok c' => (c', "ok") | .error e => (c, showErr e))
  | some "si" => match arg 1, (fs[2]?).bind parseItems with
    | some s, some items =>
      let (c', e) := c.setItem s items
      (c', match e with | none => "ok" | some e => showErr e)
    | _, _ => bad
  | some "ps" => match arg 1, arg 2, (fs[3]?).bind parsePyVal with
    | some s, some k, some v => (match c.proxySet s k v with | .ok c' => (c', "ok") | .error e => (c, showErr e))
    | _, _, _ => bad
  | some "pg" => match arg 1, arg 2 with
    | some s, some k => (c, match c.proxyGet s k with | .ok v => "=" ++ toHex v | .error e => showErr e)
    | _, _ => bad
  | some "pi" => match arg 1 with
    | some s => (c, match c.proxyIter s with | .ok l => showList l | .error e => showErr e)
    | _ => bad
  | _ => bad

def runOps : Config → List String → List String
  | _, [] => []
  | c, op :: ops => let (c', a) := runOp c op; a :: runOps c' ops

def parsePairs (toks : List String) : Option (List (Text × Text)) :=
  toks.mapM fun t => match t.splitOn "=" with
    | [k, v] => do pure ((← fromHex k), (← fromHex v))
    | _ => none

def parseForm (t : String) : Option Pdf.FormInfo :=
  match t.splitOn ":" with
  | [n, j, s, b] => do
    pure { name := (← fromHex n), jurisdiction := (← j.toNat?), sequenceNo := (← s.toNat?),
           needsFiling := decide (b = "1") }
  | _ => none

def step (line : String) : String :=
  match (line.splitOn " ").filter (· ≠ "") with
  | "parse" :: t :: qs => match fromHex t with
    | some text => match parse text with
      | .ok c => joinWith " " ("ok" :: dump c :: runOps c qs)
      | .error e => "err " ++ e.name
    | none => "bad-op"
  | "parsefile" :: t :: qs => match fromHex t with
    | some text => match parseFile text with
      | .ok c => joinWith " " ("ok" :: dump c :: runOps c qs)
      | .error e => "err " ++ e.name
    | none => "bad-op"
  | "ops" :: t :: ops =>
    if t = "!" then joinWith " " ("ok" :: runOps {} ops)
    else match fromHex t with
    | some text => match parse text with
      | .ok c => joinWith " " ("ok" :: runOps c ops)
      | .error e => "err " ++ e.name
    | none => "bad-op"
  | "fdf" :: ps => match parsePairs ps with
    | some m => toHex (Pdf.createFdf m)
    | none => "bad-op"
  | "fdfraw" :: ps => match parsePairs ps with
    | some m => toHex (Pdf.createFdfRaw m)
    | none => "bad-op"
  | ["pdfdec", t] => match fromHex t with
    | some text => match Pdf.pdfDecodeString text with
      | some (s, r) => toHex s ++ " " ++ toHex r
      | none => "none"
    | none => "bad-op"
  | ["fdfdec", t] => match fromHex t with
    | some text => match Pdf.decodeFdfFields text with
      | some m => "some " ++ showOpts m
      | none => "none"
    | none => "bad-op"
  | "fill" :: fs => match fs.mapM parseForm with
    | some l => showList ((Pdf.fillSelection l).map (·.name))
    | none => "bad-op"
  | _ => "bad-op"

end HabuVerif.IniDrv
