import HabuVerif.Core.SortKeys
import HabuVerif.Dsl.Cat
import HabuVerif.Gen.Catalogue2021
import HabuVerif.Gen.Catalogue2022
import HabuVerif.Gen.Catalogue2023
/-!
# Line protocol for the `real` and `dsl` correspondence streams

A block starts with `real-begin <year>` (the catalogue is the compiled translation `Gen.year<year>`)
or `dsl-begin` (the catalogue is empty and is defined line by line in the translator's wire
format: `enum`, `global`, `class`, `input`, `threshold`, `line`) and ends with `end`.  Inside a block:

* `inp <name> <text…>`            add an entry of the input file (text = rest of the line);
                                  `inph <name> <hex>` the same with the text hex-encoded
* `solve <forms,> <extra,>`       run the solver model (natural schedule, no prompt); answers the
                                  result lines and a final `done`
* `eval <form> <line> <nv> (<name> <val>)* <ni> (<name> <val>)* <nf> <form>*`
                                  run ONE line against stub stores; answers one line

Wire format: prefix-coded tokens separated by single spaces; a string is `s` followed by the hex of
its UTF-8 bytes; a list is its length followed by the elements.  Values print canonically
(`showVal`): floats as 16 hex digits of the IEEE bit pattern, strings as hex.  Core only; parsers
use fuel (the token count), the model functions they call do not.
-/
set_option autoImplicit false

namespace HabuVerif.RealDrv
open HabuVerif HabuVerif.Dsl

/-! ## printing -/

def hexChar (n : Nat) : Char :=
  if n < 10 then Char.ofNat ('0'.toNat + n) else Char.ofNat ('a'.toNat + (n - 10))

def showBits (x : F64) : String :=
  let b := x.toBits.toNat
  String.ofList ((List.range 16).map fun i => hexChar ((b >>> (4 * (15 - i))) % 16))

def hexOfString (s : String) : String :=
  String.ofList (s.toUTF8.toList.flatMap fun b => [hexChar (b.toNat / 16), hexChar (b.toNat % 16)])

def joinWith (sep : String) (l : List String) : String := sep.intercalate l

mutual
  def showVal : Val → String
    | .none => "None"
    | .bool b => if b then "True" else "False"
    | .int i => "i:" ++ Val.intToStr i
    | .float x => "f:" ++ showBits x
    | .str s => "s:" ++ hexOfString s
    | .enumv _ m => "e:" ++ m
    | .tuple xs => "t[" ++ showVals xs ++ "]"
    | .list xs => "l[" ++ showVals xs ++ "]"
    | .dict ks vs => "d[" ++ showVals ks ++ "|" ++ showVals vs ++ "]"
  def showVals : List Val → String
    | [] => ""
    | [x] => showVal x
    | x :: xs => showVal x ++ "," ++ showVals xs
end

def errName (code : Nat) : String :=
  match Dsl.PyErr.ofCode code with
  | some e => e.pyName
  | none => s!"Code{code}"

/-! ## parsing the wire format -/

def hexVal (c : Char) : Option Nat :=
  if '0' ≤ c ∧ c ≤ '9' then some (c.toNat - '0'.toNat)
  else if 'a' ≤ c ∧ c ≤ 'f' then some (c.toNat - 'a'.toNat + 10)
  else none

def hexBytes : List Char → Option (List UInt8)
  | [] => some []
  | [_] => none
  | a :: b :: rest => do
    let x ← hexVal a
    let y ← hexVal b
    let r ← hexBytes rest
    pure ((x * 16 + y).toUInt8 :: r)

/-- `s<hex>` -/
def parseStrTok (t : String) : Option String :=
  match t.toList with
  | 's' :: cs => do
    let bs ← hexBytes cs
    String.fromUTF8? (ByteArray.mk bs.toArray)
  | _ => none

def parseNatTok (t : String) : Option Nat := t.toNat?
def parseIntTok (t : String) : Option Int := t.toInt?

def parseHex64 (t : String) : Option F64 :=
  let cs := t.toList
  if cs.length ≠ 16 then none else
  (cs.foldlM (fun (acc : Nat) c => (hexVal c).map (acc * 16 + ·)) 0).map fun n => F64.ofBits n.toUInt64

abbrev Toks := List String
abbrev P (α : Type) := Toks → Option (α × Toks)

def pTok : P String
  | [] => none
  | t :: ts => some (t, ts)

def pStr : P String := fun ts => do
  let (t, ts) ← pTok ts
  let s ← parseStrTok t
  pure (s, ts)

def pNat : P Nat := fun ts => do
  let (t, ts) ← pTok ts
  let n ← parseNatTok t
  pure (n, ts)

def pBool : P Bool := fun ts => do
  let (t, ts) ← pTok ts
  if t == "1" then pure (true, ts) else if t == "0" then pure (false, ts) else none

/-- `n` items -/
def pMany {α : Type} (p : P α) : Nat → P (List α)
  | 0, ts => some ([], ts)
  | n + 1, ts => do
    let (x, ts) ← p ts
    let (xs, ts) ← pMany p n ts
    pure (x :: xs, ts)

def pList {α : Type} (p : P α) : P (List α) := fun ts => do
  let (n, ts) ← pNat ts
  pMany p n ts

def pVal : Nat → P Val
  | 0, _ => none
  | fuel + 1, ts => do
    let (t, ts) ← pTok ts
    match t with
    | "none" => pure (.none, ts)
    | "bool" => do let (b, ts) ← pBool ts; pure (.bool b, ts)
    | "int" => do let (t, ts) ← pTok ts; let i ← parseIntTok t; pure (.int i, ts)
    | "float" => do let (t, ts) ← pTok ts; let x ← parseHex64 t; pure (.float x, ts)
    | "str" => do let (s, ts) ← pStr ts; pure (.str s, ts)
    | "enumv" => do let (e, ts) ← pStr ts; let (m, ts) ← pStr ts; pure (.enumv e m, ts)
    | "tuple" => do let (xs, ts) ← pList (pVal fuel) ts; pure (.tuple xs, ts)
    | "list" => do let (xs, ts) ← pList (pVal fuel) ts; pure (.list xs, ts)
    | "dict" => do
      let (ks, ts) ← pList (pVal fuel) ts
      let (vs, ts) ← pList (pVal fuel) ts
      pure (.dict ks vs, ts)
    | _ => none

def pBinOp : P BinOp := fun ts => do
  let (t, ts) ← pTok ts
  match t with
  | "add" => pure (.add, ts) | "sub" => pure (.sub, ts) | "mul" => pure (.mul, ts) | "div" => pure (.div, ts)
  | _ => none

def pCmpOp : P CmpOp := fun ts => do
  let (t, ts) ← pTok ts
  match t with
  | "eq" => pure (.eq, ts) | "ne" => pure (.ne, ts) | "lt" => pure (.lt, ts) | "le" => pure (.le, ts)
  | "gt" => pure (.gt, ts) | "ge" => pure (.ge, ts) | "in_" => pure (.in_, ts) | "notIn" => pure (.notIn, ts)
  | "is_" => pure (.is_, ts) | "isNot" => pure (.isNot, ts)
  | _ => none

def pBuiltin : P Builtin := fun ts => do
  let (t, ts) ← pTok ts
  match t with
  | "sum" => pure (.sum, ts) | "min" => pure (.min, ts) | "max" => pure (.max, ts)
  | "float" => pure (.float, ts) | "str" => pure (.str, ts) | "len" => pure (.len, ts)
  | "round" => pure (.round, ts) | "ceil" => pure (.ceil, ts) | "list" => pure (.list, ts)
  | "range" => pure (.range, ts)
  | _ => none

def pMethod : P Method := fun ts => do
  let (t, ts) ← pTok ts
  match t with
  | "upper" => pure (.upper, ts) | "lower" => pure (.lower, ts) | "strip" => pure (.strip, ts)
  | "split" => pure (.split, ts) | "join" => pure (.join, ts)
  | _ => none

def pPyErr : P Dsl.PyErr := fun ts => do
  let (t, ts) ← pTok ts
  match t with
  | "typeError" => pure (.typeError, ts) | "zeroDivisionError" => pure (.zeroDivisionError, ts)
  | "keyError" => pure (.keyError, ts) | "indexError" => pure (.indexError, ts)
  | "attributeError" => pure (.attributeError, ts) | "assertionError" => pure (.assertionError, ts)
  | "valueError" => pure (.valueError, ts) | "overflowError" => pure (.overflowError, ts)
  | "nameError" => pure (.nameError, ts) | "unsupported" => pure (.unsupported, ts)
  | "internal" => pure (.internal, ts)
  | _ => none

def pDefault (fuel : Nat) : P (String × Val) := fun ts => do
  let (n, ts) ← pStr ts
  let (v, ts) ← pVal fuel ts
  pure ((n, v), ts)

mutual
  def pExpr : Nat → P Expr
    | 0, _ => none
    | fuel + 1, ts => do
      let (t, ts) ← pTok ts
      match t with
      | "const" => do let (v, ts) ← pVal fuel ts; pure (.const v, ts)
      | "var" => do let (x, ts) ← pStr ts; pure (.var x, ts)
      | "readI" => do let (e, ts) ← pExpr fuel ts; pure (.readI e, ts)
      | "readV" => do let (e, ts) ← pExpr fuel ts; pure (.readV e, ts)
      | "neg" => do let (e, ts) ← pExpr fuel ts; pure (.neg e, ts)
      | "pos" => do let (e, ts) ← pExpr fuel ts; pure (.pos e, ts)
      | "not" => do let (e, ts) ← pExpr fuel ts; pure (.not e, ts)
      | "attrFail" => do let (e, ts) ← pExpr fuel ts; pure (.attrFail e, ts)
      | "fstr" => do let (xs, ts) ← pList (pExpr fuel) ts; pure (.fstr xs, ts)
      | "bin" => do
        let (op, ts) ← pBinOp ts
        let (a, ts) ← pExpr fuel ts
        let (b, ts) ← pExpr fuel ts
        pure (.bin op a b, ts)
      | "and" => do let (a, ts) ← pExpr fuel ts; let (b, ts) ← pExpr fuel ts; pure (.and a b, ts)
      | "or" => do let (a, ts) ← pExpr fuel ts; let (b, ts) ← pExpr fuel ts; pure (.or a b, ts)
      | "cmp" => do
        let (a, ts) ← pExpr fuel ts
        let (ops, ts) ← pList pCmpOp ts
        let (es, ts) ← pList (pExpr fuel) ts
        pure (.cmp a ops es, ts)
      | "ite" => do
        let (c, ts) ← pExpr fuel ts
        let (a, ts) ← pExpr fuel ts
        let (b, ts) ← pExpr fuel ts
        pure (.ite c a b, ts)
      | "call" => do
        let (f, ts) ← pBuiltin ts
        let (xs, ts) ← pList (pExpr fuel) ts
        pure (.call f xs, ts)
      | "method" => do
        let (m, ts) ← pMethod ts
        let (o, ts) ← pExpr fuel ts
        let (xs, ts) ← pList (pExpr fuel) ts
        pure (.method m o xs, ts)
      | "attr" => do let (o, ts) ← pExpr fuel ts; let (n, ts) ← pStr ts; pure (.attr o n, ts)
      | "raise" => do let (e, ts) ← pPyErr ts; pure (.raise e, ts)
      | "threshold" => do
        let (n, ts) ← pExpr fuel ts
        let (h, ts) ← pBool ts
        let (k, ts) ← pExpr fuel ts
        pure (.threshold n h k, ts)
      | "thresholdOf" => do
        let (f, ts) ← pExpr fuel ts
        let (n, ts) ← pExpr fuel ts
        let (h, ts) ← pBool ts
        let (k, ts) ← pExpr fuel ts
        pure (.thresholdOf f n h k, ts)
      | "loadedForm" => do let (e, ts) ← pExpr fuel ts; pure (.loadedForm e, ts)
      | "instance" => pure (.instance, ts)
      | "notImpl" => do let (xs, ts) ← pList (pExpr fuel) ts; pure (.notImpl xs, ts)
      | "tupleE" => do let (xs, ts) ← pList (pExpr fuel) ts; pure (.tuple xs, ts)
      | "listE" => do let (xs, ts) ← pList (pExpr fuel) ts; pure (.list xs, ts)
      | "dictE" => do
        let (ks, ts) ← pList (pVal fuel) ts
        let (vs, ts) ← pList (pExpr fuel) ts
        pure (.dict ks vs, ts)
      | "index" => do let (a, ts) ← pExpr fuel ts; let (b, ts) ← pExpr fuel ts; pure (.index a b, ts)
      | "slice" => do
        let (a, ts) ← pExpr fuel ts
        let (l, ts) ← pExpr fuel ts
        let (h, ts) ← pExpr fuel ts
        pure (.slice a l h, ts)
      | "listComp" => do
        let (elt, ts) ← pExpr fuel ts
        let (xs, ts) ← pList pStr ts
        let (it, ts) ← pExpr fuel ts
        let (cs, ts) ← pList (pExpr fuel) ts
        pure (.listComp elt xs it cs, ts)
      | "sumGen" => do
        let (elt, ts) ← pExpr fuel ts
        let (xs, ts) ← pList pStr ts
        let (it, ts) ← pExpr fuel ts
        let (cs, ts) ← pList (pExpr fuel) ts
        pure (.sumGen elt xs it cs, ts)
      | "callHelper" => do
        let (ps, ts) ← pList pStr ts
        let (as, ts) ← pList (pExpr fuel) ts
        let (ds, ts) ← pList (pDefault fuel) ts
        let (body, ts) ← pList (pStmt fuel) ts
        pure (.callHelper ps as ds body, ts)
      | "global" => do let (n, ts) ← pStr ts; pure (.global n, ts)
      | "unsupported" => do let (n, ts) ← pStr ts; pure (.unsupported n, ts)
      | _ => none
  def pStmt : Nat → P Stmt
    | 0, _ => none
    | fuel + 1, ts => do
      let (t, ts) ← pTok ts
      match t with
      | "assign" => do let (x, ts) ← pStr ts; let (e, ts) ← pExpr fuel ts; pure (.assign x e, ts)
      | "unpack" => do let (xs, ts) ← pList pStr ts; let (e, ts) ← pExpr fuel ts; pure (.unpack xs e, ts)
      | "aug" => do
        let (x, ts) ← pStr ts
        let (op, ts) ← pBinOp ts
        let (e, ts) ← pExpr fuel ts
        pure (.aug x op e, ts)
      | "ifS" => do
        let (c, ts) ← pExpr fuel ts
        let (a, ts) ← pList (pStmt fuel) ts
        let (b, ts) ← pList (pStmt fuel) ts
        pure (.ifS c a b, ts)
      | "forS" => do
        let (xs, ts) ← pList pStr ts
        let (it, ts) ← pExpr fuel ts
        let (b, ts) ← pList (pStmt fuel) ts
        pure (.forS xs it b, ts)
      | "ret" => do let (e, ts) ← pExpr fuel ts; pure (.ret e, ts)
      | "expr" => do let (e, ts) ← pExpr fuel ts; pure (.expr e, ts)
      | "assertS" => do let (e, ts) ← pExpr fuel ts; let (m, ts) ← pExpr fuel ts; pure (.assertS e m, ts)
      | "append" => do let (x, ts) ← pStr ts; let (e, ts) ← pExpr fuel ts; pure (.append x e, ts)
      | "continueS" => pure (.continueS, ts)
      | "breakS" => pure (.breakS, ts)
      | "pass" => pure (.pass, ts)
      | _ => none
end

def pRe : Nat → P Re
  | 0, _ => none
  | fuel + 1, ts => do
    let (t, ts) ← pTok ts
    match t with
    | "eps" => pure (.eps, ts)
    | "bol" => pure (.bol, ts)
    | "eol" => pure (.eol, ts)
    | "unsupported" => pure (.unsupported, ts)
    | "cls" => do
      let (rs, ts) ← pList (fun ts => do
        let (a, ts) ← pNat ts
        let (b, ts) ← pNat ts
        pure ((a, b), ts)) ts
      let (neg, ts) ← pBool ts
      pure (.cls rs neg, ts)
    | "seq" => do let (a, ts) ← pRe fuel ts; let (b, ts) ← pRe fuel ts; pure (.seq a b, ts)
    | "alt" => do let (a, ts) ← pRe fuel ts; let (b, ts) ← pRe fuel ts; pure (.alt a b, ts)
    | "rep" => do
      let (a, ts) ← pRe fuel ts
      let (lo, ts) ← pNat ts
      let (t, ts) ← pTok ts
      let hi ← if t == "inf" then some none else (parseNatTok t).map some
      pure (.rep a lo hi, ts)
    | _ => none

def pFieldKind : P FieldKind := fun ts => do
  let (t, ts) ← pTok ts
  match t with
  | "str" => pure (.str, ts) | "bool" => pure (.bool, ts) | "int" => pure (.int, ts)
  | "float" => do let (n, ts) ← pNat ts; pure (.float n, ts)
  | "enum" => do let (e, ts) ← pStr ts; pure (.enum e, ts)
  | _ => none

def pInputKind (fuel : Nat) : P InputKind := fun ts => do
  let (t, ts) ← pTok ts
  match t with
  | "str" => pure (.str, ts) | "bool" => pure (.bool, ts) | "int" => pure (.int, ts)
  | "float" => pure (.float, ts) | "ssn" => pure (.ssn, ts)
  | "enum" => do let (e, ts) ← pStr ts; let (b, ts) ← pBool ts; pure (.enum e b, ts)
  | "regex" => do let (r, ts) ← pRe fuel ts; pure (.regex r, ts)
  | _ => none

def pThresh (fuel : Nat) : P Thresh := fun ts => do
  let (t, ts) ← pTok ts
  match t with
  | "scalar" => do let (v, ts) ← pVal fuel ts; pure (.scalar v, ts)
  | "table" => do
    let (rows, ts) ← pList (fun ts => do
      let (t, ts) ← pTok ts
      let (k, ts) ← (match t with
        | "one" => do let (v, ts) ← pVal fuel ts; pure (ThreshKey.one v, ts)
        | "many" => do let (vs, ts) ← pList (pVal fuel) ts; pure (ThreshKey.many vs, ts)
        | _ => none : Option (ThreshKey × Toks))
      let (v, ts) ← pVal fuel ts
      pure ((k, v), ts)) ts
    pure (.table rows, ts)
  | _ => none

/-! ## cases -/

structure Case where
  year : YearDecl := { year := 0, classes := [], enums := [], globals := [] }
  inp : List (String × String) := []

def restAfter (line : String) (k : Nat) : String :=
  joinWith " " ((line.splitOn " ").drop k)

def updClass (y : YearDecl) (name : String) (g : ClassDecl → ClassDecl) : YearDecl :=
  if y.classes.any (·.name == name) then
    { y with classes := y.classes.map fun c => if c.name == name then g c else c }
  else
    { y with classes := y.classes ++
        [g { name := name, instRule := .any, inputs := [], lines := [], thresholds := [] }] }

def splitCommas (s : String) : List String := if s.isEmpty then [] else s.splitOn ","

def sortStrs (l : List String) : List String := l.mergeSort (fun a b => a ≤ b)

def showDeps (t : Tracker String String) : String :=
  joinWith ";" (t.unmet.map fun (d, ws) => d ++ ":" ++ joinWith "," ws)

def naturalSched : Sched String String :=
  { sortQ := SortKeys.naturalSort, sortW := SortKeys.naturalSort, sortI := SortKeys.naturalSort,
    sortR := id }

/-- abort lines: the Python exception class, then what identifies the place -/
def showAbort : Abort String String String → String
  | .unsupportedForm f => s!"NotImplementedError form={classOf f}"
  | .ctorError f => s!"AssertionError ctor={classOf f}"
  | .badName => "ValueError badName"
  | .noSuchField n => s!"AssertionError noSuchField={n}"
  | .recursion _ => "RecursionError"
  | .invalidInput x => s!"InvalidInput input={x}"
  | .invalidAnswer x => s!"AssertionError invalidAnswer={x}"
  | .noForm n _ => s!"KeyError line={n}"
  | .lineErr n c => s!"{errName c} line={n}"
  | .keyError n => s!"KeyError field={n}"
  | .trackerCrash => "IndexError trackerCrash"
  | .specFuel => "specFuel"

def runSolve (c : Case) (forms extra : List String) : List String :=
  match solve (mkCat c.year) naturalSched none c.inp forms extra 1000000 1000000 with
  | .error a => [s!"verdict abort {showAbort a}"]
  | .ok none => ["verdict fuel"]
  | .ok (some s) =>
    let attempts := s.log.reverse.filterMap fun e => match e with
      | .attempt n => some n
      | _ => none
    [ s!"verdict {if s.solved then "solved" else "failed"}",
      "v " ++ joinWith ";" (sortStrs (s.v.map fun (n, x) => n ++ "=" ++ showVal x)),
      "forms " ++ joinWith "," (sortStrs s.forms),
      "unimpl " ++ joinWith "," s.unimpl,
      "unmetI " ++ showDeps s.ideps,
      "unmetF " ++ showDeps s.fdeps,
      "attempts " ++ joinWith "," attempts ]

def showOut : Out String String String Val → String
  | .val v => "val " ++ showVal v
  | .needV n => "needV " ++ n
  | .needI x => "needI " ++ x
  | .needSpec x => "needSpec " ++ x
  | .notImpl => "notImpl"
  | .invalid x => "invalid " ++ x
  | .noForm f => "noForm " ++ f
  | .err c => "err " ++ errName c

def pBinding (fuel : Nat) : P (String × Val) := fun ts => do
  let (n, ts) ← pTok ts
  let (v, ts) ← pVal fuel ts
  pure ((n, v), ts)

def runEval (c : Case) (toks : Toks) : String :=
  let fuel := toks.length + 1
  let r : Option String := do
    let (form, ts) ← pTok toks
    let (line, ts) ← pTok ts
    let (vs, ts) ← pList (pBinding fuel) ts
    let (is, ts) ← pList (pBinding fuel) ts
    let (fs, ts) ← pList pTok ts
    if !ts.isEmpty then none
    let (cls, inst) ← c.year.resolveForm form
    let d ← cls.lines.find? (fun d => d.name == line)
    let t := evalLine c.year cls inst d
    let out := run (fun n => vs.lookup n)
      (fun x => match is.lookup x with
        | some v => InpRes.ok v
        | none => InpRes.missing)
      (fun f => fs.contains f) t
    pure (showOut out)
  r.getD "bad-eval"

def step (c : Case) (line : String) : Case × List String :=
  let toks := line.splitOn " "
  let fuel := toks.length + 1
  let bad : Case × List String := (c, ["bad-op"])
  match toks with
  | "inp" :: x :: _ => ({ c with inp := c.inp ++ [(x, restAfter line 2)] }, [])
  | ["inph", x, h] =>
    (match parseStrTok ("s" ++ h) with
     | some t => ({ c with inp := c.inp ++ [(x, t)] }, [])
     | none => bad)
  | ["inph", x] => ({ c with inp := c.inp ++ [(x, "")] }, [])
  | ["solve", fs, ex] => (c, runSolve c (splitCommas fs) (splitCommas ex) ++ ["done"])
  | ["solve", fs] => (c, runSolve c (splitCommas fs) [] ++ ["done"])
  | "eval" :: rest => (c, [runEval c rest])
  | "enum" :: rest =>
    (match (do
      let (e, ts) ← pStr rest
      let (ms, ts) ← pList pStr ts
      if ts.isEmpty then pure (e, ms) else none : Option (String × List String)) with
     | some (e, ms) => ({ c with year := { c.year with enums := c.year.enums ++ [(e, ms)] } }, [])
     | none => bad)
  | "global" :: rest =>
    (match (do
      let (g, ts) ← pStr rest
      let (v, ts) ← pVal fuel ts
      if ts.isEmpty then pure (g, v) else none : Option (String × Val)) with
     | some (g, v) => ({ c with year := { c.year with globals := c.year.globals ++ [(g, v)] } }, [])
     | none => bad)
  | "class" :: rest =>
    (match (do
      let (n, ts) ← pStr rest
      let (t, ts) ← pTok ts
      if t == "any" then (if ts.isEmpty then pure (n, InstRule.any) else none)
      else if t == "oneOf" then do
        let (is, ts) ← pList pStr ts
        if ts.isEmpty then pure (n, InstRule.oneOf is) else none
      else none : Option (String × InstRule)) with
     | some (n, r) => ({ c with year := updClass c.year n fun d => { d with instRule := r } }, [])
     | none => bad)
  | "input" :: rest =>
    (match (do
      let (cn, ts) ← pStr rest
      let (n, ts) ← pStr ts
      let (k, ts) ← pInputKind fuel ts
      if ts.isEmpty then pure (cn, n, k) else none : Option (String × String × InputKind)) with
     | some (cn, n, k) =>
       ({ c with year := updClass c.year cn fun d => { d with inputs := d.inputs ++ [{ name := n, kind := k }] } }, [])
     | none => bad)
  | "threshold" :: rest =>
    (match (do
      let (cn, ts) ← pStr rest
      let (n, ts) ← pStr ts
      let (t, ts) ← pThresh fuel ts
      if ts.isEmpty then pure (cn, n, t) else none : Option (String × String × Thresh)) with
     | some (cn, n, t) =>
       ({ c with year := updClass c.year cn fun d => { d with thresholds := d.thresholds ++ [(n, t)] } }, [])
     | none => bad)
  | "line" :: rest =>
    (match (do
      let (cn, ts) ← pStr rest
      let (n, ts) ← pStr ts
      let (k, ts) ← pFieldKind ts
      let (req, ts) ← pBool ts
      let (ds, ts) ← pList (pDefault fuel) ts
      let (body, ts) ← pList (pStmt fuel) ts
      if ts.isEmpty then
        pure (cn, ({ name := n, kind := k, required := req, defaults := ds, body := body } : LineDecl))
      else none : Option (String × LineDecl)) with
     | some (cn, d) => ({ c with year := updClass c.year cn fun cd => { cd with lines := cd.lines ++ [d] } }, [])
     | none => bad)
  | _ => bad

/-- the case a `real-begin <year>` / `dsl-begin` line opens -/
def begin? (line : String) : Option Case :=
  match line.splitOn " " with
  | ["real-begin", "2021"] => some { year := Gen.year2021 }
  | ["real-begin", "2022"] => some { year := Gen.year2022 }
  | ["real-begin", "2023"] => some { year := Gen.year2023 }
  | ["dsl-begin"] => some {}
  | _ => none

end HabuVerif.RealDrv
